import RedisGoModel.Props.C15ConfHandler

/-! C15 Stage D, step 5: **the handler-level relation with membership changes (L1C) and its simulation by the protocol model `RSC`.**

    `SysC` is an L1 system (`RS.Sys1`: nodes with votes[] / match[], a growing set of messages) plus, per node, `applied` and `pend`.
    `StepC` has one constructor per branch of `RHC.handleC`:
    * `lift`: any of the 16 branches of `RS.Step1` that read no quorum and take no client / timer action (`Step1L`, the constructors
      of `Step1` word for word) — simulated by the quorum-free L0 steps `RS.StepNQ` exactly as in `Raft/RL1.lean`;
    * the branches that read the configuration `RSC.cfgAt c0 log applied`: `hup` (campaign gate), `win` (vote tally over the voters),
      `commitQ` (`CommittedIndex` over the voters), `propose` (the `pendingConfIndex` gate), and `applyOne` (one more entry applied),
      `forget` (the `Match` of ids that lost their `Progress`), `restart` (role lost, `applied` may fall back), `setPend`
      (`reset` clears `pendingConfIndex` on a node that is not leader — invisible to `RSC`, whose gate only reads a leader's).
    `simC`: related states stay related, and the `RSC` side moves by at most one `CStep`.  Hence every reachable L1C state is
    related to a reachable `RSC` state (`reachC_related`), whose safety is `C15_conf_holds`. -/
namespace RHC
open RS RSC

variable {N : Nat}

/-- the branches of `RS.Step1` that read no quorum and take no client / timer action (constructor for constructor) -/
inductive Step1L : Sys1 N → Sys1 N → Prop
/-- a message with a higher term: become follower at that term (the message is then handled by another step) -/
| higherTerm (s : Sys1 N) (j : Fin N) (t : Nat) (lead : Option (Fin N)) (h : (s.nodes j).term < t) :
    Step1L s ⟨upd1 s.nodes j (bump (s.nodes j) t lead), s.net⟩
/-- MsgVote granted (first vote of the term, or a repeat for the same candidate) -/
| voteGrant (s : Sys1 N) (j c : Fin N) (t li lt : Nat) (hm : s.net (.vote t c j li lt)) (ht : (s.nodes j).term = t)
    (hcan : (s.nodes j).vote = some c ∨ ((s.nodes j).vote = none ∧ (s.nodes j).lead = none))
    (hu : upToDate lt li (s.nodes j).log) :
    Step1L s ⟨upd1 s.nodes j { (s.nodes j) with vote := some c }, send s fun m => m = .voteResp t j c false⟩
/-- MsgVote rejected -/
| voteReject (s : Sys1 N) (j c : Fin N) (t : Nat) :
    Step1L s ⟨s.nodes, send s fun m => m = .voteResp t j c true⟩
/-- MsgVoteResp recorded by a candidate -/
| voteRecord (s : Sys1 N) (i src : Fin N) (rej : Bool) (hm : s.net (.voteResp (s.nodes i).term src i rej))
    (hc : (s.nodes i).role = .candidate) :
    Step1L s ⟨upd1 s.nodes i (recordVote (s.nodes i) src rej), s.net⟩
/-- vote lost, or any other fall-back to follower in the same term; also a crash-restart -/
| stepDown (s : Sys1 N) (i : Fin N) :
    Step1L s ⟨upd1 s.nodes i (stepDownN (s.nodes i)), s.net⟩
/-- the leader's own MsgAppResp, stepped by `advance` once its entries are stable -/
| selfAck (s : Sys1 N) (i : Fin N) (hl : (s.nodes i).role = .leader) :
    Step1L s ⟨upd1 s.nodes i (ackN (s.nodes i) i (s.nodes i).log.length), s.net⟩
/-- the leader sends some slice of its log -/
| sendApp (s : Sys1 N) (i dst : Fin N) (prev cnt : Nat) (hl : (s.nodes i).role = .leader) (hp : prev ≤ (s.nodes i).log.length) :
    Step1L s ⟨s.nodes, send s fun m =>
      m = .app (s.nodes i).term i dst prev (termAt (s.nodes i).log prev) (((s.nodes i).log.drop prev).take cnt) (s.nodes i).commit⟩
/-- MsgApp below the commit index: answer with the commit index -/
| appBelow (s : Sys1 N) (j src : Fin N) (t prev pt : Nat) (ents : Log) (cm : Nat)
    (hm : s.net (.app t src j prev pt ents cm)) (ht : (s.nodes j).term = t) (hnl : (s.nodes j).role ≠ .leader)
    (hlt : prev < (s.nodes j).commit) :
    Step1L s ⟨upd1 s.nodes j (followN (s.nodes j) src), send s fun m => m = .appResp t j src (s.nodes j).commit false⟩
/-- MsgApp accepted -/
| appAccept (s : Sys1 N) (j src : Fin N) (t prev pt : Nat) (ents : Log) (cm : Nat)
    (hm : s.net (.app t src j prev pt ents cm)) (ht : (s.nodes j).term = t) (hnl : (s.nodes j).role ≠ .leader)
    (hmatch : prev ≤ (s.nodes j).log.length ∧ termAt (s.nodes j).log prev = pt) :
    Step1L s ⟨upd1 s.nodes j (acceptN (s.nodes j) src prev ents cm),
             send s fun m => m = .appResp t j src (prev + ents.length) false⟩
/-- MsgApp rejected (log mismatch): only the role/lead change and a reject response -/
| appReject (s : Sys1 N) (j src : Fin N) (t prev : Nat) (ht : (s.nodes j).term = t) (hnl : (s.nodes j).role ≠ .leader) :
    Step1L s ⟨upd1 s.nodes j (followN (s.nodes j) src), send s fun m => m = .appResp t j src prev true⟩
/-- successful MsgAppResp on the leader: Progress.MaybeUpdate -/
| ackRecord (s : Sys1 N) (i src : Fin N) (idx : Nat) (hm : s.net (.appResp (s.nodes i).term src i idx false))
    (hl : (s.nodes i).role = .leader) :
    Step1L s ⟨upd1 s.nodes i (ackN (s.nodes i) src idx), s.net⟩
/-- the leader sends a snapshot of a committed prefix (log compaction made the entries unavailable) -/
| sendSnap (s : Sys1 N) (i dst : Fin N) (k : Nat) (hl : (s.nodes i).role = .leader)
    (hk : 1 ≤ k ∧ k ≤ (s.nodes i).commit ∧ k ≤ (s.nodes i).log.length) :
    Step1L s ⟨s.nodes, send s fun m => m = .snap (s.nodes i).term i dst k ((s.nodes i).log.take k)⟩
/-- MsgSnap at or below the commit index: ignored, answered with the commit index -/
| snapIgnore (s : Sys1 N) (j src : Fin N) (t k : Nat) (ents : Log) (hm : s.net (.snap t src j k ents))
    (ht : (s.nodes j).term = t) (hnl : (s.nodes j).role ≠ .leader) (hle : k ≤ (s.nodes j).commit) :
    Step1L s ⟨upd1 s.nodes j (followN (s.nodes j) src), send s fun m => m = .appResp t j src (s.nodes j).commit false⟩
/-- MsgSnap above the commit index: `restore` -/
| snapRestore (s : Sys1 N) (j src : Fin N) (t k : Nat) (ents : Log) (hm : s.net (.snap t src j k ents))
    (ht : (s.nodes j).term = t) (hnl : (s.nodes j).role ≠ .leader) (hgt : (s.nodes j).commit < k) :
    Step1L s ⟨upd1 s.nodes j (restoreN (s.nodes j) src k ents), send s fun m => m = .appResp t j src k false⟩
/-- heartbeat: `min(match[to], committed)` -/
| sendBeat (s : Sys1 N) (i dst : Fin N) (hl : (s.nodes i).role = .leader) :
    Step1L s ⟨s.nodes, send s fun m => m = .hb (s.nodes i).term i dst (min ((s.nodes i).matchI dst) (s.nodes i).commit)⟩
| beat (s : Sys1 N) (j src : Fin N) (t c : Nat) (hm : s.net (.hb t src j c)) (ht : (s.nodes j).term = t)
    (hnl : (s.nodes j).role ≠ .leader) :
    Step1L s ⟨upd1 s.nodes j (beatN (s.nodes j) src c), s.net⟩


theorem simL {s1 s1' : Sys1 N} {s0 : Sys N}
    (hae_ok : ∀ t src prev pt ents cm, s0.msgs (.ae t src prev pt ents cm) →
       s0.isLdr t src ∧ prev ≤ (s0.llog t).length ∧ pt = termAt (s0.llog t) prev ∧ ents = ((s0.llog t).drop prev).take ents.length)
    (hpn : ∀ i, PrefixOK s0.llog (s0.nodes i).log) (hpl : ∀ t, PrefixOK s0.llog (s0.llog t))
    (r : R s1 s0) (st : Step1L s1 s1') : ∃ s0', StepNQ? s0 s0' ∧ R s1' s0' := by
  cases st with
  | higherTerm j t lead h => exact sim_higherTerm r j t lead h
  | voteGrant j c t li lt hm ht hcan hu => exact sim_voteGrant r j c t li lt hm ht hcan hu
  | voteReject j c t => exact sim_voteReject r j c t
  | voteRecord i src rej hm hc => exact sim_voteRecord r i src rej hm
  | selfAck i hl => exact sim_selfAck r i hl
  | stepDown i => exact sim_stepDown r i
  | sendApp i dst prev cnt hl hp => exact sim_sendApp r i dst prev cnt hl hp
  | appBelow j src t prev pt ents cm hm ht hnl hlt => exact sim_appBelow r j src t prev pt ents cm hm ht hnl hlt
  | appAccept j src t prev pt ents cm hm ht hnl hmatch => exact sim_appAccept r j src t prev pt ents cm hm ht hnl hmatch
  | appReject j src t prev ht hnl => exact sim_appReject r j src t prev
  | ackRecord i src idx hm hl => exact sim_ackRecord r i src idx hm hl
  | sendSnap i dst k hl hk => exact sim_sendSnap r i dst k hl hk
  | snapIgnore j src t k ents hm ht hnl hle => exact sim_snapIgnore r j src t k ents hm ht hnl hle
  | snapRestore j src t k ents hm ht hnl hgt => exact sim_snapRestore hae_ok hpn hpl r j src t k ents hm ht hnl hgt
  | sendBeat i dst hl => exact sim_sendBeat r i dst hl
  | beat j src t c hm ht hnl => exact sim_beat r j src t c hm ht hnl

/-- `sim_snapIgnore` with the weaker premise it really uses (a positive commit index) -/
theorem sim_snapSkip {s1 : Sys1 N} {s0 : Sys N} (r : R s1 s0) (j src : Fin N) (t k : Nat) (ents : Log)
    (hm : s1.net (.snap t src j k ents)) (ht : (s1.nodes j).term = t) (hnl : (s1.nodes j).role ≠ .leader)
    (hpos : 0 < (s1.nodes j).commit) :
    ∃ s0', StepNQ? s0 s0' ∧ R ⟨upd1 s1.nodes j (followN (s1.nodes j) src), send s1 fun m => m = .appResp t j src (s1.nodes j).commit false⟩ s0' := by
  obtain ⟨h1, _, cm, _, hae⟩ := r.net.msnap _ _ _ _ _ hm
  refine ⟨doAckCommitted s0 j src t, Or.inr (StepNQ.ackCommitted s0 j src t 0 0 ents cm hae
    (by rw [r.term]; exact ht) (by rw [r.role]; exact hnl) (by rw [r.commit]; omega)), ?_⟩
  have hmm : ∀ m, s0.msgs m → (doAckCommitted s0 j src t).msgs m := fun _ h => Or.inl h
  have ha : ∀ t' j' n, s0.acks t' j' n → (doAckCommitted s0 j src t).acks t' j' n := fun _ _ _ h => Or.inl h
  refine r.rebuild j _ _ ?_ hmm ha ((r.net.mono hmm ha).add_appResp _ _ _ _ _ fun _ => ?_) ?_
  · simp only [doAckCommitted, ← r.nodes j]; rfl
  · right; rw [r.commit]; exact ⟨rfl, rfl, rfl⟩
  · have o := (r.node j).mono hmm ha
    refine ⟨o.voted, ?_, ?_, ?_⟩ <;> simp [followN]

structure SysC (N : Nat) where
  l1 : Sys1 N
  applied : Fin N → Nat
  pend : Fin N → Nat

def SysC.node (s : SysC N) (i : Fin N) : NodeC N := ⟨s.l1.nodes i, s.applied i, s.pend i⟩

def SysC.cfg (c0 : RQJ.Config) (s : SysC N) (i : Fin N) : RQJ.Config := cfgOf c0 (s.node i)

def SysC.setNode (s : SysC N) (i : Fin N) (x : Node1 N) : SysC N := { s with l1 := ⟨upd1 s.l1.nodes i x, s.l1.net⟩ }

def cHup (s : SysC N) (i : Fin N) : SysC N :=
  { s with l1 := ⟨upd1 s.l1.nodes i (campaign (s.l1.nodes i) i),
                  send s.l1 fun m => ∃ dst, dst ≠ i ∧ m = .vote ((s.l1.nodes i).term + 1) i dst (s.l1.nodes i).log.length (lastTerm (s.l1.nodes i).log)⟩ }

def cWin (s : SysC N) (i : Fin N) : SysC N :=
  { s with
    l1 := ⟨upd1 s.l1.nodes i (winElection (s.l1.nodes i) i), s.l1.net⟩
    pend := updN s.pend i (s.l1.nodes i).log.length }

def cProp (s : SysC N) (i : Fin N) (v : Nat) : SysC N :=
  { s with
    l1 := ⟨upd1 s.l1.nodes i (proposeN (s.l1.nodes i) (gateB (s.applied i) (s.pend i) v)), s.l1.net⟩
    pend := updN s.pend i (if isConfData (gateB (s.applied i) (s.pend i) v) then (s.l1.nodes i).log.length + 1 else s.pend i) }

def cRestart (s : SysC N) (i : Fin N) (a : Nat) : SysC N :=
  { l1 := ⟨upd1 s.l1.nodes i (stepDownN (s.l1.nodes i)), s.l1.net⟩
    applied := updN s.applied i a
    pend := updN s.pend i 0 }

inductive StepC (c0 : RQJ.Config) : SysC N → SysC N → Prop
| lift (s : SysC N) (l1' : Sys1 N) (h : Step1L s.l1 l1') : StepC c0 s { s with l1 := l1' }
| setPend (s : SysC N) (i : Fin N) (p : Nat) (h : (s.l1.nodes i).role ≠ .leader) : StepC c0 s { s with pend := updN s.pend i p }
| hup (s : SysC N) (i : Fin N)
    (hg : campaignGate (decide ((s.l1.nodes i).role = .leader)) (nid i) (s.cfg c0 i) (pendingFlagsC (s.node i)) = true) :
    StepC c0 s (cHup s i)
| win (s : SysC N) (i : Fin N) (hc : (s.l1.nodes i).role = .candidate) (hq : wonVotesC (s.cfg c0 i) (s.l1.nodes i) = true) :
    StepC c0 s (cWin s i)
| propose (s : SysC N) (i : Fin N) (v : Nat) (hl : (s.l1.nodes i).role = .leader) : StepC c0 s (cProp s i v)
| commitQ (s : SysC N) (i : Fin N) (k : Nat) (hl : (s.l1.nodes i).role = .leader)
    (hk : (s.l1.nodes i).commit < k ∧ k ≤ (s.l1.nodes i).log.length) (hterm : termAt (s.l1.nodes i).log k = (s.l1.nodes i).term)
    (hq : quorumB (s.cfg c0 i) (fun j => decide (k ≤ (s.l1.nodes i).matchI j)) = true) :
    StepC c0 s (s.setNode i { (s.l1.nodes i) with commit := k })
| applyOne (s : SysC N) (i : Fin N) (h : s.applied i < (s.l1.nodes i).commit) :
    StepC c0 s { s with applied := updN s.applied i (s.applied i + 1) }
| forget (s : SysC N) (i : Fin N) (m' : Fin N → Nat) (h : ∀ j, m' j = (s.l1.nodes i).matchI j ∨ m' j = 0) :
    StepC c0 s (s.setNode i { (s.l1.nodes i) with matchI := m' })
| restart (s : SysC N) (i : Fin N) (a : Nat) (ha : a ≤ s.applied i) : StepC c0 s (cRestart s i a)
/-- MsgSnap whose `ConfState` does not contain the receiver (`restore`: "not in the ConfState"): ignored, answered with the commit index -/
| snapSkip (s : SysC N) (j src : Fin N) (t k : Nat) (ents : Log) (hm : s.l1.net (.snap t src j k ents))
    (ht : (s.l1.nodes j).term = t) (hnl : (s.l1.nodes j).role ≠ .leader) (hpos : 0 < (s.l1.nodes j).commit) :
    StepC c0 s { s with l1 := ⟨upd1 s.l1.nodes j (followN (s.l1.nodes j) src), send s.l1 fun m => m = .appResp t j src (s.l1.nodes j).commit false⟩ }

/-- the relation between an L1C state and a state of the protocol model -/
structure RC (s : SysC N) (cs : CSys N) : Prop where
  r : R s.l1 cs.base
  applied : ∀ i, cs.applied i = s.applied i
  pend : ∀ i, (s.l1.nodes i).role = .leader → cs.pend i = s.pend i

theorem RC.cfg {c0 : RQJ.Config} {s : SysC N} {cs : CSys N} (rc : RC s cs) (i : Fin N) : RSC.cfg c0 cs i = s.cfg c0 i := by
  unfold RSC.cfg SysC.cfg cfgOf SysC.node; rw [rc.r.log, rc.applied]

theorem updN_self (f : Fin N → Nat) (i : Fin N) : updN f i (f i) = f := by
  funext j; by_cases hj : j = i <;> simp [updN, hj]

/-- a quorum-free L0 step of the base is a step of the protocol model that leaves `applied` alone, leaves the `pend` of every node
    that is leader afterwards alone, and makes nobody leader -/
theorem nq_cstep {c0 : RQJ.Config} {cs : CSys N} {b' : Sys N} (h : StepNQ cs.base b') :
    ∃ cs', CStep c0 .other cs cs' ∧ cs'.base = b' ∧ cs'.applied = cs.applied ∧
      (∀ i, (b'.nodes i).role = .leader → cs'.pend i = cs.pend i ∧ (cs.base.nodes i).role = .leader) := by
  cases h with
  | updateTerm i t ht =>
    refine ⟨_, CStep.updateTerm cs i t ht, rfl, rfl, fun j hj => ?_⟩
    by_cases hji : j = i
    · subst hji; simp [doUpdateTerm] at hj
    · simp only [doUpdateTerm, upd_other _ _ hji] at hj; exact ⟨updN_other _ _ hji, hj⟩
  | grant j c t li lt hm ht hv hu =>
    refine ⟨_, CStep.grant cs j c t li lt hm ht hv hu, rfl, rfl, fun y hy => ⟨rfl, ?_⟩⟩
    by_cases hyj : y = j
    · subst hyj; simpa [doGrant] using hy
    · simpa only [doGrant, upd_other _ _ hyj] using hy
  | sendAE i prev cnt hl hp => exact ⟨_, CStep.sendAE cs i prev cnt hl hp, rfl, rfl, fun y hy => ⟨rfl, hy⟩⟩
  | handleAE j src t prev pt ents cm hm ht hnl hmatch =>
    refine ⟨_, CStep.handleAE cs j src t prev pt ents cm hm ht hnl hmatch, rfl, rfl, fun y hy => ⟨rfl, ?_⟩⟩
    by_cases hyj : y = j
    · subst hyj; simp [doHandleAE] at hy
    · simpa only [doHandleAE, upd_other _ _ hyj] using hy
  | restart i =>
    refine ⟨_, CStep.restart cs i (cs.applied i) (Nat.le_refl _), rfl, updN_self _ _, fun j hj => ?_⟩
    by_cases hji : j = i
    · subst hji; simp [doRestart] at hj
    · simp only [doRestart, upd_other _ _ hji] at hj; exact ⟨updN_other _ _ hji, hj⟩
  | ackCommitted j src t prev pt ents cm hm ht hnl hlt =>
    refine ⟨_, CStep.ackCommitted cs j src t prev pt ents cm hm ht hnl hlt, rfl, rfl, fun y hy => ⟨rfl, ?_⟩⟩
    by_cases hyj : y = j
    · subst hyj; simp [doAckCommitted] at hy
    · simpa only [doAckCommitted, upd_other _ _ hyj] using hy
  | sendHB i dst c hl hc hack => exact ⟨_, CStep.sendHB cs i dst c hl hc hack, rfl, rfl, fun y hy => ⟨rfl, hy⟩⟩
  | handleHB j src t c hm ht hnl =>
    refine ⟨_, CStep.handleHB cs j src t c hm ht hnl, rfl, rfl, fun y hy => ⟨rfl, ?_⟩⟩
    by_cases hyj : y = j
    · subst hyj; simp [doHandleHB] at hy
    · simpa only [doHandleHB, upd_other _ _ hyj] using hy

theorem RC.flags {s : SysC N} {cs : CSys N} (rc : RC s cs) (i : Fin N) : pendingFlags cs i = pendingFlagsC (s.node i) := by
  unfold pendingFlags pendingFlagsC SysC.node; rw [rc.r.log, rc.r.commit, rc.applied]

/-- an L1 move simulated by at most one quorum-free L0 step, read on the protocol model -/
theorem simC_nq {c0 : RQJ.Config} {s : SysC N} {cs : CSys N} (rc : RC s cs) {l1' : Sys1 N}
    (hs : ∃ b', StepNQ? cs.base b' ∧ R l1' b') :
    ∃ cs', (cs' = cs ∨ ∃ lab, CStep c0 lab cs cs') ∧ RC { s with l1 := l1' } cs' := by
  obtain ⟨b', hst, r'⟩ := hs
  rcases hst with e | hnq
  · subst e
    refine ⟨cs, Or.inl rfl, ⟨r', rc.applied, fun i hi => rc.pend i ?_⟩⟩
    rw [← rc.r.role]; rw [← r'.role] at hi; exact hi
  · obtain ⟨cs', cst, hb, hap, hp⟩ := nq_cstep (c0 := c0) hnq
    refine ⟨cs', Or.inr ⟨_, cst⟩, ⟨by rw [hb]; exact r', fun i => by rw [hap]; exact rc.applied i, fun i hi => ?_⟩⟩
    have hi' : (b'.nodes i).role = .leader := by rw [← hb, (show R _ cs'.base from by rw [hb]; exact r').role]; exact hi
    obtain ⟨e1, e2⟩ := hp i hi'
    rw [e1]; exact rc.pend i (by rw [← rc.r.role]; exact e2)

/-- **one L1C step is at most one step of the protocol model** -/
theorem simC {c0 : RQJ.Config} {s s' : SysC N} {cs : CSys N} (cr : CReach c0 cs) (rc : RC s cs) (st : StepC c0 s s') :
    ∃ cs', (cs' = cs ∨ ∃ lab, CStep c0 lab cs cs') ∧ RC s' cs' := by
  cases st with
  | lift l1' h =>
    obtain ⟨h0, _⟩ := RSQ.reach_inv (creach_base cr)
    exact simC_nq rc (simL h0.ae_ok h0.p_nodes h0.p_llog rc.r h)
  | snapSkip j src t k ents hm ht hnl hpos => exact simC_nq rc (sim_snapSkip rc.r j src t k ents hm ht hnl hpos)
  | setPend i p h =>
    refine ⟨cs, Or.inl rfl, ⟨rc.r, rc.applied, fun j hj => ?_⟩⟩
    by_cases hji : j = i
    · subst hji; exact absurd hj h
    · show cs.pend j = updN s.pend i p j
      rw [updN_other _ _ hji]; exact rc.pend j hj
  | hup i hg =>
    have hg' : campaignGate (decide ((cs.base.nodes i).role = .leader)) (nid i) (RSC.cfg c0 cs i) (pendingFlags cs i) = true := by
      rw [rc.r.role, rc.cfg, rc.flags]; exact hg
    obtain ⟨h1, h2, h3⟩ := (campaignGate_iff c0 cs i).1 hg'
    refine ⟨_, Or.inr ⟨_, CStep.timeout cs i h1 h2 h3⟩, ⟨R_hup rc.r i, rc.applied, fun j hj => ?_⟩⟩
    by_cases hji : j = i
    · subst hji; simp [cHup, campaign] at hj
    · show updN cs.pend i 0 j = s.pend j
      rw [updN_other _ _ hji]
      exact rc.pend j (by simpa [cHup, upd1_other _ _ hji] using hj)
  | win i hc hq =>
    obtain ⟨Q, hQ, hall⟩ := wonVotesC_quorum hq
    have hq' : IsQuorumC (RSC.cfg c0 cs i) Q := by rw [rc.cfg]; exact hQ
    have hc' : (cs.base.nodes i).role = .candidate := by rw [rc.r.role]; exact hc
    refine ⟨_, Or.inr ⟨_, CStep.becomeLeader cs i Q hq' hc' (win_backing rc.r i hc Q hall)⟩, ⟨R_win rc.r i Q, rc.applied, fun j hj => ?_⟩⟩
    by_cases hji : j = i
    · subst hji
      show updN cs.pend j (cs.base.nodes j).log.length j = updN s.pend j (s.l1.nodes j).log.length j
      rw [updN_same, updN_same, rc.r.log]
    · show updN cs.pend i (cs.base.nodes i).log.length j = updN s.pend i (s.l1.nodes i).log.length j
      rw [updN_other _ _ hji, updN_other _ _ hji]
      exact rc.pend j (by simpa [cWin, upd1_other _ _ hji] using hj)
  | propose i v hl =>
    have hl' : (cs.base.nodes i).role = .leader := by rw [rc.r.role]; exact hl
    have hgate : gate cs i v = gateB (s.applied i) (s.pend i) v := by unfold gate; rw [rc.applied, rc.pend i hl]
    refine ⟨_, Or.inr ⟨_, CStep.propose cs i v hl'⟩, ⟨?_, rc.applied, fun j hj => ?_⟩⟩
    · show R _ (doClientReq cs.base i (gate cs i v))
      rw [hgate]; exact R_propose rc.r i _ hl
    · by_cases hji : j = i
      · subst hji
        show updN cs.pend j _ j = updN s.pend j _ j
        rw [updN_same, updN_same, hgate, rc.r.log, rc.pend j hl]
      · show updN cs.pend i _ j = updN s.pend i _ j
        rw [updN_other _ _ hji, updN_other _ _ hji]
        exact rc.pend j (by simpa [cProp, upd1_other _ _ hji] using hj)
  | commitQ i k hl hk hterm hq =>
    obtain ⟨Q, hQ, hall'⟩ := quorumB_spec hq
    have hall : ∀ j ∈ Q, k ≤ (s.l1.nodes i).matchI j := fun j hj => by simpa using hall' j hj
    have hq' : IsQuorumC (RSC.cfg c0 cs i) Q := by rw [rc.cfg]; exact hQ
    refine ⟨_, Or.inr ⟨_, CStep.advanceCommit cs i k Q (by rw [rc.r.role]; exact hl) (by rw [rc.r.commit, rc.r.log]; exact hk)
      (by rw [rc.r.log, rc.r.term]; exact hterm) hq' (commit_backing rc.r i k hl hk Q hall)⟩, ⟨R_commitQ rc.r i k, rc.applied, fun j hj => ?_⟩⟩
    refine rc.pend j ?_
    by_cases hji : j = i
    · subst hji; simpa [SysC.setNode] using hj
    · simpa [SysC.setNode, upd1_other _ _ hji] using hj
  | applyOne i h =>
    refine ⟨_, Or.inr ⟨_, CStep.apply cs i (by rw [rc.applied, rc.r.commit]; exact h)⟩, ⟨rc.r, fun j => ?_, rc.pend⟩⟩
    by_cases hji : j = i
    · subst hji; show updN cs.applied j _ j = updN s.applied j _ j; rw [updN_same, updN_same, rc.applied]
    · show updN cs.applied i _ j = updN s.applied i _ j; rw [updN_other _ _ hji, updN_other _ _ hji]; exact rc.applied j
  | forget i m' h =>
    refine ⟨cs, Or.inl rfl, ⟨⟨fun j => ?_, rc.r.net, fun j => ?_⟩, rc.applied, fun j hj => rc.pend j ?_⟩⟩
    · by_cases hji : j = i
      · subst hji; simpa [SysC.setNode, projNode] using rc.r.nodes j
      · simpa [SysC.setNode, upd1_other _ _ hji] using rc.r.nodes j
    · by_cases hji : j = i
      · subst hji
        have o := rc.r.node j
        simp only [SysC.setNode, upd1_same]
        refine ⟨o.voted, o.granted, fun y hy hpos => ?_, o.selfack⟩
        rcases h y with e | e
        · simp only at hpos ⊢; rw [e] at hpos ⊢; exact o.matched y hy hpos
        · simp only at hpos; omega
      · simpa [SysC.setNode, upd1_other _ _ hji] using rc.r.node j
    · by_cases hji : j = i
      · subst hji; simpa [SysC.setNode] using hj
      · simpa [SysC.setNode, upd1_other _ _ hji] using hj
  | restart i a ha =>
    refine ⟨_, Or.inr ⟨_, CStep.restart cs i a (by rw [rc.applied]; exact ha)⟩, ⟨R_stepDown rc.r i, fun j => ?_, fun j hj => ?_⟩⟩
    · by_cases hji : j = i
      · subst hji; show updN cs.applied j a j = updN s.applied j a j; rw [updN_same, updN_same]
      · show updN cs.applied i a j = updN s.applied i a j; rw [updN_other _ _ hji, updN_other _ _ hji]; exact rc.applied j
    · by_cases hji : j = i
      · subst hji; simp [cRestart, stepDownN] at hj
      · show updN cs.pend i 0 j = updN s.pend i 0 j
        rw [updN_other _ _ hji, updN_other _ _ hji]
        exact rc.pend j (by simpa [cRestart, upd1_other _ _ hji] using hj)

def initC (N : Nat) : SysC N := ⟨init1 N, fun _ => 0, fun _ => 0⟩

inductive ReachC (c0 : RQJ.Config) : SysC N → Prop
| init : ReachC c0 (initC N)
| step {s s'} : ReachC c0 s → StepC c0 s s' → ReachC c0 s'

/-- every reachable L1C state is related to a reachable state of the protocol model -/
theorem reachC_related {c0 : RQJ.Config} {s : SysC N} (h : ReachC c0 s) : ∃ cs, CReach c0 cs ∧ RC s cs := by
  induction h with
  | init => exact ⟨cinit N, .init, ⟨R_init, fun _ => rfl, fun _ _ => rfl⟩⟩
  | step _ st ih =>
    obtain ⟨cs, cr, rc⟩ := ih
    obtain ⟨cs', hst, rc'⟩ := simC cr rc st
    rcases hst with e | ⟨lab, cst⟩
    · subst e; exact ⟨_, cr, rc'⟩
    · exact ⟨cs', .step cr cst, rc'⟩

/-! ### C15 with membership changes for the handler-level relation: every reachable L1C state, on node state only -/

theorem L1C_election_safety {c0 : RQJ.Config} {s : SysC N} (h : ReachC c0 s) (i j : Fin N)
    (hi : (s.l1.nodes i).role = .leader) (hj : (s.l1.nodes j).role = .leader) (ht : (s.l1.nodes i).term = (s.l1.nodes j).term) : i = j := by
  obtain ⟨cs, cr, rc⟩ := reachC_related h
  exact conf_election_safety cr i j (by rw [rc.r.role]; exact hi) (by rw [rc.r.role]; exact hj) (by rw [rc.r.term, rc.r.term]; exact ht)

theorem L1C_log_matching {c0 : RQJ.Config} {s : SysC N} (h : ReachC c0 s) (i j : Fin N) (k : Nat) (h1 : 1 ≤ k)
    (hi : k ≤ (s.l1.nodes i).log.length) (hj : k ≤ (s.l1.nodes j).log.length)
    (ht : termAt (s.l1.nodes i).log k = termAt (s.l1.nodes j).log k) : (s.l1.nodes i).log.take k = (s.l1.nodes j).log.take k := by
  obtain ⟨cs, cr, rc⟩ := reachC_related h
  have := conf_log_matching cr i j k h1 (by rw [rc.r.log]; exact hi) (by rw [rc.r.log]; exact hj) (by rw [rc.r.log, rc.r.log]; exact ht)
  rwa [rc.r.log, rc.r.log] at this

theorem L1C_state_machine_safety {c0 : RQJ.Config} {s : SysC N} (h : ReachC c0 s) (i j : Fin N) (m : Nat)
    (hi : m ≤ (s.l1.nodes i).commit) (hj : m ≤ (s.l1.nodes j).commit) : (s.l1.nodes i).log.take m = (s.l1.nodes j).log.take m := by
  obtain ⟨cs, cr, rc⟩ := reachC_related h
  have := conf_state_machine_safety cr i j m (by rw [rc.r.commit]; exact hi) (by rw [rc.r.commit]; exact hj)
  rwa [rc.r.log, rc.r.log] at this

theorem L1C_leader_completeness {c0 : RQJ.Config} {s : SysC N} (h : ReachC c0 s) (i j : Fin N)
    (hl : (s.l1.nodes i).role = .leader) (ht : (s.l1.nodes j).term ≤ (s.l1.nodes i).term) :
    (s.l1.nodes j).commit ≤ (s.l1.nodes i).log.length ∧
    (s.l1.nodes i).log.take (s.l1.nodes j).commit = (s.l1.nodes j).log.take (s.l1.nodes j).commit := by
  obtain ⟨cs, cr, rc⟩ := reachC_related h
  have := conf_leader_holds_committed cr i j (by rw [rc.r.role]; exact hl) (by rw [rc.r.term, rc.r.term]; exact ht)
  rwa [rc.r.log, rc.r.log, rc.r.commit] at this

/-- the applied index of a reachable L1C node never exceeds its commit index -/
theorem L1C_applied_le {c0 : RQJ.Config} {s : SysC N} (h : ReachC c0 s) (i : Fin N) : s.applied i ≤ (s.l1.nodes i).commit := by
  obtain ⟨cs, cr, rc⟩ := reachC_related h
  have := (cinv_reach cr).app_le i
  rwa [rc.applied, rc.r.commit] at this

#print axioms L1C_election_safety
#print axioms L1C_leader_completeness
#print axioms simC
#print axioms reachC_related
end RHC
