import RedisGoModel.Raft.RH
open RS
def roleStr : Role → String | .follower => "F" | .candidate => "C" | .leader => "L"
def show3 (ns : Fin 3 → Node1 3) : String :=
  String.intercalate " | " ((List.finRange 3).map fun i =>
    s!"{roleStr (ns i).role} t={(ns i).term} c={(ns i).commit} len={(ns i).log.length} m={(List.finRange 3).map (ns i).matchI}")
def stepN (ns : Fin 3 → Node1 3) (i : Fin 3) (inp : Input 3) : (Fin 3 → Node1 3) × List (Msg1 3) :=
  let r := handle i (ns i) inp; (upd1 ns i r.1, r.2)
def scenario : List String := Id.run do
  let mut ns : Fin 3 → Node1 3 := (init1 3).nodes
  let mut out : List String := []
  let (n1, votes) := stepN ns 0 .hup; ns := n1
  out := out ++ [show3 ns]
  -- deliver the vote requests, collect responses
  let mut resps : List (Msg1 3) := []
  for m in votes do
    let (n2, r) := stepN ns m.dst (.recv m); ns := n2; resps := resps ++ r
  for m in resps do
    let (n2, _) := stepN ns m.dst (.recv m); ns := n2
  out := out ++ [show3 ns]
  let (n3, _) := stepN ns 0 (.prop 42); ns := n3
  let (n4, _) := stepN ns 0 .selfAck; ns := n4
  -- leader sends its whole log to 1 and 2
  let ld := ns 0
  let mut acks : List (Msg1 3) := []
  for d in [(1 : Fin 3), 2] do
    let m : Msg1 3 := .app ld.term 0 d 0 0 ld.log ld.commit
    let (n5, r) := stepN ns d (.recv m); ns := n5; acks := acks ++ r
  for m in acks do
    let (n6, _) := stepN ns m.dst (.recv m); ns := n6
  out := out ++ [show3 ns]
  -- heartbeat carries the commit index
  for d in [(1 : Fin 3), 2] do
    let l := ns 0
    let (n7, _) := stepN ns d (.recv (.hb l.term 0 d (min (l.matchI d) l.commit))); ns := n7
  out := out ++ [show3 ns]
  return out
#eval scenario
