import RedisGoModel.Raft.RSQ2
import RedisGoModel.Props.C15Conf

/-! C15 Stage D, step 2: **the abstract protocol with configurations that change through log entries, as etcd does it.**

    What is modelled (read from `/repo/etcd/raft/raft.go` at the pin, `raftexample/raft.go` `publishEntries`, `memdb/raft_command.go` `rconf`):
    * a configuration change is a log entry (`EntryConfChangeV2` with ONE `ConfChangeSingle` and `Transition = Auto`, which is what
      `rconf add/delete` proposes after fix bf847e3; `cc.EnterJoint()` is false for it, so `applyConfChange` runs `Changer.Simple`);
    * it takes effect on a node when the node *applies* it (`publishEntries` → `Node.ApplyConfChange`, one entry at a time, in log
      order, only committed entries): every node has `applied ≤ commit`, and its configuration is the fold of `Changer.Simple`
      (`RQJ.simple`, the model that the `CC` lines of the lock-step driver compare with etcd's `confchange` package) over the
      conf-change entries of its own log up to `applied` (`cfgAt`). This is NOT the "latest configuration in the log" of Ongaro's thesis;
    * vote tallies (`becomeLeader`) and commit decisions (`advanceCommit`) count a strict majority of the voters of the deciding node's
      *current* configuration (`tracker.TallyVotes` / `maybeCommit` through `r.prs.Voters`, non-joint);
    * the leader's proposal gate (`stepLeader`, `MsgProp`): a conf-change entry is appended only if `pendingConfIndex ≤ applied`,
      otherwise it is replaced by an empty normal entry; `pendingConfIndex` is 0 after `reset` (every `becomeFollower`/`becomeCandidate`),
      the last index at `becomeLeader` (before the no-op), the index of the entry when a conf change is accepted;
    * `hup`: a node campaigns only if it is a voter of its own configuration (`promotable`) and no conf-change entry lies in
      `(applied, committed]` (`numOfPendingConf`);
    * voters grant votes and followers accept appends whatever their own configuration says about the sender (as `Step` does);
    * `restart`: role lost, `pendingConfIndex = 0`, and `applied` may fall back to any earlier value (a node restarted from a snapshot
      re-applies the committed entries after it; its configuration is the one of the snapshot, i.e. of that earlier applied index).
    Not modelled: joint configurations entered through the log (`EnterJoint`/`LeaveJoint`/`AutoLeave`), PreVote/CheckQuorum, leader transfer.

    Node `j : Fin N` has raft id `j + 1` (id 0 is `None` in etcd and is skipped by `Changer.apply`).
    Entry payloads: `data % 4 = 1 / 2 / 3` is AddNode / RemoveNode / AddLearnerNode of id `data / 4`; everything else is a normal entry
    (0 is the leader's empty entry).

    The state is the L0 state `RS.Sys` (nodes, messages, ghost history) plus `applied`, `pend` and two ghost records used by the
    proofs (`capp`: the applied index under which an index was marked committed; `eapp`: the applied index of a term's winner).
    `Props/C15ConfDyn.lean` states `C15_conf_statement` and proves what is proved of it. -/
namespace RSC
open RS

/-- the conf change carried by a payload -/
def ccOf (d : Nat) : Option RQJ.Change :=
  if d % 4 = 1 then some ⟨.addNode, d / 4⟩
  else if d % 4 = 2 then some ⟨.removeNode, d / 4⟩
  else if d % 4 = 3 then some ⟨.addLearnerNode, d / 4⟩
  else none

def isConfData (d : Nat) : Bool := (ccOf d).isSome

def isConf (e : Entry) : Bool := isConfData e.data

/-- the entry at index `k` (1-based) of `l` is a conf change -/
def confAt (l : Log) (k : Nat) : Bool :=
  match k with
  | 0 => false
  | k+1 => match l[k]? with | some e => isConf e | none => false

/-- `applyConfChange` for one applied entry: `Changer.Simple` on the single change; an error leaves the configuration as it is
    (etcd panics there; the Changer theorems show when that happens) -/
def applyChange (c : RQJ.Config) (ch : RQJ.Change) : RQJ.Config :=
  match RQJ.simple c [ch] with
  | .ok c' => c'
  | .error _ => c

def applyEntry (c : RQJ.Config) (e : Entry) : RQJ.Config :=
  match ccOf e.data with
  | none => c
  | some ch => applyChange c ch

/-- the configuration of a node whose log is `l` and which has applied `a` entries, starting from `c0` -/
def cfgAt (c0 : RQJ.Config) (l : Log) (a : Nat) : RQJ.Config := (l.take a).foldl applyEntry c0

variable {N : Nat}

/-- raft id of a node -/
def nid (j : Fin N) : Nat := j.val + 1

def nidsOf (Q : Finset (Fin N)) : Finset Nat := Q.image nid

/-- `Q` contains a strict majority of the voters of `c` (`VoteWon` / `CommittedIndex ≥ k` for a non-joint config:
    `RQJ.voteResult_won_iff`, `RQJ.committedIndex_ge_iff`) -/
def IsQuorumC (c : RQJ.Config) (Q : Finset (Fin N)) : Prop := RQJ.IsQuorum c.voters (nidsOf Q)

structure CSys (N : Nat) where
  base    : Sys N
  applied : Fin N → Nat
  pend    : Fin N → Nat               -- `pendingConfIndex`
  capp    : Nat → Nat → Nat → Prop    -- ghost (index, term, applied): the leader of `term` marked `index` committed while its applied index was `applied`
  eapp    : Nat → Nat                 -- ghost: the applied index of the winner of a term when it won

def updN (f : Fin N → Nat) (i : Fin N) (v : Nat) : Fin N → Nat := fun j => if j = i then v else f j

@[simp] theorem updN_same (f : Fin N → Nat) (i : Fin N) (v : Nat) : updN f i v i = v := by simp [updN]
theorem updN_other (f : Fin N → Nat) {i j : Fin N} (v : Nat) (h : j ≠ i) : updN f i v j = f j := by simp [updN, h]

/-- the configuration node `i` currently uses -/
def cfg (c0 : RQJ.Config) (s : CSys N) (i : Fin N) : RQJ.Config := cfgAt c0 (s.base.nodes i).log (s.applied i)

/-- what the leader appends for a proposed payload `v`: the conf-change gate of `stepLeader` -/
def gateB (applied pend v : Nat) : Nat :=
  if isConfData v && decide (applied < pend) then 0 else v

def gate (s : CSys N) (i : Fin N) (v : Nat) : Nat := gateB (s.applied i) (s.pend i) v

/-- the loop of `stepLeader` over the entries of ONE proposal message (`pendingConfIndex = lastIndex + i + 1` for an accepted conf
    change): the payloads that are appended and the final `pendingConfIndex`. Compared with `RawNode` by the `GT` lines of the
    lock-step driver; one payload is what `cPropose` does (`gateSeq_single`). -/
def gateSeq (applied : Nat) : Nat → Nat → List Nat → List Nat × Nat
  | pend, _, [] => ([], pend)
  | pend, last, v :: vs =>
    let v' := gateB applied pend v
    let r := gateSeq applied (if isConfData v' then last + 1 else pend) (last + 1) vs
    (v' :: r.1, r.2)

theorem gateSeq_single (applied pend last v : Nat) :
    gateSeq applied pend last [v] = ([gateB applied pend v], if isConfData (gateB applied pend v) then last + 1 else pend) := rfl

/-- the guard of `hup` as a function of what the lock-step driver is shown (`HP` lines): not leader, a voter of its own configuration,
    no conf-change entry among the entries in `(applied, committed]` -/
def campaignGate (isLeader : Bool) (id : Nat) (c : RQJ.Config) (pending : List Bool) : Bool :=
  !isLeader && decide (id ∈ c.voters) && !(pending.any fun b => b)

def cBecomeLeader (s : CSys N) (i : Fin N) (Q : Finset (Fin N)) : CSys N :=
  { s with
    base := doBecomeLeader s.base i Q
    pend := updN s.pend i (s.base.nodes i).log.length
    eapp := fun t => if t = (s.base.nodes i).term then s.applied i else s.eapp t }

def cPropose (s : CSys N) (i : Fin N) (v : Nat) : CSys N :=
  { s with
    base := doClientReq s.base i (gate s i v)
    pend := updN s.pend i (if isConfData (gate s i v) then (s.base.nodes i).log.length + 1 else s.pend i) }

def cAdvanceCommit (s : CSys N) (i : Fin N) (k : Nat) : CSys N :=
  { s with
    base := doAdvanceCommit s.base i k
    capp := fun k' t a => s.capp k' t a ∨ (k' = k ∧ t = (s.base.nodes i).term ∧ a = s.applied i) }

/-- the kind of a step, so that hypotheses can speak about the decisions a run takes -/
inductive Label (N : Nat)
| elect (i : Fin N) (Q : Finset (Fin N))
| commit (i : Fin N) (k : Nat) (Q : Finset (Fin N))
| other

inductive CStep (c0 : RQJ.Config) : Label N → CSys N → CSys N → Prop
| timeout (s : CSys N) (i : Fin N) (h : (s.base.nodes i).role ≠ .leader)
    (hp : nid i ∈ (cfg c0 s i).voters)
    (hc : ∀ k, s.applied i < k → k ≤ (s.base.nodes i).commit → confAt (s.base.nodes i).log k = false) :
    CStep c0 .other s { s with base := doTimeout s.base i, pend := updN s.pend i 0 }
| updateTerm (s : CSys N) (i : Fin N) (t : Nat) (ht : (s.base.nodes i).term < t) :
    CStep c0 .other s { s with base := doUpdateTerm s.base i t, pend := updN s.pend i 0 }
| grant (s : CSys N) (j c : Fin N) (t li lt : Nat) (hm : s.base.msgs (.rv t c li lt)) (ht : (s.base.nodes j).term = t)
    (hv : (s.base.nodes j).vote = none) (hu : upToDate lt li (s.base.nodes j).log) :
    CStep c0 .other s { s with base := doGrant s.base j c t }
| becomeLeader (s : CSys N) (i : Fin N) (Q : Finset (Fin N)) (hq : IsQuorumC (cfg c0 s i) Q)
    (hc : (s.base.nodes i).role = .candidate)
    (hQ : ∀ j ∈ Q, j = i ∨ s.base.msgs (.rvResp (s.base.nodes i).term j i true)) :
    CStep c0 (.elect i Q) s (cBecomeLeader s i Q)
| propose (s : CSys N) (i : Fin N) (v : Nat) (hl : (s.base.nodes i).role = .leader) :
    CStep c0 .other s (cPropose s i v)
| sendAE (s : CSys N) (i : Fin N) (prev cnt : Nat) (hl : (s.base.nodes i).role = .leader)
    (hp : prev ≤ (s.base.nodes i).log.length) : CStep c0 .other s { s with base := doSendAE s.base i prev cnt }
| handleAE (s : CSys N) (j src : Fin N) (t prev pt : Nat) (ents : Log) (cm : Nat)
    (hm : s.base.msgs (.ae t src prev pt ents cm)) (ht : (s.base.nodes j).term = t)
    (hnl : (s.base.nodes j).role ≠ .leader)
    (hmatch : prev ≤ (s.base.nodes j).log.length ∧ termAt (s.base.nodes j).log prev = pt) :
    CStep c0 .other s { s with base := doHandleAE s.base j src t prev ents cm }
| advanceCommit (s : CSys N) (i : Fin N) (k : Nat) (Q : Finset (Fin N)) (hl : (s.base.nodes i).role = .leader)
    (hk : (s.base.nodes i).commit < k ∧ k ≤ (s.base.nodes i).log.length)
    (hterm : termAt (s.base.nodes i).log k = (s.base.nodes i).term)
    (hq : IsQuorumC (cfg c0 s i) Q) (hQ : ∀ j ∈ Q, ∃ n, k ≤ n ∧ s.base.acks (s.base.nodes i).term j n) :
    CStep c0 (.commit i k Q) s (cAdvanceCommit s i k)
| restart (s : CSys N) (i : Fin N) (a : Nat) (ha : a ≤ s.applied i) :
    CStep c0 .other s { s with base := doRestart s.base i, applied := updN s.applied i a, pend := updN s.pend i 0 }
| ackCommitted (s : CSys N) (j src : Fin N) (t prev pt : Nat) (ents : Log) (cm : Nat)
    (hm : s.base.msgs (.ae t src prev pt ents cm)) (ht : (s.base.nodes j).term = t) (hnl : (s.base.nodes j).role ≠ .leader)
    (hlt : prev < (s.base.nodes j).commit) : CStep c0 .other s { s with base := doAckCommitted s.base j src t }
| sendHB (s : CSys N) (i dst : Fin N) (c : Nat) (hl : (s.base.nodes i).role = .leader) (hc : c ≤ (s.base.nodes i).commit)
    (hack : c = 0 ∨ ∃ n, c ≤ n ∧ s.base.acks (s.base.nodes i).term dst n) : CStep c0 .other s { s with base := doSendHB s.base i dst c }
| handleHB (s : CSys N) (j src : Fin N) (t c : Nat) (hm : s.base.msgs (.hb t src j c)) (ht : (s.base.nodes j).term = t)
    (hnl : (s.base.nodes j).role ≠ .leader) : CStep c0 .other s { s with base := doHandleHB s.base j c }
| apply (s : CSys N) (i : Fin N) (h : s.applied i < (s.base.nodes i).commit) :
    CStep c0 .other s { s with applied := updN s.applied i (s.applied i + 1) }

def cinit (N : Nat) : CSys N :=
  { base := init N, applied := fun _ => 0, pend := fun _ => 0, capp := fun _ _ _ => False, eapp := fun _ => 0 }

/-- the guard that the decision taken by a step must satisfy for the step to be a step of the guarded system `RSQ.Step` -/
def LinkedStep : Label N → CSys N → Prop
| .elect i Q, s => RSQ.ElectOK s.base i Q
| .commit i k _, s => RSQ.CommitOK s.base i k
| .other, _ => True

/-- every step of the dynamic-configuration protocol is one step of the guarded L0 on the L0 part of the state, or leaves it
    unchanged (`apply`) — provided the decision it takes is linked -/
theorem cstep_base {c0 : RQJ.Config} {lab : Label N} {s s' : CSys N} (st : CStep c0 lab s s') (hl : LinkedStep lab s) :
    RSQ.Step s.base s'.base ∨ s'.base = s.base := by
  cases st with
  | timeout _ i h hp hc => exact Or.inl (.timeout _ i h)
  | updateTerm _ i t ht => exact Or.inl (.updateTerm _ i t ht)
  | grant _ j c t li lt hm ht hv hu => exact Or.inl (.grant _ j c t li lt hm ht hv hu)
  | becomeLeader _ i Q hq hc hQ => exact Or.inl (.becomeLeader _ i Q hl hc hQ)
  | propose _ i v hl' => exact Or.inl (.clientReq _ i _ hl')
  | sendAE _ i prev cnt hl' hp => exact Or.inl (.sendAE _ i prev cnt hl' hp)
  | handleAE _ j src t prev pt ents cm hm ht hnl hmatch => exact Or.inl (.handleAE _ j src t prev pt ents cm hm ht hnl hmatch)
  | advanceCommit _ i k Q hl' hk hterm hq hQ => exact Or.inl (.advanceCommit _ i k Q hl' hk hterm hl hQ)
  | restart _ i a ha => exact Or.inl (.restart _ i)
  | ackCommitted _ j src t prev pt ents cm hm ht hnl hlt => exact Or.inl (.ackCommitted _ j src t prev pt ents cm hm ht hnl hlt)
  | sendHB _ i dst c hl' hc hack => exact Or.inl (.sendHB _ i dst c hl' hc hack)
  | handleHB _ j src t c hm ht hnl => exact Or.inl (.handleHB _ j src t c hm ht hnl)
  | apply _ i h => exact Or.inr rfl

/-- all runs -/
inductive CReach (c0 : RQJ.Config) : CSys N → Prop
| init : CReach c0 (cinit N)
| step {lab s s'} : CReach c0 s → CStep c0 lab s s' → CReach c0 s'

/-- the runs all of whose decisions are linked -/
inductive CReachL (c0 : RQJ.Config) : CSys N → Prop
| init : CReachL c0 (cinit N)
| step {lab s s'} : CReachL c0 s → CStep c0 lab s s' → LinkedStep lab s → CReachL c0 s'

theorem creachL_base {c0 : RQJ.Config} {s : CSys N} (r : CReachL c0 s) : RSQ.Reach s.base := by
  induction r with
  | init => exact .init
  | step _ st hl ih =>
    rcases cstep_base st hl with h | h
    · exact .step ih h
    · rw [h]; exact ih

theorem creachL_creach {c0 : RQJ.Config} {s : CSys N} (r : CReachL c0 s) : CReach c0 s := by
  induction r with
  | init => exact .init
  | step _ st _ ih => exact .step ih st

end RSC
