import RedisGoModel.Raft.RL1
/-! Prototype: the *executable* handler — a deterministic function shaped like etcd's `raft.Step` on the safety
    projection — and the proof that every call of it is a finite sequence of L1 steps (so, through `sim`, of L0
    steps). This is the function the lock-step correspondence runs against `RawNode`. -/
namespace RS
variable {N : Nat}

instance (lt li : Nat) (l : Log) : Decidable (upToDate lt li l) := by unfold upToDate; infer_instance

/-- `quorum.MajorityConfig.CommittedIndex` as a specification-level function: the largest value among the match
    indexes that a majority has reached (0 if none) -/
def qidx (f : Fin N → Nat) : Nat :=
  ((List.finRange N).map f).foldl
    (fun acc k => if N < 2 * (List.finRange N).countP (fun j => decide (k ≤ f j)) then max acc k else acc) 0

theorem qidx_quorum (f : Fin N → Nat) :
    qidx f = 0 ∨ N < 2 * (List.finRange N).countP (fun j => decide (qidx f ≤ f j)) := by
  unfold qidx
  generalize (List.finRange N).map f = l
  have : ∀ acc, (acc = 0 ∨ N < 2 * (List.finRange N).countP (fun j => decide (acc ≤ f j))) →
      (l.foldl (fun acc k => if N < 2 * (List.finRange N).countP (fun j => decide (k ≤ f j)) then max acc k else acc) acc = 0 ∨
       N < 2 * (List.finRange N).countP (fun j => decide
         (l.foldl (fun acc k => if N < 2 * (List.finRange N).countP (fun j => decide (k ≤ f j)) then max acc k else acc) acc ≤ f j))) := by
    induction l with
    | nil => intro acc h; exact h
    | cons k l ih =>
      intro acc h
      simp only [List.foldl_cons]
      apply ih
      split
      · rename_i hk
        rcases Nat.le_total acc k with hle | hle
        · rw [Nat.max_eq_right hle]; exact Or.inr hk
        · rw [Nat.max_eq_left hle]; exact h
      · exact h
  exact this 0 (Or.inl rfl)

def maybeCommit (n : Node1 N) : Node1 N :=
  if n.commit < qidx n.matchI ∧ qidx n.matchI ≤ n.log.length ∧ termAt n.log (qidx n.matchI) = n.term
  then { n with commit := qidx n.matchI } else n

def wonVotes (n : Node1 N) : Bool := decide (N < 2 * (List.finRange N).countP (fun j => n.votes j == some true))
/-- `VoteLost`: the granted and the outstanding votes together can no longer reach a majority -/
def lostVotes (n : Node1 N) : Bool :=
  decide ((List.finRange N).countP (fun j => n.votes j != some false) < N / 2 + 1)

/-- `tracker.StateType` -/
inductive PState | probe | replicate | snapshot
deriving DecidableEq, Repr

/-- the fields of `tracker.Progress` that the two transport reports touch (`Inflights` as its count), in etcd's own index
    space (the arithmetic below involves no log).  `Node1` keeps only `Match` of it (`matchI`, the one field the safety
    argument reads: commit decisions and the heartbeat's commit); the lock-step hands the observed record before the
    report to these functions and compares their result with the observed record after it, field by field. -/
structure Prog where
  state : PState
  matchI : Nat
  next : Nat
  pendingSnapshot : Nat
  probeSent : Bool
  inflights : Nat
deriving DecidableEq, Repr

/-- `Progress.ResetState` -/
def Prog.resetState (p : Prog) (st : PState) : Prog :=
  { p with probeSent := false, pendingSnapshot := 0, state := st, inflights := 0 }

/-- `Progress.BecomeProbe`: coming from StateSnapshot the probe starts after the snapshot that was SENT
    (`max(Match+1, PendingSnapshot+1)`), otherwise at `Match+1`; `Match` itself is not touched -/
def Prog.becomeProbe (p : Prog) : Prog :=
  if p.state = .snapshot then { p.resetState .probe with next := max (p.matchI + 1) (p.pendingSnapshot + 1) }
  else { p.resetState .probe with next := p.matchI + 1 }

/-- `stepLeader`, `case pb.MsgSnapStatus` (what `RawNode.ReportSnapshot` steps): only for a follower in StateSnapshot;
    `SnapshotFinish` → `BecomeProbe`; `SnapshotFailure` → `PendingSnapshot = 0` FIRST, then `BecomeProbe` (probe from
    `Match+1`); in both cases `ProbeSent = true` (the next append waits for a heartbeat response) -/
def Prog.snapStatus (p : Prog) (failed : Bool) : Prog :=
  if p.state = .snapshot then
    if failed then { ({ p with pendingSnapshot := 0 } : Prog).becomeProbe with probeSent := true }
    else { p.becomeProbe with probeSent := true }
  else p

/-- `stepLeader`, `case pb.MsgUnreachable` (what `RawNode.ReportUnreachable` steps): a replicating follower is probed again -/
def Prog.unreachable (p : Prog) : Prog := if p.state = .replicate then p.becomeProbe else p

inductive Input (N : Nat)
| hup | prop (v : Nat) | selfAck | beat | restart | recv (m : Msg1 N)
/-- `RawNode.ReportSnapshot(src, SnapshotFinish | SnapshotFailure)`: the local message MsgSnapStatus -/
| snapStatus (src : Fin N) (failed : Bool)
/-- `RawNode.ReportUnreachable(src)`: the local message MsgUnreachable -/
| unreachable (src : Fin N)

def Msg1.term : Msg1 N → Nat
| .vote t .. => t | .voteResp t .. => t | .app t .. => t | .appResp t .. => t | .hb t .. => t | .snap t .. => t
def Msg1.dst : Msg1 N → Fin N
| .vote _ _ d .. => d | .voteResp _ _ d .. => d | .app _ _ d .. => d | .appResp _ _ d .. => d | .hb _ _ d .. => d
| .snap _ _ d .. => d
/-- `becomeFollower(m.Term, m.From)` for MsgApp/MsgHeartbeat, `None` otherwise -/
def Msg1.leadHint : Msg1 N → Option (Fin N)
| .app _ src .. => some src | .hb _ src .. => some src | .snap _ src .. => some src | _ => none

/-- a message whose term equals the node's (after the term handling of `Step`) -/
def handleSame (i : Fin N) (n : Node1 N) : Msg1 N → Node1 N × List (Msg1 N)
| .vote t c _ li lt =>
    if (n.vote = some c ∨ (n.vote = none ∧ n.lead = none)) ∧ upToDate lt li n.log
    then ({ n with vote := some c }, [.voteResp t i c false])
    else (n, [.voteResp t i c true])
| .voteResp _ src _ rej =>
    if n.role = .candidate then
      let n2 := recordVote n src rej
      if wonVotes n2 then (winElection n2 i, [])
      else if lostVotes n2 then (stepDownN n2, [])
      else (n2, [])
    else (n, [])
| .app t src _ prev pt ents cm =>
    if n.role = .leader then (n, [])
    else if prev < n.commit then (followN n src, [.appResp t i src n.commit false])
    else if prev ≤ n.log.length ∧ termAt n.log prev = pt
      then (acceptN n src prev ents cm, [.appResp t i src (prev + ents.length) false])
    else (followN n src, [.appResp t i src prev true])
| .appResp _ src _ idx rej =>
    if n.role = .leader ∧ rej = false then (maybeCommit (ackN n src idx), []) else (n, [])
| .hb _ src _ c =>
    if n.role = .leader then (n, []) else (beatN n src c, [])
| .snap t src _ k ents =>
    if n.role = .leader then (n, [])
    else if k ≤ n.commit then (followN n src, [.appResp t i src n.commit false])
    else (restoreN n src k ents, [.appResp t i src k false])

def handle (i : Fin N) (n : Node1 N) : Input N → Node1 N × List (Msg1 N)
| .hup =>
    if n.role = .leader then (n, [])
    else if wonVotes (campaign n i) then (winElection (campaign n i) i, [])
    else (campaign n i, ((List.finRange N).filter (fun d => d ≠ i)).map
            (fun d => .vote (n.term + 1) i d n.log.length (lastTerm n.log)))
| .prop v => if n.role = .leader then (proposeN n v, []) else (n, [])
| .selfAck => if n.role = .leader then (maybeCommit (ackN n i n.log.length), []) else (n, [])
| .beat => (n, [])
| .restart => (stepDownN n, [])
-- the two transport reports move only the leader's `Progress` bookkeeping for `src` (`reportProg`): nothing of the node's
-- safety projection - in particular NOT `matchI src` - changes and nothing is answered
| .snapStatus _ _ => (n, [])
| .unreachable _ => (n, [])
| .recv m =>
    if m.term < n.term then (n, [])
    else if n.term < m.term then handleSame i (bump n m.term m.leadHint) m
    else handleSame i n m

/-- the `Progress` record of `src` after a report input on a node with role `n.role`: only a leader steps the two local
    messages into `stepLeader` (`stepFollower` / `stepCandidate` have no case for them); every other input is outside
    this function (the lock-step compares `Progress` around the report events only) -/
def reportProg (n : Node1 N) (p : Prog) : Input N → Prog
| .snapStatus _ failed => if n.role = .leader then p.snapStatus failed else p
| .unreachable _ => if n.role = .leader then p.unreachable else p
| _ => p

/-- what a leader may emit besides the responses computed by `handle`: any slice of its log, any heartbeat -/
def leaderOut (n : Node1 N) (i : Fin N) (m : Msg1 N) : Prop :=
  n.role = .leader ∧
  ((∃ dst prev cnt, prev ≤ n.log.length ∧
      m = .app n.term i dst prev (termAt n.log prev) ((n.log.drop prev).take cnt) n.commit) ∨
   (∃ dst, m = .hb n.term i dst (min (n.matchI dst) n.commit)) ∨
   (∃ dst k, 1 ≤ k ∧ k ≤ n.commit ∧ k ≤ n.log.length ∧ m = .snap n.term i dst k (n.log.take k)))

def enabled (s : Sys1 N) (i : Fin N) : Input N → Prop
| .recv m => s.net m ∧ m.dst = i
| _ => True

inductive Steps1 : Sys1 N → Sys1 N → Prop
| refl (s) : Steps1 s s
| tail {a b c} : Steps1 a b → Step1 b c → Steps1 a c

theorem Steps1.trans {a b c : Sys1 N} (h1 : Steps1 a b) (h2 : Steps1 b c) : Steps1 a c := by
  induction h2 with
  | refl => exact h1
  | tail _ st ih => exact .tail ih st

theorem Steps1.one {a b : Sys1 N} (st : Step1 a b) : Steps1 a b := .tail (.refl a) st

theorem upd1_upd1 (f : Fin N → Node1 N) (i : Fin N) (a b : Node1 N) : upd1 (upd1 f i a) i b = upd1 f i b := by
  funext j; by_cases hj : j = i <;> simp [upd1, hj]
theorem upd1_self (f : Fin N → Node1 N) (i : Fin N) : upd1 f i (f i) = f := by
  funext j; by_cases hj : j = i <;> simp [upd1, hj]

/-- the outcome of a handler call, as a reachability statement in L1 -/
def Outcome (s : Sys1 N) (i : Fin N) (n' : Node1 N) (resp : List (Msg1 N)) : Prop :=
  ∃ net', Steps1 s ⟨upd1 s.nodes i n', net'⟩ ∧ (∀ m, s.net m → net' m) ∧ (∀ m ∈ resp, net' m)

theorem Outcome.stay (s : Sys1 N) (i : Fin N) : Outcome s i (s.nodes i) [] :=
  ⟨s.net, by rw [upd1_self]; exact .refl _, fun _ h => h, fun _ h => by cases h⟩

/-- chaining: first move node i to `a`, then continue from there -/
theorem Outcome.chain {s : Sys1 N} {i : Fin N} {a : Node1 N} {net1 : Msg1 N → Prop}
    (h1 : Steps1 s ⟨upd1 s.nodes i a, net1⟩) (hm : ∀ m, s.net m → net1 m)
    {n' : Node1 N} {resp : List (Msg1 N)} (h2 : Outcome ⟨upd1 s.nodes i a, net1⟩ i n' resp) : Outcome s i n' resp := by
  obtain ⟨net', st, mono, hr⟩ := h2
  simp only [upd1_upd1] at st
  exact ⟨net', h1.trans st, fun m h => mono m (hm m h), hr⟩

theorem outcome_step {s : Sys1 N} {i : Fin N} {n' : Node1 N} {net' : Msg1 N → Prop} {resp : List (Msg1 N)}
    (st : Step1 s ⟨upd1 s.nodes i n', net'⟩) (mono : ∀ m, s.net m → net' m) (hr : ∀ m ∈ resp, net' m) :
    Outcome s i n' resp := ⟨net', .one st, mono, hr⟩

/-- `maybeCommit` is `commitQ` or nothing -/
theorem outcome_maybeCommit (s : Sys1 N) (i : Fin N) (hl : (s.nodes i).role = .leader) :
    Outcome s i (maybeCommit (s.nodes i)) [] := by
  unfold maybeCommit
  split
  · rename_i h
    obtain ⟨h1, h2, h3⟩ := h
    rcases qidx_quorum (s.nodes i).matchI with h0 | hq
    · omega
    · exact outcome_step (Step1.commitQ s i _ hl ⟨h1, h2⟩ h3 hq) (fun _ h => h) (fun _ h => by cases h)
  · exact Outcome.stay s i

theorem mem_send {s : Sys1 N} {p : Msg1 N → Prop} {m : Msg1 N} (h : p m) : send s p m := Or.inr h
theorem send_mono {s : Sys1 N} {p : Msg1 N → Prop} : ∀ m, s.net m → send s p m := fun _ h => Or.inl h

/-- a message of the node's own term -/
theorem outcome_same (s : Sys1 N) (i : Fin N) (m : Msg1 N) (hm : s.net m) (hd : m.dst = i) (ht : m.term = (s.nodes i).term) :
    Outcome s i (handleSame i (s.nodes i) m).1 (handleSame i (s.nodes i) m).2 := by
  cases m with
  | vote t c d li lt =>
    simp only [Msg1.dst] at hd; subst hd
    simp only [Msg1.term] at ht
    simp only [handleSame]
    split
    · rename_i h
      exact outcome_step (Step1.voteGrant s d c t li lt hm ht.symm h.1 h.2) send_mono
        (fun m hmem => by simp at hmem; subst hmem; exact mem_send rfl)
    · have st := Step1.voteReject s d c t
      rw [← upd1_self s.nodes d] at st
      exact outcome_step st send_mono (fun m hmem => by simp at hmem; subst hmem; exact mem_send rfl)
  | voteResp t src d rej =>
    simp only [Msg1.dst] at hd; subst hd
    simp only [Msg1.term] at ht; subst ht
    simp only [handleSame]
    split
    · rename_i hc
      have st1 := Step1.voteRecord s d src rej hm hc
      have hrole : (recordVote (s.nodes d) src rej).role = .candidate := by simpa [recordVote] using hc
      split
      · rename_i hw
        refine Outcome.chain (.one st1) (fun _ h => h) ?_
        have := Step1.win (⟨upd1 s.nodes d (recordVote (s.nodes d) src rej), s.net⟩ : Sys1 N) d
          (by simpa using hrole) (by simpa [wonVotes] using hw)
        simp only [upd1_same] at this
        exact outcome_step this (fun _ h => h) (fun _ h => by cases h)
      · split
        · refine Outcome.chain (.one st1) (fun _ h => h) ?_
          have := Step1.stepDown (⟨upd1 s.nodes d (recordVote (s.nodes d) src rej), s.net⟩ : Sys1 N) d
          simp only [upd1_same] at this
          exact outcome_step this (fun _ h => h) (fun _ h => by cases h)
        · exact outcome_step st1 (fun _ h => h) (fun _ h => by cases h)
    · exact Outcome.stay s d
  | app t src d prev pt ents cm =>
    simp only [Msg1.dst] at hd; subst hd
    simp only [Msg1.term] at ht
    simp only [handleSame]
    split
    · exact Outcome.stay s d
    · rename_i hnl
      split
      · rename_i hlt
        exact outcome_step (Step1.appBelow s d src t prev pt ents cm hm ht.symm hnl hlt) send_mono
          (fun m hmem => by simp at hmem; subst hmem; exact mem_send rfl)
      · split
        · rename_i hmatch
          exact outcome_step (Step1.appAccept s d src t prev pt ents cm hm ht.symm hnl hmatch) send_mono
            (fun m hmem => by simp at hmem; subst hmem; exact mem_send rfl)
        · exact outcome_step (Step1.appReject s d src t prev ht.symm hnl) send_mono
            (fun m hmem => by simp at hmem; subst hmem; exact mem_send rfl)
  | appResp t src d idx rej =>
    simp only [Msg1.dst] at hd; subst hd
    simp only [Msg1.term] at ht; subst ht
    simp only [handleSame]
    split
    · rename_i h
      obtain ⟨hl, hr⟩ := h
      subst hr
      have st1 := Step1.ackRecord s d src idx hm hl
      refine Outcome.chain (.one st1) (fun _ h => h) ?_
      have := outcome_maybeCommit (⟨upd1 s.nodes d (ackN (s.nodes d) src idx), s.net⟩ : Sys1 N) d
        (by simpa [ackN] using hl)
      simpa only [upd1_same] using this
    · exact Outcome.stay s d
  | hb t src d c =>
    simp only [Msg1.dst] at hd; subst hd
    simp only [Msg1.term] at ht
    simp only [handleSame]
    split
    · exact Outcome.stay s d
    · rename_i hnl
      exact outcome_step (Step1.beat s d src t c hm ht.symm hnl) (fun _ h => h) (fun _ h => by cases h)
  | snap t src d k ents =>
    simp only [Msg1.dst] at hd; subst hd
    simp only [Msg1.term] at ht
    simp only [handleSame]
    split
    · exact Outcome.stay s d
    · rename_i hnl
      split
      · rename_i hle
        exact outcome_step (Step1.snapIgnore s d src t k ents hm ht.symm hnl hle) send_mono
          (fun m hmem => by simp at hmem; subst hmem; exact mem_send rfl)
      · rename_i hgt
        exact outcome_step (Step1.snapRestore s d src t k ents hm ht.symm hnl (by omega)) send_mono
          (fun m hmem => by simp at hmem; subst hmem; exact mem_send rfl)

/-- every handler call is a finite sequence of L1 steps that ends in the handler's node state and has sent (at
    least) the handler's responses -/
theorem handle_outcome (s : Sys1 N) (i : Fin N) (inp : Input N) (hen : enabled s i inp) :
    Outcome s i (handle i (s.nodes i) inp).1 (handle i (s.nodes i) inp).2 := by
  cases inp with
  | hup =>
    simp only [handle]
    split
    · exact Outcome.stay s i
    · rename_i hnl
      have st1 := Step1.hup s i hnl
      split
      · rename_i hw
        refine Outcome.chain (.one st1) send_mono ?_
        have := Step1.win (⟨upd1 s.nodes i (campaign (s.nodes i) i), send s fun m => ∃ dst, dst ≠ i ∧
            m = .vote ((s.nodes i).term + 1) i dst (s.nodes i).log.length (lastTerm (s.nodes i).log)⟩ : Sys1 N) i
          (by simp [campaign]) (by simpa [wonVotes] using hw)
        simp only [upd1_same] at this
        exact outcome_step this (fun _ h => h) (fun _ h => by cases h)
      · refine outcome_step st1 send_mono ?_
        intro m hmem
        simp only [List.mem_map, List.mem_filter, List.mem_finRange, true_and, decide_eq_true_eq] at hmem
        obtain ⟨d, hd, rfl⟩ := hmem
        exact mem_send ⟨d, hd, rfl⟩
  | prop v =>
    simp only [handle]
    split
    · rename_i hl
      exact outcome_step (Step1.propose s i v hl) (fun _ h => h) (fun _ h => by cases h)
    · exact Outcome.stay s i
  | selfAck =>
    simp only [handle]
    split
    · rename_i hl
      refine Outcome.chain (.one (Step1.selfAck s i hl)) (fun _ h => h) ?_
      have := outcome_maybeCommit (⟨upd1 s.nodes i (ackN (s.nodes i) i (s.nodes i).log.length), s.net⟩ : Sys1 N) i
        (by simpa [ackN] using hl)
      simpa only [upd1_same] using this
    · exact Outcome.stay s i
  | beat => exact Outcome.stay s i
  | snapStatus src failed => exact Outcome.stay s i
  | unreachable src => exact Outcome.stay s i
  | restart =>
    exact outcome_step (Step1.stepDown s i) (fun _ h => h) (fun _ h => by cases h)
  | recv m =>
    obtain ⟨hm, hd⟩ := hen
    simp only [handle]
    split
    · exact Outcome.stay s i
    · rename_i h1
      split
      · rename_i h2
        refine Outcome.chain (.one (Step1.higherTerm s i m.term m.leadHint h2)) (fun _ h => h) ?_
        have := outcome_same (⟨upd1 s.nodes i (bump (s.nodes i) m.term m.leadHint), s.net⟩ : Sys1 N) i m hm hd
          (by simp [bump])
        simpa only [upd1_same] using this
      · exact outcome_same s i m hm hd (by omega)

/-- extra leader traffic: any finite list of valid appends and heartbeats of the current state can be sent -/
theorem send_many (i : Fin N) : ∀ (outs : List (Msg1 N)) (s : Sys1 N), (∀ m ∈ outs, s.net m ∨ leaderOut (s.nodes i) i m) →
    ∃ net', Steps1 s ⟨s.nodes, net'⟩ ∧ (∀ m, s.net m → net' m) ∧ (∀ m ∈ outs, net' m) := by
  intro outs
  induction outs with
  | nil => intro s _; exact ⟨s.net, .refl _, fun _ h => h, fun _ h => by cases h⟩
  | cons m outs ih =>
    intro s h
    have hstep : ∃ net1, Steps1 s ⟨s.nodes, net1⟩ ∧ (∀ x, s.net x → net1 x) ∧ net1 m := by
      rcases h m (by simp) with hin | ⟨hl, hm⟩
      · exact ⟨s.net, .refl _, fun _ h => h, hin⟩
      · rcases hm with ⟨dst, prev, cnt, hp, rfl⟩ | ⟨dst, rfl⟩ | ⟨dst, k, h1, h2, h3, rfl⟩
        · exact ⟨_, .one (Step1.sendApp s i dst prev cnt hl hp), send_mono, mem_send rfl⟩
        · exact ⟨_, .one (Step1.sendBeat s i dst hl), send_mono, mem_send rfl⟩
        · exact ⟨_, .one (Step1.sendSnap s i dst k hl ⟨h1, h2, h3⟩), send_mono, mem_send rfl⟩
    obtain ⟨net1, st, mono1, hin⟩ := hstep
    obtain ⟨net', sts, mono2, hall⟩ := ih ⟨s.nodes, net1⟩ (fun x hx => (h x (by simp [hx])).imp (mono1 x) id)
    refine ⟨net', st.trans sts, fun x hx => mono2 x (mono1 x hx), ?_⟩
    intro x hx
    rcases List.mem_cons.mp hx with rfl | hx
    · exact mono2 _ hin
    · exact hall x hx

/-- **handler ⊆ L1**: the node state after a handler call, together with every message the implementation may have
    emitted during it (the computed responses and any valid leader traffic), is reached by finitely many L1 steps -/
theorem handle_in_Step1 (s : Sys1 N) (i : Fin N) (inp : Input N) (hen : enabled s i inp) (outs : List (Msg1 N))
    (hout : ∀ m ∈ outs, m ∈ (handle i (s.nodes i) inp).2 ∨ leaderOut (handle i (s.nodes i) inp).1 i m) :
    ∃ s', Steps1 s s' ∧ s'.nodes = upd1 s.nodes i (handle i (s.nodes i) inp).1 ∧
      (∀ m, s.net m → s'.net m) ∧ (∀ m ∈ outs, s'.net m) := by
  obtain ⟨net1, st1, mono1, hr⟩ := handle_outcome s i inp hen
  obtain ⟨net2, st2, mono2, hl⟩ := send_many i outs ⟨upd1 s.nodes i (handle i (s.nodes i) inp).1, net1⟩ (by
      intro m hm
      simp only [upd1_same]
      exact (hout m hm).imp (hr m) id)
  exact ⟨_, st1.trans st2, rfl, fun m h => mono2 m (mono1 m h), hl⟩

/-- runs of the implementation-level system: nodes driven only through `handle`, messages taken from what was emitted -/
inductive Run : Sys1 N → Prop
| init : Run (init1 N)
| call {s} (i : Fin N) (inp : Input N) (outs : List (Msg1 N)) : Run s → enabled s i inp →
    (∀ m ∈ outs, m ∈ (handle i (s.nodes i) inp).2 ∨ leaderOut (handle i (s.nodes i) inp).1 i m) →
    Run ⟨upd1 s.nodes i (handle i (s.nodes i) inp).1, fun m => s.net m ∨ m ∈ outs⟩

theorem reach1_steps {a b : Sys1 N} (h : Reach1 a) (st : Steps1 a b) : Reach1 b := by
  induction st with
  | refl => exact h
  | tail _ s ih => exact .step ih s

/-- every run of handler calls is covered by a reachable L1 state with the same nodes and at least its messages -/
theorem run_covered {s : Sys1 N} (r : Run s) : ∃ s1, Reach1 s1 ∧ s1.nodes = s.nodes ∧ ∀ m, s.net m → s1.net m := by
  induction r with
  | init => exact ⟨_, .init, rfl, fun _ h => h⟩
  | @call s i inp outs _ hen hout ih =>
    obtain ⟨s1, r1, hn, hnet⟩ := ih
    have hen1 : enabled s1 i inp := by
      cases inp with
      | recv m => exact ⟨hnet m hen.1, hen.2⟩
      | _ => trivial
    have hni : s1.nodes i = s.nodes i := by rw [hn]
    obtain ⟨s2, st, hn2, mono, hin⟩ := handle_in_Step1 s1 i inp hen1 outs (by rw [hni]; exact hout)
    refine ⟨s2, reach1_steps r1 st, ?_, ?_⟩
    · rw [hn2, hn]
    · intro m hm
      rcases hm with hm | hm
      · exact mono m (hnet m hm)
      · exact hin m hm

/-- C15 for runs of the executable handler -/
theorem run_election_safety {s : Sys1 N} (r : Run s) (i j : Fin N)
    (hi : (s.nodes i).role = .leader) (hj : (s.nodes j).role = .leader) (ht : (s.nodes i).term = (s.nodes j).term) : i = j := by
  obtain ⟨s1, r1, hn, _⟩ := run_covered r
  exact L1_election_safety r1 i j (by rw [hn]; exact hi) (by rw [hn]; exact hj) (by rw [hn]; exact ht)

theorem run_state_machine_safety {s : Sys1 N} (r : Run s) (i j : Fin N) (m : Nat)
    (hi : m ≤ (s.nodes i).commit) (hj : m ≤ (s.nodes j).commit) : (s.nodes i).log.take m = (s.nodes j).log.take m := by
  obtain ⟨s1, r1, hn, _⟩ := run_covered r
  have := L1_state_machine_safety r1 i j m (by rw [hn]; exact hi) (by rw [hn]; exact hj)
  rwa [hn] at this

theorem run_log_matching {s : Sys1 N} (r : Run s) (i j : Fin N) (k : Nat) (h1 : 1 ≤ k)
    (hi : k ≤ (s.nodes i).log.length) (hj : k ≤ (s.nodes j).log.length)
    (ht : termAt (s.nodes i).log k = termAt (s.nodes j).log k) : (s.nodes i).log.take k = (s.nodes j).log.take k := by
  obtain ⟨s1, r1, hn, _⟩ := run_covered r
  have := L1_log_matching r1 i j k h1 (by rw [hn]; exact hi) (by rw [hn]; exact hj) (by rw [hn]; exact ht)
  rwa [hn] at this

theorem run_leader_completeness {s : Sys1 N} (r : Run s) (i j : Fin N) (hl : (s.nodes i).role = .leader)
    (ht : (s.nodes j).term ≤ (s.nodes i).term) :
    (s.nodes j).commit ≤ (s.nodes i).log.length ∧
    (s.nodes i).log.take (s.nodes j).commit = (s.nodes j).log.take (s.nodes j).commit := by
  obtain ⟨s1, r1, hn, _⟩ := run_covered r
  have := L1_leader_completeness r1 i j (by rw [hn]; exact hl) (by rw [hn]; exact ht)
  rwa [hn] at this

#print axioms handle_in_Step1
#print axioms run_covered
#print axioms run_state_machine_safety
end RS
