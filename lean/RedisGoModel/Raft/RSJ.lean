import Mathlib.Data.Nat.Pairing
import RedisGoModel.Raft.RSCLemmas

/-! C15 Stage D, last step: **the abstract protocol with JOINT configurations entered and left through the log, as etcd does it.**

    `Raft/RSC.lean` models configuration changes as log entries that take effect at apply time, for single-voter changes
    (`Changer.Simple`).  This file is the same protocol with etcd's full `ConfChangeV2` vocabulary.  Read from
    `/repo/etcd/raft/raft.go` (`applyConfChange` 1637, `switchToConfig` 1665, `stepLeader` MsgProp 1043–1078, `advance` 546–576,
    `hup` 778, `promotable` 1632), `raftpb/confchange.go` (`EnterJoint`, `LeaveJoint`), `confchange/confchange.go`,
    `quorum/joint.go`, `tracker/tracker.go` (`TallyVotes`, `Committed`).

    * A conf-change entry is one of (`CC`)
      `single ch`        — a V1 `ConfChange`, or a `ConfChangeV2` with `Transition = Auto` and exactly one change (what `rconf`
                           proposes since bf847e3): `applyConfChange` runs `Changer.Simple`; `ch` is add / remove / add-learner
                           (promotion = `addNode` of a learner id) / update;
      `enter al ccs`     — a `ConfChangeV2` for which `cc.EnterJoint()` is true: `Transition = Auto` with ≥ 2 changes (`al = true`),
                           `JointImplicit` (`al = true`) or `JointExplicit` (`al = false`) with ANY number of changes:
                           `Changer.EnterJoint(al, ccs…)`;
      `leave`            — the empty `ConfChangeV2` (`cc.LeaveJoint()`): `Changer.LeaveJoint()`.
    * A node's configuration is the fold of `RQJ`'s Changer (`RQJ.simple` / `enterJoint` / `leaveJoint`, the model the `CC` lines of
      the lock-step driver compare with etcd's `confchange` package) over the conf-change entries of its own log up to `applied`
      (`cfgAt`).  An operation the Changer refuses leaves the configuration as it is (etcd panics there, `raft.go:1653`).
    * Vote tallies (`becomeLeader`) and commit decisions (`advanceCommit`) use the deciding node's CURRENT configuration with
      `JointConfig` semantics (`IsQuorumJ`): a strict majority of the incoming voters AND, when the outgoing half is non-empty, a
      strict majority of the outgoing voters (`RQJ.joint_voteResult_won_iff`, `RQJ.joint_committed_ge_iff`).
      One deviation, on a configuration no run can reach from a start with at least one voter: etcd lets an EMPTY incoming half
      pass ("an empty MajorityConfig wins"); `IsQuorumJ` demands a strict majority of it, so nobody decides there.
      `Props/C15JointSafe.lean` proves `cfg_voters_nonempty` (incoming voters never become empty) and `isQuorumJ_iff_etcd`
      (on such configurations `IsQuorumJ` IS `RQJ.IsJointQuorum`).
    * The proposal gate (`stepLeader`, MsgProp) refuses — the refused proposal becomes an empty normal entry — exactly for etcd's
      three reasons, in etcd's order (`gateJ`): `alreadyPending` (`pendingConfIndex > applied`), `alreadyJoint ∧ ¬wantsLeaveJoint`,
      `¬alreadyJoint ∧ wantsLeaveJoint`, where `wantsLeaveJoint := len(cc.AsV2().Changes) == 0` (`wantsLeave`: NOT the same test as
      `cc.LeaveJoint()` — an `enter al []`, i.e. `JointExplicit`/`JointImplicit` with no changes, "wants to leave" at the gate and is
      an `EnterJoint` at apply time; see `Props/C15JointSafe.lean` `enter_empty_passes_gate_and_is_refused_by_changer`).
    * `autoLeave`: the leader appends the empty `ConfChangeV2` itself, NOT through the gate, when its configuration has `AutoLeave`
      and `applied` has reached `pendingConfIndex` (`advance`, 557–575); `pendingConfIndex` becomes the index of that entry.
      The model's step has the guard `AutoLeave ∧ pend ≤ applied` (etcd's is stronger: `oldApplied ≤ pend ≤ newApplied`).
    * `hup`: a node campaigns only if it is `promotable` (it has a `Progress` and is not a learner — in a joint configuration a
      voter of either half, or a voter being demoted, `LearnersNext`) and no conf-change entry lies in `(applied, committed]`.
    * everything else (`pendingConfIndex` bookkeeping, grants and appends regardless of the receiver's configuration, restarts that
      fall back to an earlier applied index) is `RSC`'s.
    etcd's `raftLog.applied` is advanced by `Advance()`, after the application called `ApplyConfChange`; in between the tracker's
    configuration is AHEAD of `applied`.  The model's `applied` is the configuration's index; both gates read it, so they refuse
    no more often than etcd's (which read the smaller `raftLog.applied`): the model has every behaviour etcd has.
    Not modelled: PreVote/CheckQuorum (off in raftexample), leader transfer.

    Entry payloads (`ccOf`): `data % 8` = 1 / 2 / 3 : `single` AddNode / RemoveNode / AddLearnerNode of id `data / 8`; 4 : `leave`;
    5 / 6 : `enter false` / `enter true` of the change list `decList (data / 8)` (`Nat.unpair` chain; each change is `id * 4 + type`);
    everything else (0 is the leader's empty entry) is a normal entry.  `ccOf_encCC`: every `CC` whose changes have one of the
    four defined types is the decoding of some payload, so quantifying over payloads quantifies over all conf changes.

    State: `RSC.CSys` (L0 state + `applied`, `pend` + two ghosts).  `Props/C15JointSafe.lean` states `C15_joint_statement` and
    proves it. -/
namespace RSJ
open RS
open RSC (nid nidsOf CSys updN updN_same updN_other cBecomeLeader cAdvanceCommit Label cinit LinkedStep)

/-- what a conf-change entry asks for (the three branches of `applyConfChange`) -/
inductive CC
| single (ch : RQJ.Change)
| enter (autoLeave : Bool) (ccs : List RQJ.Change)
| leave
deriving DecidableEq

/-! ### payload encoding -/

def decType (n : Nat) : RQJ.ChangeType :=
  if n % 4 = 0 then .addNode else if n % 4 = 1 then .removeNode else if n % 4 = 2 then .addLearnerNode else .updateNode

def decChange (n : Nat) : RQJ.Change := ⟨decType n, n / 4⟩

/-- a list of changes from a number: 0 is the empty list, `pair c rest + 1` is `c :: rest` (the first argument is fuel) -/
def decList : Nat → Nat → List RQJ.Change
  | 0, _ => []
  | f+1, n => if n = 0 then [] else decChange (Nat.unpair (n - 1)).1 :: decList f (Nat.unpair (n - 1)).2

/-- the conf change carried by a payload -/
def ccOf (d : Nat) : Option CC :=
  if d % 8 = 1 then some (.single ⟨.addNode, d / 8⟩)
  else if d % 8 = 2 then some (.single ⟨.removeNode, d / 8⟩)
  else if d % 8 = 3 then some (.single ⟨.addLearnerNode, d / 8⟩)
  else if d % 8 = 4 then some .leave
  else if d % 8 = 5 then some (.enter false (decList (d / 8) (d / 8)))
  else if d % 8 = 6 then some (.enter true (decList (d / 8) (d / 8)))
  else none

def encType : RQJ.ChangeType → Nat
  | .addNode => 0 | .removeNode => 1 | .addLearnerNode => 2 | _ => 3

def encChange (c : RQJ.Change) : Nat := c.id * 4 + encType c.typ

def encList : List RQJ.Change → Nat
  | [] => 0
  | c :: cs => Nat.pair (encChange c) (encList cs) + 1

/-- the payload of a conf change (a `single` of a type other than add / remove / add-learner has no code of its own and is
    mapped to the empty entry; `ccOf_encCC` excludes it — `enter _ [ch]` carries any type) -/
def encCC : CC → Nat
  | .single ⟨.addNode, id⟩ => id * 8 + 1
  | .single ⟨.removeNode, id⟩ => id * 8 + 2
  | .single ⟨.addLearnerNode, id⟩ => id * 8 + 3
  | .single _ => 0
  | .leave => 4
  | .enter false ccs => encList ccs * 8 + 5
  | .enter true ccs => encList ccs * 8 + 6

/-- the payload of the empty `ConfChangeV2` the leader appends when it leaves a joint configuration automatically -/
def leaveData : Nat := 4

def isConfData (d : Nat) : Bool := (ccOf d).isSome

def isConf (e : Entry) : Bool := isConfData e.data

/-- the entry at index `k` (1-based) of `l` is a conf change -/
def confAt (l : Log) (k : Nat) : Bool :=
  match k with
  | 0 => false
  | k+1 => match l[k]? with | some e => isConf e | none => false

/-! ### the configuration: fold of the Changer -/

/-- `applyConfChange` for one applied entry; an error leaves the configuration as it is (etcd panics there) -/
def applyCC (c : RQJ.Config) : CC → RQJ.Config
  | .single ch => match RQJ.simple c [ch] with | .ok c' => c' | .error _ => c
  | .enter al ccs => match RQJ.enterJoint al c ccs with | .ok c' => c' | .error _ => c
  | .leave => match RQJ.leaveJoint c with | .ok c' => c' | .error _ => c

def applyEntry (c : RQJ.Config) (e : Entry) : RQJ.Config :=
  match ccOf e.data with
  | none => c
  | some cc => applyCC c cc

/-- the configuration of a node whose log is `l` and which has applied `a` entries, starting from `c0` -/
def cfgAt (c0 : RQJ.Config) (l : Log) (a : Nat) : RQJ.Config := (l.take a).foldl applyEntry c0

variable {N : Nat}

/-- the quorum rule on raft ids: a strict majority of the incoming voters and, if there are outgoing voters, of those too -/
def QJ (c : RQJ.Config) (A : Finset Nat) : Prop := RQJ.IsQuorum c.voters A ∧ (c.outgoing = ∅ ∨ RQJ.IsQuorum c.outgoing A)

instance (c : RQJ.Config) (A : Finset Nat) : Decidable (QJ c A) := by unfold QJ; infer_instance

/-- `Q` is a quorum of `c` with `JointConfig` semantics (`VoteWon` / `CommittedIndex ≥ k`) -/
def IsQuorumJ (c : RQJ.Config) (Q : Finset (Fin N)) : Prop := QJ c (nidsOf Q)

/-- the configuration node `i` currently uses -/
def cfg (c0 : RQJ.Config) (s : CSys N) (i : Fin N) : RQJ.Config := cfgAt c0 (s.base.nodes i).log (s.applied i)

/-! ### the gates -/

/-- `wantsLeaveJoint := len(cc.AsV2().Changes) == 0` -/
def wantsLeave : CC → Bool
  | .single _ => false
  | .enter _ ccs => ccs.isEmpty
  | .leave => true

/-- etcd's three refusal reasons, in its order; `none` = accepted -/
def refusal (applied pend : Nat) (joint : Bool) (cc : CC) : Option String :=
  if applied < pend then some "possible unapplied conf change"
  else if joint && !wantsLeave cc then some "must transition out of joint config first"
  else if !joint && wantsLeave cc then some "not in joint state; refusing empty conf change"
  else none

/-- what the leader appends for a proposed payload `v`: the conf-change gate of `stepLeader` -/
def gateJ (applied pend : Nat) (joint : Bool) (v : Nat) : Nat :=
  match ccOf v with
  | none => v
  | some cc => if (refusal applied pend joint cc).isSome then 0 else v

def gate (c0 : RQJ.Config) (s : CSys N) (i : Fin N) (v : Nat) : Nat :=
  gateJ (s.applied i) (s.pend i) (RQJ.joint (cfg c0 s i)) v

/-- the loop of `stepLeader` over the entries of ONE proposal message (the configuration and `applied` do not change inside it) -/
def gateSeq (applied : Nat) (joint : Bool) : Nat → Nat → List Nat → List Nat × Nat
  | pend, _, [] => ([], pend)
  | pend, last, v :: vs =>
    let v' := gateJ applied pend joint v
    let r := gateSeq applied joint (if isConfData v' then last + 1 else pend) (last + 1) vs
    (v' :: r.1, r.2)

/-- `promotable()`: the node has a `Progress` and is not a learner -/
def promotable (c : RQJ.Config) (id : Nat) : Bool := RQJ.hasProgress c id && !RQJ.isLearnerPr c id

/-- the guard of `hup` as a function of what a lock-step trace shows -/
def campaignGate (isLeader : Bool) (id : Nat) (c : RQJ.Config) (pending : List Bool) : Bool :=
  !isLeader && promotable c id && !(pending.any fun b => b)

def cPropose (c0 : RQJ.Config) (s : CSys N) (i : Fin N) (v : Nat) : CSys N :=
  { s with
    base := doClientReq s.base i (gate c0 s i v)
    pend := updN s.pend i (if isConfData (gate c0 s i v) then (s.base.nodes i).log.length + 1 else s.pend i) }

/-- `advance`: "initiating automatic transition out of joint configuration" -/
def cAutoLeave (s : CSys N) (i : Fin N) : CSys N :=
  { s with
    base := doClientReq s.base i leaveData
    pend := updN s.pend i ((s.base.nodes i).log.length + 1) }

inductive CStep (c0 : RQJ.Config) : Label N → CSys N → CSys N → Prop
| timeout (s : CSys N) (i : Fin N) (h : (s.base.nodes i).role ≠ .leader)
    (hp : promotable (cfg c0 s i) (nid i) = true)
    (hc : ∀ k, s.applied i < k → k ≤ (s.base.nodes i).commit → confAt (s.base.nodes i).log k = false) :
    CStep c0 .other s { s with base := doTimeout s.base i, pend := updN s.pend i 0 }
| updateTerm (s : CSys N) (i : Fin N) (t : Nat) (ht : (s.base.nodes i).term < t) :
    CStep c0 .other s { s with base := doUpdateTerm s.base i t, pend := updN s.pend i 0 }
| grant (s : CSys N) (j c : Fin N) (t li lt : Nat) (hm : s.base.msgs (.rv t c li lt)) (ht : (s.base.nodes j).term = t)
    (hv : (s.base.nodes j).vote = none) (hu : upToDate lt li (s.base.nodes j).log) :
    CStep c0 .other s { s with base := doGrant s.base j c t }
| becomeLeader (s : CSys N) (i : Fin N) (Q : Finset (Fin N)) (hq : IsQuorumJ (cfg c0 s i) Q)
    (hc : (s.base.nodes i).role = .candidate)
    (hQ : ∀ j ∈ Q, j = i ∨ s.base.msgs (.rvResp (s.base.nodes i).term j i true)) :
    CStep c0 (.elect i Q) s (cBecomeLeader s i Q)
| propose (s : CSys N) (i : Fin N) (v : Nat) (hl : (s.base.nodes i).role = .leader) :
    CStep c0 .other s (cPropose c0 s i v)
| autoLeave (s : CSys N) (i : Fin N) (hl : (s.base.nodes i).role = .leader) (hal : (cfg c0 s i).autoLeave = true)
    (hp : s.pend i ≤ s.applied i) : CStep c0 .other s (cAutoLeave s i)
| sendAE (s : CSys N) (i : Fin N) (prev cnt : Nat) (hl : (s.base.nodes i).role = .leader)
    (hp : prev ≤ (s.base.nodes i).log.length) : CStep c0 .other s { s with base := doSendAE s.base i prev cnt }
| handleAE (s : CSys N) (j src : Fin N) (t prev pt : Nat) (ents : Log) (cm : Nat)
    (hm : s.base.msgs (.ae t src prev pt ents cm)) (ht : (s.base.nodes j).term = t)
    (hnl : (s.base.nodes j).role ≠ .leader)
    (hmatch : prev ≤ (s.base.nodes j).log.length ∧ termAt (s.base.nodes j).log prev = pt) :
    CStep c0 .other s { s with base := doHandleAE s.base j src t prev ents cm }
| advanceCommit (s : CSys N) (i : Fin N) (k : Nat) (Q : Finset (Fin N)) (hl : (s.base.nodes i).role = .leader)
    (hk : (s.base.nodes i).commit < k ∧ k ≤ (s.base.nodes i).log.length)
    (hterm : termAt (s.base.nodes i).log k = (s.base.nodes i).term)
    (hq : IsQuorumJ (cfg c0 s i) Q) (hQ : ∀ j ∈ Q, ∃ n, k ≤ n ∧ s.base.acks (s.base.nodes i).term j n) :
    CStep c0 (.commit i k Q) s (cAdvanceCommit s i k)
| restart (s : CSys N) (i : Fin N) (a : Nat) (ha : a ≤ s.applied i) :
    CStep c0 .other s { s with base := doRestart s.base i, applied := updN s.applied i a, pend := updN s.pend i 0 }
| ackCommitted (s : CSys N) (j src : Fin N) (t prev pt : Nat) (ents : Log) (cm : Nat)
    (hm : s.base.msgs (.ae t src prev pt ents cm)) (ht : (s.base.nodes j).term = t) (hnl : (s.base.nodes j).role ≠ .leader)
    (hlt : prev < (s.base.nodes j).commit) : CStep c0 .other s { s with base := doAckCommitted s.base j src t }
| sendHB (s : CSys N) (i dst : Fin N) (c : Nat) (hl : (s.base.nodes i).role = .leader) (hc : c ≤ (s.base.nodes i).commit)
    (hack : c = 0 ∨ ∃ n, c ≤ n ∧ s.base.acks (s.base.nodes i).term dst n) : CStep c0 .other s { s with base := doSendHB s.base i dst c }
| handleHB (s : CSys N) (j src : Fin N) (t c : Nat) (hm : s.base.msgs (.hb t src j c)) (ht : (s.base.nodes j).term = t)
    (hnl : (s.base.nodes j).role ≠ .leader) : CStep c0 .other s { s with base := doHandleHB s.base j c }
| apply (s : CSys N) (i : Fin N) (h : s.applied i < (s.base.nodes i).commit) :
    CStep c0 .other s { s with applied := updN s.applied i (s.applied i + 1) }

/-- every step of the joint-configuration protocol is one step of the guarded L0 on the L0 part of the state, or leaves it
    unchanged (`apply`) — provided the decision it takes is linked -/
theorem cstep_base {c0 : RQJ.Config} {lab : Label N} {s s' : CSys N} (st : CStep c0 lab s s') (hl : LinkedStep lab s) :
    RSQ.Step s.base s'.base ∨ s'.base = s.base := by
  cases st with
  | timeout _ i h hp hc => exact Or.inl (.timeout _ i h)
  | updateTerm _ i t ht => exact Or.inl (.updateTerm _ i t ht)
  | grant _ j c t li lt hm ht hv hu => exact Or.inl (.grant _ j c t li lt hm ht hv hu)
  | becomeLeader _ i Q hq hc hQ => exact Or.inl (.becomeLeader _ i Q hl hc hQ)
  | propose _ i v hl' => exact Or.inl (.clientReq _ i _ hl')
  | autoLeave _ i hl' hal hp => exact Or.inl (.clientReq _ i _ hl')
  | sendAE _ i prev cnt hl' hp => exact Or.inl (.sendAE _ i prev cnt hl' hp)
  | handleAE _ j src t prev pt ents cm hm ht hnl hmatch => exact Or.inl (.handleAE _ j src t prev pt ents cm hm ht hnl hmatch)
  | advanceCommit _ i k Q hl' hk hterm hq hQ => exact Or.inl (.advanceCommit _ i k Q hl' hk hterm hl hQ)
  | restart _ i a ha => exact Or.inl (.restart _ i)
  | ackCommitted _ j src t prev pt ents cm hm ht hnl hlt => exact Or.inl (.ackCommitted _ j src t prev pt ents cm hm ht hnl hlt)
  | sendHB _ i dst c hl' hc hack => exact Or.inl (.sendHB _ i dst c hl' hc hack)
  | handleHB _ j src t c hm ht hnl => exact Or.inl (.handleHB _ j src t c hm ht hnl)
  | apply _ i h => exact Or.inr rfl

/-- all runs -/
inductive CReach (c0 : RQJ.Config) : CSys N → Prop
| init : CReach c0 (cinit N)
| step {lab s s'} : CReach c0 s → CStep c0 lab s s' → CReach c0 s'

/-- the runs all of whose decisions are linked -/
inductive CReachL (c0 : RQJ.Config) : CSys N → Prop
| init : CReachL c0 (cinit N)
| step {lab s s'} : CReachL c0 s → CStep c0 lab s s' → LinkedStep lab s → CReachL c0 s'

theorem creachL_base {c0 : RQJ.Config} {s : CSys N} (r : CReachL c0 s) : RSQ.Reach s.base := by
  induction r with
  | init => exact .init
  | step _ st hl ih =>
    rcases cstep_base st hl with h | h
    · exact .step ih h
    · rw [h]; exact ih

theorem creachL_creach {c0 : RQJ.Config} {s : CSys N} (r : CReachL c0 s) : CReach c0 s := by
  induction r with
  | init => exact .init
  | step _ st _ ih => exact .step ih st

end RSJ
