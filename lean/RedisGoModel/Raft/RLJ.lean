import RedisGoModel.Props.C15JointHandler
import RedisGoModel.Raft.RLC

/-! C15 Stage D, step 7: **the handler-level relation with SINGLE and JOINT membership changes (L1J) and its simulation by the
    protocol model `RSJ`.**

    `SysJ` is an L1 system (`RS.Sys1`) plus, per node, `applied` and `pend`.  `StepJ` has one constructor per branch of `RHJ.handleJ`:
    * `lift`: any of the 16 branches of `RS.Step1` that read no quorum and take no client / timer action (`RHC.Step1L`, shared with
      L1C) — simulated by the quorum-free L0 steps `RS.StepNQ`;
    * the branches that read the configuration `RSJ.cfgAt c0 log applied`: `hup` (campaign gate with `promotable`), `win` (vote tally
      by `JointConfig`), `commitQ` (`JointConfig.CommittedIndex`), `propose` (the three-reason gate under the node's current
      `joint` flag), `autoLeave` (the leader's own empty `ConfChangeV2`: `AutoLeave ∧ pend ≤ applied`), `applyOne`, `forget`,
      `restart`, `setPend`, `snapSkip`.
    `simJ`: related states stay related, and the `RSJ` side moves by at most one `CStep`.  Hence every reachable L1J state is related
    to a reachable `RSJ` state (`reachJ_related`), whose safety is `C15_joint_holds`. -/
namespace RHJ
open RS RSJ
open RSC (nid nidsOf CSys updN updN_same updN_other cBecomeLeader cAdvanceCommit Label cinit)
open RHC (NodeC Step1L simL sim_snapSkip updN_self)

variable {N : Nat}

structure SysJ (N : Nat) where
  l1 : Sys1 N
  applied : Fin N → Nat
  pend : Fin N → Nat

def SysJ.node (s : SysJ N) (i : Fin N) : NodeC N := ⟨s.l1.nodes i, s.applied i, s.pend i⟩

def SysJ.cfg (c0 : RQJ.Config) (s : SysJ N) (i : Fin N) : RQJ.Config := cfgOf c0 (s.node i)

def SysJ.setNode (s : SysJ N) (i : Fin N) (x : Node1 N) : SysJ N := { s with l1 := ⟨upd1 s.l1.nodes i x, s.l1.net⟩ }

def cHup (s : SysJ N) (i : Fin N) : SysJ N :=
  { s with l1 := ⟨upd1 s.l1.nodes i (campaign (s.l1.nodes i) i),
                  send s.l1 fun m => ∃ dst, dst ≠ i ∧ m = .vote ((s.l1.nodes i).term + 1) i dst (s.l1.nodes i).log.length (lastTerm (s.l1.nodes i).log)⟩ }

def cWin (s : SysJ N) (i : Fin N) : SysJ N :=
  { s with
    l1 := ⟨upd1 s.l1.nodes i (winElection (s.l1.nodes i) i), s.l1.net⟩
    pend := updN s.pend i (s.l1.nodes i).log.length }

/-- the gate of node `i`: etcd's three reasons under the node's own applied index, `pendingConfIndex` and `joint` flag -/
def SysJ.gate (c0 : RQJ.Config) (s : SysJ N) (i : Fin N) (v : Nat) : Nat :=
  gateJ (s.applied i) (s.pend i) (RQJ.joint (s.cfg c0 i)) v

def cProp (c0 : RQJ.Config) (s : SysJ N) (i : Fin N) (v : Nat) : SysJ N :=
  { s with
    l1 := ⟨upd1 s.l1.nodes i (proposeN (s.l1.nodes i) (s.gate c0 i v)), s.l1.net⟩
    pend := updN s.pend i (if isConfData (s.gate c0 i v) then (s.l1.nodes i).log.length + 1 else s.pend i) }

/-- `advance`: the leader appends the empty `ConfChangeV2` itself -/
def cLeave (s : SysJ N) (i : Fin N) : SysJ N :=
  { s with
    l1 := ⟨upd1 s.l1.nodes i (proposeN (s.l1.nodes i) leaveData), s.l1.net⟩
    pend := updN s.pend i ((s.l1.nodes i).log.length + 1) }

def cRestart (s : SysJ N) (i : Fin N) (a : Nat) : SysJ N :=
  { l1 := ⟨upd1 s.l1.nodes i (stepDownN (s.l1.nodes i)), s.l1.net⟩
    applied := updN s.applied i a
    pend := updN s.pend i 0 }

inductive StepJ (c0 : RQJ.Config) : SysJ N → SysJ N → Prop
| lift (s : SysJ N) (l1' : Sys1 N) (h : Step1L s.l1 l1') : StepJ c0 s { s with l1 := l1' }
| setPend (s : SysJ N) (i : Fin N) (p : Nat) (h : (s.l1.nodes i).role ≠ .leader) : StepJ c0 s { s with pend := updN s.pend i p }
| hup (s : SysJ N) (i : Fin N)
    (hg : campaignGate (decide ((s.l1.nodes i).role = .leader)) (nid i) (s.cfg c0 i) (pendingFlagsJ (s.node i)) = true) :
    StepJ c0 s (cHup s i)
| win (s : SysJ N) (i : Fin N) (hc : (s.l1.nodes i).role = .candidate) (hq : wonVotesJ (s.cfg c0 i) (s.l1.nodes i) = true) :
    StepJ c0 s (cWin s i)
| propose (s : SysJ N) (i : Fin N) (v : Nat) (hl : (s.l1.nodes i).role = .leader) : StepJ c0 s (cProp c0 s i v)
| autoLeave (s : SysJ N) (i : Fin N) (hl : (s.l1.nodes i).role = .leader) (hal : (s.cfg c0 i).autoLeave = true)
    (hp : s.pend i ≤ s.applied i) : StepJ c0 s (cLeave s i)
| commitQ (s : SysJ N) (i : Fin N) (k : Nat) (hl : (s.l1.nodes i).role = .leader)
    (hk : (s.l1.nodes i).commit < k ∧ k ≤ (s.l1.nodes i).log.length) (hterm : termAt (s.l1.nodes i).log k = (s.l1.nodes i).term)
    (hq : quorumB (s.cfg c0 i) (fun j => decide (k ≤ (s.l1.nodes i).matchI j)) = true) :
    StepJ c0 s (s.setNode i { (s.l1.nodes i) with commit := k })
| applyOne (s : SysJ N) (i : Fin N) (h : s.applied i < (s.l1.nodes i).commit) :
    StepJ c0 s { s with applied := updN s.applied i (s.applied i + 1) }
| forget (s : SysJ N) (i : Fin N) (m' : Fin N → Nat) (h : ∀ j, m' j = (s.l1.nodes i).matchI j ∨ m' j = 0) :
    StepJ c0 s (s.setNode i { (s.l1.nodes i) with matchI := m' })
| restart (s : SysJ N) (i : Fin N) (a : Nat) (ha : a ≤ s.applied i) : StepJ c0 s (cRestart s i a)
/-- MsgSnap whose `ConfState` does not contain the receiver (`restore`: "not in the ConfState"): ignored, answered with the commit index -/
| snapSkip (s : SysJ N) (j src : Fin N) (t k : Nat) (ents : Log) (hm : s.l1.net (.snap t src j k ents))
    (ht : (s.l1.nodes j).term = t) (hnl : (s.l1.nodes j).role ≠ .leader) (hpos : 0 < (s.l1.nodes j).commit) :
    StepJ c0 s { s with l1 := ⟨upd1 s.l1.nodes j (followN (s.l1.nodes j) src), send s.l1 fun m => m = .appResp t j src (s.l1.nodes j).commit false⟩ }

/-- the relation between an L1C state and a state of the protocol model -/
structure RJ (s : SysJ N) (cs : CSys N) : Prop where
  r : R s.l1 cs.base
  applied : ∀ i, cs.applied i = s.applied i
  pend : ∀ i, (s.l1.nodes i).role = .leader → cs.pend i = s.pend i

theorem RJ.cfg {c0 : RQJ.Config} {s : SysJ N} {cs : CSys N} (rc : RJ s cs) (i : Fin N) : RSJ.cfg c0 cs i = s.cfg c0 i := by
  unfold RSJ.cfg SysJ.cfg cfgOf SysJ.node; rw [rc.r.log, rc.applied]

/-- a quorum-free L0 step of the base is a step of the protocol model that leaves `applied` alone, leaves the `pend` of every node
    that is leader afterwards alone, and makes nobody leader -/
theorem nq_cstep {c0 : RQJ.Config} {cs : CSys N} {b' : Sys N} (h : StepNQ cs.base b') :
    ∃ cs', CStep c0 .other cs cs' ∧ cs'.base = b' ∧ cs'.applied = cs.applied ∧
      (∀ i, (b'.nodes i).role = .leader → cs'.pend i = cs.pend i ∧ (cs.base.nodes i).role = .leader) := by
  cases h with
  | updateTerm i t ht =>
    refine ⟨_, CStep.updateTerm cs i t ht, rfl, rfl, fun j hj => ?_⟩
    by_cases hji : j = i
    · subst hji; simp [doUpdateTerm] at hj
    · simp only [doUpdateTerm, upd_other _ _ hji] at hj; exact ⟨updN_other _ _ hji, hj⟩
  | grant j c t li lt hm ht hv hu =>
    refine ⟨_, CStep.grant cs j c t li lt hm ht hv hu, rfl, rfl, fun y hy => ⟨rfl, ?_⟩⟩
    by_cases hyj : y = j
    · subst hyj; simpa [doGrant] using hy
    · simpa only [doGrant, upd_other _ _ hyj] using hy
  | sendAE i prev cnt hl hp => exact ⟨_, CStep.sendAE cs i prev cnt hl hp, rfl, rfl, fun y hy => ⟨rfl, hy⟩⟩
  | handleAE j src t prev pt ents cm hm ht hnl hmatch =>
    refine ⟨_, CStep.handleAE cs j src t prev pt ents cm hm ht hnl hmatch, rfl, rfl, fun y hy => ⟨rfl, ?_⟩⟩
    by_cases hyj : y = j
    · subst hyj; simp [doHandleAE] at hy
    · simpa only [doHandleAE, upd_other _ _ hyj] using hy
  | restart i =>
    refine ⟨_, CStep.restart cs i (cs.applied i) (Nat.le_refl _), rfl, updN_self _ _, fun j hj => ?_⟩
    by_cases hji : j = i
    · subst hji; simp [doRestart] at hj
    · simp only [doRestart, upd_other _ _ hji] at hj; exact ⟨updN_other _ _ hji, hj⟩
  | ackCommitted j src t prev pt ents cm hm ht hnl hlt =>
    refine ⟨_, CStep.ackCommitted cs j src t prev pt ents cm hm ht hnl hlt, rfl, rfl, fun y hy => ⟨rfl, ?_⟩⟩
    by_cases hyj : y = j
    · subst hyj; simp [doAckCommitted] at hy
    · simpa only [doAckCommitted, upd_other _ _ hyj] using hy
  | sendHB i dst c hl hc hack => exact ⟨_, CStep.sendHB cs i dst c hl hc hack, rfl, rfl, fun y hy => ⟨rfl, hy⟩⟩
  | handleHB j src t c hm ht hnl =>
    refine ⟨_, CStep.handleHB cs j src t c hm ht hnl, rfl, rfl, fun y hy => ⟨rfl, ?_⟩⟩
    by_cases hyj : y = j
    · subst hyj; simp [doHandleHB] at hy
    · simpa only [doHandleHB, upd_other _ _ hyj] using hy

theorem RJ.flags {s : SysJ N} {cs : CSys N} (rc : RJ s cs) (i : Fin N) : pendingFlags cs i = pendingFlagsJ (s.node i) := by
  unfold pendingFlags pendingFlagsJ SysJ.node; rw [rc.r.log, rc.r.commit, rc.applied]

/-- an L1 move simulated by at most one quorum-free L0 step, read on the protocol model -/
theorem simJ_nq {c0 : RQJ.Config} {s : SysJ N} {cs : CSys N} (rc : RJ s cs) {l1' : Sys1 N}
    (hs : ∃ b', StepNQ? cs.base b' ∧ R l1' b') :
    ∃ cs', (cs' = cs ∨ ∃ lab, CStep c0 lab cs cs') ∧ RJ { s with l1 := l1' } cs' := by
  obtain ⟨b', hst, r'⟩ := hs
  rcases hst with e | hnq
  · subst e
    refine ⟨cs, Or.inl rfl, ⟨r', rc.applied, fun i hi => rc.pend i ?_⟩⟩
    rw [← rc.r.role]; rw [← r'.role] at hi; exact hi
  · obtain ⟨cs', cst, hb, hap, hp⟩ := nq_cstep (c0 := c0) hnq
    refine ⟨cs', Or.inr ⟨_, cst⟩, ⟨by rw [hb]; exact r', fun i => by rw [hap]; exact rc.applied i, fun i hi => ?_⟩⟩
    have hi' : (b'.nodes i).role = .leader := by rw [← hb, (show R _ cs'.base from by rw [hb]; exact r').role]; exact hi
    obtain ⟨e1, e2⟩ := hp i hi'
    rw [e1]; exact rc.pend i (by rw [← rc.r.role]; exact e2)

/-- **one L1C step is at most one step of the protocol model** -/
theorem simJ {c0 : RQJ.Config} {s s' : SysJ N} {cs : CSys N} (cr : CReach c0 cs) (rc : RJ s cs) (st : StepJ c0 s s') :
    ∃ cs', (cs' = cs ∨ ∃ lab, CStep c0 lab cs cs') ∧ RJ s' cs' := by
  cases st with
  | lift l1' h =>
    obtain ⟨h0, _⟩ := RSQ.reach_inv (creach_base cr)
    exact simJ_nq rc (simL h0.ae_ok h0.p_nodes h0.p_llog rc.r h)
  | snapSkip j src t k ents hm ht hnl hpos => exact simJ_nq rc (sim_snapSkip rc.r j src t k ents hm ht hnl hpos)
  | setPend i p h =>
    refine ⟨cs, Or.inl rfl, ⟨rc.r, rc.applied, fun j hj => ?_⟩⟩
    by_cases hji : j = i
    · subst hji; exact absurd hj h
    · show cs.pend j = updN s.pend i p j
      rw [updN_other _ _ hji]; exact rc.pend j hj
  | hup i hg =>
    have hg' : campaignGate (decide ((cs.base.nodes i).role = .leader)) (nid i) (RSJ.cfg c0 cs i) (pendingFlags cs i) = true := by
      rw [rc.r.role, rc.cfg, rc.flags]; exact hg
    obtain ⟨h1, h2, h3⟩ := (campaignGate_iff c0 cs i).1 hg'
    refine ⟨_, Or.inr ⟨_, CStep.timeout cs i h1 h2 h3⟩, ⟨R_hup rc.r i, rc.applied, fun j hj => ?_⟩⟩
    by_cases hji : j = i
    · subst hji; simp [cHup, campaign] at hj
    · show updN cs.pend i 0 j = s.pend j
      rw [updN_other _ _ hji]
      exact rc.pend j (by simpa [cHup, upd1_other _ _ hji] using hj)
  | win i hc hq =>
    obtain ⟨Q, hQ, hall⟩ := wonVotesJ_quorum hq
    have hq' : IsQuorumJ (RSJ.cfg c0 cs i) Q := by rw [rc.cfg]; exact hQ
    have hc' : (cs.base.nodes i).role = .candidate := by rw [rc.r.role]; exact hc
    refine ⟨_, Or.inr ⟨_, CStep.becomeLeader cs i Q hq' hc' (win_backing rc.r i hc Q hall)⟩, ⟨R_win rc.r i Q, rc.applied, fun j hj => ?_⟩⟩
    by_cases hji : j = i
    · subst hji
      show updN cs.pend j (cs.base.nodes j).log.length j = updN s.pend j (s.l1.nodes j).log.length j
      rw [updN_same, updN_same, rc.r.log]
    · show updN cs.pend i (cs.base.nodes i).log.length j = updN s.pend i (s.l1.nodes i).log.length j
      rw [updN_other _ _ hji, updN_other _ _ hji]
      exact rc.pend j (by simpa [cWin, upd1_other _ _ hji] using hj)
  | propose i v hl =>
    have hl' : (cs.base.nodes i).role = .leader := by rw [rc.r.role]; exact hl
    have hgate : gate c0 cs i v = s.gate c0 i v := by unfold gate SysJ.gate; rw [rc.applied, rc.pend i hl, rc.cfg]
    refine ⟨_, Or.inr ⟨_, CStep.propose cs i v hl'⟩, ⟨?_, rc.applied, fun j hj => ?_⟩⟩
    · show R _ (doClientReq cs.base i (gate c0 cs i v))
      rw [hgate]; exact R_propose rc.r i _ hl
    · by_cases hji : j = i
      · subst hji
        show updN cs.pend j _ j = updN s.pend j _ j
        rw [updN_same, updN_same, hgate, rc.r.log, rc.pend j hl]
      · show updN cs.pend i _ j = updN s.pend i _ j
        rw [updN_other _ _ hji, updN_other _ _ hji]
        exact rc.pend j (by simpa [cProp, upd1_other _ _ hji] using hj)
  | autoLeave i hl hal hp =>
    have hl' : (cs.base.nodes i).role = .leader := by rw [rc.r.role]; exact hl
    refine ⟨_, Or.inr ⟨_, CStep.autoLeave cs i hl' (by rw [rc.cfg]; exact hal) (by rw [rc.applied, rc.pend i hl]; exact hp)⟩,
      ⟨R_propose rc.r i _ hl, rc.applied, fun j hj => ?_⟩⟩
    by_cases hji : j = i
    · subst hji
      show updN cs.pend j _ j = updN s.pend j _ j
      rw [updN_same, updN_same, rc.r.log]
    · show updN cs.pend i _ j = updN s.pend i _ j
      rw [updN_other _ _ hji, updN_other _ _ hji]
      exact rc.pend j (by simpa [cLeave, upd1_other _ _ hji] using hj)
  | commitQ i k hl hk hterm hq =>
    obtain ⟨Q, hQ, hall'⟩ := quorumB_spec hq
    have hall : ∀ j ∈ Q, k ≤ (s.l1.nodes i).matchI j := fun j hj => by simpa using hall' j hj
    have hq' : IsQuorumJ (RSJ.cfg c0 cs i) Q := by rw [rc.cfg]; exact hQ
    refine ⟨_, Or.inr ⟨_, CStep.advanceCommit cs i k Q (by rw [rc.r.role]; exact hl) (by rw [rc.r.commit, rc.r.log]; exact hk)
      (by rw [rc.r.log, rc.r.term]; exact hterm) hq' (commit_backing rc.r i k hl hk Q hall)⟩, ⟨R_commitQ rc.r i k, rc.applied, fun j hj => ?_⟩⟩
    refine rc.pend j ?_
    by_cases hji : j = i
    · subst hji; simpa [SysJ.setNode] using hj
    · simpa [SysJ.setNode, upd1_other _ _ hji] using hj
  | applyOne i h =>
    refine ⟨_, Or.inr ⟨_, CStep.apply cs i (by rw [rc.applied, rc.r.commit]; exact h)⟩, ⟨rc.r, fun j => ?_, rc.pend⟩⟩
    by_cases hji : j = i
    · subst hji; show updN cs.applied j _ j = updN s.applied j _ j; rw [updN_same, updN_same, rc.applied]
    · show updN cs.applied i _ j = updN s.applied i _ j; rw [updN_other _ _ hji, updN_other _ _ hji]; exact rc.applied j
  | forget i m' h =>
    refine ⟨cs, Or.inl rfl, ⟨⟨fun j => ?_, rc.r.net, fun j => ?_⟩, rc.applied, fun j hj => rc.pend j ?_⟩⟩
    · by_cases hji : j = i
      · subst hji; simpa [SysJ.setNode, projNode] using rc.r.nodes j
      · simpa [SysJ.setNode, upd1_other _ _ hji] using rc.r.nodes j
    · by_cases hji : j = i
      · subst hji
        have o := rc.r.node j
        simp only [SysJ.setNode, upd1_same]
        refine ⟨o.voted, o.granted, fun y hy hpos => ?_, o.selfack⟩
        rcases h y with e | e
        · simp only at hpos ⊢; rw [e] at hpos ⊢; exact o.matched y hy hpos
        · simp only at hpos; omega
      · simpa [SysJ.setNode, upd1_other _ _ hji] using rc.r.node j
    · by_cases hji : j = i
      · subst hji; simpa [SysJ.setNode] using hj
      · simpa [SysJ.setNode, upd1_other _ _ hji] using hj
  | restart i a ha =>
    refine ⟨_, Or.inr ⟨_, CStep.restart cs i a (by rw [rc.applied]; exact ha)⟩, ⟨R_stepDown rc.r i, fun j => ?_, fun j hj => ?_⟩⟩
    · by_cases hji : j = i
      · subst hji; show updN cs.applied j a j = updN s.applied j a j; rw [updN_same, updN_same]
      · show updN cs.applied i a j = updN s.applied i a j; rw [updN_other _ _ hji, updN_other _ _ hji]; exact rc.applied j
    · by_cases hji : j = i
      · subst hji; simp [cRestart, stepDownN] at hj
      · show updN cs.pend i 0 j = updN s.pend i 0 j
        rw [updN_other _ _ hji, updN_other _ _ hji]
        exact rc.pend j (by simpa [cRestart, upd1_other _ _ hji] using hj)

def initJ (N : Nat) : SysJ N := ⟨init1 N, fun _ => 0, fun _ => 0⟩

inductive ReachJ (c0 : RQJ.Config) : SysJ N → Prop
| init : ReachJ c0 (initJ N)
| step {s s'} : ReachJ c0 s → StepJ c0 s s' → ReachJ c0 s'

/-- every reachable L1C state is related to a reachable state of the protocol model -/
theorem reachJ_related {c0 : RQJ.Config} {s : SysJ N} (h : ReachJ c0 s) : ∃ cs, CReach c0 cs ∧ RJ s cs := by
  induction h with
  | init => exact ⟨cinit N, .init, ⟨R_init, fun _ => rfl, fun _ _ => rfl⟩⟩
  | step _ st ih =>
    obtain ⟨cs, cr, rc⟩ := ih
    obtain ⟨cs', hst, rc'⟩ := simJ cr rc st
    rcases hst with e | ⟨lab, cst⟩
    · subst e; exact ⟨_, cr, rc'⟩
    · exact ⟨cs', .step cr cst, rc'⟩

/-! ### C15 with membership changes for the handler-level relation: every reachable L1C state, on node state only -/

theorem L1J_election_safety {c0 : RQJ.Config} {s : SysJ N} (h : ReachJ c0 s) (i j : Fin N)
    (hi : (s.l1.nodes i).role = .leader) (hj : (s.l1.nodes j).role = .leader) (ht : (s.l1.nodes i).term = (s.l1.nodes j).term) : i = j := by
  obtain ⟨cs, cr, rc⟩ := reachJ_related h
  exact joint_election_safety cr i j (by rw [rc.r.role]; exact hi) (by rw [rc.r.role]; exact hj) (by rw [rc.r.term, rc.r.term]; exact ht)

theorem L1J_log_matching {c0 : RQJ.Config} {s : SysJ N} (h : ReachJ c0 s) (i j : Fin N) (k : Nat) (h1 : 1 ≤ k)
    (hi : k ≤ (s.l1.nodes i).log.length) (hj : k ≤ (s.l1.nodes j).log.length)
    (ht : termAt (s.l1.nodes i).log k = termAt (s.l1.nodes j).log k) : (s.l1.nodes i).log.take k = (s.l1.nodes j).log.take k := by
  obtain ⟨cs, cr, rc⟩ := reachJ_related h
  have := joint_log_matching cr i j k h1 (by rw [rc.r.log]; exact hi) (by rw [rc.r.log]; exact hj) (by rw [rc.r.log, rc.r.log]; exact ht)
  rwa [rc.r.log, rc.r.log] at this

theorem L1J_state_machine_safety {c0 : RQJ.Config} {s : SysJ N} (h : ReachJ c0 s) (i j : Fin N) (m : Nat)
    (hi : m ≤ (s.l1.nodes i).commit) (hj : m ≤ (s.l1.nodes j).commit) : (s.l1.nodes i).log.take m = (s.l1.nodes j).log.take m := by
  obtain ⟨cs, cr, rc⟩ := reachJ_related h
  have := joint_state_machine_safety cr i j m (by rw [rc.r.commit]; exact hi) (by rw [rc.r.commit]; exact hj)
  rwa [rc.r.log, rc.r.log] at this

theorem L1J_leader_completeness {c0 : RQJ.Config} {s : SysJ N} (h : ReachJ c0 s) (i j : Fin N)
    (hl : (s.l1.nodes i).role = .leader) (ht : (s.l1.nodes j).term ≤ (s.l1.nodes i).term) :
    (s.l1.nodes j).commit ≤ (s.l1.nodes i).log.length ∧
    (s.l1.nodes i).log.take (s.l1.nodes j).commit = (s.l1.nodes j).log.take (s.l1.nodes j).commit := by
  obtain ⟨cs, cr, rc⟩ := reachJ_related h
  have := joint_leader_holds_committed cr i j (by rw [rc.r.role]; exact hl) (by rw [rc.r.term, rc.r.term]; exact ht)
  rwa [rc.r.log, rc.r.log, rc.r.commit] at this

/-- the applied index of a reachable L1C node never exceeds its commit index -/
theorem L1J_applied_le {c0 : RQJ.Config} {s : SysJ N} (h : ReachJ c0 s) (i : Fin N) : s.applied i ≤ (s.l1.nodes i).commit := by
  obtain ⟨cs, cr, rc⟩ := reachJ_related h
  have := (cinv_reach cr).app_le i
  rwa [rc.applied, rc.r.commit] at this

/-- the commit index of a reachable L1J node lies inside its log -/
theorem L1J_commit_le {c0 : RQJ.Config} {s : SysJ N} (h : ReachJ c0 s) (i : Fin N) : (s.l1.nodes i).commit ≤ (s.l1.nodes i).log.length := by
  obtain ⟨cs, cr, rc⟩ := reachJ_related h
  obtain ⟨_, _, _, h3, _⟩ := RSQ.reach_inv (creach_base cr)
  have := (h3.n1 i).1
  rwa [rc.r.commit, rc.r.log] at this

#print axioms L1J_election_safety
#print axioms L1J_leader_completeness
#print axioms simJ
#print axioms reachJ_related
end RHJ
