import Mathlib.Data.Finset.Sort
import RedisGoModel.Raft.RQ
/-! Stage D, first step: the quorum and configuration-change layer of etcd raft as an executable model.

    * `raft/quorum/majority.go`, `joint.go`, `quorum.go`: `MajorityConfig` (a set of voter ids), `JointConfig` (a pair),
      `CommittedIndex` (the sort-and-pick of Stage A, `RS.committedIndex`, over the values collected from the config in an
      arbitrary enumeration order; an id without an ack counts as 0; the empty config returns `math.MaxUint64`, here `none` = ∞),
      `VoteResult` (as written: `q = n/2+1`, yes votes, missing votes; the empty config wins).
    * `raft/tracker/tracker.go`: `Config` (`Voters` joint pair, `Learners`, `LearnersNext`, `AutoLeave`) and `Clone`
      (which, as written, does NOT copy `AutoLeave`).
    * `raft/confchange/confchange.go`: `Changer.Simple`, `EnterJoint`, `LeaveJoint`, `apply`, `makeVoter`, `makeLearner`,
      `remove`, `initProgress`, `checkInvariants`, `checkAndCopy`, `checkAndReturn`, `symdiff`, `joint`;
      `restore.go`: `toConfChangeSingle`, `chain`, `Restore`.

    Abstractions (all measured by the correspondence suite of C15, `JQ`/`JV`/`CI`/`CC` lines of `harness raftsim -stageD`):
    * sets of ids are `Finset Nat` (Go: `map[uint64]struct{}`; nil and empty maps are the same set — the Go invariant "empty maps
      are nil" has no counterpart);
    * the `ProgressMap` the Changer carries next to the `Config` is *derived*: an id has a Progress iff it occurs in one of the
      four sets, and `Progress.IsLearner` iff it is in `Learners` (`hasProgress`, `isLearnerPr`).  The Changer maintains exactly
      this relation (every operation that adds/removes an id from the sets adds/removes its Progress, `IsLearner` is set exactly
      when the id enters `Learners`); the harness prints the real map after every operation and the driver compares it with the
      derived one, so the relation is checked on every generated operation rather than assumed;
    * indexes are `Nat` (Go: `uint64`), `none` stands for `math.MaxUint64`;
    * errors are compared as ok/err only (the texts are the Go texts, for readability). -/
namespace RQJ

/-- `quorum.MajorityConfig`: a set of voter ids -/
abbrev MajorityConfig := Finset Nat

/-- `quorum.VoteResult` -/
inductive VoteResult
| pending | lost | won
deriving DecidableEq, Repr

/-- `quorum.AckedIndexer`: `(idx, found)` per voter id -/
abbrev Acks := Nat → Option Nat
/-- the `votes map[uint64]bool` of `VoteResult`: absent = not yet voted -/
abbrev Votes := Nat → Option Bool

/-- the value `CommittedIndex` puts into the slice for a voter: its acked index, or the zero the slot keeps when `!ok` -/
def ackVal (l : Acks) (id : Nat) : Nat := (l id).getD 0

/-- ∞ (= `math.MaxUint64`) is `none` -/
abbrev Idx := Option Nat

/-- `k ≤ i` for a finite `k` -/
def Idx.ge (i : Idx) (k : Nat) : Prop :=
  match i with
  | none => True
  | some v => k ≤ v

/-- Go: `if idx0 < idx1 { return idx0 }; return idx1` on `uint64` with ∞ = MaxUint64 -/
def minIdx : Idx → Idx → Idx
| none, b => b
| some a, none => some a
| some a, some b => some (if a < b then a else b)

namespace MajorityConfig

/-- `CommittedIndex` for one enumeration `ids` of the config (Go ranges over the map in an unspecified order): collect the values,
    insertion-sort, pick `srt[n - (n/2+1)]` (`RS.committedIndex`, Stage A) -/
def committedIndexOf (ids : List Nat) (l : Acks) : Idx :=
  if ids.isEmpty then none else some (RS.committedIndex (ids.map (ackVal l)))

/-- `MajorityConfig.CommittedIndex`, enumerating in id order (`C15Conf.committedIndexOf_order_irrelevant`: every order gives the same) -/
def committedIndex (c : MajorityConfig) (l : Acks) : Idx :=
  committedIndexOf (c.sort (· ≤ ·)) l

/-- `MajorityConfig.VoteResult` as written -/
def voteResult (c : MajorityConfig) (votes : Votes) : VoteResult :=
  if c.card = 0 then .won else
  let votedCnt := (c.filter fun id => votes id = some true).card
  let missing := (c.filter fun id => votes id = none).card
  let q := c.card / 2 + 1
  if votedCnt ≥ q then .won
  else if votedCnt + missing ≥ q then .pending
  else .lost

end MajorityConfig

/-- `quorum.JointConfig` = `[2]MajorityConfig`: `[0]` incoming, `[1]` outgoing -/
structure JointConfig where
  incoming : MajorityConfig
  outgoing : MajorityConfig
deriving DecidableEq

namespace JointConfig

/-- `JointConfig.CommittedIndex`: the smaller of the two halves -/
def committedIndex (c : JointConfig) (l : Acks) : Idx :=
  minIdx (MajorityConfig.committedIndex c.incoming l) (MajorityConfig.committedIndex c.outgoing l)

/-- `JointConfig.VoteResult` as written -/
def voteResult (c : JointConfig) (votes : Votes) : VoteResult :=
  let r1 := MajorityConfig.voteResult c.incoming votes
  let r2 := MajorityConfig.voteResult c.outgoing votes
  if r1 = r2 then r1
  else if r1 = .lost ∨ r2 = .lost then .lost
  else .pending

/-- `JointConfig.IDs` -/
def ids (c : JointConfig) : Finset Nat := c.incoming ∪ c.outgoing

end JointConfig

/-! ### tracker.Config and confchange.Changer -/

/-- `tracker.Config`; `voters` = `Voters[0]` (incoming), `outgoing` = `Voters[1]` -/
structure Config where
  voters : Finset Nat
  outgoing : Finset Nat
  learners : Finset Nat
  learnersNext : Finset Nat
  autoLeave : Bool

/-- field-wise (the derived instance does not reduce under `decide`) -/
instance : DecidableEq Config := fun a b =>
  decidable_of_iff (a.voters = b.voters ∧ a.outgoing = b.outgoing ∧ a.learners = b.learners ∧
      a.learnersNext = b.learnersNext ∧ a.autoLeave = b.autoLeave)
    (by cases a; cases b; simp)

/-- the config of `tracker.MakeProgressTracker` -/
def Config.empty : Config := ⟨∅, ∅, ∅, ∅, false⟩

def Config.jointConfig (c : Config) : JointConfig := ⟨c.voters, c.outgoing⟩

/-- `Config.Clone`: as written it copies the four sets and leaves `AutoLeave` at its zero value -/
def Config.clone (c : Config) : Config := { c with autoLeave := false }

/-- derived `ProgressMap`: the ids that have a `Progress` -/
def hasProgress (c : Config) (id : Nat) : Bool :=
  decide (id ∈ c.voters ∨ id ∈ c.outgoing ∨ id ∈ c.learners ∨ id ∈ c.learnersNext)

/-- derived `Progress.IsLearner` -/
def isLearnerPr (c : Config) (id : Nat) : Bool := decide (id ∈ c.learners)

/-- `joint(cfg)`: `len(outgoing(cfg.Voters)) > 0` -/
def joint (c : Config) : Bool := decide (c.outgoing ≠ ∅)

/-- `symdiff(l, r)` -/
def symdiff (l r : Finset Nat) : Nat := (l.filter fun id => id ∉ r).card + (r.filter fun id => id ∉ l).card

/-- `checkInvariants(cfg, prs)`, with the clauses about `prs` read through the derived map ("no progress for id" cannot fail;
    "in LearnersNext, but is already marked as learner" is `id ∉ learners`; "in Learners, but is not marked as learner" cannot fail) -/
def checkInvariants (c : Config) : Prop :=
  (∀ id ∈ c.learnersNext, id ∈ c.outgoing ∧ id ∉ c.learners) ∧
  (∀ id ∈ c.learners, id ∉ c.outgoing ∧ id ∉ c.voters) ∧
  (c.outgoing = ∅ → c.learnersNext = ∅ ∧ c.autoLeave = false)

instance (c : Config) : Decidable (checkInvariants c) := by
  unfold checkInvariants; infer_instance

/-- `pb.ConfChangeType`; `other` is any value outside the four defined ones -/
inductive ChangeType
| addNode | addLearnerNode | removeNode | updateNode | other
deriving DecidableEq, Repr

/-- `pb.ConfChangeSingle` -/
structure Change where
  typ : ChangeType
  id : Nat
deriving DecidableEq, Repr

/-- `checkAndReturn` -/
def checkAndReturn (c : Config) : Except String Config :=
  if checkInvariants c then .ok c else .error "invariant violated"

/-- `Changer.checkAndCopy` -/
def checkAndCopy (c : Config) : Except String Config := checkAndReturn c.clone

/-- `Changer.initProgress` -/
def initProgress (c : Config) (id : Nat) (isLearner : Bool) : Config :=
  if !isLearner then { c with voters := insert id c.voters } else { c with learners := insert id c.learners }

/-- `Changer.makeVoter` -/
def makeVoter (c : Config) (id : Nat) : Config :=
  if !hasProgress c id then initProgress c id false
  else { c with learners := c.learners.erase id, learnersNext := c.learnersNext.erase id, voters := insert id c.voters }

/-- `Changer.remove` (the Progress of an id that is still an outgoing voter is kept: the id stays in `outgoing`) -/
def remove (c : Config) (id : Nat) : Config :=
  if !hasProgress c id then c
  else { c with voters := c.voters.erase id, learners := c.learners.erase id, learnersNext := c.learnersNext.erase id }

/-- `Changer.makeLearner` -/
def makeLearner (c : Config) (id : Nat) : Config :=
  if !hasProgress c id then initProgress c id true
  else if isLearnerPr c id then c
  else
    let c' := remove c id
    if id ∈ c'.outgoing then { c' with learnersNext := insert id c'.learnersNext }
    else { c' with learners := insert id c'.learners }

/-- one iteration of the loop in `Changer.apply` -/
def applyOne (c : Config) (cc : Change) : Except String Config :=
  if cc.id = 0 then .ok c else
  match cc.typ with
  | .addNode => .ok (makeVoter c cc.id)
  | .addLearnerNode => .ok (makeLearner c cc.id)
  | .removeNode => .ok (remove c cc.id)
  | .updateNode => .ok c
  | .other => .error "unexpected conf type"

/-- `Changer.apply` -/
def apply (c : Config) (ccs : List Change) : Except String Config := do
  let c' ← ccs.foldlM applyOne c
  if c'.voters = ∅ then .error "removed all voters" else .ok c'

/-- `Changer.EnterJoint(autoLeave, ccs...)` on the tracker config `c` -/
def enterJoint (autoLeave : Bool) (c : Config) (ccs : List Change) : Except String Config := do
  let cfg ← checkAndCopy c
  if joint cfg then .error "config is already joint"
  else if cfg.voters = ∅ then .error "can't make a zero-voter config joint"
  else do
    let cfg ← apply { cfg with outgoing := cfg.voters } ccs
    checkAndReturn { cfg with autoLeave := autoLeave }

/-- `Changer.LeaveJoint()` (the second test of the Go code, `len(outgoing) == 0`, is the first one again) -/
def leaveJoint (c : Config) : Except String Config := do
  let cfg ← checkAndCopy c
  if !joint cfg then .error "can't leave a non-joint config"
  else checkAndReturn { cfg with learners := cfg.learners ∪ cfg.learnersNext, learnersNext := ∅, outgoing := ∅, autoLeave := false }

/-- `Changer.Simple(ccs...)` -/
def simple (c : Config) (ccs : List Change) : Except String Config := do
  let cfg ← checkAndCopy c
  if joint cfg then .error "can't apply simple config change in joint config"
  else do
    let cfg ← apply cfg ccs
    if symdiff c.voters cfg.voters > 1 then .error "more than one voter changed without entering joint config"
    else checkAndReturn cfg

/-! ### restore.go -/

/-- `pb.ConfState` (slices: order and repetitions are kept) -/
structure ConfState where
  voters : List Nat
  learners : List Nat
  votersOutgoing : List Nat
  learnersNext : List Nat
  autoLeave : Bool

/-- `toConfChangeSingle` -/
def toConfChangeSingle (cs : ConfState) : List Change × List Change :=
  (cs.votersOutgoing.map (⟨.addNode, ·⟩),
   cs.votersOutgoing.map (⟨.removeNode, ·⟩) ++ cs.voters.map (⟨.addNode, ·⟩) ++
     cs.learners.map (⟨.addLearnerNode, ·⟩) ++ cs.learnersNext.map (⟨.addLearnerNode, ·⟩))

/-- `Restore(chg, cs)` with `chg` an empty tracker (`chain`: stop at the first error) -/
def restore (cs : ConfState) : Except String Config :=
  let (out, inc) := toConfChangeSingle cs
  if out.isEmpty then inc.foldlM (fun c cc => simple c [cc]) Config.empty
  else do
    let c ← out.foldlM (fun c cc => simple c [cc]) Config.empty
    enterJoint cs.autoLeave c inc

end RQJ
