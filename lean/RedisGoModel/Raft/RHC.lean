import RedisGoModel.Raft.RH
import RedisGoModel.Raft.RSC

/-! C15 Stage D, step 4: **the executable handler with membership changes** — `RH.handle` made configuration-aware.

    A node is an `RS.Node1` (term, vote, role, lead, log, commit, votes[], match[]) plus `applied` and `pend`
    (`pendingConfIndex`).  Its configuration is not stored: it is `RSC.cfgAt c0 log applied`, the fold of `Changer.Simple` over the
    conf-change entries of its own log up to `applied` (the definition the safety theorems of `Props/C15ConfSafe.lean` are about).
    What reads it, as in etcd's `raft.go`:
    * `hup`: `RSC.campaignGate` (not leader, voter of its own config, no conf change in `(applied, committed]`); vote requests go to
      the voters of the config; a vote is won / lost by `VoteResult` over the voters (`wonVotesC`, `lostVotesC`);
    * `maybeCommit`: `CommittedIndex` over the voters (`qidxC`);
    * MsgAppResp (and the leader's own, `selfAck`) from an id without a `Progress` is ignored;
    * MsgProp on the leader: dropped if the leader itself has no `Progress`; each entry goes through the `pendingConfIndex` gate
      (`RSC.gateSeq`: a refused conf change is appended as an empty entry);
    * `applyTo k` (raftexample `publishEntries` → `ApplyConfChange`, then `Advance`): entries are applied one at a time; after
      every conf-change entry a leader that still has a `Progress` and is not a learner runs `maybeCommit` under the new config
      (`switchToConfig`), and the `Match` of an id that lost its `Progress` is forgotten;
    * a response message (MsgVoteResp, MsgAppResp) from an id without a `Progress` is not stepped at all (`ErrStepPeerNotFound`);
    * MsgSnap: ignored when the receiver is not in the snapshot's `ConfState` (`restore`'s "not in the ConfState" test); a restore
      moves `applied` to the snapshot index;
    * `restart a`: role lost, `pend = 0`, `applied` falls back to `a` (the index of the snapshot in storage).
    `lean/RaftDriver.lean` replays the `member` / `member-partition` schedules of `harness raftsim` on `handleC`, event by event. -/
namespace RHC
open RS RSC

structure NodeC (N : Nat) where
  n : Node1 N
  applied : Nat
  pend : Nat

variable {N : Nat}

def cfgOf (c0 : RQJ.Config) (x : NodeC N) : RQJ.Config := cfgAt c0 x.n.log x.applied

instance (c : RQJ.Config) (Q : Finset (Fin N)) : Decidable (IsQuorumC c Q) := by unfold IsQuorumC; infer_instance

/-- the nodes satisfying `p` contain a strict majority of the voters of `c` -/
def quorumB (c : RQJ.Config) (p : Fin N → Bool) : Bool := decide (IsQuorumC c (Finset.univ.filter fun j => p j = true))

/-- the id of node `j` has a `Progress` -/
def hasProg (c : RQJ.Config) (j : Fin N) : Bool := RQJ.hasProgress c (nid j)

def isVoter (c : RQJ.Config) (j : Fin N) : Bool := decide (nid j ∈ c.voters)

/-- `VoteWon` -/
def wonVotesC (c : RQJ.Config) (n : Node1 N) : Bool := quorumB c (fun j => n.votes j == some true)
/-- `VoteLost`: granted and outstanding votes together are no quorum -/
def lostVotesC (c : RQJ.Config) (n : Node1 N) : Bool := !quorumB c (fun j => n.votes j != some false)

/-- `CommittedIndex` over the voters: the largest match value a quorum has reached -/
def qidxC (c : RQJ.Config) (f : Fin N → Nat) : Nat :=
  ((List.finRange N).map f).foldl (fun acc k => if quorumB c (fun j => decide (k ≤ f j)) then max acc k else acc) 0

def maybeCommitC (c : RQJ.Config) (n : Node1 N) : Node1 N :=
  if n.commit < qidxC c n.matchI ∧ qidxC c n.matchI ≤ n.log.length ∧ termAt n.log (qidxC c n.matchI) = n.term
  then { n with commit := qidxC c n.matchI } else n

/-- `MaybeUpdate` for an id that has a `Progress`, nothing otherwise -/
def ackC (c : RQJ.Config) (n : Node1 N) (src : Fin N) (idx : Nat) : Node1 N :=
  if hasProg c src then ackN n src idx else n

/-- the conf-change bits of the entries in `(applied, commit]` -/
def pendingFlagsC (x : NodeC N) : List Bool :=
  (List.range (x.n.commit - x.applied)).map fun d => confAt x.n.log (x.applied + d + 1)

inductive InputC (N : Nat)
| hup | prop (vs : List Nat) | selfAck | beat | restart (a : Nat) | applyTo (k : Nat) | recv (m : Msg1 N)
/-- the transport's reports (`RawNode.ReportSnapshot` / `ReportUnreachable`), as in `RS.Input`: they move only the leader's `Progress`
    bookkeeping (`RS.reportProg`), nothing of the node -/
| snapStatus (src : Fin N) (failed : Bool) | unreachable (src : Fin N)

/-- apply ONE more entry -/
def applyOneC (c0 : RQJ.Config) (i : Fin N) (x : NodeC N) : NodeC N :=
  let x1 : NodeC N := { x with applied := x.applied + 1 }
  if confAt x.n.log (x.applied + 1) then
    let c := cfgOf c0 x1
    let n1 : Node1 N := { x.n with matchI := fun j => if hasProg c j then x.n.matchI j else 0 }
    if x.n.role = .leader ∧ hasProg c i = true ∧ RQJ.isLearnerPr c (nid i) = false
    then { x1 with n := maybeCommitC c n1 } else { x1 with n := n1 }
  else x1

/-- apply entries up to `k` (never beyond the commit index) -/
def applyToC (c0 : RQJ.Config) (i : Fin N) (x : NodeC N) (k : Nat) : NodeC N :=
  (List.range (k - x.applied)).foldl (fun y _ => if y.applied < y.n.commit then applyOneC c0 i y else y) x

/-- the receiver of a snapshot of the prefix `ents` (index `k`) is in the snapshot's `ConfState` -/
def inSnapConf (c0 : RQJ.Config) (i : Fin N) (ents : Log) (k : Nat) : Bool :=
  let c := cfgAt c0 ents k
  decide (nid i ∈ c.voters ∨ nid i ∈ c.learners ∨ nid i ∈ c.outgoing)

def handleSameC (c0 : RQJ.Config) (i : Fin N) (x : NodeC N) : Msg1 N → NodeC N × List (Msg1 N)
| .voteResp _ src _ rej =>
    if x.n.role = .candidate then
      let n2 := recordVote x.n src rej
      if wonVotesC (cfgOf c0 x) n2 then ({ x with n := winElection n2 i, pend := n2.log.length }, [])
      else if lostVotesC (cfgOf c0 x) n2 then ({ x with n := stepDownN n2, pend := 0 }, [])
      else ({ x with n := n2 }, [])
    else (x, [])
| .appResp _ src _ idx rej =>
    if x.n.role = .leader ∧ rej = false then ({ x with n := maybeCommitC (cfgOf c0 x) (ackC (cfgOf c0 x) x.n src idx) }, []) else (x, [])
| .snap t src d k ents =>
    if x.n.role = .leader then (x, [])
    else if k ≤ x.n.commit ∨ inSnapConf c0 i ents k = false then ({ x with n := followN x.n src }, [.appResp t i src x.n.commit false])
    else
      let r := handleSame i x.n (.snap t src d k ents)
      ({ x with n := r.1, applied := if k ≤ x.n.log.length ∧ termAt x.n.log k = termAt ents k then x.applied else k }, r.2)
| m => let r := handleSame i x.n m; ({ x with n := r.1 }, r.2)

/-- the sender of a response message (`IsResponseMsg`): `RawNode.Step` / `node.run` do not step a response from an id without a `Progress` -/
def respSrc : Msg1 N → Option (Fin N)
| .voteResp _ src .. => some src
| .appResp _ src .. => some src
| _ => none

def dropped (c : RQJ.Config) (m : Msg1 N) : Bool :=
  match respSrc m with
  | some src => !hasProg c src
  | none => false

def handleC (c0 : RQJ.Config) (i : Fin N) (x : NodeC N) : InputC N → NodeC N × List (Msg1 N)
| .hup =>
    if campaignGate (decide (x.n.role = .leader)) (nid i) (cfgOf c0 x) (pendingFlagsC x) = false then (x, [])
    else
      let n1 := campaign x.n i
      if wonVotesC (cfgOf c0 x) n1 then ({ x with n := winElection n1 i, pend := n1.log.length }, [])
      else ({ x with n := n1, pend := 0 },
            ((List.finRange N).filter (fun d => d ≠ i ∧ isVoter (cfgOf c0 x) d = true)).map
              (fun d => .vote (x.n.term + 1) i d x.n.log.length (lastTerm x.n.log)))
| .prop vs =>
    if x.n.role = .leader ∧ hasProg (cfgOf c0 x) i = true then
      let r := gateSeq x.applied x.pend x.n.log.length vs
      ({ x with n := { x.n with log := x.n.log ++ r.1.map fun v => ⟨x.n.term, v⟩ }, pend := r.2 }, [])
    else (x, [])
| .selfAck =>
    if x.n.role = .leader then ({ x with n := maybeCommitC (cfgOf c0 x) (ackC (cfgOf c0 x) x.n i x.n.log.length) }, []) else (x, [])
| .beat => (x, [])
| .snapStatus _ _ => (x, [])
| .unreachable _ => (x, [])
| .restart a => ({ n := stepDownN x.n, applied := a, pend := 0 }, [])
| .applyTo k => (applyToC c0 i x k, [])
| .recv m =>
    if dropped (cfgOf c0 x) m then (x, [])
    else if m.term < x.n.term then (x, [])
    else if x.n.term < m.term then handleSameC c0 i { x with n := bump x.n m.term m.leadHint, pend := 0 } m
    else handleSameC c0 i x m

end RHC
