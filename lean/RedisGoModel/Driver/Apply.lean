import RedisGoModel.Driver.Util
import RedisGoModel.Cluster.Apply
/-! apply engine (C07): `N <applied>` new node; `B <first> <count> => <published ids|-> <applied> <ok>` or `=> FATAL <applied>`.
    The model is `Apply.publish` (for which `Apply.apply_exactly_once` is proved); a batch that starts beyond applied+1 violates
    the Ready contract (`Apply.Ok`) and is the one case the implementation refuses with log.Fatalf. -/
namespace Driver

structure ApplySt where
  applied : Nat := 0
  total : List Nat := []      -- everything published so far (must stay the contiguous range)
  start : Nat := 0

def applyLine (st : ApplySt) (fs : List String) : ApplySt × Option (Except String Bool) :=
  match fs with
  | ["N", a] => match a.toNat? with
    | some a => ({ applied := a, total := [], start := a }, some (.ok false))
    | none => (st, some (.error "bad N line"))
  | "B" :: f :: n :: "=>" :: rest =>
    match f.toNat?, n.toNat? with
    | some f, some n =>
      let okB : Bool := decide (1 ≤ f ∧ f ≤ st.applied + 1)
      match rest with
      | ["FATAL", _] => if okB then (st, some (.error "implementation refused a batch that satisfies the Ready contract")) else (st, some (.ok false))
      | [ids, applied, _ok] =>
        if !okB then (st, some (.error "implementation accepted a batch that starts beyond applied+1")) else
        let (out', a') := Apply.publish (st.total, st.applied) (f, n)
        let newIds := out'.drop st.total.length
        let e := if newIds.isEmpty then "-" else ",".intercalate (newIds.map toString)
        if e != ids then (st, some (.error s!"published expected={e} got={ids}"))
        else if toString a' != applied then (st, some (.error s!"appliedIndex expected={a'} got={applied}"))
        else if out' != Apply.batch (st.start + 1) (a' - st.start) then (st, some (.error "published history is not the contiguous range"))
        else ({ st with applied := a', total := out' }, some (.ok (!newIds.isEmpty)))
      | _ => (st, some (.error "bad B line"))
    | _, _ => (st, some (.error "bad B line"))
  | _ => (st, none)

end Driver
