import RedisGoModel.Driver.Util
import RedisGoModel.Resp.Resp
/-! parser engine: `P <stream> <chunk-mode> <events>`; the model consumes the complete stream (chunk independence is
    definitional in the model, so every chunking of the same stream must give the same event list). -/
namespace Driver
open Resp

def renderInt (i : Int) : String := toString i

partial def renderVal : Val → String
| .bulk none => "Bn"
| .bulk (some b) => "B:" ++ hex b
| .arr none => "An"
| .arr (some l) => "A[" ++ ";".intercalate (l.map renderVal) ++ "]"
| .line raw =>
  let body := raw.drop 1
  match raw.head? with
  | some 43 => "S:" ++ hex body
  | some 45 => "R:" ++ hex body
  | some 58 => match parseInt body with
    | some i => "I:" ++ renderInt i
    | none => "I:?"
  | _ => "T:" ++ hex body

def renderEvent : Event → String
| .data v => renderVal v
| .err => "E"
| .eof => "Z"

/-- non-trivial: the stream yields at least one complete array command -/
def hasArrayCmd (evs : List Event) : Bool :=
  evs.any fun e => match e with | .data (.arr (some (_ :: _))) => true | _ => false

def parserLine (fs : List String) : Option (Except String Bool) :=
  match fs with
  | ["P", s, _mode, obs] =>
    match unhex s with
    | some s =>
      let evs := parseLoop St.init s
      let e := ",".intercalate (evs.map renderEvent)
      some (if e == obs then .ok (hasArrayCmd evs) else .error s!"expected={e} got={obs}")
    | none => some (.error "bad-hex")
  | _ => none

end Driver
