import RedisGoModel.Driver.Util
import RedisGoModel.Resp.Chunked
/-! parser engine: `P <stream> <chunk-mode> <events>`; the verdict is the whole-stream model `parseLoop`.  Chunk independence is
    a theorem about the chunked reader of `Resp/Chunked.lean` (`C02.fragmentation_independent`: `runChunks chunks = parseLoop St.init
    chunks.flatten` for every list of chunks); the engine also RUNS that reader (`feed` per chunk, `finish`) on the very chunk
    boundaries the harness's reader handed to `bufio` (field `k=<sizes>`, run-length encoded; lines without it — old corpus — are
    cut whole / byte by byte / pseudo-randomly by mode) and refuses the line if the compiled reader disagrees. -/
namespace Driver
open Resp

def renderInt (i : Int) : String := toString i

partial def renderVal : Val → String
| .bulk none => "Bn"
| .bulk (some b) => "B:" ++ hex b
| .arr none => "An"
| .arr (some l) => "A[" ++ ";".intercalate (l.map renderVal) ++ "]"
| .line raw =>
  let body := raw.drop 1
  match raw.head? with
  | some 43 => "S:" ++ hex body
  | some 45 => "R:" ++ hex body
  | some 58 => match parseInt body with
    | some i => "I:" ++ renderInt i
    | none => "I:?"
  | _ => "T:" ++ hex body

def renderEvent : Event → String
| .data v => renderVal v
| .err => "E"
| .eof => "Z"

/-- non-trivial: the stream yields at least one complete array command -/
def hasArrayCmd (evs : List Event) : Bool :=
  evs.any fun e => match e with | .data (.arr (some (_ :: _))) => true | _ => false

/-- cut `s` into chunks of pseudo-random sizes 1, 1-3, 1-64, 1-5000 (the size classes of harness/parser.go), LCG seeded by the mode -/
def cutLoop : Nat → Nat → Bytes → List Bytes
| 0, _, s => if s.isEmpty then [] else [s]
| fuel + 1, seed, s =>
  if s.isEmpty then [] else
  let seed' := (seed * 1103515245 + 12345) % 2147483648
  let r := seed' / 65536
  let k := 1 + (r / 4) % (if r % 4 == 0 then 1 else if r % 4 == 1 then 3 else if r % 4 == 2 then 64 else 5000)
  s.take k :: cutLoop fuel seed' (s.drop k)

def chunksFor (mode : String) (s : Bytes) : List Bytes :=
  if mode == "0" then [s]
  else if mode == "1" && s.length ≤ 1200 then s.map fun b => [b]
  else cutLoop s.length (mode.toNat?.getD 7) s

/-- `k=3,1x40,7` -> [3, 1 (40 times), 7] -/
def parseSizes (k : String) : List Nat :=
  (((k.drop 2).toString.splitOn ",").map fun it =>
    match it.splitOn "x" with
    | [a, n] => List.replicate (n.toNat?.getD 0) (a.toNat?.getD 0)
    | [a] => [a.toNat?.getD 0]
    | _ => []).flatten

/-- cut `s` at the given sizes (zero sizes skipped); whatever is left over is one last chunk -/
def cutBy : List Nat → Bytes → List Bytes
| [], s => if s.isEmpty then [] else [s]
| k :: ks, s => if k == 0 then cutBy ks s else if s.isEmpty then [] else s.take k :: cutBy ks (s.drop k)

def parserVerdict (s : Bytes) (chunks : List Bytes) (obs : String) : Except String Bool :=
  let evs := parseLoop St.init s
  let e := ",".intercalate (evs.map renderEvent)
  let e2 := ",".intercalate ((runChunks chunks).map renderEvent)
  if e2 != e then .error s!"MODEL: chunked reader disagrees with the whole-stream parser (contradicts C02.fragmentation_independent): chunked={e2} whole={e}"
  else if e == obs then .ok (hasArrayCmd evs) else .error s!"expected={e} got={obs}"

def parserLine (fs : List String) : Option (Except String Bool) :=
  match fs with
  | ["P", s, _mode, ks, obs] =>
    match unhex s with
    | some s => some (if ks.startsWith "k=" then parserVerdict s (cutBy (parseSizes ks) s) obs else .error "bad chunk field")
    | none => some (.error "bad-hex")
  | ["P", s, mode, obs] =>
    match unhex s with
    | some s => some (parserVerdict s (chunksFor mode s) obs)
    | none => some (.error "bad-hex")
  | _ => none

end Driver
