import RedisGoModel.Driver.Util
import RedisGoModel.Cluster.ReadyLoop
/-! ready engine (C08): `RD <records> <snapshot files> <message> => <term.vote.commit> <snapIndex.snapTerm> <entries>` — what the real
    recovery functions (wal.ValidSnapshotEntries, LoadNewestAvailable, ReadAll) read from the node's directories at the moment of a
    Send, next to the raw WAL records and snapshot files (harness/readyrd.go).  The model is `ReadyLoop.replayRecs`, the function
    `C08Ready.persist_before_externalise` is about: it must reconstruct the same hard state, snapshot and entries, and its view must keep
    the promise the message makes (`Promise.holds`). -/
namespace Driver
open ReadyLoop

def natsOf (s : String) : Option (List Nat) := (s.splitOn ".").mapM String.toNat?

def listOf (s : String) : List String := if s == "-" then [] else s.splitOn ","

def parseRec (t : String) : Option Rec :=
  match t.toList with
  | 'e' :: r => match natsOf (String.ofList r) with | some [i, tm] => some (.entry ⟨i, tm, 0⟩) | _ => none
  | 's' :: r => match natsOf (String.ofList r) with | some [tm, v, cm] => some (.state ⟨tm, v, cm⟩) | _ => none
  | 'p' :: r => match natsOf (String.ofList r) with | some [i, tm] => some (.snap i tm) | _ => none
  | _ => none

def parseFile (t : String) : Option Snap :=
  match natsOf t with | some [i, tm] => some { index := i, term := tm } | _ => none

def parseEnt (t : String) : Option Entry :=
  match natsOf t with | some [i, tm] => some ⟨i, tm, 0⟩ | _ => none

/-- the promises of the observed message that do not need the node's memory: term, vote, the acknowledged index -/
def msgPromises (t : String) : Option (List Promise) :=
  match t.splitOn "." with
  | [kind, tm, to, idx, rej] =>
    match tm.toNat?, to.toNat?, idx.toNat?, rej.toNat? with
    | some tm, some to, some idx, some rej =>
      if kind == "vote" then some [.term tm, .vote tm 2]
      else if kind == "voteresp" then some (if rej == 0 then [.term tm, .vote tm to] else [.term tm])
      else if kind == "appresp" then some (if rej == 0 then [.term tm, .reach idx] else [.term tm])
      else some [.term tm]
    | _, _, _, _ => none
  | _ => none

def readyLine (fs : List String) : Option (Except String Bool) :=
  match fs with
  | ["RD", recs, files, msg, "=>", hs, sn, ents] =>
    match (listOf recs).mapM parseRec, (listOf files).mapM parseFile, msgPromises msg, natsOf hs, natsOf sn, (listOf ents).mapM parseEnt with
    | some recs, some files, some ps, some [t, v, cm], some [si, st], some ents =>
      match replayRecs recs files with
      | none => some (.error "the model's replayWAL fails (ErrSliceOutOfRange) where the real one succeeded")
      | some view =>
        if view.hs != ⟨t, v, cm⟩ then
          some (.error s!"hard state: model {view.hs.term}.{view.hs.vote}.{view.hs.commit}")
        else if view.snap.index != si || (si != 0 && view.snap.term != st) then
          some (.error s!"snapshot: model {view.snap.index}.{view.snap.term}")
        else if view.ents != ents then
          some (.error s!"entries: model has {view.ents.length} from {view.snap.index + 1}")
        else match ps.find? (fun p => !decide (p.holds view)) with
          | some _ => some (.error "the model's restart does not keep a promise of the message")
          | none => some (.ok (ps.length > 1))
    | _, _, _, _, _, _ => some (.error "bad RD line")
  | "RD" :: _ => some (.error "bad RD line")
  | _ => none

end Driver
