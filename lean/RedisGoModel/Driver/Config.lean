import RedisGoModel.Driver.Util
import RedisGoModel.Config.Parse
/-! config engine (C20, configuration layer): recomputes what the real `config` package did.
    `CD => <cfg>`                                              the literal `Setup` starts from (read from the source by go/ast) = `Config.defaults`
    `CF <file> => lr=… ip6=… <outcome>`                        `(*Config).Parse` on the defaults = `Config.parse`
    `CJ <json> <file> => lr=… ip6=… echo=<cfg> uerr=<b> <outcome>`   `Parse`, then `ParseConfigJson` = `Config.startup` in cluster mode, the
                                                               effect of `json.Unmarshal` taken from the echo
    `CN <n> => <len> | panic`                                  `server.NewManager` = `Config.newManager`
    `lr` / `ip6` are the oracle facts (`unicode.ToLower` above ASCII, `net.ParseIP` of tokens containing `:`) the harness ships. -/
namespace Driver.ConfigEng
open Config (Cfg Outcome Oracle)

def hexRaw (b : Bytes) : String :=
  String.ofList (b.foldr (fun x acc => hexDigit (x.toNat / 16) :: hexDigit (x.toNat % 16) :: acc) [])

def unhexRaw (s : String) : Option Bytes := unhexAux s.toList []

def b01 (b : Bool) : String := if b then "1" else "0"

/-- the Go map behind `Others`: newest entry of every key, sorted by key -/
def othersCanon (l : List (Bytes × Bytes)) : List (String × String) :=
  let dedup := l.foldl (fun acc (kv : Bytes × Bytes) => if acc.any (·.1 == kv.1) then acc else acc ++ [kv]) ([] : List (Bytes × Bytes))
  (dedup.map fun kv => (hexRaw kv.1, hexRaw kv.2)).mergeSort (fun a b => !(b.1 < a.1))

def showCfg (c : Cfg) : String :=
  let ot := ",".intercalate ((othersCanon c.others).map fun kv => kv.1 ++ ":" ++ kv.2)
  s!"conf={hexRaw c.confFile};host={hexRaw c.host};port={c.port};logdir={hexRaw c.logDir};loglevel={hexRaw c.logLevel};shard={c.shardNum};chan={c.chanBufferSize};db={c.databases};others={ot};ccp={hexRaw c.clusterConfigPath};cluster={b01 c.isCluster};peers={hexRaw c.peerAddrs};ids={hexRaw c.peerIDs};raft={hexRaw c.raftAddr};node={c.nodeID};kv={c.kvPort};join={b01 c.joinCluster}"

def parseBool01 (s : String) : Option Bool := if s == "1" then some true else if s == "0" then some false else none

def parseOthers (s : String) : Option (List (Bytes × Bytes)) :=
  if s.isEmpty then some [] else
  (s.splitOn ",").mapM fun e =>
    match e.splitOn ":" with
    | [k, v] => (unhexRaw k).bind fun k => (unhexRaw v).map fun v => (k, v)
    | _ => none

/-- the inverse of `showCfg` (the echo of `json.Unmarshal`'s effect) -/
def parseCfg (s : String) : Option Cfg := do
  let kvs := (s.splitOn ";").map fun e => match e.splitOn "=" with | [k, v] => (k, v) | _ => (e, "")
  let get := fun (k : String) => (kvs.find? (·.1 == k)).map (·.2)
  let str := fun (k : String) => (get k).bind unhexRaw
  let int := fun (k : String) => (get k).bind String.toInt?
  let bool := fun (k : String) => (get k).bind parseBool01
  let others ← (get "others").bind parseOthers
  some { confFile := ← str "conf", host := ← str "host", port := ← int "port", logDir := ← str "logdir", logLevel := ← str "loglevel",
         shardNum := ← int "shard", chanBufferSize := ← int "chan", databases := ← int "db", others := others,
         clusterConfigPath := ← str "ccp", isCluster := ← bool "cluster", peerAddrs := ← str "peers", peerIDs := ← str "ids",
         raftAddr := ← str "raft", nodeID := ← int "node", kvPort := ← int "kv", joinCluster := ← bool "join" }

def msgHex (s : String) : String := hexRaw s.toUTF8.toList

def showOutcome : Outcome → String
| .ok c => "ok:" ++ showCfg c
| .error (.hostInvalid h) => "error:msg:" ++ hexRaw (Config.ofStr "Given ip address " ++ h ++ Config.ofStr " is invalid")
| .error .portSyntax => "error:num:syntax"
| .error .portRange => "error:num:range"
| .error (.portBounds p) => "error:msg:" ++ msgHex s!"Listening port should between 1024 and 65535, but {p} is given."
| .error .jsonFields => "error:msg:" ++ msgHex "Invalid config file fields. "
| .error .clusterPathMissing => "error:msg:" ++ msgHex "cluster mode need a cluster config file to start. "
| .panic .shardSyntax => "panic:num:syntax"
| .panic .shardRange => "panic:num:range"
| .panic .nodeIdNotSet => "panic:str:" ++ msgHex "NodeID not set"
| .panic .raftIndex => "panic:rt:index"
| .fatal .dbSyntax => "fatal:1:int"      -- the text log.Fatal writes does not tell a syntax from a range error
| .fatal .dbRange => "fatal:1:int"
| .fatal .dbNonPositive => "fatal:1:pos"

def parseLr (s : String) : Option (List (Nat × Nat)) :=
  if s == "-" then some [] else
  (s.splitOn ",").mapM fun e =>
    match e.splitOn ":" with
    | [a, b] => a.toNat?.bind fun a => b.toNat?.map fun b => (a, b)
    | _ => none

def parseIp6 (s : String) : Option (List (Bytes × Bool)) :=
  if s == "-" then some [] else
  (s.splitOn ",").mapM fun e =>
    match e.splitOn ":" with
    | [a, b] => (unhexRaw a).bind fun a => (parseBool01 b).map fun b => (a, b)
    | _ => none

def mkOracle (lr : List (Nat × Nat)) (ip : List (Bytes × Bool)) : Oracle :=
  { ip6 := fun s => ((ip.find? (·.1 == s)).map (·.2)).getD false
    lowerRune := fun cp => ((lr.find? (·.1 == cp)).map (·.2)).getD cp }

def oracleOf (lrTok ipTok : String) : Option Oracle :=
  if lrTok.startsWith "lr=" && ipTok.startsWith "ip6=" then
    (parseLr (lrTok.drop 3).toString).bind fun lr => (parseIp6 (ipTok.drop 4).toString).map fun ip => mkOracle lr ip
  else none

/-- the Config the flags `-IsCluster -ClusterConfigPath ./cluster_config.json` leave -/
def clusterStart : Cfg := { Config.defaults with isCluster := true, clusterConfigPath := Config.ofStr "./cluster_config.json" }

def verdict (expected got : String) (positive : Bool) : Option (Except String Bool) :=
  if expected == got then some (.ok positive) else some (.error s!"expected={expected}")

def configLine (fs : List String) : Option (Except String Bool) :=
  match fs with
  | ["CD", "=>", got] => verdict (showCfg Config.defaults) got true
  | ["CN", n, "=>", got] =>
    match n.toInt? with
    | some n => verdict (match Config.newManager n with | some k => toString k | none => "panic") got (n ≥ 1)
    | none => some (.error "bad CN line")
  | ["CF", file, "=>", lrTok, ipTok, got] =>
    match unhex file, oracleOf lrTok ipTok with
    | some file, some o =>
      let r := Config.parse o Config.defaults file
      verdict (showOutcome r) got (r != .ok Config.defaults)
    | _, _ => some (.error "bad CF line")
  | "CJ" :: js :: file :: "=>" :: lrTok :: ipTok :: rest =>
    match unhex js, unhex file, oracleOf lrTok ipTok with
    | some _, some file, some o =>
      let pre := Config.parse o clusterStart file
      match pre, rest with
      | .ok _, [echoTok, uerrTok, got] =>
        if !(echoTok.startsWith "echo=" && uerrTok.startsWith "uerr=") then some (.error "bad CJ line") else
        match parseCfg (echoTok.drop 5).toString, parseBool01 (uerrTok.drop 5).toString with
        | some echo, some uerr =>
          let r := Config.startup o clusterStart file (fun _ => (echo, uerr))
          verdict (showOutcome r) got true
        | _, _ => some (.error "echo of json.Unmarshal not representable in the model")
      | .ok _, _ => some (.error s!"Parse ended before ParseConfigJson, expected={showOutcome pre}")
      -- Parse did not return nil: the worker stops there (a fatal exit cuts the line short)
      | _, [got] => verdict (showOutcome pre) got true
      | _, [_, _, got] => verdict (showOutcome pre) got true
      | _, _ => some (.error "bad CJ line")
    | _, _, _ => some (.error "bad CJ line")
  | "CD" :: _ => some (.error "implementation outcome (CD)")
  | "CF" :: _ => some (.error "implementation outcome (CF): line shape")
  | "CJ" :: _ => some (.error "implementation outcome (CJ): line shape")
  | "CN" :: _ => some (.error "implementation outcome (CN): line shape")
  | _ => none

end Driver.ConfigEng

def Driver.configLine := Driver.ConfigEng.configLine
