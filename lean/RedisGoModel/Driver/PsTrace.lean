import RedisGoModel.Driver.Util
import RedisGoModel.Conc.PubSubTrace
import RedisGoModel.Driver.PsSlow
/-! pubsub lock-trace engine (C19, hook H2b): `PST <goroutine> <event> ...` — the event sequence one goroutine produced must be
    accepted by the model's operation automaton `PSC.TA.ok`; `PSTP` — the same for a recording that may stop inside an operation (a run, not necessarily quiescent);
    `PSTN <name> <event> ...` — a negative control that must be refused. -/
namespace Driver
open PSC

def parseEv : String → Option TA.Ev
| "TL" => some .TL | "TU" => some .TU | "TRL" => some .TRL | "TRU" => some .TRU
| "get" => some .get | "set" => some .set | "del" => some .del
| "CL" => some .CL | "CU" => some .CU | "cr" => some .cr | "cw" => some .cw | "cd" => some .cd
| _ => none

def psTraceLine (fs : List String) : Option (Except String Bool) :=
  match fs with
  | "PST" :: g :: evs =>
    match evs.mapM parseEv with
    | none => some (.error s!"goroutine {g}: unknown event name")
    | some es =>
      if TA.ok es then some (.ok (decide (es.length > 0)))
      else
        match TA.firstBad .idle es 0 with
        | some i => some (.error s!"goroutine {g}: event #{i} ({evs.getD i "?"}) is not a step of the model's operation automaton")
        | none => some (.error s!"goroutine {g}: the trace ends with a lock held")
  | "PSTP" :: g :: evs =>
    -- a goroutine whose recording may have stopped in the middle of an operation: the sequence must be a run, not necessarily quiescent
    match evs.mapM parseEv with
    | none => some (.error s!"goroutine {g}: unknown event name")
    | some es =>
      match TA.firstBad .idle es 0 with
      | some i => some (.error s!"goroutine {g}: event #{i} ({evs.getD i "?"}) is not a step of the model's operation automaton")
      | none => some (.ok (decide (es.length > 0)))
  | "PSTN" :: name :: evs =>
    match evs.mapM parseEv with
    | none => some (.error s!"control {name}: unknown event name")
    | some es => if TA.ok es then some (.error s!"control {name}: a non-conforming trace was accepted") else some (.ok true)
  | _ => psSlowLine fs   -- slow-consumer histories (`PSH` / `PSHN`, Driver/PsSlow.lean)

end Driver
