import RedisGoModel.Driver.Util
import RedisGoModel.Wal.File
/-! wal engine (C16): replays the harness's operation list on the model writer and compares the segment images byte for
    byte; then, for every mutilation case the harness ran on the real code (torn tail sectors, single-byte corruption),
    rebuilds the same mutilated image from the *model's* images and compares the model's verdict (ReadAll in read and
    write mode, Verify, Repair + reopen) with what the real code returned. Snapshot files likewise. -/
namespace Driver
open WalCodec WalFile

def hex16n (n : Nat) : String :=
  String.ofList ((List.range 16).map fun i => hexDigit ((n >>> (60 - 4 * i)) % 16))

def hex8n (n : Nat) : String :=
  String.ofList ((List.range 8).map fun i => hexDigit ((n >>> (28 - 4 * i)) % 16))

def trimZeros (b : Bytes) : Bytes := (b.reverse.dropWhile (· == 0)).reverse

def renderFiles (fs : List ((Nat × Nat) × Bytes)) : String :=
  ",".intercalate (fs.map fun ((s, i), b) => s!"{hex16n s}-{hex16n i}:{b.length}:{hex (trimZeros b)}")

def kv (fs : List String) (k : String) : Option String :=
  (fs.find? (·.startsWith (k ++ "="))).map fun s => (s.drop (k.length + 1)).toString

def unhexN (s : String) : Option (Option Bytes) :=
  if s == "nil" then some none else (unhex s).map some

def splitObs (fs : List String) : List String × List String :=
  (fs.takeWhile (· ≠ "=>"), (fs.dropWhile (· ≠ "=>")).drop 1)

def parseEnts : Nat → List String → Option (List Entry)
| 0, _ => some []
| n + 1, t :: tm :: ix :: d :: rest =>
  match t.toNat?, tm.toNat?, ix.toNat?, unhexN d, parseEnts n rest with
  | some t, some tm, some ix, some d, some es => some (⟨t, tm, ix, d⟩ :: es)
  | _, _, _, _, _ => none
| _, _ => none

def firstDiff (a b : String) : String :=
  let la := a.toList; let lb := b.toList
  let n := ((la.zip lb).takeWhile fun (x, y) => x == y).length
  s!"first difference at char {n} (model len {la.length}, observed len {lb.length})"

def errName : RErr → String
| .ueof => "ueof" | .crc => "crc" | .oor => "oor" | .metaConflict => "metaconflict" | .snapMismatch => "snapmismatch"
| .snapNotFound => "snapnotfound" | .badType => "badtype" | .maxEntry => "maxentry" | .pb => "pb" | .panic => "panic"

def entsDigest (ents : List Entry) : Nat :=
  ents.foldl (fun c e =>
    let c := crcUpdate c (le64 e.index ++ le64 e.term ++ le64 e.type)
    match e.data with
    | none => crcUpdate c (le64 (2 ^ 64 - 1))
    | some d => crcUpdate (crcUpdate c (le64 d.length)) d) 0

def hsText (s : HardState) : String := s!"{s.term}.{s.vote}.{s.commit}"

def optHex : Option Bytes → String
| none => "nil"
| some b => hex b

def raText (r : RAResult) : String :=
  if r.err = some .panic then "panic" else
  let e := match r.err with | none => "ok" | some e => errName e
  s!"{e}/{optHex r.metadata}/{hsText r.state}/{r.ents.length}/{hex8n (entsDigest r.ents)}"

/-- `selectWALFiles`: the last file whose name index is ≤ the snapshot index, and everything after it -/
def selectFiles (files : List ((Nat × Nat) × Bytes)) (snapIndex : Nat) : Option (List Bytes) :=
  let idx := (List.range files.length).reverse.find? fun i =>
    match files[i]? with
    | some ((_, ix), _) => ix ≤ snapIndex
    | none => false
  idx.map fun i => (files.drop i).map (·.2)

def replaceLast (files : List Bytes) (f : Bytes) : List Bytes := files.dropLast ++ [f]

/-- the model's verdict on a directory, in the harness's text format -/
def verdict (files : List ((Nat × Nat) × Bytes)) (start : Nat × Nat) : String :=
  match selectFiles files start.1 with
  | none => "rd=open-nofile vf=nofile/ wr=open-nofile tail=same rp=-"
  | some fs =>
    let rd := readAll false start fs
    let vf := match verify start fs with
      | .ok s => s!"ok/{hsText s}"
      | .error e => s!"{errName e}/"
    let wr := readAll true start fs
    let last := fs.getLast?.getD []
    let eofReached := wr.err = none ∨ wr.err = some .snapNotFound
    let tail :=
      if eofReached then
        let nl := zeroToEnd last wr.lastOff
        if nl = last then "same" else s!"{nl.length}:{hex8n (crcUpdate 0 nl)}"
      else "same"
    let rp :=
      if wr.err = some .ueof then
        let (ok, nl) := repair last
        let wr2 := readAll true start (replaceLast fs nl)
        s!"{if ok then "1" else "0"}:{nl.length}:{raText wr2}"
      else "-"
    s!"rd={raText rd} vf={vf} wr={raText wr} tail={tail} rp={rp}"

/-! ### resuming the model's loops

Every mutilation case of one directory state shares the decoding of everything before the first changed byte. The driver
records the model's own loop state (`Dec`, `RA` / `VSt`) before each iteration on the untouched chain, and evaluates a case by
patching the unread bytes of the last recorded state at or before the change and running the *same* model loop
(`readLoop` / `verifyLoop`) from there. Every 47th case is also evaluated from scratch (`verdict`) and must agree. -/

structure Ckpt where
  fi  : Nat
  off : Nat
  d   : Dec
  ra  : RA

structure VCkpt where
  fi  : Nat
  off : Nat
  d   : Dec
  v   : VSt

structure Trace where
  skip  : Nat                 -- files of the directory before the selected chain
  files : List Bytes          -- the selected chain
  fuel  : Nat
  rd    : Array Ckpt
  vf    : Array VCkpt

def fileIdxOf (n : Nat) (d : Dec) : Nat := n - 1 - d.rest.length

def readTrace (start : Nat × Nat) (n : Nat) : Nat → Dec → RA → Array Ckpt → Array Ckpt
| 0, _, _, acc => acc
| fuel + 1, d, ra, acc =>
  let acc := acc.push ⟨fileIdxOf n d, d.off, d, ra⟩
  match readStep start d ra with
  | .stop _ _ _ => acc
  | .cont d' ra' => readTrace start n fuel d' ra' acc

def verifyTrace (start : Nat × Nat) (n : Nat) : Nat → Dec → VSt → Array VCkpt → Array VCkpt
| 0, _, _, acc => acc
| fuel + 1, d, v, acc =>
  let acc := acc.push ⟨fileIdxOf n d, d.off, d, v⟩
  match verifyStep start d v with
  | .stop _ _ => acc
  | .cont d' v' => verifyTrace start n fuel d' v' acc

def mkTrace (files : List ((Nat × Nat) × Bytes)) (start : Nat × Nat) : Option Trace :=
  match selectFiles files start.1 with
  | none => none
  | some fs =>
    let fuel := readFuel fs
    some { skip := files.length - fs.length, files := fs, fuel := fuel,
           rd := readTrace start fs.length fuel (Dec.open fs) {} #[],
           vf := verifyTrace start fs.length fuel (Dec.open fs) {} #[] }

def setNth : Bytes → Nat → UInt8 → Bytes
| [], _, _ => []
| _ :: r, 0, b => b :: r
| a :: r, n + 1, b => a :: setNth r n b

def modifyNth (l : List Bytes) (k : Nat) (f : Bytes → Bytes) : List Bytes :=
  match l, k with
  | [], _ => []
  | a :: r, 0 => f a :: r
  | a :: r, k + 1 => a :: modifyNth r k f

/-- a change of the chain: from byte `o` of file `fi` on, that file reads `suffix` (the bytes from `o` to its end) -/
structure Patch where
  fi     : Nat
  o      : Nat
  file   : Bytes      -- the whole changed file

def patchDec (d : Dec) (dfi doff : Nat) (p : Patch) : Dec :=
  if p.fi = dfi then { d with cur := p.file.drop doff }
  else { d with rest := modifyNth d.rest (p.fi - dfi - 1) (fun _ => p.file) }

/-- position of the last checkpoint at or before (fi, o) -/
def lastBefore (pos : Array (Nat × Nat)) (fi o : Nat) : Nat :=
  let n := (pos.toList.takeWhile fun (f, off) => f < fi ∨ (f = fi ∧ off ≤ o)).length
  n - 1

def verdictFrom (t : Trace) (start : Nat × Nat) (p : Option Patch) : String :=
  let nf := t.files.length
  let (rdRes, vfRes) :=
    match p with
    | none =>
      (readLoop start t.fuel (Dec.open t.files) {}, verifyFrom start t.fuel (Dec.open t.files) {})
    | some p =>
      let i := lastBefore (t.rd.map fun (c : Ckpt) => (c.fi, c.off)) p.fi p.o
      let j := lastBefore (t.vf.map fun (c : VCkpt) => (c.fi, c.off)) p.fi p.o
      let r := match t.rd[i]? with
        | some c => readLoop start t.fuel (patchDec c.d c.fi c.off p) c.ra
        | none => readLoop start t.fuel (Dec.open (modifyNth t.files p.fi fun _ => p.file)) {}
      let v := match t.vf[j]? with
        | some c => verifyFrom start t.fuel (patchDec c.d c.fi c.off p) c.v
        | none => verifyFrom start t.fuel (Dec.open (modifyNth t.files p.fi fun _ => p.file)) {}
      (r, v)
  let rd : RAResult := readAllFin false rdRes
  let wr : RAResult := readAllFin true rdRes
  let vf := match vfRes with
    | .ok s => s!"ok/{hsText s}"
    | .error e => s!"{errName e}/"
  let fs := match p with
    | none => t.files
    | some p => modifyNth t.files p.fi fun _ => p.file
  let last := fs.getLast?.getD []
  let _ := nf
  let eofReached := wr.err = none ∨ wr.err = some .snapNotFound
  let tail :=
    if eofReached then
      let nl := zeroToEnd last wr.lastOff
      if nl = last then "same" else s!"{nl.length}:{hex8n (crcUpdate 0 nl)}"
    else "same"
  let rp :=
    if wr.err = some .ueof then
      let (ok, nl) := repair last
      let wr2 := readAll true start (replaceLast fs nl)
      s!"{if ok then "1" else "0"}:{nl.length}:{raText wr2}"
    else "-"
  s!"rd={raText rd} vf={vf} wr={raText wr} tail={tail} rp={rp}"

structure WalSt where
  w       : Option Writer := none
  states  : Array (List ((Nat × Nat) × ByteArray)) := #[]
  snaps   : Array (String × ByteArray × ByteArray) := #[]      -- snapshot files: name, file, payload
  cache   : Option (Nat × (Nat × Nat) × Option Trace) := none  -- (state index, start snapshot) ↦ trace of the untouched chain
  ncase   : Nat := 0

def toBA (b : Bytes) : ByteArray := ByteArray.mk b.toArray

def modelFiles (w : Writer) : List ((Nat × Nat) × ByteArray) := w.files.map fun (n, b) => (n, toBA b)

def checkFiles (st : WalSt) (w : Writer) (obs : List String) (expectSynced : Option Bool) : WalSt × Except String Bool :=
  let st := { st with w := some w, states := st.states.push (modelFiles w) }
  let e := renderFiles w.files
  match kv obs "files" with
  | none => (st, .error "no files= in observation")
  | some o =>
    if e ≠ o then (st, .error s!"image differs: {firstDiff e o}")
    else match expectSynced, kv obs "synced" with
      -- the observation is the fdatasync the harness SAW (the wal package's own fsync histogram); syncing more often than the model's
      -- MustSync rule demands is harmless, a missing sync is what the property is about
      | some b, some s => if b && s = "0" then (st, .error s!"sync point: the model (raft.MustSync / cut) demands an fdatasync before this call returns, none was observed") else (st, .ok true)
      | _, _ => (st, .ok true)

def snapRes (files : List Bytes) (wanted : Option (List (Nat × Nat))) : String :=
  match loadMatching wanted files 0 with
  | none =>
    let broken := (files.filter fun f => match snapRead f with | .ok _ => false | .error _ => true).length
    s!"nosnap/broken={broken}"
  | some (i, p) =>
    let broken := ((files.take i).filter fun f => match snapRead f with | .ok _ => false | .error _ => true).length
    match snapMeta p with
    | .ok (t, ix) => s!"ok:{t}:{ix}:{hex8n (crcUpdate 0 p)}/broken={broken}"
    | .error _ => s!"ok:?:?:{hex8n (crcUpdate 0 p)}/broken={broken}"

def getTrace (st : WalSt) (j : Nat) (fj : List ((Nat × Nat) × ByteArray)) (start : Nat × Nat) : WalSt × Option Trace :=
  match st.cache with
  | some (j', start', t) => if j' = j ∧ start' = start then (st, t) else
      let t := mkTrace (fj.map fun (n, b) => (n, b.toList)) start
      ({ st with cache := some (j, start, t) }, t)
  | none =>
    let t := mkTrace (fj.map fun (n, b) => (n, b.toList)) start
    ({ st with cache := some (j, start, t) }, t)

def walLine (st : WalSt) (fs : List String) : WalSt × Option (Except String Bool) :=
  let (inp, obs) := splitObs fs
  match inp with
  | ["WC", seg, md] =>
    match seg.toNat?, unhexN md with
    | some seg, some md =>
      let (st', r) := checkFiles { st with states := #[], cache := none } (Writer.create seg md) obs (some true)
      (st', some r)
    | _, _ => (st, some (.error "bad WC"))
  | "WS" :: t :: v :: c :: n :: rest =>
    match st.w, t.toNat?, v.toNat?, c.toNat?, n.toNat? with
    | some w, some t, some v, some c, some n =>
      match parseEnts n rest with
      | some ents =>
        let (w', synced) := w.save ⟨t, v, c⟩ ents
        let (st', r) := checkFiles st w' obs (some synced)
        (st', some r)
      | none => (st, some (.error "bad WS entries"))
    | _, _, _, _, _ => (st, some (.error "bad WS"))
  | ["WN", ix, tm, _] =>
    match st.w, ix.toNat?, tm.toNat?, (kv obs "conf").bind unhexN with
    | some w, some ix, some tm, some conf =>
      if obs.contains "refused" then
        let w' := w.saveSnapshot ⟨ix, tm, conf⟩
        (st, some (if w'.files = w.files then .ok false else .error "model accepted a snapshot the code refused"))
      else
        let (st', r) := checkFiles st (w.saveSnapshot ⟨ix, tm, conf⟩) obs (some true)
        (st', some r)
    | _, _, _, _ => (st, some (.error "bad WN"))
  | ["WX"] =>
    match st.w with
    | some w => let (st', r) := checkFiles st w.flush obs (some true); (st', some r)
    | none => (st, some (.error "WX without a WAL"))
  | ["WT", i, j, si, stm, secs] =>
    match i.toNat?, j.toNat?, si.toNat?, stm.toNat? with
    | some i, some j, some si, some stm =>
      match st.states[i]?, st.states[j]? with
      | some fi, some fj =>
        let secs := if secs == "-" then [] else (secs.splitOn ",").filterMap (·.toNat?)
        match fi.getLast?, fj.getLast? with
        | some (_, old), some (nm, new) =>
          let mutd := secs.foldl (fun (m : ByteArray) s =>
            (List.range 512).foldl (fun (m : ByteArray) k =>
              let o := s * 512 + k
              if o < m.size then m.set! o (if o < old.size then old.get! o else 0) else m) m) new
          let (st, tr) := getTrace st j fj (si, stm)
          let full : Unit → String := fun _ => verdict ((fj.dropLast.map fun (n, b) => (n, b.toList)) ++ [(nm, mutd.toList)]) (si, stm)
          let e := match tr with
            | none => full ()
            | some t =>
              let lo := (secs.foldl min (new.size / 512 + 1)) * 512
              let p : Option Patch := if secs.isEmpty || fj.length ≤ t.skip then none else some ⟨fj.length - 1 - t.skip, lo, mutd.toList⟩
              verdictFrom t (si, stm) p
          let o := " ".intercalate (obs.filter fun s => !s.startsWith "oracle=")
          let st := { st with ncase := st.ncase + 1 }
          if st.ncase % 47 == 0 && full () ≠ e then (st, some (.error s!"driver: resumed evaluation {e} differs from full evaluation {full ()}"))
          else (st, some (if e = o then .ok (decide ((e.splitOn "ueof").length > 1)) else .error s!"expected={e} got={o}"))
        | _, _ => (st, some (.error "WT: empty state"))
      | _, _ => (st, some (.error "WT: no such state"))
    | _, _, _, _ => (st, some (.error "bad WT"))
  | ["WK", j] =>
    match j.toNat?.bind fun j => st.states[j]? with
    | some fj =>
      let e := verdict (fj.dropLast.map fun (n, b) => (n, b.toList)) (0, 0)
      let o := " ".intercalate (obs.filter fun s => !s.startsWith "oracle=")
      (st, some (if e = o then .ok true else .error s!"expected={e} got={o}"))
    | none => (st, some (.error "WK: no such state"))
  | ["WB", j, fi, off, nb, si, stm, _, _] =>
    match j.toNat?, fi.toNat?, off.toNat?, nb.toNat?, si.toNat?, stm.toNat? with
    | some j, some fi, some off, some nb, some si, some stm =>
      match st.states[j]? with
      | some fj =>
        let (st, tr) := getTrace st j fj (si, stm)
        let full : Unit → String := fun _ =>
          verdict ((List.range fj.length).filterMap fun k =>
            match fj[k]? with
            | some (n, b) => some (n, (if k = fi ∧ off < b.size then b.set! off (UInt8.ofNat nb) else b).toList)
            | none => none) (si, stm)
        let e := match tr with
          | none => full ()
          | some t =>
            let p : Option Patch :=
              if fi < t.skip then none else
              match t.files[fi - t.skip]? with
              | some base => some ⟨fi - t.skip, off, setNth base off (UInt8.ofNat nb)⟩
              | none => none
            verdictFrom t (si, stm) p
        let o := " ".intercalate (obs.filter fun s => !s.startsWith "oracle=")
        let st := { st with ncase := st.ncase + 1 }
        if st.ncase % 47 == 0 && full () ≠ e then (st, some (.error s!"driver: resumed evaluation {e} differs from full evaluation {full ()}"))
        else (st, some (if e = o then .ok (!(e.startsWith "rd=ok")) else .error s!"expected={e} got={o}"))
      | none => (st, some (.error "WB: no such state"))
    | _, _, _, _, _, _ => (st, some (.error "bad WB"))
  | ["SN"] => ({ st with snaps := #[] }, some (.ok false))
  | ["SF", tm, ix, _, _] =>
    match tm.toNat?, ix.toNat?, (kv obs "payload").bind unhex, (kv obs "file").bind unhex, kv obs "name" with
    | some tm, some ix, some p, some f, some name =>
      let e := snapFile p
      let st' := { st with snaps := st.snaps.push (name, toBA e, toBA p) }
      if e ≠ f then (st', some (.error s!"snapshot file differs: {firstDiff (hex e) (hex f)}"))
      else
        let mOk := match snapMeta p with | .ok ti => ti == (tm, ix) | .error _ => false
        let rOk := match snapRead e with | .ok (q, ti) => q == p && ti == (tm, ix) | .error _ => false
        if !mOk then (st', some (.error "snapshot metadata parse differs"))
        else if !rOk then (st', some (.error "model cannot read back its own snapshot file"))
        else (st', some (.ok true))
    | _, _, _, _, _ => (st, some (.error "bad SF"))
  | ["SB", off, nb, want] =>
    match off.toNat?, nb.toNat? with
    | some off, some nb =>
      -- newest first by name
      let sorted := st.snaps.toList.mergeSort fun a b => a.1 ≥ b.1
      match sorted with
      | [] => (st, some (.error "SB without files"))
      | (_, nf, _) :: older =>
        let files := (if off < nf.size then nf.set! off (UInt8.ofNat nb) else nf).toList :: older.map (·.2.1.toList)
        let metas := sorted.map fun (_, _, p) => match snapMeta p.toList with | .ok ti => ti | .error _ => (0, 0)
        let wanted : Option (List (Nat × Nat)) :=
          if want == "all" then none
          else if want == "every" then some metas
          else if want == "older" then some (metas.drop 1)
          else some (metas.getLast?.toList)
        let e := snapRes files wanted
        let o := " ".intercalate (obs.filter fun s => !s.startsWith "oracle=")
        (st, some (if e = o then .ok (e.startsWith "ok") else .error s!"expected={e} got={o}"))
    | _, _ => (st, some (.error "bad SB"))
  | _ => (st, none)

end Driver
