import RedisGoModel.Driver.Util
import RedisGoModel.Cluster.Codec
/-! codec engine (C14): recomputes what the real cluster path wrote to the log and read back from it.
    `CW <arg>… => FILTERED | <wire hex> <decoded Args>`   (server.VerifClusterRoundTrip, proposal id "verif")
    `CP <data> <id> <arg>… => <wire hex> <decoded Args> <decoded Data> <decoded ID>`   (RaftProposal{…}.ToBytes + json.Unmarshal)
    The model side is `Codec.encodeProposalN` / `Codec.encodeStruct` (whole object, byte for byte), `Codec.clusterAccepts`,
    `Codec.decodeProposalArgs` and `Codec.decodeProposalStrings`; `Props/C14.lean` proves the round trip about exactly these. -/
namespace Driver

/-- "~" nil element, "-" empty, otherwise hex -/
def codecArg (t : String) : Option (Option Bytes) :=
  if t == "~" then some none else (unhex t).map some

def codecArgs (toks : List String) : Option (List (Option Bytes)) :=
  if toks == ["[]"] then some [] else toks.mapM codecArg

def showArgsN (a : List (Option Bytes)) : String :=
  ",".intercalate (a.map fun | none => "~" | some b => hex b)

/-- what Go shows for the decoded vector: a `null` element decodes to nil, `""` to the empty non-nil slice -/
def showDecoded (sent : List (Option Bytes)) (dec : Option (List Bytes)) : String :=
  match dec with
  | none => "NOARGS"
  | some [] => "EMPTY"
  | some d =>
    -- nil-ness is carried by the wire form (`null`), the bytes by the model decoder
    if d.length == sent.length then
      ",".intercalate ((d.zip sent).map fun (b, s) => if s.isNone && b.isEmpty then "~" else hex b)
    else ",".intercalate (d.map hex)

def verifId : Bytes := "verif".toUTF8.toList

def codecLine (fs : List String) : Option (Except String Bool) :=
  match fs with
  | "CW" :: rest =>
    let (toks, obs) := rest.span (· != "=>")
    match codecArgs toks, obs with
    | some argvN, ["=>", "FILTERED"] =>
      if Codec.clusterAccepts (argvN.map (·.getD [])) then some (.error "filter refused a command the model accepts") else some (.ok false)
    | some argvN, ["=>", wire, dec] =>
      let argv := argvN.map (·.getD [])
      if !Codec.clusterAccepts argv then some (.error "filter accepted a command the model refuses") else
      let w := Codec.encodeProposalN argvN verifId
      if hex w != wire then some (.error s!"wire bytes expected={hex w}") else
      let d := Codec.decodeProposalArgs w
      let e := showDecoded argvN d
      if e != dec then some (.error s!"decoded Args expected={e}") else
      if d != some argv then some (.error "model decoder does not return the submitted vector") else
      if dec != showArgsN argvN then some (.error s!"the log altered the command: submitted={showArgsN argvN}") else
      some (.ok true)
    | some _, ["=>", o] => some (.error s!"implementation outcome {o}")
    | _, _ => some (.error "bad CW line")
  | "CP" :: data :: id :: rest =>
    let (toks, obs) := rest.span (· != "=>")
    match unhex data, unhex id, codecArgs toks, obs with
    | some data, some id, some argsN, ["=>", wire, dec, ddata, did] =>
      let w := Codec.encodeStruct data argsN id
      if hex w != wire then some (.error s!"wire bytes expected={hex w}") else
      let d := Codec.decodeProposalArgs w
      let e := showDecoded argsN d
      if e != dec then some (.error s!"decoded Args expected={e}") else
      match Codec.decodeProposalStrings w with
      | some (d', i') =>
        if hex d' != ddata then some (.error s!"decoded Data expected={hex d'}")
        else if hex i' != did then some (.error s!"decoded ID expected={hex i'}")
        else some (.ok (!argsN.isEmpty))
      | none => some (.error "model cannot decode the strings of its own encoding")
    | some _, some _, some _, ["=>", o] => some (.error s!"implementation outcome {o}")
    | _, _, _, _ => some (.error "bad CP line")
  | _ => none

end Driver
