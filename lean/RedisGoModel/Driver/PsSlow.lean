import RedisGoModel.Driver.Util
import RedisGoModel.Conc.PubSubSlow
/-! pubsub slow-consumer history engine (C19): `PSH <name> <event> ...` — the history the `pubsub-stall` scenario observed on the real code
    (who read its SUBSCRIBE confirmation, who stopped / resumed reading when, PUBLISH written / answered with which count, what each subscriber
    holds at the end) must be a history of the model `PSS` (`Conc/PubSubSlow.lean`): `PSS.Hist.judge` RUNS the model's `next0` / `env` on it.
    `PSHN <name> <event> ...` — a negative control that must be refused.
    Events: `sub:<c>` `stall:<c>` `resume:<c>` `close:<c>` `ps:<msg>` `pe:<msg>:<count>` `holds:<c>:<msg>,<msg>,...` (`holds:<c>:` = nothing). -/
namespace Driver
open PSS PSS.Hist

def payloadOf (s : String) : PubSub.Payload := s.toUTF8.toList

def parseHEv (tok : String) : Option HEv :=
  match tok.splitOn ":" with
  | ["sub", c] => c.toNat?.map .sub
  | ["stall", c] => c.toNat?.map .stall
  | ["resume", c] => c.toNat?.map .resume
  | ["close", c] => c.toNat?.map .close
  | ["ps", m] => some (.pubStart (payloadOf m))
  | ["pe", m, r] => r.toNat?.map (.pubEnd (payloadOf m))
  | ["holds", c, ms] => c.toNat?.map (fun c => .holds c (if ms.isEmpty then [] else (ms.splitOn ",").map payloadOf))
  | _ => none

def psSlowLine (fs : List String) : Option (Except String Bool) :=
  match fs with
  | "PSH" :: name :: evs =>
    match evs.mapM parseHEv with
    | none => some (.error s!"history {name}: unknown event")
    | some es =>
      match judge es with
      | .ok _ => some (.ok (decide (es.length > 0)))
      | .error m => some (.error s!"history {name}: not a history of the model PSS: {m}")
  | "PSHN" :: name :: evs =>
    match evs.mapM parseHEv with
    | none => some (.error s!"control {name}: unknown event")
    | some es =>
      match judge es with
      | .ok _ => some (.error s!"control {name}: a history the model cannot produce was accepted")
      | .error _ => some (.ok true)
  | _ => none

end Driver
