import RedisGoModel.Driver.Util
import RedisGoModel.Glob.GlobEq
/-! glob engine: `G <pat> <sub> <obs>` and `GE <pat> <alphabet> <maxlen> <obs-string>`. -/
namespace Driver

/-- all strings over `alpha` of length exactly n, in lexicographic order of alphabet positions -/
def stringsOfLen (alpha : Bytes) : Nat → List Bytes
| 0 => [[]]
| n + 1 => alpha.flatMap fun a => (stringsOfLen alpha n).map (a :: ·)

def stringsUpTo (alpha : Bytes) (n : Nat) : List Bytes :=
  (List.range (n + 1)).flatMap (stringsOfLen alpha)

def globLine (fs : List String) : Option (Except String Bool) :=
  match fs with
  | ["G", p, s, obs] =>
    match unhex p, unhex s with
    | some p, some s =>
      let e := if GlobEq.m p s then "1" else "0"
      some (if e == obs then .ok (GlobEq.m p s) else .error s!"expected={e} got={obs}")
    | _, _ => some (.error "bad-hex")
  | ["GE", p, a, n, obs] =>
    match unhex p, unhex a, n.toNat? with
    | some p, some a, some n =>
      let subs := stringsUpTo a n
      let e := String.ofList (subs.map fun s => if GlobEq.m p s then '1' else '0')
      if e == obs then some (.ok (e.toList.contains '1'))
      else
        -- locate the first differing subject
        let z := (subs.zip (e.toList.zip obs.toList)).find? fun (_, (x, y)) => x != y
        match z with
        | some (s, (x, y)) => some (.error s!"subject={hex s} expected={x} got={y}")
        | none => some (.error s!"length expected={e.length} got={obs.length}")
    | _, _, _ => some (.error "bad-fields")
  | _ => none

end Driver
