import RedisGoModel.Driver.Rendezvous
import RedisGoModel.Driver.Exec
import RedisGoModel.Cluster.Multi
/-! multi engine (C07, cross-node composition): replays what the harness observed around M REAL `Manager` instances — each with its own
    keyspace, callback map, `HandleCluster` connections and `handleClusterCommits` loop — sharing ONE log the harness owns
    (harness/multi.go), on the model `Multi.next` of `Cluster/Multi.lean` (the transition function the theorems of
    `Props/C07MultiBase.lean` / `Props/C07Multi.lean` are about), with the executable keyspace model `Exec.exec` (`rzStep`) as the state
    machine of every node.

    `MZ new <M>` · `MZ w <node> <conn> <cmd>…` (a client writes a pipeline: `Multi` `submit` events as the proposals reach raft) ·
    `MZ a <node>.<conn>…` (raft appends these outstanding proposals to the shared log, in this order) · `MZ d <node> <k> [| <k>…]`
    (the node is handed its next entries: `Multi` `apply` events at that node) · `MZ k <node>` (keyspace dump) · `MZ end`, each
    followed by `=>` and the events the harness saw: `p:<node>.<conn>:<id>`, `r:<node>.<conn> <hex>` (`Multi` `receive`, or the direct
    answer to a refused command), `dump:<node>:<applied> <dump>`, `reg:<node>:<n>`, `x:<…>`.

    Checked:
    * a proposal comes only from an idle connection and carries its next command; the proposal ids — the ones the real code generated —
      are pairwise distinct CLUSTER-WIDE (the guard `Multi.RaftFacts` of `submit`; the two other conjuncts hold by construction, every
      node being fed from the one log, and are asserted: applied log of a node = prefix of the shared log, id not applied twice);
    * a reply arrives only when the model's `receive` is enabled at THAT node, and it is byte for byte (errors by class) the reply of
      running the connection's OWN command at the position of its OWN entry in the shared log — the right-hand side of
      `C07Multi.own_reply_cluster`, computed from the log, not from the rendezvous tables; the value the model's rendezvous delivered
      must be the same (an instance of the theorem; with unique ids it cannot differ);
    * at the end of a line: no lost wake-up, no command neither proposed nor answered; at `end` every callback map holds exactly the ids
      of the node's waiting connections;
    * `MZ k`: the node's full keyspace dump = the model's state machine state of that node (`Driver.compareDump`, as in the exec engine),
      and the node has applied what the model has applied: nodes with the same applied prefix hold the same keyspace. -/
namespace Driver
open Exec Resp

abbrev MzModel := Multi.State Nat String Nat Db (List Resp.Bytes) Reply

structure MzEntry where
  id : String
  cmd : List Resp.Bytes
  owner : Nat × Nat
  k : Nat               -- it is the owner's k-th submission

structure MzSt where
  m : MzModel := Multi.init []
  nodes : Nat := 0
  conns : List (Nat × Nat) := []
  fifo : List ((Nat × Nat) × List Resp.Bytes) := []    -- written and neither proposed nor answered, oldest first
  slog : List MzEntry := []                             -- the shared log
  ids : List (String × (Nat × Nat)) := []
  collision : Option String := none                     -- first violation of cluster-wide UniqueIds seen
  dead : Bool := true

def mzConn (s : String) : Option (Nat × Nat) :=
  match s.splitOn "." with
  | [n, c] => match n.toNat?, c.toNat? with
    | some n, some c => some (n, c)
    | _, _ => none
  | _ => none

def mzShow (p : Nat × Nat) : String := s!"{p.1}.{p.2}"

def mzHead (st : MzSt) (p : Nat × Nat) : Option (List Resp.Bytes) := (st.fifo.find? (·.1 == p)).map (·.2)
def mzPop (st : MzSt) (p : Nat × Nat) : MzSt :=
  match st.fifo.findIdx? (·.1 == p) with
  | some i => { st with fifo := st.fifo.eraseIdx i }
  | none => st

def mzLog (st : MzSt) : List (Rendezvous.Entry String (List Resp.Bytes)) := st.slog.map fun e => ⟨e.id, e.cmd⟩

/-- position of the entry of connection `p`'s `k`-th submission in the shared log -/
def mzOwnPos (st : MzSt) (p : Nat × Nat) (k : Nat) : Option Nat := st.slog.findIdx? fun e => e.owner == p && e.k == k

/-- a proposal reached the raft of node `p.1` -/
def mzPropose (st : MzSt) (p : Nat × Nat) (id : String) : Except String MzSt :=
  let (n, c) := p
  if ((st.m.node n).waiting c).isSome then .error s!"connection {mzShow p} proposed {id} while it still waits for an earlier proposal" else
  match mzHead st p with
  | none => .error s!"connection {mzShow p} proposed {id} but has written no further command"
  | some cmd =>
    if !Codec.clusterAccepts cmd then .error s!"connection {mzShow p}: a command the cluster filter refuses was proposed" else
    let coll := match st.collision, st.ids.find? (·.1 == id) with
      | none, some (_, q) => some s!"proposal id {id} of connection {mzShow p} was already used by connection {mzShow q} (UniqueIds, cluster-wide)"
      | c, _ => c
    let st := mzPop st p
    .ok { st with m := Multi.next rzStep st.m (.submit n c cmd id), ids := (id, p) :: st.ids, collision := coll }

/-- the client of connection `p` received one RESP value -/
def mzReceive (st : MzSt) (p : Nat × Nat) (obs : String) : Except String (MzSt × Bool) :=
  let (n, c) := p
  match unhex obs with
  | none => .error "bad r event"
  | some ob =>
    match (st.m.node n).waiting c with
    | some id =>
      let k := ((st.m.node n).subs c).length - 1
      let cmd := match ((st.m.node n).subs c).getLast? with | some (_, cmd) => cmd | none => []
      let applied := (st.m.node n).log.length
      -- whose entry did node n apply under this id (what the rendezvous on the id delivers)
      let culprit := match (st.slog.take applied).find? (·.id == id) with
        | some e => if e.owner == p then "" else
            s!"; node {n} has applied the entry of connection {mzShow e.owner} ({hex (e.cmd.headD [])} …) which carries the same id {id}: this is the reply of ANOTHER node's command"
        | none => ""
      let note := match st.collision with | some c => s!" [{c}]" | none => ""
      match mzOwnPos st p k with
      | none => .error s!"connection {mzShow p} received {obs} although its proposal {id} is not in the log yet{culprit}{note}"
      | some j =>
        if applied ≤ j then
          .error s!"connection {mzShow p} received {obs} although node {n} has applied {applied} entries and the entry of its proposal {id} is at position {j} (reply without commit, or another command's reply){culprit}{note}"
        else
        let spec := Rendezvous.replyAt rzStep [] (mzLog st) j cmd
        let name := lower (cmd.headD [])
        if !rzReplyOk name spec ob then
          .error s!"connection {mzShow p} proposal {id} (log position {j}): own reply expected={hex (Resp.encode spec)} got={obs}{culprit}{note}"
        else
        match (st.m.node n).mailbox c with
        | none => .error s!"model: connection {mzShow p}: entry applied but the rendezvous delivered nothing{note}"
        | some r =>
          if Resp.encode r != Resp.encode spec then
            .error s!"model: the rendezvous delivered {hex (Resp.encode r)} to {mzShow p}, its own command at its own position gives {hex (Resp.encode spec)} (own_reply_cluster){note}"
          else .ok ({ st with m := Multi.next rzStep st.m (.receive n c) }, true)
    | none =>
      match mzHead st p with
      | some cmd =>
        if Codec.clusterAccepts cmd then .error s!"connection {mzShow p} received {obs} for a command that was not proposed yet"
        else if ob == refusedReply then .ok (mzPop st p, false)
        else .error s!"connection {mzShow p}: refused command answered {obs}"
      | none => .error s!"connection {mzShow p} received {obs} without having a command outstanding (a reply too many)"

def mzEvents (st : MzSt) : List String → Bool → Except String (MzSt × Bool)
  | [], pos => .ok (st, pos)
  | ev :: rest, pos =>
    match ev.splitOn ":" with
    | ["p", p, id] =>
      match mzConn p with
      | none => .error "bad p event"
      | some p =>
        match mzPropose st p id with
        | .ok st' => mzEvents st' rest pos
        | .error e => .error e
    | ["r", p] =>
      match mzConn p, rest with
      | some p, obs :: rest' =>
        match mzReceive st p obs with
        | .ok (st', b) => mzEvents st' rest' (pos || b)
        | .error e => .error e
      | _, _ => .error "bad r event"
    | ["dump", n, a] =>
      match n.toNat?, a.toNat?, rest with
      | some n, some a, d :: rest' =>
        let ma := (st.m.node n).log.length
        if a != ma then .error s!"node {n} has been handed {a} entries, the model has applied {ma}" else
        match compareDump (st.m.node n).sm "*" d 0 with
        | some b => .error s!"node {n} after {a} applied entries: keyspace differs from the model's replica: {b}"
        | none => mzEvents st rest' (pos || a > 0)
      | _, _, _ => .error "bad dump event"
    | ["reg", n, k] =>
      match n.toNat? with
      | some n =>
        let w := (st.conns.filter fun p => p.1 == n && ((st.m.node n).waiting p.2).isSome).length
        if k.toNat? == some w then mzEvents st rest pos else .error s!"callback map of node {n} holds {k} ids, {w} of its connections wait"
      | none => .error "bad reg event"
    | _ => .error s!"harness: {ev}"
termination_by l => l.length
decreasing_by all_goals (simp_all; try omega)

/-- end of a line: nothing the model has made available is missing -/
def mzQuiet (st : MzSt) : Except String Unit :=
  match st.conns.find? fun p => ((st.m.node p.1).waiting p.2).isSome && ((st.m.node p.1).mailbox p.2).isSome with
  | some p => .error s!"connection {mzShow p}: the entry of its proposal was applied at its node but no reply arrived (lost wake-up)"
  | none =>
    match st.conns.find? fun p => ((st.m.node p.1).waiting p.2).isNone && (mzHead st p).isSome with
    | some p => .error s!"connection {mzShow p}: a written command was neither proposed nor answered"
    | none => .ok ()

/-- raft appends the outstanding proposal of connection `it` to the shared log -/
def mzAppend (st : MzSt) (it : String) : Except String MzSt :=
  match mzConn it with
  | none => .error "bad append item"
  | some p =>
    let (n, c) := p
    match (st.m.node n).waiting c, ((st.m.node n).subs c).getLast? with
    | some id, some (id', cmd) =>
      if id != id' then .error "model: waiting id is not the last submission" else
      let k := ((st.m.node n).subs c).length - 1
      if (mzOwnPos st p k).isSome then .error s!"generator: the proposal of connection {it} is in the log already" else
      .ok { st with slog := st.slog ++ [{ id := id, cmd := cmd, owner := p, k := k }] }
    | _, _ => .error s!"generator: append for connection {it}, which has no outstanding proposal"

/-- node `n` applies its next `k` entries of the shared log -/
def mzDeliver (st : MzSt) (n : Nat) : Nat → Except String MzSt
  | 0 => .ok st
  | k + 1 =>
    let a := (st.m.node n).log.length
    match st.slog[a]? with
    | none => .error s!"generator: delivery to node {n} beyond the end of the log"
    | some e =>
      -- RaftFacts (b): the id is not applied twice at a node; with cluster-wide unique ids it cannot be
      let coll := match st.collision with
        | none => if (st.m.node n).log.any (·.id == e.id) then some s!"node {n} applies a second entry with id {e.id} (UniqueIds, cluster-wide)" else none
        | c => c
      let st := { st with m := Multi.next rzStep st.m (.apply n ⟨e.id, e.cmd⟩), collision := coll }
      -- RaftFacts (a), by construction: what the node has applied is a prefix of the one log
      if (st.m.node n).log.map (·.id) != (st.slog.take (a + 1)).map (·.id) then .error s!"model: node {n}'s applied log is not a prefix of the shared log"
      else mzDeliver st n k

/-- a disagreement seen after cluster-wide UniqueIds failed says so -/
def mzNote (st : MzSt) (e : String) : String :=
  match st.collision with
  | some c => if (e.splitOn c).length > 1 then e else s!"{e} [{c}]"
  | none => e

def mzFinish (st : MzSt) (r : Except String (MzSt × Bool)) (last : Bool := false) : MzSt × Option (Except String Bool) :=
  match r with
  | .error e => ({ st with dead := true }, some (.error (mzNote st e)))
  | .ok (st', pos) =>
    match mzQuiet st' with
    | .error e => ({ st' with dead := true }, some (.error (mzNote st' e)))
    | .ok () =>
      match last, st'.collision with
      | true, some c => ({ st' with dead := true }, some (.error s!"{c} — no wrong delivery was observed in this scenario, but the hypothesis of own_reply_cluster does not hold of the run"))
      | _, _ => (st', some (.ok pos))

def multiLine (st : MzSt) (fs : List String) : MzSt × Option (Except String Bool) :=
  match fs with
  | "MZ" :: "new" :: m :: "=>" :: evs =>
    match m.toNat? with
    | some m =>
      if evs.isEmpty then ({ nodes := m, dead := false }, some (.ok false)) else ({ nodes := m, dead := false }, some (.error s!"events at start: {evs}"))
    | none => (st, some (.error "bad MZ new line"))
  | "MZ" :: rest =>
    if st.dead then (st, some (.ok false)) else     -- after a disagreement the rest of the scenario is not judged
    let (inp, evs) := rest.span (· != "=>")
    let evs := evs.drop 1
    match inp with
    | "w" :: n :: c :: cmds =>
      match n.toNat?, c.toNat?, cmds.mapM rzParseCmd with
      | some n, some c, some cmds =>
        if n == 0 || n > st.nodes then (st, some (.error "bad node")) else
        let p := (n, c)
        let st := { st with conns := if st.conns.contains p then st.conns else st.conns ++ [p], fifo := st.fifo ++ cmds.map fun x => (p, x) }
        mzFinish st (mzEvents st evs false)
      | _, _, _ => (st, some (.error "bad w line"))
    | "a" :: items =>
      match items.foldlM mzAppend st with
      | .error e => ({ st with dead := true }, some (.error e))
      | .ok st => mzFinish st (mzEvents st evs false)
    | "d" :: n :: ks =>
      match n.toNat?, (ks.filter (· != "|")).mapM (·.toNat?) with
      | some n, some ks =>
        match mzDeliver st n (ks.foldl (· + ·) 0) with
        | .error e => ({ st with dead := true }, some (.error e))
        | .ok st => mzFinish st (mzEvents st evs false)
      | _, _ => (st, some (.error "bad d line"))
    | ["k", _] => mzFinish st (mzEvents st evs false)
    | ["end"] => mzFinish st (mzEvents st evs false) true
    | _ => (st, some (.error "bad MZ line"))
  | _ => (st, none)

end Driver
