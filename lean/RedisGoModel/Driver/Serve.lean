import RedisGoModel.Driver.Util
import RedisGoModel.Exec.Serve
/-! serve engine: `S <dbs>` fresh manager; `C <conn> <bytes> => t0 t1 <reply-bytes> <open|closed|timeout>`; `D <conn> => <pushes> <st>`;
    `K <conn>` client disconnects.  Observed reply bytes are decoded by the verified decoder into a list of RESP values
    (all bytes must be consumed) and compared value by value with the model's replies. -/
namespace Driver
open Exec Resp

structure ServeSt where
  srv : Server := Server.init 16
  seq : Nat := 0
  dead : Bool := false

-- the reply-stream decoder is `Resp.decodeAllReplies` (Resp/Reply.lean; total, `Resp.decodeAllReplies_encode`, `Exec.C03.pipeline_replies`)

def sentinelToken (seq : Nat) : Bytes := ofStr s!"verif-sentinel-{seq}"
def sentinelCmd (seq : Nat) : Bytes := Resp.encodeCmd [ofStr "PING", sentinelToken seq]

def serveLine (st : ServeSt) (fs : List String) : ServeSt × Option (Except String Bool) :=
  match fs with
  | ["S", n] => ({ srv := Server.init (n.toNat?.getD 16) }, some (.ok false))
  | "PAR" :: _ => (st, some (.ok false))
  | "STALL" :: _ => (st, some (.ok false))   -- marker: the client read the following C line's replies after a pause (same replies expected)   -- marker: the following C lines were written concurrently (disjoint keys: any order gives these replies)
  | ["K", c] =>
    match c.toNat? with
    | some c => ({ st with srv := st.srv.clientClose c }, some (.ok false))
    | none => (st, some (.error "bad conn"))
  | ["D", c, "=>", obs, status] =>
    if st.dead then (st, some (.ok false)) else
    match c.toNat?, unhex obs with
    | some c, some ob =>
      let mine := (st.srv.outbox.filter (·.1 == c)).map (·.2)
      let e := mine.flatten
      let st' := { st with srv := { st.srv with outbox := st.srv.outbox.filter (·.1 != c) } }
      if (st.srv.conn c).closed then (st', some (.ok false))
      else if e == ob then (st', some (.ok (!mine.isEmpty)))
      else ({ st' with dead := true }, some (.error s!"pushes expected={hex e} got={obs} ({status})"))
    | _, _ => (st, some (.error "bad drain line"))
  | [tag, c, payload, "=>", t0, _t1, obs, status] =>
    -- `HC`: the same pipeline written on a fresh TCP connection whose sending side the client then closes (half-close) while it keeps reading to
    -- the end of the stream: every command that was written is still read, executed and answered; afterwards the connection is gone
    if tag != "C" && tag != "HC" then (st, none) else
    if st.dead then (st, some (.ok false)) else
    match c.toNat?, unhex payload, unhex obs, t0.toInt? with
    | some c, some p, some ob, some t0 =>
      let seq := st.seq + 1
      let st := { st with seq := seq }
      if (st.srv.conn c).closed then
        if ob.isEmpty && status != "open" then (st, some (.ok false))
        else ({ st with dead := true }, some (.error s!"connection {c} was closed by a protocol error but answered {obs} ({status})"))
      else
      let evs := parseLoop St.init (p ++ sentinelCmd seq)
      let env : Env := { now := t0 }
      let (srv', replies, errd) := st.srv.handleEvents env c evs []
      -- was the sentinel answered as the last reply?
      let sentAnswered := !errd && (match replies.getLast? with
        | some ⟨false, _, .bulk (some b)⟩ => b == sentinelToken seq
        | _ => false)
      let expReplies := if sentAnswered then replies.dropLast else replies
      let expStatus := if errd then "closed" else if sentAnswered then "open" else "timeout"
      let srv' := if expStatus == "open" then srv' else srv'.disconnect c
      match decodeAllReplies ob [] with
      | none => ({ st with dead := true }, some (.error s!"reply stream is not a sequence of well-formed RESP values: {obs}"))
      | some obsR =>
        if status != expStatus then
          ({ st with dead := true }, some (.error s!"connection status expected={expStatus} got={status}"))
        else if obsR.length != expReplies.length then
          ({ st with dead := true }, some (.error s!"reply count expected={expReplies.length} got={obsR.length} (one reply per command, in order)"))
        else
          match (expReplies.zip obsR).find? (fun (w, o) => !replyAgrees (canonReply w.name w.reply) (canonReply w.name o)) with
          | some (w, o) =>
            ({ st with dead := true }, some (.error s!"reply to {hex w.name} expected={hex (Resp.encode w.reply)} got={hex (Resp.encode o)}"))
          | none => ({ st with srv := if tag == "HC" then srv'.clientClose c else srv' }, some (.ok (expReplies.any fun w => !w.reply.isErr)))
    | _, _, _, _ => (st, some (.error "bad serve line"))
  | _ => (st, none)

end Driver
