/-! Line-protocol helpers for the correspondence driver (core Lean only). -/
namespace Driver
abbrev Bytes := List UInt8

def hexVal (c : Char) : Option Nat :=
  if '0' ≤ c ∧ c ≤ '9' then some (c.toNat - '0'.toNat)
  else if 'a' ≤ c ∧ c ≤ 'f' then some (c.toNat - 'a'.toNat + 10)
  else if 'A' ≤ c ∧ c ≤ 'F' then some (c.toNat - 'A'.toNat + 10)
  else none

def unhexAux : List Char → List UInt8 → Option Bytes
| [], acc => some acc.reverse
| [_], _ => none
| a :: b :: r, acc =>
  match hexVal a, hexVal b with
  | some x, some y => unhexAux r (UInt8.ofNat (x * 16 + y) :: acc)
  | _, _ => none

/-- "-" is the empty byte string (so that every field is a non-empty token) -/
def unhex (s : String) : Option Bytes :=
  if s == "-" then some [] else unhexAux s.toList []

def hexDigit (n : Nat) : Char :=
  if n < 10 then Char.ofNat (n + '0'.toNat) else Char.ofNat (n - 10 + 'a'.toNat)

def hex (b : Bytes) : String :=
  if b.isEmpty then "-" else
  String.ofList (b.foldr (fun x acc => hexDigit (x.toNat / 16) :: hexDigit (x.toNat % 16) :: acc) [])

def hex16 (x : UInt64) : String :=
  String.ofList ((List.range 16).map fun i => hexDigit ((x.toNat >>> (60 - 4 * i)) % 16))

def fnv1a (b : Bytes) : UInt64 :=
  b.foldl (fun h c => (h ^^^ c.toUInt64) * 1099511628211) 14695981039346656037

/-- the dump hook's rendering of a stored byte string: hex, or `#len#fnv1a64` above 4096 bytes -/
def hexV (b : Bytes) : String :=
  if b.length > 4096 then s!"#{b.length}#{hex16 (fnv1a b)}" else hex b

def fields (line : String) : List String :=
  (line.splitOn " ").filter (· ≠ "")

end Driver
