import RedisGoModel.Driver.Util
import RedisGoModel.Exec.Dispatch
import RedisGoModel.Exec.Footprint
import RedisGoModel.Exec.LockSeq
import RedisGoModel.Conc.TraceCheck
import RedisGoModel.Cluster.Snapshot
/-! exec engine: `R` resets the model keyspace; `X <keys|*|-> <argv…> => <t0> <t1> <reply> <dump> fl=<…>` replays one command
    on the model and compares the reply (decoded by the verified decoder `Resp.decode`) and the dumped keys (live view).
    Keyspace snapshot (C08): `G => <t0> <t1> <hex>` compares `MemDb.GetSnapshot()` byte for byte with `Snap.encode` of the model
    keyspace; `L => <t0> <t1> <hex> ok|err <full dump>` (snapshot loaded into a fresh MemDb) replaces the model keyspace by
    `Snap.decode (Snap.encode db)`; `LB <hex> => <t0> <t1> ok|err <full dump>` is `LoadSnapshot` of arbitrary bytes. -/
namespace Driver
open Exec Resp

/-- the sorted-set dump of verif_dump.go: the tree in parenthesised in-order form with stored heights, then `len`, the node count and
    the member index; the model derives the last three from the tree -/
def renderZTree : ZT.T → String
| .nil => "."
| .node l k ns h r =>
  "(" ++ renderZTree l ++ "_" ++ hex16 (ZT.unkey k) ++ "/" ++ toString h ++ "/" ++ "+".intercalate (sortBy (· < ·) (ns.map hexV)) ++ "_"
    ++ renderZTree r ++ ")"

def renderZSet (t : ZT.T) : String :=
  "z:" ++ renderZTree t ++ s!"|len={ZT.size t}|nodes={ZT.size t}|dict="
    ++ ",".intercalate (sortBy (· < ·) ((ZT.members t).map fun m => hexV m.1 ++ ":" ++ hex16 (ZT.unkey m.2)))

def renderEntry (e : Entry) : String :=
  let v := match e.val with
    | .str b => "s:" ++ hexV b
    | .list l => "l:" ++ ",".intercalate (l.map hexV)
    | .set s => "t:" ++ ",".intercalate (sortBy (· < ·) (s.map hexV))
    | .hash h => "h:" ++ ",".intercalate (sortBy (· < ·) (h.map fun (f, v) => hexV f ++ "=" ++ hexV v))
    | .zset z => renderZSet z
    | .stream s last => "x:" ++ ";".intercalate (s.map fun e => s!"{e.id.ms}-{e.id.seq}=" ++ ",".intercalate (e.fields.map hexV))
        ++ s!"|last={last.ms}-{last.seq}"
  v ++ "@" ++ (match e.exp with | some d => toString d | none => "-")

/-- observed dump of one key, reduced to the live view at time `t`: an entry whose deadline has passed is `~` -/
def liveObserved (d : String) (t : Int) : String :=
  match d.splitOn "@" with
  | [v, dl] =>
    if v == "~" then
      -- a deadline left behind without a value is reported as is, unless it has passed already: then the dump caught the expiry
      -- (timer goroutine or CheckTTL) between its two deletions and the live view is simply "missing"
      match dl.toInt? with
      | some x => if x ≤ t then "~" else d
      | none => d
    else match dl.toInt? with
      | some x => if x ≤ t then "~" else d
      | none => d
  | _ => d

def renderModelKey (db : Db) (k : Bytes) (t : Int) : String :=
  match db.get k with
  | none => "~"
  | some e => match e.exp with
    | some d => if d ≤ t then "~" else renderEntry e
    | none => renderEntry e

structure ExecSt where
  db : Db := []
  dead : Bool := false          -- after a mismatch the rest of the program is skipped (states have diverged)
  cmds : Nat := 0
  lenient : Nat := 0            -- LB lines the implementation accepted and the strict model decoder refuses

def parseFl (s : String) : Nat → Option UInt64 :=
  let body := (s.drop 3).toString
  if body == "-" then fun _ => none else
  let tbl := (body.splitOn ",").filterMap fun it =>
    match it.splitOn ":" with
    | [i, bits] => match i.toNat?, unhex bits with
      | some i, some bs => some (i, bs.foldl (fun acc b => acc * 256 + b.toUInt64) (0 : UInt64))
      | _, _ => none
    | _ => none
  fun i => (tbl.find? (·.1 == i)).map (·.2)

/-- `strict`: the physical entries must agree including deadlines (used to tell which clock reading a command saw when it
    straddled a second boundary); otherwise both sides are reduced to the live view at `t` -/
def compareDump (db : Db) (spec dump : String) (t : Int) (strict : Bool := false) : Option String :=
  if spec == "-" then none else
  let items := dump.splitOn "&"
  let kvs := items.filterMap fun it =>
    if it.startsWith "k=" then
      match (it.drop 2).toString.splitOn "#" with
      | [kh, d] => (unhex kh).map fun k => (k, d)
      | _ => none
    else none
  let bad := kvs.findSome? fun (k, d) =>
    let e := if strict then renderModelKey db k (-1) else renderModelKey db k t
    let o := if strict then liveObserved d (-1) else liveObserved d t
    if e == o then none else some s!"key={hex k} expected={e} got={o}"
  match bad with
  | some b => some b
  | none =>
    if spec == "*" then
      -- every live model key must be present in the full dump, and the map's own counter must equal its size
      let missing := (live db t).keys.find? fun k => !(kvs.any fun p => p.1 == k)
      match missing with
      | some k => some s!"key={hex k} expected={renderModelKey db k t} got=absent-from-full-dump"
      | none =>
        match items.find? (·.startsWith "count=") with
        | some c => (match (c.drop 6).toString.splitOn "/" with
          | [a, b] => if a == b then none else some s!"keyspace counter {a} but {b} keys present"
          | _ => none)
        | none => none
    else none

/-- `ev=L12,get:db:12,U12` (hook H2) → events; `none` if malformed -/
def parseEvents (s : String) : Option (List TraceCheck.Ev) :=
  let body := (s.drop 3).toString
  if body == "-" then some [] else
  (body.splitOn ",").mapM fun it =>
    if it.startsWith "RL" then (it.drop 2).toString.toNat?.map (TraceCheck.Ev.lock false)
    else if it.startsWith "RU" then (it.drop 2).toString.toNat?.map (TraceCheck.Ev.unlock false)
    else if it.startsWith "L" then (it.drop 1).toString.toNat?.map (TraceCheck.Ev.lock true)
    else if it.startsWith "U" then (it.drop 1).toString.toNat?.map (TraceCheck.Ev.unlock true)
    else match it.splitOn ":" with
      | [kind, _map, pos] => pos.toNat?.map (TraceCheck.Ev.access (kind != "get"))
      | _ => none

/-- lock discipline of one command's event trace -/
def checkEvents (rest : List String) : Option String :=
  match rest with
  | [ev] =>
    match parseEvents ev with
    | none => some s!"malformed event trace {ev}"
    | some evs =>
      if TraceCheck.ok evs then none
      else match TraceCheck.firstBad {} evs 0 with
        | some i => some s!"lock discipline violated at event {i} of {ev}"
        | none => some s!"a stripe is still held when the command returns: {ev}"
  | _ => none

/-! ### lock footprint (C05 / C13): the stripes the Go executor locked = the stripes of the model footprint's keys -/

/-- `kp=3,17,3`: stripe position of every argument after the command name (index-aligned with `argv[1:]`) -/
def parseKp (s : String) : Option (List Nat) :=
  let body := (s.drop 3).toString
  if body == "-" then some [] else (body.splitOn ",").mapM (·.toNat?)

/-- stripe of a footprint key: the key is an argument, its position was observed by the harness (`Locks.GetKeyPos`) -/
def posOfKey (argv : List Bytes) (kp : List Nat) (k : Bytes) : Option Nat :=
  match (argv.drop 1).findIdx? (· == k) with
  | some i => kp[i]?
  | none => none

def dedupNat (l : List Nat) : List Nat := l.foldl (fun acc x => if acc.contains x then acc else acc ++ [x]) []
def sameSet (a b : List Nat) : Bool := a.all b.contains && b.all a.contains

def showPoses (l : List Nat) : String := ",".intercalate ((sortBy (· < ·) (dedupNat l)).map toString)

/-- the lock events of one command against the plan (`Exec.lockPlan`): `none` = agrees.
    `keys ks w`: the set of stripes locked (in either mode, `CheckTTL`'s blocks included) equals the set of stripes of `ks` — for the
    commands of `Exec.lockedPrefix` (BLPOP/BRPOP stop at the first key that serves) of a prefix of `ks`; with `w` every locked
    stripe was taken in write mode at some point.  `none`: nothing is locked.  `whole` (KEYS): not compared (the stripes are
    those of the keys that exist, which the arguments do not name). -/
def checkFootprint (plan : Footprint) (name : Bytes) (argv : List Bytes) (evs : List TraceCheck.Ev) (kp : List Nat) : Option String :=
  let locked := dedupNat (evs.filterMap fun | .lock _ p => some p | _ => none)
  let lockedW := dedupNat (evs.filterMap fun | .lock true p => some p | _ => none)
  match plan with
  | .whole => none
  | .none => if locked.isEmpty then none else some s!"footprint: the model says this call locks nothing, the implementation locked stripes {showPoses locked}"
  | .keys ks w =>
    match ks.mapM (posOfKey argv kp) with
    | none => some "footprint: a footprint key is not among the arguments whose stripe the harness reported (kp=)"
    | some want =>
      let keysOk :=
        if lockedPrefix.any (fun n => ofStr n == name) then
          (List.range (want.length + 1)).any fun n => n ≥ 1 && sameSet locked (dedupNat (want.take n))
        else sameSet locked (dedupNat want)
      if !keysOk then
        some s!"footprint: model keys on stripes {showPoses want}, the implementation locked stripes {showPoses locked}"
      else if w && !(locked.all lockedW.contains) then
        some s!"footprint: write footprint, but stripes {showPoses (locked.filter fun p => !lockedW.contains p)} were only read-locked"
      else none

/-- the lock scopes of one command's trace: a block runs from a first acquisition to the moment nothing is held; `none` when a block
    mixes read and write acquisitions or the trace ends inside a block (the second is also reported by `checkEvents`) -/
def blocksOf (evs : List TraceCheck.Ev) : Option (List LBlock) :=
  let rec go : List TraceCheck.Ev → Nat → Option LBlock → List LBlock → Option (List LBlock)
    | [], held, cur, acc => if held == 0 && cur.isNone then some acc.reverse else none
    | .lock w p :: es, held, cur, acc =>
      (match cur with
       | none => go es (held + 1) (some (w, [p])) acc
       | some (w', ps) => if w == w' then go es (held + 1) (some (w', ps ++ [p])) acc else none)
    | .unlock _ _ :: es, held, cur, acc =>
      (match cur with
       | none => none
       | some b => if held ≤ 1 then go es 0 none (b :: acc) else go es (held - 1) (some b) acc)
    | .access _ _ :: es, held, cur, acc => go es held cur acc
  go evs 0 none []

def showBlocks (l : List LBlock) : String :=
  " ".intercalate (l.map fun b => (if b.1 then "W[" else "R[") ++ ",".intercalate (b.2.map toString) ++ "]")

/-- **acquisition order (C13)**: the blocks of the trace — which stripes, in which order, in which mode, block after block — must be one
    of the block sequences of the model's lock program `Exec.lockProg` under the observed stripe table (`LProg.accepts`, proved to decide
    membership in `LProg.runs`).  This subsumes the set comparison of `checkFootprint`, whose message is used when it has one. -/
def checkLockOrder (env : Env) (name : Bytes) (argv : List Bytes) (evs : List TraceCheck.Ev) (kp : List Nat) : Option String :=
  match lockPlan env argv with
  | .whole => none
  | plan =>
    match blocksOf evs with
    | none => some "lock order: the trace is not a sequence of single-mode lock scopes"
    | some blocks =>
      let stripe : Bytes → Nat := fun k => (posOfKey argv kp k).getD 0
      let prog := lockProg stripe env argv blocks.length
      if prog.accepts blocks then none
      else match checkFootprint plan name argv evs kp with
        | some m => some m
        | none => some s!"lock order: observed lock scopes {showBlocks blocks} are not a block sequence of the model's lock program (without expiry: {showBlocks prog.main})"

/-- the footprint / acquisition-order clause of one exec line (only when the line carries both the event trace and the stripe table) -/
def checkFootprintLine (argv : List Bytes) (t0 t1 : Int) (fl : Nat → Option UInt64) (rest : List String) : Option String :=
  match rest.filter (·.startsWith "ev="), rest.filter (·.startsWith "kp=") with
  | [ev], [kps] =>
    match parseEvents ev, parseKp kps with
    | some evs, some kp =>
      let name := lower (argv.headD [])
      let chk (now : Int) := checkLockOrder { now := now, fl := fl } name argv evs kp
      match chk t0 with
      | none => none
      | some bad => if t1 != t0 && (chk t1).isNone then none else some bad
    | _, none => some s!"malformed stripe table {kps}"
    | none, _ => none      -- reported by checkEvents
  | _, _ => none

/-! ### keyspace snapshots (C08) -/

def snapFirstDiff : List UInt8 → List UInt8 → Nat → Option Nat
| [], [], _ => none
| a :: as, b :: bs, i => if a == b then snapFirstDiff as bs (i + 1) else some i
| _, _, i => some i

def snapExcerpt (b : List UInt8) (i : Nat) : String :=
  String.fromUTF8! ⟨((b.drop (i - 24)).take 64).toArray.map fun c => if 32 ≤ c && c < 127 then c else 63⟩

/-- byte-for-byte comparison; the first differing offset and both excerpts (non-printable bytes as `?`) -/
def snapCompareBytes (expected got : List UInt8) : Option String :=
  match snapFirstDiff expected got 0 with
  | none => none
  | some i => some s!"snapshot bytes differ at offset {i} (expected {expected.length} bytes, got {got.length}): expected=…{snapExcerpt expected i}… got=…{snapExcerpt got i}…"

/-- the model keyspace as the implementation physically holds it at the moment of the snapshot: an entry whose deadline has passed
    by `t1` may or may not have been reaped (expiry timer, lazy deletion): it is kept exactly when the observed snapshot lists its key;
    every other entry must be there -/
def snapCandidate (db : Db) (obs : List UInt8) (t1 : Int) : Db :=
  let present : Bytes → Bool := match Snap.decode obs with
    | some o => fun k => o.any (·.1 == k)
    | none => fun _ => true
  db.filter fun p => match p.2.exp with
    | some d => if d ≤ t1 then present p.1 else true
    | none => true

def snapLine (st : ExecSt) (fs : List String) : ExecSt × Option (Except String Bool) :=
  match fs with
  | ["G", "=>", "SKIP"] | ["L", "=>", "SKIP"] | ["LB", _, "=>", "SKIP"] | ["LB", "=>", "SKIP"] => (st, some (.ok false))
  | "G" :: "=>" :: _t0 :: t1 :: [snap] =>
    if st.dead then (st, some (.ok false)) else
    match t1.toInt?, unhex snap with
    | some t1, some obs =>
      let cand := snapCandidate st.db obs t1
      if !Snap.boundedB cand then ({ st with dead := true }, some (.error "model keyspace outside the value ranges of the Go types (Snap.boundedB)"))
      else match snapCompareBytes (Snap.encode cand) obs with
        | some d => ({ st with dead := true }, some (.error d))
        | none => (st, some (.ok (!cand.isEmpty)))
    | _, _ => ({ st with dead := true }, some (.error s!"implementation: GetSnapshot {snap}"))
  | "L" :: "=>" :: _t0 :: t1 :: snap :: verdict :: [dump] =>
    if st.dead then (st, some (.ok false)) else
    match t1.toInt?, unhex snap with
    | some t1, some obs =>
      let cand := snapCandidate st.db obs t1
      if !Snap.boundedB cand then ({ st with dead := true }, some (.error "model keyspace outside the value ranges of the Go types (Snap.boundedB)"))
      else match snapCompareBytes (Snap.encode cand) obs with
        | some d => ({ st with dead := true }, some (.error d))
        | none =>
          match Snap.decode (Snap.encode cand) with
          | none => ({ st with dead := true }, some (.error "Snap.decode refuses Snap.encode of the model keyspace"))
          | some db' =>
            if verdict != "ok" then ({ st with dead := true }, some (.error "LoadSnapshot refused the snapshot GetSnapshot had just written"))
            else match compareDump db' "*" dump t1 with
              | some d => ({ st with dead := true }, some (.error ("restored keyspace: " ++ d)))
              | none => ({ st with db := db' }, some (.ok (!cand.isEmpty)))
    | _, _ => ({ st with dead := true }, some (.error s!"implementation: GetSnapshot {snap}"))
  | "L" :: "=>" :: _ => ({ st with dead := true }, some (.error "implementation: snapshot/load did not complete"))
  | "G" :: "=>" :: _ => ({ st with dead := true }, some (.error "implementation: snapshot did not complete"))
  | "LB" :: rest =>
    if st.dead then (st, some (.ok false)) else
    let (hexS, obsS) := rest.span (· != "=>")
    match (hexS.headD "-" |> unhex), obsS with
    | some data, "=>" :: _t0 :: t1 :: verdict :: [dump] =>
      match t1.toInt? with
      | none => (st, some (.error "bad timestamps"))
      | some t1 =>
        match Snap.decode data with
        | some db' =>
          -- the strict decoder accepts: the implementation must accept too, with the same keyspace
          if verdict != "ok" then ({ st with dead := true }, some (.error "Snap.decode accepts these bytes, LoadSnapshot refused them"))
          else (match compareDump db' "*" dump t1 with
            | some d => ({ st with dead := true }, some (.error ("loaded keyspace: " ++ d)))
            | none => ({ st with db := db' }, some (.ok true)))
        | none =>
          if verdict == "ok" then
            -- accepted by Go's lenient reader only: not a mismatch unless the bytes are the canonical snapshot of the current keyspace
            if data == Snap.encode st.db && Snap.boundedB st.db then
              ({ st with dead := true }, some (.error "Snap.decode refuses the canonical snapshot of the current keyspace"))
            else ({ st with dead := true, lenient := st.lenient + 1 }, some (.ok false))
          else
            -- refused on both sides: "on error the keyspace is unchanged"
            (match compareDump st.db "*" dump t1 with
            | some d => ({ st with dead := true }, some (.error ("keyspace changed by a refused LoadSnapshot: " ++ d)))
            | none => (st, some (.ok false)))
    | _, _ => ({ st with dead := true }, some (.error "implementation: LoadSnapshot did not complete"))
  | _ => (st, none)

/-- returns (new state, verdict): `ok nontrivial` or `error detail` -/
def execLine (st : ExecSt) (fs : List String) : ExecSt × Option (Except String Bool) :=
  match fs with
  | "R" :: _ => ({ lenient := st.lenient }, some (.ok false))
  | "A" :: _ => (st, some (.ok false))
  | "G" :: _ | "L" :: _ | "LB" :: _ => snapLine st fs
  | "X" :: spec :: rest =>
    let (argvS, obsS) := rest.span (· != "=>")
    if st.dead then (st, some (.ok false)) else
    match argvS.mapM unhex, obsS with
    | some argv, ["=>", "SKIP"] => (st, some (.ok false))
    | some argv, "=>" :: t0 :: t1 :: reply :: dump :: fl :: rest =>
      -- optional trailing fields: `rf=` (ParseFloat bits of reply elements, C12) and `ev=` (hook H2 lock/access events)
      let rfs := rest.filter (·.startsWith "rf=")
      let evRest := rest.filter (·.startsWith "ev=")
      match t0.toInt?, t1.toInt? with
      | some t0, some t1 =>
        match checkEvents evRest with
        | some bad => ({ st with dead := true }, some (.error bad))
        | none =>
        if reply == "PANIC" || reply == "HANG" || reply == "NIL" then
          ({ st with dead := true }, some (.error s!"implementation {reply}"))
        else
        match checkFootprintLine argv t0 t1 (parseFl fl) rest with
        | some bad => ({ st with dead := true }, some (.error bad))
        | none =>
        match unhex reply with
        | none => (st, some (.error "bad reply hex"))
        | some rb =>
          match Resp.decode (rb.length + 2) rb with
          | some (obs, []) =>
            let name := lower (argv.headD [])
            let attempt (now : Int) (strict : Bool := false) : Except String ExecSt :=
              let env : Env := { now := now, obs := some obs, fl := parseFl fl }
              let (r, db') := exec env st.db argv
              -- score positions (C12): the implementation's decimal text is compared by value (`rf=` = ParseFloat of reply elements)
              let obs := normScores (scorePositions name argv r) (parseFl (rfs.headD "rf=-")) obs
              if !replyAgrees (canonReply name r) (canonReply name obs) then
                .error s!"reply expected={hex (Resp.encode r)} got={reply}"
              else match compareDump db' spec dump t1 strict with
                | some d => .error d
                | none => .ok { st with db := db', cmds := st.cmds + 1 }
            let nontriv := !(Exec.exec { now := t0, obs := some obs, fl := parseFl fl } st.db argv).1.isErr
            let tries : List (Int × Bool) :=
              if t1 != t0 then [(t0, true), (t1, true), (t0, false), (t1, false)] else [(t0, false)]
            match tries.findSome? (fun (t, s) => match attempt t s with | .ok st' => some st' | .error _ => none) with
            | some st' => (st', some (.ok nontriv))
            | none =>
              match attempt t0 with
              | .error e => ({ st with dead := true }, some (.error e))
              | .ok st' => (st', some (.ok nontriv))
          | _ => ({ st with dead := true }, some (.error s!"reply is not exactly one well-formed RESP value: {reply}"))
      | _, _ => (st, some (.error "bad timestamps"))
    | _, _ => (st, some (.error "bad exec line"))
  | _ => (st, none)

end Driver
