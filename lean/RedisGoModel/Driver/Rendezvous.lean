import RedisGoModel.Driver.Util
import RedisGoModel.Driver.Serve
import RedisGoModel.Cluster.Rendezvous
import RedisGoModel.Cluster.Codec
/-! rendezvous engine (C07 `own_reply`): replays what the harness observed around the REAL `Manager.HandleCluster` and
    `handleClusterCommits` (harness/rendezvous.go) on the model `Rendezvous.next` — the transition function the theorems of
    `Props/C07Own.lean` are about — with the executable keyspace model `Exec.exec` as the state machine `step`.

    `RZ new` · `RZ w <conn> <cmd>…` (client writes a pipeline) · `RZ c <item>… [| …]` (commit: `c:<conn>` the outstanding proposal of
    a connection, `f:<id>:<cmd>` a foreign entry, `d:<k>` the k-th log entry again) · `RZ end`, each followed by `=>` and the
    events the harness saw: `p:<conn>:<id>` (raft received the proposal: `submit`), `r:<conn>:<hex>` (the client received one RESP
    value: `receive`, or the direct answer to a command the cluster filter refuses), `reg:<n>`, `x:<…>`.

    Checked per line: a proposal comes only from an idle connection and carries its next command; a reply arrives only when the
    model's `receive` is enabled (the proposal's entry has been applied) and is, byte for byte, the reply the model delivered to
    THAT connection (errors by class, as everywhere); at the end of the line no connection has a reply it did not get (lost
    wake-up) and none sits on a command that was neither proposed nor answered; at `end` the callback map holds exactly the ids of
    the waiting connections.  The ids are checked to be pairwise distinct (hypothesis `UniqueIds` of `own_reply`). -/
namespace Driver
open Exec Resp

abbrev RzModel := Rendezvous.State String Nat Db (List Resp.Bytes) Reply

/-- the state machine of a cluster node: `applyClusterProposal` = `ExecCommand` on the argument vector -/
def rzStep (db : Db) (args : List Resp.Bytes) : Db × Reply :=
  let out := Exec.exec { now := 0 } db args
  (out.2, out.1)

structure RzSt where
  m : RzModel := Rendezvous.init []
  conns : List Nat := []
  fifo : List (Nat × List Resp.Bytes) := []     -- (connection, command) written and neither proposed nor answered, oldest first
  ids : List String := []
  dead : Bool := true

def rzParseCmd (tok : String) : Option (List Resp.Bytes) := (tok.splitOn ":").mapM unhex

def refusedReply : Resp.Bytes := "-command does not pass checks\r\n".toUTF8.toList

def rzHead (st : RzSt) (c : Nat) : Option (List Resp.Bytes) := (st.fifo.find? (·.1 == c)).map (·.2)
def rzPop (st : RzSt) (c : Nat) : RzSt :=
  match st.fifo.findIdx? (·.1 == c) with
  | some i => { st with fifo := st.fifo.eraseIdx i }
  | none => st

def rzReplyOk (name : Resp.Bytes) (exp : Reply) (ob : Resp.Bytes) : Bool :=
  Resp.encode exp == ob ||
  (match decodeAllReplies ob [] with
   | some [o] => replyAgrees (canonReply name exp) (canonReply name o)
   | _ => false)

/-- one observed event; `Except.error` = disagreement -/
def rzEvent (st : RzSt) (ev : String) : Except String (RzSt × Bool) :=
  match ev.splitOn ":" with
  | ["p", c, id] =>
    match c.toNat? with
    | none => .error "bad p event"
    | some c =>
      if (st.m.waiting c).isSome then .error s!"connection {c} proposed {id} while it still waits for an earlier proposal" else
      if st.ids.contains id then .error s!"proposal id {id} used twice (UniqueIds)" else
      match rzHead st c with
      | none => .error s!"connection {c} proposed {id} but has written no further command"
      | some cmd =>
        if !Codec.clusterAccepts cmd then .error s!"connection {c}: a command the cluster filter refuses was proposed" else
        let st := rzPop st c
        .ok ({ st with m := Rendezvous.next rzStep st.m (.submit c cmd id), ids := id :: st.ids }, false)
  | ["r", c, obs] =>
    match c.toNat?, unhex obs with
    | some c, some ob =>
      match st.m.waiting c with
      | some id =>
        match st.m.mailbox c with
        | none => .error s!"connection {c} received {obs} although the entry of its proposal {id} has not been applied (reply without commit, or another command's reply)"
        | some r =>
          let name := match (st.m.subs c).getLast? with | some (_, cmd) => lower (cmd.headD []) | none => []
          if rzReplyOk name r ob then .ok ({ st with m := Rendezvous.next rzStep st.m (.receive c) }, true)
          else .error s!"connection {c} proposal {id}: reply expected={hex (Resp.encode r)} got={obs}"
      | none =>
        match rzHead st c with
        | some cmd =>
          if Codec.clusterAccepts cmd then .error s!"connection {c} received {obs} for a command that was not proposed yet"
          else if ob == refusedReply then .ok (rzPop st c, false)
          else .error s!"connection {c}: refused command answered {obs}"
        | none => .error s!"connection {c} received {obs} without having a command outstanding (a reply too many)"
    | _, _ => .error "bad r event"
  | ["reg", n] =>
    let w := (st.conns.filter fun c => (st.m.waiting c).isSome).length
    if n.toNat? == some w then .ok (st, false) else .error s!"callback map holds {n} ids, {w} connections wait"
  | _ => .error s!"harness: {ev}"

def rzEvents (st : RzSt) : List String → Bool → Except String (RzSt × Bool)
  | [], pos => .ok (st, pos)
  | ev :: rest, pos =>
    match rzEvent st ev with
    | .ok (st', p) => rzEvents st' rest (pos || p)
    | .error e => .error e

/-- end of a line: nothing the model has made available is missing -/
def rzQuiet (st : RzSt) : Except String Unit :=
  match st.conns.find? fun c => (st.m.waiting c).isSome && (st.m.mailbox c).isSome with
  | some c => .error s!"connection {c}: the entry of its proposal was applied but no reply arrived (lost wake-up)"
  | none =>
    match st.conns.find? fun c => (st.m.waiting c).isNone && (rzHead st c).isSome with
    | some c => .error s!"connection {c}: a written command was neither proposed nor answered"
    | none => .ok ()

def rzApplyItem (st : RzSt) (it : String) : Except String RzSt :=
  match it.splitOn ":" with
  | ["c", c] =>
    match c.toNat? with
    | none => .error "bad commit item"
    | some c =>
      match st.m.waiting c, (st.m.subs c).getLast? with
      | some id, some (id', cmd) =>
        if id != id' then .error "model: waiting id is not the last submission" else
        .ok { st with m := Rendezvous.next rzStep st.m (.apply ⟨id, cmd⟩) }
      | _, _ => .error s!"commit of connection {c}, which has no outstanding proposal"
  | "f" :: id :: cmd =>
    match cmd.mapM unhex with
    | some cmd =>
      if st.ids.contains id then .error s!"foreign id {id} collides (UniqueIds)" else
      .ok { st with m := Rendezvous.next rzStep st.m (.apply ⟨id, cmd⟩), ids := id :: st.ids }
    | none => .error "bad foreign item"
  | ["d", k] =>
    match k.toNat? with
    | some k =>
      match st.m.log[k]? with
      | some e =>
        if (st.m.table e.id).isSome then .error "generator: replay of an entry whose id is still registered" else
        .ok { st with m := Rendezvous.next rzStep st.m (.apply e) }
      | none => .error "replay of an entry that is not in the log"
    | none => .error "bad replay item"
  | _ => .error s!"bad commit item {it}"

def rzFinish (st : RzSt) (r : Except String (RzSt × Bool)) : RzSt × Option (Except String Bool) :=
  match r with
  | .error e => ({ st with dead := true }, some (.error e))
  | .ok (st', pos) =>
    match rzQuiet st' with
    | .error e => ({ st' with dead := true }, some (.error e))
    | .ok () => (st', some (.ok pos))

def rendezvousLine (st : RzSt) (fs : List String) : RzSt × Option (Except String Bool) :=
  match fs with
  | "RZ" :: "new" :: "=>" :: evs =>
    if evs.isEmpty then ({ dead := false }, some (.ok false)) else ({ dead := false }, some (.error s!"events at start: {evs}"))
  | "RZ" :: rest =>
    if st.dead then (st, some (.ok false)) else     -- after a disagreement the rest of the scenario is not judged
    let (inp, evs) := rest.span (· != "=>")
    let evs := evs.drop 1
    match inp with
    | "w" :: c :: cmds =>
      match c.toNat?, cmds.mapM rzParseCmd with
      | some c, some cmds =>
        let st := { st with conns := if st.conns.contains c then st.conns else st.conns ++ [c], fifo := st.fifo ++ cmds.map fun x => (c, x) }
        rzFinish st (rzEvents st evs false)
      | _, _ => (st, some (.error "bad w line"))
    | "c" :: items =>
      let r := (items.filter (· != "|")).foldlM rzApplyItem st
      match r with
      | .error e => ({ st with dead := true }, some (.error e))
      | .ok st => rzFinish st (rzEvents st evs false)
    | ["end"] => rzFinish st (rzEvents st evs false)
    | _ => (st, some (.error "bad RZ line"))
  | _ => (st, none)

end Driver
