import RedisGoModel.Props.GlobalFrame
/-! # The frame property of every command of the table, and the global invariant per family table

For each of the 77 executors `c` of family F: `Fr P_F db (c env db args).2` (`CmdFr`) — whatever the arguments, the clock and the
observed reply, the command leaves behind only values of its own kind and values that were there before.  Together with the
family's own invariant theorem and `C06T.table_ok` (unique keys are preserved) this gives `Inv db → Inv (c env db args).2`. -/
namespace Exec.Global
open Resp (Reply Bytes)
open Exec

/-! ### string and key commands -/

theorem Fr.mgetLoop {P : Value → Prop} {a : Db} (now : Int) : ∀ (ks : List Bytes) {b : Db} (acc : List Reply),
    Fr P a b → Fr P a (mgetLoop now b ks acc).2
| [], _, _, h => h
| k :: ks, _, _, h => by
  unfold Exec.mgetLoop; dsimp only
  exact Fr.mgetLoop now ks _ (h.ttl now k)

theorem Fr.msetLoop {a : Db} : ∀ (l : List Bytes) {b : Db}, Fr IsStr a b → Fr IsStr a (msetLoop b l)
| [], _, h => h
| [_], _, h => h
| k :: v :: rest, _, h => by
  unfold Exec.msetLoop
  exact Fr.msetLoop rest (h.setFresh k trivial)

theorem Fr.delLoop {P : Value → Prop} {a : Db} (now : Int) : ∀ (ks : List Bytes) {b : Db} (n : Nat),
    Fr P a b → Fr P a (delLoop now b ks n).2
| [], _, _, h => h
| k :: ks, _, _, h => by
  unfold Exec.delLoop; dsimp only
  split
  · exact Fr.delLoop now ks _ ((h.ttl now k).del k)
  · exact Fr.delLoop now ks _ (h.ttl now k)

theorem Fr.existsLoop {P : Value → Prop} {a : Db} (now : Int) : ∀ (ks : List Bytes) {b : Db} (n : Nat),
    Fr P a b → Fr P a (existsLoop now b ks n).2
| [], _, _, h => h
| k :: ks, _, _, h => by
  unfold Exec.existsLoop; dsimp only
  exact Fr.existsLoop now ks _ (h.ttl now k)

theorem Fr.incrBy {a b : Db} (h : Fr IsStr a b) (env : Env) (k : Bytes) (d : Int) : Fr IsStr a (incrBy env b k d).2 := by
  unfold Exec.incrBy; fr_cmd

macro "fr_str" : tactic => `(tactic| repeat' (first
  | fr_close
  | (refine Fr.mgetLoop _ _ _ ?_; fr_close)
  | (refine Fr.msetLoop _ ?_; fr_close)
  | (refine Fr.delLoop _ _ _ ?_; fr_close)
  | (refine Fr.existsLoop _ _ _ ?_; fr_close)
  | (refine Fr.incrBy ?_ _ _ _; fr_close)
  | dsimp only | split))

theorem f_set : CmdFr IsStr cmdSet := by intro env db args; unfold cmdSet; fr_cmd
theorem f_get : CmdFr IsStr cmdGet := by intro env db args; unfold cmdGet; fr_cmd
theorem f_getrange : CmdFr IsStr cmdGetRange := by intro env db args; unfold cmdGetRange; fr_cmd
theorem f_setrange : CmdFr IsStr cmdSetRange := by intro env db args; unfold cmdSetRange; fr_cmd
theorem f_mget : CmdFr IsStr cmdMGet := by intro env db args; unfold cmdMGet; fr_str
theorem f_mset : CmdFr IsStr cmdMSet := by intro env db args; unfold cmdMSet; fr_str
theorem f_setex : CmdFr IsStr cmdSetEx := by intro env db args; unfold cmdSetEx; fr_cmd
theorem f_setnx : CmdFr IsStr cmdSetNx := by intro env db args; unfold cmdSetNx; fr_cmd
theorem f_strlen : CmdFr IsStr cmdStrLen := by intro env db args; unfold cmdStrLen; fr_cmd
theorem f_incr : CmdFr IsStr cmdIncr := by intro env db args; unfold cmdIncr; fr_str
theorem f_incrby : CmdFr IsStr cmdIncrBy := by intro env db args; unfold cmdIncrBy; fr_str
theorem f_decr : CmdFr IsStr cmdDecr := by intro env db args; unfold cmdDecr; fr_str
theorem f_decrby : CmdFr IsStr cmdDecrBy := by intro env db args; unfold cmdDecrBy; fr_str
theorem f_incrbyfloat : CmdFr IsStr cmdIncrByFloat := by intro env db args; unfold cmdIncrByFloat; fr_cmd
theorem f_append : CmdFr IsStr cmdAppend := by intro env db args; unfold cmdAppend; fr_cmd
theorem f_ping : CmdFr IsStr cmdPing := by intro env db args; unfold cmdPing; fr_cmd
theorem f_del : CmdFr IsStr cmdDel := by intro env db args; unfold cmdDel; fr_str
theorem f_exists : CmdFr IsStr cmdExists := by intro env db args; unfold cmdExists; fr_str
theorem f_keys : CmdFr IsStr cmdKeys := by intro env db args; unfold cmdKeys; fr_cmd
theorem f_expire : CmdFr IsStr cmdExpire := by intro env db args; unfold cmdExpire; fr_cmd
theorem f_persist : CmdFr IsStr cmdPersist := by intro env db args; unfold cmdPersist; fr_cmd
theorem f_ttl : CmdFr IsStr cmdTTL := by intro env db args; unfold cmdTTL; fr_cmd
theorem f_type : CmdFr IsStr cmdType := by intro env db args; unfold cmdType; fr_cmd
theorem f_rename : CmdFr IsStr cmdRename := by intro env db args; unfold cmdRename; fr_cmd

theorem string_fr : ∀ p ∈ stringKeyTable, CmdFr IsStr p.2 :=
  List.forall_mem_cons.mpr ⟨f_set, List.forall_mem_cons.mpr ⟨f_get, List.forall_mem_cons.mpr ⟨f_getrange, List.forall_mem_cons.mpr ⟨f_setrange, List.forall_mem_cons.mpr ⟨f_mget, List.forall_mem_cons.mpr ⟨f_mset, List.forall_mem_cons.mpr ⟨f_setex, List.forall_mem_cons.mpr ⟨f_setnx, List.forall_mem_cons.mpr ⟨f_strlen, List.forall_mem_cons.mpr ⟨f_incr, List.forall_mem_cons.mpr ⟨f_incrby, List.forall_mem_cons.mpr ⟨f_decr, List.forall_mem_cons.mpr ⟨f_decrby, List.forall_mem_cons.mpr ⟨f_incrbyfloat, List.forall_mem_cons.mpr ⟨f_append, List.forall_mem_cons.mpr ⟨f_ping, List.forall_mem_cons.mpr ⟨f_del, List.forall_mem_cons.mpr ⟨f_exists, List.forall_mem_cons.mpr ⟨f_keys, List.forall_mem_cons.mpr ⟨f_expire, List.forall_mem_cons.mpr ⟨f_persist, List.forall_mem_cons.mpr ⟨f_ttl, List.forall_mem_cons.mpr ⟨f_type, List.forall_mem_cons.mpr ⟨f_rename, fun _ h => nomatch h⟩⟩⟩⟩⟩⟩⟩⟩⟩⟩⟩⟩⟩⟩⟩⟩⟩⟩⟩⟩⟩⟩⟩⟩

/-! ### misc: the keyspace is returned as it was -/

theorem f_publish : CmdFr IsStr cmdPublishNoSubs := by intro env db args; unfold cmdPublishNoSubs; fr_cmd
theorem f_member : CmdFr IsStr cmdMemberStandalone := by intro env db args; unfold cmdMemberStandalone; fr_cmd
theorem f_rconf : CmdFr IsStr cmdRconfStandalone := by intro env db args; unfold cmdRconfStandalone; fr_cmd

theorem misc_fr : ∀ p ∈ miscTable, CmdFr IsStr p.2 :=
  List.forall_mem_cons.mpr ⟨f_publish, List.forall_mem_cons.mpr ⟨f_member, List.forall_mem_cons.mpr ⟨f_rconf, fun _ h => nomatch h⟩⟩⟩

/-! ### sets -/

theorem f_sadd : CmdFr IsSet cmdSAdd := by intro env db args; unfold cmdSAdd; fr_cmd
theorem f_srem : CmdFr IsSet cmdSRem := by intro env db args; unfold cmdSRem; fr_cmd
theorem f_sismember : CmdFr IsSet cmdSIsMember := by intro env db args; unfold cmdSIsMember; fr_cmd
theorem f_scard : CmdFr IsSet cmdSCard := by intro env db args; unfold cmdSCard; fr_cmd
theorem f_smembers : CmdFr IsSet cmdSMembers := by intro env db args; unfold cmdSMembers; fr_cmd
theorem f_smove : CmdFr IsSet cmdSMove := by intro env db args; unfold cmdSMove; fr_cmd
theorem f_spop : CmdFr IsSet cmdSPop := by intro env db args; unfold cmdSPop; fr_cmd
theorem f_srandmember : CmdFr IsSet cmdSRandMember := by intro env db args; unfold cmdSRandMember; fr_cmd
theorem f_algebra (op : List SetOps.MSet → SetOps.MSet) : CmdFr IsSet (algebra op) := by intro env db args; unfold algebra; fr_cmd
theorem f_algebraStore (op : List SetOps.MSet → SetOps.MSet) : CmdFr IsSet (algebraStore op) := by
  intro env db args; unfold algebraStore; fr_cmd

theorem set_fr : ∀ p ∈ setTable, CmdFr IsSet p.2 :=
  List.forall_mem_cons.mpr ⟨f_sadd, List.forall_mem_cons.mpr ⟨f_srem, List.forall_mem_cons.mpr ⟨f_sismember, List.forall_mem_cons.mpr ⟨f_scard, List.forall_mem_cons.mpr ⟨f_smembers, List.forall_mem_cons.mpr ⟨f_smove, List.forall_mem_cons.mpr ⟨f_spop, List.forall_mem_cons.mpr ⟨f_srandmember, List.forall_mem_cons.mpr ⟨f_algebra _, List.forall_mem_cons.mpr ⟨f_algebra _, List.forall_mem_cons.mpr ⟨f_algebra _, List.forall_mem_cons.mpr ⟨f_algebraStore _, List.forall_mem_cons.mpr ⟨f_algebraStore _, List.forall_mem_cons.mpr ⟨f_algebraStore _, fun _ h => nomatch h⟩⟩⟩⟩⟩⟩⟩⟩⟩⟩⟩⟩⟩⟩

/-! ### hashes -/

theorem Fr.hashRead {a b : Db} (h : Fr IsHash a b) (env : Env) (k : Bytes) (body : HashT → Reply) :
    Fr IsHash a (hashRead env b k body).2 := by
  unfold Exec.hashRead; fr_cmd

theorem Fr.hashWrite {a b : Db} (h : Fr IsHash a b) (env : Env) (k : Bytes) (body : HashT → Reply × HashT) :
    Fr IsHash a (hashWrite env b k body).2 := by
  unfold Exec.hashWrite; fr_cmd

theorem Fr.hrandWithCount {a b : Db} (h : Fr IsHash a b) (env : Env) (k c : Bytes) (wv : Bool) :
    Fr IsHash a (hrandWithCount env b k c wv).2 := by
  unfold Exec.hrandWithCount
  repeat' (first | fr_close | (refine Fr.hashRead ?_ _ _ _; fr_close) | dsimp only | split)

macro "fr_hash" : tactic => `(tactic| repeat' (first
  | fr_close
  | (refine Fr.hashRead ?_ _ _ _; fr_close)
  | (refine Fr.hashWrite ?_ _ _ _; fr_close)
  | (refine Fr.hrandWithCount ?_ _ _ _ _; fr_close)
  | dsimp only | split))

theorem f_hset : CmdFr IsHash cmdHSet := by intro env db args; unfold cmdHSet; fr_hash
theorem f_hsetnx : CmdFr IsHash cmdHSetNx := by intro env db args; unfold cmdHSetNx; fr_hash
theorem f_hget : CmdFr IsHash cmdHGet := by intro env db args; unfold cmdHGet; fr_hash
theorem f_hmget : CmdFr IsHash cmdHMGet := by intro env db args; unfold cmdHMGet; fr_hash
theorem f_hgetall : CmdFr IsHash cmdHGetAll := by intro env db args; unfold cmdHGetAll; fr_hash
theorem f_hkeys : CmdFr IsHash cmdHKeys := by intro env db args; unfold cmdHKeys; fr_hash
theorem f_hvals : CmdFr IsHash cmdHVals := by intro env db args; unfold cmdHVals; fr_hash
theorem f_hlen : CmdFr IsHash cmdHLen := by intro env db args; unfold cmdHLen; fr_hash
theorem f_hexists : CmdFr IsHash cmdHExists := by intro env db args; unfold cmdHExists; fr_hash
theorem f_hstrlen : CmdFr IsHash cmdHStrLen := by intro env db args; unfold cmdHStrLen; fr_hash
theorem f_hdel : CmdFr IsHash cmdHDel := by intro env db args; unfold cmdHDel; fr_hash
theorem f_hincrby : CmdFr IsHash cmdHIncrBy := by intro env db args; unfold cmdHIncrBy; fr_hash
theorem f_hincrbyfloat : CmdFr IsHash cmdHIncrByFloat := by intro env db args; unfold cmdHIncrByFloat; fr_hash
theorem f_hrandfield : CmdFr IsHash cmdHRandField := by intro env db args; unfold cmdHRandField; fr_hash

theorem hash_fr : ∀ p ∈ hashTable, CmdFr IsHash p.2 :=
  List.forall_mem_cons.mpr ⟨f_hset, List.forall_mem_cons.mpr ⟨f_hsetnx, List.forall_mem_cons.mpr ⟨f_hget, List.forall_mem_cons.mpr ⟨f_hmget, List.forall_mem_cons.mpr ⟨f_hgetall, List.forall_mem_cons.mpr ⟨f_hkeys, List.forall_mem_cons.mpr ⟨f_hvals, List.forall_mem_cons.mpr ⟨f_hlen, List.forall_mem_cons.mpr ⟨f_hexists, List.forall_mem_cons.mpr ⟨f_hstrlen, List.forall_mem_cons.mpr ⟨f_hdel, List.forall_mem_cons.mpr ⟨f_hincrby, List.forall_mem_cons.mpr ⟨f_hincrbyfloat, List.forall_mem_cons.mpr ⟨f_hrandfield, fun _ h => nomatch h⟩⟩⟩⟩⟩⟩⟩⟩⟩⟩⟩⟩⟩⟩

/-! ### lists -/

theorem Fr.bpopScan {a : Db} (left : Bool) (now : Int) : ∀ (keys : List Bytes) {b : Db}, Fr IsList a b → Fr IsList a (bpopScan left now b keys).2
| [], _, h => h
| k :: ks, _, h => by
  unfold Exec.bpopScan; dsimp only
  split
  · exact Fr.bpopScan left now ks (h.ttl now k)
  · exact h.ttl now k
  · split
    · exact Fr.bpopScan left now ks (h.ttl now k)
    · exact (h.ttl now k).putList k _

theorem f_pushGen (l x : Bool) : CmdFr IsList (pushGen l x) := by intro env db args; unfold pushGen; fr_cmd
theorem f_popGen (l : Bool) : CmdFr IsList (popGen l) := by intro env db args; unfold popGen; fr_cmd
theorem f_llen : CmdFr IsList cmdLLen := by intro env db args; unfold cmdLLen; fr_cmd
theorem f_lindex : CmdFr IsList cmdLIndex := by intro env db args; unfold cmdLIndex; fr_cmd
theorem f_lset : CmdFr IsList cmdLSet := by intro env db args; unfold cmdLSet; fr_cmd
theorem f_lrange : CmdFr IsList cmdLRange := by intro env db args; unfold cmdLRange; fr_cmd
theorem f_ltrim : CmdFr IsList cmdLTrim := by intro env db args; unfold cmdLTrim; fr_cmd
theorem f_lrem : CmdFr IsList cmdLRem := by intro env db args; unfold cmdLRem; fr_cmd
theorem f_lpos : CmdFr IsList cmdLPos := by intro env db args; unfold cmdLPos; fr_cmd
theorem f_lmove : CmdFr IsList cmdLMove := by intro env db args; unfold cmdLMove; fr_cmd
theorem f_bpopGen (l : Bool) : CmdFr IsList (bpopGen l) := by
  intro env db args; unfold bpopGen
  repeat' (first | fr_close | (refine Fr.ofEqSnd (by assumption) ?_; refine Fr.bpopScan _ _ _ ?_; fr_close) | dsimp only | split)

theorem list_fr : ∀ p ∈ listTable, CmdFr IsList p.2 :=
  List.forall_mem_cons.mpr ⟨f_llen, List.forall_mem_cons.mpr ⟨f_lindex, List.forall_mem_cons.mpr ⟨f_lpos, List.forall_mem_cons.mpr ⟨f_popGen _, List.forall_mem_cons.mpr ⟨f_popGen _, List.forall_mem_cons.mpr ⟨f_pushGen _ _, List.forall_mem_cons.mpr ⟨f_pushGen _ _, List.forall_mem_cons.mpr ⟨f_pushGen _ _, List.forall_mem_cons.mpr ⟨f_pushGen _ _, List.forall_mem_cons.mpr ⟨f_lset, List.forall_mem_cons.mpr ⟨f_lrem, List.forall_mem_cons.mpr ⟨f_ltrim, List.forall_mem_cons.mpr ⟨f_lrange, List.forall_mem_cons.mpr ⟨f_lmove, List.forall_mem_cons.mpr ⟨f_bpopGen _, List.forall_mem_cons.mpr ⟨f_bpopGen _, fun _ h => nomatch h⟩⟩⟩⟩⟩⟩⟩⟩⟩⟩⟩⟩⟩⟩⟩⟩

/-! ### sorted sets -/

theorem f_zadd : CmdFr IsZSet cmdZAdd := by intro env db args; unfold cmdZAdd; fr_cmd
theorem f_zrem : CmdFr IsZSet cmdZRem := by intro env db args; unfold cmdZRem; fr_cmd
theorem f_zrange : CmdFr IsZSet cmdZRange := by intro env db args; unfold cmdZRange; fr_cmd
theorem f_zrank : CmdFr IsZSet cmdZRank := by intro env db args; unfold cmdZRank; fr_cmd

theorem zset_fr : ∀ p ∈ zsetTable, CmdFr IsZSet p.2 :=
  List.forall_mem_cons.mpr ⟨f_zadd, List.forall_mem_cons.mpr ⟨f_zrem, List.forall_mem_cons.mpr ⟨f_zrange, List.forall_mem_cons.mpr ⟨f_zrank, fun _ h => nomatch h⟩⟩⟩⟩

/-! ### streams -/

theorem Fr.xaddTo {a b : Db} (h : Fr IsStream a b) (env : Env) (k : Bytes) (o : XaddOpts) (req : IdReq) (fields : List Bytes)
    (s : List StreamEntry) (last : StreamId) : Fr IsStream a (xaddTo env b k o req fields s last).2 := by
  unfold Exec.xaddTo; fr_cmd

theorem f_xadd : CmdFr IsStream cmdXAdd := by
  intro env db args; unfold cmdXAdd
  repeat' (first | fr_close | (refine Fr.xaddTo ?_ _ _ _ _ _ _ _; fr_close) | dsimp only | split)
theorem f_xrange : CmdFr IsStream cmdXRange := by intro env db args; unfold cmdXRange; fr_cmd

theorem stream_fr : ∀ p ∈ streamTable, CmdFr IsStream p.2 :=
  List.forall_mem_cons.mpr ⟨f_xadd, List.forall_mem_cons.mpr ⟨f_xrange, fun _ h => nomatch h⟩⟩

end Exec.Global
