import RedisGoModel.Props.C06TBase
/-! C06 table congruence: string and generic key commands -/
namespace Exec.C06T
open Resp (Reply Bytes)
open Exec

theorem c_get : CmdOk cmdGet := by
  intro env a b args hs; unfold cmdGet; c06_cmd1 hs
theorem c_append : CmdOk cmdAppend := by
  intro env a b args hs; unfold cmdAppend; c06_cmd1 hs
theorem c_set : CmdOk cmdSet := by
  intro env a b args hs; unfold cmdSet; c06_cmd1 hs
theorem c_getrange : CmdOk cmdGetRange := by
  intro env a b args hs; unfold cmdGetRange; c06_cmd1 hs
theorem c_setrange : CmdOk cmdSetRange := by
  intro env a b args hs; unfold cmdSetRange; c06_cmd1 hs
theorem c_strlen : CmdOk cmdStrLen := by
  intro env a b args hs; unfold cmdStrLen; c06_cmd1 hs
theorem c_setex : CmdOk cmdSetEx := by
  intro env a b args hs; unfold cmdSetEx; c06_cmd1 hs
theorem c_setnx : CmdOk cmdSetNx := by
  intro env a b args hs; unfold cmdSetNx; c06_cmd1 hs

theorem c_incrBy_aux (env : Env) (a b : Db) (k : Bytes) (d : Int) (hs : Sim env.now a b) :
    Res env.now (incrBy env a k d) (incrBy env b k d) := by
  unfold incrBy; c06_cmd1 hs

theorem c_incr : CmdOk cmdIncr := by
  intro env a b args hs; unfold cmdIncr; split
  · exact c_incrBy_aux _ _ _ _ _ hs
  · c06_pair
theorem c_decr : CmdOk cmdDecr := by
  intro env a b args hs; unfold cmdDecr; split
  · exact c_incrBy_aux _ _ _ _ _ hs
  · c06_pair
theorem c_incrby : CmdOk cmdIncrBy := by
  intro env a b args hs; unfold cmdIncrBy
  repeat' (first | c06_pair | exact c_incrBy_aux _ _ _ _ _ hs | split)
theorem c_decrby : CmdOk cmdDecrBy := by
  intro env a b args hs; unfold cmdDecrBy
  repeat' (first | c06_pair | exact c_incrBy_aux _ _ _ _ _ hs | split)
theorem c_incrbyfloat : CmdOk cmdIncrByFloat := by
  intro env a b args hs; unfold cmdIncrByFloat; c06_cmd1 hs
theorem c_expire : CmdOk cmdExpire := by
  intro env a b args hs; unfold cmdExpire; c06_cmd1 hs
theorem c_persist : CmdOk cmdPersist := by
  intro env a b args hs; unfold cmdPersist; c06_cmd1 hs
theorem c_ttl : CmdOk cmdTTL := by
  intro env a b args hs; unfold cmdTTL; c06_cmd1 hs
theorem c_type : CmdOk cmdType := by
  intro env a b args hs; unfold cmdType; c06_cmd1 hs
theorem c_rename : CmdOk cmdRename := by
  intro env a b args hs; unfold cmdRename; c06_cmd1 hs
theorem c_ping : CmdOk cmdPing := by
  intro env a b args hs; unfold cmdPing; c06_cmd1 hs

/-! ### key loops -/

theorem c_mgetLoop (now : Int) (ks : List Bytes) : ∀ (a b : Db) (acc : List Reply), Sim now a b →
    (mgetLoop now a ks acc).1 = (mgetLoop now b ks acc).1 ∧ Sim now (mgetLoop now a ks acc).2 (mgetLoop now b ks acc).2 := by
  induction ks with
  | nil => intro a b acc hs; exact ⟨rfl, hs⟩
  | cons k ks ih =>
    intro a b acc hs
    unfold mgetLoop
    c06_ttl hs k
    exact ih _ _ _ ‹_›

theorem c_mget : CmdOk cmdMGet := by
  intro env a b args hs; unfold cmdMGet; split
  · rename_i k ks
    have h := c_mgetLoop env.now (k :: ks) a b [] hs
    revert h
    generalize mgetLoop env.now a (k :: ks) [] = pa
    generalize mgetLoop env.now b (k :: ks) [] = pb
    intro h
    exact ⟨by simp only [h.1], h.2⟩
  · c06_pair

theorem c_msetLoop (now : Int) : ∀ (n : Nat) (l : List Bytes), l.length ≤ n → ∀ (a b : Db), Sim now a b →
    Sim now (msetLoop a l) (msetLoop b l) := by
  intro n
  induction n with
  | zero =>
    intro l hl a b hs
    match l, hl with
    | [], _ => unfold msetLoop; exact hs
  | succ n ih =>
    intro l hl a b hs
    match l, hl with
    | [], _ => unfold msetLoop; exact hs
    | [_], _ => unfold msetLoop; exact hs
    | k :: v :: rest, hl =>
      unfold msetLoop
      exact ih rest (by simp at hl; omega) _ _ (hs.setFresh k _)

theorem c_mset : CmdOk cmdMSet := by
  intro env a b args hs; unfold cmdMSet; split
  · split
    · c06_pair
    · exact ⟨rfl, c_msetLoop _ _ _ (Nat.le_refl _) _ _ hs⟩
  · c06_pair

theorem c_delLoop (now : Int) (ks : List Bytes) : ∀ (a b : Db) (n : Nat), Sim now a b →
    (delLoop now a ks n).1 = (delLoop now b ks n).1 ∧ Sim now (delLoop now a ks n).2 (delLoop now b ks n).2 := by
  induction ks with
  | nil => intro a b n hs; exact ⟨rfl, hs⟩
  | cons k ks ih =>
    intro a b n hs
    unfold delLoop
    c06_ttl hs k
    split
    · exact ih _ _ _ (Sim.del ‹_› k)
    · exact ih _ _ _ ‹_›

theorem c_del : CmdOk cmdDel := by
  intro env a b args hs; unfold cmdDel; split
  · rename_i k ks
    have h := c_delLoop env.now (k :: ks) a b 0 hs
    revert h
    generalize delLoop env.now a (k :: ks) 0 = pa
    generalize delLoop env.now b (k :: ks) 0 = pb
    intro h
    exact ⟨by simp only [h.1], h.2⟩
  · c06_pair

theorem c_existsLoop (now : Int) (ks : List Bytes) : ∀ (a b : Db) (n : Nat), Sim now a b →
    (existsLoop now a ks n).1 = (existsLoop now b ks n).1 ∧ Sim now (existsLoop now a ks n).2 (existsLoop now b ks n).2 := by
  induction ks with
  | nil => intro a b n hs; exact ⟨rfl, hs⟩
  | cons k ks ih =>
    intro a b n hs
    unfold existsLoop
    c06_ttl hs k
    exact ih _ _ _ ‹_›

theorem c_exists : CmdOk cmdExists := by
  intro env a b args hs; unfold cmdExists; split
  · rename_i k ks
    have h := c_existsLoop env.now (k :: ks) a b 0 hs
    revert h
    generalize existsLoop env.now a (k :: ks) 0 = pa
    generalize existsLoop env.now b (k :: ks) 0 = pb
    intro h
    exact ⟨by simp only [h.1], h.2⟩
  · c06_pair

end Exec.C06T
