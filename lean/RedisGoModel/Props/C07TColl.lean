import RedisGoModel.Props.C07Base
/-! C07 determinism obligations: hash, set and list commands -/
namespace Exec.C07
open Resp (Reply Bytes)
open Exec

/-! ### hash -/

theorem d_hset : CmdDet "hset" cmdHSet := by
  intro n1 n2 o1 o2 fl db args h _; unfold cmdHSet hashWrite; c07_cmd h

theorem d_hsetnx : CmdDet "hsetnx" cmdHSetNx := by
  intro n1 n2 o1 o2 fl db args h _; unfold cmdHSetNx hashWrite; c07_cmd h

theorem d_hget : CmdDet "hget" cmdHGet := by
  intro n1 n2 o1 o2 fl db args h _; unfold cmdHGet hashRead; c07_cmd h

theorem d_hmget : CmdDet "hmget" cmdHMGet := by
  intro n1 n2 o1 o2 fl db args h _; unfold cmdHMGet hashRead; c07_cmd h

theorem d_hgetall : CmdDet "hgetall" cmdHGetAll := by
  intro n1 n2 o1 o2 fl db args h _; unfold cmdHGetAll hashRead; c07_cmd h

theorem d_hkeys : CmdDet "hkeys" cmdHKeys := by
  intro n1 n2 o1 o2 fl db args h _; unfold cmdHKeys hashRead; c07_cmd h

theorem d_hvals : CmdDet "hvals" cmdHVals := by
  intro n1 n2 o1 o2 fl db args h _; unfold cmdHVals hashRead; c07_cmd h

theorem d_hlen : CmdDet "hlen" cmdHLen := by
  intro n1 n2 o1 o2 fl db args h _; unfold cmdHLen hashRead; c07_cmd h

theorem d_hexists : CmdDet "hexists" cmdHExists := by
  intro n1 n2 o1 o2 fl db args h _; unfold cmdHExists hashRead; c07_cmd h

theorem d_hstrlen : CmdDet "hstrlen" cmdHStrLen := by
  intro n1 n2 o1 o2 fl db args h _; unfold cmdHStrLen hashRead; c07_cmd h

theorem d_hdel : CmdDet "hdel" cmdHDel := by
  intro n1 n2 o1 o2 fl db args h _; unfold cmdHDel hashWrite; c07_cmd h

theorem d_hincrby : CmdDet "hincrby" cmdHIncrBy := by
  intro n1 n2 o1 o2 fl db args h _; unfold cmdHIncrBy hashWrite; c07_cmd h

theorem d_hincrbyfloat : CmdDet "hincrbyfloat" cmdHIncrByFloat := fun _ _ _ _ _ _ _ _ hd => absurd (by decide) hd.notRandom
theorem d_hrandfield : CmdDet "hrandfield" cmdHRandField := fun _ _ _ _ _ _ _ _ hd => absurd (by decide) hd.notRandom

/-! ### set -/

theorem d_sadd : CmdDet "sadd" cmdSAdd := by
  intro n1 n2 o1 o2 fl db args h _; unfold cmdSAdd ; c07_cmd h

theorem d_srem : CmdDet "srem" cmdSRem := by
  intro n1 n2 o1 o2 fl db args h _; unfold cmdSRem ; c07_cmd h

theorem d_sismember : CmdDet "sismember" cmdSIsMember := by
  intro n1 n2 o1 o2 fl db args h _; unfold cmdSIsMember ; c07_cmd h

theorem d_scard : CmdDet "scard" cmdSCard := by
  intro n1 n2 o1 o2 fl db args h _; unfold cmdSCard ; c07_cmd h

theorem d_smembers : CmdDet "smembers" cmdSMembers := by
  intro n1 n2 o1 o2 fl db args h _; unfold cmdSMembers ; c07_cmd h

theorem d_smove : CmdDet "smove" cmdSMove := by
  intro n1 n2 o1 o2 fl db args h _; unfold cmdSMove ; c07_cmd h

theorem d_sunion : CmdDet "sunion" cmdSUnion := by
  intro n1 n2 o1 o2 fl db args h _; unfold cmdSUnion algebra; c07_cmd h

theorem d_sinter : CmdDet "sinter" cmdSInter := by
  intro n1 n2 o1 o2 fl db args h _; unfold cmdSInter algebra; c07_cmd h

theorem d_sdiff : CmdDet "sdiff" cmdSDiff := by
  intro n1 n2 o1 o2 fl db args h _; unfold cmdSDiff algebra; c07_cmd h

theorem d_sunionstore : CmdDet "sunionstore" cmdSUnionStore := by
  intro n1 n2 o1 o2 fl db args h _; unfold cmdSUnionStore algebraStore; c07_cmd h

theorem d_sinterstore : CmdDet "sinterstore" cmdSInterStore := by
  intro n1 n2 o1 o2 fl db args h _; unfold cmdSInterStore algebraStore; c07_cmd h

theorem d_sdiffstore : CmdDet "sdiffstore" cmdSDiffStore := by
  intro n1 n2 o1 o2 fl db args h _; unfold cmdSDiffStore algebraStore; c07_cmd h

theorem d_spop : CmdDet "spop" cmdSPop := fun _ _ _ _ _ _ _ _ hd => absurd (by decide) hd.notRandom
theorem d_srandmember : CmdDet "srandmember" cmdSRandMember := fun _ _ _ _ _ _ _ _ hd => absurd (by decide) hd.notRandom

/-! ### list -/

theorem d_llen : CmdDet "llen" cmdLLen := by
  intro n1 n2 o1 o2 fl db args h _; unfold cmdLLen ; c07_cmd h

theorem d_lindex : CmdDet "lindex" cmdLIndex := by
  intro n1 n2 o1 o2 fl db args h _; unfold cmdLIndex ; c07_cmd h

theorem d_lpos : CmdDet "lpos" cmdLPos := by
  intro n1 n2 o1 o2 fl db args h _; unfold cmdLPos ; c07_cmd h

theorem d_lpop : CmdDet "lpop" cmdLPop := by
  intro n1 n2 o1 o2 fl db args h _; unfold cmdLPop popGen; c07_cmd h

theorem d_rpop : CmdDet "rpop" cmdRPop := by
  intro n1 n2 o1 o2 fl db args h _; unfold cmdRPop popGen; c07_cmd h

theorem d_lpush : CmdDet "lpush" cmdLPush := by
  intro n1 n2 o1 o2 fl db args h _; unfold cmdLPush pushGen; c07_cmd h

theorem d_lpushx : CmdDet "lpushx" cmdLPushX := by
  intro n1 n2 o1 o2 fl db args h _; unfold cmdLPushX pushGen; c07_cmd h

theorem d_rpush : CmdDet "rpush" cmdRPush := by
  intro n1 n2 o1 o2 fl db args h _; unfold cmdRPush pushGen; c07_cmd h

theorem d_rpushx : CmdDet "rpushx" cmdRPushX := by
  intro n1 n2 o1 o2 fl db args h _; unfold cmdRPushX pushGen; c07_cmd h

theorem d_lset : CmdDet "lset" cmdLSet := by
  intro n1 n2 o1 o2 fl db args h _; unfold cmdLSet ; c07_cmd h

theorem d_lrem : CmdDet "lrem" cmdLRem := by
  intro n1 n2 o1 o2 fl db args h _; unfold cmdLRem ; c07_cmd h

theorem d_ltrim : CmdDet "ltrim" cmdLTrim := by
  intro n1 n2 o1 o2 fl db args h _; unfold cmdLTrim ; c07_cmd h

theorem d_lrange : CmdDet "lrange" cmdLRange := by
  intro n1 n2 o1 o2 fl db args h _; unfold cmdLRange ; c07_cmd h

theorem d_lmove : CmdDet "lmove" cmdLMove := by
  intro n1 n2 o1 o2 fl db args h _; unfold cmdLMove ; c07_cmd h


theorem d_bpopScan (left : Bool) (n1 n2 : Int) (ks : List Bytes) : ∀ (db : Db), NoDLp db →
    bpopScan left n1 db ks = bpopScan left n2 db ks ∧ NoDLp (bpopScan left n1 db ks).2 := by
  induction ks with
  | nil => intro db h; exact ⟨rfl, h⟩
  | cons k ks ih =>
    intro db h
    simp only [bpopScan, checkTTL_nodl h]
    split
    · exact ih db h
    · exact ⟨rfl, h⟩
    · split
      · exact ih db h
      · exact ⟨rfl, h.putList k _⟩

theorem d_bpopGen (left : Bool) (s : String) : CmdDet s (bpopGen left) := by
  intro n1 n2 o1 o2 fl db args h _; unfold bpopGen
  have hl := fun ks => d_bpopScan left n1 n2 ks db h
  refine ⟨?_, ?_⟩
  · simp only [(hl _).1]
  · repeat' (first | c07_nodl | split)
    all_goals exact (congrArg (fun x : Option Reply × Db => NoDLp x.2) ‹bpopScan left _ db _ = _›).mp (hl _).2

theorem d_blpop : CmdDet "blpop" cmdBLPop := d_bpopGen true _
theorem d_brpop : CmdDet "brpop" cmdBRPop := d_bpopGen false _

end Exec.C07
