import RedisGoModel.Props.C07Base
/-! C07 determinism obligations: string, generic key and misc commands -/
namespace Exec.C07
open Resp (Reply Bytes)
open Exec

theorem d_get : CmdDet "get" cmdGet := by
  intro n1 n2 o1 o2 fl db args h _; unfold cmdGet; c07_cmd h
theorem d_getrange : CmdDet "getrange" cmdGetRange := by
  intro n1 n2 o1 o2 fl db args h _; unfold cmdGetRange; c07_cmd h
theorem d_setrange : CmdDet "setrange" cmdSetRange := by
  intro n1 n2 o1 o2 fl db args h _; unfold cmdSetRange; c07_cmd h
theorem d_strlen : CmdDet "strlen" cmdStrLen := by
  intro n1 n2 o1 o2 fl db args h _; unfold cmdStrLen; c07_cmd h
theorem d_append : CmdDet "append" cmdAppend := by
  intro n1 n2 o1 o2 fl db args h _; unfold cmdAppend; c07_cmd h
theorem d_setnx : CmdDet "setnx" cmdSetNx := by
  intro n1 n2 o1 o2 fl db args h _; unfold cmdSetNx; c07_cmd h
theorem d_incr : CmdDet "incr" cmdIncr := by
  intro n1 n2 o1 o2 fl db args h _; unfold cmdIncr incrBy; c07_cmd h
theorem d_decr : CmdDet "decr" cmdDecr := by
  intro n1 n2 o1 o2 fl db args h _; unfold cmdDecr incrBy; c07_cmd h
theorem d_incrby : CmdDet "incrby" cmdIncrBy := by
  intro n1 n2 o1 o2 fl db args h _; unfold cmdIncrBy incrBy; c07_cmd h
theorem d_decrby : CmdDet "decrby" cmdDecrBy := by
  intro n1 n2 o1 o2 fl db args h _; unfold cmdDecrBy incrBy; c07_cmd h
theorem d_ping : CmdDet "ping" cmdPing := by
  intro n1 n2 o1 o2 fl db args h _; unfold cmdPing; c07_cmd h
theorem d_persist : CmdDet "persist" cmdPersist := by
  intro n1 n2 o1 o2 fl db args h _; unfold cmdPersist; c07_cmd h
theorem d_type : CmdDet "type" cmdType := by
  intro n1 n2 o1 o2 fl db args h _; unfold cmdType; c07_cmd h
theorem d_rename : CmdDet "rename" cmdRename := by
  intro n1 n2 o1 o2 fl db args h _; unfold cmdRename; c07_cmd h
theorem d_keys : CmdDet "keys" cmdKeys := by
  intro n1 n2 o1 o2 fl db args h _; unfold cmdKeys; c07_cmd h
theorem d_publish : CmdDet "publish" cmdPublishNoSubs := by
  intro n1 n2 o1 o2 fl db args h _; unfold cmdPublishNoSubs; c07_cmd h
theorem d_member : CmdDet "member" cmdMemberStandalone := by
  intro n1 n2 o1 o2 fl db args h _; unfold cmdMemberStandalone; c07_cmd h
theorem d_rconf : CmdDet "rconf" cmdRconfStandalone := by
  intro n1 n2 o1 o2 fl db args h _; unfold cmdRconfStandalone; c07_cmd h

theorem d_ttl : CmdDet "ttl" cmdTTL := by
  intro n1 n2 o1 o2 fl db args h _; unfold cmdTTL
  refine ⟨?_, ?_⟩
  · simp only [checkTTL_nodl h]
    split
    · split
      · rfl
      · rename_i e hg; simp only [h.get hg]
    · rfl
  · simp only [checkTTL_nodl h]
    repeat' (first | c07_nodl | split)

/-! vacuous: excluded by the classification -/
theorem d_setex : CmdDet "setex" cmdSetEx := fun _ _ _ _ _ _ _ _ hd => absurd (by decide) hd.notClock
theorem d_expire : CmdDet "expire" cmdExpire := fun _ _ _ _ _ _ _ _ hd => absurd (by decide) hd.notClock
theorem d_incrbyfloat : CmdDet "incrbyfloat" cmdIncrByFloat := fun _ _ _ _ _ _ _ _ hd => absurd (by decide) hd.notRandom

/-! ### SET without an expiry option -/

theorem setDeadline_det {o : SetOpts} (h : (o.ex.isNone && o.px.isNone && o.exat.isNone) = true) (now : Int) :
    setDeadline o now = some none := by
  simp only [Bool.and_eq_true, Option.isNone_iff_eq_none] at h
  unfold setDeadline
  rw [h.1.1, h.1.2, h.2]

theorem d_set : CmdDet "set" cmdSet := by
  intro n1 n2 o1 o2 fl db args h hd
  have hs := hd.set rfl
  unfold cmdSet
  split
  · rename_i k v opts
    simp only [setDet] at hs
    split
    · exact ⟨rfl, h⟩
    · rename_i o ho
      rw [ho] at hs
      simp only [setDeadline_det hs, checkTTL_nodl h]
      refine ⟨trivial, ?_⟩
      repeat' (first | c07_nodl | split)
  · exact ⟨rfl, h⟩

/-! ### key loops -/

theorem d_mgetLoop (n1 n2 : Int) (ks : List Bytes) : ∀ (db : Db) (acc : List Reply), NoDLp db →
    mgetLoop n1 db ks acc = mgetLoop n2 db ks acc ∧ NoDLp (mgetLoop n1 db ks acc).2 := by
  induction ks with
  | nil => intro db acc h; exact ⟨rfl, h⟩
  | cons k ks ih =>
    intro db acc h
    simp only [mgetLoop, checkTTL_nodl h]
    exact ih db _ h

theorem d_mget : CmdDet "mget" cmdMGet := by
  intro n1 n2 o1 o2 fl db args h _; unfold cmdMGet
  split
  · have hl := fun ks => d_mgetLoop n1 n2 ks db [] h
    exact ⟨by rw [(hl _).1], (hl _).2⟩
  · exact ⟨rfl, h⟩

theorem d_msetLoop : ∀ (l : List Bytes) (db : Db), NoDLp db → NoDLp (msetLoop db l)
| [], _, h => by unfold msetLoop; exact h
| [_], _, h => by unfold msetLoop; exact h
| k :: v :: rest, db, h => by unfold msetLoop; exact d_msetLoop rest _ (h.setFresh k _)

theorem d_mset : CmdDet "mset" cmdMSet := by
  intro n1 n2 o1 o2 fl db args h _; unfold cmdMSet
  refine ⟨rfl, ?_⟩
  repeat' (first | c07_nodl | exact d_msetLoop _ _ h | split)

theorem d_delLoop (n1 n2 : Int) (ks : List Bytes) : ∀ (db : Db) (n : Nat), NoDLp db →
    delLoop n1 db ks n = delLoop n2 db ks n ∧ NoDLp (delLoop n1 db ks n).2 := by
  induction ks with
  | nil => intro db n h; exact ⟨rfl, h⟩
  | cons k ks ih =>
    intro db n h
    simp only [delLoop, checkTTL_nodl h]
    split
    · exact ih _ _ (h.del k)
    · exact ih _ _ h

theorem d_del : CmdDet "del" cmdDel := by
  intro n1 n2 o1 o2 fl db args h _; unfold cmdDel
  split
  · have hl := fun ks => d_delLoop n1 n2 ks db 0 h
    exact ⟨by rw [(hl _).1], (hl _).2⟩
  · exact ⟨rfl, h⟩

theorem d_existsLoop (n1 n2 : Int) (ks : List Bytes) : ∀ (db : Db) (n : Nat), NoDLp db →
    existsLoop n1 db ks n = existsLoop n2 db ks n ∧ NoDLp (existsLoop n1 db ks n).2 := by
  induction ks with
  | nil => intro db n h; exact ⟨rfl, h⟩
  | cons k ks ih =>
    intro db n h
    simp only [existsLoop, checkTTL_nodl h]
    exact ih _ _ h

theorem d_exists : CmdDet "exists" cmdExists := by
  intro n1 n2 o1 o2 fl db args h _; unfold cmdExists
  split
  · have hl := fun ks => d_existsLoop n1 n2 ks db 0 h
    exact ⟨by rw [(hl _).1], (hl _).2⟩
  · exact ⟨rfl, h⟩

end Exec.C07
