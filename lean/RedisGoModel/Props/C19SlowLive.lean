import RedisGoModel.Conc.PubSubSlow
/-! # C19 (slow consumers): a stall only delays a Send; the reply counts exactly the deliveries

Model: `Conc/PubSubSlow.lean` (`PSS`).  Core Lean only.

* `reach_stateAt`            every state of the run of an infinite schedule is reachable.
* `reply_counts_deliveries`  in every reachable state the integer reply of a completed operation is the number of its `Dlv` records.
* `stall_only_delays_partial` under `FairTo` (fairness towards the sender, phrased with "enabled") a Send that is in its delivery loop
                             terminates, and its reply is the number of connections it delivered to.  PARTIAL: starts in the delivery loop
                             (channel lock held); the two lock acquisitions before it (p0, p3) are not covered.
* `SL.rank_own_step`, `SL.rank_act_le`, `SL.rank_le_pending`  the bound: `rank` decreases with every own enabled step, never increases under any
                             schedule entry (`act_other`: environment / other thread / disabled own step leave the thread unchanged), and is
                             at most `2 * |pending| + 1`.
* `SL.Ex.fair`               `FairTo` PROVED for a concrete infinite schedule in which the connection stalls while the Send is in its loop and
                             the sender is scheduled while blocked; `example`s instantiate every theorem's hypotheses on it.

All helper definitions and lemmas live in `namespace PSS.SL` (no clashes with the sister files in `PSS`); directly in `PSS`: `looping`, `FairTo`,
`reach_stateAt`, `reply_counts_deliveries`, `rank`, `stall_only_delays_partial`, `weak_fairness_not_enough`.
* `weak_fairness_not_enough` NEGATIVE: "every stall is followed by a resume" + "the sender is scheduled infinitely often" do not suffice:
                             period-3 schedule stall, sender, resume — the Send never completes.  This is why `FairTo` says "enabled".
-/
set_option linter.unusedSimpArgs false
namespace PSS
open PubSub (Chan Conn Payload)
variable {n : Nat}

/-- the thread is in the delivery loop of some Send (it holds a channel object's lock) -/
def looping (pc : Pc) : Bool := match pc with | .p4 _ _ _ => true | .pw _ _ _ _ => true | _ => false

/-- FAIRNESS towards the sender `t` (a predicate on the schedule): whenever `t` is in a delivery loop, there is a later moment at which `t` is scheduled and its step is enabled.
    For a sender inside `Write` on a stalled connection this says: the stall is followed by a resume or a death, and the sender runs before the connection stalls again
    (in the kernel a blocked write completes at the moment the peer reads; the model separates the two, so the hypothesis has to say it). -/
def FairTo (s0 : St n) (sched : Nat → Act n) (t : Fin n) : Prop :=
  ∀ i, looping ((stateAt s0 sched i).thr t).pc = true →
    ∃ j, i ≤ j ∧ ∃ p, sched j = .thr t p ∧ (next0 (stateAt s0 sched j) t p).isSome = true

namespace SL

/-! ## Frame and step summary -/

theorem env_frame (s : St n) (e : Env) : (env s e).thr = s.thr ∧ (env s e).dlv = s.dlv ∧ (env s e).done = s.done := by
  cases e <;> simp only [env] <;> (try split) <;> simp

/-- what a thread step does to the thread, the delivery records and the completion records -/
inductive Kind (s s' : St n) (u : Fin n) (p : Conn) : Prop
| plain : looping (s.thr u).pc = false → looping (s'.thr u).pc = false → s'.dlv = s.dlv → s'.done = s.done →
    (s'.thr u).k = (s.thr u).k → Kind s s' u p
| ret (rep : Option Nat) : looping (s.thr u).pc = false → looping (s'.thr u).pc = false → s'.dlv = s.dlv →
    (s'.thr u).k = (s.thr u).k + 1 → (rep = none ∨ rep = some 0) →
    s'.done = s.done ++ [⟨u, (s.thr u).k, (s.thr u).cur, rep⟩] → Kind s s' u p
| enter (o : Obj) : (s.thr u).pc = .p3 o → (∃ todo, s'.thr u = { s.thr u with pc := .p4 o [] todo }) →
    s'.dlv = s.dlv → s'.done = s.done → Kind s s' u p
| pick (o : Obj) (sent : List Conn) (c0 : Conn) (todo : List Conn) : (s.thr u).pc = .p4 o sent (c0 :: todo) → p ∈ c0 :: todo →
    s'.thr u = { s.thr u with pc := .pw o sent p ((c0 :: todo).erase p) } → s'.dlv = s.dlv → s'.done = s.done → Kind s s' u p
| wr (o : Obj) (sent : List Conn) (c : Conn) (rest : List Conn) : (s.thr u).pc = .pw o sent c rest → s.cs c = .ready →
    s'.thr u = { s.thr u with pc := .p4 o (sent ++ [c]) rest } →
    s'.dlv = s.dlv ++ [⟨u, (s.thr u).k, c, o, (s.thr u).cur.payload⟩] → s'.done = s.done → Kind s s' u p
| dead (o : Obj) (sent : List Conn) (c : Conn) (rest : List Conn) : (s.thr u).pc = .pw o sent c rest → s.cs c = .dead →
    s'.thr u = { s.thr u with pc := .p4 o sent rest } → s'.dlv = s.dlv → s'.done = s.done → Kind s s' u p
| exit (o : Obj) (sent : List Conn) : (s.thr u).pc = .p4 o sent [] →
    s'.thr u = { s.thr u with pc := .idle, k := (s.thr u).k + 1 } → s'.dlv = s.dlv →
    s'.done = s.done ++ [⟨u, (s.thr u).k, (s.thr u).cur, some sent.length⟩] → Kind s s' u p

@[simp] theorem looping_entry (op : Op) : looping (entry op) = false := by cases op <;> rfl
@[simp] theorem looping_idle : looping .idle = false := rfl
@[simp] theorem looping_e0 : looping .e0 = false := rfl
@[simp] theorem looping_s0 : looping .s0 = false := rfl
@[simp] theorem looping_s2 (o : Obj) : looping (.s2 o) = false := rfl
@[simp] theorem looping_sc : looping .sc = false := rfl
@[simp] theorem looping_u0 : looping .u0 = false := rfl
@[simp] theorem looping_u2 (o : Obj) : looping (.u2 o) = false := rfl
@[simp] theorem looping_p0 : looping .p0 = false := rfl
@[simp] theorem looping_p3 (o : Obj) : looping (.p3 o) = false := rfl
@[simp] theorem looping_p4 (o : Obj) (a b : List Conn) : looping (.p4 o a b) = true := rfl
@[simp] theorem looping_pw (o : Obj) (a : List Conn) (c : Conn) (b : List Conn) : looping (.pw o a c b) = true := rfl

theorem next0_other (s s' : St n) (u t : Fin n) (p : Conn) (h : next0 s u p = some s') (hne : t ≠ u) : s'.thr t = s.thr t := by
  unfold next0 at h
  dsimp only at h
  split at h <;> (try split at h) <;> (try split at h) <;> cases h <;> simp [setT, fin, upd, hne]

theorem next0_kind (s s' : St n) (u : Fin n) (p : Conn) (h : next0 s u p = some s') : Kind s s' u p := by
  unfold next0 at h
  dsimp only at h
  split at h <;> (try split at h) <;> (try split at h) <;> cases h
  all_goals first
    | (refine Kind.plain ?_ ?_ ?_ ?_ ?_ <;> simp [setT, fin, upd, *]; done)
    | (refine Kind.ret none ?_ ?_ ?_ ?_ ?_ ?_ <;> simp [setT, fin, upd, *]; done)
    | (refine Kind.ret (some 0) ?_ ?_ ?_ ?_ ?_ ?_ <;> simp [setT, fin, upd, *]; done)
    | (refine Kind.enter _ ‹_› ?_ ?_ ?_ <;> simp [setT, fin, upd, *]; done)
    | (refine Kind.pick _ _ _ _ ‹_› ‹_› ?_ ?_ ?_ <;> simp [setT, fin, upd, *]; done)
    | (refine Kind.wr _ _ _ _ ‹_› ‹_› ?_ ?_ ?_ <;> simp [setT, fin, upd, *]; done)
    | (refine Kind.dead _ _ _ _ ‹_› ‹_› ?_ ?_ ?_ <;> simp [setT, fin, upd, *]; done)
    | (refine Kind.exit _ _ ‹_› ?_ ?_ ?_ <;> simp [setT, fin, upd, *]; done)

/-! ## The counting invariant -/

/-- `delivered` on the list of records -/
def cnt (l : List (Dlv n)) (t : Fin n) (k : Nat) : Nat := (l.filter (fun d => d.tid = t ∧ d.k = k)).length

theorem delivered_eq (s : St n) (t : Fin n) (k : Nat) : delivered s t k = cnt s.dlv t k := rfl

theorem cnt_append_same (l : List (Dlv n)) (d : Dlv n) (t : Fin n) (k : Nat) (h1 : d.tid = t) (h2 : d.k = k) :
    cnt (l ++ [d]) t k = cnt l t k + 1 := by
  simp [cnt, List.filter_append, h1, h2]

theorem cnt_append_other (l : List (Dlv n)) (d : Dlv n) (t : Fin n) (k : Nat) (h : ¬ (d.tid = t ∧ d.k = k)) :
    cnt (l ++ [d]) t k = cnt l t k := by
  simp [cnt, List.filter_append, h]

theorem cnt_zero (l : List (Dlv n)) (t : Fin n) (k : Nat) (h : ∀ d ∈ l, d.tid = t → d.k ≠ k) : cnt l t k = 0 := by
  simp only [cnt, List.length_eq_zero_iff, List.filter_eq_nil_iff]
  intro d hd
  simp only [decide_eq_true_eq]
  intro ⟨h1, h2⟩
  exact h d hd h1 h2

/-- the connections a Send in its loop has written to successfully so far -/
def sentOf : Pc → List Conn
| .p4 _ sent _ => sent
| .pw _ sent _ _ => sent
| _ => []

structure CInv (s : St n) : Prop where
  a : ∀ d ∈ s.dlv, d.k < (s.thr d.tid).k ∨ (d.k = (s.thr d.tid).k ∧ looping (s.thr d.tid).pc = true)
  b : ∀ t, looping (s.thr t).pc = true → cnt s.dlv t (s.thr t).k = (sentOf (s.thr t).pc).length
  c : ∀ r ∈ s.done, r.k < (s.thr r.tid).k ∧ ∀ x, r.reply = some x → x = cnt s.dlv r.tid r.k

theorem cinv_init (progs : Fin n → List Op) : CInv (init progs) := by
  refine ⟨?_, ?_, ?_⟩ <;> simp [init]

theorem cinv_notloop (s : St n) (u : Fin n) (hi : CInv s) (hl : looping (s.thr u).pc = false) :
    ∀ d ∈ s.dlv, d.tid = u → d.k < (s.thr u).k := by
  intro d hd e
  have := hi.a d hd
  rw [e, hl] at this
  simpa using this

theorem cinv_plain (s s' : St n) (u : Fin n) (ho : ∀ t, t ≠ u → s'.thr t = s.thr t) (hi : CInv s)
    (hl : looping (s.thr u).pc = false) (hl' : looping (s'.thr u).pc = false) (hd : s'.dlv = s.dlv) (hdn : s'.done = s.done)
    (hkk : (s'.thr u).k = (s.thr u).k) : CInv s' := by
  refine ⟨?_, ?_, ?_⟩
  · intro d hdm
    rw [hd] at hdm
    by_cases e : d.tid = u
    · left; rw [e, hkk]; exact cinv_notloop s u hi hl d hdm e
    · rw [ho _ e]; exact hi.a d hdm
  · intro t hlt
    by_cases e : t = u
    · subst e; rw [hl'] at hlt; cases hlt
    · rw [ho _ e] at hlt ⊢; rw [hd]; exact hi.b t hlt
  · intro r hr
    rw [hdn] at hr
    rw [hd]
    refine ⟨?_, (hi.c r hr).2⟩
    by_cases e : r.tid = u
    · rw [e, hkk, ← e]; exact (hi.c r hr).1
    · rw [ho _ e]; exact (hi.c r hr).1

theorem cinv_ret (s s' : St n) (u : Fin n) (ho : ∀ t, t ≠ u → s'.thr t = s.thr t) (hi : CInv s) (rep : Option Nat)
    (hl : looping (s.thr u).pc = false) (hl' : looping (s'.thr u).pc = false) (hd : s'.dlv = s.dlv)
    (hkk : (s'.thr u).k = (s.thr u).k + 1) (hrep : rep = none ∨ rep = some 0)
    (hdn : s'.done = s.done ++ [⟨u, (s.thr u).k, (s.thr u).cur, rep⟩]) : CInv s' := by
  refine ⟨?_, ?_, ?_⟩
  · intro d hdm
    rw [hd] at hdm
    by_cases e : d.tid = u
    · left; rw [e, hkk]; have := cinv_notloop s u hi hl d hdm e; omega
    · rw [ho _ e]; exact hi.a d hdm
  · intro t hlt
    by_cases e : t = u
    · subst e; rw [hl'] at hlt; cases hlt
    · rw [ho _ e] at hlt ⊢; rw [hd]; exact hi.b t hlt
  · intro r hr
    rw [hdn] at hr
    rw [hd]
    rcases List.mem_append.mp hr with hr | hr
    · refine ⟨?_, (hi.c r hr).2⟩
      by_cases e : r.tid = u
      · rw [e, hkk, ← e]; have := (hi.c r hr).1; omega
      · rw [ho _ e]; exact (hi.c r hr).1
    · obtain rfl := List.mem_singleton.mp hr
      refine ⟨by simp [hkk], ?_⟩
      intro x hx
      dsimp only at hx ⊢
      rcases hrep with rfl | rfl
      · cases hx
      · obtain rfl := Option.some.inj hx
        symm
        apply cnt_zero
        intro d hdm e
        exact Nat.ne_of_lt (cinv_notloop s u hi hl d hdm e)

theorem cinv_enter (s s' : St n) (u : Fin n) (ho : ∀ t, t ≠ u → s'.thr t = s.thr t) (hi : CInv s) (o : Obj)
    (hp : (s.thr u).pc = .p3 o) (hth : ∃ todo, s'.thr u = { s.thr u with pc := .p4 o [] todo }) (hd : s'.dlv = s.dlv)
    (hdn : s'.done = s.done) : CInv s' := by
  obtain ⟨todo, hth⟩ := hth
  have hl : looping (s.thr u).pc = false := by rw [hp]; rfl
  have hkk : (s'.thr u).k = (s.thr u).k := by rw [hth]
  refine ⟨?_, ?_, ?_⟩
  · intro d hdm
    rw [hd] at hdm
    by_cases e : d.tid = u
    · left; rw [e, hkk]; exact cinv_notloop s u hi hl d hdm e
    · rw [ho _ e]; exact hi.a d hdm
  · intro t hlt
    by_cases e : t = u
    · subst e
      rw [hd, hkk, hth]
      simp only [sentOf, List.length_nil]
      apply cnt_zero
      intro d hdm e
      exact Nat.ne_of_lt (cinv_notloop s t hi hl d hdm e)
    · rw [ho _ e] at hlt ⊢; rw [hd]; exact hi.b t hlt
  · intro r hr
    rw [hdn] at hr
    rw [hd]
    refine ⟨?_, (hi.c r hr).2⟩
    by_cases e : r.tid = u
    · rw [e, hkk, ← e]; exact (hi.c r hr).1
    · rw [ho _ e]; exact (hi.c r hr).1

/-- a step inside the loop that writes nothing: `p4 → pw` and `pw → p4` on a dead connection -/
theorem cinv_inloop (s s' : St n) (u : Fin n) (ho : ∀ t, t ≠ u → s'.thr t = s.thr t) (hi : CInv s)
    (hl : looping (s.thr u).pc = true) (hl' : looping (s'.thr u).pc = true) (hs : sentOf (s'.thr u).pc = sentOf (s.thr u).pc)
    (hkk : (s'.thr u).k = (s.thr u).k) (hd : s'.dlv = s.dlv) (hdn : s'.done = s.done) : CInv s' := by
  refine ⟨?_, ?_, ?_⟩
  · intro d hdm
    rw [hd] at hdm
    by_cases e : d.tid = u
    · have := hi.a d hdm
      rw [e] at this
      rw [e, hkk]
      rcases this with h | ⟨h, _⟩
      · exact Or.inl h
      · exact Or.inr ⟨h, hl'⟩
    · rw [ho _ e]; exact hi.a d hdm
  · intro t hlt
    by_cases e : t = u
    · subst e; rw [hd, hkk, hs]; exact hi.b t hl
    · rw [ho _ e] at hlt ⊢; rw [hd]; exact hi.b t hlt
  · intro r hr
    rw [hdn] at hr
    rw [hd]
    refine ⟨?_, (hi.c r hr).2⟩
    by_cases e : r.tid = u
    · rw [e, hkk, ← e]; exact (hi.c r hr).1
    · rw [ho _ e]; exact (hi.c r hr).1

theorem cinv_wr (s s' : St n) (u : Fin n) (ho : ∀ t, t ≠ u → s'.thr t = s.thr t) (hi : CInv s) (o : Obj) (sent : List Conn) (c : Conn)
    (rest : List Conn) (hp : (s.thr u).pc = .pw o sent c rest) (hth : s'.thr u = { s.thr u with pc := .p4 o (sent ++ [c]) rest })
    (hd : s'.dlv = s.dlv ++ [⟨u, (s.thr u).k, c, o, (s.thr u).cur.payload⟩]) (hdn : s'.done = s.done) : CInv s' := by
  have hl : looping (s.thr u).pc = true := by rw [hp]; rfl
  have hl' : looping (s'.thr u).pc = true := by rw [hth]; rfl
  have hkk : (s'.thr u).k = (s.thr u).k := by rw [hth]
  refine ⟨?_, ?_, ?_⟩
  · intro d hdm
    rw [hd] at hdm
    rcases List.mem_append.mp hdm with hdm | hdm
    · by_cases e : d.tid = u
      · have := hi.a d hdm
        rw [e] at this
        rw [e, hkk]
        rcases this with h | ⟨h, _⟩
        · exact Or.inl h
        · exact Or.inr ⟨h, hl'⟩
      · rw [ho _ e]; exact hi.a d hdm
    · obtain rfl := List.mem_singleton.mp hdm
      right; exact ⟨hkk.symm, hl'⟩
  · intro t hlt
    by_cases e : t = u
    · subst e
      rw [hd, hkk, cnt_append_same _ _ _ _ rfl rfl, hi.b t hl, hth, hp]
      simp [sentOf]
    · rw [ho _ e] at hlt ⊢
      rw [hd, cnt_append_other _ _ _ _ (fun h => e h.1.symm)]
      exact hi.b t hlt
  · intro r hr
    rw [hdn] at hr
    have h1 := (hi.c r hr).1
    have hne : ¬ (u = r.tid ∧ (s.thr u).k = r.k) := by
      intro ⟨e1, e2⟩
      rw [← e1] at h1
      omega
    rw [hd, cnt_append_other _ _ _ _ hne]
    refine ⟨?_, (hi.c r hr).2⟩
    by_cases e : r.tid = u
    · rw [e, hkk, ← e]; exact h1
    · rw [ho _ e]; exact h1

theorem cinv_exit (s s' : St n) (u : Fin n) (ho : ∀ t, t ≠ u → s'.thr t = s.thr t) (hi : CInv s) (o : Obj) (sent : List Conn)
    (hp : (s.thr u).pc = .p4 o sent []) (hth : s'.thr u = { s.thr u with pc := .idle, k := (s.thr u).k + 1 }) (hd : s'.dlv = s.dlv)
    (hdn : s'.done = s.done ++ [⟨u, (s.thr u).k, (s.thr u).cur, some sent.length⟩]) : CInv s' := by
  have hl : looping (s.thr u).pc = true := by rw [hp]; rfl
  have hl' : looping (s'.thr u).pc = false := by rw [hth]; rfl
  have hkk : (s'.thr u).k = (s.thr u).k + 1 := by rw [hth]
  refine ⟨?_, ?_, ?_⟩
  · intro d hdm
    rw [hd] at hdm
    by_cases e : d.tid = u
    · left; rw [e, hkk]
      have := hi.a d hdm
      rw [e] at this
      omega
    · rw [ho _ e]; exact hi.a d hdm
  · intro t hlt
    by_cases e : t = u
    · subst e; rw [hl'] at hlt; cases hlt
    · rw [ho _ e] at hlt ⊢; rw [hd]; exact hi.b t hlt
  · intro r hr
    rw [hdn] at hr
    rw [hd]
    rcases List.mem_append.mp hr with hr | hr
    · refine ⟨?_, (hi.c r hr).2⟩
      by_cases e : r.tid = u
      · rw [e, hkk, ← e]; have := (hi.c r hr).1; omega
      · rw [ho _ e]; exact (hi.c r hr).1
    · obtain rfl := List.mem_singleton.mp hr
      refine ⟨by simp [hkk], ?_⟩
      intro x hx
      dsimp only at hx ⊢
      obtain rfl := Option.some.inj hx
      have := hi.b u hl
      rw [hp] at this
      simpa [sentOf] using this.symm

theorem cinv_step (s s' : St n) (u : Fin n) (p : Conn) (h : next0 s u p = some s') (hi : CInv s) : CInv s' := by
  have ho : ∀ t, t ≠ u → s'.thr t = s.thr t := fun t ht => next0_other s s' u t p h ht
  cases next0_kind s s' u p h with
  | plain hl hl' hd hdn hkk => exact cinv_plain s s' u ho hi hl hl' hd hdn hkk
  | ret rep hl hl' hd hkk hrep hdn => exact cinv_ret s s' u ho hi rep hl hl' hd hkk hrep hdn
  | enter o hp hth hd hdn => exact cinv_enter s s' u ho hi o hp hth hd hdn
  | pick o sent c0 todo hp hm hth hd hdn =>
    exact cinv_inloop s s' u ho hi (by rw [hp]; rfl) (by rw [hth]; rfl) (by rw [hth, hp]; rfl) (by rw [hth]) hd hdn
  | wr o sent c rest hp _ hth hd hdn => exact cinv_wr s s' u ho hi o sent c rest hp hth hd hdn
  | dead o sent c rest hp _ hth hd hdn =>
    exact cinv_inloop s s' u ho hi (by rw [hp]; rfl) (by rw [hth]; rfl) (by rw [hth, hp]; rfl) (by rw [hth]) hd hdn
  | exit o sent hp hth hd hdn => exact cinv_exit s s' u ho hi o sent hp hth hd hdn

theorem cinv_env (s : St n) (e : Env) (hi : CInv s) : CInv (env s e) := by
  obtain ⟨h1, h2, h3⟩ := env_frame s e
  refine ⟨?_, ?_, ?_⟩
  · rw [h1, h2]; exact hi.a
  · rw [h1, h2]; exact hi.b
  · rw [h1, h2, h3]; exact hi.c

theorem cinv_reach (progs : Fin n → List Op) (s : St n) (h : Reach progs s) : CInv s := by
  induction h with
  | init => exact cinv_init progs
  | step s s' _ hs ih =>
    cases hs with
    | thr _ t p h => exact cinv_step s s' t p h ih
    | env e => exact cinv_env s e ih

end SL
open SL

/-- every state of a schedule's run is reachable -/
theorem reach_stateAt (progs : Fin n → List Op) (s0 : St n) (h : Reach progs s0) (sched : Nat → Act n) (i : Nat) : Reach progs (stateAt s0 sched i) := by
  induction i with
  | zero => exact h
  | succ i ih =>
    show Reach progs (act (stateAt s0 sched i) (sched i))
    cases hs : sched i with
    | thr t p =>
      simp only [act]
      cases hn : next0 (stateAt s0 sched i) t p with
      | none => exact ih
      | some s' => exact Reach.step _ _ ih (Step.thr _ _ t p hn)
    | env e => exact Reach.step _ _ ih (Step.env _ e)

/-- **the reply counts exactly the deliveries**: in every reachable state every completed operation's integer reply is the number of successful writes (`Dlv` records) of that operation -/
theorem reply_counts_deliveries (progs : Fin n → List Op) (s : St n) (h : Reach progs s) (r : Rec n) (hr : r ∈ s.done) (x : Nat) (hx : r.reply = some x) :
    x = delivered s r.tid r.k :=
  ((cinv_reach progs s h).c r hr).2 x hx

/-! ## Liveness under fairness towards the sender -/

/-- bound: the Send needs at most `2 * |pending| + 1` own steps — stated as: the rank below never increases and decreases with every own enabled step -/
def rank (k0 : Nat) (th : Thread) : Nat :=
  if th.k = k0 then (match th.pc with | .p4 _ _ todo => 2 * todo.length + 1 | .pw _ _ _ rest => 2 * rest.length + 2 | _ => 0) else 0

namespace SL

theorem rank_le_pending (th : Thread) : rank th.k th ≤ 2 * (pending th.pc).length + 1 := by
  cases h : th.pc <;> simp [rank, pending, h] <;> omega

/-- an enabled own step in the delivery loop: either the thread is still in the loop of the same operation and the rank is strictly smaller,
    or it was the final step and the completion record exists -/
theorem own_step (s s' : St n) (t : Fin n) (p : Conn) (h : next0 s t p = some s') (hl : looping (s.thr t).pc = true) :
    (looping (s'.thr t).pc = true ∧ (s'.thr t).k = (s.thr t).k ∧ (s'.thr t).cur = (s.thr t).cur ∧
      rank (s.thr t).k (s'.thr t) < rank (s.thr t).k (s.thr t))
    ∨ ((s'.thr t).k = (s.thr t).k + 1 ∧ ∃ x, (⟨t, (s.thr t).k, (s.thr t).cur, some x⟩ : Rec n) ∈ s'.done) := by
  cases next0_kind s s' t p h with
  | plain hl0 => rw [hl0] at hl; cases hl
  | ret _ hl0 => rw [hl0] at hl; cases hl
  | enter o hp => rw [hp] at hl; cases hl
  | pick o sent c0 todo hp hm hth hd hdn =>
    left
    refine ⟨by rw [hth]; rfl, by rw [hth], by rw [hth], ?_⟩
    rw [hth]
    simp only [rank, hp, if_true, List.length_erase_of_mem hm, List.length_cons]
    omega
  | wr o sent c rest hp _ hth hd hdn =>
    left
    refine ⟨by rw [hth]; rfl, by rw [hth], by rw [hth], ?_⟩
    rw [hth]
    simp only [rank, hp, if_true]
    omega
  | dead o sent c rest hp _ hth hd hdn =>
    left
    refine ⟨by rw [hth]; rfl, by rw [hth], by rw [hth], ?_⟩
    rw [hth]
    simp only [rank, hp, if_true]
    omega
  | exit o sent hp hth hd hdn =>
    right
    refine ⟨by rw [hth], sent.length, ?_⟩
    rw [hdn]
    simp

/-- the rank decreases with every own enabled step in the loop (the final step included: the operation counter moves on, the rank is 0) -/
theorem rank_own_step (s s' : St n) (t : Fin n) (p : Conn) (h : next0 s t p = some s') (hl : looping (s.thr t).pc = true) :
    rank (s.thr t).k (s'.thr t) < rank (s.thr t).k (s.thr t) := by
  rcases own_step s s' t p h hl with ⟨_, _, _, h⟩ | ⟨hk, _⟩
  · exact h
  · have h1 : rank (s.thr t).k (s'.thr t) = 0 := by
      unfold rank
      rw [if_neg (by omega)]
    rw [h1]
    unfold rank
    rw [if_pos rfl]
    revert hl
    cases (s.thr t).pc <;> simp

/-- any other schedule entry (environment, another thread, a disabled own step) leaves the thread — hence the rank — unchanged -/
theorem act_other (s : St n) (a : Act n) (t : Fin n) (h : ∀ p, a = .thr t p → next0 s t p = none) : (act s a).thr t = s.thr t := by
  cases a with
  | env e => simp only [act]; rw [(env_frame s e).1]
  | thr u p =>
    simp only [act]
    cases hn : next0 s u p with
    | none => rfl
    | some s' =>
      by_cases e : u = t
      · subst e; rw [h p rfl] at hn; cases hn
      · exact next0_other s s' u t p hn (fun h => e h.symm)

/-- the rank never increases -/
theorem rank_act_le (s : St n) (a : Act n) (t : Fin n) (hl : looping (s.thr t).pc = true) :
    rank (s.thr t).k ((act s a).thr t) ≤ rank (s.thr t).k (s.thr t) := by
  by_cases h : ∀ p, a = .thr t p → next0 s t p = none
  · rw [act_other s a t h]; exact Nat.le_refl _
  · have ⟨p, hp⟩ : ∃ p, a = .thr t p ∧ next0 s t p ≠ none := by
      apply Classical.byContradiction
      intro hc
      apply h
      intro p hp
      apply Classical.byContradiction
      intro hn
      exact hc ⟨p, hp, hn⟩
    obtain ⟨rfl, hn⟩ := hp
    cases hs : next0 s t p with
    | none => exact absurd hs hn
    | some s' =>
      simp only [act, hs, Option.getD_some]
      exact Nat.le_of_lt (rank_own_step s s' t p hs hl)

/-- thread `t` is in the loop of its operation number `k0` (which is `cur0`) with rank at most `m` -/
def Good (s : St n) (t : Fin n) (k0 : Nat) (cur0 : Op) (m : Nat) : Prop :=
  looping (s.thr t).pc = true ∧ (s.thr t).k = k0 ∧ (s.thr t).cur = cur0 ∧ rank k0 (s.thr t) ≤ m

/-- the completion record of `t`'s operation number `k0` exists (with an integer reply) -/
def Fini (s : St n) (t : Fin n) (k0 : Nat) (cur0 : Op) : Prop := ∃ x, (⟨t, k0, cur0, some x⟩ : Rec n) ∈ s.done

theorem act_good (s : St n) (a : Act n) (t : Fin n) (k0 : Nat) (cur0 : Op) (m : Nat) (hg : Good s t k0 cur0 m) :
    Good (act s a) t k0 cur0 m ∨ Fini (act s a) t k0 cur0 := by
  obtain ⟨hl, hk, hc, hr⟩ := hg
  by_cases h : ∀ p, a = .thr t p → next0 s t p = none
  · left; unfold Good; rw [act_other s a t h]; exact ⟨hl, hk, hc, hr⟩
  · have ⟨p, hp⟩ : ∃ p, a = .thr t p ∧ next0 s t p ≠ none := by
      apply Classical.byContradiction
      intro hc
      apply h
      intro p hp
      apply Classical.byContradiction
      intro hn
      exact hc ⟨p, hp, hn⟩
    obtain ⟨rfl, hn⟩ := hp
    cases hs : next0 s t p with
    | none => exact absurd hs hn
    | some s' =>
      simp only [act, hs, Option.getD_some]
      rcases own_step s s' t p hs hl with ⟨h1, h2, h3, h4⟩ | ⟨_, x, hx⟩
      · left; rw [hk] at h2 h4; rw [hc] at h3; exact ⟨h1, h2, h3, by omega⟩
      · right; rw [hk, hc] at hx; exact ⟨x, hx⟩

theorem act_good_own (s : St n) (t : Fin n) (p : Conn) (k0 : Nat) (cur0 : Op) (m : Nat) (hg : Good s t k0 cur0 (m + 1))
    (hen : (next0 s t p).isSome = true) : Good (act s (.thr t p)) t k0 cur0 m ∨ Fini (act s (.thr t p)) t k0 cur0 := by
  obtain ⟨hl, hk, hc, hr⟩ := hg
  cases hs : next0 s t p with
  | none => rw [hs] at hen; cases hen
  | some s' =>
    simp only [act, hs, Option.getD_some]
    rcases own_step s s' t p hs hl with ⟨h1, h2, h3, h4⟩ | ⟨_, x, hx⟩
    · left; rw [hk] at h2 h4; rw [hc] at h3; exact ⟨h1, h2, h3, by omega⟩
    · right; rw [hk, hc] at hx; exact ⟨x, hx⟩

theorem good_pos (s : St n) (t : Fin n) (k0 : Nat) (cur0 : Op) (hg : Good s t k0 cur0 0) : False := by
  obtain ⟨hl, hk, _, hr⟩ := hg
  unfold rank at hr
  rw [if_pos hk] at hr
  revert hl hr
  cases (s.thr t).pc <;> simp

theorem live_aux (s0 : St n) (sched : Nat → Act n) (t : Fin n) (hf : FairTo s0 sched t) (k0 : Nat) (cur0 : Op) :
    ∀ m i, Good (stateAt s0 sched i) t k0 cur0 m → ∃ j, i ≤ j ∧ Fini (stateAt s0 sched j) t k0 cur0 := by
  intro m
  induction m with
  | zero => intro i hg; exact (good_pos _ t k0 cur0 hg).elim
  | succ m ih =>
    intro i hg
    obtain ⟨j, hij, p, hs, hen⟩ := hf i hg.1
    have between : ∀ d, Good (stateAt s0 sched (i + d)) t k0 cur0 (m + 1) ∨ ∃ j', i ≤ j' ∧ Fini (stateAt s0 sched j') t k0 cur0 := by
      intro d
      induction d with
      | zero => exact Or.inl hg
      | succ d ihd =>
        rcases ihd with hgd | hfin
        · rcases act_good _ (sched (i + d)) t k0 cur0 (m + 1) hgd with h | h
          · exact Or.inl h
          · exact Or.inr ⟨i + d + 1, by omega, h⟩
        · exact Or.inr hfin
    obtain ⟨d, rfl⟩ : ∃ d, j = i + d := ⟨j - i, by omega⟩
    rcases between d with hgd | hfin
    · have := act_good_own _ t p k0 cur0 m hgd hen
      rw [← hs] at this
      rcases this with h | h
      · obtain ⟨j', hj', hfin⟩ := ih (i + d + 1) h
        exact ⟨j', by omega, hfin⟩
      · exact ⟨i + d + 1, by omega, h⟩
    · exact hfin

end SL

/-- **stall_only_delays_partial** (C19).  Under fairness towards the sender, a Send that holds the channel lock (is in its delivery loop at moment `i0`) terminates: at some later
    moment its completion record exists, and the reply is the number of connections it delivered to.  Whatever the environment does (stall / resume / die in any order) only delays it.
    PARTIAL: starts at the acquisition of the channel lock; the two lock acquisitions before it (p0: table read lock, p3: channel lock) are not covered. -/
theorem stall_only_delays_partial (progs : Fin n → List Op) (s0 : St n) (h0 : Reach progs s0) (sched : Nat → Act n) (t : Fin n) (hf : FairTo s0 sched t)
    (i0 : Nat) (hl : looping ((stateAt s0 sched i0).thr t).pc = true) :
    ∃ j, i0 ≤ j ∧ ∃ r, r ∈ (stateAt s0 sched j).done ∧ r.tid = t ∧ r.k = ((stateAt s0 sched i0).thr t).k ∧ r.op = ((stateAt s0 sched i0).thr t).cur ∧
      r.reply = some (delivered (stateAt s0 sched j) t r.k) := by
  obtain ⟨j, hj, x, hx⟩ := live_aux s0 sched t hf _ _ _ i0 ⟨hl, rfl, rfl, Nat.le_refl _⟩
  refine ⟨j, hj, _, hx, rfl, rfl, rfl, ?_⟩
  have := reply_counts_deliveries progs _ (reach_stateAt progs s0 h0 sched j) _ hx x rfl
  rw [this]

namespace SL

/-! ## The hypotheses are satisfiable: a concrete program and an infinite fair schedule

One thread runs `SUBSCRIBE` (connection 1, channel "a") and then `PUBLISH a`.  Schedule: 7 steps of the thread (the Send has locked the channel
object and is in its loop), then connection 1 stalls (moment 7), the sender enters `Write` (8) and is blocked there (9: scheduled, not enabled),
connection 1 resumes (10), the write completes (11), the Send returns 1 (12); afterwards the thread is scheduled forever with nothing to do. -/
namespace Ex

deriving instance DecidableEq for Rec

def progs : Fin 1 → List Op := fun _ => [.subscribe 1 [97], .send [97] [1]]

def sched : Nat → Act 1 := fun i => if i = 7 then .env (.stall 1) else if i = 10 then .env (.resume 1) else .thr 0 1

abbrev at' (i : Nat) : St 1 := stateAt (init progs) sched i

/-- a finished single thread stays finished under this schedule -/
theorem tail (d : Nat) : at' (13 + d) = at' 13 := by
  induction d with
  | zero => rfl
  | succ d ih =>
    show act (at' (13 + d)) (sched (13 + d)) = at' 13
    have hs : sched (13 + d) = .thr 0 1 := by
      unfold sched
      rw [if_neg (by omega), if_neg (by omega)]
    have hn : next0 (at' 13) 0 1 = none := Option.isNone_iff_eq_none.mp (by decide)
    rw [hs, ih]
    simp only [act, hn, Option.getD_none]

theorem fair : FairTo (init progs) sched 0 := by
  intro i hl
  by_cases h : 13 ≤ i
  · obtain ⟨d, rfl⟩ : ∃ d, i = 13 + d := ⟨i - 13, by omega⟩
    have : at' (13 + d) = at' 13 := tail d
    simp only [at'] at this
    rw [this] at hl
    exact absurd hl (by decide)
  · rcases (by omega : i = 0 ∨ i = 1 ∨ i = 2 ∨ i = 3 ∨ i = 4 ∨ i = 5 ∨ i = 6 ∨ i = 7 ∨ i = 8 ∨ i = 9 ∨ i = 10 ∨ i = 11 ∨ i = 12) with
      rfl | rfl | rfl | rfl | rfl | rfl | rfl | rfl | rfl | rfl | rfl | rfl | rfl
    all_goals first
      | exact absurd hl (by decide)
      | exact ⟨8, by omega, 1, rfl, by decide⟩
      | exact ⟨11, by omega, 1, rfl, by decide⟩
      | exact ⟨12, by omega, 1, rfl, by decide⟩

/-- `reach_stateAt`: the hypothesis (a reachable start state) holds for the initial state -/
example : Reach progs (at' 9) := reach_stateAt progs (init progs) Reach.init sched 9

/-- the stall is real: at moment 9 the sender is inside `Write` on connection 1, which is stalled, and its step is not enabled -/
example : ((at' 9).thr 0).pc = .pw 0 [] 1 [] ∧ (at' 9).cs 1 = .stalled ∧ (next0 (at' 9) 0 1).isSome = false := by decide

/-- `reply_counts_deliveries`: a reachable state with a completed Send whose reply is `some 1` (and one with reply `none`, the Subscribe) -/
example : ∃ s r x, Reach progs s ∧ r ∈ s.done ∧ r.reply = some x ∧ x = 1 ∧ delivered s r.tid r.k = 1 :=
  ⟨at' 13, ⟨0, 1, .send [97] [1], some 1⟩, 1, reach_stateAt progs (init progs) Reach.init sched 13, by decide, rfl, rfl, by decide⟩

/-- `stall_only_delays_partial`: all hypotheses hold for the schedule above at moment `i0 = 8` (connection 1 is stalled, the sender in its loop) -/
example : ∃ j, 8 ≤ j ∧ ∃ r, r ∈ (at' j).done ∧ r.tid = 0 ∧ r.k = 1 ∧ r.op = .send [97] [1] ∧ r.reply = some (delivered (at' j) 0 r.k) :=
  stall_only_delays_partial progs (init progs) Reach.init sched 0 fair 8 (by decide)

end Ex

/-! ## Weak fairness is not enough

"Every stall is followed by a resume" and "the sender is scheduled infinitely often" do not make the Send terminate: the environment can stall
the connection again before every turn of the sender (period 3: stall, sender, resume).  Hence `FairTo` asks for a turn at which the step is ENABLED. -/
namespace Neg

/-- the start state: the Send of `Ex.progs` is inside `Write` on connection 1 (8 steps of the thread, no environment step) -/
def s0 : St 1 := stateAt (init Ex.progs) (fun _ => .thr 0 1) 8

def sched : Nat → Act 1 := fun i => if i % 3 = 0 then .env (.stall 1) else if i % 3 = 1 then .thr 0 1 else .env (.resume 1)

theorem s0_reach : Reach Ex.progs s0 := reach_stateAt Ex.progs (init Ex.progs) Reach.init _ 8

theorem s0_pc : (s0.thr 0).pc = .pw 0 [] 1 [] := by decide

theorem s0_cs (c : Conn) : s0.cs c = .ready := rfl

theorem next0_pw_stalled {n : Nat} (s : St n) (t : Fin n) (p : Conn) (o : Obj) (sent : List Conn) (c : Conn) (rest : List Conn)
    (hp : (s.thr t).pc = .pw o sent c rest) (hc : s.cs c = .stalled) : next0 s t p = none := by
  unfold next0
  simp only [hp, hc]

theorem inv (i : Nat) :
    (stateAt s0 sched i).thr = s0.thr ∧ (stateAt s0 sched i).done = s0.done ∧ (∀ c, c ≠ 1 → (stateAt s0 sched i).cs c = .ready) ∧
    (i % 3 = 0 → (stateAt s0 sched i).cs 1 = .ready) ∧ (i % 3 ≠ 0 → (stateAt s0 sched i).cs 1 = .stalled) := by
  induction i with
  | zero => exact ⟨rfl, rfl, fun c _ => s0_cs c, fun _ => s0_cs 1, fun h => absurd rfl h⟩
  | succ i ih =>
    obtain ⟨h1, h2, h3, h4, h5⟩ := ih
    have e : stateAt s0 sched (i + 1) = act (stateAt s0 sched i) (sched i) := rfl
    rw [e]
    rcases (by omega : i % 3 = 0 ∨ i % 3 = 1 ∨ i % 3 = 2) with h | h | h
    · have hs : sched i = .env (.stall 1) := by unfold sched; rw [if_pos h]
      rw [hs]
      simp only [act, env, if_pos (h4 h)]
      refine ⟨h1, h2, fun c hc => ?_, fun h' => by omega, fun _ => by simp⟩
      rw [upd_other _ _ _ _ hc]; exact h3 c hc
    · have hs : sched i = .thr 0 1 := by unfold sched; rw [if_neg (by omega), if_pos h]
      have hn : next0 (stateAt s0 sched i) 0 1 = none :=
        next0_pw_stalled _ 0 1 0 [] 1 [] (by rw [h1]; exact s0_pc) (h5 (by omega))
      rw [hs]
      simp only [act, hn, Option.getD_none]
      exact ⟨h1, h2, h3, fun h' => by omega, fun _ => h5 (by omega)⟩
    · have hs : sched i = .env (.resume 1) := by unfold sched; rw [if_neg (by omega), if_neg (by omega)]
      rw [hs]
      simp only [act, env, if_pos (h5 (by omega))]
      refine ⟨h1, h2, fun c hc => ?_, fun _ => by simp, fun h' => by omega⟩
      rw [upd_other _ _ _ _ hc]; exact h3 c hc

end Neg

end SL

/-- **weak_fairness_not_enough** (NEGATIVE).  There is a program, a reachable start state and a schedule in which every stall is followed by a
    resume and the sender is scheduled infinitely often, yet the Send never completes: the sender stays in its delivery loop forever, no
    completion record of this operation ever exists — and, consistently with `stall_only_delays_partial`, the schedule is not `FairTo` the sender. -/
theorem weak_fairness_not_enough :
    ∃ (progs : Fin 1 → List Op) (s0 : St 1) (sched : Nat → Act 1) (t : Fin 1),
      Reach progs s0 ∧
      (∀ i c, (stateAt s0 sched i).cs c = .stalled → ∃ j, i ≤ j ∧ (stateAt s0 sched j).cs c ≠ .stalled) ∧
      (∀ i, ∃ j, i ≤ j ∧ ∃ p, sched j = .thr t p) ∧
      (∀ i, looping ((stateAt s0 sched i).thr t).pc = true) ∧
      (∀ i r, r ∈ (stateAt s0 sched i).done → ¬ (r.tid = t ∧ r.k = (s0.thr t).k)) ∧
      ¬ FairTo s0 sched t := by
  have hloop : ∀ i, looping ((stateAt Neg.s0 Neg.sched i).thr 0).pc = true := by
    intro i; rw [(Neg.inv i).1, Neg.s0_pc]; rfl
  have hnorec : ∀ i r, r ∈ (stateAt Neg.s0 Neg.sched i).done → ¬ (r.tid = 0 ∧ r.k = (Neg.s0.thr 0).k) := by
    intro i r hr ⟨e1, e2⟩
    have := ((cinv_reach Ex.progs _ (reach_stateAt Ex.progs Neg.s0 Neg.s0_reach Neg.sched i)).c r hr).1
    rw [e1, (Neg.inv i).1] at this
    omega
  refine ⟨Ex.progs, Neg.s0, Neg.sched, 0, Neg.s0_reach, ?_, ?_, hloop, hnorec, ?_⟩
  · intro i c hc
    by_cases e : c = 1
    · subst e
      refine ⟨i + (3 - i % 3), by omega, ?_⟩
      rw [(Neg.inv (i + (3 - i % 3))).2.2.2.1 (by omega)]
      intro h; cases h
    · rw [(Neg.inv i).2.2.1 c e] at hc; cases hc
  · intro i
    refine ⟨3 * i + 1, by omega, 1, ?_⟩
    unfold Neg.sched
    rw [if_neg (by omega), if_pos (by omega)]
  · intro hf
    obtain ⟨j, _, r, hr, h1, h2, _⟩ := stall_only_delays_partial Ex.progs Neg.s0 Neg.s0_reach Neg.sched 0 hf 0 (hloop 0)
    exact hnorec j r hr ⟨h1, h2⟩

#print axioms reach_stateAt
#print axioms reply_counts_deliveries
#print axioms stall_only_delays_partial
#print axioms SL.rank_own_step
#print axioms SL.rank_act_le
#print axioms SL.Ex.fair
#print axioms weak_fairness_not_enough

end PSS
