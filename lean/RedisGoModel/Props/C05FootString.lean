import RedisGoModel.Props.C05FootBase
import RedisGoModel.Props.C06TKeys
/-! C05 footprint theorems: string and generic key commands (`stringKeyTable`) and the misc table.  One `CmdFoot` lemma per command;
    the key loops of MGET / MSET / DEL / EXISTS by induction; KEYS (`whole`) through `C06T.c_keys` (sorting forgets the order). -/
namespace Exec.Foot
open Resp (Reply Bytes)
open Exec

theorem t_set : CmdFoot cmdSet (fpKge3 true) := by
  intro env args; unfold fpKge3; split
  · ft_keys_w cmdSet
  · unfold cmdSet; ft_none

theorem t_get : CmdFoot cmdGet (fpK2 false) := by
  intro env args; unfold fpK2; split
  · ft_keys_r cmdGet
  · unfold cmdGet; ft_none

theorem t_getrange : CmdFoot cmdGetRange (fpK4 false) := by
  intro env args; unfold fpK4; split
  · ft_keys_r cmdGetRange
  · unfold cmdGetRange; ft_none

theorem t_setrange : CmdFoot cmdSetRange (fpK4 true) := by
  intro env args; unfold fpK4; split
  · ft_keys_w cmdSetRange
  · unfold cmdSetRange; ft_none

theorem t_setex : CmdFoot cmdSetEx (fpK4 true) := by
  intro env args; unfold fpK4; split
  · ft_keys_w cmdSetEx
  · unfold cmdSetEx; ft_none

theorem t_setnx : CmdFoot cmdSetNx (fpK3 true) := by
  intro env args; unfold fpK3; split
  · ft_keys_w cmdSetNx
  · unfold cmdSetNx; ft_none

theorem t_strlen : CmdFoot cmdStrLen (fpK2 false) := by
  intro env args; unfold fpK2; split
  · ft_keys_r cmdStrLen
  · unfold cmdStrLen; ft_none

theorem t_append : CmdFoot cmdAppend (fpK3 true) := by
  intro env args; unfold fpK3; split
  · ft_keys_w cmdAppend
  · unfold cmdAppend; ft_none

theorem t_incr : CmdFoot cmdIncr (fpK2 true) := by
  intro env args; unfold fpK2; split
  · ft_keys_w cmdIncr incrBy
  · unfold cmdIncr; ft_none

theorem t_decr : CmdFoot cmdDecr (fpK2 true) := by
  intro env args; unfold fpK2; split
  · ft_keys_w cmdDecr incrBy
  · unfold cmdDecr; ft_none

theorem t_incrby : CmdFoot cmdIncrBy (fpK3 true) := by
  intro env args; unfold fpK3; split
  · ft_keys_w cmdIncrBy incrBy
  · unfold cmdIncrBy; ft_none

theorem t_decrby : CmdFoot cmdDecrBy (fpK3 true) := by
  intro env args; unfold fpK3; split
  · ft_keys_w cmdDecrBy incrBy
  · unfold cmdDecrBy; ft_none

theorem t_incrbyfloat : CmdFoot cmdIncrByFloat (fpK3 true) := by
  intro env args; unfold fpK3; split
  · ft_keys_w cmdIncrByFloat
  · unfold cmdIncrByFloat; ft_none

theorem t_ping : CmdFoot cmdPing fpNone := by
  intro env args; unfold fpNone; unfold cmdPing; ft_none

theorem t_expire : CmdFoot cmdExpire fpExpire := by
  intro env args; unfold fpExpire; split
  · split
    · unfold cmdExpire; dsimp only; ft_none
    · ft_keys_w cmdExpire
  · unfold cmdExpire; ft_none

theorem t_persist : CmdFoot cmdPersist (fpK2 true) := by
  intro env args; unfold fpK2; split
  · ft_keys_w cmdPersist
  · unfold cmdPersist; ft_none

theorem t_ttl : CmdFoot cmdTTL (fpK2 false) := by
  intro env args; unfold fpK2; split
  · ft_keys_r cmdTTL
  · unfold cmdTTL; ft_none

theorem t_type : CmdFoot cmdType (fpK2 false) := by
  intro env args; unfold fpK2; split
  · ft_keys_r cmdType
  · unfold cmdType; ft_none

theorem t_rename : CmdFoot cmdRename fpRename := by
  intro env args; unfold fpRename; split
  · ft_keys_w cmdRename
  · unfold cmdRename; ft_none

/-! ### misc table -/
theorem t_publish : CmdFoot cmdPublishNoSubs fpNone := by
  intro env args; unfold fpNone; unfold cmdPublishNoSubs; ft_none
theorem t_member : CmdFoot cmdMemberStandalone fpNone := by
  intro env args; unfold fpNone; unfold cmdMemberStandalone; ft_none
theorem t_rconf : CmdFoot cmdRconfStandalone fpNone := by
  intro env args; unfold fpNone; unfold cmdRconfStandalone; ft_none

/-! ### key loops: MGET, MSET, DEL, EXISTS -/

theorem mget_loc {ks₀ : List Bytes} (now : Int) : ∀ (ks : List Bytes) (a b : Db) (acc : List Reply), (∀ k ∈ ks, k ∈ ks₀) → Agree ks₀ a b →
    LRes ks₀ (mgetLoop now a ks acc) (mgetLoop now b ks acc)
| [], a, b, acc, _, hs => by unfold mgetLoop; exact ⟨rfl, hs⟩
| k :: ks, a, b, acc, hsub, hs => by
  unfold mgetLoop
  obtain ⟨a', b', x, hca, hcb, hs'⟩ := Agree.ttl hs now (hsub k List.mem_cons_self)
  simp only [hca, hcb, C06T.getStr_congr (hs' k (hsub k List.mem_cons_self))]
  exact mget_loc now ks _ _ _ (fun k' hk' => hsub k' (List.mem_cons_of_mem _ hk')) hs'

theorem mget_frm {ks₀ : List Bytes} {a₀ : Db} (now : Int) : ∀ (ks : List Bytes) (a : Db) (acc : List Reply), (∀ k ∈ ks, k ∈ ks₀) → Frm ks₀ a₀ a →
    Frm ks₀ a₀ (mgetLoop now a ks acc).2
| [], a, acc, _, h => by unfold mgetLoop; exact h
| k :: ks, a, acc, hsub, h => by
  unfold mgetLoop
  exact mget_frm now ks _ _ (fun k' hk' => hsub k' (List.mem_cons_of_mem _ hk')) (h.ttl now (hsub k List.mem_cons_self))

theorem mget_ro {a₀ : Db} (now : Int) : ∀ (ks : List Bytes) (a : Db) (acc : List Reply), RO now a₀ a → RO now a₀ (mgetLoop now a ks acc).2
| [], a, acc, h => by unfold mgetLoop; exact h
| k :: ks, a, acc, h => by
  unfold mgetLoop
  exact mget_ro now ks _ _ (h.ttl k)

theorem t_mget : CmdFoot cmdMGet (fpAll false) := by
  intro env args; unfold fpAll; split
  · rename_i x k ks
    refine KeysOk.mk (fun a b hs => ?_) (fun a => ?_) (fun _ a => ?_) <;> unfold cmdMGet <;> dsimp only
    · have h := mget_loc env.now (k :: ks) a b [] (fun _ h => h) hs
      exact ⟨by rw [h.1], h.2⟩
    · exact mget_frm env.now (k :: ks) a [] (fun _ h => h) (Frm.refl _ _)
    · exact mget_ro env.now (k :: ks) a [] (RO.refl _ _)
  · unfold cmdMGet; ft_none

theorem mset_loc {ks₀ : List Bytes} : ∀ (rest : List Bytes) (a b : Db), Agree ks₀ a b → Agree ks₀ (msetLoop a rest) (msetLoop b rest)
| [], _, _, hs => by unfold msetLoop; exact hs
| [_], _, _, hs => by unfold msetLoop; exact hs
| k :: v :: rest, a, b, hs => by
  unfold msetLoop
  exact mset_loc rest _ _ (hs.setFresh k _)

theorem mset_frm {ks₀ : List Bytes} {a₀ : Db} : ∀ (rest : List Bytes) (a : Db), (∀ k ∈ msetKeys rest, k ∈ ks₀) → Frm ks₀ a₀ a →
    Frm ks₀ a₀ (msetLoop a rest)
| [], _, _, h => by unfold msetLoop; exact h
| [_], _, _, h => by unfold msetLoop; exact h
| k :: v :: rest, a, hsub, h => by
  unfold msetLoop
  refine mset_frm rest _ (fun k' hk' => hsub k' ?_) (h.setFresh (hsub k ?_) _)
  · unfold msetKeys; exact List.mem_cons_of_mem _ hk'
  · unfold msetKeys; exact List.mem_cons_self

theorem t_mset : CmdFoot cmdMSet fpMSet := by
  intro env args; unfold fpMSet; split
  · rename_i x rest
    split
    · rename_i hbad
      intro a; unfold cmdMSet; simp only [if_pos hbad]
      exact ⟨trivial, fun _ => trivial⟩
    · rename_i hgood
      refine KeysOk.mk (fun a b hs => ?_) (fun a => ?_) (fun hw => Bool.noConfusion hw) <;> unfold cmdMSet <;> simp only [if_neg hgood]
      · exact ⟨rfl, mset_loc rest a b hs⟩
      · exact mset_frm rest a (fun _ h => h) (Frm.refl _ _)
  · unfold cmdMSet; ft_none

theorem del_loc {ks₀ : List Bytes} (now : Int) : ∀ (ks : List Bytes) (a b : Db) (n : Nat), (∀ k ∈ ks, k ∈ ks₀) → Agree ks₀ a b →
    LRes ks₀ (delLoop now a ks n) (delLoop now b ks n)
| [], a, b, n, _, hs => by unfold delLoop; exact ⟨rfl, hs⟩
| k :: ks, a, b, n, hsub, hs => by
  unfold delLoop
  obtain ⟨a', b', x, hca, hcb, hs'⟩ := Agree.ttl hs now (hsub k List.mem_cons_self)
  simp only [hca, hcb, C06T.has_congr (hs' k (hsub k List.mem_cons_self))]
  split
  · exact del_loc now ks _ _ _ (fun k' hk' => hsub k' (List.mem_cons_of_mem _ hk')) (hs'.del k)
  · exact del_loc now ks _ _ _ (fun k' hk' => hsub k' (List.mem_cons_of_mem _ hk')) hs'

theorem del_frm {ks₀ : List Bytes} {a₀ : Db} (now : Int) : ∀ (ks : List Bytes) (a : Db) (n : Nat), (∀ k ∈ ks, k ∈ ks₀) → Frm ks₀ a₀ a →
    Frm ks₀ a₀ (delLoop now a ks n).2
| [], a, n, _, h => by unfold delLoop; exact h
| k :: ks, a, n, hsub, h => by
  unfold delLoop
  dsimp only
  have hk := hsub k List.mem_cons_self
  have hsub' : ∀ k' ∈ ks, k' ∈ ks₀ := fun k' hk' => hsub k' (List.mem_cons_of_mem _ hk')
  split
  · exact del_frm now ks _ _ hsub' ((h.ttl now hk).del hk)
  · exact del_frm now ks _ _ hsub' (h.ttl now hk)

theorem t_del : CmdFoot cmdDel (fpAll true) := by
  intro env args; unfold fpAll; split
  · rename_i x k ks
    refine KeysOk.mk (fun a b hs => ?_) (fun a => ?_) (fun hw => Bool.noConfusion hw) <;> unfold cmdDel <;> dsimp only
    · have h := del_loc env.now (k :: ks) a b 0 (fun _ h => h) hs
      exact ⟨by rw [h.1], h.2⟩
    · exact del_frm env.now (k :: ks) a 0 (fun _ h => h) (Frm.refl _ _)
  · unfold cmdDel; ft_none

theorem exists_loc {ks₀ : List Bytes} (now : Int) : ∀ (ks : List Bytes) (a b : Db) (n : Nat), (∀ k ∈ ks, k ∈ ks₀) → Agree ks₀ a b →
    LRes ks₀ (existsLoop now a ks n) (existsLoop now b ks n)
| [], a, b, n, _, hs => by unfold existsLoop; exact ⟨rfl, hs⟩
| k :: ks, a, b, n, hsub, hs => by
  unfold existsLoop
  obtain ⟨a', b', x, hca, hcb, hs'⟩ := Agree.ttl hs now (hsub k List.mem_cons_self)
  simp only [hca, hcb, C06T.has_congr (hs' k (hsub k List.mem_cons_self))]
  exact exists_loc now ks _ _ _ (fun k' hk' => hsub k' (List.mem_cons_of_mem _ hk')) hs'

theorem exists_frm {ks₀ : List Bytes} {a₀ : Db} (now : Int) : ∀ (ks : List Bytes) (a : Db) (n : Nat), (∀ k ∈ ks, k ∈ ks₀) → Frm ks₀ a₀ a →
    Frm ks₀ a₀ (existsLoop now a ks n).2
| [], a, n, _, h => by unfold existsLoop; exact h
| k :: ks, a, n, hsub, h => by
  unfold existsLoop
  exact exists_frm now ks _ _ (fun k' hk' => hsub k' (List.mem_cons_of_mem _ hk')) (h.ttl now (hsub k List.mem_cons_self))

theorem exists_ro {a₀ : Db} (now : Int) : ∀ (ks : List Bytes) (a : Db) (n : Nat), RO now a₀ a → RO now a₀ (existsLoop now a ks n).2
| [], a, n, h => by unfold existsLoop; exact h
| k :: ks, a, n, h => by
  unfold existsLoop
  exact exists_ro now ks _ _ (h.ttl k)

theorem t_exists : CmdFoot cmdExists (fpAll false) := by
  intro env args; unfold fpAll; split
  · rename_i x k ks
    refine KeysOk.mk (fun a b hs => ?_) (fun a => ?_) (fun _ a => ?_) <;> unfold cmdExists <;> dsimp only
    · have h := exists_loc env.now (k :: ks) a b 0 (fun _ h => h) hs
      exact ⟨by rw [h.1], h.2⟩
    · exact exists_frm env.now (k :: ks) a 0 (fun _ h => h) (Frm.refl _ _)
    · exact exists_ro env.now (k :: ks) a 0 (RO.refl _ _)
  · unfold cmdExists; ft_none

/-! ### KEYS (`whole`) -/

/-- removing every expired entry is within `RO` -/
theorem ro_live {a : Db} (ha : a.WF) (now : Int) : RO now a (live a now) := by
  intro k
  rw [get_live a ha now k]
  cases hg : a.get k with
  | none => left; rfl
  | some e =>
    by_cases hl : e.liveAt now = true
    · left; simp [hl]
    · right
      refine ⟨by simp [hl], ?_⟩
      unfold Entry.liveAt at hl
      cases hd : e.exp with
      | none => simp [hd] at hl
      | some d => exact ⟨e, d, rfl, hd, by simp [hd] at hl; omega⟩

theorem t_keys : CmdFoot cmdKeys fpKeys := by
  intro env args; unfold fpKeys; split
  · rename_i x pat
    refine ⟨fun a ha => ?_, fun a b ha hb hab => ?_⟩
    · unfold cmdKeys; exact ro_live ha _
    · have hs : C06T.Sim env.now a b := C06T.Sim.of_vis ha hb (fun k => by rw [hab k])
      have h := C06T.c_keys env a b [x, pat] hs
      refine ⟨h.1, fun k => ?_⟩
      have hl := h.2.live k
      unfold cmdKeys at hl ⊢
      dsimp only at hl ⊢
      rw [C06T.live_idem, C06T.live_idem] at hl
      exact hl
  · unfold cmdKeys; ft_none

end Exec.Foot
