import RedisGoModel.Props.C05Atomic
/-! # C13 / C05 — the per-key-loop commands DEL, EXISTS, MGET as they ARE: one single-stripe block per key

`Props/C05Atomic.lean` models every command as ONE block over its footprint.  For DEL / EXISTS / MGET that is STRONGER than the code:
their Go executors loop over the keys and take, use and release one stripe per key (`delKey`: `Lock(k) … UnLock(k)` inside the loop;
`existsKey`, `mGetString`: `CheckTTL(k); RLock(k) … RUnLock(k)`).  Between two keys another client's command can run.  Here they are
modelled as the code runs them — `expand`: the command `NAME k₁ … kₙ` becomes the program `NAME k₁; …; NAME kₙ` of single-key blocks
(each with the footprint `[kᵢ]`, write mode for DEL, read mode for EXISTS / MGET), the reply is the aggregate of the per-key replies
(`aggregate`: the sum of the counts, the concatenation of the one-element arrays).

* `split_del` / `split_exists` / `split_mget` — run WITHOUT interruption, the per-key program is the command: the model executor
  (`cmdDel`, `cmdExists`, `cmdMGet` — what `Exec.exec` dispatches "del", "exists", "mget" to, see `stringKeyTable`; `exec_of_lookup`)
  answers the aggregate of the per-key replies, each computed on the keyspace its predecessors left, and leaves the same keyspace.
* **`perkey_loop_linearizable_per_key`** — any number of clients, each running any list of commands, the per-key-loop commands expanded
  into their per-key blocks, every micro-step interleaving: each per-key sub-operation is atomic — final keyspace and every
  sub-operation's reply are those of the sequential run of the SUB-OPERATIONS (through `execB`) in the order of their own commit points —
  and a loop command's reply is the aggregate of its sub-replies (`commandReplies`).  THIS IS WEAKER THAN ATOMICITY OF THE COMMAND: the
  commit points of `NAME k₁` and `NAME k₂` need not be adjacent; the command as a whole has no single linearization point.
* `perkey_not_atomic_across_keys` — and indeed it has none: `MGET a b` against `MSET a v b v`, commit order
  `MGET a · MSET a v b v · MGET b`, answers `[nil, v]`, which no atomic execution of `MGET a b` can answer (`[nil, nil]` before the MSET,
  `[v, v]` after it) — as in the code.  The anomaly is exhibited on the block-level semantics (`seqRunWith execB` along the commit order
  `[0, 1, 0]`), to which every micro-step execution with that commit order is equal by `perkey_loop_linearizable_per_key`; that some
  micro-step execution HAS this commit order (run the three blocks to completion one after the other) is not proved as a theorem.

KEYS stays excluded here (`NoWhole`); what its walk guarantees is `Props/C05Walk.lean`. -/
namespace Exec.PerKey
open Resp (Reply Bytes)
open Exec

inductive Kind | del | exists_ | mget
deriving DecidableEq

def kindOfName (name : Bytes) : Option Kind :=
  if lower name == ofStr "del" then some .del
  else if lower name == ofStr "exists" then some .exists_
  else if lower name == ofStr "mget" then some .mget
  else none

/-- the per-key program of a command: `NAME k₁ … kₙ` ↦ `NAME k₁; …; NAME kₙ` for DEL / EXISTS / MGET with at least one key; every
    other command is its own single block -/
def expand1 (ea : Env × List Bytes) : List (Env × List Bytes) :=
  match ea.2 with
  | name :: k :: ks => (match kindOfName name with
    | some _ => (k :: ks).map fun k' => (ea.1, [name, k'])
    | none => [ea])
  | _ => [ea]

def expand (cmds : List (Env × List Bytes)) : List (Env × List Bytes) := cmds.flatMap expand1

def intOf : Reply → Int | .int n => n | _ => 0
def elemsOf : Reply → List Reply | .arr (some l) => l | _ => []

/-- the reply of a loop command from the replies of its per-key sub-operations -/
def aggregate : Kind → List Reply → Reply
| .del, rs => .int (rs.map intOf).sum
| .exists_, rs => .int (rs.map intOf).sum
| .mget, rs => arrOf (rs.flatMap elemsOf)

/-- the command-level replies of a client from the replies of its sub-operations (in program order) -/
def commandReplies : List (Env × List Bytes) → List Reply → List Reply
| [], _ => []
| ea :: rest, rs =>
  let n := (expand1 ea).length
  (match ea.2 with
   | name :: _ :: _ => (match kindOfName name with
     | some kd => aggregate kd (rs.take n)
     | none => (rs.take n).headD nil)
   | _ => (rs.take n).headD nil) :: commandReplies rest (rs.drop n)

/-! ### run without interruption, the per-key program is the command -/

/-- the sub-operations `c [name, k]` one after the other on the evolving keyspace -/
def runKeys (c : Cmd) (env : Env) (name : Bytes) : Db → List Bytes → List Reply × Db
| db, [] => ([], db)
| db, k :: ks => ((c env db [name, k]).1 :: (runKeys c env name (c env db [name, k]).2 ks).1, (runKeys c env name (c env db [name, k]).2 ks).2)

theorem exec_of_lookup {c : Cmd} {name : Bytes} (hc : lookupCmd (lower name) = some c) (env : Env) (db : Db) (rest : List Bytes) :
    exec env db (name :: rest) = c env db (name :: rest) := by
  simp only [exec, hc]

/-- one round of the DEL loop -/
def delOne (now : Int) (db : Db) (k : Bytes) : Nat × Db :=
  if (checkTTL db now k).1.has k then (1, (checkTTL db now k).1.del k) else (0, (checkTTL db now k).1)

theorem delLoop_step (now : Int) (k : Bytes) (ks : List Bytes) (db : Db) (n : Nat) :
    delLoop now db (k :: ks) n = delLoop now (delOne now db k).2 ks (n + (delOne now db k).1) := by
  rw [delLoop.eq_2]; unfold delOne; dsimp only; split <;> rfl

theorem delLoop_acc (now : Int) : ∀ (ks : List Bytes) (db : Db) (n : Nat),
    delLoop now db ks n = (n + (delLoop now db ks 0).1, (delLoop now db ks 0).2)
| [], db, n => by simp [delLoop]
| k :: ks, db, n => by
  rw [delLoop_step now k ks db n, delLoop_step now k ks db 0, delLoop_acc now ks _ (n + _), delLoop_acc now ks _ (0 + _)]
  simp only [Prod.mk.injEq, and_true]; omega

theorem runKeys_del (env : Env) (name : Bytes) : ∀ (ks : List Bytes) (db : Db),
    ((runKeys cmdDel env name db ks).1.map intOf).sum = ((delLoop env.now db ks 0).1 : Int) ∧
    (runKeys cmdDel env name db ks).2 = (delLoop env.now db ks 0).2
| [], db => by simp [runKeys, delLoop]
| k :: ks, db => by
  have h1 : cmdDel env db [name, k] = (.int (delOne env.now db k).1, (delOne env.now db k).2) := by
    show ((.int (delLoop env.now db [k] 0).1 : Reply), (delLoop env.now db [k] 0).2) = _
    rw [delLoop_step, delLoop.eq_1]; simp
  have ih := runKeys_del env name ks (delOne env.now db k).2
  rw [runKeys, h1, delLoop_step, delLoop_acc]
  dsimp only
  refine ⟨?_, ih.2⟩
  rw [List.map_cons, List.sum_cons, ih.1]
  simp only [intOf]; omega

/-- **DEL**: uninterrupted, the per-key program answers and leaves what `cmdDel` does -/
theorem split_del (env : Env) (db : Db) (name k : Bytes) (ks : List Bytes) :
    cmdDel env db (name :: k :: ks) = (aggregate .del (runKeys cmdDel env name db (k :: ks)).1, (runKeys cmdDel env name db (k :: ks)).2) := by
  obtain ⟨h1, h2⟩ := runKeys_del env name (k :: ks) db
  have : cmdDel env db (name :: k :: ks) = (.int (delLoop env.now db (k :: ks) 0).1, (delLoop env.now db (k :: ks) 0).2) := rfl
  rw [this]; simp only [aggregate, h1, h2]

/-- one round of the EXISTS loop -/
def existsOne (now : Int) (db : Db) (k : Bytes) : Nat × Db :=
  (if (checkTTL db now k).1.has k then 1 else 0, (checkTTL db now k).1)

theorem existsLoop_step (now : Int) (k : Bytes) (ks : List Bytes) (db : Db) (n : Nat) :
    existsLoop now db (k :: ks) n = existsLoop now (existsOne now db k).2 ks (n + (existsOne now db k).1) := by
  rw [existsLoop.eq_2]; unfold existsOne; dsimp only; split <;> rfl

theorem existsLoop_acc (now : Int) : ∀ (ks : List Bytes) (db : Db) (n : Nat),
    existsLoop now db ks n = (n + (existsLoop now db ks 0).1, (existsLoop now db ks 0).2)
| [], db, n => by simp [existsLoop]
| k :: ks, db, n => by
  rw [existsLoop_step now k ks db n, existsLoop_step now k ks db 0, existsLoop_acc now ks _ (n + _), existsLoop_acc now ks _ (0 + _)]
  simp only [Prod.mk.injEq, and_true]; omega

theorem runKeys_exists (env : Env) (name : Bytes) : ∀ (ks : List Bytes) (db : Db),
    ((runKeys cmdExists env name db ks).1.map intOf).sum = ((existsLoop env.now db ks 0).1 : Int) ∧
    (runKeys cmdExists env name db ks).2 = (existsLoop env.now db ks 0).2
| [], db => by simp [runKeys, existsLoop]
| k :: ks, db => by
  have h1 : cmdExists env db [name, k] = (.int (existsOne env.now db k).1, (existsOne env.now db k).2) := by
    show ((.int (existsLoop env.now db [k] 0).1 : Reply), (existsLoop env.now db [k] 0).2) = _
    rw [existsLoop_step, existsLoop.eq_1]; simp
  have ih := runKeys_exists env name ks (existsOne env.now db k).2
  rw [runKeys, h1, existsLoop_step, existsLoop_acc]
  dsimp only
  refine ⟨?_, ih.2⟩
  rw [List.map_cons, List.sum_cons, ih.1]
  simp only [intOf]; omega

/-- **EXISTS** -/
theorem split_exists (env : Env) (db : Db) (name k : Bytes) (ks : List Bytes) :
    cmdExists env db (name :: k :: ks) =
      (aggregate .exists_ (runKeys cmdExists env name db (k :: ks)).1, (runKeys cmdExists env name db (k :: ks)).2) := by
  obtain ⟨h1, h2⟩ := runKeys_exists env name (k :: ks) db
  have : cmdExists env db (name :: k :: ks) = (.int (existsLoop env.now db (k :: ks) 0).1, (existsLoop env.now db (k :: ks) 0).2) := rfl
  rw [this]; simp only [aggregate, h1, h2]

/-- one round of the MGET loop -/
def mgetOne (now : Int) (db : Db) (k : Bytes) : Reply × Db :=
  ((match getStr (checkTTL db now k).1 k with | some (some b) => bulk b | _ => nil), (checkTTL db now k).1)

theorem mgetLoop_step (now : Int) (k : Bytes) (ks : List Bytes) (db : Db) (acc : List Reply) :
    mgetLoop now db (k :: ks) acc = mgetLoop now (mgetOne now db k).2 ks ((mgetOne now db k).1 :: acc) := by
  rw [mgetLoop.eq_2]; rfl

theorem mgetLoop_acc (now : Int) : ∀ (ks : List Bytes) (db : Db) (acc : List Reply),
    mgetLoop now db ks acc = (acc.reverse ++ (mgetLoop now db ks []).1, (mgetLoop now db ks []).2)
| [], db, acc => by simp [mgetLoop]
| k :: ks, db, acc => by
  rw [mgetLoop_step now k ks db acc, mgetLoop_step now k ks db [], mgetLoop_acc now ks _ (_ :: acc), mgetLoop_acc now ks _ [_]]
  simp

theorem runKeys_mget (env : Env) (name : Bytes) : ∀ (ks : List Bytes) (db : Db),
    (runKeys cmdMGet env name db ks).1.flatMap elemsOf = (mgetLoop env.now db ks []).1 ∧
    (runKeys cmdMGet env name db ks).2 = (mgetLoop env.now db ks []).2
| [], db => by simp [runKeys, mgetLoop]
| k :: ks, db => by
  have h1 : cmdMGet env db [name, k] = (arrOf [(mgetOne env.now db k).1], (mgetOne env.now db k).2) := by
    show (arrOf (mgetLoop env.now db [k] []).1, (mgetLoop env.now db [k] []).2) = _
    rw [mgetLoop_step, mgetLoop.eq_1]; simp
  have ih := runKeys_mget env name ks (mgetOne env.now db k).2
  rw [runKeys, h1, mgetLoop_step, mgetLoop_acc]
  dsimp only
  refine ⟨?_, ih.2⟩
  rw [List.flatMap_cons, ih.1]
  simp [elemsOf, arrOf]

/-- **MGET** -/
theorem split_mget (env : Env) (db : Db) (name k : Bytes) (ks : List Bytes) :
    cmdMGet env db (name :: k :: ks) = (aggregate .mget (runKeys cmdMGet env name db (k :: ks)).1, (runKeys cmdMGet env name db (k :: ks)).2) := by
  obtain ⟨h1, h2⟩ := runKeys_mget env name (k :: ks) db
  have : cmdMGet env db (name :: k :: ks) = (arrOf (mgetLoop env.now db (k :: ks) []).1, (mgetLoop env.now db (k :: ks) []).2) := rfl
  rw [this]; simp only [aggregate, h1, h2]

/-! ### under any interleaving: atomic per key -/

/-- a client with its per-key-loop commands expanded into their per-key blocks -/
def expandClient (c : Client) : Client := ⟨expand c.todo, c.replies⟩

/-- **what DEL / EXISTS / MGET guarantee**: `n` clients run their commands with the loop commands expanded (`expandClient`), each
    sub-operation a block over its one key, under every micro-step interleaving (`tr` = commit-point order of the blocks); when all
    clients are between blocks, the keyspace and the replies of ALL sub-operations are those of running the sub-operations one at a
    time (`execB`) in commit-point order — each key's sub-operation is atomic, at its own commit point — and every command's reply is
    `commandReplies` of them: for a loop command the aggregate of its per-key results.  Nothing is claimed about the commit points of
    one command's sub-operations being adjacent (they need not be: `perkey_not_atomic_across_keys`). -/
theorem perkey_loop_linearizable_per_key {n : Nat} (db₀ : Db) (cl : Fin n → Client) (hn : NoWhole fun i => expandClient (cl i))
    {c' : Cc.Conc Bytes (Option Entry) Client n} {tr : List (Fin n)}
    (e : Cc.Exec view ⟨db₀.get, fun i => .idle (expandClient (cl i))⟩ tr c') (q : Fin n → Client) (hq : ∀ i, c'.th i = .idle (q i)) :
    c'.db = (seqRunWith execB ⟨db₀, fun i => expandClient (cl i)⟩ tr).db.get ∧
    (∀ i, (q i).replies = ((seqRunWith execB ⟨db₀, fun i => expandClient (cl i)⟩ tr).cl i).replies) ∧
    (∀ i, commandReplies (cl i).todo ((q i).replies.drop (cl i).replies.length) =
          commandReplies (cl i).todo ((((seqRunWith execB ⟨db₀, fun i => expandClient (cl i)⟩ tr).cl i).replies).drop (cl i).replies.length)) := by
  obtain ⟨h1, h2⟩ := table_atomicity_partial db₀ (fun i => expandClient (cl i)) hn e q hq
  refine ⟨h1, fun i => by rw [h2], fun i => by rw [h2]⟩

/-! ### … and not atomic across keys -/

def kA : Bytes := [97]
def kB : Bytes := [98]
def vV : Bytes := [118]
def env0 : Env := { now := 0 }

/-- client 0: `MGET a b`; client 1: `MSET a v b v` -/
def exCl : Fin 2 → Client := fun i =>
  if i = 0 then ⟨[(env0, [ofStr "MGET", kA, kB])], []⟩ else ⟨[(env0, [ofStr "MSET", kA, vV, kB, vV])], []⟩

/-- the commit order `MGET a · MSET · MGET b` -/
def exTr : List (Fin 2) := [0, 1, 0]

def exFinal : Seq 2 := seqRunWith execB ⟨[], fun i => expandClient (exCl i)⟩ exTr

theorem ex_noWhole : NoWhole fun i => expandClient (exCl i) := by
  have h0 : footprint [ofStr "MGET", kA] = .keys [kA] false := by decide +kernel
  have h1 : footprint [ofStr "MGET", kB] = .keys [kB] false := by decide +kernel
  have h2 : footprint [ofStr "MSET", kA, vV, kB, vV] = .keys [kA, kB] true := by decide +kernel
  have hk0 : kindOfName (ofStr "MGET") = some .mget := by decide +kernel
  have hk1 : kindOfName (ofStr "MSET") = none := by decide +kernel
  have e0 : (expandClient (exCl 0)).todo = [(env0, [ofStr "MGET", kA]), (env0, [ofStr "MGET", kB])] := by
    simp [expandClient, exCl, expand, expand1, hk0]
  have e1 : (expandClient (exCl 1)).todo = [(env0, [ofStr "MSET", kA, vV, kB, vV])] := by
    simp [expandClient, exCl, expand, expand1, hk1]
  intro i ea hea
  have hi : i = 0 ∨ i = 1 := by omega
  rcases hi with rfl | rfl
  · rw [e0] at hea
    simp only [List.mem_cons, List.mem_nil_iff, or_false] at hea
    rcases hea with rfl | rfl
    · rw [h0]; exact fun h => nomatch h
    · rw [h1]; exact fun h => nomatch h
  · rw [e1] at hea
    simp only [List.mem_cons, List.mem_nil_iff, or_false] at hea
    subst hea
    rw [h2]; exact fun h => nomatch h

/-- **MGET is not atomic across its keys** (in the model as in the code): with the commit order `MGET a · MSET a v b v · MGET b` the
    client is answered `[nil, v]`; an atomic `MGET a b` can only answer `[nil, nil]` (before the MSET) or `[v, v]` (after it) -/
theorem perkey_not_atomic_across_keys :
    replyEq ((commandReplies (exCl 0).todo (exFinal.cl 0).replies).headD nil) (arrOf [nil, bulk vV]) = true ∧
    replyEq (exec env0 [] [ofStr "MGET", kA, kB]).1 (arrOf [nil, nil]) = true ∧
    replyEq (exec env0 (exec env0 [] [ofStr "MSET", kA, vV, kB, vV]).2 [ofStr "MGET", kA, kB]).1 (arrOf [bulk vV, bulk vV]) = true := by
  refine ⟨by decide +kernel, by decide +kernel, by decide +kernel⟩

end Exec.PerKey
