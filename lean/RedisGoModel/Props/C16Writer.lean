import RedisGoModel.Props.C16Cut
/-! C16: the writer of File.lean (`encoder.encode` through the `PageWriter`) produces the byte strings the reader
    theorems are about: written-plus-buffered bytes are `encodeFrame (crcRec c) ++ encodeAll crcUpdate c items`, and the
    file `wal.Create` leaves on disk reads back, through `recLoop`, as exactly its three records. -/
namespace WalFile
open WalCodec

/-- the PageWriter only moves bytes from the buffer to the file -/
theorem pwWrite_concat (flushed : Nat) (buf p : Bytes) :
    (pwWrite flushed buf p).1 ++ (pwWrite flushed buf p).2 = buf ++ p := by
  unfold pwWrite
  split
  · simp
  · simp only
    split
    · simp
    · simp only [List.append_assoc, List.take_append_drop]

/-- everything handed to the writer so far: on disk, or still in the PageWriter buffer -/
def Writer.bytes (w : Writer) : Bytes := w.tail ++ w.buf

theorem Writer.write_bytes (w : Writer) (p : Bytes) : (w.write p).bytes = w.bytes ++ p := by
  unfold Writer.write Writer.bytes
  simp only [List.append_assoc]
  rw [pwWrite_concat]
theorem Writer.write_crc (w : Writer) (p : Bytes) : (w.write p).crc = w.crc := rfl
theorem Writer.write_tailSize (w : Writer) (p : Bytes) : (w.write p).tailSize = w.tailSize := rfl
theorem Writer.encode_tailSize (w : Writer) (type : Nat) (data : Option Bytes) : (w.encode type data).tailSize = w.tailSize := rfl
theorem Writer.flush_tailSize (w : Writer) : w.flush.tailSize = w.tailSize := rfl
theorem Writer.flush_tail (w : Writer) : w.flush.tail = w.bytes := rfl
theorem Writer.flush_buf (w : Writer) : w.flush.buf = [] := rfl

/-- `encoder.encode` appends one frame, with the rolling CRC in its crc field -/
theorem Writer.encode_bytes (w : Writer) (type : Nat) (data : Option Bytes) :
    (w.encode type data).bytes = w.bytes ++ encodeFrame ⟨type, crcUpdate w.crc (data.getD []), data⟩ ∧
    (w.encode type data).crc = crcUpdate w.crc (data.getD []) := by
  unfold Writer.encode
  simp only
  refine ⟨?_, rfl⟩
  rw [Writer.write_bytes, Writer.write_bytes]
  simp only [encodeFrame, List.append_assoc]
  rfl

theorem crcUpdate_nil (c : Nat) : crcUpdate c [] = c := by
  unfold crcUpdate Crc3.update toNats
  simp only [List.map_nil, List.foldl_nil, Nat.xor_assoc, Nat.xor_self, Nat.xor_zero]

/-- the writer invariant: the bytes of the current segment are its CRC record followed by the chained data frames -/
def Writer.Inv (w : Writer) (c : Nat) (items : List Item) : Prop :=
  w.bytes = encodeFrame (crcRec c) ++ encodeAll crcUpdate c items ∧ w.crc = crcAfter crcUpdate c items

theorem Writer.Inv_encode (w : Writer) (c : Nat) (items : List Item) (h : w.Inv c items) (type : Nat) (data : Bytes) :
    (w.encode type (some data)).Inv c (items ++ [⟨type, data⟩]) := by
  obtain ⟨h1, h2⟩ := w.encode_bytes type (some data)
  refine ⟨?_, ?_⟩
  · rw [h1, h.1, encodeAll_append, ← h.2]
    simp [encodeAll]
  · rw [h2, crcAfter_append, ← h.2]; rfl

theorem Writer.Inv_flush (w : Writer) (c : Nat) (items : List Item) (h : w.Inv c items) : w.flush.Inv c items := by
  refine ⟨?_, h.2⟩
  rw [← h.1]; simp [Writer.bytes, Writer.flush]

theorem wsnap0_len : (marshalWSnap ⟨0, 0, none⟩).length = 4 := by
  have e : encVarint 0 = [0] := by rw [encVarint]; rfl
  simp [marshalWSnap, optField, e]

/-- `wal.Create` (with metadata): the file holds the CRC record, the metadata record and the initial snapshot record -/
theorem Writer.create_inv (segSize : Nat) (m : Bytes) :
    (Writer.create segSize (some m)).Inv 0 [⟨metadataType, m⟩, ⟨snapshotType, marshalWSnap ⟨0, 0, none⟩⟩] ∧
    (Writer.create segSize (some m)).buf = [] ∧ (Writer.create segSize (some m)).tailSize = segSize := by
  unfold Writer.create
  simp only
  refine ⟨?inv, Writer.flush_buf _, ?ts⟩
  case ts => rw [Writer.flush_tailSize, Writer.encode_tailSize, Writer.encode_tailSize, Writer.encode_tailSize]
  case inv =>
    generalize hw0 : ({ segSize := segSize, tailSize := segSize, metadata := some m } : Writer) = w0
    have hb0 : w0.bytes = [] := by rw [← hw0]; rfl
    have hc0 : w0.crc = 0 := by rw [← hw0]
    have hcrc : (w0.encode crcType none).Inv 0 [] := by
      obtain ⟨h1, h2⟩ := w0.encode_bytes crcType none
      have e : crcUpdate w0.crc ((none : Option Bytes).getD []) = 0 := by rw [hc0]; decide +kernel
      rw [e] at h1 h2
      exact ⟨by rw [h1, hb0]; simp [encodeAll, crcRec], by rw [h2]; rfl⟩
    have h2 := Writer.Inv_encode _ _ _ (Writer.Inv_encode _ _ _ hcrc metadataType m) snapshotType (marshalWSnap ⟨0, 0, none⟩)
    exact Writer.Inv_flush _ _ _ h2

/-- **create, then read**: the segment file `wal.Create` leaves on disk (frames, then the zeros of the preallocation)
    reads back through the file-level record loop as exactly the three records written, ending in a clean EOF.
    (`+ 8`: room for a zero length field after the frames; the preallocated size, 64 MB in etcd, is far larger.) -/
theorem create_readback (segSize : Nat) (m : Bytes) (hm : m.length < 2 ^ 55)
    (hseg : (Writer.create segSize (some m)).tail.length + 8 ≤ segSize) (fuel : Nat) :
    ∃ d', recLoop (2 + (fuel + 1) + 1) (Dec.open [(Writer.create segSize (some m)).tailImage]) =
        (crcRec 0 :: records crcUpdate 0 [⟨metadataType, m⟩, ⟨snapshotType, marshalWSnap ⟨0, 0, none⟩⟩], .decEof, d') := by
  obtain ⟨⟨hb, _⟩, hbuf, hts⟩ := Writer.create_inv segSize m
  revert hseg hb hbuf hts
  generalize Writer.create segSize (some m) = W
  generalize hits : [(⟨metadataType, m⟩ : Item), ⟨snapshotType, marshalWSnap ⟨0, 0, none⟩⟩] = items
  intro hseg hb hbuf hts
  have htail : W.tail = encodeFrame (crcRec 0) ++ encodeAll crcUpdate 0 items := by
    rw [← hb, Writer.bytes, hbuf, List.append_nil]
  have himg : W.tailImage = encodeFrame (crcRec 0) ++ (encodeAll crcUpdate 0 items ++
        List.replicate (segSize - W.tail.length) 0) := by
    unfold Writer.tailImage
    rw [hts, ← List.append_assoc, ← htail]
  have hend : EndOfWritten (List.replicate (segSize - W.tail.length) (0 : UInt8)) := by
    have hn : 8 ≤ segSize - W.tail.length := by omega
    generalize segSize - W.tail.length = n at hn
    right
    refine ⟨List.replicate (n - 8) 0, ?_⟩
    rw [List.replicate_append_replicate]
    have e : 8 + (n - 8) = n := by omega
    rw [e]
  have hok : ∀ it ∈ items, ItemOk it ∧ it.type ≠ crcType := by
    intro it hit
    rw [← hits] at hit
    simp only [List.mem_cons, List.not_mem_nil, or_false] at hit
    rcases hit with rfl | rfl
    · exact ⟨⟨show metadataType < 2 ^ 64 by decide, hm⟩, show metadataType ≠ crcType by decide⟩
    · exact ⟨⟨show snapshotType < 2 ^ 64 by decide,
        show (marshalWSnap ⟨0, 0, none⟩).length < 2 ^ 55 by rw [wsnap0_len]; decide⟩, show snapshotType ≠ crcType by decide⟩
  have hl : items.length = 2 := by rw [← hits]; rfl
  rw [himg, ← hl]
  rw [recLoop_segment 0 items (Dec.open [_]) rfl _ rfl (by decide) (Or.inl rfl) hok (by simp [Dec.open]) _]
  rw [recLoop_end _ _ rfl hend rfl]
  exact ⟨_, Prod.ext (by simp) (Prod.ext rfl rfl)⟩

#print axioms Writer.encode_bytes
#print axioms create_readback
end WalFile
