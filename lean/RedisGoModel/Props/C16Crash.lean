import RedisGoModel.Props.C16CrashAux
import RedisGoModel.Props.C16RepairG
import RedisGoModel.Props.C16
/-! # C16 — the property's sentence at the entry level, after a crash (partial)

    `C16.crash_readAll_prefix_partial`: the history is `hs ++ hu`; when the crash happens everything `hs` wrote is on
    stable storage (its last call ended with a sync; `ws`), the calls of `hu` have been issued but not synced and did not
    cut (`noCut`: the unsynced tail lies in the last segment file — a `cut` syncs). The directory found afterwards holds
    the closed segment files as they were and a last file `f` that, below the synced end, is what was written and,
    above it, has each 512-byte sector either as written or still zero (the `Crash` relation of WalTorn.lean).
    Then `ReadAll` (read mode: what a restarting node calls through `OpenForRead`, and what `Verify` walks) returns
    exactly what it returns on the *fully written* history `hs ++ hu'` for some `hu'` that is `hu` cut short at a record
    boundary (`CallPrefix`: whole calls, then possibly some of the entries of the next `Save`): every synced `Save` is
    in it, whole later records may follow, nothing else. So `readAll_entries` / `readAll_hardstate` /
    `readAll_snapshot_match` apply to the result, with `hs ++ hu'` as the history.

    **Partial** — what is assumed, and missing from the unconditional sentence:
    * `GNoCollision` on the unsynced items (a 32-bit CRC cannot exclude that a multi-sector record with some sectors
      zeroed still validates); sectors revert to zeros, not to older non-zero content;
    * the unsynced tail lies within one segment file and leaves room for a length field (`hroom`);
    * `crash_readAll_prefix_partial` is the read-mode statement (what a restarting node and `Verify` see);
      `crash_repair_readAll_prefix_partial` is the write-mode one: `Repair` (WalTornC.repair_torn_tail_gpartial) succeeds
      and `Open` + `ReadAll` on the repaired directory reaches a clean EOF with the same result and no error. Not covered:
      the write-mode `ZeroToEnd` that follows, and what later appends do to the region the interrupted write touched
      (the aftermath probe of the wal engine explores that on the real code). -/
namespace WalFile
open WalCodec

theorem closedFuel_succ (segs : List (List GItem × Bytes)) : closedFuel segs + 1 = gchainFuel segs := by
  induction segs with
  | nil => rfl
  | cons s rest ih => obtain ⟨i, t⟩ := s; simp only [closedFuel, gchainFuel]; omega

theorem totalLen_append_one (a : List Bytes) (f : Bytes) : totalLen (a ++ [f]) = totalLen a + f.length := by
  induction a with
  | nil => simp [totalLen]
  | cons x rest ih => rw [List.cons_append, totalLen_cons, totalLen_cons, ih]; omega

end WalFile

namespace C16
open WalCodec WalFile WalTorn WalTornC

/-- the writer when the last sync completed -/
def syncedWriter (segSize : Nat) (md : Option Bytes) (hs : List Call) : Writer := ((Writer.create segSize md).calls hs).flush

/-- … and after the unsynced calls -/
def tailWriter (segSize : Nat) (md : Option Bytes) (hs hu : List Call) : Writer := ((syncedWriter segSize md hs).calls hu).flush

theorem mismatch_prefix (start : Nat × Nat) (hs hu hu' : List Call) (hp : CallPrefix hu' hu)
    (h : ¬ Mismatch start (hs ++ hu)) : ¬ Mismatch start (hs ++ hu') := by
  obtain ⟨t, ht⟩ := snapsOf_prefix hu hu' hp
  intro hm
  apply h
  unfold Mismatch savedSnaps at hm ⊢
  rw [snapsOf_append] at hm ⊢
  rw [ht]
  simp only [List.any_cons, List.any_append, Bool.or_eq_true] at hm ⊢
  rcases hm with hm | hm | hm
  · exact Or.inl hm
  · exact Or.inr (Or.inl hm)
  · exact Or.inr (Or.inr (Or.inl hm))

/-- the second half of the crash theorems: the last file (as found, or repaired) reads, from the chain's rolling CRC,
    as the CRC record, the synced records and a prefix `p` of the unsynced items -/
theorem crash_finish (start : Nat × Nat) (md : Option Bytes) (hs hu : List Call) (hfu : ∀ c ∈ hu, c.Fits)
    (hok : SaveOk (hs ++ hu)) (hnm : ¬ Mismatch start (hs ++ hu)) (gs : GGhost)
    (hsem : applyItems start {} gs.all = specCalls start { metadata := md } (.snap ⟨0, 0, none⟩ :: hs))
    (hclosedok : ∀ s ∈ gnoTail gs.closed, (∀ it ∈ s.1, GItemOk it) ∧ EndOfWritten s.2)
    (f : Bytes) (n : Nat) (write : Bool)
    (hn1 : readFuel (gchainFiles 0 (gnoTail gs.closed) ++ [f]) = closedFuel (gnoTail gs.closed) + (n + 1))
    (p rest : List GItem) (hU : callsItems hu = p ++ rest)
    (hrec : (recLoop (n + 1) (decAt f 0 gs.crc0)).1 = crcRec gs.crc0 :: gRecords gs.crc0 (gs.cur ++ p))
    (hfin : (recLoop (n + 1) (decAt f 0 gs.crc0)).2.1 = .decEof ∨
      (write = false ∧ (recLoop (n + 1) (decAt f 0 gs.crc0)).2.1 = .decErr .ueof)) :
    ∃ hu', CallPrefix hu' hu ∧ SaveOk (hs ++ hu') ∧ ¬ Mismatch start (hs ++ hu') ∧
      ∃ R, placeCalls start.1 [] (hs ++ hu') = some R ∧
        (readAll write start (gchainFiles 0 (gnoTail gs.closed) ++ [f])).metadata = md ∧
        (readAll write start (gchainFiles 0 (gnoTail gs.closed) ++ [f])).state = refState (hs ++ hu') ∧
        (readAll write start (gchainFiles 0 (gnoTail gs.closed) ++ [f])).ents = R ∧
        (readAll write start (gchainFiles 0 (gnoTail gs.closed) ++ [f])).err =
          (if start ∈ savedSnaps (hs ++ hu') ∨ write = true then none else some .snapNotFound) ∧
        R.take ((refLog (hs ++ hu')).length - start.1) = (refLog (hs ++ hu')).filter (fun e => e.index > start.1) ∧
        (NoStale start.1 (hs ++ hu') → R = (refLog (hs ++ hu')).filter (fun e => e.index > start.1)) := by
  have hchain := recLoop_closed_then f (gnoTail gs.closed) hclosedok n
  have hcc : gchainCrc 0 (gnoTail gs.closed) = gs.crc0 := rfl
  rw [hcc] at hchain
  -- the surviving items are the items of a history cut short at a record boundary
  obtain ⟨hu', hpre, hpitems⟩ := callsItems_prefix hu p rest hU
  have hfu' := fits_prefix hu hu' hpre hfu
  have hok' : SaveOk (hs ++ hu') := histOk_append_prefix hs [] hu hu' hpre hok
  have hnm' := mismatch_prefix start hs hu hu' hpre hnm
  obtain ⟨R, hR, hRpre, hRex⟩ := placeCalls_refLog start.1 (hs ++ hu') hok'
  refine ⟨hu', hpre, hok', hnm', R, hR, ?_⟩
  -- the dispatch over the records read
  have hrecs : applyRecs start {} (recLoop (closedFuel (gnoTail gs.closed) + (n + 1))
      (Dec.open (gchainFiles 0 (gnoTail gs.closed) ++ [f]))).1 =
        specCalls start { metadata := md } (.snap ⟨0, 0, none⟩ :: (hs ++ hu')) := by
    rw [hchain]
    simp only
    rw [hrec, applyRecs_append, applyRecs_gchainRecords]
    have hflat : ((gnoTail gs.closed).map (·.1)).flatten = gs.closed.flatten := by
      simp [gnoTail, List.map_map, Function.comp_def]
    rw [hflat]
    have hcr1 : ∀ ra, applyRecs start ra (crcRec gs.crc0 :: gRecords gs.crc0 (gs.cur ++ p)) = applyItems start ra (gs.cur ++ p) := by
      intro ra
      simp only [applyRecs, applyRec_crc start ra (crcRec gs.crc0) rfl]
      exact applyRecs_gRecords start _ _ ra
    have hall : gs.all = gs.closed.flatten ++ gs.cur := by simp [GGhost.all, List.flatten_append]
    have hsem' := hsem
    rw [hall, applyItems_append] at hsem'
    have hsa := specCalls_append start (.snap ⟨0, 0, none⟩ :: hs) hu' { metadata := md }
    rw [show (Call.snap ⟨0, 0, none⟩ :: (hs ++ hu')) = (Call.snap ⟨0, 0, none⟩ :: hs) ++ hu' by rfl, hsa, ← hsem']
    cases applyItems start {} gs.closed.flatten with
    | error e => rfl
    | ok ra' =>
      simp only
      rw [hcr1 ra', applyItems_append]
      cases applyItems start ra' gs.cur with
      | error e => rfl
      | ok ra2 => simp only; rw [hpitems]; exact applyItems_callsItems start hu' ra2 hfu'
  have hR0 : placeCalls start.1 ({ metadata := md } : RA).ents (.snap ⟨0, 0, none⟩ :: (hs ++ hu')) = some R := hR
  have heval := specCalls_eval start (.snap ⟨0, 0, none⟩ :: (hs ++ hu')) { metadata := md } R hR0
  have hsn : snapsOf (.snap ⟨0, 0, none⟩ :: (hs ++ hu')) = savedSnaps (hs ++ hu') := rfl
  have hrs : refStateFrom ({ metadata := md } : RA).state (.snap ⟨0, 0, none⟩ :: (hs ++ hu')) = refState (hs ++ hu') := rfl
  rw [hsn, hrs] at heval
  unfold Mismatch at hnm'
  rw [if_neg hnm', ← hrecs] at heval
  have hrl := readLoop_of_recLoop start _ _ _ _ heval
  unfold readAll readAllFrom
  rw [hn1, hrl]
  have hcont : ((savedSnaps (hs ++ hu')).contains start = true) ↔ start ∈ savedSnaps (hs ++ hu') := by simp
  have herr : ∀ x : Option RErr,
      x = (if ((savedSnaps (hs ++ hu')).contains start || write) = true then none else some RErr.snapNotFound) →
      x = (if start ∈ savedSnaps (hs ++ hu') ∨ write = true then none else some RErr.snapNotFound) := by
    intro x hx
    rw [hx]
    by_cases hin : start ∈ savedSnaps (hs ++ hu') ∨ write = true
    · rw [if_pos hin]
      rcases hin with hin | hin
      · rw [hcont.mpr hin, Bool.true_or, if_pos rfl]
      · rw [hin, Bool.or_true, if_pos rfl]
    · rw [if_neg hin]
      have : ¬ (((savedSnaps (hs ++ hu')).contains start || write) = true) := by
        intro hh
        simp only [Bool.or_eq_true] at hh
        rcases hh with hh | hh
        · exact hin (Or.inl (hcont.mp hh))
        · exact hin (Or.inr hh)
      rw [if_neg this]
  rcases hfin with h | ⟨hw, h⟩
  · have h' : (recLoop (closedFuel (gnoTail gs.closed) + (n + 1)) (Dec.open (gchainFiles 0 (gnoTail gs.closed) ++ [f]))).2.1 = .decEof := by
      rw [hchain]; exact h
    rw [h']
    refine ⟨rfl, rfl, rfl, herr _ ?_, hRpre, hRex⟩
    simp only [readAllFin, Bool.false_or]
  · have h' : (recLoop (closedFuel (gnoTail gs.closed) + (n + 1)) (Dec.open (gchainFiles 0 (gnoTail gs.closed) ++ [f]))).2.1 = .decErr .ueof := by
      rw [hchain]; exact h
    subst hw
    rw [h']
    refine ⟨rfl, rfl, rfl, herr _ ?_, hRpre, hRex⟩
    simp only [readAllFin, Bool.false_or, Bool.not_false, Bool.true_and, decide_true, if_true, Bool.or_false]

/-- what the hypotheses of the crash theorems give: a ghost `gs` of the synced writer (closed segments, the items `gs.cur`
    of the last one), the dispatch over its items, and the torn-tail hypotheses in the form C16TornG.lean wants -/
theorem crash_setup (segSize : Nat) (md : Option Bytes) (hmd : (md.getD []).length < 2 ^ 55)
    (hs hu : List Call) (hfit : ∀ c ∈ hs ++ hu, c.Fits)
    (hnocut : noCut (syncedWriter segSize md hs) hu = true) (f : Bytes)
    (hcr : Crash (fileFn (tailWriter segSize md hs hu).tail) (fileFn f) (syncedWriter segSize md hs).tail.length)
    (hroom : (tailWriter segSize md hs hu).tail.length + 8 ≤ f.length)
    (hcoll : GNoCollision (syncedWriter segSize md hs).tail.length (syncedWriter segSize md hs).crc (callsItems hu))
    (start : Nat × Nat) :
    ∃ gs : GGhost,
      applyItems start {} gs.all = specCalls start { metadata := md } (.snap ⟨0, 0, none⟩ :: hs) ∧
      (∀ s ∈ gnoTail gs.closed, (∀ it ∈ s.1, GItemOk it) ∧ EndOfWritten s.2) ∧
      (∀ f' : Bytes, (syncedWriter segSize md hs).closed.map (·.2) ++ [f'] = gchainFiles 0 (gnoTail gs.closed) ++ [f']) ∧
      gs.crc0 < 2 ^ 32 ∧ GItemsOk gs.cur ∧ GItemsOk (callsItems hu) ∧
      Crash (gimage gs.crc0 (gs.cur ++ callsItems hu)) (fileFn f) (endOff (gfileFrames gs.crc0 gs.cur) 0) ∧
      GNoCollision (endOff (gfileFrames gs.crc0 gs.cur) 0) (gCrcAfter gs.crc0 gs.cur) (callsItems hu) ∧
      endOff (gfileFrames gs.crc0 (gs.cur ++ callsItems hu)) 0 + 8 ≤ f.length := by
  have hfs : ∀ c ∈ hs, c.Fits := fun c hc => hfit c (by simp [hc])
  have hfu : ∀ c ∈ hu, c.Fits := fun c hc => hfit c (by simp [hc])
  -- the synced writer
  obtain ⟨gs, hIs0, hsem⟩ := created_sem start segSize md hmd hs hfs
  have hIs : GInv (syncedWriter segSize md hs) gs := hIs0.flush
  have hbufs : (syncedWriter segSize md hs).buf = [] := Writer.flush_buf _
  -- the unsynced calls
  obtain ⟨hIu0, _⟩ := calls_nocut hu hIs hfu hnocut
  have hIu : GInv (tailWriter segSize md hs hu) (gs.add (callsItems hu)) := hIu0.flush
  have hbufu : (tailWriter segSize md hs hu).buf = [] := Writer.flush_buf _
  generalize hws : syncedWriter segSize md hs = ws at *
  generalize hwu : tailWriter segSize md hs hu = wu at *
  have htails : ws.tail = encodeFrame (crcRec gs.crc0) ++ gEncodeAll gs.crc0 gs.cur := by
    have := hIs.bytes
    rw [Writer.bytes, hbufs, List.append_nil] at this
    rw [this]; simp [gfileOf]
  have htailu : wu.tail = encodeFrame (crcRec gs.crc0) ++ gEncodeAll gs.crc0 (gs.cur ++ callsItems hu) := by
    have := hIu.bytes
    rw [Writer.bytes, hbufu, List.append_nil] at this
    rw [this]; simp [gfileOf, GGhost.add, GGhost.crc0]
  have hcrcs : ws.crc = gCrcAfter gs.crc0 gs.cur := hIs.crc
  have hc0 : gs.crc0 < 2 ^ 32 := by
    unfold GGhost.crc0
    generalize gnoTail gs.closed = cl
    have : ∀ (cl : List (List GItem × Bytes)) (c : Nat), c < 2 ^ 32 → gchainCrc c cl < 2 ^ 32 := by
      intro cl
      induction cl with
      | nil => intro c hc; exact hc
      | cons a b ih => intro c hc; obtain ⟨i, t⟩ := a; exact ih _ (gCrcAfter_lt i hc)
    exact this cl 0 (by decide)
  have hSok : GItemsOk gs.cur := fun it hit => hIs.ok it (by simp [GGhost.all, hit])
  have hUok : GItemsOk (callsItems hu) := fun it hit => hIu.ok it (by rw [GGhost.add_all]; simp [hit])
  -- the torn theorem on the last file, the decoder arriving with the chain's CRC
  have hcr' : Crash (gimage gs.crc0 (gs.cur ++ callsItems hu)) (fileFn f) (endOff (gfileFrames gs.crc0 gs.cur) 0) := by
    have himg : gimage gs.crc0 (gs.cur ++ callsItems hu) = fileFn wu.tail := by
      funext x
      rw [gimage_bytes gs.crc0 hc0 _ (fun it hit => by
        rcases List.mem_append.mp hit with h | h
        · exact hSok it h
        · exact hUok it h), htailu]
      rfl
    rw [himg, endOff_gfileFrames, ← htails]
    exact hcr
  have hnc' : GNoCollision (endOff (gfileFrames gs.crc0 gs.cur) 0) (gCrcAfter gs.crc0 gs.cur) (callsItems hu) := by
    rw [endOff_gfileFrames, ← htails, ← hcrcs]; exact hcoll
  have hsize' : endOff (gfileFrames gs.crc0 (gs.cur ++ callsItems hu)) 0 + 8 ≤ f.length := by
    rw [endOff_gfileFrames, ← htailu]; exact hroom
  have hclosedok : ∀ s ∈ gnoTail gs.closed, (∀ it ∈ s.1, GItemOk it) ∧ EndOfWritten s.2 := by
    intro s hs'
    simp only [gnoTail, List.mem_map] at hs'
    obtain ⟨items, hmem, rfl⟩ := hs'
    refine ⟨fun it hit => hIs.ok it ?_, Or.inl rfl⟩
    simp only [GGhost.all, List.mem_flatten]
    exact ⟨items, by simp [hmem], hit⟩
  exact ⟨gs, hsem, hclosedok, fun f' => by rw [hIs.closed], hc0, hSok, hUok, hcr', hnc', hsize'⟩

/-- `readAll`'s own fuel is enough for the closed files and a last file at least as long as the frames of `items` -/
theorem fuel_for (closed : List (List GItem × Bytes)) (c0 : Nat) (items : List GItem) (f : Bytes)
    (h : endOff (gfileFrames c0 items) 0 ≤ f.length) :
    ∃ n, readFuel (gchainFiles 0 closed ++ [f]) = closedFuel closed + (n + 1) ∧ items.length + 1 < n + 1 := by
  obtain ⟨g1, g2⟩ := gchain_len closed 0
  have hcf := closedFuel_succ closed
  have hl1 := gEncodeAll_len_ge c0 items
  have hl2 := encodeFrame_length (crcRec c0)
  have hl3 := marshal_pos (crcRec c0)
  rw [endOff_gfileFrames, List.length_append] at h
  refine ⟨readFuel (gchainFiles 0 closed ++ [f]) - closedFuel closed - 1, ?_⟩
  unfold readFuel
  rw [totalLen_append_one, List.length_append, List.length_cons, List.length_nil]
  rw [← hcf] at g1
  simp only [Nat.add_sub_cancel] at g1
  omega

theorem crash_readAll_prefix_partial (segSize : Nat) (md : Option Bytes) (hmd : (md.getD []).length < 2 ^ 55)
    (hs hu : List Call) (hfit : ∀ c ∈ hs ++ hu, c.Fits) (hok : SaveOk (hs ++ hu))
    (hnocut : noCut (syncedWriter segSize md hs) hu = true) (f : Bytes)
    (hcr : Crash (fileFn (tailWriter segSize md hs hu).tail) (fileFn f) (syncedWriter segSize md hs).tail.length)
    (hroom : (tailWriter segSize md hs hu).tail.length + 8 ≤ f.length)
    (hcoll : GNoCollision (syncedWriter segSize md hs).tail.length (syncedWriter segSize md hs).crc (callsItems hu))
    (start : Nat × Nat) (hnm : ¬ Mismatch start (hs ++ hu)) :
    ∃ hu', CallPrefix hu' hu ∧ SaveOk (hs ++ hu') ∧ ¬ Mismatch start (hs ++ hu') ∧
      ∃ R, placeCalls start.1 [] (hs ++ hu') = some R ∧
        (readAll false start ((syncedWriter segSize md hs).closed.map (·.2) ++ [f])).metadata = md ∧
        (readAll false start ((syncedWriter segSize md hs).closed.map (·.2) ++ [f])).state = refState (hs ++ hu') ∧
        (readAll false start ((syncedWriter segSize md hs).closed.map (·.2) ++ [f])).ents = R ∧
        (readAll false start ((syncedWriter segSize md hs).closed.map (·.2) ++ [f])).err =
          (if start ∈ savedSnaps (hs ++ hu') then none else some .snapNotFound) ∧
        R.take ((refLog (hs ++ hu')).length - start.1) = (refLog (hs ++ hu')).filter (fun e => e.index > start.1) ∧
        (NoStale start.1 (hs ++ hu') → R = (refLog (hs ++ hu')).filter (fun e => e.index > start.1)) := by
  have hfu : ∀ c ∈ hu, c.Fits := fun c hc => hfit c (by simp [hc])
  obtain ⟨gs, hsem, hclosedok, hfilesEq, hc0, hSok, hUok, hcr', hnc', hsize'⟩ :=
    crash_setup segSize md hmd hs hu hfit hnocut f hcr hroom hcoll start
  obtain ⟨n, hn1, hn2⟩ := fuel_for (gnoTail gs.closed) gs.crc0 (gs.cur ++ callsItems hu) f (by omega)
  rw [List.length_append] at hn2
  obtain ⟨p, rest, hU, hrec, hfin, _⟩ := torn_tail_gfile_partial gs.crc0 gs.crc0 hc0 (Or.inr rfl) gs.cur (callsItems hu) hSok hUok f
    hcr' hnc' hsize' (n + 1) (by omega)
  obtain ⟨hu', q1, q2, q3, R, q4, q5, q6, q7, q8, q9, q10⟩ := crash_finish start md hs hu hfu hok hnm gs hsem hclosedok f n false hn1
    p rest hU hrec (by rcases hfin with h | h; exact Or.inl h; exact Or.inr ⟨rfl, h⟩)
  rw [hfilesEq f]
  refine ⟨hu', q1, q2, q3, R, q4, q5, q6, q7, ?_, q9, q10⟩
  rw [q8]
  by_cases hin : start ∈ savedSnaps (hs ++ hu')
  · rw [if_pos (Or.inl hin), if_pos hin]
  · rw [if_neg (by simp [hin]), if_neg hin]

/-- **after `Repair`, in write mode** (partial, same hypotheses). `wal.Repair` on the directory found after the crash
    succeeds; `wal.Open` + `ReadAll` on the repaired directory then reaches a clean EOF and returns — with no error: a
    missing snapshot is not reported in write mode — what `ReadAll` returns on the fully written history `hs ++ hu'`,
    `hu'` being `hu` cut short at a record boundary. -/
theorem crash_repair_readAll_prefix_partial (segSize : Nat) (md : Option Bytes) (hmd : (md.getD []).length < 2 ^ 55)
    (hs hu : List Call) (hfit : ∀ c ∈ hs ++ hu, c.Fits) (hok : SaveOk (hs ++ hu))
    (hnocut : noCut (syncedWriter segSize md hs) hu = true) (f : Bytes)
    (hcr : Crash (fileFn (tailWriter segSize md hs hu).tail) (fileFn f) (syncedWriter segSize md hs).tail.length)
    (hroom : (tailWriter segSize md hs hu).tail.length + 8 ≤ f.length)
    (hcoll : GNoCollision (syncedWriter segSize md hs).tail.length (syncedWriter segSize md hs).crc (callsItems hu))
    (start : Nat × Nat) (hnm : ¬ Mismatch start (hs ++ hu)) :
    (repair f).1 = true ∧
    ∃ hu', CallPrefix hu' hu ∧ SaveOk (hs ++ hu') ∧ ¬ Mismatch start (hs ++ hu') ∧
      ∃ R, placeCalls start.1 [] (hs ++ hu') = some R ∧
        (readAll true start ((syncedWriter segSize md hs).closed.map (·.2) ++ [(repair f).2])).metadata = md ∧
        (readAll true start ((syncedWriter segSize md hs).closed.map (·.2) ++ [(repair f).2])).state = refState (hs ++ hu') ∧
        (readAll true start ((syncedWriter segSize md hs).closed.map (·.2) ++ [(repair f).2])).ents = R ∧
        (readAll true start ((syncedWriter segSize md hs).closed.map (·.2) ++ [(repair f).2])).err = none ∧
        R.take ((refLog (hs ++ hu')).length - start.1) = (refLog (hs ++ hu')).filter (fun e => e.index > start.1) ∧
        (NoStale start.1 (hs ++ hu') → R = (refLog (hs ++ hu')).filter (fun e => e.index > start.1)) := by
  have hfu : ∀ c ∈ hu, c.Fits := fun c hc => hfit c (by simp [hc])
  obtain ⟨gs, hsem, hclosedok, hfilesEq, hc0, hSok, hUok, hcr', hnc', hsize'⟩ :=
    crash_setup segSize md hmd hs hu hfit hnocut f hcr hroom hcoll start
  obtain ⟨p, rest, hU, hrep, hlen, hread⟩ := repair_torn_tail_gpartial gs.crc0 hc0 gs.cur (callsItems hu) hSok hUok f hcr' hnc' hsize'
  obtain ⟨n, hn1, hn2⟩ := fuel_for (gnoTail gs.closed) gs.crc0 (gs.cur ++ p) (repair f).2 hlen
  rw [List.length_append] at hn2
  obtain ⟨hrec, hfin⟩ := hread gs.crc0 (Or.inr rfl) (n + 1) (by omega)
  obtain ⟨hu', q1, q2, q3, R, q4, q5, q6, q7, q8, q9, q10⟩ := crash_finish start md hs hu hfu hok hnm gs hsem hclosedok (repair f).2 n true hn1
    p rest hU hrec (Or.inl hfin)
  rw [hfilesEq (repair f).2]
  refine ⟨hrep, hu', q1, q2, q3, R, q4, q5, q6, q7, ?_, q9, q10⟩
  rw [q8, if_pos (Or.inr rfl)]

/-! ### non-vacuity: a concrete crash that loses the unsynced entry -/

def exHs : List Call := [.save ⟨1, 1, 0⟩ [en 1 1]]
def exHu : List Call := [.save ⟨0, 0, 0⟩ [en 1 2]]

/-- what is found after the crash: the synced bytes, every sector above them still zero -/
def exF : Bytes := (syncedWriter 4096 none exHs).tail ++ List.replicate (4096 - 104) 0

theorem exHs_len : (syncedWriter 4096 none exHs).tail.length = 104 := by decide +kernel

theorem exHu_tail : (tailWriter 4096 none exHs exHu).tail =
    (syncedWriter 4096 none exHs).tail ++ encodeFrame ⟨entryType, crcUpdate (syncedWriter 4096 none exHs).crc (marshalEntry (en 1 2)),
      some (marshalEntry (en 1 2))⟩ := by decide +kernel

theorem ex_crash_dir : Crash (fileFn (tailWriter 4096 none exHs exHu).tail) (fileFn exF) (syncedWriter 4096 none exHs).tail.length := by
  rw [exHs_len]
  refine ⟨?_, fun q => Or.inr ?_⟩
  · intro o ho
    rw [exHu_tail, exF]
    unfold fileFn
    rw [toNats_append, toNats_append, getD_append_left _ _ _ (by rw [toNats_length, exHs_len]; exact ho),
      getD_append_left _ _ _ (by rw [toNats_length, exHs_len]; exact ho)]
  · intro o _ hP
    rw [exF, fileFn_append_zeros]
    unfold fileFn
    rw [List.getD_eq_getElem?_getD, List.getElem?_eq_none (by rw [toNats_length, exHs_len]; exact hP)]
    rfl

theorem ex_gnoCollision :
    GNoCollision (syncedWriter 4096 none exHs).tail.length (syncedWriter 4096 none exHs).crc (callsItems exHu) := by
  rw [exHs_len]
  unfold GNoCollision
  have hf : gframesOf (syncedWriter 4096 none exHs).crc (callsItems exHu) =
      [frameOf ⟨entryType, crcUpdate (syncedWriter 4096 none exHs).crc (marshalEntry (en 1 2)), some (marshalEntry (en 1 2))⟩] := rfl
  rw [hf]
  refine ⟨?_, fun _ _ => trivial⟩
  intro b' hr hne
  have hlen : (frameOf ⟨entryType, crcUpdate (syncedWriter 4096 none exHs).crc (marshalEntry (en 1 2)),
      some (marshalEntry (en 1 2))⟩).body.length = 16 := by decide +kernel
  rcases reverted_one_sector (104 + 8) _ b' (by intro i hi; rw [hlen] at hi; omega) hr with h | h
  · exact absurd h hne
  · rw [h, hlen]
    decide +kernel

/-- **non-vacuity** of `crash_readAll_prefix_partial`: every hypothesis (`GNoCollision` included) holds for this
    directory, and a restarting node reads back the synced entry and hard state -/
example : ∃ hu', CallPrefix hu' exHu ∧ SaveOk (exHs ++ hu') ∧ ¬ Mismatch (0, 0) (exHs ++ hu') ∧
    ∃ R, placeCalls 0 [] (exHs ++ hu') = some R ∧
      (readAll false (0, 0) ((syncedWriter 4096 none exHs).closed.map (·.2) ++ [exF])).metadata = none ∧
      (readAll false (0, 0) ((syncedWriter 4096 none exHs).closed.map (·.2) ++ [exF])).state = refState (exHs ++ hu') ∧
      (readAll false (0, 0) ((syncedWriter 4096 none exHs).closed.map (·.2) ++ [exF])).ents = R ∧
      (readAll false (0, 0) ((syncedWriter 4096 none exHs).closed.map (·.2) ++ [exF])).err =
        (if (0, 0) ∈ savedSnaps (exHs ++ hu') then none else some .snapNotFound) ∧
      R.take ((refLog (exHs ++ hu')).length - 0) = (refLog (exHs ++ hu')).filter (fun e => e.index > 0) ∧
      (NoStale 0 (exHs ++ hu') → R = (refLog (exHs ++ hu')).filter (fun e => e.index > 0)) :=
  crash_readAll_prefix_partial 4096 none (by decide) exHs exHu
    (by
      intro c hc
      simp only [exHs, exHu, List.cons_append, List.nil_append, List.mem_cons, List.not_mem_nil, or_false] at hc
      rcases hc with rfl | rfl
      · exact ⟨⟨by decide, by decide, by decide⟩, fun e he => by
          simp only [List.mem_singleton] at he; subst he; exact en_fits _ _ (by decide) (by decide)⟩
      · exact ⟨⟨by decide, by decide, by decide⟩, fun e he => by
          simp only [List.mem_singleton] at he; subst he; exact en_fits _ _ (by decide) (by decide)⟩)
    (show SaveOk (exHs ++ exHu) by decide) (by decide +kernel) exF ex_crash_dir (by decide +kernel) ex_gnoCollision (0, 0)
    (show ¬ Mismatch (0, 0) (exHs ++ exHu) by decide)

/-- **non-vacuity** of `crash_repair_readAll_prefix_partial`, same directory: `Repair` succeeds (here it has nothing to cut:
    the header of the lost record is zero) and the log opens for writing -/
example : (repair exF).1 = true ∧
    ∃ hu', CallPrefix hu' exHu ∧ SaveOk (exHs ++ hu') ∧ ¬ Mismatch (0, 0) (exHs ++ hu') ∧
    ∃ R, placeCalls 0 [] (exHs ++ hu') = some R ∧
      (readAll true (0, 0) ((syncedWriter 4096 none exHs).closed.map (·.2) ++ [(repair exF).2])).metadata = none ∧
      (readAll true (0, 0) ((syncedWriter 4096 none exHs).closed.map (·.2) ++ [(repair exF).2])).state = refState (exHs ++ hu') ∧
      (readAll true (0, 0) ((syncedWriter 4096 none exHs).closed.map (·.2) ++ [(repair exF).2])).ents = R ∧
      (readAll true (0, 0) ((syncedWriter 4096 none exHs).closed.map (·.2) ++ [(repair exF).2])).err = none ∧
      R.take ((refLog (exHs ++ hu')).length - 0) = (refLog (exHs ++ hu')).filter (fun e => e.index > 0) ∧
      (NoStale 0 (exHs ++ hu') → R = (refLog (exHs ++ hu')).filter (fun e => e.index > 0)) :=
  crash_repair_readAll_prefix_partial 4096 none (by decide) exHs exHu
    (by
      intro c hc
      simp only [exHs, exHu, List.cons_append, List.nil_append, List.mem_cons, List.not_mem_nil, or_false] at hc
      rcases hc with rfl | rfl
      · exact ⟨⟨by decide, by decide, by decide⟩, fun e he => by
          simp only [List.mem_singleton] at he; subst he; exact en_fits _ _ (by decide) (by decide)⟩
      · exact ⟨⟨by decide, by decide, by decide⟩, fun e he => by
          simp only [List.mem_singleton] at he; subst he; exact en_fits _ _ (by decide) (by decide)⟩)
    (show SaveOk (exHs ++ exHu) by decide) (by decide +kernel) exF ex_crash_dir (by decide +kernel) ex_gnoCollision (0, 0)
    (show ¬ Mismatch (0, 0) (exHs ++ exHu) by decide)

/-- … and evaluated directly: the synced entry 1 is there, the unsynced entry 2 is gone, no error -/
example : (readAll false (0, 0) ((syncedWriter 4096 none exHs).closed.map (·.2) ++ [exF])).ents = [en 1 1] ∧
    (readAll false (0, 0) ((syncedWriter 4096 none exHs).closed.map (·.2) ++ [exF])).state = ⟨1, 1, 0⟩ ∧
    (readAll false (0, 0) ((syncedWriter 4096 none exHs).closed.map (·.2) ++ [exF])).err = none := by decide +kernel

#print axioms crash_readAll_prefix_partial
#print axioms crash_repair_readAll_prefix_partial
end C16
