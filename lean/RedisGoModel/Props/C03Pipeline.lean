import RedisGoModel.Props.C02
import RedisGoModel.Props.Global
/-! # C03 end to end over BYTES: a pipeline in, the reply stream out, decoded by a conforming client

`Props/C03.lean` counts and orders the replies of the Handle loop over parser *events*; `Resp/Reply.lean` inverts the reply encoder
for one value; `Props/Global.lean` shows every model reply is well-framed.  This file composes them into the statement of the
property about the bytes on the wire (`DESIGN §6 C03_one_reply_in_order`):

`pipeline_replies`: take ANY pipeline `cmds` (non-empty commands, arguments below the bulk limit — any bytes, any command names,
known or unknown), encode it (`Resp.encodeCmd`), let the model server parse it (`Resp.parseLoop`) and serve it on connection `c`
in ANY server state `s` (`Server.handleEvents` — the function the serve engine runs against `Manager.Handle`), and concatenate the
encodings of everything it writes (`wire`).  Then (1) the connection is not closed; (2) the verified stream decoder
`Resp.decodeAllReplies` — the one the driver applies to the bytes the Go server wrote — consumes every byte and returns exactly
the values written, in order; (3) with the Pub/Sub pushes filtered out by the `push` flag these are exactly `cmds.length` replies,
the k-th being the reply of executing the k-th command in the state left by the first k−1 (`replySeq`).
`pipeline_replies_unsubscribed`: on a connection that holds no subscription and whose pipeline contains no SUBSCRIBE nothing is
pushed, so the decoded stream IS `replySeq` — exactly one reply per command, in request order, payloads intact.

Hypothesis `ObsErrWF env` (from `Exec.Global`): an error text adopted from an observed reply in checker mode is itself a decoded
error line; it holds outright in prediction mode (`env.obs = none`, what the serve engine uses) — see `obs_hypothesis_needed`. -/
namespace Exec.C03
open Resp (Reply Bytes)
open Exec.Global

/-- the bytes written on the connection: the encodings of the values, in the order written -/
def wire (ws : List Written) : Bytes := (ws.map fun w => Resp.encode w.reply).flatten

/-- execute the commands one after the other on connection `c`: everything written (per command: its pushes, then its reply)
    and the final server state -/
def runCmds (s : Server) (env : Env) (c : Nat) : List (List Bytes) → List Written × Server
| [] => ([], s)
| a :: as =>
  let r := s.execOn env c a
  let rest := runCmds r.2 env c as
  ((r.1.1.map fun p => (⟨true, [], p⟩ : Written)) ++ ⟨false, lower (a.headD []), r.1.2⟩ :: rest.1, rest.2)

/-- the k-th element is the reply of executing the k-th command in the state left by the first k−1 -/
def replySeq (s : Server) (env : Env) (c : Nat) : List (List Bytes) → List Reply
| [] => []
| a :: as => (s.execOn env c a).1.2 :: replySeq (s.execOn env c a).2 env c as

theorem replySeq_length (env : Env) (c : Nat) (cmds : List (List Bytes)) : ∀ s : Server, (replySeq s env c cmds).length = cmds.length := by
  induction cmds with
  | nil => intro s; rfl
  | cons a as ih => intro s; simp [replySeq, ih]

/-- the Handle loop on the events of a decoded pipeline is `runCmds` -/
theorem handle_cmdEvents (env : Env) (c : Nat) (cmds : List (List Bytes)) : ∀ (s : Server) (acc : List Written),
    s.handleEvents env c (cmds.map C02.cmdEvent ++ [.eof]) acc =
      ((runCmds s env c cmds).2, acc.reverse ++ (runCmds s env c cmds).1, false) := by
  induction cmds with
  | nil => intro s acc; simp [Server.handleEvents, runCmds]
  | cons a as ih =>
    intro s acc
    simp only [List.map_cons, List.cons_append, C02.cmdEvent, Server.handleEvents, C02.map_valBytes_bulks]
    rw [ih]
    simp [runCmds]

theorem replies_runCmds (env : Env) (c : Nat) (cmds : List (List Bytes)) : ∀ s : Server,
    (repliesOf (runCmds s env c cmds).1).map (·.reply) = replySeq s env c cmds := by
  induction cmds with
  | nil => intro s; rfl
  | cons a as ih =>
    intro s
    have := ih (s.execOn env c a).2
    simp only [repliesOf] at this
    simp only [runCmds, replySeq, repliesOf, List.filter_append, List.filter_map, Function.comp_def, Bool.not_true,
      filter_false_nil, List.map_nil, List.nil_append, List.filter_cons, Bool.not_false, if_true, List.map_cons, this]

/-! ### every value the connection layer writes is well-framed -/

theorem selectReply_wf (ndb : Nat) (args : List Bytes) : Resp.WF (selectReply ndb args).1 := by
  unfold selectReply
  repeat' split
  all_goals first
    | exact wf_ok
    | exact wf_errInt
    | exact wf_errArgs
    | exact wf_err (by decide +kernel)

theorem wf_arrOf' {l : List Reply} (h : ∀ r ∈ l, Resp.WF r) : Resp.WF (arrOf l) := wf_arr (wfl_of_forall h)

theorem wf_push (ch payload : Bytes) : Resp.WF (arrOf [bulk (ofStr "message"), bulk ch, bulk payload]) := by
  apply wf_arrOf'
  intro r hr
  simp only [List.mem_cons, List.not_mem_nil, or_false] at hr
  rcases hr with rfl | rfl | rfl <;> exact wf_bulk _

/-- **the reply and the pushes of EVERY command on EVERY connection are well-framed** (SELECT, SUBSCRIBE, PUBLISH, the empty
    command, a selected database out of range, and all of `Exec.exec`) -/
theorem execOn_wf (s : Server) (env : Env) (c : Nat) (args : List Bytes) (ho : ObsErrWF env) :
    Resp.WF (s.execOn env c args).1.2 ∧ ∀ p ∈ (s.execOn env c args).1.1, Resp.WF p := by
  unfold Server.execOn
  split
  · exact ⟨wf_err (by decide +kernel), fun _ h => nomatch h⟩
  · rename_i name rest
    simp only
    split
    · split
      · rename_i r n heq
        have := selectReply_wf s.dbs.length (name :: rest)
        rw [heq] at this
        exact ⟨this, fun _ h => nomatch h⟩
      · rename_i r heq
        have := selectReply_wf s.dbs.length (name :: rest)
        rw [heq] at this
        exact ⟨this, fun _ h => nomatch h⟩
    · split
      · split
        · exact ⟨wf_errArgs, fun _ h => nomatch h⟩
        · refine ⟨wf_arrOf' ?_, fun _ h => nomatch h⟩
          intro r hr
          simp only [List.mem_flatMap, List.mem_cons, List.not_mem_nil, or_false] at hr
          obtain ⟨ch, _, h⟩ := hr
          rcases h with rfl | rfl | rfl
          · exact wf_bulk _
          · exact wf_bulk _
          · exact wf_int _
      · split
        · split
          · rename_i ch payload
            refine ⟨wf_int _, ?_⟩
            intro p hp
            split at hp
            · simp only [List.mem_singleton] at hp; subst hp; exact wf_push ch payload
            · cases hp
          · exact ⟨wf_errArgs, fun _ h => nomatch h⟩
        · split
          · exact ⟨wf_err (by decide +kernel), fun _ h => nomatch h⟩
          · exact ⟨exec_wf_obs env _ _ ho, fun _ h => nomatch h⟩

theorem runCmds_wf (env : Env) (c : Nat) (ho : ObsErrWF env) (cmds : List (List Bytes)) : ∀ s : Server,
    ∀ w ∈ (runCmds s env c cmds).1, Resp.WF w.reply := by
  induction cmds with
  | nil => intro s w h; cases h
  | cons a as ih =>
    intro s w hw
    simp only [runCmds, List.mem_append, List.mem_map, List.mem_cons] at hw
    rcases hw with ⟨p, hp, rfl⟩ | rfl | hw
    · exact (execOn_wf s env c a ho).2 p hp
    · exact (execOn_wf s env c a ho).1
    · exact ih _ w hw

/-- a conforming client decodes the written stream into exactly the values written, all bytes consumed -/
theorem wire_decodes (ws : List Written) (h : ∀ w ∈ ws, Resp.WF w.reply) :
    Resp.decodeAllReplies (wire ws) [] = some (ws.map (·.reply)) := by
  have := Resp.decodeAllReplies_encode (ws.map (·.reply)) (by
    intro r hr
    obtain ⟨w, hw, rfl⟩ := List.mem_map.1 hr
    exact h w hw) []
  simpa [wire, List.map_map, Function.comp_def] using this

/-- **C03, end to end over bytes** -/
theorem pipeline_replies (s : Server) (env : Env) (c : Nat) (cmds : List (List Bytes)) (ho : ObsErrWF env)
    (hne : ∀ a ∈ cmds, a ≠ []) (hmax : ∀ a ∈ cmds, ∀ x ∈ a, x.length ≤ Resp.maxBulk) (hn : ∀ a ∈ cmds, a.length < 2^63) :
    let out := s.handleEvents env c (Resp.parseLoop Resp.St.init (cmds.map Resp.encodeCmd).flatten) []
    out.2.2 = false ∧
    Resp.decodeAllReplies (wire out.2.1) [] = some (out.2.1.map (·.reply)) ∧
    (repliesOf out.2.1).map (·.reply) = replySeq s env c cmds ∧
    (repliesOf out.2.1).length = cmds.length := by
  intro out
  have hout : out = ((runCmds s env c cmds).2, (runCmds s env c cmds).1, false) := by
    show s.handleEvents env c (Resp.parseLoop Resp.St.init (cmds.map Resp.encodeCmd).flatten) [] = _
    rw [Resp.C02_roundtrip cmds hne hmax hn]
    have := handle_cmdEvents env c cmds s []
    have e : (cmds.map fun c => Resp.Event.data (.arr (some (c.map fun a => .bulk (some a))))) = cmds.map C02.cmdEvent := rfl
    rw [e, this]; simp
  rw [hout]
  refine ⟨rfl, wire_decodes _ (runCmds_wf env c ho cmds s), replies_runCmds env c cmds s, ?_⟩
  have := congrArg List.length (replies_runCmds env c cmds s)
  simpa [replySeq_length] using this

/-! ### a connection that is not subscribed -/

def NotSubscribed (s : Server) (c : Nat) : Prop := ∀ ch, (ch, c) ∉ s.subs

theorem execOn_no_push (s : Server) (env : Env) (c : Nat) (args : List Bytes) (h : NotSubscribed s c) :
    (s.execOn env c args).1.1 = [] := by
  unfold Server.execOn
  split
  · rfl
  · simp only
    split
    · split <;> rfl
    · split
      · split <;> rfl
      · split
        · split
          · rename_i ch payload
            simp only
            rw [if_neg]
            intro hc
            rw [List.contains_iff_mem, List.mem_map] at hc
            obtain ⟨p, hp, rfl⟩ := hc
            exact h p.1 (List.mem_filter.1 hp).1
          · rfl
        · split <;> rfl

theorem execOn_subs_unchanged (s : Server) (env : Env) (c : Nat) (args : List Bytes) (ha : lower (args.headD []) ≠ nSubscribe) :
    (s.execOn env c args).2.subs = s.subs := by
  unfold Server.execOn
  split
  · rfl
  · rename_i name rest
    simp only [List.headD_cons] at ha
    simp only
    split
    · split <;> rfl
    · split
      · rename_i hs
        exact absurd (by simpa using hs) ha
      · split
        · split <;> rfl
        · split <;> rfl

theorem runCmds_no_push (env : Env) (c : Nat) (cmds : List (List Bytes)) : ∀ s : Server, NotSubscribed s c →
    (∀ a ∈ cmds, lower (a.headD []) ≠ nSubscribe) → repliesOf (runCmds s env c cmds).1 = (runCmds s env c cmds).1 := by
  induction cmds with
  | nil => intro s _ _; rfl
  | cons a as ih =>
    intro s hs hc
    have hs' : NotSubscribed (s.execOn env c a).2 c := by
      intro ch; rw [execOn_subs_unchanged s env c a (hc a (by simp))]; exact hs ch
    have := ih _ hs' (fun x hx => hc x (by simp [hx]))
    simp only [repliesOf] at this ⊢
    simp only [runCmds, execOn_no_push s env c a hs, List.map_nil, List.nil_append, List.filter_cons, Bool.not_false, if_true, this]

/-- **C03 on a connection without subscriptions**: the bytes written, decoded by a conforming client, are EXACTLY one reply per
    command, in request order — the k-th is the reply to the k-th command in the state left by the first k−1 -/
theorem pipeline_replies_unsubscribed (s : Server) (env : Env) (c : Nat) (cmds : List (List Bytes)) (ho : ObsErrWF env)
    (hne : ∀ a ∈ cmds, a ≠ []) (hmax : ∀ a ∈ cmds, ∀ x ∈ a, x.length ≤ Resp.maxBulk) (hn : ∀ a ∈ cmds, a.length < 2^63)
    (hs : NotSubscribed s c) (hc : ∀ a ∈ cmds, lower (a.headD []) ≠ nSubscribe) :
    Resp.decodeAllReplies (wire (s.handleEvents env c (Resp.parseLoop Resp.St.init (cmds.map Resp.encodeCmd).flatten) []).2.1) [] =
      some (replySeq s env c cmds) ∧ (replySeq s env c cmds).length = cmds.length := by
  obtain ⟨_, h2, h3, _⟩ := pipeline_replies s env c cmds ho hne hmax hn
  refine ⟨?_, replySeq_length env c cmds s⟩
  rw [h2, ← h3]
  have hout : (s.handleEvents env c (Resp.parseLoop Resp.St.init (cmds.map Resp.encodeCmd).flatten) []).2.1 = (runCmds s env c cmds).1 := by
    rw [Resp.C02_roundtrip cmds hne hmax hn]
    have := handle_cmdEvents env c cmds s []
    have e : (cmds.map fun c => Resp.Event.data (.arr (some (c.map fun a => .bulk (some a))))) = cmds.map C02.cmdEvent := rfl
    rw [e, this]; simp
  rw [hout, runCmds_no_push env c cmds s hs hc]

/-- the hypotheses are satisfiable: `SET k "\r\n"`, `GET k`, an unknown command and `PUBLISH` on a fresh 16-database server in
    prediction mode -/
example : let cmds : List (List Bytes) := [[ofStr "SET", [107], [13, 10]], [ofStr "GET", [107]], [ofStr "NOSUCH"], [ofStr "PUBLISH", [99], [1]]]
    Resp.decodeAllReplies (wire ((Server.init 16).handleEvents { now := 0 } 7
      (Resp.parseLoop Resp.St.init (cmds.map Resp.encodeCmd).flatten) []).2.1) [] = some (replySeq (Server.init 16) { now := 0 } 7 cmds) ∧
    (replySeq (Server.init 16) { now := 0 } 7 cmds).length = 4 :=
  pipeline_replies_unsubscribed _ _ _ _ (ObsErrWF.of_none rfl) (by decide) (by decide +kernel) (by decide +kernel)
    (fun _ h => nomatch h) (by decide +kernel)

/-- with a subscription: connection 7 subscribes to "c" and publishes to it — its own copy is written (flagged `push`) before
    the PUBLISH reply; the decoded stream has 3 values, the 2 replies are `replySeq` -/
example : let cmds : List (List Bytes) := [[nSubscribe, [99]], [nPublish, [99], [1]]]
    let out := (Server.init 16).handleEvents { now := 0 } 7 (Resp.parseLoop Resp.St.init (cmds.map Resp.encodeCmd).flatten) []
    out.2.2 = false ∧ Resp.decodeAllReplies (wire out.2.1) [] = some (out.2.1.map (·.reply)) ∧
    (repliesOf out.2.1).map (·.reply) = replySeq (Server.init 16) { now := 0 } 7 cmds ∧ (repliesOf out.2.1).length = 2 :=
  pipeline_replies _ _ _ _ (ObsErrWF.of_none rfl) (by decide) (by decide +kernel) (by decide +kernel)

example (s : Server) (c : Nat) (args : List Bytes) : Resp.WF (s.execOn { now := 5 } c args).1.2 :=
  (execOn_wf s { now := 5 } c args (ObsErrWF.of_none rfl)).1

end Exec.C03
