import RedisGoModel.Props.C16TornG
/-! C16: `wal.Repair` after a torn tail, for segment files with nil-`Data` records, and the repaired file read as the
    last file of a chain (the decoder arrives with the previous segment's rolling CRC, while `Repair` itself reads the
    file alone). Generalises `repair_torn_tail_partial`. -/
namespace WalTorn
variable {ρ σ : Type}

/-- less fuel, but still more than the records returned: nothing changes -/
theorem decode_fuel_down (C : Codec ρ σ) (f : File) (size : Nat) :
    ∀ (k m o : Nat) (st : σ), (decode C f size k o st).1.length < m → m ≤ k →
      decode C f size m o st = decode C f size k o st := by
  intro k
  induction k with
  | zero => intro m o st h1 h2; have : m = 0 := by omega
            subst this; rfl
  | succ k ih =>
    intro m o st hlt hle
    obtain ⟨m', hm'⟩ : ∃ m', m = m' + 1 := ⟨m - 1, by omega⟩
    subst hm'
    by_cases h1 : size ≤ o
    · rw [decode_eof_size C f size m' o st h1, decode_eof_size C f size k o st h1]
    · by_cases h2 : size < o + 8
      · rw [decode_short_hdr C f size m' o st (by omega) h2, decode_short_hdr C f size k o st (by omega) h2]
      · cases hu : C.unhdr (readAt f o 8) with
        | none => rw [decode_zero C f size m' o st (by omega) hu, decode_zero C f size k o st (by omega) hu]
        | some n =>
          by_cases h3 : size < n + o
          · rw [decode_max C f size m' o st (by omega) n hu h3, decode_max C f size k o st (by omega) n hu h3]
          · by_cases h4 : size < o + 8 + n
            · rw [decode_short_body C f size m' o st (by omega) n hu (by omega) h4,
                decode_short_body C f size k o st (by omega) n hu (by omega) h4]
            · cases hv : C.valid st (readAt f o 8) (readAt f (o + 8) n) with
              | ok r st' =>
                rw [decode_ok C f size k o st n hu (by omega) r st' hv] at hlt
                simp only [List.length_cons] at hlt
                rw [decode_ok C f size m' o st n hu (by omega) r st' hv,
                  decode_ok C f size k o st n hu (by omega) r st' hv, ih m' (o + 8 + n) st' (by omega) (by omega)]
              | fatal =>
                rw [decode_fatal C f size m' o st n hu (by omega) hv, decode_fatal C f size k o st n hu (by omega) hv]
              | bad =>
                by_cases ht : isTorn (o + 8) (readAt f (o + 8) n)
                · rw [(decode_bad C f size m' o st n hu (by omega) hv).1 ht,
                    (decode_bad C f size k o st n hu (by omega) hv).1 ht]
                · rw [(decode_bad C f size m' o st n hu (by omega) hv).2 ht,
                    (decode_bad C f size k o st n hu (by omega) hv).2 ht]

/-- any fuel above the number of records returned gives the same result -/
theorem decode_fuel_any (C : Codec ρ σ) (f : File) (size k o : Nat) (st : σ)
    (h : (decode C f size k o st).1.length < k) (m : Nat) (hm : (decode C f size k o st).1.length < m) :
    decode C f size m o st = decode C f size k o st := by
  by_cases hle : m ≤ k
  · exact decode_fuel_down C f size k m o st hm hle
  · exact decode_fuel_stable C f size k o st h m (by omega)

end WalTorn

namespace WalTornC
open WalCodec WalFile WalTorn

/-- a file whose first frame is the intact CRC record `c0` decodes the same whether the decoder arrives fresh or with
    rolling CRC `c0` -/
theorem decode_start_irrel (c : WalTorn.File) (c0 : Nat) (hc0 : c0 < 2 ^ 32) (size k : Nat)
    (hh : readAt c 0 8 = (frameOf (crcRec c0)).hd)
    (hb : readAt c 8 (frameOf (crcRec c0)).body.length = (frameOf (crcRec c0)).body)
    (hsz : 8 + (frameOf (crcRec c0)).body.length ≤ size) :
    decode walCodec c size (k + 1) 0 0 = decode walCodec c size (k + 1) 0 c0 := by
  have hwf := frameOf_wf (crcRec c0)
    (marshal_length_lt _ _ _ (show crcType < 2 ^ 64 by decide) hc0 (fun x hx => by cases hx))
  rw [decode_intact walCodec c size k 0 0 c0 (frameOf (crcRec c0)) (by omega) hwf.2.2 hh (by simpa using hb)
      (valid_crcRec 0 c0 hc0 (Or.inl rfl)),
    decode_intact walCodec c size k 0 c0 c0 (frameOf (crcRec c0)) (by omega) hwf.2.2 hh (by simpa using hb)
      (valid_crcRec c0 c0 hc0 (Or.inr rfl))]

theorem gfileFrames_length (c0 : Nat) (items : List GItem) : (gfileFrames c0 items).length = items.length + 1 := by
  simp [gfileFrames, gframesOf_length]

/-- **Repair after a torn tail, chain version** (partial: under `GNoCollision`). `wal.Repair` on the crashed last
    segment file reports success and leaves a file that, read as the last file of the chain (rolling CRC `c0`) *or*
    alone, gives the CRC record, every synced record and a whole-record prefix of the unsynced ones, with a clean EOF
    — so `wal.Open` can go on appending. -/
theorem repair_torn_tail_gpartial (c0 : Nat) (hc0 : c0 < 2 ^ 32) (synced unsynced : List GItem)
    (hs : GItemsOk synced) (hu : GItemsOk unsynced) (f : Bytes)
    (hcr : Crash (gimage c0 (synced ++ unsynced)) (fileFn f) (endOff (gfileFrames c0 synced) 0))
    (hnc : GNoCollision (endOff (gfileFrames c0 synced) 0) (gCrcAfter c0 synced) unsynced)
    (hsize : endOff (gfileFrames c0 (synced ++ unsynced)) 0 + 8 ≤ f.length) :
    ∃ p rest, unsynced = p ++ rest ∧ (repair f).1 = true ∧
      endOff (gfileFrames c0 (synced ++ p)) 0 ≤ (repair f).2.length ∧
      ∀ st0, (st0 = 0 ∨ st0 = c0) → ∀ fuel, synced.length + p.length + 1 < fuel →
        (recLoop fuel (decAt (repair f).2 0 st0)).1 = crcRec c0 :: gRecords c0 (synced ++ p) ∧
        (recLoop fuel (decAt (repair f).2 0 st0)).2.1 = .decEof := by
  have hall : GItemsOk (synced ++ unsynced) := by
    intro it hit
    rcases List.mem_append.mp hit with h | h
    · exact hs it h
    · exact hu it h
  -- the first frame is below the synced end, hence intact
  have hwfall := gfileFrames_wf c0 hc0 _ hall
  have hfr := hwfall (frameOf (crcRec c0)) (by simp [gfileFrames])
  obtain ⟨i1, i2⟩ := frame_at walCodec [] (frameOf (crcRec c0)) (gframesOf c0 (synced ++ unsynced)) 0 (fun _ => 0) hfr.2.1
  have hP16 : 8 + (frameOf (crcRec c0)).body.length ≤ endOff (gfileFrames c0 synced) 0 := by
    simp only [gfileFrames, endOff]
    have := endOff_mono (gframesOf c0 synced) (0 + 8 + (frameOf (crcRec c0)).body.length)
    omega
  have hh : readAt (fileFn f) 0 8 = (frameOf (crcRec c0)).hd :=
    (readAt_ext (fileFn f) _ 0 8 (fun i hi => hcr.1 _ (by omega))).trans i1
  have hb : readAt (fileFn f) 8 (frameOf (crcRec c0)).body.length = (frameOf (crcRec c0)).body :=
    (readAt_ext (fileFn f) _ 8 _ (fun i hi => hcr.1 _ (by omega))).trans i2
  -- the abstract decoder with the minimal fuel, fresh start
  obtain ⟨p, rest, h1, h2, h3, h4⟩ := torn_tail_gconcrete_partial c0 0 hc0 (Or.inl rfl) synced unsynced hs hu (fileFn f) hcr hnc
    f.length hsize (synced.length + unsynced.length + 2) (by omega)
  generalize hD : decode walCodec (fileFn f) f.length (synced.length + unsynced.length + 2) 0 0 = D at h2 h3 h4
  have hDlen : D.1.length < synced.length + unsynced.length + 2 := by
    rw [h2, List.length_cons, gRecords_length, List.length_append, h1, List.length_append]; omega
  have hDlen' : D.1.length = synced.length + p.length + 1 := by
    rw [h2, List.length_cons, gRecords_length, List.length_append]
  have hstable : ∀ m, synced.length + p.length + 1 < m → decode walCodec (fileFn f) f.length m 0 0 = D := by
    intro m hm
    rw [← hD]
    exact decode_fuel_any walCodec (fileFn f) f.length _ 0 0 (by rw [hD]; exact hDlen) m (by rw [hD, hDlen']; exact hm)
  have hfuelR : synced.length + unsynced.length + 2 ≤ f.length / 8 + 2 := by
    have := endOff_ge (gfileFrames c0 (synced ++ unsynced)) 0 hwfall
    rw [gfileFrames_length, List.length_append] at this
    omega
  obtain ⟨s1, s2, s3⟩ := recLoop_sim f (f.length / 8 + 2) 0 0
  have hpl : p.length ≤ unsynced.length := by rw [h1, List.length_append]; omega
  rw [decAt_zero, hstable _ (by omega)] at s1 s2 s3
  -- the end offset is at least the synced end
  have hT16 : 8 + (frameOf (crcRec c0)).body.length ≤ D.2.2 := by
    rw [h4]
    simp only [gfileFrames, endOff]
    have := endOff_mono (gframesOf c0 (synced ++ p)) (0 + 8 + (frameOf (crcRec c0)).body.length)
    omega
  have hTle : D.2.2 ≤ f.length := by
    rw [h4]
    have e : gfileFrames c0 (synced ++ unsynced) =
        gfileFrames c0 (synced ++ p) ++ gframesOf (gCrcAfter c0 (synced ++ p)) rest := by
      rw [h1, ← List.append_assoc]
      simp only [gfileFrames, gframesOf_append, List.cons_append]
    have := endOff_mono (gframesOf (gCrcAfter c0 (synced ++ p)) rest) (endOff (gfileFrames c0 (synced ++ p)) 0)
    rw [← endOff_append, ← e] at this
    omega
  refine ⟨p, rest, h1, ?_⟩
  rcases h3 with he | he
  · -- clean EOF: nothing to repair
    have hrep : repair f = (true, f) := by rw [repair_eq, (s2 he).1]
    rw [hrep]
    refine ⟨rfl, by rw [← h4]; exact hTle, ?_⟩
    intro st0 hst fuel hf
    obtain ⟨k, hk⟩ : ∃ k, fuel = k + 1 := ⟨fuel - 1, by omega⟩
    have hflen : 8 + (frameOf (crcRec c0)).body.length ≤ f.length := by
      have := endOff_mono (gframesOf c0 (synced ++ unsynced)) (0 + 8 + (frameOf (crcRec c0)).body.length)
      simp only [gfileFrames, endOff] at hsize
      omega
    have hdec : decode walCodec (fileFn f) f.length fuel 0 st0 = D := by
      rcases hst with rfl | rfl
      · exact hstable _ (by omega)
      · rw [hk, ← decode_start_irrel (fileFn f) st0 hc0 f.length k hh hb hflen, ← hk]
        exact hstable _ (by omega)
    obtain ⟨t1, t2, _⟩ := recLoop_sim f fuel 0 st0
    rw [hdec] at t1 t2
    exact ⟨by rw [t1, h2], (t2 he).1⟩
  · -- torn: truncate at the last valid offset
    have hrep : repair f = (true, f.take D.2.2) := by
      rw [repair_eq, (s3 he).1]; simp only [if_true]; rw [(s3 he).2]
    rw [hrep]
    have hlen' : (f.take D.2.2).length = D.2.2 := by rw [List.length_take]; omega
    refine ⟨rfl, by rw [← h4]; simp only [hlen']; exact Nat.le_refl _, ?_⟩
    intro st0 hst fuel hf
    obtain ⟨k, hk⟩ : ∃ k, fuel = k + 1 := ⟨fuel - 1, by omega⟩
    have htr := decode_truncate walCodec (fileFn f) f.length (synced.length + unsynced.length + 2) 0 0
      (by rw [hD]; exact Or.inr he)
    rw [hD] at htr
    have hst2 : decode walCodec (fileFn f) D.2.2 fuel 0 0 = (D.1, .eof, D.2.2) := by
      rw [← htr]
      exact decode_fuel_any walCodec (fileFn f) D.2.2 _ 0 0 (by rw [htr]; exact hDlen) fuel (by rw [htr, hDlen']; exact hf)
    have hst3 : decode walCodec (fileFn f) D.2.2 fuel 0 st0 = (D.1, .eof, D.2.2) := by
      rcases hst with rfl | rfl
      · exact hst2
      · rw [hk, ← decode_start_irrel (fileFn f) st0 hc0 D.2.2 k hh hb hT16, ← hk]
        exact hst2
    obtain ⟨t1, t2, _⟩ := recLoop_sim (f.take D.2.2) fuel 0 st0
    rw [hlen', decode_congr walCodec (fileFn (f.take D.2.2)) (fileFn f) D.2.2
      (fun x hx => fileFn_take f D.2.2 x hx), hst3] at t1 t2
    exact ⟨by rw [t1, h2], (t2 rfl).1⟩

#print axioms repair_torn_tail_gpartial
end WalTornC
