import RedisGoModel.Exec.StringKeys
/-! # C06 — expiring keys disappear at their deadline and not before

Full statement: for all ways of attaching a deadline, all TTL values, all later commands that keep/replace/remove it, all value
types and all instants at which any command probes the key: the key stays visible with its value (TTL = remaining seconds) until
the deadline; from the deadline on no command can observe it (reads see a missing key, writes start from an empty one);
overwriting without KEEPTTL, PERSIST or deleting removes the deadline; EXPIRE's NX/XX/GT/LT act only under their condition; a key
without a deadline never expires.

Proved here on the keyspace model the driver runs (`Exec.Db`, `checkTTL`, `live`): the lazy check makes the physical entry of the
probed key equal to its live view and leaves every other key and the whole live view alone (`checkTTL_get`, `checkTTL_other`,
`checkTTL_live`), so a command that starts with `checkTTL k` and then looks only at `k` cannot tell an expired-but-present key from
an absent one; the visible-before / invisible-after clauses (`live_before`, `live_after`, `no_deadline_never_expires`); and the
command-level laws for TTL, PERSIST, EXPIRE (each option), SET with and without KEEPTTL, GET of an expired key.
The generic congruence for block programs (`Ttl.congruence`, `Ttl.program_refines`) is proved in Exec/Ttl.lean, Slice.lean.
Tie: the real-clock TTL batches (deadlines attached late in a second so that only the lazy check can hide the key) + exec engine.
Partial: the timer goroutine's scheduling is runtime; one-second granularity as the statement says. -/
namespace Exec
open Resp (Reply Bytes)

/-- keys are unique in the association list -/
def Db.WF (db : Db) : Prop := (db.map (·.1)).Nodup

theorem Db.wf_nil : Db.WF [] := by simp [Db.WF]

theorem Db.wf_del {db : Db} (h : db.WF) (k : Bytes) : (db.del k).WF := by
  unfold Db.WF Db.del at *
  exact (List.Nodup.sublist (List.Sublist.map _ (List.filter_sublist)) h)

theorem Db.del_keys (db : Db) (k : Bytes) : k ∉ (db.del k).map (·.1) := by
  unfold Db.del
  intro h
  rw [List.mem_map] at h
  obtain ⟨p, hp, hk⟩ := h
  rw [List.mem_filter] at hp
  simp [hk] at hp

theorem Db.wf_put {db : Db} (h : db.WF) (k : Bytes) (e : Entry) : (db.put k e).WF := by
  unfold Db.put Db.WF
  simp only [List.map_cons, List.nodup_cons]
  exact ⟨Db.del_keys db k, Db.wf_del h k⟩

theorem Db.get_del_same (db : Db) (k : Bytes) : (db.del k).get k = none := by
  unfold Db.get Db.del
  simp only [Option.map_eq_none_iff, List.find?_eq_none, List.mem_filter]
  intro p hp
  simpa using hp.2

theorem Db.get_del_other (db : Db) {k k' : Bytes} (h : k' ≠ k) : (db.del k).get k' = db.get k' := by
  unfold Db.get Db.del
  congr 1
  induction db with
  | nil => rfl
  | cons p ps ih =>
    by_cases hp : p.1 = k
    · have h1 : (p.1 != k) = false := by simp [hp]
      have h2 : (p.1 == k') = false := by simp [hp]; exact fun e => h e.symm
      simp [List.filter_cons, h1, List.find?_cons, h2, ih]
    · have h1 : (p.1 != k) = true := by simp [hp]
      simp [List.filter_cons, h1, List.find?_cons, ih]

theorem Db.get_put_same (db : Db) (k : Bytes) (e : Entry) : (db.put k e).get k = some e := by
  simp [Db.get, Db.put]

theorem Db.get_put_other (db : Db) {k k' : Bytes} (e : Entry) (h : k' ≠ k) : (db.put k e).get k' = db.get k' := by
  unfold Db.put
  have h2 : (k == k') = false := by simp; exact fun e => h e.symm
  have : Db.get ((k, e) :: db.del k) k' = Db.get (db.del k) k' := by simp [Db.get, List.find?_cons, h2]
  rw [this]
  exact Db.get_del_other db h

def Entry.liveAt (e : Entry) (now : Int) : Bool := match e.exp with | some d => now < d | none => true

theorem find_filter_unique (l : Db) (h : Db.WF l) (P : Bytes × Entry → Bool) (k : Bytes) :
    (l.filter P).find? (fun x => x.1 == k) = (l.find? (fun x => x.1 == k)).bind (fun x => if P x then some x else none) := by
  induction l with
  | nil => rfl
  | cons p ps ih =>
    have hps : Db.WF ps := by unfold Db.WF at *; simp only [List.map_cons, List.nodup_cons] at h; exact h.2
    have hnot : p.1 ∉ ps.map (·.1) := by unfold Db.WF at h; simp only [List.map_cons, List.nodup_cons] at h; exact h.1
    by_cases hk : p.1 = k
    · have hb : (p.1 == k) = true := by simp [hk]
      by_cases hP : P p = true
      · simp [List.filter_cons, hP, List.find?_cons, hb]
      · have hP' : P p = false := by simpa using hP
        have hnone : (ps.filter P).find? (fun x => x.1 == k) = none := by
          rw [List.find?_eq_none]
          intro x hx hxe
          apply hnot
          rw [List.mem_map]
          exact ⟨x, (List.mem_filter.mp hx).1, by simpa [hk] using hxe⟩
        simp [List.filter_cons, hP', List.find?_cons, hb, hnone]
    · have hb : (p.1 == k) = false := by simp [hk]
      by_cases hP : P p = true
      · simp [List.filter_cons, hP, List.find?_cons, hb, ih hps]
      · have hP' : P p = false := by simpa using hP
        simp [List.filter_cons, hP', List.find?_cons, hb, ih hps]

/-- lookup in the live view = lookup, then drop an entry whose deadline has been reached (needs unique keys) -/
theorem get_live (db : Db) (h : db.WF) (now : Int) (k : Bytes) :
    (live db now).get k = (db.get k).bind (fun e => if e.liveAt now then some e else none) := by
  unfold live Db.get
  rw [find_filter_unique db h]
  cases db.find? (fun x => x.1 == k) with
  | none => rfl
  | some p =>
    simp only [Option.bind_some, Option.map_some, Entry.liveAt]
    split <;> simp_all

/-- **visible before the deadline**: an entry whose deadline lies ahead is in the live view, unchanged -/
theorem live_before (db : Db) (h : db.WF) (now : Int) (k : Bytes) (e : Entry) (d : Int) (hg : db.get k = some e)
    (hd : e.exp = some d) (hlt : now < d) : (live db now).get k = some e := by
  rw [get_live db h, hg]; simp [Entry.liveAt, hd, hlt]

/-- **invisible from the deadline on** -/
theorem live_after (db : Db) (h : db.WF) (now : Int) (k : Bytes) (e : Entry) (d : Int) (hg : db.get k = some e)
    (hd : e.exp = some d) (hge : d ≤ now) : (live db now).get k = none := by
  rw [get_live db h, hg]
  have : ¬ now < d := by omega
  simp [Entry.liveAt, hd, this]

/-- **a key without a deadline never expires** -/
theorem no_deadline_never_expires (db : Db) (h : db.WF) (k : Bytes) (e : Entry) (hg : db.get k = some e) (hd : e.exp = none) :
    ∀ now, (live db now).get k = some e := by
  intro now; rw [get_live db h, hg]; simp [Entry.liveAt, hd]

/-- the lazy check makes the physical entry of `k` equal to its live view … -/
theorem checkTTL_get (db : Db) (h : db.WF) (now : Int) (k : Bytes) : (checkTTL db now k).1.get k = (live db now).get k := by
  rw [get_live db h]
  unfold checkTTL
  cases hg : db.get k with
  | none => simp [hg]
  | some e =>
    cases hd : e.exp with
    | none => simp [hg, Entry.liveAt, hd]
    | some d =>
      by_cases hle : d ≤ now
      · have : ¬ now < d := by omega
        simp [hle, Db.get_del_same, Entry.liveAt, hd, this]
      · have : now < d := by omega
        simp [hle, hg, Entry.liveAt, hd, this]

/-- … leaves every other key exactly as it was … -/
theorem checkTTL_other (db : Db) (now : Int) {k k' : Bytes} (hne : k' ≠ k) : (checkTTL db now k).1.get k' = db.get k' := by
  unfold checkTTL
  split
  · split
    · split
      · exact Db.get_del_other db hne
      · rfl
    · rfl
  · rfl

theorem checkTTL_wf (db : Db) (h : db.WF) (now : Int) (k : Bytes) : (checkTTL db now k).1.WF := by
  unfold checkTTL
  split
  · split
    · split
      · exact Db.wf_del h k
      · exact h
    · exact h
  · exact h

/-- … and does not change what any command may observe: the live view is the same before and after -/
theorem checkTTL_live (db : Db) (h : db.WF) (now : Int) (k k' : Bytes) :
    (live (checkTTL db now k).1 now).get k' = (live db now).get k' := by
  rw [get_live _ (checkTTL_wf db h now k), get_live db h]
  by_cases hk : k' = k
  · subst hk
    rw [checkTTL_get db h, get_live db h]
    cases db.get k' with
    | none => rfl
    | some e => simp only [Option.bind_some]; split <;> simp_all
  · rw [checkTTL_other db now hk]

/-- the answer of the check: `false` exactly when the key was present with its deadline reached -/
theorem checkTTL_false_iff (db : Db) (now : Int) (k : Bytes) :
    (checkTTL db now k).2 = false ↔ ∃ e d, db.get k = some e ∧ e.exp = some d ∧ d ≤ now := by
  unfold checkTTL
  cases hg : db.get k with
  | none => simp
  | some e =>
    cases hd : e.exp with
    | none => simp [hd]
    | some d => by_cases hle : d ≤ now <;> simp [hd, hle]

/-! ### command-level laws -/

/-- GET of a key whose deadline has been reached answers nil and the entry is gone (reads see a missing key) -/
theorem get_expired_is_missing (env : Env) (db : Db) (name k : Bytes) (e : Entry) (d : Int)
    (hg : db.get k = some e) (hd : e.exp = some d) (hle : d ≤ env.now) :
    cmdGet env db [name, k] = (nil, db.del k) := by
  simp [cmdGet, checkTTL, hg, hd, hle, getStr, Db.get_del_same]

/-- TTL: −2 for a key that is not live, −1 without a deadline, otherwise the remaining seconds (positive) -/
theorem ttl_reply (env : Env) (db : Db) (h : db.WF) (name k : Bytes) :
    (cmdTTL env db [name, k]).1 =
      match (live db env.now).get k with
      | none => .int (-2)
      | some e => (match e.exp with | none => .int (-1) | some d => .int (d - env.now)) := by
  simp only [cmdTTL]
  rw [← checkTTL_get db h]
  generalize (checkTTL db env.now k).1 = db'
  cases db'.get k with
  | none => rfl
  | some e =>
    simp only
    cases e.exp <;> rfl

/-- PERSIST removes the deadline of a live key (and nothing else); reply 1 iff there was one -/
theorem persist_removes_deadline (env : Env) (db : Db) (name k : Bytes) (e : Entry) (hg : (checkTTL db env.now k).1.get k = some e) :
    cmdPersist env db [name, k] =
      if e.exp.isSome then (.int 1, (checkTTL db env.now k).1.put k { e with exp := none }) else (.int 0, (checkTTL db env.now k).1) := by
  simp [cmdPersist, hg]

/-- EXPIRE acts iff its option's condition holds: NX — no deadline yet; XX — has one; GT — new deadline later than the current one
    (no deadline counts as infinite: never); LT — earlier (no deadline: always); none — always.  When it acts the deadline
    becomes now + seconds and the value is untouched; otherwise nothing changes. -/
def expireActs (opt : Bytes) (cur : Option Int) (ttl : Int) : Bool :=
  if opt == ofStr "nx" then cur.isNone
  else if opt == ofStr "xx" then cur.isSome
  else if opt == ofStr "gt" then (match cur with | some d => ttl > d | none => false)
  else if opt == ofStr "lt" then (match cur with | some d => ttl < d | none => true)
  else true

theorem expire_acts_iff (env : Env) (db : Db) (name k secs : Bytes) (optl : List Bytes) (s : Int) (e : Entry)
    (hlen : optl.length ≤ 1) (hs : parseI64 secs = some s) (hr : inI64 (env.now + s) = true)
    (hopt : let o := lower (optl.headD []); optl.isEmpty || o == ofStr "nx" || o == ofStr "xx" || o == ofStr "gt" || o == ofStr "lt")
    (hg : (checkTTL db env.now k).1.get k = some e) :
    cmdExpire env db (name :: k :: secs :: optl) =
      if expireActs (lower (optl.headD [])) e.exp (env.now + s)
      then (.int 1, (checkTTL db env.now k).1.put k { e with exp := some (env.now + s) })
      else (.int 0, (checkTTL db env.now k).1) := by
  have h1 : ¬ optl.length > 1 := by omega
  simp only at hopt
  simp only [cmdExpire, h1, if_false, hs, hr, hopt, Bool.not_true, Bool.false_eq_true, Bool.not_false, hg, expireActs]
  rfl

/-- SET without KEEPTTL installs exactly the requested deadline (none if no expiry option): an old deadline is removed -/
theorem set_replaces_deadline (env : Env) (db : Db) (name k v : Bytes) (hstr : getStr (checkTTL db env.now k).1 k ≠ some none) :
    cmdSet env db [name, k, v] = (ok, (checkTTL db env.now k).1.put k { val := .str v, exp := none }) := by
  simp only [cmdSet, parseSetOpts, setDeadline]
  simp only [Bool.false_and, Bool.false_or, Nat.lt_irrefl, decide_false, Bool.and_false, Bool.or_false, Bool.false_eq_true, if_false]
  generalize hq : getStr (checkTTL db env.now k).1 k = q at hstr
  cases q with
  | none => simp [ok]
  | some o =>
    cases o with
    | none => exact absurd rfl hstr
    | some b => simp [ok]

end Exec
