import RedisGoModel.Cluster.ReadyLoop
/-! Helper lemmas for `Props/C08Ready.lean`: how `replayWAL` (`replayRecs`) changes when records are appended to the WAL or snapshot files
    are added.  Core Lean only. -/
namespace ReadyLoop

theorem lastState_append (a b : List Rec) (h : HardState) : lastState (a ++ b) h = lastState b (lastState a h) := by
  induction a generalizing h with
  | nil => rfl
  | cons r a ih => cases r <;> simp [lastState, ih]

theorem snapRecs_append (a b : List Rec) : snapRecs (a ++ b) = snapRecs a ++ snapRecs b := by
  induction a with
  | nil => rfl
  | cons r a ih => cases r <;> simp [snapRecs, ih]

theorem readEnts_append (b : Nat) (a rs : List Rec) (acc : List Entry) :
    readEnts b acc (a ++ rs) = (readEnts b acc a).bind (fun x => readEnts b x rs) := by
  induction a generalizing acc with
  | nil => simp [readEnts]
  | cons r a ih =>
    cases r with
    | entry e =>
      simp only [List.cons_append, readEnts]
      split
      · split
        · exact ih _
        · rfl
      · exact ih _
    | state h => simp only [List.cons_append, readEnts]; exact ih _
    | snap i t => simp only [List.cons_append, readEnts]; exact ih _

def NoEntry (rs : List Rec) : Prop := ∀ r ∈ rs, ∀ e, r ≠ Rec.entry e

theorem readEnts_noEntry (b : Nat) (rs : List Rec) (acc : List Entry) (h : NoEntry rs) : readEnts b acc rs = some acc := by
  induction rs with
  | nil => rfl
  | cons r rs ih =>
    have h' : NoEntry rs := fun x hx => h x (List.mem_cons_of_mem _ hx)
    cases r with
    | entry e => exact absurd rfl (h _ (List.mem_cons_self ..) e)
    | state h => simp only [readEnts]; exact ih h'
    | snap i t => simp only [readEnts]; exact ih h'

/-- positions and indexes agree: the list holds the entries `b+1, b+2, …` -/
def Contig (b : Nat) (l : List Entry) : Prop := ∀ j e, l[j]? = some e → e.index = b + 1 + j

theorem contig_nil (b : Nat) : Contig b [] := by intro j e h; simp at h

theorem contig_snoc {b u : Nat} {l : List Entry} {e : Entry} (h : Contig b l) (hu : u ≤ l.length) (he : e.index = b + 1 + u) :
    Contig b (l.take u ++ [e]) := by
  intro j x hx
  rw [List.getElem?_append] at hx
  split at hx
  · rename_i hj
    rw [List.getElem?_take] at hx
    split at hx
    · exact h j x hx
    · simp at hx
  · rename_i hj
    simp only [List.length_take, Nat.min_eq_left hu] at hj hx
    have : j - u = 0 := by
      rcases Nat.eq_zero_or_pos (j - u) with h0 | h0
      · exact h0
      · rw [List.getElem?_eq_none (by simp; omega)] at hx; simp at hx
    rw [this] at hx
    simp at hx
    subst hx
    omega

theorem contig_mem {b : Nat} {l : List Entry} (h : Contig b l) {x : Entry} (hx : x ∈ l) : b < x.index ∧ x.index ≤ b + l.length := by
  obtain ⟨j, hj, rfl⟩ := List.mem_iff_getElem.mp hx
  have := h j l[j] (by simp [hj])
  omega

theorem mem_take_contig {b u : Nat} {l : List Entry} (h : Contig b l) (x : Entry) :
    x ∈ l.take u ↔ x ∈ l ∧ x.index < b + 1 + u := by
  constructor
  · intro hx
    obtain ⟨j, hj⟩ := List.mem_iff_getElem?.mp hx
    rw [List.getElem?_take] at hj
    split at hj
    · exact ⟨List.mem_iff_getElem?.mpr ⟨j, hj⟩, by have := h j x hj; omega⟩
    · simp at hj
  · rintro ⟨hx, hlt⟩
    obtain ⟨j, hj⟩ := List.mem_iff_getElem?.mp hx
    have := h j x hj
    exact List.mem_iff_getElem?.mpr ⟨j, by rw [List.getElem?_take]; simp [show j < u by omega, hj]⟩

/-- an entry with a given index sits at its position -/
theorem contig_pos {b : Nat} {l : List Entry} (h : Contig b l) {x : Entry} (hx : x ∈ l) : x.index - b - 1 < l.length := by
  have := contig_mem h hx; omega

/-- **changing the snapshot `ReadAll` starts from**: reading from a later snapshot succeeds when reading from an earlier one does, and
    returns at least the entries above the later snapshot -/
theorem readEnts_mono {b b' : Nat} (hb : b ≤ b') : ∀ (rs : List Rec) (l l' r : List Entry), Contig b l → Contig b' l' →
    (∀ x ∈ l, b' < x.index → x ∈ l') → readEnts b l rs = some r →
    ∃ r', readEnts b' l' rs = some r' ∧ Contig b r ∧ Contig b' r' ∧ (∀ x ∈ r, b' < x.index → x ∈ r') := by
  intro rs
  induction rs with
  | nil => intro l l' r hl hl' hsub hr; simp only [readEnts, Option.some.injEq] at hr; subst hr; exact ⟨l', rfl, hl, hl', hsub⟩
  | cons rc rs ih =>
    intro l l' r hl hl' hsub hr
    cases rc with
    | state h => simp only [readEnts] at hr ⊢; exact ih l l' r hl hl' hsub hr
    | snap i t => simp only [readEnts] at hr ⊢; exact ih l l' r hl hl' hsub hr
    | entry e =>
      simp only [readEnts] at hr ⊢
      by_cases h1 : b < e.index
      · rw [if_pos h1] at hr
        by_cases h2 : e.index - b - 1 ≤ l.length
        · rw [if_pos h2] at hr
          have hl1 : Contig b (l.take (e.index - b - 1) ++ [e]) := contig_snoc hl h2 (by omega)
          by_cases h3 : b' < e.index
          · rw [if_pos h3]
            have h4 : e.index - b' - 1 ≤ l'.length := by
              by_cases h5 : e.index = b' + 1
              · omega
              · -- the entry just below `e` in `l` lies above `b'`, hence in `l'`
                have hpos : e.index - b - 1 - 1 < l.length := by omega
                have hy := hl (e.index - b - 1 - 1) l[e.index - b - 1 - 1] (by simp [hpos])
                have hy' := hsub _ (List.getElem_mem hpos) (by omega)
                have := contig_mem hl' hy'
                omega
            rw [if_pos h4]
            have hl1' : Contig b' (l'.take (e.index - b' - 1) ++ [e]) := contig_snoc hl' h4 (by omega)
            refine ih _ _ r hl1 hl1' ?_ hr
            intro x hx hxb
            rw [List.mem_append] at hx ⊢
            rcases hx with hx | hx
            · rw [mem_take_contig hl] at hx
              left
              rw [mem_take_contig hl']
              exact ⟨hsub x hx.1 hxb, by omega⟩
            · right; exact hx
          · rw [if_neg h3]
            refine ih _ _ r hl1 hl' ?_ hr
            intro x hx hxb
            rw [List.mem_append] at hx
            rcases hx with hx | hx
            · rw [mem_take_contig hl] at hx; exact hsub x hx.1 hxb
            · simp at hx; subst hx; omega
        · rw [if_neg h2] at hr; simp at hr
      · rw [if_neg h1] at hr
        have h3 : ¬ b' < e.index := by omega
        rw [if_neg h3]
        exact ih l l' r hl hl' hsub hr

theorem readEnts_contig (b : Nat) (rs : List Rec) (r : List Entry) (h : readEnts b [] rs = some r) : Contig b r := by
  obtain ⟨_, _, h1, _, _⟩ := readEnts_mono (Nat.le_refl b) rs [] [] r (contig_nil b) (contig_nil b) (fun _ hx _ => hx) h
  exact h1

/-- with `Contig`, a list that contains the upper part of another reaches at least as far -/
theorem contig_last_le {b b' : Nat} {r r' : List Entry} (hb : b ≤ b') (hr : Contig b r) (hr' : Contig b' r')
    (hsub : ∀ x ∈ r, b' < x.index → x ∈ r') : b + r.length ≤ b' + r'.length := by
  rcases Nat.eq_zero_or_pos r.length with h0 | h0
  · omega
  · have hpos : r.length - 1 < r.length := by omega
    have hy := hr (r.length - 1) r[r.length - 1] (by simp [hpos])
    by_cases hlt : b' < r[r.length - 1].index
    · have := contig_mem hr' (hsub _ (List.getElem_mem hpos) hlt)
      omega
    · omega

/-! ### the snapshot `LoadNewestAvailable` picks -/

theorem pickSnap_spec (ws : List (Nat × Nat)) : ∀ (fs : List Snap) (best : Snap),
    ((pickSnap ws fs best = best) ∨ (pickSnap ws fs best ∈ fs ∧ ((pickSnap ws fs best).index, (pickSnap ws fs best).term) ∈ ws)) ∧
    best.index ≤ (pickSnap ws fs best).index ∧
    (∀ f ∈ fs, (f.index, f.term) ∈ ws → f.index ≤ (pickSnap ws fs best).index) := by
  intro fs
  induction fs with
  | nil => intro best; simp [pickSnap]
  | cons f fs ih =>
    intro best
    simp only [pickSnap]
    by_cases hc : (f.index, f.term) ∈ ws ∧ best.index < f.index
    · rw [if_pos hc]
      obtain ⟨h1, h2, h3⟩ := ih f
      refine ⟨?_, by omega, ?_⟩
      · rcases h1 with h1 | h1
        · right; rw [h1]; exact ⟨List.mem_cons_self .., hc.1⟩
        · right; exact ⟨List.mem_cons_of_mem _ h1.1, h1.2⟩
      · intro g hg hgw
        rcases List.mem_cons.mp hg with rfl | hg
        · exact h2
        · exact h3 g hg hgw
    · rw [if_neg hc]
      obtain ⟨h1, h2, h3⟩ := ih best
      refine ⟨?_, h2, ?_⟩
      · rcases h1 with h1 | h1
        · left; exact h1
        · right; exact ⟨List.mem_cons_of_mem _ h1.1, h1.2⟩
      · intro g hg hgw
        rcases List.mem_cons.mp hg with rfl | hg
        · have : ¬ best.index < g.index := fun hlt => hc ⟨hgw, hlt⟩
          omega
        · exact h3 g hg hgw

theorem loadNewest_mono {fs fs' : List Snap} {ws ws' : List (Nat × Nat)} (hf : ∀ f ∈ fs, f ∈ fs') (hw : ∀ p ∈ ws, p ∈ ws') :
    (loadNewest fs ws).index ≤ (loadNewest fs' ws').index := by
  unfold loadNewest
  obtain ⟨h1, _, _⟩ := pickSnap_spec ws fs {}
  obtain ⟨_, _, h3⟩ := pickSnap_spec ws' fs' {}
  rcases h1 with h1 | h1
  · rw [h1]; exact Nat.zero_le _
  · exact h3 _ (hf _ h1.1) (hw _ h1.2)

theorem loadNewest_ge {fs : List Snap} {ws : List (Nat × Nat)} {f : Snap} (hf : f ∈ fs) (hw : (f.index, f.term) ∈ ws) :
    f.index ≤ (loadNewest fs ws).index := (pickSnap_spec ws fs {}).2.2 f hf hw

theorem loadNewest_le_commit (fs : List Snap) (recs : List Rec) :
    (loadNewest fs (validSnaps recs)).index ≤ (lastState recs {}).commit := by
  unfold loadNewest
  obtain ⟨h1, _, _⟩ := pickSnap_spec (validSnaps recs) fs {}
  rcases h1 with h1 | h1
  · rw [h1]; exact Nat.zero_le _
  · have h2 := h1.2
    generalize pickSnap (validSnaps recs) fs {} = r at h2 ⊢
    unfold validSnaps at h2
    rw [List.mem_filter] at h2
    simpa using h2.2

theorem validSnaps_mono (recs extra : List Rec) (hc : (lastState recs {}).commit ≤ (lastState (recs ++ extra) {}).commit) :
    ∀ p ∈ validSnaps recs, p ∈ validSnaps (recs ++ extra) := by
  intro p hp
  unfold validSnaps at hp ⊢
  rw [List.mem_filter] at hp ⊢
  rw [snapRecs_append]
  refine ⟨List.mem_append_left _ hp.1, ?_⟩
  have := hp.2
  simp only [decide_eq_true_eq] at this ⊢
  omega

/-! ### replay after the WAL or the snapshot directory grew -/

theorem replayRecs_some {recs : List Rec} {files : List Snap} {v : View} (h : replayRecs recs files = some v) :
    v.hs = lastState recs {} ∧ v.snap = loadNewest files (validSnaps recs) ∧ readEnts v.snap.index [] recs = some v.ents := by
  unfold replayRecs at h
  simp only at h
  split at h
  · simp at h
  · rename_i es hes
    simp only [Option.some.injEq] at h
    subst h
    exact ⟨rfl, rfl, hes⟩

theorem replay_contig {recs : List Rec} {files : List Snap} {v : View} (h : replayRecs recs files = some v) : Contig v.snap.index v.ents :=
  readEnts_contig _ _ _ (replayRecs_some h).2.2

theorem replay_base_le_commit {recs : List Rec} {files : List Snap} {v : View} (h : replayRecs recs files = some v) :
    v.snap.index ≤ v.hs.commit := by
  obtain ⟨h1, h2, _⟩ := replayRecs_some h
  rw [h1, h2]; exact loadNewest_le_commit _ _

/-- records other than entries are appended (the commit index not going back), snapshot files are added: the restart still works, starts from
    a snapshot at least as new, and keeps every entry above that snapshot; the log reaches at least as far -/
theorem replay_extend {recs extra : List Rec} {files files' : List Snap} {v : View} (hv : replayRecs recs files = some v)
    (hne : NoEntry extra) (hc : v.hs.commit ≤ (lastState extra v.hs).commit) (hf : ∀ f ∈ files, f ∈ files') :
    ∃ v', replayRecs (recs ++ extra) files' = some v' ∧ v'.hs = lastState extra v.hs ∧ v.snap.index ≤ v'.snap.index ∧
      (∀ x ∈ v.ents, v'.snap.index < x.index → x ∈ v'.ents) ∧ v.last ≤ v'.last := by
  obtain ⟨h1, h2, h3⟩ := replayRecs_some hv
  have hls : lastState (recs ++ extra) {} = lastState extra v.hs := by rw [lastState_append, h1]
  have hb : v.snap.index ≤ (loadNewest files' (validSnaps (recs ++ extra))).index := by
    rw [h2]
    exact loadNewest_mono hf (validSnaps_mono recs extra (by rw [hls, ← h1]; exact hc))
  obtain ⟨r', hr', hc1, hc2, hsub⟩ := readEnts_mono hb recs [] [] v.ents (contig_nil _) (contig_nil _) (by simp) h3
  have hfull : readEnts (loadNewest files' (validSnaps (recs ++ extra))).index [] (recs ++ extra) = some r' := by
    rw [readEnts_append, hr']; simp [readEnts_noEntry _ _ _ hne]
  refine ⟨⟨lastState (recs ++ extra) {}, loadNewest files' (validSnaps (recs ++ extra)), r'⟩, ?_, hls, hb, hsub, ?_⟩
  · unfold replayRecs; simp only [hfull]
  · exact contig_last_le hb hc1 hc2 hsub

/-- an entry record is appended, above the snapshot and at most one past the end: the log is cut at its index and continues with it -/
theorem replay_entry {recs : List Rec} {files : List Snap} {v : View} {e : Entry} (hv : replayRecs recs files = some v)
    (hb : v.snap.index < e.index) (hle : e.index ≤ v.last + 1) :
    replayRecs (recs ++ [.entry e]) files = some ⟨v.hs, v.snap, v.ents.take (e.index - v.snap.index - 1) ++ [e]⟩ := by
  obtain ⟨h1, h2, h3⟩ := replayRecs_some hv
  have hls : lastState (recs ++ [.entry e]) {} = v.hs := by rw [lastState_append, h1]; rfl
  have hvs : validSnaps (recs ++ [.entry e]) = validSnaps recs := by
    unfold validSnaps; rw [snapRecs_append, hls, h1]; simp [snapRecs]
  unfold replayRecs
  simp only [hvs, ← h2, hls]
  rw [readEnts_append, h3]
  have : e.index - v.snap.index - 1 ≤ v.ents.length := by unfold View.last at hle; omega
  have h4 : e.index ≤ v.ents.length + 1 + v.snap.index := by omega
  simp [readEnts, hb, h4]

end ReadyLoop
