import RedisGoModel.Raft.RHDriverLemmas
import RedisGoModel.Raft.RHCRun
import RedisGoModel.Raft.RHJRun
/-! C15, step 8 — the two transport reports in the executable handler: `Input.snapStatus src failed`
    (`RawNode.ReportSnapshot` → MsgSnapStatus) and `Input.unreachable src` (`RawNode.ReportUnreachable` → MsgUnreachable).

    They move only the leader's `Progress` bookkeeping for `src` (`RS.reportProg`: `Prog.snapStatus`, `Prog.unreachable`, models of
    `stepLeader`'s two cases and of `tracker.Progress.BecomeProbe` / `ResetState`); the safety projection `Node1` — `matchI src`
    included — is untouched and nothing is sent, so in L1 (and below) they are stutter steps: `handle_in_Step1` / `run_covered` /
    `run_*` cover runs that contain them (they are proved for every `Input`; `report_run_safe` spells one instance out).

    Why `Match` matters: the heartbeat for `dst` carries `min (matchI dst) commit` (`leaderOut`) and a follower commits to it
    blindly. `SnapshotFinish` only says the transport handed the snapshot over. A leader that recorded `Match = PendingSnapshot`
    on the report (seeded change C15-snapstatus-finish-sets-match) differs from `handle` in `matchI` at the report event and in the
    `Commit` field of the next heartbeat (`heartbeat_commit_after_report`).

    Not modelled (open): `Prog` is not a field of `Node1`, the other inputs' effect on Next / State / ProbeSent / Inflights is not
    modelled; the lock-step compares the `Progress` record before/after the report events only (`Match` on every event).  The
    configuration-aware handlers `RHC.handleC` / `RHJ.handleJ` have the same two inputs with the same meaning (`reportC_stutters`,
    `reportJ_stutters`; always enabled, `handleC_outcome` / `handleJ_outcome` treat them as `stay`, so `runC_safe` / `runJ_safe` cover
    runs that contain them), but the membership schedules of the lock-step make no reports: for those handlers the inputs are
    model-level only. -/
namespace RS
variable {N : Nat}

theorem Prog.becomeProbe_match (p : Prog) : p.becomeProbe.matchI = p.matchI := by
  unfold Prog.becomeProbe Prog.resetState; split <;> rfl
theorem Prog.snapStatus_match (p : Prog) (failed : Bool) : (p.snapStatus failed).matchI = p.matchI := by
  unfold Prog.snapStatus
  split
  · split
    · exact Prog.becomeProbe_match _
    · exact Prog.becomeProbe_match _
  · rfl
theorem Prog.unreachable_match (p : Prog) : p.unreachable.matchI = p.matchI := by
  unfold Prog.unreachable; split
  · exact Prog.becomeProbe_match _
  · rfl

/-- **a snapshot status report never changes any `Match`** — neither in the handler's node nor in the progress record, whatever the
    state, the role, the report -/
theorem snapStatus_never_changes_match (i : Fin N) (n : Node1 N) (src : Fin N) (failed : Bool) (p : Prog) :
    (handle i n (.snapStatus src failed)).1.matchI = n.matchI ∧
    (reportProg n p (.snapStatus src failed)).matchI = p.matchI := by
  refine ⟨rfl, ?_⟩
  simp only [reportProg]
  split
  · exact Prog.snapStatus_match _ _
  · rfl

theorem unreachable_never_changes_match (i : Fin N) (n : Node1 N) (src : Fin N) (p : Prog) :
    (handle i n (.unreachable src)).1.matchI = n.matchI ∧
    (reportProg n p (.unreachable src)).matchI = p.matchI := by
  refine ⟨rfl, ?_⟩
  simp only [reportProg]
  split
  · exact Prog.unreachable_match _
  · rfl

/-- **stutter**: the node's whole safety projection is unchanged, nothing is answered, and the system state of a `Run` after the
    call is the system state before it -/
theorem snapStatus_stutters (s : Sys1 N) (i src : Fin N) (failed : Bool) :
    handle i (s.nodes i) (.snapStatus src failed) = (s.nodes i, []) ∧
    upd1 s.nodes i (handle i (s.nodes i) (.snapStatus src failed)).1 = s.nodes :=
  ⟨rfl, upd1_self s.nodes i⟩

theorem unreachable_stutters (s : Sys1 N) (i src : Fin N) :
    handle i (s.nodes i) (.unreachable src) = (s.nodes i, []) ∧
    upd1 s.nodes i (handle i (s.nodes i) (.unreachable src)).1 = s.nodes :=
  ⟨rfl, upd1_self s.nodes i⟩

/-- the reports are always enabled and a run extended by one (with any valid leader traffic `outs`, e.g. the heartbeats that
    follow) is a run: so `run_covered` and the four `run_*` theorems hold for runs that contain reports -/
theorem report_run {s : Sys1 N} (r : Run s) (i src : Fin N) (failed : Bool) (outs : List (Msg1 N))
    (hout : ∀ m ∈ outs, leaderOut (s.nodes i) i m) :
    Run ⟨s.nodes, fun m => s.net m ∨ m ∈ outs⟩ := by
  have := Run.call i (.snapStatus src failed) outs r trivial (fun m hm => Or.inr (hout m hm))
  rwa [(snapStatus_stutters s i src failed).2] at this

theorem report_run_safe {s : Sys1 N} (r : Run s) (i src : Fin N) (failed : Bool) (outs : List (Msg1 N))
    (hout : ∀ m ∈ outs, leaderOut (s.nodes i) i m) (a b : Fin N) (m : Nat)
    (ha : m ≤ (s.nodes a).commit) (hb : m ≤ (s.nodes b).commit) : (s.nodes a).log.take m = (s.nodes b).log.take m :=
  run_state_machine_safety (report_run r i src failed outs hout) a b m ha hb

example : ∃ s : Sys1 3, Run s := ⟨_, report_run (Run.init) 0 1 false [] (fun _ h => nomatch h)⟩

/-- the only heartbeat a leader may send to `dst` after a report is the one it might have sent before it: `Commit = min(Match, committed)`
    with the OLD `Match` -/
theorem heartbeat_commit_after_report (i : Fin N) (n : Node1 N) (src dst : Fin N) (failed : Bool) (t c : Nat)
    (h : leaderOut (handle i n (.snapStatus src failed)).1 i (.hb t i dst c)) : c = min (n.matchI dst) n.commit := by
  obtain ⟨_, h⟩ := h
  rcases h with ⟨_, _, _, _, h⟩ | ⟨d, h⟩ | ⟨_, _, _, _, _, h⟩
  · cases h
  · cases h; rfl
  · cases h

/-- `SnapshotFinish` from StateSnapshot: probe, `Next = max(Match+1, PendingSnapshot+1)`, pending cleared, paused, `Match` as before -/
theorem snapStatus_finish (p : Prog) (h : p.state = .snapshot) :
    p.snapStatus false = ⟨.probe, p.matchI, max (p.matchI + 1) (p.pendingSnapshot + 1), 0, true, 0⟩ := by
  simp [Prog.snapStatus, Prog.becomeProbe, Prog.resetState, h]

/-- `SnapshotFailure` from StateSnapshot: the pending snapshot is forgotten BEFORE `BecomeProbe`: `Next = Match+1` -/
theorem snapStatus_failure (p : Prog) (h : p.state = .snapshot) :
    p.snapStatus true = ⟨.probe, p.matchI, p.matchI + 1, 0, true, 0⟩ := by
  simp [Prog.snapStatus, Prog.becomeProbe, Prog.resetState, h]

/-- outside StateSnapshot a snapshot report is ignored; a non-leader ignores both reports -/
theorem snapStatus_ignored (p : Prog) (failed : Bool) (h : p.state ≠ .snapshot) : p.snapStatus failed = p := by
  simp [Prog.snapStatus, h]
theorem report_ignored_not_leader (n : Node1 N) (p : Prog) (src : Fin N) (failed : Bool) (h : n.role ≠ .leader) :
    reportProg n p (.snapStatus src failed) = p ∧ reportProg n p (.unreachable src) = p := by
  simp [reportProg, h]

/-- `MsgUnreachable`: a replicating follower is probed from `Match+1`, anything else stays -/
theorem unreachable_replicate (p : Prog) (h : p.state = .replicate) :
    p.unreachable = ⟨.probe, p.matchI, p.matchI + 1, 0, false, 0⟩ := by
  simp [Prog.unreachable, Prog.becomeProbe, Prog.resetState, h]
theorem unreachable_ignored (p : Prog) (h : p.state ≠ .replicate) : p.unreachable = p := by
  simp [Prog.unreachable, h]

-- the situation of the seeded change: Match 3, snapshot 9 sent; Finish leaves Match at 3 and probes from 10
example : (⟨.snapshot, 3, 4, 9, false, 0⟩ : Prog).snapStatus false = ⟨.probe, 3, 10, 0, true, 0⟩ := by decide
example : (⟨.snapshot, 3, 4, 9, false, 0⟩ : Prog).snapStatus true = ⟨.probe, 3, 4, 0, true, 0⟩ := by decide
example : (⟨.replicate, 7, 12, 0, false, 4⟩ : Prog).unreachable = ⟨.probe, 7, 8, 0, false, 0⟩ := by decide

end RS

/-- the configuration-aware handler: both reports leave the whole node (`Node1`, applied index, pendingConfIndex) alone and answer nothing -/
theorem RHC.reportC_stutters {N : Nat} (c0 : RQJ.Config) (i src : Fin N) (x : RHC.NodeC N) (failed : Bool) :
    RHC.handleC c0 i x (.snapStatus src failed) = (x, []) ∧ RHC.handleC c0 i x (.unreachable src) = (x, []) := ⟨rfl, rfl⟩

/-- the joint-configuration handler: the same -/
theorem RHJ.reportJ_stutters {N : Nat} (c0 : RQJ.Config) (i src : Fin N) (x : RHC.NodeC N) (failed : Bool) :
    RHJ.handleJ c0 i x (.snapStatus src failed) = (x, []) ∧ RHJ.handleJ c0 i x (.unreachable src) = (x, []) := ⟨rfl, rfl⟩

namespace RS
#print axioms RHC.reportC_stutters
#print axioms RHJ.reportJ_stutters
#print axioms snapStatus_never_changes_match
#print axioms unreachable_never_changes_match
#print axioms snapStatus_stutters
#print axioms unreachable_stutters
#print axioms report_run
#print axioms report_run_safe
#print axioms heartbeat_commit_after_report
#print axioms snapStatus_finish
#print axioms snapStatus_failure
#print axioms snapStatus_ignored
#print axioms report_ignored_not_leader
#print axioms unreachable_replicate
#print axioms unreachable_ignored
end RS
