import RedisGoModel.Props.C16Cut
import RedisGoModel.Wal.WalTorn
/-! C16: the abstract sector-atomic torn-tail theorem (WalTorn.lean) instantiated with the concrete frame layout of
    Codec.lean — the real 8-byte length field (record bytes and padding encoded separately), `Record.Unmarshal` on the
    record bytes, the rolling CRC-32C with the crcType exception — and the link between File.lean's executable
    `isTornB` and WalTorn's `isTorn`. -/
namespace WalTornC
open WalCodec WalFile WalTorn

def toBytes (l : List Nat) : Bytes := l.map UInt8.ofNat

theorem toBytes_toNats (b : Bytes) : toBytes (toNats b) = b := by
  unfold toBytes toNats
  rw [List.map_map]
  conv => rhs; rw [← List.map_id b]
  apply List.map_congr_left
  intro x _
  simp

theorem toNats_length (b : Bytes) : (toNats b).length = b.length := by simp [toNats]

/-! ### the concrete codec -/

/-- the length field: `binary.Read` -/
def hdrField (hd : List Nat) : Nat :=
  match readLE64 (toBytes hd) with
  | some (l, _) => l
  | none => 0

/-- (record bytes, padding bytes) announced by 8 header bytes: `decodeFrameSize` -/
def hdrLen (hd : List Nat) : Nat × Nat := decodeFrameSize (hdrField hd)

/-- `none` = zero length field (end of the written part), else record bytes + padding bytes -/
def cUnhdr (hd : List Nat) : Option Nat := if hdrField hd = 0 then none else some ((hdrLen hd).1 + (hdrLen hd).2)

/-- `rec.Unmarshal(data[:recBytes])`, then the CRC test of `decodeRecord`; for a crcType record the test and
    re-seeding that every caller's loop performs (`recLoop` in File.lean). The state is the decoder's rolling CRC. -/
def cValid (crc : Nat) (hd body : List Nat) : VRes Record Nat :=
  match unmarshal ((toBytes body).take (hdrLen hd).1) with
  | .error _ => .bad
  | .ok r =>
    if r.type = crcType then (if crc ≠ 0 ∧ r.crc ≠ crc then .fatal else .ok r r.crc)
    else if r.crc ≠ crcUpdate crc (r.data.getD []) then .bad
    else .ok r (crcUpdate crc (r.data.getD []))

theorem cUnhdr_zero : cUnhdr (List.replicate 8 0) = none := by decide +kernel

def walCodec : Codec Record Nat := { unhdr := cUnhdr, valid := cValid, unhdr_zero := cUnhdr_zero }

theorem walCodec_unhdr : walCodec.unhdr = cUnhdr := rfl
theorem walCodec_valid : walCodec.valid = cValid := rfl

/-- the frame `encodeFrame r` as header bytes and body bytes -/
def frameOf (r : Record) : Frame Record :=
  { val := r
    hd := toNats (le64 (encodeFrameSize (marshal r).length).1)
    body := toNats (marshal r ++ List.replicate (encodeFrameSize (marshal r).length).2 0) }

/-- the frames `encodeAll` writes -/
def framesOf (crc : Nat) (items : List Item) : List (Frame Record) := (records crcUpdate crc items).map frameOf

/-- a segment file: the CRC record, then the data frames chained onto it -/
def fileFrames (c0 : Nat) (items : List Item) : List (Frame Record) := frameOf (crcRec c0) :: framesOf c0 items

theorem hdrField_frameOf (r : Record) (hsz : (marshal r).length < 2 ^ 56) :
    hdrField (frameOf r).hd = (encodeFrameSize (marshal r).length).1 := by
  unfold hdrField frameOf
  simp only [toBytes_toNats]
  have := le64_roundtrip _ (frameSize_lt _ hsz) []
  rw [List.append_nil] at this
  rw [this]

theorem hdrLen_frameOf (r : Record) (hsz : (marshal r).length < 2 ^ 56) :
    hdrLen (frameOf r).hd = ((marshal r).length, (encodeFrameSize (marshal r).length).2) := by
  unfold hdrLen
  rw [hdrField_frameOf r hsz]
  exact frameSize_roundtrip _ hsz

theorem pad_eq (n : Nat) : (encodeFrameSize n).2 = (8 - n % 8) % 8 := rfl

theorem marshal_pos (r : Record) : 0 < (marshal r).length := by
  simp only [marshal, List.length_append, List.length_cons]; omega

/-- real frames are well formed -/
theorem frameOf_wf (r : Record) (hsz : (marshal r).length < 2 ^ 56) :
    (0 < (frameOf r).body.length ∧ (frameOf r).body.length % 8 = 0) ∧ (frameOf r).hd.length = 8 ∧
      walCodec.unhdr (frameOf r).hd = some (frameOf r).body.length := by
  have hb : (frameOf r).body.length = (marshal r).length + (encodeFrameSize (marshal r).length).2 := by
    simp [frameOf, toNats]
  have hp := marshal_pos r
  refine ⟨⟨by omega, ?_⟩, by simp [frameOf, toNats, le64], ?_⟩
  · rw [hb, pad_eq]; omega
  · rw [walCodec_unhdr]
    have hne : ¬ hdrField (frameOf r).hd = 0 := by rw [hdrField_frameOf r hsz]; exact frameSize_ne_zero r hsz
    unfold cUnhdr
    rw [if_neg hne, hdrLen_frameOf r hsz, hb]

/-- the record bytes the header announces are `marshal r` -/
theorem frameOf_unmarshal (r : Record) (ht : r.type < 2 ^ 64) (hc : r.crc < 2 ^ 32)
    (hd : ∀ x, r.data = some x → x.length < 2 ^ 63) (hsz : (marshal r).length < 2 ^ 56) :
    unmarshal ((toBytes (frameOf r).body).take (hdrLen (frameOf r).hd).1) = .ok r := by
  rw [hdrLen_frameOf r hsz]
  simp only [frameOf, toBytes_toNats]
  rw [List.take_left' rfl]
  exact unmarshal_marshal r ht hc hd

theorem valid_item (crc : Nat) (hc : crc < 2 ^ 32) (it : Item) (hok : ItemOk it) (hty : it.type ≠ crcType) :
    walCodec.valid crc (frameOf ⟨it.type, crcUpdate crc it.data, some it.data⟩).hd
        (frameOf ⟨it.type, crcUpdate crc it.data, some it.data⟩).body =
      .ok ⟨it.type, crcUpdate crc it.data, some it.data⟩ (crcUpdate crc it.data) := by
  show cValid _ _ _ = _
  unfold cValid
  have hcl := crcUpdate_lt hc it.data
  rw [frameOf_unmarshal _ hok.1 hcl (fun x hx => by simp at hx; subst hx; exact Nat.lt_trans hok.2 (by decide))
    (marshal_length_lt _ _ _ hok.1 hcl (fun x hx => by simp at hx; subst hx; exact hok.2))]
  simp [hty]

theorem valid_crcRec (crc c : Nat) (hc : c < 2 ^ 32) (hcrc : crc = 0 ∨ crc = c) :
    walCodec.valid crc (frameOf (crcRec c)).hd (frameOf (crcRec c)).body = .ok (crcRec c) c := by
  show cValid _ _ _ = _
  unfold cValid
  rw [frameOf_unmarshal (crcRec c) (show crcType < 2 ^ 64 by decide) hc (fun x hx => by cases hx)
    (marshal_length_lt _ _ _ (show crcType < 2 ^ 64 by decide) hc (fun x hx => by cases hx))]
  have h1 : (crcRec c).type = crcType := rfl
  have h2 : (crcRec c).crc = c := rfl
  simp only [h1, h2, if_true]
  rcases hcrc with h | h <;> simp [h]

def ItemsOk (items : List Item) : Prop := ∀ it ∈ items, ItemOk it ∧ it.type ≠ crcType

theorem framesOf_wf (crc : Nat) (hc : crc < 2 ^ 32) (items : List Item) (hok : ItemsOk items) :
    WF walCodec (framesOf crc items) := by
  induction items generalizing crc with
  | nil => intro fr hfr; simp [framesOf, records] at hfr
  | cons it rest ih =>
    have h1 := (hok it (by simp)).1
    have hcl := crcUpdate_lt hc it.data
    intro fr hfr
    simp only [framesOf, records, List.map_cons, List.mem_cons] at hfr
    rcases hfr with rfl | hfr
    · exact frameOf_wf _ (marshal_length_lt _ _ _ h1.1 hcl (fun x hx => by simp at hx; subst hx; exact h1.2))
    · exact ih _ hcl (fun x hx => hok x (by simp [hx])) fr hfr

theorem fileFrames_wf (c0 : Nat) (hc : c0 < 2 ^ 32) (items : List Item) (hok : ItemsOk items) :
    WF walCodec (fileFrames c0 items) := by
  intro fr hfr
  simp only [fileFrames, List.mem_cons] at hfr
  rcases hfr with rfl | hfr
  · exact frameOf_wf _ (marshal_length_lt _ _ _ (show crcType < 2 ^ 64 by decide) hc (fun x hx => by cases hx))
  · exact framesOf_wf c0 hc items hok fr hfr

theorem framesOf_append (crc : Nat) (a b : List Item) :
    framesOf crc (a ++ b) = framesOf crc a ++ framesOf (crcAfter crcUpdate crc a) b := by
  induction a generalizing crc with
  | nil => rfl
  | cons it rest ih =>
    simp only [framesOf, List.cons_append, records, List.map_cons, crcAfter] at ih ⊢
    rw [ih]

/-- `Chain` holds for the frames produced by `encodeAll` -/
theorem framesOf_chain (crc : Nat) (hc : crc < 2 ^ 32) (items : List Item) (hok : ItemsOk items) :
    Chain walCodec (framesOf crc items) crc := by
  induction items generalizing crc with
  | nil => trivial
  | cons it rest ih =>
    obtain ⟨h1, h2⟩ := hok it (by simp)
    exact ⟨_, valid_item crc hc it h1 h2, ih _ (crcUpdate_lt hc _) (fun x hx => hok x (by simp [hx]))⟩

theorem fileFrames_chain (c0 : Nat) (hc : c0 < 2 ^ 32) (items : List Item) (hok : ItemsOk items) :
    Chain walCodec (fileFrames c0 items) 0 :=
  ⟨_, valid_crcRec 0 c0 hc (Or.inl rfl), framesOf_chain c0 hc items hok⟩

/-- the state the chain leaves is the rolling CRC -/
theorem framesOf_chainTo (crc : Nat) (hc : crc < 2 ^ 32) (items : List Item) (hok : ItemsOk items) (st : Nat)
    (h : ChainTo walCodec (framesOf crc items) crc st) : st = crcAfter crcUpdate crc items := by
  induction items generalizing crc with
  | nil => exact h.symm
  | cons it rest ih =>
    obtain ⟨h1, h2⟩ := hok it (by simp)
    obtain ⟨st1, hv, hrest⟩ := h
    have hv := (valid_item crc hc it h1 h2).symm.trans hv
    simp only [VRes.ok.injEq] at hv
    obtain ⟨_, hv⟩ := hv
    subst hv
    exact ih _ (crcUpdate_lt hc _) (fun x hx => hok x (by simp [hx])) hrest

theorem fileFrames_chainTo (c0 : Nat) (hc : c0 < 2 ^ 32) (items : List Item) (hok : ItemsOk items) (st : Nat)
    (h : ChainTo walCodec (fileFrames c0 items) 0 st) : st = crcAfter crcUpdate c0 items := by
  obtain ⟨st1, hv, hrest⟩ := h
  have hv := (valid_crcRec 0 c0 hc (Or.inl rfl)).symm.trans hv
  simp only [VRes.ok.injEq] at hv
  obtain ⟨_, hv⟩ := hv
  subst hv
  exact framesOf_chainTo c0 hc items hok st hrest

theorem records_length (upd : Nat → Bytes → Nat) (crc : Nat) (items : List Item) :
    (records upd crc items).length = items.length := by
  induction items generalizing crc with
  | nil => rfl
  | cons it rest ih => simp [records, ih]

theorem records_append (upd : Nat → Bytes → Nat) (crc : Nat) (a b : List Item) :
    records upd crc (a ++ b) = records upd crc a ++ records upd (crcAfter upd crc a) b := by
  induction a generalizing crc with
  | nil => rfl
  | cons it rest ih => simp [records, crcAfter, ih]

theorem framesOf_vals (crc : Nat) (items : List Item) : (framesOf crc items).map (·.val) = records crcUpdate crc items := by
  unfold framesOf
  rw [List.map_map]
  conv => rhs; rw [← List.map_id (records crcUpdate crc items)]
  apply List.map_congr_left
  intro x _; rfl

theorem framesOf_length (crc : Nat) (items : List Item) : (framesOf crc items).length = items.length := by
  simp [framesOf, records_length]

/-- a prefix of the frames is the frames of a prefix of the items -/
theorem framesOf_prefix (crc : Nat) (u : List Item) (pf restf : List (Frame Record)) (h : framesOf crc u = pf ++ restf) :
    ∃ p rest, u = p ++ rest ∧ pf = framesOf crc p := by
  refine ⟨u.take pf.length, u.drop pf.length, (List.take_append_drop _ _).symm, ?_⟩
  have hle : pf.length ≤ u.length := by
    have := congrArg List.length h
    rw [framesOf_length, List.length_append] at this; omega
  have h2 : framesOf crc (u.take pf.length ++ u.drop pf.length) = pf ++ restf := by
    rw [List.take_append_drop]; exact h
  rw [framesOf_append] at h2
  have hl : (framesOf crc (u.take pf.length)).length = pf.length := by
    rw [framesOf_length, List.length_take]; omega
  exact (List.append_inj h2 hl).1.symm

/-! ### the torn-tail theorem on the concrete layout -/

/-- **NoCollision** for the unsynced items `u`, written from file offset `P` in CRC state `c`: no frame of the unsynced
    tail, in the CRC state actually reached, still unmarshals and passes the CRC test after a non-trivial subset of the
    512-byte sector chunks of its body was zeroed. -/
def NoCollision (P c : Nat) (u : List Item) : Prop := NoColl walCodec (framesOf c u) P c

/-- `NoCollision`, spelled out for one frame: every non-trivially reverted body `b'` either fails to unmarshal, or
    unmarshals to a non-CRC record whose stored crc is not the rolling CRC over its data (in particular it does not
    unmarshal to a crcType record, which the reader would either accept or reject fatally) -/
theorem cValid_bad_iff (crc : Nat) (hd b' : List Nat) :
    cValid crc hd b' = .bad ↔
      (∀ r, unmarshal ((toBytes b').take (hdrLen hd).1) = .ok r → r.type ≠ crcType ∧ r.crc ≠ crcUpdate crc (r.data.getD [])) := by
  unfold cValid
  cases hu : unmarshal ((toBytes b').take (hdrLen hd).1) with
  | error e => simp
  | ok r =>
    simp only [Except.ok.injEq, forall_eq']
    by_cases ht : r.type = crcType
    · simp only [ht, if_true]
      by_cases hc : crc ≠ 0 ∧ r.crc ≠ crc
      · simp [hc]
      · simp [hc]
    · simp only [ht, if_false]
      by_cases hc : r.crc ≠ crcUpdate crc (r.data.getD [])
      · simp [hc, ht]
      · simp [hc]

/-- the file image: the segment's frames at offset 0 of a zero-filled (preallocated) file -/
def image (c0 : Nat) (items : List Item) : WalTorn.File := layout walCodec (fileFrames c0 items) 0 (fun _ => 0)

/-- **torn tail, concrete frame layout** (partial). A segment file holds the CRC record and the frames of
    `synced ++ unsynced`; everything below `P` (the end of the synced frames) is on stable storage; the crash reverts
    an arbitrary subset of the 512-byte sectors above `P` to zeros. Then the decoder returns the CRC record, the synced
    records, and a whole-record prefix of the unsynced ones, unmodified, and stops with a clean EOF or a torn verdict at
    the end of the last accepted frame.

    What is missing from the unconditional statement: (1) the `NoCollision` hypothesis — for a 32-bit CRC it cannot be
    discharged in general (a multi-sector record may keep validating after some of its sectors are zeroed); (2) the
    decoder here is WalTorn's `decode` over the concrete codec (same header decoding, unmarshal, CRC rule and crcType
    re-seeding, end-of-file / max-entry-size / short-read tests as File.lean's `decodeRecord`/`recLoop` on one file,
    and `isTorn` is `isTornB`, see `isTornB_iff`), not `recLoop` itself — that transfer is Props/C16TornFile.lean; (3) sectors are reverted to zeros only (the preallocated state), not to arbitrary older content. -/
theorem torn_tail_concrete_partial (c0 : Nat) (hc0 : c0 < 2 ^ 32) (synced unsynced : List Item)
    (hs : ItemsOk synced) (hu : ItemsOk unsynced) (c : WalTorn.File)
    (hcr : Crash (image c0 (synced ++ unsynced)) c (endOff (fileFrames c0 synced) 0))
    (hnc : NoCollision (endOff (fileFrames c0 synced) 0) (crcAfter crcUpdate c0 synced) unsynced)
    (size : Nat) (hsize : endOff (fileFrames c0 (synced ++ unsynced)) 0 + 8 ≤ size)
    (fuel : Nat) (hf : synced.length + unsynced.length + 1 < fuel) :
    ∃ p rest, unsynced = p ++ rest ∧
      (decode walCodec c size fuel 0 0).1 = crcRec c0 :: records crcUpdate c0 (synced ++ p) ∧
      ((decode walCodec c size fuel 0 0).2.1 = .eof ∨ (decode walCodec c size fuel 0 0).2.1 = .torn) ∧
      (decode walCodec c size fuel 0 0).2.2 = endOff (fileFrames c0 (synced ++ p)) 0 := by
  have hall : ItemsOk (synced ++ unsynced) := by
    intro it hit
    rcases List.mem_append.mp hit with h | h
    · exact hs it h
    · exact hu it h
  have hsplit : fileFrames c0 (synced ++ unsynced) =
      [] ++ fileFrames c0 synced ++ framesOf (crcAfter crcUpdate c0 synced) unsynced := by
    simp [fileFrames, framesOf_append]
  have hch : Chain walCodec (fileFrames c0 synced ++ framesOf (crcAfter crcUpdate c0 synced) unsynced) 0 := by
    have := fileFrames_chain c0 hc0 (synced ++ unsynced) hall
    rw [hsplit] at this; simpa using this
  have hlen : (fileFrames c0 synced ++ framesOf (crcAfter crcUpdate c0 synced) unsynced).length < fuel := by
    simp only [fileFrames, List.length_append, List.length_cons, framesOf_length]; omega
  obtain ⟨pf, restf, e1, e2, e3, e4⟩ := torn_tail walCodec (fileFrames c0 (synced ++ unsynced)) c _ size hcr
    (fileFrames_wf c0 hc0 _ hall) hsize (framesOf (crcAfter crcUpdate c0 synced) unsynced) (fileFrames c0 synced) [] 0 fuel
    hsplit (by simp) hch hlen
    (fun stu h => by rw [fileFrames_chainTo c0 hc0 synced hs stu h]; exact hnc)
  -- a prefix of the frames is the frames of a prefix of the items
  obtain ⟨p, rest, hp, hpf⟩ : ∃ p rest, unsynced = p ++ rest ∧ pf = framesOf (crcAfter crcUpdate c0 synced) p :=
    framesOf_prefix _ unsynced pf restf e1
  refine ⟨p, rest, hp, ?_, e3, ?_⟩
  · simp only [endOff] at e2
    rw [e2, hpf]
    simp only [fileFrames, List.cons_append, List.map_cons, List.map_append, framesOf_vals, records_append]
    rfl
  · simp only [endOff] at e4
    rw [e4, hpf]
    simp [fileFrames, framesOf_append]

/-! ### the image is the written byte string -/

/-- the bytes of a frame list, in file order -/
def flat : List (Frame Record) → List Nat
| [] => []
| fr :: rest => fr.hd ++ (fr.body ++ flat rest)

theorem getD_append_left (a b : List Nat) (i : Nat) (h : i < a.length) : (a ++ b).getD i 0 = a.getD i 0 := by
  simp [List.getD_eq_getElem?_getD, List.getElem?_append_left h]

theorem getD_append_right (a b : List Nat) (i : Nat) (h : a.length ≤ i) : (a ++ b).getD i 0 = b.getD (i - a.length) 0 := by
  simp [List.getD_eq_getElem?_getD, List.getElem?_append_right h]

theorem writeAt_append (f : WalTorn.File) (o : Nat) (a b : List Nat) :
    writeAt (writeAt f o a) (o + a.length) b = writeAt f o (a ++ b) := by
  funext x
  unfold writeAt
  simp only [List.length_append]
  by_cases h1 : o + a.length ≤ x ∧ x < o + a.length + b.length
  · have h2 : o ≤ x ∧ x < o + (a.length + b.length) := by omega
    rw [if_pos h1, if_pos h2, getD_append_right _ _ _ (by omega)]
    congr 1; omega
  · rw [if_neg h1]
    by_cases h3 : o ≤ x ∧ x < o + a.length
    · have h2 : o ≤ x ∧ x < o + (a.length + b.length) := by omega
      rw [if_pos h3, if_pos h2, getD_append_left _ _ _ (by omega)]
    · have h2 : ¬ (o ≤ x ∧ x < o + (a.length + b.length)) := by omega
      rw [if_neg h3, if_neg h2]

theorem layout_flat (fs : List (Frame Record)) (o : Nat) (f : WalTorn.File) (hhd : ∀ fr ∈ fs, fr.hd.length = 8) :
    layout walCodec fs o f = writeAt f o (flat fs) := by
  induction fs generalizing o f with
  | nil => funext x; simp [layout, flat, writeAt]
  | cons fr rest ih =>
    have h8 := hhd fr (by simp)
    simp only [layout, flat]
    rw [ih _ _ (fun x hx => hhd x (by simp [hx]))]
    have e1 : o + 8 + fr.body.length = (o + 8) + fr.body.length := rfl
    rw [e1, writeAt_append]
    have e2 : o + 8 = o + fr.hd.length := by rw [h8]
    rw [e2, writeAt_append]

theorem toNats_append (a b : Bytes) : toNats (a ++ b) = toNats a ++ toNats b := by simp [toNats]

theorem flat_frameOf (r : Record) (rest : List (Frame Record)) : flat (frameOf r :: rest) = toNats (encodeFrame r) ++ flat rest := by
  simp only [flat, frameOf, encodeFrame, toNats_append, List.append_assoc]

theorem flat_framesOf (crc : Nat) (items : List Item) : flat (framesOf crc items) = toNats (encodeAll crcUpdate crc items) := by
  induction items generalizing crc with
  | nil => rfl
  | cons it rest ih =>
    simp only [framesOf, records, List.map_cons, encodeAll, toNats_append] at ih ⊢
    rw [flat_frameOf, ih]

/-- the image is the byte string `Create`/`Save` write — CRC record, then `encodeAll` — followed by zeros -/
theorem image_bytes (c0 : Nat) (hc0 : c0 < 2 ^ 32) (items : List Item) (hok : ItemsOk items) (x : Nat) :
    image c0 items x = (toNats (encodeFrame (crcRec c0) ++ encodeAll crcUpdate c0 items)).getD x 0 := by
  unfold image
  rw [layout_flat _ _ _ (fun fr hfr => (fileFrames_wf c0 hc0 items hok fr hfr).2.1)]
  simp only [fileFrames, flat_frameOf, flat_framesOf, ← toNats_append]
  unfold writeAt
  by_cases h : x < (toNats (encodeFrame (crcRec c0) ++ encodeAll crcUpdate c0 items)).length
  · rw [if_pos ⟨Nat.zero_le _, by omega⟩]; simp
  · rw [if_neg (by omega)]
    simp [List.getD_eq_getElem?_getD, List.getElem?_eq_none (Nat.le_of_not_lt h)]

/-! ### `isTornEntry`: the executable test of File.lean is WalTorn's `isTorn` -/

theorem allZero_iff (b : Bytes) : allZero b = true ↔ ∀ i, i < b.length → b.getD i 0 = 0 := by
  unfold allZero
  rw [List.all_eq_true]
  constructor
  · intro h i hi
    have := h (b[i]) (List.getElem_mem hi)
    simp only [List.getD_eq_getElem?_getD, List.getElem?_eq_getElem hi, Option.getD_some]
    simpa using this
  · intro h x hx
    obtain ⟨i, hi, rfl⟩ := List.getElem_of_mem hx
    have := h i hi
    simp only [List.getD_eq_getElem?_getD, List.getElem?_eq_getElem hi, Option.getD_some] at this
    simp [this]

theorem getD_take (b : Bytes) (n i : Nat) (h : i < n) : (b.take n).getD i 0 = b.getD i 0 := by
  simp [List.getD_eq_getElem?_getD, List.getElem?_take, h]

theorem getD_drop (b : Bytes) (n j : Nat) : (b.drop n).getD j 0 = b.getD (n + j) 0 := by
  simp [List.getD_eq_getElem?_getD, List.getElem?_drop]

theorem chunks_any (fuel : Nat) : ∀ (o : Nat) (data : Bytes), data.length < fuel →
    ((chunks fuel o data).any allZero = true ↔
      ∃ q, (∃ i, i < data.length ∧ (o + i) / 512 = q) ∧ ∀ i, i < data.length → (o + i) / 512 = q → data.getD i 0 = 0) := by
  induction fuel with
  | zero => intro o data h; omega
  | succ fuel ih =>
    intro o data hf
    rw [chunks]
    by_cases hnil : data = []
    · subst hnil; simp
    · rw [if_neg hnil]
      have hpos : 0 < data.length := List.length_pos_iff.mpr hnil
      simp only
      generalize hn : min (512 - o % 512) data.length = n
      have hn1 : 1 ≤ n := by omega
      have hn2 : n ≤ data.length := by omega
      rw [List.any_cons, Bool.or_eq_true, allZero_iff, ih (o + n) (data.drop n) (by simp only [List.length_drop]; omega)]
      simp only [List.length_take, List.length_drop, Nat.min_eq_left hn2]
      constructor
      · rintro (h | ⟨q, ⟨j, hj, hq⟩, hall⟩)
        · refine ⟨o / 512, ⟨0, hpos, by simp⟩, ?_⟩
          intro i hi hq
          have hin : i < n := by omega
          rw [← getD_take data n i hin]
          exact h i hin
        · refine ⟨q, ⟨n + j, by omega, by rw [← hq]; congr 1; omega⟩, ?_⟩
          intro i hi hqi
          have hin : n ≤ i := by omega
          have := hall (i - n) (by omega) (by rw [← hqi]; congr 1; omega)
          rw [getD_drop] at this
          rw [← this]; congr 1; omega
      · rintro ⟨q, ⟨i0, hi0, hq0⟩, hall⟩
        by_cases hq : q = o / 512
        · left
          intro i hi
          rw [getD_take data n i hi]
          exact hall i (by omega) (by omega)
        · right
          have hin : n ≤ i0 := by omega
          refine ⟨q, ⟨i0 - n, by omega, by rw [← hq0]; congr 1; omega⟩, ?_⟩
          intro j hj hqj
          rw [getD_drop]
          exact hall (n + j) (by omega) (by rw [← hqj]; congr 1; omega)

theorem toNats_getD_zero (data : Bytes) (i : Nat) : (toNats data).getD i 0 = 0 ↔ data.getD i 0 = 0 := by
  unfold toNats
  by_cases h : i < data.length
  · simp only [List.getD_eq_getElem?_getD, List.getElem?_map, List.getElem?_eq_getElem h, Option.map_some, Option.getD_some]
    constructor
    · intro hz; exact UInt8.toNat_inj.mp (by simpa using hz)
    · intro hz; rw [hz]; rfl
  · simp [List.getD_eq_getElem?_getD, List.getElem?_eq_none (Nat.le_of_not_lt h)]

/-- File.lean's `isTornB` (on the last file; `off` is `lastValidOff`, the body starts 8 bytes later) is exactly
    WalTorn's `isTorn` at the body's file offset -/
theorem isTornB_iff (off : Nat) (data : Bytes) : isTornB true off data = true ↔ isTorn (off + 8) (toNats data) := by
  unfold isTornB isTorn
  rw [Bool.true_and, chunks_any _ _ _ (Nat.lt_succ_self _)]
  simp only [toNats_length, toNats_getD_zero]

theorem isTornB_not_last (off : Nat) (data : Bytes) : isTornB false off data = false := rfl

/-! ### non-vacuity: a concrete instance of `torn_tail_concrete_partial`, `NoCollision` included -/

/-- a body that lies within one sector can only be reverted as a whole -/
theorem reverted_one_sector (off : Nat) (b b' : List Nat) (h1 : ∀ i, i < b.length → (off + i) / 512 = off / 512)
    (hr : Reverted off b b') : b' = b ∨ b' = List.replicate b.length 0 := by
  rcases hr.2 (off / 512) with k | z
  · left
    apply List.ext_getElem hr.1
    intro i hi1 hi2
    have := k i hi2 (h1 i hi2)
    simpa [List.getD_eq_getElem?_getD, hi1, hi2] using this
  · right
    apply List.ext_getElem (by rw [hr.1]; simp)
    intro i hi1 hi2
    rw [hr.1] at hi1
    have := z i hi1 (h1 i hi1)
    rw [hr.1.symm] at hi1
    simpa [List.getD_eq_getElem?_getD, hi1] using this

def exS : List Item := [⟨2, [1]⟩]
def exU : List Item := [⟨2, [7]⟩]
/-- end of the synced frames in the example: CRC record (8 + 8 bytes) and one entry frame (8 + 16 bytes) -/
def exP : Nat := 40

theorem exP_eq : endOff (fileFrames 0 exS) 0 = exP := by decide +kernel

theorem ex_itemsOk_S : ItemsOk exS := by
  intro it hit; simp only [exS, List.mem_singleton] at hit; subst hit; exact ⟨⟨by decide, by decide⟩, by decide⟩

theorem ex_itemsOk_U : ItemsOk exU := by
  intro it hit; simp only [exU, List.mem_singleton] at hit; subst hit; exact ⟨⟨by decide, by decide⟩, by decide⟩

/-- the unsynced frame of the example lies in one sector; the only non-trivial reverted subset zeroes it entirely, and
    16 zero bytes do not unmarshal (field number 0) -/
theorem ex_noCollision : NoCollision exP (crcAfter crcUpdate 0 exS) exU := by
  unfold NoCollision
  have hf : framesOf (crcAfter crcUpdate 0 exS) exU =
      [frameOf ⟨2, crcUpdate (crcAfter crcUpdate 0 exS) [7], some [7]⟩] := rfl
  rw [hf]
  refine ⟨?_, fun _ _ => trivial⟩
  intro b' hr hne
  have hlen : (frameOf ⟨2, crcUpdate (crcAfter crcUpdate 0 exS) [7], some [7]⟩).body.length = 16 := by decide +kernel
  rcases reverted_one_sector (exP + 8) _ b' (by intro i hi; rw [hlen] at hi; simp only [exP]; omega) hr with h | h
  · exact absurd h hne
  · rw [h, hlen]
    decide +kernel

/-- the crash of the example: every sector above `exP` reverted -/
def exCrash : WalTorn.File := fun o => if o < exP then image 0 (exS ++ exU) o else 0

theorem ex_crash : Crash (image 0 (exS ++ exU)) exCrash exP := by
  refine ⟨fun o ho => by simp [exCrash, ho], fun q => Or.inr ?_⟩
  intro o _ hP
  simp only [exCrash]
  rw [if_neg (by omega)]

/-- the crashed file differs from the image (the header of the unsynced frame is gone) -/
theorem ex_crash_ne : exCrash ≠ image 0 (exS ++ exU) := by
  intro h
  have h1 := congrFun h exP
  have hall : ItemsOk (exS ++ exU) := by
    intro it hit
    rcases List.mem_append.mp hit with h | h
    · exact ex_itemsOk_S it h
    · exact ex_itemsOk_U it h
  rw [image_bytes 0 (by decide) _ hall] at h1
  simp only [exCrash, Nat.lt_irrefl, if_false] at h1
  revert h1
  decide +kernel

/-- **non-vacuity**: the hypotheses of `torn_tail_concrete_partial` (`NoCollision` included) hold for a concrete
    two-entry segment and a crash that really loses the unsynced entry; the decoder returns the CRC record and the
    synced entry and stops cleanly. -/
example : ∃ p rest, exU = p ++ rest ∧
    (decode walCodec exCrash 128 4 0 0).1 = crcRec 0 :: records crcUpdate 0 (exS ++ p) ∧
    ((decode walCodec exCrash 128 4 0 0).2.1 = .eof ∨ (decode walCodec exCrash 128 4 0 0).2.1 = .torn) ∧
    (decode walCodec exCrash 128 4 0 0).2.2 = endOff (fileFrames 0 (exS ++ p)) 0 :=
  torn_tail_concrete_partial 0 (by decide) exS exU ex_itemsOk_S ex_itemsOk_U exCrash
    (by rw [exP_eq]; exact ex_crash) (by rw [exP_eq]; exact ex_noCollision) 128 (by decide +kernel) 4 (by decide)

#print axioms torn_tail_concrete_partial
#print axioms isTornB_iff
#print axioms image_bytes
#print axioms ex_noCollision
#print axioms ex_crash_ne

end WalTornC
