import RedisGoModel.Props.C05Foot
import RedisGoModel.Conc.Conc
/-! # C05 / C13 — atomicity of the real command table

The generic two-phase-locking theorem `Cc.atomicity` (`Conc/Conc.lean`, keys `K`, values `V`) instantiated with `K := Bytes`,
`V := Option Exec.Entry` (the physical entry under a key: value and deadline, `none` = no entry) and, for every command of the
table, the block

    cmdBlock env args cont :  keys := the keys of `Exec.footprint args`,   mode := W iff the footprint is a write footprint,
                              body := the new entries under the footprint keys (nothing in read mode),   next := cont reply

where reply and new entries are computed by `Exec.exec env · args` on the keyspace `dbOf s keys` that holds exactly what the block
read under its keys.  A client is a list of `(env, args)` commands (`Client`, with the replies received so far).

* `cmdBlock_wf`  — the block is well-formed (`Cc.Block.WF`): it depends only on what it read under its keys, writes only to its keys
  and only in write mode.  (By construction — the block sees nothing else.  What makes the construction RIGHT is the next item.)
* `cmdBlock_adequate` — **from the Stage-2 theorems `exec_local` / `exec_frame` / `exec_frame_none`**: executed atomically on the
  lookup function of a full keyspace `db`, the block produces the reply of `exec env db args` and the lookup function of the
  keyspace `execB env db args` — i.e. the block, which sees only the footprint keys, is the command.
* `table_atomicity_partial` — for any number of clients, each running any list of commands as such blocks, every micro-step execution
  (lock acquisitions in any interleaving allowed by the RW locks, reads and writes one key at a time) that ends with all clients
  between blocks has the same final keyspace (as a lookup function) and every client has the same replies and the same remaining
  commands as running the commands sequentially through `execB` in commit-point order.
* `execB` is `Exec.exec` except that a command with a READ footprint leaves the keyspace as it is: in Go the lazy deletion such a
  command may trigger is not part of its read-locked block, it is `CheckTTL`'s own write-locked block.  `execB_reply`: same reply;
  `execB_liveEq`: the two results have the same live view.  `table_atomicity_exec_partial`: if the clock readings of the commands do
  not decrease in commit order, the replies equal those of the sequential run through `Exec.exec` itself and the final keyspaces have
  the same live view.

### Why `_partial` (what the block model leaves out of the Go executors)
1. **KEYS** (`footprint = whole`) is excluded (`NoWhole`): its Go executor iterates the map without a lock spanning the iteration (it
   is not atomic in the implementation, and a block needs a finite key list fixed before it reads).
2. **One block per command.**  `CheckTTL(k)` is a separate pair of short blocks in Go (an `RLock` look, and a `Lock` re-check + delete
   only when the deadline has passed) that runs BEFORE the executor's own block; here a write command's lazy deletion is part of its
   single write block and a read command does not delete.  DEL / EXISTS / MGET (one block per key in Go: not atomic across their keys
   in the implementation) and BLPOP / BRPOP (one polling block per key, repeated until the timeout) are modelled as one block over
   the union of their keys — stronger than the code.  For exactly these (`Exec.multiBlock`) the theorem says more than Go provides;
   for single-key commands, MSET, RENAME, LMOVE, SMOVE, S*STORE, SUNION/SINTER/SDIFF the block is the executor's lock scope (tie:
   `TraceCheck.ok` + `checkFootprint` on every traced command).
3. `zrange` / `zrank` / `xrange` take the write lock in Go; the model gives them a read block (more interleavings, still atomic).
4. The Go memory model, the scheduler and `sync.RWMutex` are modelled (`Cc.Step`), not verified. -/
namespace Exec
open Resp (Reply Bytes)

/-- the abstract keyspace of the concurrent model: the lookup function -/
abbrev KV := Bytes → Option Entry

/-- the keyspace a block sees: exactly the entries it read under its keys -/
def dbOf (s : KV) (ks : List Bytes) : Db := ks.filterMap fun k => (s k).map fun e => (k, e)

def footKeys : Footprint → List Bytes
| .keys ks _ => ks
| _ => []

def footMode : Footprint → Cc.Mode
| .keys _ true => .W
| _ => .R

/-- **the block of a command**; `cont` = how the client continues with the reply -/
def cmdBlock {P : Type} (env : Env) (args : List Bytes) (cont : Reply → P) : Cc.Block Bytes (Option Entry) P where
  mode := footMode (footprint args)
  keys := footKeys (footprint args)
  body := fun s =>
    if footMode (footprint args) = .W then
      (footKeys (footprint args)).map fun k => (k, (exec env (dbOf s (footKeys (footprint args))) args).2.get k)
    else []
  next := fun s => cont (exec env (dbOf s (footKeys (footprint args))) args).1

theorem dbOf_congr {s s' : KV} : ∀ {ks : List Bytes}, (∀ k ∈ ks, s k = s' k) → dbOf s ks = dbOf s' ks
| [], _ => rfl
| k :: ks, h => by
  unfold dbOf
  rw [List.filterMap_cons, List.filterMap_cons, h k List.mem_cons_self]
  have ih := dbOf_congr (s := s) (s' := s') (ks := ks) (fun k' hk' => h k' (List.mem_cons_of_mem _ hk'))
  unfold dbOf at ih
  rw [ih]

/-- **the block of every command is well-formed** -/
theorem cmdBlock_wf {P : Type} (env : Env) (args : List Bytes) (cont : Reply → P) : (cmdBlock env args cont).WF := by
  constructor
  · intro s s' h
    have e : dbOf s (footKeys (footprint args)) = dbOf s' (footKeys (footprint args)) := dbOf_congr h
    simp only [cmdBlock, e, and_self]
  · intro s kv hkv
    simp only [cmdBlock] at hkv ⊢
    split at hkv
    · rename_i hm
      obtain ⟨k, hk, rfl⟩ := List.mem_map.mp hkv
      exact ⟨hk, hm⟩
    · cases hkv

/-! ### adequacy: the block is the command -/

theorem get_cons' (p : Bytes × Entry) (r : Db) (k : Bytes) : Db.get (p :: r) k = if p.1 = k then some p.2 else Db.get r k := by
  unfold Db.get
  rw [List.find?_cons]
  by_cases h : p.1 = k
  · simp [h]
  · have : (p.1 == k) = false := by simpa using h
    simp [h, this]

theorem dbOf_get (s : KV) (k : Bytes) : ∀ (ks : List Bytes), (dbOf s ks).get k = if k ∈ ks then s k else none
| [] => by simp [dbOf, Db.get]
| k' :: ks => by
  have ih := dbOf_get s k ks
  unfold dbOf at ih ⊢
  rw [List.filterMap_cons]
  cases hs : s k' with
  | none =>
    simp only [Option.map_none]
    rw [ih]
    by_cases hk : k = k'
    · subst hk; simp [hs]
    · simp [hk]
  | some e =>
    simp only [Option.map_some]
    rw [get_cons']
    by_cases hk : k' = k
    · subst hk; simp [hs]
    · have hk' : ¬ k = k' := fun e => hk e.symm
      simp only [hk, if_false, ih, List.mem_cons, hk', false_or]

theorem pendVal_map (f : Bytes → Option Entry) (k : Bytes) : ∀ (ks : List Bytes),
    Cc.pendVal (ks.map fun k => (k, f k)) k = if k ∈ ks then some (f k) else none
| [] => by simp [Cc.pendVal]
| k' :: ks => by
  rw [List.map_cons]
  unfold Cc.pendVal
  rw [pendVal_map f k ks]
  by_cases hin : k ∈ ks
  · simp [hin]
  · by_cases hk : k' = k
    · subst hk; simp [hin]
    · have hk' : ¬ k = k' := fun e => hk e.symm
      simp [hin, hk, hk']

/-- `exec` as a block executes it: with a read footprint the keyspace is left as it is (a read block writes nothing; the lazy
    deletions of `CheckTTL` are its own write blocks) -/
def execB (env : Env) (db : Db) (args : List Bytes) : Reply × Db :=
  ((exec env db args).1, if footMode (footprint args) = .W then (exec env db args).2 else db)

theorem execB_reply (env : Env) (db : Db) (args : List Bytes) : (execB env db args).1 = (exec env db args).1 := rfl

/-- **adequacy** (from `exec_local`, `exec_frame`, `exec_frame_none`): on the lookup function of a full keyspace the block answers
    what `exec` answers and writes what `execB` writes -/
theorem cmdBlock_adequate {P : Type} (env : Env) (args : List Bytes) (cont : Reply → P) (db : Db) (hw : footprint args ≠ .whole) :
    (cmdBlock env args cont).next db.get = cont (exec env db args).1 ∧
    Cc.applyWrites db.get ((cmdBlock env args cont).body db.get) = (execB env db args).2.get := by
  cases hf : footprint args with
  | whole => exact absurd hf hw
  | none =>
    have hnext : (exec env (dbOf db.get []) args).1 = (exec env db args).1 := Foot.exec_local_none env _ _ args hf
    refine ⟨?_, ?_⟩
    · simp only [cmdBlock, hf, footKeys, hnext]
    · funext k
      simp [cmdBlock, execB, hf, footMode, Cc.applyWrites, Cc.pendVal]
  | keys ks w =>
    have hag : ∀ k ∈ ks, (dbOf db.get ks).get k = db.get k := by
      intro k hk; rw [dbOf_get, if_pos hk]
    obtain ⟨h1, h2⟩ := Foot.exec_local env (dbOf db.get ks) db args hf hag
    refine ⟨?_, ?_⟩
    · simp only [cmdBlock, hf, footKeys, h1]
    · funext k
      cases w with
      | false => simp [cmdBlock, execB, hf, footMode, Cc.applyWrites, Cc.pendVal]
      | true =>
        simp only [cmdBlock, execB, hf, footMode, footKeys, if_true, Cc.applyWrites]
        rw [pendVal_map (fun k => (exec env (dbOf db.get ks) args).2.get k) k ks]
        by_cases hk : k ∈ ks
        · simp only [hk, if_true]; exact h2 k hk
        · simp only [hk, if_false]; exact (Foot.exec_frame env db args hf hk).symm

/-! ### clients, the sequential semantics, the theorem -/

/-- a client: the commands it still has to run (each with its environment: clock reading, observation, float bits) and the replies
    it has received so far, oldest first -/
structure Client where
  todo : List (Env × List Bytes)
  replies : List Reply

/-- the next block of a client -/
def view (c : Client) : Option (Cc.Block Bytes (Option Entry) Client) :=
  match c.todo with
  | [] => none
  | (env, args) :: rest => some (cmdBlock env args fun r => ⟨rest, c.replies ++ [r]⟩)

theorem view_closed : Cc.Closed view (fun _ => True) := by
  intro p b _ hv
  unfold view at hv
  split at hv
  · cases hv
  · simp only [Option.some.injEq] at hv
    subst hv
    exact ⟨cmdBlock_wf _ _ _, fun _ => trivial⟩

/-- the sequential semantics: one keyspace, the clients' commands executed whole, one at a time -/
structure Seq (n : Nat) where
  db : Db
  cl : Fin n → Client

/-- client `i` runs its next command through `step` (`execB`, or `exec` itself) -/
def seqStepWith (step : Env → Db → List Bytes → Reply × Db) {n : Nat} (s : Seq n) (i : Fin n) : Seq n :=
  match (s.cl i).todo with
  | [] => s
  | (env, args) :: rest => ⟨(step env s.db args).2, Cc.setT s.cl i ⟨rest, (s.cl i).replies ++ [(step env s.db args).1]⟩⟩

def seqRunWith (step : Env → Db → List Bytes → Reply × Db) {n : Nat} : Seq n → List (Fin n) → Seq n
| s, [] => s
| s, i :: tr => seqRunWith step (seqStepWith step s i) tr

/-- no client runs KEYS -/
def NoWhole {n : Nat} (cl : Fin n → Client) : Prop := ∀ i, ∀ ea ∈ (cl i).todo, footprint ea.2 ≠ .whole

theorem NoWhole.step {n : Nat} {cl : Fin n → Client} (h : NoWhole cl) (i : Fin n) {env : Env} {args : List Bytes} {rest : List (Env × List Bytes)}
    (ht : (cl i).todo = (env, args) :: rest) (rs : List Reply) : NoWhole (Cc.setT cl i ⟨rest, rs⟩) := by
  intro j ea hea
  by_cases hj : j = i
  · subst hj
    rw [Cc.setT_same] at hea
    exact h j ea (by rw [ht]; exact List.mem_cons_of_mem _ hea)
  · rw [Cc.setT_other _ _ hj] at hea
    exact h j ea hea

/-- one atomic block step = one sequential command -/
theorem absStep_seq {n : Nat} (s : Seq n) (hn : NoWhole s.cl) (i : Fin n) :
    Cc.absStep view ⟨s.db.get, s.cl⟩ (some i) = ⟨(seqStepWith execB s i).db.get, (seqStepWith execB s i).cl⟩ ∧
    NoWhole (seqStepWith execB s i).cl := by
  cases ht : (s.cl i).todo with
  | nil =>
    have e1 : seqStepWith execB s i = s := by unfold seqStepWith; rw [ht]
    have e2 : view (s.cl i) = none := by unfold view; rw [ht]
    rw [e1]
    exact ⟨by simp only [Cc.absStep, e2], hn⟩
  | cons ea rest =>
    obtain ⟨env, args⟩ := ea
    have hw : footprint args ≠ .whole := hn i (env, args) (by rw [ht]; exact List.mem_cons_self)
    obtain ⟨h1, h2⟩ := cmdBlock_adequate env args (fun r => (⟨rest, (s.cl i).replies ++ [r]⟩ : Client)) s.db hw
    have e1 : seqStepWith execB s i = ⟨(execB env s.db args).2, Cc.setT s.cl i ⟨rest, (s.cl i).replies ++ [(execB env s.db args).1]⟩⟩ := by
      unfold seqStepWith; rw [ht]
    have e2 : view (s.cl i) = some (cmdBlock env args fun r => ⟨rest, (s.cl i).replies ++ [r]⟩) := by unfold view; rw [ht]
    rw [e1]
    refine ⟨?_, hn.step i ht _⟩
    simp only [Cc.absStep, e2, h1, h2]
    rfl

theorem absRun_seq {n : Nat} : ∀ (tr : List (Fin n)) (s : Seq n), NoWhole s.cl →
    Cc.absRun view ⟨s.db.get, s.cl⟩ tr = ⟨(seqRunWith execB s tr).db.get, (seqRunWith execB s tr).cl⟩
| [], _, _ => rfl
| i :: tr, s, hn => by
  unfold Cc.absRun seqRunWith
  obtain ⟨h1, h2⟩ := absStep_seq s hn i
  rw [h1]
  exact absRun_seq tr _ h2

/-- **atomicity of the command table**: any number `n` of clients, each running any list of commands of the table other than KEYS as
    blocks (`view`); every micro-step execution from the keyspace `db₀` with the commit-point order `tr` that ends with every
    client between blocks (`q i` = what client `i` is left with: remaining commands and replies) has the final keyspace and the
    replies of the SEQUENTIAL run of the commands through `execB` in the order `tr` -/
theorem table_atomicity_partial {n : Nat} (db₀ : Db) (cl : Fin n → Client) (hn : NoWhole cl)
    {c' : Cc.Conc Bytes (Option Entry) Client n} {tr : List (Fin n)}
    (e : Cc.Exec view ⟨db₀.get, fun i => .idle (cl i)⟩ tr c') (q : Fin n → Client) (hq : ∀ i, c'.th i = .idle (q i)) :
    c'.db = (seqRunWith execB ⟨db₀, cl⟩ tr).db.get ∧ q = (seqRunWith execB ⟨db₀, cl⟩ tr).cl := by
  obtain ⟨h1, h2⟩ := Cc.atomicity view_closed db₀.get cl (fun _ => trivial) e q hq
  rw [absRun_seq tr ⟨db₀, cl⟩ hn] at h1 h2
  exact ⟨h1.symm, h2.symm⟩

/-! ### from `execB` to `Exec.exec`: same replies, same live view, when the clock does not go back in commit order -/

open C06T in
/-- the result of `execB` has the live view of the result of `exec` -/
theorem execB_liveEq (env : Env) (db : Db) (args : List Bytes) (hw : db.WF) (hnw : footprint args ≠ .whole) :
    C06T.LiveEq env.now (execB env db args).2 (exec env db args).2 := by
  unfold execB
  cases hf : footprint args with
  | whole => exact absurd hf hnw
  | none => intro k; simp only [footMode]; rw [Foot.exec_frame_none env db args hf]; rfl
  | keys ks w =>
    cases w with
    | true => intro k; rfl
    | false => intro k; simp only [footMode]; exact (Foot.exec_readonly_live env db args hf hw k).symm

theorem execB_wf (env : Env) (db : Db) (args : List Bytes) (hw : db.WF) : (execB env db args).2.WF := by
  unfold execB
  split
  · exact (C06T.c06_congruence env db db args hw hw (C06T.LiveEq.refl _ _)).2.2
  · exact hw

/-- the clock readings of the commands executed along `tr` never go back (starting from `t`) -/
def ClockOk {n : Nat} : Int → Seq n → List (Fin n) → Prop
| _, _, [] => True
| t, s, i :: tr =>
  match (s.cl i).todo with
  | [] => ClockOk t s tr
  | (env, _) :: _ => t ≤ env.now ∧ ClockOk env.now (seqStepWith execB s i) tr

/-- the two sequential runs (through `execB` and through `exec`) stay related: same clients, keyspaces well-formed with the same
    live view at the current clock -/
theorem seqRun_exec {n : Nat} : ∀ (tr : List (Fin n)) (t : Int) (s s' : Seq n), s.cl = s'.cl → NoWhole s.cl → s.db.WF → s'.db.WF →
    C06T.LiveEq t s.db s'.db → ClockOk t s tr →
    (seqRunWith execB s tr).cl = (seqRunWith (fun env db args => exec env db args) s' tr).cl ∧
    ∃ t', C06T.LiveEq t' (seqRunWith execB s tr).db (seqRunWith (fun env db args => exec env db args) s' tr).db
| [], t, _, _, hc, _, _, _, hl, _ => ⟨hc, t, hl⟩
| i :: tr, t, s, s', hc, hn, hw, hw', hl, hck => by
  unfold seqRunWith
  unfold ClockOk at hck
  cases ht : (s.cl i).todo with
  | nil =>
    have e1 : seqStepWith execB s i = s := by unfold seqStepWith; rw [ht]
    have e2 : seqStepWith (fun env db args => exec env db args) s' i = s' := by unfold seqStepWith; rw [← hc, ht]
    rw [e1, e2]
    rw [ht] at hck
    exact seqRun_exec tr t s s' hc hn hw hw' hl hck
  | cons ea rest =>
    obtain ⟨env, args⟩ := ea
    rw [ht] at hck
    obtain ⟨hle, hck'⟩ := hck
    have hnw : footprint args ≠ .whole := hn i (env, args) (by rw [ht]; exact List.mem_cons_self)
    have hl' : C06T.LiveEq env.now s.db s'.db := C06T.LiveEq.mono hw hw' hle hl
    have hcong := C06T.c06_congruence env s.db s'.db args hw hw' hl'
    have hcong' := C06T.c06_congruence env s'.db s'.db args hw' hw' (C06T.LiveEq.refl _ _)
    have e1 : seqStepWith execB s i = ⟨(execB env s.db args).2, Cc.setT s.cl i ⟨rest, (s.cl i).replies ++ [(execB env s.db args).1]⟩⟩ := by
      unfold seqStepWith; rw [ht]
    have e2 : seqStepWith (fun env db args => exec env db args) s' i =
        ⟨(exec env s'.db args).2, Cc.setT s'.cl i ⟨rest, (s'.cl i).replies ++ [(exec env s'.db args).1]⟩⟩ := by
      unfold seqStepWith; rw [← hc, ht]
    rw [e1] at hck'
    rw [e1, e2]
    refine seqRun_exec tr env.now _ _ ?_ ?_ (execB_wf env s.db args hw) hcong'.2.2 ?_ hck'
    · show Cc.setT s.cl i _ = Cc.setT s'.cl i _
      rw [execB_reply, hcong.1, hc]
    · exact hn.step i ht _
    · exact C06T.LiveEq.trans (execB_liveEq env s.db args hw hnw) hcong.2.1

/-- **atomicity, against `Exec.exec` itself**: under the hypotheses of `table_atomicity_partial`, a well-formed initial keyspace and
    clock readings that do not go back in commit order (`ClockOk`), every client ends with exactly the replies (and remaining
    commands) of the sequential run of the commands through `Exec.exec` in commit-point order, and the final keyspace has the live
    view of that run's final keyspace (at some clock reading `t'` — the last one) -/
theorem table_atomicity_exec_partial {n : Nat} (db₀ : Db) (hw : db₀.WF) (cl : Fin n → Client) (hn : NoWhole cl)
    {c' : Cc.Conc Bytes (Option Entry) Client n} {tr : List (Fin n)}
    (e : Cc.Exec view ⟨db₀.get, fun i => .idle (cl i)⟩ tr c') (q : Fin n → Client) (hq : ∀ i, c'.th i = .idle (q i))
    (t : Int) (hck : ClockOk t ⟨db₀, cl⟩ tr) :
    q = (seqRunWith (fun env db args => exec env db args) ⟨db₀, cl⟩ tr).cl ∧
    ∃ db' t', c'.db = db'.get ∧ C06T.LiveEq t' db' (seqRunWith (fun env db args => exec env db args) ⟨db₀, cl⟩ tr).db := by
  obtain ⟨h1, h2⟩ := table_atomicity_partial db₀ cl hn e q hq
  obtain ⟨h3, t', h4⟩ := seqRun_exec tr t ⟨db₀, cl⟩ ⟨db₀, cl⟩ rfl hn hw hw (C06T.LiveEq.refl _ _) hck
  exact ⟨h2.trans h3, _, t', h1, h4⟩

/-! ### the hypotheses are satisfiable -/

/-- two clients: `INCR k` twice and `GET k`; neither runs KEYS -/
def exClients : Fin 2 → Client := fun i =>
  if i = 0 then ⟨[({ now := 10 }, [ofStr "INCR", [107]]), ({ now := 11 }, [ofStr "INCR", [107]])], []⟩
  else ⟨[({ now := 10 }, [ofStr "GET", [107]])], []⟩

example : NoWhole exClients := by
  intro i ea hea
  have h0 : footprint [ofStr "INCR", [107]] = .keys [[107]] true := by decide +kernel
  have h1 : footprint [ofStr "GET", [107]] = .keys [[107]] false := by decide +kernel
  by_cases hi : i = 0
  · subst hi
    simp only [exClients, if_true, List.mem_cons, List.mem_nil_iff, or_false] at hea
    rcases hea with rfl | rfl <;> (dsimp only; rw [h0]; exact fun h => nomatch h)
  · simp only [exClients, hi, if_false, List.mem_cons, List.mem_nil_iff, or_false] at hea
    subst hea; dsimp only; rw [h1]; exact fun h => nomatch h

/-- a commit order with non-decreasing clocks for them: client 0, client 1, client 0 -/
example : ClockOk 0 (⟨[], exClients⟩ : Seq 2) [0, 1, 0] := by
  simp [ClockOk, exClients, seqStepWith, Cc.setT]

/-- the execution hypothesis is inhabited for every start (the empty execution; every `Cc.Step` extends it) -/
example : let c₀ : Cc.Conc Bytes (Option Entry) Client 2 := ⟨Db.get ([] : Db), fun i => .idle (exClients i)⟩
    Cc.Exec view c₀ [] c₀ := Cc.Exec.refl _

end Exec
