import RedisGoModel.Conc.PubSubSlow
/-! # C19, slow consumers: what the driver's verdict on a recorded history means (`PSS.Hist.judge`, engine `PSH`)

`judge` replays the history the `pubsub-stall` scenario observed on the model.  `judgeFrom_run`: every state it passes through is obtained from the
initial state by steps of the model only — thread steps `next0` and environment steps `env` (`PSS.Step`) — and by invoking the recorded commands
(`push`: the command is appended to the server goroutine's program); so an accepted history is witnessed by a run of the model in which the commands
are invoked and the environment acts in the recorded order, every recorded reply is the reply of the model's completion record
(`accepted_reply`), every recorded confirmation finds the connection a member (`accepted_sub`) and the recorded holdings are the model's delivery
records (`accepted_holds`). -/
set_option linter.unusedSimpArgs false
set_option linter.unusedVariables false
namespace PSS
namespace Hist

/-- states of the model with commands invoked from outside -/
inductive HReach : St 1 → Prop
| init : HReach (init (fun _ => []))
| step (s s' : St 1) : HReach s → Step s s' → HReach s'
| push (s : St 1) (op : Op) : HReach s → HReach (push s op)

theorem runT_run (f : Nat) : ∀ s : St 1, HReach s → HReach (runT f s) := by
  induction f with
  | zero => intro s h; exact h
  | succ f ih =>
    intro s h
    unfold runT
    split
    · exact h
    · split
      · exact h
      · rename_i s' hn
        exact ih s' (HReach.step s s' h (Step.thr s s' t0 _ hn))

/-- the shape of an accepted `sub` -/
theorem sub_ok (s s' : St 1) (c : PubSub.Conn) (he : stepEv s (.sub c) = .ok s') :
    s' = runT fuel (push s (.subscribe c chan)) ∧ s'.confirmed c chan = true ∧ ∃ o, s'.table chan = some o ∧ c ∈ s'.subs o := by
  simp only [stepEv] at he
  by_cases h1 : (!quiet s) = true
  · rw [if_pos h1] at he; cases he
  · rw [if_neg h1] at he
    by_cases h2 : (!quiet (runT fuel (push s (.subscribe c chan)))) = true
    · rw [if_pos h2] at he; cases he
    · rw [if_neg h2] at he
      generalize hb : (_ && _ : Bool) = b at he
      cases b with
      | false => simp at he
      | true =>
        simp only [if_true] at he
        cases he
        simp only [Bool.and_eq_true] at hb
        refine ⟨rfl, hb.1, ?_⟩
        have h3 := hb.2
        split at h3
        · rename_i o ho; exact ⟨o, ho, by simpa using h3⟩
        · cases h3

theorem stepEv_run (s s' : St 1) (e : HEv) (h : HReach s) (he : stepEv s e = .ok s') : HReach s' := by
  cases e with
  | sub c => rw [(sub_ok s s' c he).1]; exact runT_run _ _ (HReach.push s _ h)
  | stall c => simp only [stepEv] at he; cases he; exact runT_run _ _ (HReach.step s _ h (Step.env s _))
  | resume c => simp only [stepEv] at he; cases he; exact runT_run _ _ (HReach.step s _ h (Step.env s _))
  | close c => simp only [stepEv] at he; cases he; exact runT_run _ _ (HReach.step s _ h (Step.env s _))
  | pubStart m =>
    simp only [stepEv] at he
    split at he
    · cases he
    · cases he; exact runT_run _ _ (HReach.push s _ h)
  | pubEnd m r =>
    simp only [stepEv] at he
    split at he
    · cases he
    · split at he
      · cases he; exact runT_run _ _ h
      · cases he
  | holds c ms =>
    simp only [stepEv] at he
    split at he
    · cases he; exact h
    · cases he

/-- every state the judge passes through is a state of a run of the model (thread steps, environment steps, commands invoked in the recorded order) -/
theorem judgeFrom_run (hist : List HEv) : ∀ s s' : St 1, HReach s → judgeFrom s hist = .ok s' → HReach s' := by
  induction hist with
  | nil => intro s s' h he; simp only [judgeFrom] at he; cases he; exact h
  | cons e r ih =>
    intro s s' h he
    simp only [judgeFrom] at he
    split at he
    · cases he
    · rename_i s1 h1
      exact ih s1 s' (stepEv_run s s1 e h h1) he

/-- an accepted PUBLISH reply is the reply of the model's latest completion record, and the server goroutine is idle with nothing to do -/
theorem accepted_reply (s s' : St 1) (m : PubSub.Payload) (r : Nat) (he : stepEv s (.pubEnd m r) = .ok s') :
    quiet s' = true ∧ lastReply s' = some r := by
  simp only [stepEv] at he
  split at he
  · cases he
  · rename_i hq
    split at he
    · rename_i hr; cases he; exact ⟨by simpa using hq, hr⟩
    · cases he

/-- an accepted confirmation: in the model the connection is confirmed AND a member of the channel's object -/
theorem accepted_sub (s s' : St 1) (c : PubSub.Conn) (he : stepEv s (.sub c) = .ok s') :
    s'.confirmed c chan = true ∧ ∃ o, s'.table chan = some o ∧ c ∈ s'.subs o := by
  obtain ⟨_, h1, h2⟩ := sub_ok s s' c he
  exact ⟨h1, h2⟩

/-- accepted holdings are the model's delivery records of that connection, in order -/
theorem accepted_holds (s s' : St 1) (c : PubSub.Conn) (ms : List PubSub.Payload) (he : stepEv s (.holds c ms) = .ok s') :
    s' = s ∧ recvAll s c = ms := by
  simp only [stepEv] at he
  split at he
  · rename_i h; cases he; exact ⟨rfl, h⟩
  · cases he

/-- the judge accepts the history of the scenario as the real code produces it (three subscribers; the slow one stops reading, a message is published, it reads on) and
    refuses the same history with the reply before the resume (the seeded shared deadline) -/
example : (judge [.sub 0, .sub 1, .sub 2, .pubStart [1], .pubEnd [1] 3, .stall 0, .pubStart [2], .resume 0, .pubEnd [2] 3,
                  .holds 0 [[1], [2]], .holds 1 [[1], [2]], .holds 2 [[1], [2]]]).toBool = true := by decide
example : (judge [.sub 0, .sub 1, .sub 2, .stall 0, .pubStart [2], .pubEnd [2] 0, .resume 0]).toBool = false := by decide

#print axioms judgeFrom_run
#print axioms accepted_reply
#print axioms accepted_sub
#print axioms accepted_holds

end Hist
end PSS
