import RedisGoModel.Generated.ReplySites
/-!
# C03 — fact F6 closed in Lean: what can reach a LINE reply (simple string / error), regenerated from the Go source on every run

A simple string `+…\r\n`, an error `-…\r\n` (and the `PlainData` line) carry their payload unescaped: a CR LF inside it ends the reply
early and the rest is read as further replies.  Bulk strings are length-prefixed and safe.  `Generated/ReplySites.lean` is rewritten by
every `./check` run (harness `facts` engine, `harness/sites.go`): every call of `resp.MakeStringData`, `MakeErrorData`,
`MakeWrongNumberArgs`, `MakePlainData` and every `StringData/ErrorData/PlainData` literal in memdb, server, resp, util, raftexample.

* `no_client_bytes_in_line_replies` — NO such call receives an expression derived from the command words: the extractor follows, per
  function and flow-insensitively, every `[][]byte` parameter through indexing/slicing, conversions (`string(cmd[i])`), calls returning
  strings/bytes (`strings.ToLower(…)`, `fmt.Sprintf(… x …)`), concatenation, `range`, and locals assigned from any of these.  An executor
  that answers `MakeErrorData("ERR bad option " + string(cmd[2]))` breaks this theorem.
* `inventory` — the calls whose payload is not a compile-time constant are exactly the reviewed list `expectedNonLiteral` (each with the
  reason its payload holds no CR/LF); `error_derived_reviewed` pins the calls that mention an error value of a call that received command
  words and whose callee is not shown (by the extractor's constant-error analysis) to return only constant texts.
* `mostly_literal` — the inventory is not vacuous: hundreds of line replies are compile-time constants.

Partial / trusted: the extractor (taint rules above; one function at a time — a helper that receives `string(cmd[i])` as a `string`
parameter and puts it into a line reply is NOT followed; bytes read back from the keyspace are not sources: stored values reach replies
only through bulk strings by review of `expectedNonLiteral`); that a compile-time constant holds no CR/LF is by inspection of the
literals (none does) and by the serve/exec suites, which decode every reply with the verified decoder.
-/
namespace ReplySites

/-- no line reply is built from the command words — re-proved against the regenerated list on every run -/
theorem no_client_bytes_in_line_replies : Generated.clientDerivedLineReplies = [] := by decide

/-- The line-reply calls whose payload is not a compile-time constant, reviewed by hand: (file, function, normalised call text) -/
def expectedNonLiteral : List (String × String × String) := [
  -- MEMBER LIST: k ranges over rc.Peers, the peer URLs of the start-up configuration (an RCONF ADD URL is validated by types.NewURLs since fix 68e825a and is not stored in Peers): not client bytes; cluster mode only
  ("memdb/raft_command.go", "MemberList", "resp.MakeStringData(k)"),
  -- err is the result of IDThreshold.Parse / ParseStreamID just above: both return only errInvalidStreamID (a constant text; the extractor proves it for the ParseStreamID site). The function-level `err` of the first site also receives strconv errors elsewhere in xadd (hence errorDerivedLineReplies); strconv.NumError quotes its input with %q, CR/LF escaped; C18 suites send CR/LF inside IDs
  ("memdb/stream.go", "xadd", "resp.MakeErrorData(err.Error())"),
  -- err is the result of IDThreshold.Parse / ParseStreamID just above: both return only errInvalidStreamID (a constant text; the extractor proves it for the ParseStreamID site). The function-level `err` of the first site also receives strconv errors elsewhere in xadd (hence errorDerivedLineReplies); strconv.NumError quotes its input with %q, CR/LF escaped; C18 suites send CR/LF inside IDs
  ("memdb/stream.go", "xadd", "resp.MakeErrorData(err.Error())"),
  -- ID.Format() is fmt.Sprintf(\"%d-%d\") of two uint64; and the value is used for its ByteData() inside MakeBulkData, never sent as a line
  ("memdb/stream.go", "xadd", "resp.MakeStringData(ID.Format())"),
  -- err comes from parseRangeBound, which returns only ParseStreamID's errInvalidStreamID (constant text; proved by the extractor: not in errorDerivedLineReplies)
  ("memdb/stream.go", "xrange", "resp.MakeErrorData(err.Error())"),
  -- err comes from parseRangeBound, which returns only ParseStreamID's errInvalidStreamID (constant text; proved by the extractor: not in errorDerivedLineReplies)
  ("memdb/stream.go", "xrange", "resp.MakeErrorData(err.Error())"),
  -- request decoding, not a reply: the value read from the CLIENT's byte stream (a top-level simple string / error / inline line) — msg is one ReadBytes('\\n') line, so msgData holds no LF; Manager.Handle answers only arrays (commands), such a value is never written back (C02/C03 serve suites: `values that are not commands`)
  ("resp/parser.go", "parseSingleLine", "MakeErrorData(msgData)"),
  -- request decoding, not a reply: the value read from the CLIENT's byte stream (a top-level simple string / error / inline line) — msg is one ReadBytes('\\n') line, so msgData holds no LF; Manager.Handle answers only arrays (commands), such a value is never written back (C02/C03 serve suites: `values that are not commands`)
  ("resp/parser.go", "parseSingleLine", "MakePlainData(msgData)"),
  -- request decoding, not a reply: the value read from the CLIENT's byte stream (a top-level simple string / error / inline line) — msg is one ReadBytes('\\n') line, so msgData holds no LF; Manager.Handle answers only arrays (commands), such a value is never written back (C02/C03 serve suites: `values that are not commands`)
  ("resp/parser.go", "parseSingleLine", "MakeStringData(msgData)"),
  -- MakeWrongType: fmt.Sprintf of a constant format without verbs
  ("resp/structure.go", "MakeWrongType", "ErrorData{data: fmt.Sprintf(\"WRONGTYPE Operation against a key holding the wrong kind of value\")}"),
  -- SELECT out of range: %d of len(m.DBs), an int
  ("server/db_manager.go", "(*Manager).selectDB", "resp.MakeErrorData(fmt.Sprintf(\"ERR DB index is out of range with maximum %d\", len(m.DBs)))")]

/-- the non-constant line replies in the source are exactly the reviewed ones -/
theorem inventory : Generated.nonLiteralLineReplies = expectedNonLiteral := by decide +kernel

/-- reviewed above (first xadd entry): the error value may also stem from strconv, whose texts quote the input -/
def expectedErrorDerived : List (String × String × String) := [
  ("memdb/stream.go", "xadd", "resp.MakeErrorData(err.Error())")]

theorem error_derived_reviewed : Generated.errorDerivedLineReplies = expectedErrorDerived := by decide +kernel

/-- every flagged call is one of the inventoried ones (sanity of the generated lists) -/
theorem flagged_are_inventoried : ∀ s ∈ Generated.clientDerivedLineReplies ++ Generated.errorDerivedLineReplies,
    s ∈ Generated.nonLiteralLineReplies := by decide +kernel

/-- the inventory is not vacuous: the bulk of the line replies are compile-time constants -/
theorem mostly_literal : 250 ≤ Generated.literalLineReplies ∧ Generated.nonLiteralLineReplies.length ≤ 20 := by decide +kernel

end ReplySites
