import RedisGoModel.Cluster.Codec
import RedisGoModel.Exec.Dispatch
/-! # C14 — cluster mode does not change what a command means

Definitions proved about: `Codec.encodeProposal` / `Codec.decodeProposalArgs` (`Cluster/Codec.lean`, the functions the compiled driver
runs against the real `encoding/json` on every check) and `Exec.exec` (`Exec/Dispatch.lean`, the standalone meaning of a command: the
model every exec-engine property is judged with).  Core Lean only.

## The statement, at full strength -/
namespace Codec
open Resp (Reply)

/-- what a replica does with one committed log entry (`publishEntries`: `json.Unmarshal`; `applyClusterProposal`: execute `Args`,
    or, for an entry without `Args` written before 9a75461, split `Data` on spaces) -/
def applyWire (env : Exec.Env) (db : Exec.Db) (wire : Bytes) : Reply × Exec.Db :=
  match decodeProposalArgs wire with
  | some a => Exec.exec env db a
  | none =>
    match decodeProposalStrings wire with
    | some (data, _) => Exec.exec env db (splitSp data)
    | none => (.err (Exec.ofStr "MODEL: undecodable log entry (publishEntries panics)"), db)

/-- a command submitted through a cluster node, after the filter: proposal → log bytes → a replica's apply -/
def clusterExec (id : Bytes) (env : Exec.Env) (db : Exec.Db) (argv : List Bytes) : Reply × Exec.Db :=
  applyWire env db (encodeProposal argv id)

/-- the same including `ClusterCmdFilter` -/
def clusterSubmit (id : Bytes) (env : Exec.Env) (db : Exec.Db) (argv : List Bytes) : Reply × Exec.Db :=
  if clusterAccepts argv then clusterExec id env db argv else (.err (Exec.ofStr "command does not pass checks"), db)

/-- **C14.**  For every command (a non-empty argument vector; the cluster filter and the standalone server both refuse the empty
    array before anything is executed) over all byte strings — empty arguments, spaces, CR/LF, non-UTF-8 bytes, any letter case — and
    every proposal id: the replicated log entry decodes to exactly the argument vector that was submitted (the log carries commands
    without altering them), and every replica that applies the entry computes, from whatever keyspace `db` and clock reading `env` it
    has, exactly the reply and the keyspace a standalone server computes from the same `db` and `env`. -/
def C14_statement : Prop :=
  ∀ (id : Bytes) (argv : List Bytes), argv ≠ [] →
    decodeProposalArgs (encodeProposal argv id) = some argv ∧
    ∀ (env : Exec.Env) (db : Exec.Db), applyWire env db (encodeProposal argv id) = Exec.exec env db argv

/-! `C14_holds : C14_statement` is proved below with no hypothesis beyond `argv ≠ []`.  Not covered by it, stated:
* `ClusterCmdFilter` refuses PUBLISH and SUBSCRIBE in cluster mode ("command does not pass checks"), which a standalone server
  executes: `C14_submit_same_meaning_partial` therefore carries the hypothesis `clusterAccepts argv`;
* the correspondence of `encodeProposal`/`decodeProposalArgs` with Go's `encoding/json` + `encoding/base64`, and of `Exec.exec` with
  `Manager.ExecCommand`, is differential (suites `codec` and `cluster-path` of `vlib/props/c14.py`), not proved;
* that every replica applies the same entries in the same order is Raft's business (C15, C07). -/

/-! ## base64 -/

theorem b64val_char : ∀ n, n < 64 → b64val (b64char n) = some n := by decide
theorem b64char_ne_pad : ∀ n, n < 64 → b64char n ≠ pad := by decide
theorem b64char_isB64 : ∀ n, n < 64 → isB64 (b64char n) := by
  intro n h; unfold isB64; revert n; decide

theorem u8_lt (a : UInt8) : a.toNat < 256 := a.toNat_lt

theorem byte0_eq (a b : UInt8) : byte0 (a.toNat / 4) (a.toNat % 4 * 16 + b.toNat / 16) = a := by
  have ha := u8_lt a; have hb := u8_lt b
  unfold byte0
  have : a.toNat / 4 * 4 + (a.toNat % 4 * 16 + b.toNat / 16) / 16 = a.toNat := by omega
  rw [this]; exact UInt8.ofNat_toNat
theorem byte1_eq (a b c : UInt8) : byte1 (a.toNat % 4 * 16 + b.toNat / 16) (b.toNat % 16 * 4 + c.toNat / 64) = b := by
  have ha := u8_lt a; have hb := u8_lt b; have hc := u8_lt c
  unfold byte1
  have : (a.toNat % 4 * 16 + b.toNat / 16) % 16 * 16 + (b.toNat % 16 * 4 + c.toNat / 64) / 4 = b.toNat := by omega
  rw [this]; exact UInt8.ofNat_toNat
theorem byte2_eq (b c : UInt8) : byte2 (b.toNat % 16 * 4 + c.toNat / 64) (c.toNat % 64) = c := by
  have hb := u8_lt b; have hc := u8_lt c
  unfold byte2
  have : (b.toNat % 16 * 4 + c.toNat / 64) % 4 * 64 + c.toNat % 64 = c.toNat := by omega
  rw [this]; exact UInt8.ofNat_toNat
theorem byte0_eq1 (a : UInt8) : byte0 (a.toNat / 4) (a.toNat % 4 * 16) = a := by
  have ha := u8_lt a
  unfold byte0
  have : a.toNat / 4 * 4 + (a.toNat % 4 * 16) / 16 = a.toNat := by omega
  rw [this]; exact UInt8.ofNat_toNat
theorem byte1_eq2 (a b : UInt8) : byte1 (a.toNat % 4 * 16 + b.toNat / 16) (b.toNat % 16 * 4) = b := by
  have ha := u8_lt a; have hb := u8_lt b
  unfold byte1
  have : (a.toNat % 4 * 16 + b.toNat / 16) % 16 * 16 + (b.toNat % 16 * 4) / 4 = b.toNat := by omega
  rw [this]; exact UInt8.ofNat_toNat

theorem pad_val : b64val pad = none := by decide

theorem base64_roundtrip : ∀ b : List UInt8, b64decode (b64encode b) = some b
| [] => rfl
| [a] => by
  have ha := u8_lt a
  have h0 : a.toNat / 4 < 64 := by omega
  have h1 : a.toNat % 4 * 16 < 64 := by omega
  simp [b64encode, b64decode, b64val_char _ h0, b64val_char _ h1, byte0_eq1]
| [a, b] => by
  have ha := u8_lt a; have hb := u8_lt b
  have h0 : a.toNat / 4 < 64 := by omega
  have h1 : a.toNat % 4 * 16 + b.toNat / 16 < 64 := by omega
  have h2 : b.toNat % 16 * 4 < 64 := by omega
  simp [b64encode, b64decode, b64val_char _ h0, b64val_char _ h1, b64val_char _ h2, b64char_ne_pad _ h2, byte0_eq, byte1_eq2]
| a :: b :: c :: r => by
  have ih := base64_roundtrip r
  have ha := u8_lt a; have hb := u8_lt b; have hc := u8_lt c
  have h0 : a.toNat / 4 < 64 := by omega
  have h1 : a.toNat % 4 * 16 + b.toNat / 16 < 64 := by omega
  have h2 : b.toNat % 16 * 4 + c.toNat / 64 < 64 := by omega
  have h3 : c.toNat % 64 < 64 := by omega
  simp [b64encode, b64decode, b64val_char _ h0, b64val_char _ h1, b64val_char _ h2, b64val_char _ h3, b64char_ne_pad _ h2,
    b64char_ne_pad _ h3, ih, byte0_eq, byte1_eq, byte2_eq]

/-! ## base64 text is its own JSON string body -/

theorem pad_isB64 : isB64 pad := by unfold isB64; decide

theorem b64encode_isB64 : ∀ (b : Bytes) (c : UInt8), c ∈ b64encode b → isB64 c
| [], c, h => by simp [b64encode] at h
| [a], c, h => by
  have ha := u8_lt a
  simp only [b64encode, List.mem_cons, List.not_mem_nil, or_false] at h
  rcases h with h | h | h | h <;> subst h
  · exact b64char_isB64 _ (by omega)
  · exact b64char_isB64 _ (by omega)
  · exact pad_isB64
  · exact pad_isB64
| [a, b], c, h => by
  have ha := u8_lt a; have hb := u8_lt b
  simp only [b64encode, List.mem_cons, List.not_mem_nil, or_false] at h
  rcases h with h | h | h | h <;> subst h
  · exact b64char_isB64 _ (by omega)
  · exact b64char_isB64 _ (by omega)
  · exact b64char_isB64 _ (by omega)
  · exact pad_isB64
| a :: b :: d :: r, c, h => by
  have ha := u8_lt a; have hb := u8_lt b; have hd := u8_lt d
  simp only [b64encode, List.mem_cons] at h
  rcases h with h | h | h | h | h
  · subst h; exact b64char_isB64 _ (by omega)
  · subst h; exact b64char_isB64 _ (by omega)
  · subst h; exact b64char_isB64 _ (by omega)
  · subst h; exact b64char_isB64 _ (by omega)
  · exact b64encode_isB64 r c h

theorem toNat_ne {c d : UInt8} (h : c.toNat ≠ d.toNat) : c ≠ d := fun e => h (by rw [e])

/-- a base64 character is printable ASCII that `encoding/json` copies unchanged -/
theorem isB64_safe {c : UInt8} (h : isB64 c) : c ≠ quote ∧ c ≠ bslash ∧ 0x20 ≤ c.toNat ∧ c.toNat < 0x80 ∧ htmlSafe c = true := by
  unfold isB64 at h
  have hq : quote.toNat = 0x22 := rfl
  have hb : bslash.toNat = 0x5c := rfl
  refine ⟨toNat_ne (by omega), toNat_ne (by omega), by omega, by omega, ?_⟩
  simp [htmlSafe]; omega

theorem esc_safe : ∀ (s : Bytes), (∀ c ∈ s, htmlSafe c = true) → esc true 0 s = s
| [], _ => rfl
| c :: r, h => by
  have hc := h c (by simp)
  have hlt : c.toNat < 128 := by simp [htmlSafe] at hc; omega
  have ih := esc_safe r (fun x hx => h x (by simp [hx]))
  simp [esc, hlt, escAscii, hc, ih]

theorem b64_alphabet_json_safe (b : Bytes) :
    (∀ c ∈ b64encode b, c ≠ quote ∧ c ≠ bslash ∧ 0x20 ≤ c.toNat ∧ c.toNat < 0x80) ∧ jsonString (b64encode b) = quote :: b64encode b ++ [quote] := by
  constructor
  · intro c hc
    have := isB64_safe (b64encode_isB64 b c hc)
    exact ⟨this.1, this.2.1, this.2.2.1, this.2.2.2.1⟩
  · unfold jsonString jsonEscape
    rw [esc_safe _ (fun c hc => (isB64_safe (b64encode_isB64 b c hc)).2.2.2.2)]

theorem spanQuote_body : ∀ (body rest : Bytes), (∀ c ∈ body, c ≠ quote ∧ c ≠ bslash) →
    spanQuote (body ++ quote :: rest) = some (body, rest)
| [], rest, _ => by simp [spanQuote]
| c :: b, rest, h => by
  have hc := h c (by simp)
  have ih := spanQuote_body b rest (fun x hx => h x (by simp [hx]))
  simp [spanQuote, hc.1, hc.2, ih]

theorem stripPrefix_append : ∀ (p r : Bytes), stripPrefix p (p ++ r) = some r
| [], r => by cases r <;> rfl
| c :: p, r => by simp [stripPrefix, stripPrefix_append p r]

/-! ## the closing quote the encoder writes is where Go's scanner ends the string (arbitrary bytes in `Data` and `ID`) -/


theorem skipStr_quote (r : Bytes) : skipStr (quote :: r) = some r := by
  cases r <;> simp [skipStr]
theorem skipStr_plain {c : UInt8} (r : Bytes) (h1 : c ≠ quote) (h2 : c ≠ bslash) : skipStr (c :: r) = skipStr r := by
  cases r <;> simp [skipStr, h1, h2]
theorem skipStr_bs (d : UInt8) (r : Bytes) : skipStr (bslash :: d :: r) = skipStr r := by
  have : bslash ≠ quote := by decide
  simp [skipStr, this]

theorem hexLow_plain : ∀ n, n < 16 → hexLow n ≠ quote ∧ hexLow n ≠ bslash := by decide

theorem skip_escAscii (c : UInt8) (t : Bytes) : skipStr (escAscii c ++ t) = skipStr t := by
  have hc := u8_lt c
  unfold escAscii
  split
  · rename_i h
    have : c ≠ quote ∧ c ≠ bslash := by
      have hq : quote.toNat = 0x22 := rfl
      have hb : bslash.toNat = 0x5c := rfl
      simp [htmlSafe] at h
      exact ⟨toNat_ne (by omega), toNat_ne (by omega)⟩
    simp [skipStr_plain _ this.1 this.2]
  · have h1 := hexLow_plain (c.toNat / 16) (by omega)
    have h2 := hexLow_plain (c.toNat % 16) (by omega)
    have p30 : (0x30 : UInt8) ≠ quote ∧ (0x30 : UInt8) ≠ bslash := by decide
    repeat' split
    all_goals simp only [List.cons_append, List.nil_append, skipStr_bs]
    rw [skipStr_plain _ p30.1 p30.2, skipStr_plain _ p30.1 p30.2, skipStr_plain _ h1.1 h1.2, skipStr_plain _ h2.1 h2.2]

theorem skip_ufffd (t : Bytes) : skipStr (ufffd ++ t) = skipStr t := by
  have p66 : (0x66 : UInt8) ≠ quote ∧ (0x66 : UInt8) ≠ bslash := by decide
  have p64 : (0x64 : UInt8) ≠ quote ∧ (0x64 : UInt8) ≠ bslash := by decide
  simp only [ufffd, List.cons_append, List.nil_append, skipStr_bs]
  rw [skipStr_plain _ p66.1 p66.2, skipStr_plain _ p66.1 p66.2, skipStr_plain _ p66.1 p66.2, skipStr_plain _ p64.1 p64.2]

theorem lineSep_digit {c : UInt8} {r : Bytes} {d : UInt8} (h : lineSep c r = some d) : d ≠ quote ∧ d ≠ bslash := by
  unfold lineSep at h
  split at h
  · split at h
    · cases h; decide
    · split at h
      · cases h; decide
      · cases h
  · cases h

theorem skip_u202 {d : UInt8} (hd : d ≠ quote ∧ d ≠ bslash) (t : Bytes) : skipStr (u202 d ++ t) = skipStr t := by
  have p32 : (0x32 : UInt8) ≠ quote ∧ (0x32 : UInt8) ≠ bslash := by decide
  have p30 : (0x30 : UInt8) ≠ quote ∧ (0x30 : UInt8) ≠ bslash := by decide
  simp only [u202, List.cons_append, List.nil_append, skipStr_bs]
  rw [skipStr_plain _ p32.1 p32.2, skipStr_plain _ p30.1 p30.2, skipStr_plain _ p32.1 p32.2, skipStr_plain _ hd.1 hd.2]

/-- the continuation bytes of a sequence `utf8Tail` accepts are all ≥ 0x80 -/
theorem utf8Tail_high {c : UInt8} {r : Bytes} {n : Nat} (h : utf8Tail c r = n + 1) : ∀ x ∈ r.take (n + 1), 128 ≤ x.toNat := by
  unfold utf8Tail at h
  simp only at h
  repeat' split at h
  all_goals try omega
  all_goals (rename_i hb; rw [← h]; simp [inR] at hb; simp [List.take_succ_cons]; omega)

theorem high_plain {c : UInt8} (h : 128 ≤ c.toNat) : c ≠ quote ∧ c ≠ bslash := by
  have hq : quote.toNat = 0x22 := rfl
  have hb : bslash.toNat = 0x5c := rfl
  exact ⟨toNat_ne (by omega), toNat_ne (by omega)⟩

/-- the closing quote the encoder writes is the first unescaped quote: Go's scanner ends the string exactly there -/
theorem skip_esc : ∀ (r : Bytes) (cp : Bool) (k : Nat) (rest : Bytes),
    (cp = true → ∀ x ∈ r.take k, 128 ≤ x.toNat) → skipStr (esc cp k r ++ quote :: rest) = some rest
| [], cp, k, rest, _ => by simp [esc, skipStr_quote]
| c :: r, cp, k + 1, rest, h => by
  have ih := skip_esc r cp k rest (fun hcp x hx => h hcp x (by simp [List.take_succ_cons, hx]))
  cases cp
  · simpa [esc] using ih
  · have hc := high_plain (h rfl c (by simp))
    simp [esc, skipStr_plain _ hc.1 hc.2, ih]
| c :: r, cp, 0, rest, _ => by
  have ih0 := skip_esc r true 0 rest (by simp)
  by_cases hlt : c.toNat < 128
  · simp [esc, hlt, List.append_assoc, skip_escAscii, ih0]
  · cases ht : utf8Tail c r with
    | zero => simp [esc, hlt, ht, List.append_assoc, skip_ufffd, ih0]
    | succ n =>
      cases hl : lineSep c r with
      | some d =>
        have ih := skip_esc r false (n + 1) rest (by simp)
        simp [esc, hlt, ht, hl, List.append_assoc, skip_u202 (lineSep_digit hl), ih]
      | none =>
        have ih := skip_esc r true (n + 1) rest (fun _ => utf8Tail_high ht)
        have hc := high_plain (c := c) (by omega)
        simp [esc, hlt, ht, hl, skipStr_plain _ hc.1 hc.2, ih]

theorem skip_jsonEscape (s rest : Bytes) : skipStr (jsonEscape s ++ quote :: rest) = some rest :=
  skip_esc s true 0 rest (by simp)

/-! ## the `Args` array and the proposal object -/

theorem b64_plain (b : Bytes) : ∀ c ∈ b64encode b, c ≠ quote ∧ c ≠ bslash :=
  fun c hc => ⟨((b64_alphabet_json_safe b).1 c hc).1, ((b64_alphabet_json_safe b).1 c hc).2.1⟩

theorem parseElem_enc (a : Option Bytes) (t : Bytes) : parseElem (encElem a ++ t) = some (a.getD [], t) := by
  cases a with
  | none =>
    have : (0x6e : UInt8) ≠ quote := by decide
    simp [encElem, jnull, parseElem, stripPrefix, this]
  | some a =>
    simp [encElem, parseElem, List.append_assoc, spanQuote_body _ _ (b64_plain a), base64_roundtrip]

theorem encElems_length : ∀ (as : List (Option Bytes)), as.length ≤ (encElems as).length
| [] => by simp
| [a] => by simp [encElems]
| a :: b :: as => by
  have := encElems_length (b :: as)
  simp [encElems] at *; omega

theorem decodeElems_enc : ∀ (as : List (Option Bytes)) (fuel : Nat) (rest : Bytes), as ≠ [] → as.length ≤ fuel →
    decodeElems fuel (encElems as ++ rest) = some (as.map (·.getD []), rest)
| [], _, _, h, _ => absurd rfl h
| [a], fuel, rest, _, hf => by
  obtain ⟨f, rfl⟩ : ∃ f, fuel = f + 1 := ⟨fuel - 1, by simp at hf; omega⟩
  simp [encElems, decodeElems, List.append_assoc, parseElem_enc]
| a :: b :: as, fuel, rest, _, hf => by
  obtain ⟨f, rfl⟩ : ∃ f, fuel = f + 1 := ⟨fuel - 1, by simp at hf; omega⟩
  have ih := decodeElems_enc (b :: as) f rest (by simp) (by simp at hf ⊢; omega)
  have hc : comma ≠ rbrack := by decide
  simp only [encElems, decodeElems, List.append_assoc, parseElem_enc, List.cons_append, hc, if_false, if_true, ih]
  simp

theorem encElem_head (a : Option Bytes) (t : Bytes) : ∃ c r, encElem a ++ t = c :: r ∧ c ≠ rbrack := by
  cases a with
  | none => exact ⟨0x6e, 0x75 :: 0x6c :: 0x6c :: t, by simp [encElem, jnull], by decide⟩
  | some a => exact ⟨quote, b64encode a ++ quote :: t, by simp [encElem], by decide⟩

theorem decodeArr_enc (as : List (Option Bytes)) (rest : Bytes) (h : as ≠ []) :
    decodeArr (encElems as ++ rest) = some (as.map (·.getD []), rest) := by
  have hlen : as.length ≤ (encElems as ++ rest).length := by
    have := encElems_length as; simp; omega
  have hd := decodeElems_enc as _ rest h hlen
  have : ∃ c r, encElems as ++ rest = c :: r ∧ c ≠ rbrack := by
    match as, h with
    | [a], _ => simpa [encElems, List.append_assoc] using encElem_head a _
    | a :: b :: as, _ => simpa [encElems, List.append_assoc] using encElem_head a _
  obtain ⟨c, r, e, hc⟩ := this
  unfold decodeArr
  rw [e] at hd ⊢
  simp only [List.length_cons] at hd
  simp [hc, hd]

/-- the `Args` array alone -/
theorem decodeArgs_encodeArgs (argv : List Bytes) : decodeArgs (encodeArgs argv) = some argv := by
  cases argv with
  | nil => simp [encodeArgs, decodeArgs, encElems, decodeArr]
  | cons a as =>
    have := decodeArr_enc ((a :: as).map some) [] (by simp)
    simp [List.map_map, Function.comp_def] at this
    simp [encodeArgs, decodeArgs, this]

theorem codec_identityN (argv : List (Option Bytes)) (id : Bytes) (h : argv ≠ []) :
    decodeProposalArgs (encodeProposalN argv id) = some (argv.map (·.getD [])) := by
  have hne : argv.isEmpty = false := by cases argv <;> simp_all
  unfold decodeProposalArgs encodeProposalN encodeStruct
  simp only [hne, List.append_assoc, stripPrefix_append, skip_jsonEscape, Bool.false_eq_true, if_false,
    decodeArr_enc _ _ h]
  simp

theorem C14_codec_identity (argv : List Bytes) (id : Bytes) (h : argv ≠ []) :
    decodeProposalArgs (encodeProposal argv id) = some argv := by
  have := codec_identityN (argv.map some) id (by simpa using h)
  simpa [encodeProposal, List.map_map, Function.comp_def] using this

/-! ## C14 -/

/-- the same reply and the same resulting keyspace as the standalone server, for every command, keyspace and clock reading -/
theorem C14_same_meaning (id : Bytes) (env : Exec.Env) (db : Exec.Db) (argv : List Bytes) (h : argv ≠ []) :
    clusterExec id env db argv = Exec.exec env db argv := by
  unfold clusterExec applyWire
  rw [C14_codec_identity argv id h]

theorem C14_holds : C14_statement := by
  intro id argv h
  refine ⟨C14_codec_identity argv id h, fun env db => ?_⟩
  exact C14_same_meaning id env db argv h

/-- every replica: whatever number of replicas apply the entry, each from its own `(env, db)`, each one's outcome is the standalone
    outcome on that `(env, db)`; in particular replicas with equal keyspaces and clock readings end with equal keyspaces -/
theorem C14_every_replica (id : Bytes) (argv : List Bytes) (h : argv ≠ []) (replicas : List (Exec.Env × Exec.Db)) :
    ∀ r ∈ replicas, applyWire r.1 r.2 (encodeProposal argv id) = Exec.exec r.1 r.2 argv :=
  fun r _ => (C14_holds id argv h).2 r.1 r.2

theorem clusterAccepts_ne_nil {argv : List Bytes} (h : clusterAccepts argv = true) : argv ≠ [] := by
  intro e; subst e; simp [clusterAccepts] at h

/-- with the filter in front.  **Partial**: the hypothesis `clusterAccepts argv` excludes the empty array (refused by both servers) and
    PUBLISH / SUBSCRIBE, which the cluster filter refuses although a standalone server executes them — a documented restriction of
    the implementation ("does not support pub/sub in cluster mode yet"), outside what this theorem claims. -/
theorem C14_submit_same_meaning_partial (id : Bytes) (env : Exec.Env) (db : Exec.Db) (argv : List Bytes)
    (h : clusterAccepts argv = true) : clusterSubmit id env db argv = Exec.exec env db argv := by
  unfold clusterSubmit
  rw [if_pos h]
  exact C14_same_meaning id env db argv (clusterAccepts_ne_nil h)

/-- a nil element of the vector (`null` on the wire) comes back as the empty byte string, everything else unchanged -/
theorem C14_codec_identity_nil (argv : List (Option Bytes)) (id : Bytes) (h : argv ≠ []) :
    decodeProposalArgs (encodeProposalN argv id) = some (argv.map (·.getD [])) := codec_identityN argv id h

/-- `omitempty`: an empty vector leaves no `Args` member, the entry reads as a legacy proposal (never produced: the filter refuses
    the empty array) -/
theorem C14_empty_vector_omitted (id : Bytes) : decodeProposalArgs (encodeProposal [] id) = none := by
  have h : stripPrefix preArgs (preId ++ jsonEscape id ++ [quote, rbrace]) = none := by
    simp [preArgs, preId, stripPrefix]
  unfold decodeProposalArgs encodeProposal encodeProposalN encodeStruct
  simp only [List.map_nil, List.isEmpty_nil, if_true, List.nil_append, List.append_assoc, stripPrefix_append, skip_jsonEscape]
  simp only [List.append_assoc] at h
  simp [h]

/-! ## hypotheses are satisfiable; the letter case, spaces, CR/LF, empty and non-UTF-8 arguments are instances -/

/-- `SeT`, `k`, `a b`, ``, `\r\n`, `0xff 0xc3 0x28` -/
def c14_sample : List Bytes := [[0x53, 0x65, 0x54], [0x6b], [0x61, 0x20, 0x62], [], [0x0d, 0x0a], [0xff, 0xc3, 0x28]]

example : decodeProposalArgs (encodeProposal c14_sample [0x69, 0x64]) = some c14_sample :=
  C14_codec_identity _ _ (by decide)
example : clusterAccepts c14_sample = true := by decide
/-- the same fact computed by the kernel on the concrete bytes (the encoder and decoder run, no theorem involved) -/
example : decodeProposalArgs (encodeProposal c14_sample [0x69, 0x64]) = some c14_sample := by decide
example : clusterAccepts [[0x50, 0x75, 0x42, 0x6c, 0x49, 0x73, 0x48], [0x63], [0x6d]] = false := by decide   -- "PuBlIsH c m"
/-- `PUBL\u0130SH` (U+0130, bytes `C4 B0`): Go's `strings.ToLower` makes it `publish`, so the filter refuses it too -/
example : clusterAccepts [[0x50, 0x55, 0x42, 0x4c, 0xc4, 0xb0, 0x53, 0x48], [0x63], [0x6d]] = false := by decide

/-! ## the old codec (pinned code: `Data = strings.Join(words, " ")` as a JSON string, apply = `strings.Split(Data, " ")`) -/

/-- `SET k "a b"` reaches the replicas as the four words `SET k a b` -/
theorem c14_old_codec_splits_space :
    oldDecode (oldWire [[0x53, 0x45, 0x54], [0x6b], [0x61, 0x20, 0x62]]) = some [[0x53, 0x45, 0x54], [0x6b], [0x61], [0x62]] := by decide

theorem c14_old_codec_not_identity_space :
    oldDecode (oldWire [[0x53, 0x45, 0x54], [0x6b], [0x61, 0x20, 0x62]]) ≠ some [[0x53, 0x45, 0x54], [0x6b], [0x61, 0x20, 0x62]] := by decide

/-- `SET k <0xff>` reaches the replicas as `SET k <EF BF BD>`: `json.Marshal` replaces what is not UTF-8 by U+FFFD -/
theorem c14_old_codec_replaces_non_utf8 :
    oldDecode (oldWire [[0x53, 0x45, 0x54], [0x6b], [0xff]]) = some [[0x53, 0x45, 0x54], [0x6b], [0xef, 0xbf, 0xbd]] := by decide

/-- an argument that is a single space becomes two empty arguments: `SET k " "` is applied as `SET k "" ""` (wrong arity) -/
theorem c14_old_codec_space_argument :
    oldDecode (oldWire [[0x53, 0x45, 0x54], [0x6b], [0x20]]) = some [[0x53, 0x45, 0x54], [0x6b], [], []] := by decide

/-- an *empty* argument by itself survived the old codec (`strings.Split` keeps empty fields): `SET k ""` → `SET k ""`.  Recorded
    because the repair's commit message lists "an empty argument vanished"; on the pinned code that happens only next to a space
    (previous witness), where an empty field can no longer be told from a separator. -/
theorem c14_old_codec_keeps_lone_empty :
    oldDecode (oldWire [[0x53, 0x45, 0x54], [0x6b], []]) = some [[0x53, 0x45, 0x54], [0x6b], []] := by decide

/-- `["a", "", "b"]` and `["a", " b"]`: two different argument vectors, one log entry — the old encoding is not injective, so no
    decoder could have repaired it -/
theorem c14_old_codec_not_injective :
    oldWire [[0x61], [], [0x62]] = oldWire [[0x61], [0x20, 0x62]] ∧ ([[0x61], [], [0x62]] : List Bytes) ≠ [[0x61], [0x20, 0x62]] := by decide

/-- the repaired codec on the same inputs -/
example : decodeProposalArgs (encodeProposal [[0x53, 0x45, 0x54], [0x6b], [0x61, 0x20, 0x62]] []) = some [[0x53, 0x45, 0x54], [0x6b], [0x61, 0x20, 0x62]] :=
  C14_codec_identity _ _ (by decide)
example : decodeProposalArgs (encodeProposal [[0x53, 0x45, 0x54], [0x6b], [0xff]] []) = some [[0x53, 0x45, 0x54], [0x6b], [0xff]] :=
  C14_codec_identity _ _ (by decide)

end Codec
