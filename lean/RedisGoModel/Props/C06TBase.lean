import RedisGoModel.Props.C06
import RedisGoModel.Exec.Dispatch
import Lean
/-! # C06, table-wide congruence — shared infrastructure

`LiveEq now a b`: the two keyspaces have the same live view at `now` (they may differ in which expired entries are still physically
present).  `Sim` adds well-formedness of both; `Res` relates two command results (same reply, `Sim` keyspaces).  The lemmas below
say how each primitive the executors are built from (`checkTTL`, `put`, `del`, `setVal`, `setFresh`) acts on `Sim` and on physical
agreement at a key (`a.get k = b.get k`, which is what a command may rely on after it has run the lazy check on `k`). -/
namespace Exec.C06T
open Resp (Reply Bytes)
open Exec

/-- same live view at `now` -/
def LiveEq (now : Int) (a b : Db) : Prop := ∀ k, (live a now).get k = (live b now).get k

/-- what is visible of a physical lookup result at `now` -/
def vis (now : Int) (o : Option Entry) : Option Entry := o.bind fun e => if e.liveAt now then some e else none

structure Sim (now : Int) (a b : Db) : Prop where
  wfa : a.WF
  wfb : b.WF
  live : LiveEq now a b

/-- two results agree: same reply, keyspaces well-formed and live-equal -/
def Res (now : Int) (x y : Reply × Db) : Prop := x.1 = y.1 ∧ Sim now x.2 y.2

abbrev CmdOk (c : Cmd) : Prop := ∀ (env : Env) (a b : Db) (args : List Bytes), Sim env.now a b → Res env.now (c env a args) (c env b args)

theorem Sim.visEq {now : Int} {a b : Db} (hs : Sim now a b) (k : Bytes) : C06T.vis now (a.get k) = C06T.vis now (b.get k) := by
  have := hs.live k
  rw [get_live a hs.wfa, get_live b hs.wfb] at this
  exact this

theorem Sim.of_vis {now : Int} {a b : Db} (ha : a.WF) (hb : b.WF) (h : ∀ k, vis now (a.get k) = vis now (b.get k)) : Sim now a b := by
  refine ⟨ha, hb, fun k => ?_⟩
  rw [get_live a ha, get_live b hb]
  exact h k

theorem Sim.refl {now : Int} {a : Db} (ha : a.WF) : Sim now a a := ⟨ha, ha, fun _ => rfl⟩

theorem Sim.symm {now : Int} {a b : Db} (hs : Sim now a b) : Sim now b a := ⟨hs.wfb, hs.wfa, fun k => (hs.live k).symm⟩

theorem Sim.put {now : Int} {a b : Db} (hs : Sim now a b) (k : Bytes) (e : Entry) : Sim now (a.put k e) (b.put k e) := by
  refine Sim.of_vis (Db.wf_put hs.wfa k e) (Db.wf_put hs.wfb k e) fun k' => ?_
  by_cases h : k' = k
  · subst h; rw [Db.get_put_same, Db.get_put_same]
  · rw [Db.get_put_other _ _ h, Db.get_put_other _ _ h]; exact hs.visEq k'

theorem Sim.del {now : Int} {a b : Db} (hs : Sim now a b) (k : Bytes) : Sim now (a.del k) (b.del k) := by
  refine Sim.of_vis (Db.wf_del hs.wfa k) (Db.wf_del hs.wfb k) fun k' => ?_
  by_cases h : k' = k
  · subst h; rw [Db.get_del_same, Db.get_del_same]
  · rw [Db.get_del_other _ h, Db.get_del_other _ h]; exact hs.visEq k'

theorem Sim.setFresh {now : Int} {a b : Db} (hs : Sim now a b) (k : Bytes) (v : Value) : Sim now (a.setFresh k v) (b.setFresh k v) :=
  hs.put k _

theorem Sim.setVal {now : Int} {a b : Db} {k : Bytes} (hs : Sim now a b) (hk : a.get k = b.get k) (v : Value) :
    Sim now (a.setVal k v) (b.setVal k v) := by
  unfold Db.setVal; rw [hk]; exact hs.put k _

/-! physical agreement at a key is kept by writes that are the same on both sides -/

theorem agree_put {a b : Db} {k' : Bytes} (h : a.get k' = b.get k') (k : Bytes) (e : Entry) :
    (a.put k e).get k' = (b.put k e).get k' := by
  by_cases hk : k' = k
  · subst hk; rw [Db.get_put_same, Db.get_put_same]
  · rw [Db.get_put_other _ _ hk, Db.get_put_other _ _ hk]; exact h

theorem agree_put_self (a b : Db) (k : Bytes) (e : Entry) : (a.put k e).get k = (b.put k e).get k := by
  rw [Db.get_put_same, Db.get_put_same]

theorem agree_del {a b : Db} {k' : Bytes} (h : a.get k' = b.get k') (k : Bytes) : (a.del k).get k' = (b.del k).get k' := by
  by_cases hk : k' = k
  · subst hk; rw [Db.get_del_same, Db.get_del_same]
  · rw [Db.get_del_other _ hk, Db.get_del_other _ hk]; exact h

theorem agree_del_self (a b : Db) (k : Bytes) : (a.del k).get k = (b.del k).get k := by
  rw [Db.get_del_same, Db.get_del_same]

theorem agree_setVal {a b : Db} {k k' : Bytes} (hk : a.get k = b.get k) (h : a.get k' = b.get k') (v : Value) :
    (a.setVal k v).get k' = (b.setVal k v).get k' := by
  unfold Db.setVal; rw [hk]; exact agree_put h k _

theorem agree_setFresh {a b : Db} {k' : Bytes} (h : a.get k' = b.get k') (k : Bytes) (v : Value) :
    (a.setFresh k v).get k' = (b.setFresh k v).get k' := agree_put h k _

/-- the lazy check on `k`: the results are again `Sim`, they agree *physically* at `k`, and agreement at any key is kept -/
theorem Sim.ttl {now : Int} {a b : Db} (hs : Sim now a b) (k : Bytes) :
    ∃ a' b' x y, checkTTL a now k = (a', x) ∧ checkTTL b now k = (b', y) ∧ Sim now a' b' ∧ a'.get k = b'.get k ∧
      ∀ k', a.get k' = b.get k' → a'.get k' = b'.get k' := by
  have hk : (checkTTL a now k).1.get k = (checkTTL b now k).1.get k := by
    rw [checkTTL_get a hs.wfa, checkTTL_get b hs.wfb]; exact hs.live k
  refine ⟨(checkTTL a now k).1, (checkTTL b now k).1, (checkTTL a now k).2, (checkTTL b now k).2, rfl, rfl, ?_, hk, ?_⟩
  · refine ⟨checkTTL_wf a hs.wfa now k, checkTTL_wf b hs.wfb now k, fun k' => ?_⟩
    rw [checkTTL_live a hs.wfa, checkTTL_live b hs.wfb]; exact hs.live k'
  · intro k' h
    by_cases hkk : k' = k
    · subst hkk; exact hk
    · rw [checkTTL_other a now hkk, checkTTL_other b now hkk]; exact h

theorem Res.mk' {now : Int} {a b : Db} (r : Reply) (hs : Sim now a b) : Res now (r, a) (r, b) := ⟨rfl, hs⟩

/-! the typed lookups depend only on the physical entry -/
theorem getStr_congr {a b : Db} {k : Bytes} (h : a.get k = b.get k) : getStr a k = getStr b k := by unfold getStr; rw [h]
theorem getHash_congr {a b : Db} {k : Bytes} (h : a.get k = b.get k) : getHash a k = getHash b k := by unfold getHash; rw [h]
theorem getSet_congr {a b : Db} {k : Bytes} (h : a.get k = b.get k) : getSet a k = getSet b k := by unfold getSet; rw [h]
theorem getList_congr {a b : Db} {k : Bytes} (h : a.get k = b.get k) : getList a k = getList b k := by unfold getList; rw [h]
theorem getZ_congr {a b : Db} {k : Bytes} (h : a.get k = b.get k) : getZ a k = getZ b k := by unfold getZ; rw [h]
theorem getStream_congr {a b : Db} {k : Bytes} (h : a.get k = b.get k) : getStream a k = getStream b k := by unfold getStream; rw [h]
theorem has_congr {a b : Db} {k : Bytes} (h : a.get k = b.get k) : a.has k = b.has k := by unfold Db.has; rw [h]

/-! container write-backs -/
theorem Sim.putHash {now : Int} {a b : Db} {k : Bytes} (hs : Sim now a b) (hk : a.get k = b.get k) (h : HashT) :
    Sim now (putHash a k h) (putHash b k h) := by
  unfold Exec.putHash; split
  · exact hs.del k
  · exact hs.setVal hk _

theorem Sim.putSet {now : Int} {a b : Db} {k : Bytes} (hs : Sim now a b) (hk : a.get k = b.get k) (s : SetOps.MSet) :
    Sim now (putSet a k s) (putSet b k s) := by
  unfold Exec.putSet; split
  · exact hs.del k
  · exact hs.setVal hk _

theorem Sim.storeSet {now : Int} {a b : Db} (hs : Sim now a b) (k : Bytes) (s : SetOps.MSet) :
    Sim now (storeSet a k s) (storeSet b k s) := by
  unfold Exec.storeSet; split
  · exact hs.del k
  · exact hs.setFresh k _

theorem Sim.putList {now : Int} {a b : Db} {k : Bytes} (hs : Sim now a b) (hk : a.get k = b.get k) (l : List Bytes) :
    Sim now (putList a k l) (putList b k l) := by
  unfold Exec.putList; split
  · exact hs.del k
  · exact hs.setVal hk _

theorem agree_putList {a b : Db} {k k' : Bytes} (hk : a.get k = b.get k) (h : a.get k' = b.get k') (l : List Bytes) :
    (putList a k l).get k' = (putList b k l).get k' := by
  unfold Exec.putList; split
  · exact agree_del h k
  · exact agree_setVal hk h _

theorem agree_putSet {a b : Db} {k k' : Bytes} (hk : a.get k = b.get k) (h : a.get k' = b.get k') (s : SetOps.MSet) :
    (putSet a k s).get k' = (putSet b k s).get k' := by
  unfold Exec.putSet; split
  · exact agree_del h k
  · exact agree_setVal hk h _

theorem Res.intro {now : Int} {a b : Db} {r r' : Reply} (h : r = r') (hs : Sim now a b) : Res now (r, a) (r', b) := ⟨h, hs⟩

/-- closes `Sim now (X a) (X b)` for `X` built from the write primitives, from hypotheses in the context -/
syntax "c06_sim" : tactic
syntax "c06_agree" : tactic
macro_rules | `(tactic| c06_sim) => `(tactic| first
  | assumption
  | (apply Sim.put; c06_sim)
  | (apply Sim.del; c06_sim)
  | (apply Sim.setFresh; c06_sim)
  | (apply Sim.storeSet; c06_sim)
  | (apply Sim.setVal <;> first | c06_sim | c06_agree)
  | (apply Sim.putHash <;> first | c06_sim | c06_agree)
  | (apply Sim.putSet <;> first | c06_sim | c06_agree)
  | (apply Sim.putList <;> first | c06_sim | c06_agree))

/-- closes `(X a).get k = (X b).get k` -/
macro_rules | `(tactic| c06_agree) => `(tactic| first
  | assumption
  | exact agree_put_self _ _ _ _
  | exact agree_del_self _ _ _
  | (apply agree_put; c06_agree)
  | (apply agree_del; c06_agree)
  | (apply agree_setFresh; c06_agree)
  | (apply agree_setVal <;> c06_agree)
  | (apply agree_putList <;> c06_agree)
  | (apply agree_putSet <;> c06_agree)
  | (apply_assumption; c06_agree))

macro "c06_pair" : tactic => `(tactic| (apply Res.intro <;> first | rfl | c06_sim))

/-- run the check on `k`, rewrite every read of the `a`-side into the `b`-side -/
macro "c06_ttl " hs:ident k:term : tactic => `(tactic|
  (obtain ⟨a', b', x, y, hca, hcb, hs', hk, hkeep⟩ := Sim.ttl $hs $k
   simp only [hca, hcb, getStr_congr hk, getHash_congr hk, getSet_congr hk, getList_congr hk, getZ_congr hk, getStream_congr hk,
     has_congr hk, hk]))

open Lean Elab Tactic Meta in
/-- find the first `checkTTL db now k` in the goal (closed term) and run `c06_ttl` on its key -/
elab "c06_auto_ttl " hs:ident : tactic => withMainContext do
  let tgt ← instantiateMVars (← getMainTarget)
  let some e := tgt.find? (fun e => e.isAppOfArity ``Exec.checkTTL 3 && !e.hasLooseBVars) | throwError "no checkTTL"
  let k ← Term.exprToSyntax (e.getArg! 2)
  evalTactic (← `(tactic| c06_ttl $hs $k))

/-- a one-key command: split the control flow; at the lazy check switch to physical agreement; close the leaves -/
macro "c06_cmd1 " hs:ident : tactic => `(tactic|
  (repeat' (first | c06_pair | c06_auto_ttl $hs | split | (exfalso; apply_assumption; rfl) | (exfalso; simp_all; done))))

end Exec.C06T
