import RedisGoModel.Props.C08SnapSort
/-! # C08 — `restore ∘ serialize = id` for the keyspace snapshot (memdb/snapshot.go), as theorems about the model the driver runs

The recovery theorems of `Cluster/Recover.lean` (`recover_replays_all`, `acked_survives`) carry the hypothesis that the image saved at a
snapshot, when loaded, is the state that was saved.  `Cluster/Snapshot.lean` models `MemDb.GetSnapshot` (`Snap.encode`, byte for
byte: compared with the real `encoding/json` output on every run, exec-engine lines `G`/`L`) and `MemDb.LoadSnapshot` (`Snap.decode`,
lines `L`/`LB`).  Proved here, for every keyspace `db` with the table-wide invariant `Exec.Global.Inv` (keys unique, sets/hash fields
duplicate-free, sorted sets valid trees with a consistent member index, streams increasing and bounded by their last ID — preserved by
every command: `Exec.Global.global_invariant`) and within the value ranges of the Go types (`Snap.Bounded`: scores are doubles,
stream IDs `uint64`, deadlines `int64` — evaluated by the driver on every state it encodes):

* `base64_roundtrip` (`C08SnapParse`): `b64decode (b64encode b) = some b`;
* `decode_encode`: `decode (encode db) = some (canon db)` — loading never fails and yields the canonical presentation;
* `canon_equiv`, `snapshot_roundtrip_observable`: in the loaded keyspace every key holds the value it held (strings, lists, streams
  equal; sets and hashes the same duplicate-free content; sorted sets the same member/score sequence) with the same deadline;
* `encode_deterministic`: `canon a = canon b → encode a = encode b` — two nodes with the same keyspace produce the same bytes;
* `encode_injective`, `encode_injective_on_canon`, `same_bytes_same_keyspace`: the bytes determine the keyspace.

`commands_agree_statement` (replies of EVERY command agree on the loaded keyspace, stated below) is PROVED in `Props/Equiv.lean`:
`Snap.commands_agree`, for programs `Snap.restored_node_indistinguishable` and `Snap.same_snapshot_same_answers`, at the level of the
driver's verdict in checker mode `Snap.restored_node_same_verdicts`.  (Against the first version of the model the statement was
false: HRANDFIELD in prediction mode answered a prefix of the STORED field list, which the snapshot reorders.  The model's default
answer now selects from the bytewise-sorted fields — `Exec.hrandDefault`, `Exec.hrandCanon` — and the leak is gone.)
`canon_get_exact_partial` is the fragment where the loaded value is EQUAL (strings, lists, streams). -/
namespace Snap
open Exec (Db Entry Value StreamId StreamEntry bytesLt sortBy insertSorted sortBytes)
open Exec.Global (Inv GoodValue)

/-- the value ranges of the Go types hold in the keyspace (`Snap.boundedB`, evaluated by the driver on every state it encodes) -/
def Bounded (db : Db) : Prop := boundedB db = true

/-! ### from the keyspace invariant to what the decoder checks -/

theorem increasing_of_sorted : ∀ (es : List StreamEntry), Exec.Sorted es → increasing es = true
| [], _ => rfl
| [_], _ => rfl
| a :: b :: r, h => by
  unfold Exec.Sorted at h
  rw [List.pairwise_cons] at h
  have hab : a.id.lt b.id := h.1 b (by simp)
  unfold StreamId.lt at hab
  simp only [increasing, hab, decide_true, Bool.true_and]
  exact increasing_of_sorted (b :: r) h.2

theorem lastOk_of_le (es : List StreamEntry) (last : StreamId) (h : ∀ e ∈ es, e.id.le last) : lastOk es last = true := by
  unfold lastOk
  cases hl : es.getLast? with
  | none => rfl
  | some e =>
    have he : e ∈ es := List.mem_of_getLast? hl
    have := h e he
    unfold StreamId.le at this
    simp only [Bool.not_eq_true', decide_eq_false_iff_not]
    omega

theorem valOk_of_good (v : Value) (hg : GoodValue v) (hb : valBoundedB v = true) : ValOk v := by
  cases v with
  | str b => trivial
  | list l => trivial
  | set s => trivial
  | hash h => trivial
  | zset t =>
    have hi : ZT.Inv t := hg.1
    refine ⟨sortK_nodup (ZT.names_nodup hi), fun x hx => ?_⟩
    have hx' : x ∈ ZT.members t := (sortK_perm _).subset hx
    simp only [valBoundedB, List.all_eq_true, Bool.and_eq_true, decide_eq_true_eq] at hb
    exact hb x hx'
  | stream es last =>
    have hs : Exec.StreamOk es last := hg
    simp only [valBoundedB, List.all_eq_true, Bool.and_eq_true, decide_eq_true_eq] at hb
    exact ⟨hb.1.1, hb.1.2, hb.2, increasing_of_sorted es hs.1, lastOk_of_le es last hs.2⟩

theorem reVal_eq_canonVal (v : Value) (hg : GoodValue v) : reVal v = canonVal v := by
  cases v with
  | set s =>
    have hn : (setOrder s).Nodup := ((Exec.C06T.sortBytes_perm s).nodup_iff).mpr hg.1
    have := foldl_sadd (setOrder s) [] (by simpa using hn)
    simp only [reVal, canonVal, this, List.nil_append]
  | hash h =>
    have hk : (h.map (·.1)).Nodup := hg.1
    have hk' : ((hashOrder h).map (·.1)).Nodup := sortK_nodup hk
    have := foldl_hput (hashOrder h) [] (by simpa using hk')
    simp only [reVal, canonVal, this, List.nil_append]
  | str b => rfl
  | list l => rfl
  | zset t => rfl
  | stream es last => rfl

theorem entryOk_of (p : Bytes × Entry) (hg : GoodValue p.2.val) (hb : entryBoundedB p.2 = true) : EntryOk p := by
  simp only [entryBoundedB, Bool.and_eq_true] at hb
  refine ⟨valOk_of_good _ hg hb.1, fun d hd => ?_⟩
  have h2 := hb.2
  rw [hd] at h2
  simpa using h2

/-- **`restore ∘ serialize` on the model tied to snapshot.go**: `LoadSnapshot (GetSnapshot db)` succeeds and yields the canonical
    presentation of `db` (keys in order; sets and hashes in written order; sorted sets rebuilt by insertion in member-name order) -/
theorem decode_encode (db : Db) (hi : Inv db) (hb : Bounded db) : decode (encode db) = some (canon db) := by
  obtain ⟨hw, hg⟩ := (Exec.Global.inv_iff_mem db).mp hi
  have hperm : (keyOrder db).Perm db := sortK_perm db
  have hbb : ∀ p ∈ db, entryBoundedB p.2 = true := by
    unfold Bounded boundedB at hb
    exact List.all_eq_true.mp hb
  rw [decode_encode_raw db (fun p hp => entryOk_of p (hg p (hperm.subset hp)) (hbb p (hperm.subset hp))) (sortK_nodup hw)]
  congr 1
  unfold canon
  apply List.map_congr_left
  intro p hp
  simp only [reEntry, reVal_eq_canonVal _ (hg p (hperm.subset hp))]

/-! ### the canonical presentation is the same keyspace, observably -/

/-- the same value up to the container's own equality: strings, lists and streams equal; sets and hashes the same members/fields with
    the same values (a permutation of a duplicate-free list); sorted sets the same (member, score) sequence in (score, name) order —
    the shape of the AVL tree is not observable through commands and is NOT preserved (the tree is rebuilt by insertion in name order) -/
def ValEquiv : Value → Value → Prop
| .str a, .str b => a = b
| .list a, .list b => a = b
| .set a, .set b => a.Perm b
| .hash a, .hash b => a.Perm b
| .zset a, .zset b => ZT.members a = ZT.members b
| .stream a la, .stream b lb => a = b ∧ la = lb
| _, _ => False

/-- same value (up to `ValEquiv`) and same deadline -/
def EntryEquiv (a b : Entry) : Prop := ValEquiv a.val b.val ∧ a.exp = b.exp

def OptEquiv : Option Entry → Option Entry → Prop
| none, none => True
| some a, some b => EntryEquiv a b
| _, _ => False

theorem members_rebuild {t : ZT.T} (hi : ZT.Inv t) : ZT.members (zbuild (zsetOrder t)) = ZT.members t := by
  have hn : ((zsetOrder t).map (·.1)).Nodup := sortK_nodup (ZT.names_nodup hi)
  have hp : (ZT.members (zbuild (zsetOrder t))).Perm (ZT.members t) := (members_zbuild_perm hn).trans (sortK_perm _)
  exact List.Perm.eq_of_pairwise (le := ZT.mlt) (fun a b _ _ h1 h2 => (mlt_asymm h1 h2).elim)
    (ZT.members_sorted (zbuild_inv hn)) (ZT.members_sorted hi) hp

theorem canonVal_equiv (v : Value) (hg : GoodValue v) : ValEquiv (canonVal v) v := by
  cases v with
  | str b => rfl
  | list l => rfl
  | set s => exact Exec.C06T.sortBytes_perm s
  | hash h => exact sortK_perm h
  | zset t => exact members_rebuild hg.1
  | stream es last => exact ⟨rfl, rfl⟩

theorem get_perm {a b : Db} (h : a.Perm b) (hw : Exec.Db.WF a) (k : Bytes) : a.get k = b.get k := by
  have hwb : Exec.Db.WF b := by unfold Exec.Db.WF at *; exact ((h.map (·.1)).nodup_iff).mp hw
  cases hb : b.get k with
  | some e => exact Exec.Global.get_of_mem hw (h.symm.subset (Exec.Global.mem_of_get hb))
  | none =>
    cases ha : a.get k with
    | none => rfl
    | some e =>
      have := Exec.Global.get_of_mem hwb (h.subset (Exec.Global.mem_of_get ha))
      rw [hb] at this; cases this

theorem get_map_val (f : Entry → Entry) : ∀ (l : Db) (k : Bytes), Exec.Db.get (l.map fun p => (p.1, f p.2)) k = (Exec.Db.get l k).map f
| [], _ => rfl
| p :: l, k => by
  have ih := get_map_val f l k
  unfold Exec.Db.get at ih ⊢
  simp only [List.map_cons, List.find?_cons]
  by_cases h : (p.1 == k) = true
  · simp [h]
  · have h' : (p.1 == k) = false := by simpa using h
    simp only [h']
    exact ih

theorem canon_get (db : Db) (hw : Exec.Db.WF db) (k : Bytes) :
    (canon db).get k = (db.get k).map fun e => { val := canonVal e.val, exp := e.exp } := by
  have hwk : Exec.Db.WF (keyOrder db) := sortK_nodup hw
  unfold canon
  have hp : (keyOrder db).Perm db := sortK_perm db
  rw [get_map_val (fun e => { val := canonVal e.val, exp := e.exp }) (keyOrder db) k, get_perm hp hwk k]

/-- **the canonical presentation holds the same keyspace**: every key has the same value up to the container's own equality, and the
    same deadline -/
theorem canon_equiv (db : Db) (hi : Inv db) (k : Bytes) : OptEquiv ((canon db).get k) (db.get k) := by
  rw [canon_get db hi.1 k]
  cases h : db.get k with
  | none => trivial
  | some e => exact ⟨canonVal_equiv e.val (hi.2 k e h), rfl⟩

/-- **`restore ∘ serialize = id`, observably**: loading the snapshot of `db` succeeds, and in the restored keyspace every key holds
    what it held in `db` (up to `ValEquiv`) with the same deadline -/
theorem snapshot_roundtrip_observable (db : Db) (hi : Inv db) (hb : Bounded db) :
    ∃ db', decode (encode db) = some db' ∧ ∀ k, OptEquiv (db'.get k) (db.get k) :=
  ⟨canon db, decode_encode db hi hb, canon_equiv db hi⟩

/-! ### the bytes depend on the keyspace only through its canonical presentation -/

theorem encArr_map_congr {α : Type} (enc : α → Bytes) (f : α → α) : ∀ (l : List α), (∀ x ∈ l, enc (f x) = enc x) →
    encArr enc (l.map f) = encArr enc l
| [], _ => rfl
| [a], h => by simp [encArr, h a (by simp)]
| a :: b :: as, h => by
  have ih := encArr_map_congr enc f (b :: as) (fun x hx => h x (by simp [hx]))
  simp only [List.map_cons, encArr] at ih ⊢
  rw [h a (by simp), ih]

theorem encVal_canonVal (v : Value) (hg : GoodValue v) : encVal (canonVal v) = encVal v := by
  cases v with
  | str b => rfl
  | list l => rfl
  | stream es last => rfl
  | set s =>
    have : setOrder (setOrder s) = setOrder s := Exec.C06T.sortBytes_of_perm (Exec.C06T.sortBytes_perm s)
    simp only [canonVal, encVal, encSet, this]
  | hash h =>
    have hk : (h.map (·.1)).Nodup := hg.1
    have : hashOrder (hashOrder h) = hashOrder h := sortK_idem hk
    simp only [canonVal, encVal, encHash, this]
  | zset t =>
    have hn : ((zsetOrder t).map (·.1)).Nodup := sortK_nodup (ZT.names_nodup hg.1)
    have : zsetOrder (zbuild (zsetOrder t)) = zsetOrder t := by
      have := members_rebuild hg.1
      unfold zsetOrder at this ⊢
      rw [this]
    simp only [canonVal, encVal, encZSet, this]

theorem typeBytes_canonVal (v : Value) : typeBytes (canonVal v) = typeBytes v := by cases v <;> rfl

theorem encode_canon (db : Db) (hi : Inv db) : encode (canon db) = encode db := by
  obtain ⟨hw, hg⟩ := (Exec.Global.inv_iff_mem db).mp hi
  have hperm : (keyOrder db).Perm db := sortK_perm db
  let g : Bytes × Entry → Bytes × Entry := fun p => (p.1, { val := canonVal p.2.val, exp := p.2.exp })
  have hko : keyOrder (canon db) = (keyOrder db).map g := by
    show sortBy keyLt ((keyOrder db).map g) = (keyOrder db).map g
    rw [sortK_map g (fun _ => rfl)]
    unfold keyOrder
    rw [sortK_idem hw]
  unfold encode
  rw [hko, encArr_map_congr encKey g (keyOrder db)]
  intro p hp
  have := hg p (hperm.subset hp)
  simp only [encKey, g, typeBytes_canonVal, encVal_canonVal _ this]

/-- **two nodes with the same keyspace produce the same bytes**: the snapshot depends on the keyspace only through its canonical
    presentation (not on the physical order of keys, set members, hash fields, nor on the shape of a sorted set's tree) -/
theorem encode_deterministic (a b : Db) (ha : Inv a) (hb : Inv b) (h : canon a = canon b) : encode a = encode b := by
  rw [← encode_canon a ha, ← encode_canon b hb, h]

/-- the snapshot determines the canonical presentation: keyspaces with the same bytes are the same keyspace -/
theorem encode_injective (a b : Db) (ha : Inv a) (hb : Inv b) (ba : Bounded a) (bb : Bounded b) (h : encode a = encode b) :
    canon a = canon b := by
  have h1 := decode_encode a ha ba
  have h2 := decode_encode b hb bb
  rw [h, h2] at h1
  exact (Option.some.inj h1).symm

/-- two canonical keyspaces with the same bytes are equal -/
theorem encode_injective_on_canon (a b : Db) (ha : Inv a) (hb : Inv b) (ba : Bounded a) (bb : Bounded b)
    (ca : canon a = a) (cb : canon b = b) (h : encode a = encode b) : a = b := by
  rw [← ca, ← cb]; exact encode_injective a b ha hb ba bb h

/-- same bytes ⇒ observably the same keyspace -/
theorem same_bytes_same_keyspace (a b : Db) (ha : Inv a) (hb : Inv b) (ba : Bounded a) (bb : Bounded b) (h : encode a = encode b) (k : Bytes) :
    ∃ x, OptEquiv x (a.get k) ∧ OptEquiv x (b.get k) :=
  ⟨(canon a).get k, canon_equiv a ha k, by rw [encode_injective a b ha hb ba bb h]; exact canon_equiv b hb k⟩


/-- lists, strings and streams come back exactly (not only up to `ValEquiv`) -/
theorem canon_get_exact_partial (db : Db) (hi : Inv db) (k : Bytes) (e : Entry) (h : db.get k = some e)
    (hv : match e.val with | .str _ | .list _ | .stream _ _ => True | _ => False) : (canon db).get k = some e := by
  rw [canon_get db hi.1 k, h]
  obtain ⟨v, dl⟩ := e
  cases v <;> first | rfl | exact hv.elim

/-- every command of `Exec.cmdTable` answers the same on the restored keyspace as on the original one (after `canonReply`, which sorts
    the replies whose order depends on Go map iteration), in every environment (checker mode and prediction mode).
    PROVED: `Snap.commands_agree` (`Props/Equiv.lean`), from the congruence of every executor under `ValEquiv`
    (`Exec.Equiv.exec_respects_equiv`).  The first version of the model refuted it (HRANDFIELD's default answer was a prefix of the
    stored field list); the default was canonicalised (`Exec.hrandDefault`). -/
def commands_agree_statement : Prop :=
  ∀ (env : Exec.Env) (db : Db) (args : List Bytes), Inv db → Bounded db →
    Exec.replyAgrees (Exec.canonReply (Exec.lower (args.headD [])) (Exec.exec env (canon db) args).1)
      (Exec.canonReply (Exec.lower (args.headD [])) (Exec.exec env db args).1) = true

/-! ### the hypotheses are satisfiable -/

/-- one value of each kind: an empty string, a list, a set with a deadline, a hash with an empty value, a sorted set with a score tie
    and ±inf, a stream with one entry -/
def exTree : ZT.T := zbuild [([98], 5), ([97], 5), ([99], ZT.keyNegInf), ([], ZT.keyInf)]
def exDb : Db := [
  ([115], { val := .str [] }), ([108], { val := .list [[1], []] }), ([116], { val := .set [[2], [1]], exp := some 9 }),
  ([104], { val := .hash [([102], [])] }), ([122], { val := .zset exTree, exp := some (-3) }),
  ([120], { val := .stream [⟨⟨3, 4⟩, [[1], [2]]⟩] ⟨3, 4⟩ })]

theorem exDb_inv : Inv exDb := by
  refine (Exec.Global.inv_iff_mem exDb).mpr ⟨by unfold Exec.Db.WF; decide, ?_⟩
  intro p hp
  simp only [exDb, List.mem_cons, List.mem_nil_iff, or_false] at hp
  rcases hp with rfl | rfl | rfl | rfl | rfl | rfl
  · trivial
  · show [[1], []] ≠ []; decide
  · show [[2], [1]].Nodup ∧ [[2], [1]] ≠ []; decide
  · exact ⟨by unfold HashSel.Ok; decide, by decide⟩
  · exact ⟨zbuild_inv (by decide), by decide⟩
  · refine ⟨by unfold Exec.Sorted; simp, fun e he => ?_⟩
    simp at he; subst he; unfold StreamId.le; simp

theorem exDb_bounded : Bounded exDb := by unfold Bounded; decide

example : decode (encode exDb) = some (canon exDb) := decode_encode exDb exDb_inv exDb_bounded
example : ∀ k, OptEquiv ((canon exDb).get k) (exDb.get k) := canon_equiv exDb exDb_inv

/-- the range hypothesis is not trivially true: a stream ID beyond `uint64` (which Go cannot hold) violates it -/
example : ¬ Bounded [([120], { val := .stream [] ⟨2 ^ 64, 0⟩ })] := by unfold Bounded; decide


end Snap

#print axioms Snap.base64_roundtrip
#print axioms Snap.decode_encode_raw
#print axioms Snap.decode_encode
#print axioms Snap.canon_equiv
#print axioms Snap.snapshot_roundtrip_observable
#print axioms Snap.encode_canon
#print axioms Snap.encode_deterministic
#print axioms Snap.encode_injective
#print axioms Snap.encode_injective_on_canon
#print axioms Snap.same_bytes_same_keyspace
#print axioms Snap.canon_get_exact_partial
#print axioms Snap.exDb_inv
#print axioms Snap.exDb_bounded
