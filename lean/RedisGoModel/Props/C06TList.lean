import RedisGoModel.Props.C06TBase
/-! C06 table congruence: list commands -/
namespace Exec.C06T
open Resp (Reply Bytes)
open Exec

theorem c_pushGen (left xOnly : Bool) : CmdOk (pushGen left xOnly) := by
  intro env a b args hs; unfold pushGen; c06_cmd1 hs
theorem c_lpush : CmdOk cmdLPush := c_pushGen _ _
theorem c_rpush : CmdOk cmdRPush := c_pushGen _ _
theorem c_lpushx : CmdOk cmdLPushX := c_pushGen _ _
theorem c_rpushx : CmdOk cmdRPushX := c_pushGen _ _

theorem c_popGen (left : Bool) : CmdOk (popGen left) := by
  intro env a b args hs; unfold popGen; dsimp only; c06_cmd1 hs
theorem c_lpop : CmdOk cmdLPop := c_popGen _
theorem c_rpop : CmdOk cmdRPop := c_popGen _

theorem c_llen : CmdOk cmdLLen := by
  intro env a b args hs; unfold cmdLLen; c06_cmd1 hs
theorem c_lindex : CmdOk cmdLIndex := by
  intro env a b args hs; unfold cmdLIndex; c06_cmd1 hs
theorem c_lset : CmdOk cmdLSet := by
  intro env a b args hs; unfold cmdLSet; c06_cmd1 hs
theorem c_lrange : CmdOk cmdLRange := by
  intro env a b args hs; unfold cmdLRange; c06_cmd1 hs
theorem c_ltrim : CmdOk cmdLTrim := by
  intro env a b args hs; unfold cmdLTrim; c06_cmd1 hs
theorem c_lrem : CmdOk cmdLRem := by
  intro env a b args hs; unfold cmdLRem; c06_cmd1 hs
theorem c_lpos : CmdOk cmdLPos := by
  intro env a b args hs; unfold cmdLPos; c06_cmd1 hs

theorem c_lmove : CmdOk cmdLMove := by
  intro env a b args hs; unfold cmdLMove; split
  · rename_i src dst wf wt
    split
    · obtain ⟨a1, b1, x1, y1, hca1, hcb1, hs1, hk1, -⟩ := Sim.ttl hs src
      obtain ⟨a2, b2, x2, y2, hca2, hcb2, hs2, hk2, hkeep2⟩ := Sim.ttl hs1 dst
      have hsrc := hkeep2 src hk1
      simp only [hca1, hcb1, hca2, hcb2, getList_congr hsrc, getList_congr hk2]
      repeat' (first | c06_pair | split)
    · c06_pair
  · c06_pair

theorem c_bpopScan (left : Bool) (now : Int) (ks : List Bytes) : ∀ (a b : Db), Sim now a b →
    (bpopScan left now a ks).1 = (bpopScan left now b ks).1 ∧ Sim now (bpopScan left now a ks).2 (bpopScan left now b ks).2 := by
  induction ks with
  | nil => intro a b hs; exact ⟨rfl, hs⟩
  | cons k ks ih =>
    intro a b hs
    unfold bpopScan
    c06_ttl hs k
    split
    · exact ih _ _ ‹_›
    · exact ⟨rfl, ‹_›⟩
    · split
      · exact ih _ _ ‹_›
      · exact ⟨rfl, by c06_sim⟩

theorem c_bpopGen (left : Bool) : CmdOk (bpopGen left) := by
  intro env a b args hs; unfold bpopGen; split
  · split
    · rename_i k1 ksRev _
      split
      · c06_pair
      · split
        · c06_pair
        · split
          · c06_pair
          · have h := c_bpopScan left env.now (k1 :: ksRev).reverse a b hs
            revert h
            generalize bpopScan left env.now a (k1 :: ksRev).reverse = pa
            generalize bpopScan left env.now b (k1 :: ksRev).reverse = pb
            intro h
            obtain ⟨ra, da⟩ := pa
            obtain ⟨rb, db⟩ := pb
            simp only at h
            obtain ⟨h1, h2⟩ := h
            subst h1
            cases ra with
            | none => dsimp only; split <;> c06_pair
            | some r => dsimp only; c06_pair
    · c06_pair
  · c06_pair
theorem c_blpop : CmdOk cmdBLPop := c_bpopGen _
theorem c_brpop : CmdOk cmdBRPop := c_bpopGen _

end Exec.C06T
