import RedisGoModel.Props.C06Table
import RedisGoModel.Props.C09
import RedisGoModel.Props.C10
import RedisGoModel.Props.C11
import RedisGoModel.Props.C12Cmd
import RedisGoModel.Props.C18
/-! # The keyspace invariant of the whole command table — definitions and the frame calculus

`Inv db`: keys are unique (`Db.WF`) and every stored value is *good* (`GoodValue`): a list is not empty; a set is duplicate-free and
not empty; a hash has unique fields and is not empty; a sorted set is a valid AVL tree with a consistent member index (`ZT.Inv`)
and is not empty; a stream is strictly increasing in ID and bounded by its recorded last ID; strings are unrestricted.

Each family file proves its own part for its own command table (`list_never_empty`, `hash_commands_preserve_inv`,
`C11.set_never_empty`, `cmdZAdd_inv` …, `cmdXAdd_ok` …).  What was missing is the *cross-family* part: that a command of family F
cannot leave behind a bad value of another family's type.  That is the frame property `Fr P a b` proved here for every command:
every entry physically present in the resulting keyspace `b` either carries a value of F's own kind (`P`) or carries a value that
was already present in the keyspace `a` the command started from (possibly under another key — RENAME — or with another deadline —
EXPIRE, PERSIST).  The calculus below is in chain form (`Fr P a b → Fr P a (b.del k)` …) so that a tactic can follow the writes
of an executor from the inside out. -/
namespace Exec.Global
open Resp (Reply Bytes)
open Exec

/-! ### the invariant -/

/-- non-emptiness alone: "a list/hash/set/sorted set that becomes empty ceases to exist" -/
def NonEmptyValue : Value → Prop
| .str _ => True
| .list l => l ≠ []
| .set s => s ≠ []
| .hash h => h ≠ []
| .zset t => t ≠ .nil ∧ ZT.members t ≠ []
| .stream _ _ => True

/-- non-emptiness plus the family-specific well-formedness -/
def GoodValue : Value → Prop
| .str _ => True
| .list l => l ≠ []
| .set s => s.Nodup ∧ s ≠ []
| .hash h => HashSel.Ok h ∧ h ≠ []
| .zset t => ZT.Inv t ∧ t ≠ .nil
| .stream s last => StreamOk s last

theorem GoodValue.nonEmpty : ∀ {v : Value}, GoodValue v → NonEmptyValue v
| .str _, _ => trivial
| .list _, h => h
| .set _, h => h.2
| .hash _, h => h.2
| .zset t, h => ⟨h.2, fun e => h.2 (ZT.members_nil_iff t e h.1)⟩
| .stream _ _, _ => trivial

/-- the global invariant -/
def Inv (db : Db) : Prop := db.WF ∧ ∀ k e, db.get k = some e → GoodValue e.val

/-! ### physical membership vs lookup -/

theorem mem_of_get {db : Db} {k : Bytes} {e : Entry} (h : db.get k = some e) : (k, e) ∈ db := by
  unfold Db.get at h
  obtain ⟨p, hp, rfl⟩ := Option.map_eq_some_iff.mp h
  have h1 := List.find?_some hp
  have h2 := List.mem_of_find?_eq_some hp
  have : p.1 = k := by simpa using h1
  subst this
  exact h2

theorem get_of_mem : ∀ {db : Db}, db.WF → ∀ {k : Bytes} {e : Entry}, (k, e) ∈ db → db.get k = some e
| [], _, _, _, h => nomatch h
| p :: db, hw, k, e, h => by
  have hw' : p.1 ∉ db.map (·.1) ∧ Db.WF db := by
    unfold Db.WF at hw; rw [List.map_cons, List.nodup_cons] at hw; exact hw
  rw [Db.get_cons]
  rcases List.mem_cons.mp h with h | h
  · subst h; simp
  · have hk : k ∈ db.map (·.1) := List.mem_map.mpr ⟨(k, e), h, rfl⟩
    have : ¬ p.1 = k := fun e => hw'.1 (e ▸ hk)
    rw [if_neg this]
    exact get_of_mem hw'.2 h

/-- the invariant on physical entries -/
theorem inv_iff_mem (db : Db) : Inv db ↔ db.WF ∧ ∀ p ∈ db, GoodValue p.2.val := by
  constructor
  · rintro ⟨hw, h⟩
    exact ⟨hw, fun p hp => h p.1 p.2 (get_of_mem hw hp)⟩
  · rintro ⟨hw, h⟩
    exact ⟨hw, fun k e he => h (k, e) (mem_of_get he)⟩

theorem inv_nil : Inv [] := ⟨Db.wf_nil, fun k e h => by simp [Db.get] at h⟩

/-! ### kinds -/

def IsStr : Value → Prop | .str _ => True | _ => False
def IsList : Value → Prop | .list _ => True | _ => False
def IsSet : Value → Prop | .set _ => True | _ => False
def IsHash : Value → Prop | .hash _ => True | _ => False
def IsZSet : Value → Prop | .zset _ => True | _ => False
def IsStream : Value → Prop | .stream _ _ => True | _ => False
def IsNone : Value → Prop := fun _ => False

/-! ### the frame relation -/

/-- every entry of `b` carries a `P`-value or a value already present in `a` -/
def Fr (P : Value → Prop) (a b : Db) : Prop := ∀ p ∈ b, P p.2.val ∨ ∃ q ∈ a, q.2.val = p.2.val

theorem Fr.refl (P : Value → Prop) (a : Db) : Fr P a a := fun p hp => Or.inr ⟨p, hp, rfl⟩

theorem Fr.mono {P Q : Value → Prop} {a b : Db} (h : Fr P a b) (hpq : ∀ v, P v → Q v) : Fr Q a b := fun p hp =>
  (h p hp).imp (hpq _) id

theorem Fr.sub {P : Value → Prop} {a b c : Db} (h : Fr P a b) (hs : ∀ p ∈ c, p ∈ b) : Fr P a c := fun p hp => h p (hs p hp)

theorem Fr.del {P : Value → Prop} {a b : Db} (h : Fr P a b) (k : Bytes) : Fr P a (b.del k) :=
  h.sub fun _ hp => (List.mem_filter.mp hp).1

theorem Fr.live {P : Value → Prop} {a b : Db} (h : Fr P a b) (now : Int) : Fr P a (live b now) :=
  h.sub fun _ hp => (List.mem_filter.mp hp).1

theorem Fr.put {P : Value → Prop} {a b : Db} (h : Fr P a b) (k : Bytes) {e : Entry} (he : P e.val) : Fr P a (b.put k e) := by
  intro p hp
  rcases List.mem_cons.mp hp with rfl | hp
  · exact Or.inl he
  · exact h.del k p hp

theorem Fr.putOld {P : Value → Prop} {a b c : Db} (h : Fr P a b) (k : Bytes) {k' : Bytes} {e e' : Entry}
    (hc : Fr P a c) (hg : c.get k' = some e') (hv : e'.val = e.val) : Fr P a (b.put k e) := by
  intro p hp
  rcases List.mem_cons.mp hp with rfl | hp
  · have := hc (k', e') (mem_of_get hg)
    simpa [hv] using this
  · exact h.del k p hp

theorem Fr.setVal {P : Value → Prop} {a b : Db} (h : Fr P a b) (k : Bytes) {v : Value} (hv : P v) : Fr P a (b.setVal k v) :=
  h.put k hv

theorem Fr.setFresh {P : Value → Prop} {a b : Db} (h : Fr P a b) (k : Bytes) {v : Value} (hv : P v) : Fr P a (b.setFresh k v) :=
  h.put k hv

theorem Fr.ttl {P : Value → Prop} {a b : Db} (h : Fr P a b) (now : Int) (k : Bytes) : Fr P a (checkTTL b now k).1 := by
  rcases checkTTL_cases b now k with e | e <;> rw [e]
  · exact h
  · exact h.del k

/-- a pattern-bound result: `x = (b', r)` produced by `split` on `let (db, _) := …` -/
theorem Fr.ofEqFst {P : Value → Prop} {β : Type} {a b' : Db} {x : Db × β} {r : β} (heq : x = (b', r)) (h : Fr P a x.1) : Fr P a b' := by
  subst heq; exact h

theorem Fr.ofEqSnd {P : Value → Prop} {β : Type} {a b' : Db} {x : β × Db} {r : β} (heq : x = (r, b')) (h : Fr P a x.2) : Fr P a b' := by
  subst heq; exact h

theorem Fr.putList {a b : Db} (h : Fr IsList a b) (k : Bytes) (l : List Bytes) : Fr IsList a (putList b k l) := by
  unfold Exec.putList; split
  · exact h.del k
  · exact h.setVal k trivial

theorem Fr.putHash {a b : Db} (h : Fr IsHash a b) (k : Bytes) (x : HashT) : Fr IsHash a (putHash b k x) := by
  unfold Exec.putHash; split
  · exact h.del k
  · exact h.setVal k trivial

theorem Fr.putSet {a b : Db} (h : Fr IsSet a b) (k : Bytes) (s : SetOps.MSet) : Fr IsSet a (putSet b k s) := by
  unfold Exec.putSet; split
  · exact h.del k
  · exact h.setVal k trivial

theorem Fr.storeSet {a b : Db} (h : Fr IsSet a b) (k : Bytes) (s : SetOps.MSet) : Fr IsSet a (storeSet b k s) := by
  unfold Exec.storeSet; split
  · exact h.del k
  · exact h.setFresh k trivial

theorem Fr.checkAll {P : Value → Prop} {a : Db} (now : Int) : ∀ (keys : List Bytes) {b : Db}, Fr P a b → Fr P a (checkAll now b keys)
| [], _, h => h
| k :: ks, _, h => by
  unfold Exec.checkAll; rw [List.foldl_cons]
  exact Fr.checkAll now ks (h.ttl now k)

/-- closes `Fr P a X` for `X` built from the write primitives on top of a keyspace already related to `a` -/
syntax "fr_close" : tactic
macro_rules | `(tactic| fr_close) => `(tactic| first
  | exact Fr.refl _ _
  | assumption
  | (refine Fr.ofEqFst (by assumption) ?_; fr_close)
  | (refine Fr.ofEqSnd (by assumption) ?_; fr_close)
  | (refine Fr.ttl ?_ _ _; fr_close)
  | (refine Fr.del ?_ _; fr_close)
  | (refine Fr.setVal ?_ _ trivial; fr_close)
  | (refine Fr.setFresh ?_ _ trivial; fr_close)
  | (refine Fr.put ?_ _ trivial; fr_close)
  | (apply Fr.putOld; (case hg => assumption); (case hv => rfl); (case hc => fr_close); fr_close)
  | (refine Fr.putList ?_ _ _; fr_close)
  | (refine Fr.putHash ?_ _ _; fr_close)
  | (refine Fr.putSet ?_ _ _; fr_close)
  | (refine Fr.storeSet ?_ _ _; fr_close)
  | (refine Fr.checkAll _ _ ?_; fr_close)
  | (refine Fr.live ?_ _; fr_close))

/-- a whole executor: follow the control flow, close every leaf -/
macro "fr_cmd" : tactic => `(tactic| repeat' (first | fr_close | dsimp only | split))

abbrev CmdFr (P : Value → Prop) (c : Cmd) : Prop := ∀ (env : Env) (db : Db) (args : List Bytes), Fr P db (c env db args).2

end Exec.Global
