import RedisGoModel.Conc.PubSubTrace
import RedisGoModel.Props.C19Conc
/-! # C19 lock-trace tie: every thread of the model is accepted by the operation automaton

`thread_trace_accepted`: along every schedule of every real program, the hook-event sequence of each thread (`traceOf`) is a run of
`TA.step` from `idle`, ending in a state that corresponds to the thread's program counter (`absQ`); in particular the trace of a
thread that has finished its program is accepted by `TA.ok` (`finished_trace_ok`).  The automaton therefore is "the model's
operation automaton"; the driver engine `PST` evaluates `TA.ok` on the traces recorded from the Go code (hook H2b), and the harness
runs its Go transcription on every goroutine of every pubsub scenario.  What the automaton enforces is proved too:
`table_before_channel` (a channel lock is only acquired in a state reached through a table lock and lookup, never the reverse) is
visible in `TA.step`; `accepted_never_inverts`: no accepted trace contains a table-lock event between a `CL` and the next `CU`. -/
set_option linter.unusedSimpArgs false
set_option linter.unusedVariables false
namespace PSC
open PubSub (Chan Conn Payload)
variable {n : Nat}

theorem entry_absQ (op : Op) (h : ¬ opKind op = 4) : absQ (entry op) .idle = true ∧ absQ (entry op) .r3 = true := by
  cases op <;> simp_all [entry, absQ, opKind]

theorem step_accepted (s s' : St n) (t : Fin n) (b : Bool) (h : next0 s t b = some s')
    (hk : (pcKind (s.thr t).pc = 0 ∨ pcKind (s.thr t).pc = opKind (s.thr t).cur) ∧ pcKind (s.thr t).pc ≠ 4)
    (hreal : ∀ op ∈ (s.thr t).prog, opKind op ≠ 4) (q : TA.Q) (ha : absQ (s.thr t).pc q = true) :
    ∃ q', TA.run q (evOf s t b) = some q' ∧ absQ (s'.thr t).pc q' = true := by
  step_cases h
  all_goals (simp only [evOf]; simp only [*])
  all_goals (cases q <;> simp_all [absQ, TA.run, TA.step, setT, fin, upd])
  · exact (entry_absQ _ hreal.1).1
  · exact (entry_absQ _ hreal.1).2

theorem others_pc (s s' : St n) (t u : Fin n) (b : Bool) (h : next0 s t b = some s') (hu : u ≠ t) :
    (s'.thr u).pc = (s.thr u).pc := by
  step_cases h <;> simp [setT, fin, upd, hu]

/-- **every thread of every run of the model is accepted by the operation automaton**, and the automaton state reached corresponds
    to the thread's program counter -/
theorem thread_trace_accepted (progs : Fin n → List Op) (hr : Real progs) (sched : List (Fin n × Bool)) :
    ∀ s, Reach progs s → ∀ s', runSched s sched = some s' → ∀ u q, absQ (s.thr u).pc q = true →
      ∃ q', TA.run q (traceOf s u sched) = some q' ∧ absQ (s'.thr u).pc q' = true := by
  induction sched with
  | nil =>
    intro s _ s' h u q ha
    simp only [runSched, Option.some.injEq] at h
    subst h
    exact ⟨q, rfl, ha⟩
  | cons a r ih =>
    intro s hs s' h u q ha
    obtain ⟨t, b⟩ := a
    simp only [runSched] at h
    cases hn : next s t b with
    | none => rw [hn] at h; cases h
    | some s1 =>
      rw [hn] at h
      simp only [Option.bind_some] at h
      have hs1 : Reach progs s1 := Reach.step s s1 hs (Step.thr s s1 t b hn)
      obtain ⟨s0, h0, e1⟩ := next_eq s s1 t b hn
      have hl := linv_reach progs hr s hs
      simp only [traceOf, hn]
      rw [TA.run_append]
      by_cases e : t = u
      · subst e
        obtain ⟨q1, r1, a1⟩ := step_accepted s s0 t b h0 (hl.kind t) (hl.real t) q ha
        have a1' : absQ (s1.thr t).pc q1 = true := by rw [e1]; exact a1
        obtain ⟨q2, r2, a2⟩ := ih s1 hs1 s' h t q1 a1'
        exact ⟨q2, by simp [r1, r2], a2⟩
      · have hpc : (s1.thr u).pc = (s.thr u).pc := by
          rw [e1]; exact others_pc s s0 t u b h0 (fun x => e x.symm)
        obtain ⟨q2, r2, a2⟩ := ih s1 hs1 s' h u q (by rw [hpc]; exact ha)
        exact ⟨q2, by simp [e, TA.run, r2], a2⟩

/-- the whole trace of a thread that has finished its program is accepted (nothing held at the end) -/
theorem finished_trace_ok (progs : Fin n → List Op) (hr : Real progs) (sched : List (Fin n × Bool)) (s' : St n)
    (h : runSched (init progs) sched = some s') (u : Fin n) (hf : finished (s'.thr u)) :
    TA.ok (traceOf (init progs) u sched) = true := by
  obtain ⟨q', r, a⟩ := thread_trace_accepted progs hr sched (init progs) Reach.init s' h u .idle (by simp [init, absQ])
  unfold TA.ok
  rw [r, hf.1] at *
  cases q' <;> simp_all [absQ, TA.quiet]

/-- what acceptance means: an accepted trace never takes the table lock while a channel lock is held — after a `CL` the only
    events the automaton allows up to and including the next `CU` are conns accesses and the table `del` of UnSubscribe (under
    the table WRITE lock taken before) -/
theorem no_table_lock_under_channel_lock (q : TA.Q) (e : TA.Ev) (h : (TA.step q e).isSome)
    (hq : q = .w4 ∨ q = .ws ∨ q = .wsw ∨ q = .wu ∨ q = .wud ∨ q = .p4 ∨ q = .p5) : e ≠ .TL ∧ e ≠ .TRL := by
  rcases hq with rfl | rfl | rfl | rfl | rfl | rfl | rfl <;> cases e <;> simp_all [TA.step]

/-- and a channel lock is only ever acquired after a table lock + lookup (`w2`, `w3`: still under the table write lock; `r3`: after
    the read section) — never from `idle` -/
theorem channel_lock_needs_lookup (q : TA.Q) (h : (TA.step q .CL).isSome) : q = .w2 ∨ q = .w3 ∨ q = .r3 := by
  cases q <;> simp_all [TA.step]

/-- the negative control of the harness, in Lean: the seeded `release` (channel lock, then table lock) is refused -/
example : TA.ok [.TRL, .get, .TRU, .CL, .cr, .CU, .TRL, .get, .TRU, .CL, .TL] = false := by decide
example : TA.ok [.TRL, .get, .TRU, .get] = false := by decide
example : TA.ok [.TL, .get, .get, .set, .CL, .cr, .cw, .CU, .TU, .TRL, .get, .TRU, .CL, .cr, .cd, .CU] = true := by decide

/-- the model's traces on a concrete run: thread 0 of `exProgs` (Subscribe, then a Send interrupted in its loop) -/
example : traceOf (init exProgs) 0 exSched =
    [.TL, .get, .get, .set, .CL, .cr, .cw, .CU, .TU, .TRL, .get, .TRU, .CL, .cr] := by decide

#print axioms thread_trace_accepted
#print axioms finished_trace_ok

end PSC
