import RedisGoModel.Props.EquivBase
/-! Representation independence: list and stream commands.  A list value and a stream value are compared by equality
    (`Snap.ValEquiv`), so these executors read the same value on both sides. -/
namespace Exec.Equiv
open Resp (Reply Bytes)
open Exec

theorem e_pushGen (left xOnly : Bool) : CmdOk (pushGen left xOnly) := by
  intro env a b args hs; unfold pushGen; eq_cmd1 hs
theorem e_popGen (left : Bool) : CmdOk (popGen left) := by
  intro env a b args hs; unfold popGen; dsimp only; eq_cmd1 hs
theorem e_llen : CmdOk cmdLLen := by
  intro env a b args hs; unfold cmdLLen; eq_cmd1 hs
theorem e_lindex : CmdOk cmdLIndex := by
  intro env a b args hs; unfold cmdLIndex; eq_cmd1 hs
theorem e_lset : CmdOk cmdLSet := by
  intro env a b args hs; unfold cmdLSet; eq_cmd1 hs
theorem e_lrange : CmdOk cmdLRange := by
  intro env a b args hs; unfold cmdLRange; eq_cmd1 hs
theorem e_ltrim : CmdOk cmdLTrim := by
  intro env a b args hs; unfold cmdLTrim; eq_cmd1 hs
theorem e_lrem : CmdOk cmdLRem := by
  intro env a b args hs; unfold cmdLRem; eq_cmd1 hs
theorem e_lpos : CmdOk cmdLPos := by
  intro env a b args hs; unfold cmdLPos; eq_cmd1 hs

theorem e_lmove : CmdOk cmdLMove := by
  intro env a b args hs; unfold cmdLMove; split
  · rename_i src dst wf wt
    split
    · obtain ⟨a1, b1, x1, hca1, hcb1, hs1⟩ := Sim.ttl hs env.now src
      obtain ⟨a2, b2, x2, hca2, hcb2, hs2⟩ := Sim.ttl hs1 env.now dst
      have he2 := hs2.eqv
      simp only [hca1, hcb1, hca2, hcb2, getList_eq he2]
      repeat' (first | eq_pair | split)
    · eq_pair
  · eq_pair

theorem e_bpopScan (left : Bool) (now : Int) (ks : List Bytes) : ∀ (a b : Db), Sim a b →
    (bpopScan left now a ks).1 = (bpopScan left now b ks).1 ∧ DbEquiv (bpopScan left now a ks).2 (bpopScan left now b ks).2 := by
  induction ks with
  | nil => intro a b hs; exact ⟨rfl, hs.eqv⟩
  | cons k ks ih =>
    intro a b hs
    unfold bpopScan
    eq_ttl hs now k
    split
    · exact ih _ _ ‹_›
    · exact ⟨rfl, ‹_›⟩
    · split
      · exact ih _ _ ‹_›
      · exact ⟨rfl, by eq_sim⟩

theorem e_bpopGen (left : Bool) : CmdOk (bpopGen left) := by
  intro env a b args hs; unfold bpopGen; split
  · split
    · rename_i k1 ksRev _
      split
      · eq_pair
      · split
        · eq_pair
        · split
          · eq_pair
          · have h := e_bpopScan left env.now (k1 :: ksRev).reverse a b hs
            revert h
            generalize bpopScan left env.now a (k1 :: ksRev).reverse = pa
            generalize bpopScan left env.now b (k1 :: ksRev).reverse = pb
            intro h
            obtain ⟨ra, da⟩ := pa
            obtain ⟨rb, db⟩ := pb
            simp only at h
            obtain ⟨h1, h2⟩ := h
            subst h1
            cases ra with
            | none => dsimp only; split <;> eq_pair
            | some r => dsimp only; eq_pair
    · eq_pair
  · eq_pair

theorem list_ok : ∀ p ∈ listTable, CmdOk p.2 :=
  List.forall_mem_cons.mpr ⟨e_llen, List.forall_mem_cons.mpr ⟨e_lindex, List.forall_mem_cons.mpr ⟨e_lpos, List.forall_mem_cons.mpr ⟨e_popGen _, List.forall_mem_cons.mpr ⟨e_popGen _, List.forall_mem_cons.mpr ⟨e_pushGen _ _, List.forall_mem_cons.mpr ⟨e_pushGen _ _, List.forall_mem_cons.mpr ⟨e_pushGen _ _, List.forall_mem_cons.mpr ⟨e_pushGen _ _, List.forall_mem_cons.mpr ⟨e_lset, List.forall_mem_cons.mpr ⟨e_lrem, List.forall_mem_cons.mpr ⟨e_ltrim, List.forall_mem_cons.mpr ⟨e_lrange, List.forall_mem_cons.mpr ⟨e_lmove, List.forall_mem_cons.mpr ⟨e_bpopGen _, List.forall_mem_cons.mpr ⟨e_bpopGen _, fun _ h => nomatch h⟩⟩⟩⟩⟩⟩⟩⟩⟩⟩⟩⟩⟩⟩⟩⟩

/-! ### streams -/

theorem e_xaddTo (env : Env) (a b : Db) (k : Bytes) (o : XaddOpts) (req : IdReq) (fields : List Bytes) (s : List StreamEntry)
    (last : StreamId) (he : DbEquiv a b) : Res (xaddTo env a k o req fields s last) (xaddTo env b k o req fields s last) := by
  unfold xaddTo
  repeat' (first | eq_pair | split)

theorem e_xadd : CmdOk cmdXAdd := by
  intro env a b args hs; unfold cmdXAdd
  repeat' (first | eq_pair | exact e_xaddTo _ _ _ _ _ _ _ _ _ ‹_› | eq_auto_ttl hs | split)

theorem e_xrange : CmdOk cmdXRange := by
  intro env a b args hs; unfold cmdXRange; eq_cmd1 hs

theorem stream_ok : ∀ p ∈ streamTable, CmdOk p.2 :=
  List.forall_mem_cons.mpr ⟨e_xadd, List.forall_mem_cons.mpr ⟨e_xrange, fun _ h => nomatch h⟩⟩

end Exec.Equiv
