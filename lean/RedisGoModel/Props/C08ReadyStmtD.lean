import RedisGoModel.Props.C08ReadyStmtC
/-! Preservation of `Inv`: transport.Send, publishEntries.  Core Lean only. -/
namespace ReadyLoop

variable {c : Cfg} {s : State} {rest : List Stmt}

theorem replay_inj {d : Disk} {k : Nat} {v v' : View} (h : replay d k = some v) (h' : replay d k = some v') : v' = v := by
  rw [h] at h'; exact (Option.some.inj h').symm

theorem inv_send (h : Inv c s) (ht : s.todo = .send :: rest) : Inv c { exec c s .send with todo := rest } := by
  have hr := tails_eq (ht ▸ h.suf); subst hr
  have hw : Stmt.walWrite ∉ s.todo := by rw [ht]; decide
  have hp := h.post hw (by rw [ht]; simp)
  have htn := trig_none h (by rw [ht]; decide)
  have hset : Settled s := settled_late (by rw [ht]; decide) (by rw [ht]; decide)
  have eL : L s = s.node := by unfold L; rw [if_neg (fun hc => absurd hc.2 (by rw [ht]; decide))]
  have eP : lastP s = s.node.last := by unfold lastP; rw [if_neg (fun hc => absurd hc.2 (by rw [ht]; decide)), eL]
  have hmsgs := hp.sendF (by rw [ht]; decide)
  rw [eP] at hmsgs
  have h1 : Inv c { s with disk := s.disk, todo := after .send } :=
    inv_grow (s := s) h ht (by decide) (by decide) (by decide) (fun _ => ⟨by decide, by decide⟩)
      (fun _ => by decide) (fun sn hsn => by rw [htn] at hsn; cases hsn) (DiskGrows.rfl' _) (fun hc => absurd hc (by decide))
  let o' : List Promise := s.owed ++ s.rd.msgs.flatMap (promisesOf c.self s.node)
  show Inv c { s with disk := s.disk, todo := after .send, owed := o', sent := s.sent ++ s.rd.msgs, published := s.published, pubSnaps := s.pubSnaps }
  refine inv_owe (s := { s with disk := s.disk, todo := after .send }) o' _ _ _ h1 (by tdec) ?_ ?_
  · intro p hpm
    rcases List.mem_append.mp hpm with hpm | hpm
    · left; exact hpm
    right
    obtain ⟨m, hm, hpm⟩ := List.mem_flatMap.mp hpm
    intro k v hv
    obtain ⟨v', hv', hI⟩ := h.imgs hset k
    have := replay_inj (show replay s.disk k = some v from hv) hv'
    subst this
    have hok := hmsgs m hm
    have hc : Cover v' s.node := by have := hI.2.2.1; rw [eL] at this; exact this
    obtain ⟨hterm, hvote, _⟩ := hI
    cases m with
    | voteReq t =>
      simp only [MsgOk] at hok
      simp only [promisesOf, List.mem_cons, List.mem_nil_iff, or_false] at hpm
      rcases hpm with rfl | rfl
      · show t ≤ v'.hs.term; omega
      · show t < v'.hs.term ∨ (v'.hs.term = t ∧ v'.hs.vote = c.self); right; omega
    | voteResp t to rej =>
      cases rej with
      | false =>
        simp only [MsgOk] at hok
        simp only [promisesOf, List.mem_cons, List.mem_nil_iff, or_false] at hpm
        rcases hpm with rfl | rfl
        · show t ≤ v'.hs.term; omega
        · show t < v'.hs.term ∨ (v'.hs.term = t ∧ v'.hs.vote = to); right; omega
      | true =>
        simp only [MsgOk] at hok
        simp only [promisesOf, List.mem_cons, List.mem_nil_iff, or_false] at hpm
        subst hpm
        show t ≤ v'.hs.term; omega
    | appResp t to i rej =>
      cases rej with
      | false =>
        simp only [MsgOk] at hok
        simp only [promisesOf, List.mem_append, List.mem_cons, List.mem_nil_iff, or_false, List.mem_map, List.mem_filter] at hpm
        rcases hpm with ((rfl | rfl) | ⟨e, ⟨he, _⟩, rfl⟩) | rfl
        · show t ≤ v'.hs.term; omega
        · show i ≤ v'.last; have := cover_reach hc; omega
        · exact cover_ent hc he
        · exact cover_snap hc
      | true =>
        simp only [MsgOk] at hok
        simp only [promisesOf, List.mem_cons, List.mem_nil_iff, or_false] at hpm
        subst hpm
        show t ≤ v'.hs.term; omega
    | other t =>
      simp only [MsgOk] at hok
      simp only [promisesOf, List.mem_cons, List.mem_nil_iff, or_false] at hpm
      subst hpm
      show t ≤ v'.hs.term; omega
  · intro t hc
    rcases List.mem_append.mp hc with hc | hc
    · exact h.novote0 t hc
    obtain ⟨m, hm, hpm⟩ := List.mem_flatMap.mp hc
    have hok := hmsgs m hm
    cases m with
    | voteReq t' =>
      simp only [MsgOk] at hok
      simp only [promisesOf, List.mem_cons, List.mem_nil_iff, or_false] at hpm
      rcases hpm with hpm | hpm
      · cases hpm
      · injection hpm with h1 h2; exact hok.2.2 h2.symm
    | voteResp t' to rej =>
      cases rej with
      | false =>
        simp only [MsgOk] at hok
        simp only [promisesOf, List.mem_cons, List.mem_nil_iff, or_false] at hpm
        rcases hpm with hpm | hpm
        · cases hpm
        · injection hpm with h1 h2; exact hok.2.2 h2.symm
      | true => simp [promisesOf] at hpm
    | appResp t' to i rej =>
      cases rej with
      | false => simp [promisesOf] at hpm
      | true => simp [promisesOf] at hpm
    | other t' => simp [promisesOf] at hpm

theorem entriesToApply_sub {l : List Entry} {a : Nat} {e : Entry} (h : e ∈ entriesToApply l a) : e ∈ l := by
  unfold entriesToApply at h
  cases l with
  | nil => simp at h
  | cons x xs =>
    simp only at h
    split at h
    · exact List.mem_of_mem_drop h
    · simp at h

theorem lastIndexOr_le {es : List Entry} {d cm : Nat} (h : ∀ e ∈ es, e.index ≤ cm) (hd : d ≤ cm) : lastIndexOr es d ≤ cm := by
  unfold lastIndexOr
  split
  · rename_i e he; exact h e (List.mem_of_getLast? he)
  · exact hd

theorem inv_publish (h : Inv c s) (ht : s.todo = .publish :: rest) : Inv c { exec c s .publish with todo := rest } := by
  have hr := tails_eq (ht ▸ h.suf); subst hr
  have hw : Stmt.walWrite ∉ s.todo := by rw [ht]; decide
  have hp := h.post hw (by rw [ht]; simp)
  have htn := trig_none h (by rw [ht]; decide)
  have hset : Settled s := settled_late (by rw [ht]; decide) (by rw [ht]; decide)
  have eL : L s = s.node := by unfold L; rw [if_neg (fun hc => absurd hc.2 (by rw [ht]; decide))]
  have hcomm := hp.pubF (by rw [ht]; decide)
  rw [eL] at hcomm
  by_cases hemp : (entriesToApply s.rd.committed s.node.applied).isEmpty = true
  · have hex : exec c s .publish = s := by simp [exec, hemp]
    rw [hex]
    exact inv_grow (s := s) h ht (by decide) (by decide) (by decide) (fun _ => ⟨by decide, by decide⟩)
      (fun _ => by decide) (fun sn hsn => by rw [htn] at hsn; cases hsn) (DiskGrows.rfl' _) (fun hc => absurd hc (by decide))
  let es := entriesToApply s.rd.committed s.node.applied
  let n' : Node := { s.node with applied := lastIndexOr es s.node.applied }
  let o' : List Promise := s.owed ++ es.map .ent
  have hex : exec c s .publish = { s with published := s.published ++ es, owed := o', node := n' } := by simp [exec, hemp, es, n', o']
  rw [hex]
  show Inv c { s with node := n', todo := after .publish, owed := o', sent := s.sent, published := s.published ++ es, pubSnaps := s.pubSnaps }
  have hes : ∀ e ∈ es, e ∈ s.node.ents ∧ e.index ≤ s.node.hs.commit := fun e he => hcomm e (entriesToApply_sub he)
  have eL' : L { s with node := n', todo := after .publish } = n' := by
    unfold L; rw [if_neg (fun hc => absurd hc.2 (by tdec))]
  have h1 : Inv c { s with node := n', todo := after .publish } := by
    refine inv_nodeT (s := s) n' h ht hw (by decide) rfl (fun _ => hset) ?_ ?_ ?_ ?_
    · intro b v hv
      have hc := hv.1
      rw [eL] at hc
      have hr3 : s.node.last ≤ v.last := cover_reach hc
      have hs3 : s.node.snapIndex ≤ v.snap.index := cover_snap hc
      refine ⟨?_, fun _ hsn => hv.2.1 hw hsn, fun sn hs2 => by rw [htn] at hs2; cases hs2⟩
      rw [eL']
      exact cover_intro (fun e he => cover_ent hc he) hr3 hs3
    · exact { contig := h.node.contig, offc := h.node.offc, appc := lastIndexOr_le (fun e he => (hes e he).2) h.node.appc, ws := h.node.ws }
    · intro _
      exact
        { snapc := hp.snapc
          appendF := fun hc => absurd hc (by tdec)
          sendF := fun hc => absurd hc (by tdec)
          pubF := fun hc => absurd hc (by tdec) }
    · intro sn hs2; exact absurd hs2 (by show s.node.trig ≠ some sn; rw [htn]; simp)
  refine inv_owe (s := { s with node := n', todo := after .publish }) o' _ _ _ h1 (by tdec) ?_ ?_
  · intro p hpm
    rcases List.mem_append.mp hpm with hpm | hpm
    · left; exact hpm
    right
    obtain ⟨e, he, rfl⟩ := List.mem_map.mp hpm
    intro k v hv
    obtain ⟨v', hv', hI⟩ := h.imgs hset k
    have := replay_inj (show replay s.disk k = some v from hv) hv'
    subst this
    have hc : Cover v' s.node := by have := hI.2.2.1; rw [eL] at this; exact this
    exact cover_ent hc (hes e he).1
  · intro t hc
    rcases List.mem_append.mp hc with hc | hc
    · exact h.novote0 t hc
    · simp at hc

end ReadyLoop
