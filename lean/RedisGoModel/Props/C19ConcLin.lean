import RedisGoModel.Props.C19Conc
/-! # C19, concurrent: linearizability of the Pub/Sub table — the simulation invariants

The model `Conc/PubSubConc.lean` carries a ghost linearization `lin` (see its header for the linearization points: Subscribe at
the join, UnSubscribe at the delete, a pruned connection as an `unsubscribe` at the prune, Send at the END of its delivery loop —
or, when its object was dropped between its lookup and its Lock(obj), at the dropping UnSubscribe's step: helping).  This file
proves, as invariants of every reachable state of every real program (`allinv_reach`):

* `RInv` — the subscription table of the sequential specification `PubSub.run (absLin lin)` IS the concrete table;
* `PInv` — where the program counter stands relative to the linearization point; a Send that looked object `o` up is linearized
  iff `o` is no longer the table entry of its channel (`fresh` / `stale`);
* `ZInv`, `WInv` — every linearized operation has its entry in `lin` at a position ≥ the length of `lin` at its invocation, and
  for a Send the ghost `exp` is the specification's count just before that position; every completed operation's record is
  `RecOk`: position inside [invLen, retLen), reply = the specification's count there (`spec_count_eq`: duplicate-free lists with
  the same members have the same length);
* `TInv` — the clock samples: returned-before-invoked implies retLen ≤ invLen (real-time order).

The theorems built from them are in `Props/C19ConcLog.lean`. -/
set_option linter.unusedSimpArgs false
set_option linter.unusedVariables false
namespace PSC
open PubSub (Chan Conn Payload)
variable {n : Nat}

/-! ### the sequential specification along an append-only linearization -/

theorem run_snoc (l : List PubSub.Op) (op : PubSub.Op) : PubSub.run (l ++ [op]) = PubSub.step (PubSub.run l) op := by
  simp [PubSub.run, List.foldl_append]

theorem absLin_append (a b : List (LinEv n)) : absLin (a ++ b) = absLin a ++ absLin b := by simp [absLin]

theorem run_inv (l : List PubSub.Op) : PubSub.Inv (PubSub.run l) l.reverse := by
  have := PubSub.inv_run l PubSub.init [] ⟨List.nodup_nil, fun _ _ => by simp [PubSub.init, PubSub.subscribed], fun _ => rfl⟩
  simpa [PubSub.run] using this

theorem kind1 (op : Op) (h : 1 = opKind op) : ∃ c ch, op = .subscribe c ch := by
  cases op <;> simp [opKind] at h
  exact ⟨_, _, rfl⟩
theorem kind2 (op : Op) (h : 2 = opKind op) : ∃ c ch, op = .unsubscribe c ch := by
  cases op <;> simp [opKind] at h
  exact ⟨_, _, rfl⟩
theorem kind3 (op : Op) (h : 3 = opKind op) : ∃ ch m, op = .send ch m := by
  cases op <;> simp [opKind] at h
  exact ⟨_, _, rfl⟩

def isPublish : PubSub.Op → Bool
| .publish _ _ => true
| _ => false

theorem run_publishes_subs (l2 : List PubSub.Op) : ∀ (l1 : List PubSub.Op), (∀ op ∈ l2, isPublish op = true) →
    (PubSub.run (l1 ++ l2)).subs = (PubSub.run l1).subs := by
  induction l2 with
  | nil => intro l1 _; simp
  | cons op l2 ih =>
    intro l1 h
    have hop := h op (by simp)
    have e : l1 ++ op :: l2 = (l1 ++ [op]) ++ l2 := by simp
    rw [e, ih (l1 ++ [op]) (fun o ho => h o (by simp [ho])), run_snoc]
    cases op <;> simp [isPublish] at hop
    simp [PubSub.step]

theorem stale_kind (o : Obj) (th : Thread) (h : staleOn o th = true) : pcKind th.pc = 3 := by
  unfold staleOn at h
  split at h <;> simp_all

/-- the abstraction relation: the specification's subscription table after the linearization so far is the concrete table -/
def RInv (s : St n) : Prop :=
  ∀ ch c, (ch, c) ∈ (PubSub.run (absLin s.lin)).subs ↔ ∃ o, s.table ch = some o ∧ c ∈ s.subs o

theorem helped_publishes (s : St n) (o : Obj) (hl : LInv s) : ∀ op ∈ absLin (helped s o), isPublish op = true := by
  intro op hop
  simp only [absLin, helped, List.map_map, List.mem_map, List.mem_filter, Function.comp] at hop
  obtain ⟨u, ⟨_, hst⟩, rfl⟩ := hop
  have hk := hl.kind u
  rw [stale_kind o _ hst] at hk
  obtain ⟨ch, m, e⟩ := kind3 _ (by simpa using hk.1)
  rw [e]; rfl

theorem absLin_single (e : LinEv n) : absLin [e] = [e.op] := rfl

/-- removing `cc` from the object of channel `cch` is the specification's `unsubscribe cc cch` -/
theorem rel_erase (table : Chan → Option Obj) (subs : Obj → List Conn) (och : Obj → Chan) (A : List (Chan × Conn))
    (hR : ∀ ch c, (ch, c) ∈ A ↔ ∃ o, table ch = some o ∧ c ∈ subs o) (cch : Chan) (cc : Conn) (o' : Obj)
    (htab : table cch = some o') (hnd : (subs o').Nodup) (hinj : ∀ ch o, table ch = some o → och o = ch) (ch : Chan) (c : Conn) :
    (ch, c) ∈ A.filter (fun p => p ≠ (cch, cc)) ↔ ∃ o, table ch = some o ∧ c ∈ upd subs o' ((subs o').erase cc) o := by
  rw [List.mem_filter, hR]
  by_cases e : ch = cch
  · subst e
    constructor
    · rintro ⟨⟨o, h1, h2⟩, hne⟩
      rw [htab] at h1; cases h1
      refine ⟨o', htab, ?_⟩
      simp only [upd, if_true]
      rw [hnd.mem_erase_iff]
      refine ⟨?_, h2⟩
      intro e; subst e; simp at hne
    · rintro ⟨o, h1, h2⟩
      rw [htab] at h1; cases h1
      simp only [upd, if_true] at h2
      rw [hnd.mem_erase_iff] at h2
      refine ⟨⟨o', htab, h2.2⟩, ?_⟩
      simp [h2.1]
  · have key : ∀ o, table ch = some o → o ≠ o' := by
      intro o h1 e2; subst e2
      exact e ((hinj ch o h1).symm.trans (hinj cch o htab))
    constructor
    · rintro ⟨⟨o, h1, h2⟩, _⟩
      exact ⟨o, h1, by simp [upd, key o h1, h2]⟩
    · rintro ⟨o, h1, h2⟩
      simp [upd, key o h1] at h2
      exact ⟨⟨o, h1, h2⟩, by simp [e]⟩

theorem rinv_next0 (s s' : St n) (t : Fin n) (b : Bool) (h : next0 s t b = some s') (hl : LInv s) (hi : SInv s) (hR : RInv s) :
    RInv s' := by
  have hk := hl.kind t
  have hheld := hi.held t
  have hhelp := helped_publishes s
  unfold RInv at hR ⊢
  intro ch c
  have hR' := hR ch c
  step_cases h
  all_goals (try (simp only [setT, fin]; exact hR'))
  all_goals simp only [setT, fin]
  · -- s1: create a fresh, empty object
    rename_i _ hpc _ htb
    rw [hR']
    by_cases e : ch = (s.thr t).cur.chan
    · subst e
      constructor
      · rintro ⟨o, h1, _⟩; rw [htb] at h1; cases h1
      · rintro ⟨o, h1, h2⟩
        simp [upd] at h1; subst h1; simp [upd] at h2
    · constructor
      · rintro ⟨o, h1, h2⟩
        have := hi.lt ch o h1
        exact ⟨o, by simp [upd, e, h1], by simp [upd, Nat.ne_of_lt this, h2]⟩
      · rintro ⟨o, h1, h2⟩
        simp [upd, e] at h1
        have := hi.lt ch o h1
        simp [upd, Nat.ne_of_lt this] at h2
        exact ⟨o, h1, h2⟩
  · -- s3: join, already a member
    rename_i _ o' hpc hmem
    rw [hpc] at hk hheld
    obtain ⟨cc, cch, hc⟩ := kind1 _ (by simpa using hk.1)
    rw [hc] at hheld hmem
    have hh := hheld o' rfl
    have hin : (cch, cc) ∈ (PubSub.run (absLin s.lin)).subs := (hR cch cc).2 ⟨o', hh, hmem⟩
    rw [absLin_append, absLin_single, run_snoc, hc]
    simp only [Op.abs, PubSub.step, hin, if_true]
    exact hR'
  · -- s3: join
    rename_i _ o' hpc hmem
    rw [hpc] at hk hheld
    obtain ⟨cc, cch, hc⟩ := kind1 _ (by simpa using hk.1)
    rw [hc] at hheld hmem
    have hh : s.table cch = some o' := hheld o' rfl
    have hin : (cch, cc) ∉ (PubSub.run (absLin s.lin)).subs := by
      intro hin
      obtain ⟨o, h1, h2⟩ := (hR cch cc).1 hin
      rw [hh] at h1; cases h1
      exact hmem h2
    rw [absLin_append, absLin_single, run_snoc, hc]
    simp only [Op.abs, Op.conn, PubSub.step, hin, if_false, List.mem_append, List.mem_singleton, Prod.mk.injEq]
    rw [hR']
    by_cases e : ch = cch
    · subst e
      constructor
      · rintro (⟨o, h1, h2⟩ | ⟨_, h2⟩)
        · rw [hh] at h1; cases h1
          exact ⟨o', hh, by simp [upd, h2]⟩
        · exact ⟨o', hh, by simp [upd, h2]⟩
      · rintro ⟨o, h1, h2⟩
        rw [hh] at h1; cases h1
        simp [upd] at h2
        rcases h2 with h2 | h2
        · exact Or.inl ⟨o', hh, h2⟩
        · exact Or.inr ⟨rfl, h2⟩
    · have key : ∀ o, s.table ch = some o → o ≠ o' := by
        intro o h1 e2; subst e2
        exact e ((hi.tab ch o h1).symm.trans (hi.tab cch o hh))
      constructor
      · rintro (⟨o, h1, h2⟩ | ⟨h1, _⟩)
        · exact ⟨o, h1, by simp [upd, key o h1, h2]⟩
        · exact absurd h1 e
      · rintro ⟨o, h1, h2⟩
        simp [upd, key o h1] at h2
        exact Or.inl ⟨o, h1, h2⟩
  · -- u1: the channel does not exist
    rename_i _ hpc _ htb
    rw [hpc] at hk
    obtain ⟨cc, cch, hc⟩ := kind2 _ (by simpa using hk.1)
    rw [hc] at htb
    rw [absLin_append, absLin_single, run_snoc, hc]
    simp only [Op.abs, PubSub.step, List.mem_filter]
    have hnot : (cch, cc) ∉ (PubSub.run (absLin s.lin)).subs := by
      intro hin
      obtain ⟨o, h1, _⟩ := (hR cch cc).1 hin
      simp only [Op.chan] at htb
      rw [htb] at h1; cases h1
    rw [← hR']
    constructor
    · exact fun h => h.1
    · intro h; refine ⟨h, ?_⟩
      simp only [ne_eq, decide_not, Bool.not_eq_true', decide_eq_false_iff_not]
      intro e; rw [e] at h; exact hnot h
  · -- u3: leave
    rename_i _ o' hpc
    rw [hpc] at hk hheld
    obtain ⟨cc, cch, hc⟩ := kind2 _ (by simpa using hk.1)
    rw [hc] at hheld
    have hh : s.table cch = some o' := hheld o' rfl
    rw [absLin_append, absLin_single, run_snoc, hc]
    simp only [Op.abs, Op.conn, PubSub.step]
    exact rel_erase s.table s.subs s.och _ hR cch cc o' hh (hi.nodup o') hi.tab ch c
  · -- u3d: drop the empty object; the stale Sends are linearized here
    rename_i _ o' hpc hemp
    rw [hpc] at hheld
    have hh := hheld o' rfl
    rw [absLin_append, run_publishes_subs _ _ (hhelp o' hl), hR']
    by_cases e : ch = (s.thr t).cur.chan
    · subst e
      constructor
      · rintro ⟨o, h1, h2⟩
        rw [hh] at h1; cases h1
        rw [hemp] at h2; cases h2
      · rintro ⟨o, h1, _⟩
        simp [upd] at h1
    · simp [upd, e]
  · -- p1: the channel does not exist; PUBLISH changes no subscription
    rename_i _ hpc _ htb
    rw [hpc] at hk
    obtain ⟨cch, m, hc⟩ := kind3 _ (by simpa using hk.1)
    rw [absLin_append, absLin_single, run_snoc, hc]
    simp only [Op.abs, PubSub.step]
    exact hR'
  · -- p4: prune a dead connection
    rename_i _ o' sent c0 todo hpc _ _
    have hk' := hk
    rw [hpc] at hk'
    obtain ⟨cch, m, hc⟩ := kind3 _ (by simpa using hk'.1)
    have hloop := hi.loop t o' sent (c0 :: todo) hpc
    have hne : s.subs o' ≠ [] := by rw [hloop]; simp
    have h1 : s.table (s.och o') = some o' := Classical.byContradiction fun hcon => hne (hi.dropped o' hcon)
    have h2 : s.och o' = cch := by
      have := hi.pcch t o' (by rw [hpc]; rfl)
      rw [hc] at this; exact this
    rw [h2] at h1
    rw [absLin_append, absLin_single, run_snoc, hc]
    simp only [Op.chan, PubSub.step]
    exact rel_erase s.table s.subs s.och _ hR cch c0 o' h1 (hi.nodup o') hi.tab ch c
  · -- p4: the end of the loop, the PUBLISH is linearized
    rename_i _ o' sent hpc _
    rw [hpc] at hk
    obtain ⟨cch, m, hc⟩ := kind3 _ (by simpa using hk.1)
    rw [absLin_append, absLin_single, run_snoc, hc]
    simp only [Op.abs, PubSub.step]
    exact hR'
  · rename_i _ o' hpc _
    rw [hpc] at hk
    simp at hk

/-! ### where the linearization point of the current operation lies -/

/-- before its own linearization point -/
def preLP : Pc → Bool
| .s0 | .s1 | .s2 _ | .s3 _ | .u0 | .u1 | .u2 _ | .u3 _ | .p0 | .p1 => true
| _ => false

/-- after it -/
def postLP : Pc → Bool
| .s4 _ | .s5 | .u3d _ | .u4 _ | .u5 => true
| _ => false

/-- a Send that has looked an object up: linearized iff the object has been dropped since -/
def sendObj : Pc → Option Obj
| .p2 r => r
| .p3 o | .p4 o _ _ => some o
| _ => none

@[simp] theorem preLP_idle : preLP .idle = false := rfl
@[simp] theorem postLP_idle : postLP .idle = false := rfl
@[simp] theorem sendObj_idle : sendObj .idle = none := rfl
@[simp] theorem preLP_s0 : preLP .s0 = true := rfl
@[simp] theorem postLP_s0 : postLP .s0 = false := rfl
@[simp] theorem sendObj_s0 : sendObj .s0 = none := rfl
@[simp] theorem preLP_s1 : preLP .s1 = true := rfl
@[simp] theorem postLP_s1 : postLP .s1 = false := rfl
@[simp] theorem sendObj_s1 : sendObj .s1 = none := rfl
@[simp] theorem preLP_s2 (o : _): preLP (.s2 o) = true := rfl
@[simp] theorem postLP_s2 (o : _): postLP (.s2 o) = false := rfl
@[simp] theorem sendObj_s2 (o : _): sendObj (.s2 o) = none := rfl
@[simp] theorem preLP_s3 (o : _): preLP (.s3 o) = true := rfl
@[simp] theorem postLP_s3 (o : _): postLP (.s3 o) = false := rfl
@[simp] theorem sendObj_s3 (o : _): sendObj (.s3 o) = none := rfl
@[simp] theorem preLP_s4 (o : _): preLP (.s4 o) = false := rfl
@[simp] theorem postLP_s4 (o : _): postLP (.s4 o) = true := rfl
@[simp] theorem sendObj_s4 (o : _): sendObj (.s4 o) = none := rfl
@[simp] theorem preLP_s5 : preLP .s5 = false := rfl
@[simp] theorem postLP_s5 : postLP .s5 = true := rfl
@[simp] theorem sendObj_s5 : sendObj .s5 = none := rfl
@[simp] theorem preLP_u0 : preLP .u0 = true := rfl
@[simp] theorem postLP_u0 : postLP .u0 = false := rfl
@[simp] theorem sendObj_u0 : sendObj .u0 = none := rfl
@[simp] theorem preLP_u1 : preLP .u1 = true := rfl
@[simp] theorem postLP_u1 : postLP .u1 = false := rfl
@[simp] theorem sendObj_u1 : sendObj .u1 = none := rfl
@[simp] theorem preLP_u2 (o : _): preLP (.u2 o) = true := rfl
@[simp] theorem postLP_u2 (o : _): postLP (.u2 o) = false := rfl
@[simp] theorem sendObj_u2 (o : _): sendObj (.u2 o) = none := rfl
@[simp] theorem preLP_u3 (o : _): preLP (.u3 o) = true := rfl
@[simp] theorem postLP_u3 (o : _): postLP (.u3 o) = false := rfl
@[simp] theorem sendObj_u3 (o : _): sendObj (.u3 o) = none := rfl
@[simp] theorem preLP_u3d (o : _): preLP (.u3d o) = false := rfl
@[simp] theorem postLP_u3d (o : _): postLP (.u3d o) = true := rfl
@[simp] theorem sendObj_u3d (o : _): sendObj (.u3d o) = none := rfl
@[simp] theorem preLP_u4 (o : _): preLP (.u4 o) = false := rfl
@[simp] theorem postLP_u4 (o : _): postLP (.u4 o) = true := rfl
@[simp] theorem sendObj_u4 (o : _): sendObj (.u4 o) = none := rfl
@[simp] theorem preLP_u5 : preLP .u5 = false := rfl
@[simp] theorem postLP_u5 : postLP .u5 = true := rfl
@[simp] theorem sendObj_u5 : sendObj .u5 = none := rfl
@[simp] theorem preLP_p0 : preLP .p0 = true := rfl
@[simp] theorem postLP_p0 : postLP .p0 = false := rfl
@[simp] theorem sendObj_p0 : sendObj .p0 = none := rfl
@[simp] theorem preLP_p1 : preLP .p1 = true := rfl
@[simp] theorem postLP_p1 : postLP .p1 = false := rfl
@[simp] theorem sendObj_p1 : sendObj .p1 = none := rfl
@[simp] theorem preLP_p2 (r : _): preLP (.p2 r) = false := rfl
@[simp] theorem postLP_p2 (r : _): postLP (.p2 r) = false := rfl
@[simp] theorem sendObj_p2 (r : _): sendObj (.p2 r) = r := rfl
@[simp] theorem preLP_p3 (o : _): preLP (.p3 o) = false := rfl
@[simp] theorem postLP_p3 (o : _): postLP (.p3 o) = false := rfl
@[simp] theorem sendObj_p3 (o : _): sendObj (.p3 o) = some o := rfl
@[simp] theorem preLP_p4 (o : _) (a : _) (b : _): preLP (.p4 o a b) = false := rfl
@[simp] theorem postLP_p4 (o : _) (a : _) (b : _): postLP (.p4 o a b) = false := rfl
@[simp] theorem sendObj_p4 (o : _) (a : _) (b : _): sendObj (.p4 o a b) = some o := rfl
@[simp] theorem preLP_r0 : preLP .r0 = false := rfl
@[simp] theorem postLP_r0 : postLP .r0 = false := rfl
@[simp] theorem sendObj_r0 : sendObj .r0 = none := rfl
@[simp] theorem preLP_r1 : preLP .r1 = false := rfl
@[simp] theorem postLP_r1 : postLP .r1 = false := rfl
@[simp] theorem sendObj_r1 : sendObj .r1 = none := rfl
@[simp] theorem preLP_r2 (r : _): preLP (.r2 r) = false := rfl
@[simp] theorem postLP_r2 (r : _): postLP (.r2 r) = false := rfl
@[simp] theorem sendObj_r2 (r : _): sendObj (.r2 r) = none := rfl
@[simp] theorem preLP_r3 (o : _): preLP (.r3 o) = false := rfl
@[simp] theorem postLP_r3 (o : _): postLP (.r3 o) = false := rfl
@[simp] theorem sendObj_r3 (o : _): sendObj (.r3 o) = none := rfl
@[simp] theorem preLP_r4 (o : _): preLP (.r4 o) = false := rfl
@[simp] theorem postLP_r4 (o : _): postLP (.r4 o) = false := rfl
@[simp] theorem sendObj_r4 (o : _): sendObj (.r4 o) = none := rfl
@[simp] theorem preLP_r5 (o : _): preLP (.r5 o) = false := rfl
@[simp] theorem postLP_r5 (o : _): postLP (.r5 o) = false := rfl
@[simp] theorem sendObj_r5 (o : _): sendObj (.r5 o) = none := rfl
@[simp] theorem preLP_r6 (o : _): preLP (.r6 o) = false := rfl
@[simp] theorem postLP_r6 (o : _): postLP (.r6 o) = false := rfl
@[simp] theorem sendObj_r6 (o : _): sendObj (.r6 o) = none := rfl
@[simp] theorem preLP_r7 (o : _): preLP (.r7 o) = false := rfl
@[simp] theorem postLP_r7 (o : _): postLP (.r7 o) = false := rfl
@[simp] theorem sendObj_r7 (o : _): sendObj (.r7 o) = none := rfl

@[simp] theorem entry_preLP (op : Op) (h : opKind op ≠ 4) : preLP (entry op) = true := by cases op <;> simp_all [entry, opKind]
@[simp] theorem entry_postLP (op : Op) : postLP (entry op) = false := by cases op <;> rfl
@[simp] theorem entry_sendObj (op : Op) : sendObj (entry op) = none := by cases op <;> rfl

@[simp] theorem entry_ne_p2 (op : Op) (r : Option Obj) : (entry op = Pc.p2 r) = False := by cases op <;> simp [entry]

theorem sendObj_pcObj (pc : Pc) (o : Obj) (h : sendObj pc = some o) : pcObj pc = some o := by cases pc <;> simp_all
theorem sendObj_stale (pc : Pc) (o : Obj) (th : Thread) (h : th.pc = pc) (h2 : staleOn o th = true) : sendObj pc = some o := by
  subst h
  unfold staleOn at h2
  split at h2 <;> simp_all

structure PInv (s : St n) : Prop where
  pre : ∀ u, preLP (s.thr u).pc = true → (s.thr u).lpd = false
  post : ∀ u, postLP (s.thr u).pc = true → (s.thr u).lpd = true
  none0 : ∀ u, (s.thr u).pc = .p2 none → (s.thr u).lpd = true
  fresh : ∀ u o, sendObj (s.thr u).pc = some o → (s.thr u).lpd = false → s.table (s.thr u).cur.chan = some o
  stale : ∀ u o, sendObj (s.thr u).pc = some o → (s.thr u).lpd = true → s.table (s.thr u).cur.chan ≠ some o

theorem pinv_pre (s s' : St n) (t : Fin n) (b : Bool) (h : next0 s t b = some s') (hl : LInv s) (hp : PInv s) :
    (∀ u, preLP (s'.thr u).pc = true → (s'.thr u).lpd = false) ∧ (∀ u, postLP (s'.thr u).pc = true → (s'.thr u).lpd = true) ∧
    (∀ u, (s'.thr u).pc = .p2 none → (s'.thr u).lpd = true) := by
  have hk := hl.kind t
  have hreal := hl.real t
  have h1 := hp.pre
  have h2 := hp.post
  have h3 := hp.none0
  have h1t := hp.pre t
  have h2t := hp.post t
  clear hp hl
  step_cases h
  all_goals refine ⟨fun u => ?_, fun u => ?_, fun u => ?_⟩
  all_goals have h1' := h1 u
  all_goals have h2' := h2 u
  all_goals have h3' := h3 u
  all_goals clear h1 h2 h3
  all_goals by_cases hu : u = t
  all_goals (try subst hu)
  all_goals (try have hu' : ¬ t = u := fun e => hu e.symm)
  all_goals (try simp [*, setT, fin, upd] at *)
  all_goals (first | assumption | skip)
  all_goals (intro hh; split <;> first | exact h1' hh | exact h2' hh | exact h3' hh | rfl | (rename_i hs; exfalso; unfold staleOn at hs; split at hs <;> simp_all))

theorem stale_iff (th : Thread) (o : Obj) : staleOn o th = true ↔ (sendObj th.pc = some o ∧ holdsO th.pc ≠ some o) := by
  unfold staleOn
  cases h : th.pc <;> simp
  rename_i r; cases r <;> simp

theorem pinv_fresh (s s' : St n) (t : Fin n) (b : Bool) (h : next0 s t b = some s') (hl : LInv s) (hi : SInv s) (hp : PInv s) :
    (∀ u o, sendObj (s'.thr u).pc = some o → (s'.thr u).lpd = false → s'.table (s'.thr u).cur.chan = some o) ∧
    (∀ u o, sendObj (s'.thr u).pc = some o → (s'.thr u).lpd = true → s'.table (s'.thr u).cur.chan ≠ some o) := by
  have hk := hl.kind t
  have hreal := hl.real t
  have h1 := hp.fresh
  have h2 := hp.stale
  have hpre := hp.pre t
  have hheld := hi.held t
  have hlt := hi.pclt
  have htab := hi.tab
  have hown : ∀ u o', holdsO (s.thr t).pc = some o' → holdsO (s.thr u).pc = some o' → u = t := fun u o' a b => hl.ow_unique u t o' b a
  clear hp hl hi
  step_cases h
  all_goals refine ⟨fun u o => ?_, fun u o => ?_⟩
  all_goals have h1' := h1 u o
  all_goals have h2' := h2 u o
  all_goals have hlt' := hlt u o
  all_goals have hown' := hown u
  all_goals clear h1 h2 hlt hown
  all_goals by_cases hu : u = t
  all_goals (try subst hu)
  all_goals (try have hu' : ¬ t = u := fun e => hu e.symm)
  all_goals (try simp [*, setT, fin, upd] at *)
  all_goals (first | assumption | skip)
  · rename_i _ hpc _ htb
    intro h3 h4
    have := h1' h3 h4
    split
    · rename_i e; rw [e, htb] at this; cases this
    · exact this
  · rename_i _ hpc _ htb
    intro h3 h4
    split
    · intro e
      simp at e
      have := hlt' (sendObj_pcObj _ _ h3)
      rw [← e] at this
      exact absurd this (Nat.lt_irrefl _)
    · exact h2' h3 h4
  · rename_i _ o' hpc hemp
    intro h3 h4
    by_cases hs : staleOn o' (s.thr u) = true
    · simp [hs] at h4
    · simp [hs] at h4
      have h5 := h1' h3 h4
      refine ⟨?_, h5⟩
      intro e
      rw [e, hheld] at h5
      cases h5
      exact hs ((stale_iff _ _).2 ⟨h3, hown'⟩)
  · rename_i _ o' hpc hemp
    intro h3 h4 hne
    by_cases hs : staleOn o' (s.thr u) = true
    · have := ((stale_iff _ _).1 hs).1
      rw [h3] at this
      cases this
      intro h5
      exact hne ((htab _ _ h5).symm.trans (htab _ _ hheld))
    · simp [hs] at h4
      exact h2' h3 h4

theorem pinv_next0 (s s' : St n) (t : Fin n) (b : Bool) (h : next0 s t b = some s') (hl : LInv s) (hi : SInv s) (hp : PInv s) :
    PInv s' :=
  ⟨(pinv_pre s s' t b h hl hp).1, (pinv_pre s s' t b h hl hp).2.1, (pinv_pre s s' t b h hl hp).2.2,
   (pinv_fresh s s' t b h hl hi hp).1, (pinv_fresh s s' t b h hl hi hp).2⟩

/-! ### the PUBLISH count -/

theorem nodup_map_snd (A : List (Chan × Conn)) (ch : Chan) (h : A.Nodup) :
    ((A.filter (fun p => p.1 = ch)).map (·.2)).Nodup := by
  induction A with
  | nil => simp
  | cons x xs ih =>
    rw [List.nodup_cons] at h
    rw [List.filter_cons]
    split
    · rename_i hx
      rw [List.map_cons, List.nodup_cons]
      refine ⟨?_, ih h.2⟩
      intro hin
      rw [List.mem_map] at hin
      obtain ⟨p, hp, hp2⟩ := hin
      rw [List.mem_filter] at hp
      have e1 : p.1 = ch := by simpa using hp.2
      have e2 : x.1 = ch := by simpa using hx
      have : p = x := by
        cases p; cases x; simp at e1 e2 hp2; simp [e1, e2, hp2]
      exact h.1 (this ▸ hp.1)
    · exact ih h.2

/-- the specification's count is the length of the object's subscriber list -/
theorem spec_count_eq (A : List (Chan × Conn)) (ch : Chan) (L : List Conn) (hA : A.Nodup) (hL : L.Nodup)
    (hm : ∀ c, (ch, c) ∈ A ↔ c ∈ L) : (A.filter (fun p => p.1 = ch)).length = L.length := by
  have h1 := nodup_map_snd A ch hA
  have hp : ((A.filter (fun p => p.1 = ch)).map (·.2)).Perm L := by
    rw [List.perm_ext_iff_of_nodup h1 hL]
    intro c
    rw [← hm c, List.mem_map]
    constructor
    · rintro ⟨p, hp, rfl⟩
      rw [List.mem_filter] at hp
      have e1 : p.1 = ch := by simpa using hp.2
      rw [← e1]; exact hp.1
    · intro h
      exact ⟨(ch, c), List.mem_filter.2 ⟨h, by simp⟩, rfl⟩
  have := hp.length_eq
  simpa using this

theorem specCount_of_rel (s : St n) (hR : RInv s) (ch : Chan) (L : List Conn) (hL : L.Nodup)
    (hm : ∀ c, (∃ o, s.table ch = some o ∧ c ∈ s.subs o) ↔ c ∈ L) : specCount s.lin ch = L.length := by
  unfold specCount
  exact spec_count_eq _ ch L (run_inv _).nodup hL (fun c => (hR ch c).trans (hm c))

structure ZInv (s : St n) : Prop where
  z1 : ∀ u, (s.thr u).pc = .p2 none → (s.thr u).exp = 0
  z2 : ∀ u o, sendObj (s.thr u).pc = some o → (s.thr u).lpd = true → (s.thr u).exp = 0

theorem zinv_next0 (s s' : St n) (t : Fin n) (b : Bool) (h : next0 s t b = some s') (hl : LInv s) (hR : RInv s) (hp : PInv s)
    (hz : ZInv s) : ZInv s' := by
  have hk := hl.kind t
  have h1 := hz.z1
  have h2 := hz.z2
  have hpre := hp.pre t
  have hcnt := specCount_of_rel s hR
  clear hz hp hl
  constructor
  · intro u
    have h1' := h1 u
    clear h1 h2
    step_cases h
    all_goals by_cases hu : u = t
    all_goals (try subst hu)
    all_goals (try have hu' : ¬ t = u := fun e => hu e.symm)
    all_goals (try simp [*, setT, fin, upd] at *)
    all_goals (first | assumption | skip)
    · intro hh; split
      · rfl
      · exact h1' hh
    · rename_i _ _ hpc htb
      have := hcnt (s.thr u).cur.chan [] List.nodup_nil (fun c => by simp [htb])
      simpa using this
  · intro u o
    have h2' := h2 u o
    clear h1 h2
    step_cases h
    all_goals by_cases hu : u = t
    all_goals (try subst hu)
    all_goals (try have hu' : ¬ t = u := fun e => hu e.symm)
    all_goals (try simp [*, setT, fin, upd] at *)
    all_goals (first | assumption | skip)
    intro h3 h4; split
    · rfl
    · rename_i hs; simp [hs] at h4; exact h2' h3 h4

/-! ### every operation is linearized inside its interval, with the specification's reply -/

/-- position `i ≥ lo` of the linearization holds the abstract operation of operation `tag`, and for a Send `val` is the
    specification's count just before it -/
def Wit (l : List (LinEv n)) (lo : Nat) (tag : Fin n × Nat) (op : Op) (val : Nat) : Prop :=
  ∃ i, lo ≤ i ∧ l[i]? = some ⟨some tag, op.abs⟩ ∧ ∀ ch m, op = .send ch m → val = specCount (l.take i) ch

theorem Wit.append {l : List (LinEv n)} {lo : Nat} {tag : Fin n × Nat} {op : Op} {val : Nat} (x : List (LinEv n))
    (h : Wit l lo tag op val) : Wit (l ++ x) lo tag op val := by
  obtain ⟨i, h1, h2, h3⟩ := h
  have hi : i < l.length := by
    rcases Nat.lt_or_ge i l.length with h | h
    · exact h
    · rw [List.getElem?_eq_none h] at h2; cases h2
  refine ⟨i, h1, ?_, ?_⟩
  · rw [List.getElem?_append_left hi]; exact h2
  · intro ch m e
    rw [List.take_append_of_le_length (Nat.le_of_lt hi)]
    exact h3 ch m e

theorem Wit.last (l : List (LinEv n)) (lo : Nat) (tag : Fin n × Nat) (op : Op) (val : Nat) (hlo : lo ≤ l.length)
    (hv : ∀ ch m, op = .send ch m → val = specCount l ch) : Wit (l ++ [⟨some tag, op.abs⟩]) lo tag op val := by
  refine ⟨l.length, hlo, by simp, ?_⟩
  intro ch m e
  rw [List.take_left']
  · exact hv ch m e
  · rfl

/-- a completed operation: linearized at a position between the length of `lin` at its invocation and at its return, a Send's
    reply being the specification's count at that position -/
def RecOk (l : List (LinEv n)) (r : Rec n) : Prop :=
  r.retLen ≤ l.length ∧ ∃ i, r.invLen ≤ i ∧ i < r.retLen ∧ l[i]? = some ⟨some (r.tid, r.k), r.op.abs⟩ ∧
    ∀ ch m, r.op = .send ch m → r.reply = some (specCount (l.take i) ch)

theorem RecOk.append {l : List (LinEv n)} {r : Rec n} (x : List (LinEv n)) (h : RecOk l r) : RecOk (l ++ x) r := by
  obtain ⟨h0, i, h1, h2, h3, h4⟩ := h
  have hi : i < l.length := Nat.lt_of_lt_of_le h2 h0
  refine ⟨by rw [List.length_append]; exact Nat.le_trans h0 (Nat.le_add_right _ _), i, h1, h2, ?_, ?_⟩
  · rw [List.getElem?_append_left hi]; exact h3
  · intro ch m e
    rw [List.take_append_of_le_length (Nat.le_of_lt hi)]
    exact h4 ch m e

theorem RecOk.ofWit (l : List (LinEv n)) (t : Fin n) (k : Nat) (op : Op) (reply : Option Nat) (exp invAt invLen clock : Nat)
    (h : Wit l invLen (t, k) op exp) (hr : ∀ ch m, op = .send ch m → reply = some exp) :
    RecOk l ⟨t, k, op, reply, exp, invAt, invLen, clock, l.length⟩ := by
  obtain ⟨i, h1, h2, h3⟩ := h
  have hi : i < l.length := by
    rcases Nat.lt_or_ge i l.length with h | h
    · exact h
    · rw [List.getElem?_eq_none h] at h2; cases h2
  refine ⟨Nat.le_refl _, i, h1, hi, h2, ?_⟩
  intro ch m e
  rw [hr ch m e, h3 ch m e]

structure WInv (s : St n) : Prop where
  invle : ∀ u, (s.thr u).invLen ≤ s.lin.length
  lpw : ∀ u, (s.thr u).pc ≠ .idle → (s.thr u).lpd = true → Wit s.lin (s.thr u).invLen (u, (s.thr u).k) (s.thr u).cur (s.thr u).exp
  recs : ∀ r ∈ s.done, RecOk s.lin r

theorem winv_invle (s s' : St n) (t : Fin n) (b : Bool) (h : next0 s t b = some s') (hw : WInv s) :
    ∀ u, (s'.thr u).invLen ≤ s'.lin.length := by
  intro u
  have h1 := hw.invle u
  have h1t := hw.invle t
  clear hw
  step_cases h
  all_goals by_cases hu : u = t
  all_goals (try subst hu)
  all_goals (try have hu' : ¬ t = u := fun e => hu e.symm)
  all_goals (try (first | simp [setT, fin, upd, hu, hu'] | simp [setT, fin, upd]))
  all_goals (first | assumption | omega | skip)

theorem specCount_publishes (l x : List (LinEv n)) (ch : Chan) (h : ∀ op ∈ absLin x, isPublish op = true) :
    specCount (l ++ x) ch = specCount l ch := by
  unfold specCount
  rw [absLin_append, run_publishes_subs _ _ h]

/-- a Send that looked up object `o'` and has not locked it yet is linearized by the step that drops `o'` -/
theorem helped_wit (s : St n) (o' : Obj) (u : Fin n) (hl : LInv s) (hi : SInv s) (hR : RInv s)
    (hst : staleOn o' (s.thr u) = true) (htab : s.table (s.och o') = some o') (hemp : s.subs o' = [])
    (hle : (s.thr u).invLen ≤ s.lin.length) :
    Wit (s.lin ++ helped s o') (s.thr u).invLen (u, (s.thr u).k) (s.thr u).cur 0 := by
  have hmem : (⟨some (u, (s.thr u).k), (s.thr u).cur.abs⟩ : LinEv n) ∈ helped s o' := by
    unfold helped
    rw [List.mem_map]
    exact ⟨u, List.mem_filter.2 ⟨List.mem_finRange u, hst⟩, rfl⟩
  obtain ⟨j, hj⟩ := List.mem_iff_getElem?.1 hmem
  refine ⟨s.lin.length + j, Nat.le_trans hle (Nat.le_add_right _ _), ?_, ?_⟩
  · rw [List.getElem?_append_right (Nat.le_add_right _ _)]
    simpa using hj
  · intro ch m e
    have hpub : ∀ op ∈ absLin ((helped s o').take j), isPublish op = true := by
      intro op hop
      apply helped_publishes s o' hl op
      simp only [absLin, List.mem_map] at hop ⊢
      obtain ⟨a, ha, rfl⟩ := hop
      exact ⟨a, List.mem_of_mem_take ha, rfl⟩
    have htk : (s.lin ++ helped s o').take (s.lin.length + j) = s.lin ++ (helped s o').take j := by
      rw [List.take_append, List.take_of_length_le (Nat.le_add_right _ _), Nat.add_sub_cancel_left]
    rw [htk, specCount_publishes _ _ _ hpub]
    have hch : s.och o' = ch := by
      have := hi.pcch u o' (sendObj_pcObj _ _ ((stale_iff _ _).1 hst).1)
      rw [e] at this; exact this
    rw [hch] at htab
    have := specCount_of_rel s hR ch [] List.nodup_nil (fun c => by
      constructor
      · rintro ⟨o, h1, h2⟩
        rw [htab] at h1; cases h1
        rw [hemp] at h2; cases h2
      · intro h; cases h)
    simpa using this.symm

theorem winv_lpw (s s' : St n) (t : Fin n) (b : Bool) (h : next0 s t b = some s') (hl : LInv s) (hi : SInv s) (hR : RInv s)
    (hp : PInv s) (hw : WInv s) :
    ∀ u, (s'.thr u).pc ≠ .idle → (s'.thr u).lpd = true →
      Wit s'.lin (s'.thr u).invLen (u, (s'.thr u).k) (s'.thr u).cur (s'.thr u).exp := by
  intro u
  have hk := hl.kind t
  have h1 := hw.lpw u
  have hle := hw.invle u
  have hheld := hi.held t
  have htab := hi.tab
  have hhw := helped_wit s
  clear hw
  step_cases h
  all_goals by_cases hu : u = t
  all_goals (try subst hu)
  all_goals (try have hu' : ¬ t = u := fun e => hu e.symm)
  all_goals (try (first | simp [setT, fin, upd, hu, hu'] | simp [setT, fin, upd]))
  all_goals (first | assumption | exact fun a b => (h1 a b).append _
                   | (intro hb; exact h1 (by simp [*]) hb) | (intro hb; exact (h1 (by simp [*]) hb).append _)
                   | (refine Wit.last _ _ _ _ _ hle ?_; intro ch m e; first | (simp [e, Op.chan]; done) | (exfalso; simp [*, opKind] at hk))
                   | skip)
  -- u3d: the drop; the stale Sends get their witness
  rename_i _ o' hpc hemp
  rw [hpc] at hheld
  have hh := hheld o' rfl
  have hh2 : s.table (s.och o') = some o' := by rw [htab _ _ hh]; exact hh
  intro hne hb
  by_cases hs : staleOn o' (s.thr u) = true
  · simp only [hs, if_true]
    exact hhw o' u hl hi hR hs hh2 hemp hle
  · simp [hs] at hb ⊢
    exact (h1 hne hb).append _

theorem winv_recs (s s' : St n) (t : Fin n) (b : Bool) (h : next0 s t b = some s') (hl : LInv s) (hi : SInv s) (hR : RInv s)
    (hp : PInv s) (hz : ZInv s) (hw : WInv s) : ∀ r ∈ s'.done, RecOk s'.lin r := by
  have hk := hl.kind t
  have h1 := hw.recs
  have hlp := hw.lpw t
  have hle := hw.invle t
  have hpost := hp.post t
  have hnone := hp.none0 t
  have hz1 := hz.z1 t
  have hz2 := hz.z2 t
  have hstale := hp.stale t
  have hfresh := hp.fresh t
  have hcnt := specCount_of_rel s hR
  clear hw
  step_cases h
  all_goals simp only [setT, fin]
  all_goals (first | exact h1 | exact fun r hr => (h1 r hr).append _ | skip)
  case h_24 => rename_i _ hpc; rw [hpc] at hk; simp at hk
  case h_30 => rename_i _ _ hpc; rw [hpc] at hk; simp at hk
  case h_7 =>
    rename_i _ hpc
    intro r hr
    rw [List.mem_append] at hr
    rcases hr with hr | hr
    · exact h1 r hr
    · simp only [List.mem_singleton] at hr; subst hr
      refine RecOk.ofWit _ _ _ _ _ _ _ _ _ (hlp (by rw [hpc]; simp) (hpost (by rw [hpc]; rfl))) ?_
      intro ch m e; rw [hpc, e] at hk; simp [opKind] at hk
  case h_14 =>
    rename_i _ hpc
    intro r hr
    rw [List.mem_append] at hr
    rcases hr with hr | hr
    · exact h1 r hr
    · simp only [List.mem_singleton] at hr; subst hr
      refine RecOk.ofWit _ _ _ _ _ _ _ _ _ (hlp (by rw [hpc]; simp) (hpost (by rw [hpc]; rfl))) ?_
      intro ch m e; rw [hpc, e] at hk; simp [opKind] at hk
  case h_17 =>
    rename_i _ hpc
    intro r hr
    rw [List.mem_append] at hr
    rcases hr with hr | hr
    · exact h1 r hr
    · simp only [List.mem_singleton] at hr; subst hr
      refine RecOk.ofWit _ _ _ _ _ _ _ _ _ (hlp (by rw [hpc]; simp) (hnone hpc)) ?_
      intro ch m e; rw [hz1 hpc]
  case h_21.isTrue =>
    rename_i _ o' sent hpc hlpd
    intro r hr
    rw [List.mem_append] at hr
    rcases hr with hr | hr
    · exact h1 r hr
    · simp only [List.mem_singleton] at hr; subst hr
      refine RecOk.ofWit _ _ _ _ _ _ _ _ _ (hlp (by rw [hpc]; simp) hlpd) ?_
      intro ch m e
      rw [hz2 o' (by rw [hpc]; rfl) hlpd]
      have hst := hstale o' (by rw [hpc]; rfl) hlpd
      have hch := hi.pcch t o' (by rw [hpc]; rfl)
      have hemp := hi.dropped o' (by rw [hch]; exact hst)
      have hloop := hi.loop t o' sent [] hpc
      rw [hemp] at hloop
      have : sent = [] := by simpa using hloop.symm
      rw [this]; rfl
  case h_21.isFalse =>
    rename_i _ o' sent hpc hlpd
    have hlpd' : (s.thr t).lpd = false := by simpa using hlpd
    intro r hr
    rw [List.mem_append] at hr
    rcases hr with hr | hr
    · exact (h1 r hr).append _
    · simp only [List.mem_singleton] at hr; subst hr
      have hfr := hfresh o' (by rw [hpc]; rfl) hlpd'
      have hloop := hi.loop t o' sent [] hpc
      have hnd := hi.nodup o'
      rw [hloop] at hnd
      simp only [List.append_nil] at hloop hnd
      have hc := hcnt (s.thr t).cur.chan sent hnd (fun c => by
        constructor
        · rintro ⟨o, h1, h2⟩
          rw [hfr] at h1; cases h1
          rw [hloop] at h2; exact h2
        · intro h; exact ⟨o', hfr, by rw [hloop]; exact h⟩)
      refine RecOk.ofWit _ _ _ _ _ _ _ _ _ (Wit.last _ _ _ _ _ hle (fun ch m e => by simp [e, Op.chan])) ?_
      intro ch m e
      rw [hc]

theorem winv_next0 (s s' : St n) (t : Fin n) (b : Bool) (h : next0 s t b = some s') (hl : LInv s) (hi : SInv s) (hR : RInv s)
    (hp : PInv s) (hz : ZInv s) (hw : WInv s) : WInv s' :=
  ⟨winv_invle s s' t b h hw, winv_lpw s s' t b h hl hi hR hp hw, winv_recs s s' t b h hl hi hR hp hz hw⟩

/-! ### all invariants along every run -/

structure AllInv (s : St n) : Prop where
  l : LInv s
  si : SInv s
  r : RInv s
  p : PInv s
  z : ZInv s
  w : WInv s

theorem allinv_next0 (s s' : St n) (t : Fin n) (b : Bool) (h : next0 s t b = some s') (a : AllInv s) : AllInv s' :=
  ⟨linv_next0 s s' t b h a.l, sinv_next0 s s' t b h a.l a.si, rinv_next0 s s' t b h a.l a.si a.r, pinv_next0 s s' t b h a.l a.si a.p,
   zinv_next0 s s' t b h a.l a.r a.p a.z, winv_next0 s s' t b h a.l a.si a.r a.p a.z a.w⟩

theorem allinv_frame (s : St n) (c : Nat) (d : Conn → Bool) (a : AllInv s) : AllInv { s with clock := c, dead := d } := by
  obtain ⟨l, si, r, p, z, w⟩ := a
  exact ⟨⟨l.tw, l.tr, l.trn, l.ow, l.kind, l.real⟩, ⟨si.lt, si.tab, si.pclt, si.pcch, si.held, si.nodup, si.dropped, si.loop⟩, r,
    ⟨p.pre, p.post, p.none0, p.fresh, p.stale⟩, ⟨z.z1, z.z2⟩, ⟨w.invle, w.lpw, w.recs⟩⟩

theorem allinv_step (s s' : St n) (h : Step s s') (a : AllInv s) : AllInv s' := by
  cases h with
  | thr _ t b h =>
    obtain ⟨s1, h0, rfl⟩ := next_eq s s' t b h
    exact allinv_frame s1 _ s1.dead (allinv_next0 s s1 t b h0 a)
  | die c => exact allinv_frame s s.clock _ a

theorem allinv_init (progs : Fin n → List Op) (hr : Real progs) : AllInv (init progs) := by
  refine ⟨linv_init progs hr, sinv_init progs, ?_, ?_, ?_, ?_⟩
  · intro ch c; simp [init, absLin, PubSub.run, PubSub.init]
  · refine ⟨?_, ?_, ?_, ?_, ?_⟩ <;> simp [init]
  · refine ⟨?_, ?_⟩ <;> simp [init]
  · refine ⟨?_, ?_, ?_⟩ <;> simp [init]

theorem allinv_reach (progs : Fin n → List Op) (hr : Real progs) (s : St n) (h : Reach progs s) : AllInv s := by
  induction h with
  | init => exact allinv_init progs hr
  | step s s' _ hs ih => exact allinv_step s s' hs ih

/-! ### real time: the linearization order respects "returned before invoked" -/

@[simp] theorem entry_ne_idle (op : Op) : (entry op = Pc.idle) = False := by cases op <;> simp [entry]

theorem lin_mono (s s' : St n) (t : Fin n) (b : Bool) (h : next0 s t b = some s') : ∃ x, s'.lin = s.lin ++ x := by
  step_cases h
  all_goals simp only [setT, fin]
  all_goals (first | exact ⟨_, rfl⟩ | exact ⟨[], (List.append_nil _).symm⟩)

/-- how one step changes the timing ghosts: other threads keep theirs; the stepping thread starts an operation (samples the clock
    and the length of `lin`), finishes one (a record with its invocation samples and the current ones), or continues -/
theorem timing_frame (s s' : St n) (t : Fin n) (b : Bool) (h : next0 s t b = some s') :
    (∀ u, u ≠ t → (s'.thr u).invAt = (s.thr u).invAt ∧ (s'.thr u).invLen = (s.thr u).invLen ∧
      ((s'.thr u).pc = .idle ↔ (s.thr u).pc = .idle)) ∧
    (((s.thr t).pc = .idle ∧ (s'.thr t).pc ≠ .idle ∧ (s'.thr t).invAt = s.clock ∧ (s'.thr t).invLen = s.lin.length ∧
        s'.done = s.done ∧ s'.lin = s.lin) ∨
     ((s.thr t).pc ≠ .idle ∧ (s'.thr t).pc = .idle ∧ ∃ reply exp, s'.done = s.done ++
        [⟨t, (s.thr t).k, (s.thr t).cur, reply, exp, (s.thr t).invAt, (s.thr t).invLen, s.clock, s'.lin.length⟩]) ∨
     ((s.thr t).pc ≠ .idle ∧ (s'.thr t).pc ≠ .idle ∧ (s'.thr t).invAt = (s.thr t).invAt ∧ (s'.thr t).invLen = (s.thr t).invLen ∧
        s'.done = s.done)) := by
  step_cases h
  all_goals refine ⟨fun u hu => ?_, ?_⟩
  all_goals (try (simp [setT, fin, upd, hu]; done))
  all_goals (first
    | (left; simp [*, setT, fin, upd]; done)
    | (right; right; simp [*, setT, fin, upd]; done)
    | (right; left; refine ⟨by simp [*], by simp [setT, fin, upd], ?_⟩; simp only [setT, fin]; exact ⟨_, _, rfl⟩)
    | skip)
  all_goals trace_state

structure TInv (s : St n) : Prop where
  t1 : ∀ u, (s.thr u).pc ≠ .idle → (s.thr u).invAt < s.clock
  t2 : ∀ r ∈ s.done, r.retAt < s.clock ∧ r.invAt < s.clock ∧ r.retLen ≤ s.lin.length
  t3 : ∀ r ∈ s.done, ∀ u, (s.thr u).pc ≠ .idle → r.retAt ≤ (s.thr u).invAt → r.retLen ≤ (s.thr u).invLen
  t4 : ∀ r1 ∈ s.done, ∀ r2 ∈ s.done, r1.retAt ≤ r2.invAt → r1.retLen ≤ r2.invLen

theorem tinv_next (s s' : St n) (t : Fin n) (b : Bool) (h : next s t b = some s') (T : TInv s) : TInv s' := by
  obtain ⟨s1, h0, rfl⟩ := next_eq s s' t b h
  obtain ⟨x, hx⟩ := lin_mono s s1 t b h0
  obtain ⟨F1, F2⟩ := timing_frame s s1 t b h0
  have hlen : s.lin.length ≤ s1.lin.length := by rw [hx, List.length_append]; exact Nat.le_add_right _ _
  rcases F2 with ⟨p0, p1, a1, a2, d, _⟩ | ⟨p0, p1, reply, exp, d⟩ | ⟨p0, p1, a1, a2, d⟩
  · refine ⟨fun u hu => ?_, fun r hr => ?_, fun r hr u hu hle => ?_, fun r1 h1 r2 h2 => ?_⟩
    · show (s1.thr u).invAt < s.clock + 1
      by_cases e : u = t
      · subst e; omega
      · have := T.t1 u (fun hh => hu ((F1 u e).2.2.2 hh)); rw [(F1 u e).1]; omega
    · show r.retAt < s.clock + 1 ∧ r.invAt < s.clock + 1 ∧ r.retLen ≤ s1.lin.length
      rw [d] at hr
      have := T.t2 r hr; omega
    · show r.retLen ≤ (s1.thr u).invLen
      rw [d] at hr
      by_cases e : u = t
      · subst e; rw [a2]; exact (T.t2 r hr).2.2
      · have h3 := T.t3 r hr u (fun hh => hu ((F1 u e).2.2.2 hh))
        rw [(F1 u e).2.1]; apply h3
        have : (s1.thr u).invAt = (s.thr u).invAt := (F1 u e).1
        rw [← this]; exact hle
    · rw [d] at h1 h2; exact T.t4 r1 h1 r2 h2
  · have ht1 := T.t1 t p0
    refine ⟨fun u hu => ?_, fun r hr => ?_, fun r hr u hu hle => ?_, fun r1 h1 r2 h2 hle => ?_⟩
    · show (s1.thr u).invAt < s.clock + 1
      by_cases e : u = t
      · subst e; exact absurd p1 hu
      · have := T.t1 u (fun hh => hu ((F1 u e).2.2.2 hh)); rw [(F1 u e).1]; omega
    · show r.retAt < s.clock + 1 ∧ r.invAt < s.clock + 1 ∧ r.retLen ≤ s1.lin.length
      rw [d, List.mem_append] at hr
      rcases hr with hr | hr
      · have := T.t2 r hr; omega
      · simp only [List.mem_singleton] at hr; subst hr; simp only; omega
    · show r.retLen ≤ (s1.thr u).invLen
      by_cases e : u = t
      · subst e; exact absurd p1 hu
      · have hpu : (s.thr u).pc ≠ .idle := fun hh => hu ((F1 u e).2.2.2 hh)
        have ea : (s1.thr u).invAt = (s.thr u).invAt := (F1 u e).1
        rw [d, List.mem_append] at hr
        rcases hr with hr | hr
        · rw [(F1 u e).2.1]; exact T.t3 r hr u hpu (by rw [← ea]; exact hle)
        · simp only [List.mem_singleton] at hr; subst hr
          have := T.t1 u hpu
          simp only at hle; omega
    · rw [d, List.mem_append] at h1 h2
      rcases h1 with h1 | h1 <;> rcases h2 with h2 | h2
      · exact T.t4 r1 h1 r2 h2 hle
      · simp only [List.mem_singleton] at h2; subst h2
        exact T.t3 r1 h1 t p0 hle
      · simp only [List.mem_singleton] at h1; subst h1
        have := (T.t2 r2 h2).2.1
        simp only at hle; omega
      · simp only [List.mem_singleton] at h1 h2; subst h1 h2
        simp only at hle; omega
  · refine ⟨fun u hu => ?_, fun r hr => ?_, fun r hr u hu hle => ?_, fun r1 h1 r2 h2 => ?_⟩
    · show (s1.thr u).invAt < s.clock + 1
      by_cases e : u = t
      · subst e; have := T.t1 u p0; omega
      · have := T.t1 u (fun hh => hu ((F1 u e).2.2.2 hh)); rw [(F1 u e).1]; omega
    · show r.retAt < s.clock + 1 ∧ r.invAt < s.clock + 1 ∧ r.retLen ≤ s1.lin.length
      rw [d] at hr
      have := T.t2 r hr; omega
    · show r.retLen ≤ (s1.thr u).invLen
      rw [d] at hr
      by_cases e : u = t
      · subst e; rw [a2]; exact T.t3 r hr u p0 (by rw [← a1]; exact hle)
      · have ea : (s1.thr u).invAt = (s.thr u).invAt := (F1 u e).1
        rw [(F1 u e).2.1]
        exact T.t3 r hr u (fun hh => hu ((F1 u e).2.2.2 hh)) (by rw [← ea]; exact hle)
    · rw [d] at h1 h2; exact T.t4 r1 h1 r2 h2

theorem tinv_reach (progs : Fin n → List Op) (s : St n) (h : Reach progs s) : TInv s := by
  induction h with
  | init => refine ⟨?_, ?_, ?_, ?_⟩ <;> simp [init]
  | step s s' _ hs ih =>
    cases hs with
    | thr _ t b h => exact tinv_next s s' t b h ih
    | die c => exact ⟨ih.t1, ih.t2, ih.t3, ih.t4⟩

end PSC
