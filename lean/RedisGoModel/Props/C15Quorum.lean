import RedisGoModel.Raft.RSQ2
import RedisGoModel.Props.C15Conf

/-! C15, Stage D step 1: **the abstract protocol L0 over an arbitrary static quorum system.**

    `StepQ IsQ` is `RS.Step` (same state `RS.Sys`, same transformers, same twelve steps) with "strict majority of `Fin N`"
    replaced by a predicate `IsQ : Finset (Fin N) → Prop` at the two places a quorum decides: `becomeLeader` (the granting
    voters) and `advanceCommit` (the acknowledging nodes).  The ONLY hypothesis on `IsQ` is `Overlap IsQ`: any two quorums
    intersect.  Under it every reachable state of `StepQ IsQ` is a reachable state of the guarded system of `Raft/RSQ.lean`
    (`reachQ_reach`: the guards `ElectOK`/`CommitOK` are discharged by the intersection), so the five safety theorems hold:
    `Q_election_safety`, `Q_log_matching`, `Q_leader_completeness`, `Q_state_machine_safety`, `Q_committed_never_rewritten`.

    Instances (each with its five theorems, all nodes of `Fin N` take part in the protocol — they receive entries, answer,
    may even campaign — only the *counting* differs):
    * `majQ`       — strict majority of `Fin N`; `RS.Step = StepQ majQ` constructor by constructor, so every `RS.Reach` state is
                     a `ReachQ majQ` state and the registered theorems `RS.C15_*` are re-derived by instantiation (`RS_*_by_instance`);
    * `votersQ V`  — strict majority of a subset `V` of node ids (`RQJ.IsQuorum`): nodes outside `V` are non-voting learners;
    * `jointQ j`   — joint configuration `j = (incoming, outgoing)`: a majority of both halves (`RQJ.IsJointQuorum`, quorum.go's
                     convention that an empty half imposes nothing), intersection from `RQJ.joint_overlap_joint`. -/
namespace RSQ
open RS
variable {N : Nat}

/-- the single hypothesis on a static quorum system -/
def Overlap (IsQ : Finset (Fin N) → Prop) : Prop := ∀ Q₁ Q₂, IsQ Q₁ → IsQ Q₂ → (Q₁ ∩ Q₂).Nonempty

theorem Overlap.meet {IsQ : Finset (Fin N) → Prop} (h : Overlap IsQ) {Q₁ Q₂} (h1 : IsQ Q₁) (h2 : IsQ Q₂) :
    ∃ j, j ∈ Q₁ ∧ j ∈ Q₂ := by
  obtain ⟨j, hj⟩ := h Q₁ Q₂ h1 h2
  exact ⟨j, Finset.mem_inter.1 hj⟩

/-- L0 with the quorum predicate `IsQ` (compare `RS.Step`: only `becomeLeader` and `advanceCommit` differ) -/
inductive StepQ (IsQ : Finset (Fin N) → Prop) : Sys N → Sys N → Prop
| timeout (s : Sys N) (i : Fin N) (h : (s.nodes i).role ≠ .leader) : StepQ IsQ s (doTimeout s i)
| updateTerm (s : Sys N) (i : Fin N) (t : Nat) (ht : (s.nodes i).term < t) : StepQ IsQ s (doUpdateTerm s i t)
| grant (s : Sys N) (j c : Fin N) (t li lt : Nat) (hm : s.msgs (.rv t c li lt)) (ht : (s.nodes j).term = t)
    (hv : (s.nodes j).vote = none) (hu : upToDate lt li (s.nodes j).log) : StepQ IsQ s (doGrant s j c t)
| becomeLeader (s : Sys N) (i : Fin N) (Q : Finset (Fin N)) (hq : IsQ Q)
    (hc : (s.nodes i).role = .candidate)
    (hQ : ∀ j ∈ Q, j = i ∨ s.msgs (.rvResp (s.nodes i).term j i true)) : StepQ IsQ s (doBecomeLeader s i Q)
| clientReq (s : Sys N) (i : Fin N) (v : Nat) (hl : (s.nodes i).role = .leader) : StepQ IsQ s (doClientReq s i v)
| sendAE (s : Sys N) (i : Fin N) (prev cnt : Nat) (hl : (s.nodes i).role = .leader)
    (hp : prev ≤ (s.nodes i).log.length) : StepQ IsQ s (doSendAE s i prev cnt)
| handleAE (s : Sys N) (j src : Fin N) (t prev pt : Nat) (ents : Log) (cm : Nat)
    (hm : s.msgs (.ae t src prev pt ents cm)) (ht : (s.nodes j).term = t)
    (hnl : (s.nodes j).role ≠ .leader)
    (hmatch : prev ≤ (s.nodes j).log.length ∧ termAt (s.nodes j).log prev = pt) : StepQ IsQ s (doHandleAE s j src t prev ents cm)
| advanceCommit (s : Sys N) (i : Fin N) (k : Nat) (Q : Finset (Fin N)) (hl : (s.nodes i).role = .leader)
    (hk : (s.nodes i).commit < k ∧ k ≤ (s.nodes i).log.length) (hterm : termAt (s.nodes i).log k = (s.nodes i).term)
    (hq : IsQ Q) (hQ : ∀ j ∈ Q, ∃ n, k ≤ n ∧ s.acks (s.nodes i).term j n) : StepQ IsQ s (doAdvanceCommit s i k)
| restart (s : Sys N) (i : Fin N) : StepQ IsQ s (doRestart s i)
| ackCommitted (s : Sys N) (j src : Fin N) (t prev pt : Nat) (ents : Log) (cm : Nat)
    (hm : s.msgs (.ae t src prev pt ents cm)) (ht : (s.nodes j).term = t) (hnl : (s.nodes j).role ≠ .leader)
    (hlt : prev < (s.nodes j).commit) : StepQ IsQ s (doAckCommitted s j src t)
| sendHB (s : Sys N) (i dst : Fin N) (c : Nat) (hl : (s.nodes i).role = .leader) (hc : c ≤ (s.nodes i).commit)
    (hack : c = 0 ∨ ∃ n, c ≤ n ∧ s.acks (s.nodes i).term dst n) : StepQ IsQ s (doSendHB s i dst c)
| handleHB (s : Sys N) (j src : Fin N) (t c : Nat) (hm : s.msgs (.hb t src j c)) (ht : (s.nodes j).term = t)
    (hnl : (s.nodes j).role ≠ .leader) : StepQ IsQ s (doHandleHB s j c)

inductive ReachQ (IsQ : Finset (Fin N) → Prop) : Sys N → Prop
| init : ReachQ IsQ (init N)
| step {s s'} : ReachQ IsQ s → StepQ IsQ s s' → ReachQ IsQ s'

/-- every recorded electing set is a quorum -/
def EquoOK (IsQ : Finset (Fin N) → Prop) (s : Sys N) : Prop := ∀ t i, s.isLdr t i → IsQ (s.equo t)

/-- every index marked committed was acknowledged by a quorum in the committing term -/
def CmtOK (IsQ : Finset (Fin N) → Prop) (cmt : Nat → Nat → Prop) (acks : Nat → Fin N → Nat → Prop) : Prop :=
  ∀ k t, cmt k t → ∃ Q, IsQ Q ∧ ∀ j ∈ Q, ∃ n, k ≤ n ∧ acks t j n

theorem CmtOK.mono {IsQ : Finset (Fin N) → Prop} {cmt : Nat → Nat → Prop} {acks acks' : Nat → Fin N → Nat → Prop}
    (h : CmtOK IsQ cmt acks) (ha : ∀ t j n, acks t j n → acks' t j n) : CmtOK IsQ cmt acks' := by
  intro k t hc
  obtain ⟨Q, hq, hQ⟩ := h k t hc
  refine ⟨Q, hq, fun j hj => ?_⟩
  obtain ⟨n, hn, hh⟩ := hQ j hj
  exact ⟨n, hn, ha _ _ _ hh⟩

/-- the guard of an election is discharged by quorum intersection -/
theorem electOK_of_overlap {IsQ : Finset (Fin N) → Prop} (ho : Overlap IsQ) {s : Sys N}
    (hE : EquoOK IsQ s) (hC : CmtOK IsQ s.cmt s.acks) (i : Fin N) {Q : Finset (Fin N)} (hq : IsQ Q) : ElectOK s i Q := by
  refine ⟨?_, ?_, ?_⟩
  · obtain ⟨j, hj, _⟩ := ho.meet hq hq; exact ⟨j, hj⟩
  · intro j hj; exact ho.meet hq (hE _ j hj)
  · intro k t _ hc
    obtain ⟨Qc, hqc, hQc⟩ := hC k t hc
    obtain ⟨y, hy1, hy2⟩ := ho.meet hq hqc
    exact Or.inl ⟨y, hy1, hQc y hy2⟩

/-- the guard of a commit decision is discharged by quorum intersection -/
theorem commitOK_of_overlap {IsQ : Finset (Fin N) → Prop} (ho : Overlap IsQ) {s : Sys N}
    (hE : EquoOK IsQ s) (i : Fin N) (k : Nat) {Q : Finset (Fin N)} (hq : IsQ Q)
    (hQ : ∀ j ∈ Q, ∃ n, k ≤ n ∧ s.acks (s.nodes i).term j n) : CommitOK s i k := by
  intro t' c _ hl
  obtain ⟨y, hy1, hy2⟩ := ho.meet (hE t' c hl) hq
  exact Or.inl ⟨y, hy1, hQ y hy2⟩

/-- one `StepQ` step is one step of the guarded system, and the two bookkeeping facts survive -/
theorem stepQ_step {IsQ : Finset (Fin N) → Prop} (ho : Overlap IsQ) {s s' : Sys N}
    (hE : EquoOK IsQ s) (hC : CmtOK IsQ s.cmt s.acks) (st : StepQ IsQ s s') :
    Step s s' ∧ EquoOK IsQ s' ∧ CmtOK IsQ s'.cmt s'.acks := by
  cases st with
  | timeout i h => exact ⟨.timeout s i h, hE, hC⟩
  | updateTerm i t ht => exact ⟨.updateTerm s i t ht, hE, hC⟩
  | grant j c t li lt hm ht hv hu => exact ⟨.grant s j c t li lt hm ht hv hu, hE, hC⟩
  | becomeLeader i Q hq hc hQ =>
    refine ⟨.becomeLeader s i Q (electOK_of_overlap ho hE hC i hq) hc hQ, ?_, hC.mono (fun _ _ _ h => Or.inl h)⟩
    intro t j hl
    show IsQ (if t = (s.nodes i).term then Q else s.equo t)
    by_cases ht : t = (s.nodes i).term
    · rw [if_pos ht]; exact hq
    · rw [if_neg ht]
      rcases hl with hl | ⟨e, _⟩
      · exact hE t j hl
      · exact absurd e ht
  | clientReq i v hl => exact ⟨.clientReq s i v hl, hE, hC.mono (fun _ _ _ h => Or.inl h)⟩
  | sendAE i prev cnt hl hp => exact ⟨.sendAE s i prev cnt hl hp, hE, hC⟩
  | handleAE j src t prev pt ents cm hm ht hnl hmatch =>
    exact ⟨.handleAE s j src t prev pt ents cm hm ht hnl hmatch, hE, hC.mono (fun _ _ _ h => Or.inl h)⟩
  | advanceCommit i k Q hl hk hterm hq hQ =>
    refine ⟨.advanceCommit s i k Q hl hk hterm (commitOK_of_overlap ho hE i k hq hQ) hQ, hE, ?_⟩
    intro k' t hc
    rcases hc with hc | ⟨rfl, rfl⟩
    · exact hC k' t hc
    · exact ⟨Q, hq, hQ⟩
  | restart i => exact ⟨.restart s i, hE, hC⟩
  | ackCommitted j src t prev pt ents cm hm ht hnl hlt =>
    exact ⟨.ackCommitted s j src t prev pt ents cm hm ht hnl hlt, hE, hC.mono (fun _ _ _ h => Or.inl h)⟩
  | sendHB i dst c hl hc hack => exact ⟨.sendHB s i dst c hl hc hack, hE, hC⟩
  | handleHB j src t c hm ht hnl => exact ⟨.handleHB s j src t c hm ht hnl, hE, hC⟩

/-- every reachable state of L0 over a static quorum system is a reachable state of the guarded system -/
theorem reachQ_reach {IsQ : Finset (Fin N) → Prop} (ho : Overlap IsQ) {s : Sys N} (r : ReachQ IsQ s) :
    Reach s ∧ EquoOK IsQ s ∧ CmtOK IsQ s.cmt s.acks := by
  induction r with
  | init => exact ⟨.init, fun _ _ h => absurd h (by simp [init]), fun _ _ h => absurd h (by simp [init])⟩
  | step _ st ih =>
    obtain ⟨r0, hE, hC⟩ := ih
    obtain ⟨st0, hE', hC'⟩ := stepQ_step ho hE hC st
    exact ⟨.step r0 st0, hE', hC'⟩

/-! ### the five theorems, for every static quorum system with intersecting quorums, every cluster size, every schedule -/

theorem Q_election_safety {IsQ : Finset (Fin N) → Prop} (ho : Overlap IsQ) {s : Sys N} (r : ReachQ IsQ s) (i j : Fin N)
    (hi : (s.nodes i).role = .leader) (hj : (s.nodes j).role = .leader)
    (ht : (s.nodes i).term = (s.nodes j).term) : i = j :=
  C15_election_safety (reachQ_reach ho r).1 i j hi hj ht

theorem Q_log_matching {IsQ : Finset (Fin N) → Prop} (ho : Overlap IsQ) {s : Sys N} (r : ReachQ IsQ s) (i j : Fin N) (k : Nat)
    (h1 : 1 ≤ k) (hi : k ≤ (s.nodes i).log.length) (hj : k ≤ (s.nodes j).log.length)
    (ht : termAt (s.nodes i).log k = termAt (s.nodes j).log k) :
    (s.nodes i).log.take k = (s.nodes j).log.take k :=
  C15_log_matching (reachQ_reach ho r).1 i j k h1 hi hj ht

theorem Q_leader_completeness {IsQ : Finset (Fin N) → Prop} (ho : Overlap IsQ) {s : Sys N} (r : ReachQ IsQ s) {k t t' : Nat}
    (c : s.cmt k t) (hlt : t < t') {l : Fin N} (hl : s.isLdr t' l) :
    k ≤ (s.llog t').length ∧ (s.llog t').take k = (s.llog t).take k :=
  C15_leader_completeness (reachQ_reach ho r).1 c hlt hl

theorem Q_state_machine_safety {IsQ : Finset (Fin N) → Prop} (ho : Overlap IsQ) {s : Sys N} (r : ReachQ IsQ s) (i j : Fin N)
    (m : Nat) (hi : m ≤ (s.nodes i).commit) (hj : m ≤ (s.nodes j).commit) :
    (s.nodes i).log.take m = (s.nodes j).log.take m :=
  C15_state_machine_safety (reachQ_reach ho r).1 i j m hi hj

theorem Q_committed_never_rewritten {IsQ : Finset (Fin N) → Prop} (ho : Overlap IsQ) {s s' : Sys N} (r : ReachQ IsQ s)
    (st : StepQ IsQ s s') (y : Fin N) :
    (s'.nodes y).log.take (s.nodes y).commit = (s.nodes y).log.take (s.nodes y).commit ∧
    (s.nodes y).commit ≤ (s'.nodes y).commit ∧ (s.nodes y).term ≤ (s'.nodes y).term := by
  obtain ⟨r0, hE, hC⟩ := reachQ_reach ho r
  exact C15_committed_never_rewritten r0 (stepQ_step ho hE hC st).1 y

/-! `Overlap` cannot be dropped: with "every non-empty set is a quorum" two nodes of a two-node cluster both win term 1
    (each with its own vote), so election safety fails. -/

def ov1 : Sys 2 := doTimeout (init 2) 0
def ov2 : Sys 2 := doTimeout ov1 1
def ov3 : Sys 2 := doBecomeLeader ov2 0 {0}
def ov4 : Sys 2 := doBecomeLeader ov3 1 {1}

local macro "osimp" : tactic =>
  `(tactic| simp [ov4, ov3, ov2, ov1, init, doTimeout, doBecomeLeader, upd])

theorem overlap_needed : ∃ (IsQ : Finset (Fin 2) → Prop) (s : Sys 2), ReachQ IsQ s ∧
    (s.nodes 0).role = .leader ∧ (s.nodes 1).role = .leader ∧ (s.nodes 0).term = (s.nodes 1).term := by
  have r1 : ReachQ (fun Q : Finset (Fin 2) => Q.Nonempty) ov1 := .step .init (StepQ.timeout _ 0 (by simp [init]))
  have r2 : ReachQ (fun Q : Finset (Fin 2) => Q.Nonempty) ov2 := .step r1 (StepQ.timeout _ 1 (by osimp))
  have r3 : ReachQ (fun Q : Finset (Fin 2) => Q.Nonempty) ov3 :=
    .step r2 (StepQ.becomeLeader _ 0 {0} (by simp) (by osimp) (by intro j hj; simp at hj; exact Or.inl hj))
  have r4 : ReachQ (fun Q : Finset (Fin 2) => Q.Nonempty) ov4 :=
    .step r3 (StepQ.becomeLeader _ 1 {1} (by simp) (by osimp) (by intro j hj; simp at hj; exact Or.inl hj))
  exact ⟨_, ov4, r4, by osimp, by osimp, by osimp⟩

/-! ### instance 1: strict majority of `Fin N` — the old theorems by instantiation -/

def majQ (N : Nat) : Finset (Fin N) → Prop := fun Q => N < 2 * Q.card

theorem majQ_overlap : Overlap (majQ N) := by
  intro Q₁ Q₂ h1 h2
  obtain ⟨j, a, b⟩ := quorums_meet Q₁ Q₂ h1 h2
  exact ⟨j, Finset.mem_inter.2 ⟨a, b⟩⟩

/-- `RS.Step` is `StepQ majQ`, constructor by constructor -/
theorem rsStep_iff {s s' : Sys N} : RS.Step s s' ↔ StepQ (majQ N) s s' := by
  constructor
  · intro st
    cases st with
    | timeout i h => exact .timeout s i h
    | updateTerm i t ht => exact .updateTerm s i t ht
    | grant j c t li lt hm ht hv hu => exact .grant s j c t li lt hm ht hv hu
    | becomeLeader i Q hq hc hQ => exact .becomeLeader s i Q hq hc hQ
    | clientReq i v hl => exact .clientReq s i v hl
    | sendAE i prev cnt hl hp => exact .sendAE s i prev cnt hl hp
    | handleAE j src t prev pt ents cm hm ht hnl hmatch => exact .handleAE s j src t prev pt ents cm hm ht hnl hmatch
    | advanceCommit i k Q hl hk hterm hq hQ => exact .advanceCommit s i k Q hl hk hterm hq hQ
    | restart i => exact .restart s i
    | ackCommitted j src t prev pt ents cm hm ht hnl hlt => exact .ackCommitted s j src t prev pt ents cm hm ht hnl hlt
    | sendHB i dst c hl hc hack => exact .sendHB s i dst c hl hc hack
    | handleHB j src t c hm ht hnl => exact .handleHB s j src t c hm ht hnl
  · intro st
    cases st with
    | timeout i h => exact .timeout s i h
    | updateTerm i t ht => exact .updateTerm s i t ht
    | grant j c t li lt hm ht hv hu => exact .grant s j c t li lt hm ht hv hu
    | becomeLeader i Q hq hc hQ => exact .becomeLeader s i Q hq hc hQ
    | clientReq i v hl => exact .clientReq s i v hl
    | sendAE i prev cnt hl hp => exact .sendAE s i prev cnt hl hp
    | handleAE j src t prev pt ents cm hm ht hnl hmatch => exact .handleAE s j src t prev pt ents cm hm ht hnl hmatch
    | advanceCommit i k Q hl hk hterm hq hQ => exact .advanceCommit s i k Q hl hk hterm hq hQ
    | restart i => exact .restart s i
    | ackCommitted j src t prev pt ents cm hm ht hnl hlt => exact .ackCommitted s j src t prev pt ents cm hm ht hnl hlt
    | sendHB i dst c hl hc hack => exact .sendHB s i dst c hl hc hack
    | handleHB j src t c hm ht hnl => exact .handleHB s j src t c hm ht hnl

theorem rsReach_iff {s : Sys N} : RS.Reach s ↔ ReachQ (majQ N) s := by
  constructor
  · intro r
    induction r with
    | init => exact .init
    | step _ st ih => exact .step ih (rsStep_iff.1 st)
  · intro r
    induction r with
    | init => exact .init
    | step _ st ih => exact .step ih (rsStep_iff.2 st)

/-- the registered `RS.C15_*` statements, word for word, obtained from the quorum-generic development -/
theorem RS_election_safety_by_instance {s : Sys N} (r : RS.Reach s) (i j : Fin N)
    (hi : (s.nodes i).role = .leader) (hj : (s.nodes j).role = .leader)
    (ht : (s.nodes i).term = (s.nodes j).term) : i = j :=
  Q_election_safety majQ_overlap (rsReach_iff.1 r) i j hi hj ht

theorem RS_log_matching_by_instance {s : Sys N} (r : RS.Reach s) (i j : Fin N) (k : Nat) (h1 : 1 ≤ k)
    (hi : k ≤ (s.nodes i).log.length) (hj : k ≤ (s.nodes j).log.length)
    (ht : termAt (s.nodes i).log k = termAt (s.nodes j).log k) :
    (s.nodes i).log.take k = (s.nodes j).log.take k :=
  Q_log_matching majQ_overlap (rsReach_iff.1 r) i j k h1 hi hj ht

theorem RS_leader_completeness_by_instance {s : Sys N} (r : RS.Reach s) {k t t' : Nat} (c : s.cmt k t) (hlt : t < t')
    {l : Fin N} (hl : s.isLdr t' l) : k ≤ (s.llog t').length ∧ (s.llog t').take k = (s.llog t).take k :=
  Q_leader_completeness majQ_overlap (rsReach_iff.1 r) c hlt hl

theorem RS_state_machine_safety_by_instance {s : Sys N} (r : RS.Reach s) (i j : Fin N) (m : Nat)
    (hi : m ≤ (s.nodes i).commit) (hj : m ≤ (s.nodes j).commit) :
    (s.nodes i).log.take m = (s.nodes j).log.take m :=
  Q_state_machine_safety majQ_overlap (rsReach_iff.1 r) i j m hi hj

theorem RS_committed_never_rewritten_by_instance {s s' : Sys N} (r : RS.Reach s) (st : RS.Step s s') (y : Fin N) :
    (s'.nodes y).log.take (s.nodes y).commit = (s.nodes y).log.take (s.nodes y).commit ∧
    (s.nodes y).commit ≤ (s'.nodes y).commit ∧ (s.nodes y).term ≤ (s'.nodes y).term :=
  Q_committed_never_rewritten majQ_overlap (rsReach_iff.1 r) (rsStep_iff.1 st) y

/-! ### instance 2: majority of a subset of voters (the others are non-voting learners) -/

/-- the node ids of a set of nodes, as `RQJ` counts them -/
def idsOf (Q : Finset (Fin N)) : Finset Nat := Q.image Fin.val

theorem mem_idsOf {Q : Finset (Fin N)} {id : Nat} : id ∈ idsOf Q ↔ ∃ j, j ∈ Q ∧ j.val = id := by
  simp [idsOf]

/-- `Q` contains a strict majority of the voter ids `V` (`RQJ.IsQuorum`, the predicate proved equivalent to etcd's
    `MajorityConfig.VoteResult = VoteWon` / `CommittedIndex ≥ k` in `Props/C15Conf.lean`); members of `Q` outside `V`
    (learners) do not count -/
def votersQ (V : Finset Nat) : Finset (Fin N) → Prop := fun Q => RQJ.IsQuorum V (idsOf Q)

theorem votersQ_overlap (V : Finset Nat) : Overlap (votersQ (N := N) V) := by
  intro Q₁ Q₂ h1 h2
  obtain ⟨id, a, b, _⟩ := RQJ.majority_overlap_sets V _ _ h1 h2
  obtain ⟨j, hj, e⟩ := mem_idsOf.1 a
  obtain ⟨j', hj', e'⟩ := mem_idsOf.1 b
  have : j = j' := Fin.ext (by omega)
  subst this
  exact ⟨j, Finset.mem_inter.2 ⟨hj, hj'⟩⟩

/-! ### instance 3: a joint configuration -/

/-- `Q` is a quorum of both halves of `j` (`RQJ.IsJointQuorum`) -/
def jointQ (j : RQJ.JointConfig) : Finset (Fin N) → Prop := fun Q => RQJ.IsJointQuorum j (idsOf Q)

theorem jointQ_overlap (j : RQJ.JointConfig) (hne : j.incoming ≠ ∅ ∨ j.outgoing ≠ ∅) : Overlap (jointQ (N := N) j) := by
  intro Q₁ Q₂ h1 h2
  obtain ⟨id, _, a, b⟩ := RQJ.joint_overlap_joint j _ _ hne h1 h2
  obtain ⟨y, hy, e⟩ := mem_idsOf.1 a
  obtain ⟨y', hy', e'⟩ := mem_idsOf.1 b
  have : y = y' := Fin.ext (by omega)
  subst this
  exact ⟨y, Finset.mem_inter.2 ⟨hy, hy'⟩⟩

/-- all five theorems at once, for a quorum system `IsQ` with intersecting quorums -/
structure Safe (IsQ : Finset (Fin N) → Prop) : Prop where
  election_safety : ∀ {s : Sys N}, ReachQ IsQ s → ∀ i j : Fin N, (s.nodes i).role = .leader → (s.nodes j).role = .leader →
    (s.nodes i).term = (s.nodes j).term → i = j
  log_matching : ∀ {s : Sys N}, ReachQ IsQ s → ∀ (i j : Fin N) (k : Nat), 1 ≤ k → k ≤ (s.nodes i).log.length →
    k ≤ (s.nodes j).log.length → termAt (s.nodes i).log k = termAt (s.nodes j).log k →
    (s.nodes i).log.take k = (s.nodes j).log.take k
  leader_completeness : ∀ {s : Sys N}, ReachQ IsQ s → ∀ {k t t' : Nat}, s.cmt k t → t < t' → ∀ {l : Fin N}, s.isLdr t' l →
    k ≤ (s.llog t').length ∧ (s.llog t').take k = (s.llog t).take k
  state_machine_safety : ∀ {s : Sys N}, ReachQ IsQ s → ∀ (i j : Fin N) (m : Nat), m ≤ (s.nodes i).commit →
    m ≤ (s.nodes j).commit → (s.nodes i).log.take m = (s.nodes j).log.take m
  committed_never_rewritten : ∀ {s s' : Sys N}, ReachQ IsQ s → StepQ IsQ s s' → ∀ y : Fin N,
    (s'.nodes y).log.take (s.nodes y).commit = (s.nodes y).log.take (s.nodes y).commit ∧
    (s.nodes y).commit ≤ (s'.nodes y).commit ∧ (s.nodes y).term ≤ (s'.nodes y).term

theorem safe_of_overlap {IsQ : Finset (Fin N) → Prop} (ho : Overlap IsQ) : Safe IsQ :=
  ⟨fun r => Q_election_safety ho r, fun r => Q_log_matching ho r, fun r _ _ _ c hlt _ hl => Q_leader_completeness ho r c hlt hl,
   fun r => Q_state_machine_safety ho r, fun r st => Q_committed_never_rewritten ho r st⟩

/-- C15 for a cluster whose voters are the ids `V` and whose other nodes are learners -/
theorem voters_safe (V : Finset Nat) : Safe (votersQ (N := N) V) := safe_of_overlap (votersQ_overlap V)

/-- C15 for a cluster in the joint configuration `j` -/
theorem joint_safe (j : RQJ.JointConfig) (hne : j.incoming ≠ ∅ ∨ j.outgoing ≠ ∅) : Safe (jointQ (N := N) j) :=
  safe_of_overlap (jointQ_overlap j hne)

theorem majority_safe : Safe (majQ N) := safe_of_overlap majQ_overlap

/-- the instances are not vacuous: in a 3-node cluster with voters {0,1} and learner 2, {0,1} is a quorum and
    {0,2} (one voter and the learner) is NOT. -/
example : votersQ (N := 3) {0, 1} {0, 1} ∧ ¬ votersQ (N := 3) {0, 1} {0, 2} := by
  constructor <;> simp [votersQ, idsOf, RQJ.IsQuorum, RQJ.Maj] <;> decide

/-- a joint quorum of ({0,1,2},{1,2,3}) in a 4-node cluster: {1,2}; {0,1} is a majority of the incoming half only -/
example : jointQ (N := 4) ⟨{0, 1, 2}, {1, 2, 3}⟩ {1, 2} ∧ ¬ jointQ (N := 4) ⟨{0, 1, 2}, {1, 2, 3}⟩ {0, 1} := by
  constructor <;> simp [jointQ, idsOf, RQJ.IsJointQuorum, RQJ.JointMaj, RQJ.MajOrEmpty, RQJ.Maj] <;> decide

/-! a learner really takes part: with voters {0,1} of 3 nodes, node 0 is elected by {0,1}; the learner 2 accepts the leader's
    entries and its acknowledgement is recorded (`lq7`); the leader's no-op is committed only by the voters' quorum {0,1} (`lq9`). -/
def lq1 : Sys 3 := doTimeout (init 3) 0
def lq2 : Sys 3 := doUpdateTerm lq1 1 1
def lq3 : Sys 3 := doGrant lq2 1 0 1
def lq4 : Sys 3 := doBecomeLeader lq3 0 {0, 1}
def lq5 : Sys 3 := doUpdateTerm lq4 2 1
def lq6 : Sys 3 := doSendAE lq5 0 0 1
def lq7 : Sys 3 := doHandleAE lq6 2 0 1 0 [⟨1, 0⟩] 0
def lq8 : Sys 3 := doHandleAE lq7 1 0 1 0 [⟨1, 0⟩] 0
def lq9 : Sys 3 := doAdvanceCommit lq8 0 1

local macro "lsimp" : tactic =>
  `(tactic| simp [lq9, lq8, lq7, lq6, lq5, lq4, lq3, lq2, lq1, init, doTimeout, doUpdateTerm, doGrant,
      doBecomeLeader, doClientReq, doSendAE, doHandleAE, doAdvanceCommit, upd, lastTerm, termAt, upToDate, follAppend,
      appendFrom])

theorem q01 : votersQ (N := 3) {0, 1} {0, 1} := by
  simp [votersQ, idsOf, RQJ.IsQuorum, RQJ.Maj]; decide

theorem reach_lq9 : ReachQ (votersQ {0, 1}) lq9 := by
  have r1 : ReachQ (votersQ {0, 1}) lq1 := .step .init (StepQ.timeout _ 0 (by simp [init]))
  have r2 : ReachQ (votersQ {0, 1}) lq2 := .step r1 (StepQ.updateTerm _ 1 1 (by lsimp))
  have r3 : ReachQ (votersQ {0, 1}) lq3 := .step r2 (StepQ.grant _ 1 0 1 0 0 (by lsimp) (by lsimp) (by lsimp) (by lsimp))
  have r4 : ReachQ (votersQ {0, 1}) lq4 := .step r3 (StepQ.becomeLeader _ 0 {0, 1} q01 (by lsimp) (by
    intro j hj
    simp only [Finset.mem_insert, Finset.mem_singleton] at hj
    rcases hj with rfl | rfl
    · exact Or.inl rfl
    · right; lsimp))
  have r5 : ReachQ (votersQ {0, 1}) lq5 := .step r4 (StepQ.updateTerm _ 2 1 (by lsimp))
  have r6 : ReachQ (votersQ {0, 1}) lq6 := .step r5 (StepQ.sendAE _ 0 0 1 (by lsimp) (by lsimp))
  have r7 : ReachQ (votersQ {0, 1}) lq7 :=
    .step r6 (StepQ.handleAE _ 2 0 1 0 0 [⟨1, 0⟩] 0 (by lsimp) (by lsimp) (by lsimp) (by lsimp))
  have r8 : ReachQ (votersQ {0, 1}) lq8 :=
    .step r7 (StepQ.handleAE _ 1 0 1 0 0 [⟨1, 0⟩] 0 (by lsimp) (by lsimp) (by lsimp) (by lsimp))
  exact .step r8 (StepQ.advanceCommit _ 0 1 {0, 1} (by lsimp) (by lsimp) (by lsimp) q01 (by
    intro j hj
    simp only [Finset.mem_insert, Finset.mem_singleton] at hj
    rcases hj with rfl | rfl
    · exact ⟨1, Nat.le_refl _, by lsimp⟩
    · exact ⟨1, Nat.le_refl _, by lsimp⟩))

example : ∃ s : Sys 3, ReachQ (votersQ {0, 1}) s ∧ (s.nodes 0).role = .leader ∧ (s.nodes 0).commit = 1 ∧
    (s.nodes 2).log = [⟨1, 0⟩] ∧ s.acks 1 2 1 ∧ s.cmt 1 1 :=
  ⟨lq9, reach_lq9, by lsimp, by lsimp, by lsimp, by lsimp, by lsimp⟩

#print axioms Q_election_safety
#print axioms Q_log_matching
#print axioms Q_leader_completeness
#print axioms Q_state_machine_safety
#print axioms Q_committed_never_rewritten
#print axioms voters_safe
#print axioms joint_safe
#print axioms majority_safe
#print axioms overlap_needed
#print axioms RS_election_safety_by_instance
end RSQ
