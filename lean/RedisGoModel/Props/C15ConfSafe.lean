import RedisGoModel.Props.C15ConfDynInv

/-! C15 Stage D, step 2: **the safety theorems of the protocol with membership changes** (`Raft/RSC.lean`: configurations change
    through log entries and take effect at *apply* time, as in etcd; single-voter changes, learners, the `pendingConfIndex`
    proposal gate, the `hup` campaign gate, restarts that fall back to an earlier applied index).

    `C15_conf_statement` is the full statement — node state only, no ghosts — for every cluster size, every initial configuration,
    every schedule (loss, duplication, reordering, delay, partitions, restarts) and every sequence of membership changes.
    `C15_conf_holds` proves it.  The same theorems separately, with the ghost form of leader completeness, are
    `conf_election_safety`, `conf_log_matching`, `conf_leader_completeness`, `conf_leader_holds_committed`,
    `conf_state_machine_safety`, `conf_committed_never_rewritten`.  `conf_one_pending` is etcd's "at most one configuration change
    in flight" as a theorem of the model: any log has at most one conf-change entry above the node's commit index, a leader has at
    most one above its applied index.

    Both gates are used by this proof (they are what makes `CInv.cand`, `CInv.ldr`, `NodeOK.one` inductive); etcd has both:
    `raft.go` `hup` (`numOfPendingConf` over `(applied, committed]`) and `stepLeader` `MsgProp` (`alreadyPending :=
    pendingConfIndex > applied`, with `becomeLeader` setting `pendingConfIndex = lastIndex`). -/
namespace RSC
open RS hiding Inv0 Inv1 Inv2 Inv3 Inv4 Step Reach reach_inv leader_completeness committed_agree fresh_term QA QAc
  state_machine_safety committed_in_later_leader ldr_unique C15_election_safety C15_log_matching C15_leader_completeness
  C15_state_machine_safety C15_committed_never_rewritten commit_in_leader handleAE_keeps_committed
open RSQ

variable {N : Nat}

theorem conf_election_safety {c0 : RQJ.Config} {s : CSys N} (r : CReach c0 s) (i j : Fin N)
    (hi : (s.base.nodes i).role = .leader) (hj : (s.base.nodes j).role = .leader)
    (ht : (s.base.nodes i).term = (s.base.nodes j).term) : i = j :=
  C15_election_safety (creach_base r) i j hi hj ht

theorem conf_log_matching {c0 : RQJ.Config} {s : CSys N} (r : CReach c0 s) (i j : Fin N) (k : Nat) (h1 : 1 ≤ k)
    (hi : k ≤ (s.base.nodes i).log.length) (hj : k ≤ (s.base.nodes j).log.length)
    (ht : termAt (s.base.nodes i).log k = termAt (s.base.nodes j).log k) :
    (s.base.nodes i).log.take k = (s.base.nodes j).log.take k :=
  C15_log_matching (creach_base r) i j k h1 hi hj ht

/-- ghost form: whatever the leader of `t` marked committed is in the log of the leader of every later term -/
theorem conf_leader_completeness {c0 : RQJ.Config} {s : CSys N} (r : CReach c0 s) {k t t' : Nat} (c : s.base.cmt k t)
    (hlt : t < t') {l : Fin N} (hl : s.base.isLdr t' l) :
    k ≤ (s.base.llog t').length ∧ (s.base.llog t').take k = (s.base.llog t).take k :=
  C15_leader_completeness (creach_base r) c hlt hl

/-- node-state form: a node whose role is leader holds, at the same indexes, everything any node of no higher term has committed -/
theorem conf_leader_holds_committed {c0 : RQJ.Config} {s : CSys N} (r : CReach c0 s) (i j : Fin N)
    (hl : (s.base.nodes i).role = .leader) (ht : (s.base.nodes j).term ≤ (s.base.nodes i).term) :
    (s.base.nodes j).commit ≤ (s.base.nodes i).log.length ∧
    (s.base.nodes i).log.take (s.base.nodes j).commit = (s.base.nodes j).log.take (s.base.nodes j).commit := by
  obtain ⟨h0, h1, h2, h3, _⟩ := reach_inv (creach_base r)
  rcases (h3.n1 j).2 with hz | ⟨k, t, c, hck, htj, heq⟩
  · rw [hz]; simp
  · have hlog := h0.ldr_log i hl
    have hld := h0.ldr_role i hl
    rw [heq, hlog]
    by_cases hlt : t < (s.base.nodes i).term
    · obtain ⟨g1, g2⟩ := committed_in_later_leader h0 h1 h2 h3 c hlt hld
      refine ⟨by omega, ?_⟩
      have := congrArg (List.take (s.base.nodes j).commit) g2
      rwa [List.take_take, List.take_take, Nat.min_eq_left hck] at this
    · have : t = (s.base.nodes i).term := by omega
      subst this
      exact ⟨Nat.le_trans hck (h3.cm k _ c).2, rfl⟩

theorem conf_state_machine_safety {c0 : RQJ.Config} {s : CSys N} (r : CReach c0 s) (i j : Fin N) (m : Nat)
    (hi : m ≤ (s.base.nodes i).commit) (hj : m ≤ (s.base.nodes j).commit) :
    (s.base.nodes i).log.take m = (s.base.nodes j).log.take m :=
  C15_state_machine_safety (creach_base r) i j m hi hj

theorem conf_committed_never_rewritten {c0 : RQJ.Config} {lab : Label N} {s s' : CSys N} (r : CReach c0 s)
    (st : CStep c0 lab s s') (y : Fin N) :
    (s'.base.nodes y).log.take (s.base.nodes y).commit = (s.base.nodes y).log.take (s.base.nodes y).commit ∧
    (s.base.nodes y).commit ≤ (s'.base.nodes y).commit ∧ (s.base.nodes y).term ≤ (s'.base.nodes y).term := by
  rcases cstep_base st (linked_of_reach r st) with h | h
  · exact C15_committed_never_rewritten (creach_base r) h y
  · rw [h]; exact ⟨rfl, Nat.le_refl _, Nat.le_refl _⟩

/-- "one configuration change at a time", as the model has it: at most one conf-change entry above the commit index in any
    node's log, at most one above the applied index in a leader's log, and `applied ≤ commit` -/
theorem conf_one_pending {c0 : RQJ.Config} {s : CSys N} (r : CReach c0 s) (i : Fin N) :
    s.applied i ≤ (s.base.nodes i).commit ∧
    cnt (s.base.nodes i).log (s.base.nodes i).commit (s.base.nodes i).log.length ≤ 1 ∧
    ((s.base.nodes i).role = .leader → cnt (s.base.nodes i).log (s.applied i) (s.base.nodes i).log.length ≤ 1) :=
  ⟨(cinv_reach r).app_le i, (cinv_reach r).one i, (cinv_reach r).ldr i⟩

/-- the full statement of C15 with membership changes, on node state only -/
def C15_conf_statement : Prop :=
  ∀ (N : Nat) (c0 : RQJ.Config) (s : CSys N), CReach c0 s →
    -- election safety
    (∀ i j : Fin N, (s.base.nodes i).role = .leader → (s.base.nodes j).role = .leader →
      (s.base.nodes i).term = (s.base.nodes j).term → i = j) ∧
    -- log matching
    (∀ (i j : Fin N) (k : Nat), 1 ≤ k → k ≤ (s.base.nodes i).log.length → k ≤ (s.base.nodes j).log.length →
      termAt (s.base.nodes i).log k = termAt (s.base.nodes j).log k →
      (s.base.nodes i).log.take k = (s.base.nodes j).log.take k) ∧
    -- leader completeness
    (∀ i j : Fin N, (s.base.nodes i).role = .leader → (s.base.nodes j).term ≤ (s.base.nodes i).term →
      (s.base.nodes j).commit ≤ (s.base.nodes i).log.length ∧
      (s.base.nodes i).log.take (s.base.nodes j).commit = (s.base.nodes j).log.take (s.base.nodes j).commit) ∧
    -- state-machine safety
    (∀ (i j : Fin N) (m : Nat), m ≤ (s.base.nodes i).commit → m ≤ (s.base.nodes j).commit →
      (s.base.nodes i).log.take m = (s.base.nodes j).log.take m) ∧
    -- a committed prefix is never removed or rewritten; commit and term never regress
    (∀ (lab : Label N) (s' : CSys N), CStep c0 lab s s' → ∀ y : Fin N,
      (s'.base.nodes y).log.take (s.base.nodes y).commit = (s.base.nodes y).log.take (s.base.nodes y).commit ∧
      (s.base.nodes y).commit ≤ (s'.base.nodes y).commit ∧ (s.base.nodes y).term ≤ (s'.base.nodes y).term)

theorem C15_conf_holds : C15_conf_statement := by
  intro N c0 s r
  exact ⟨conf_election_safety r, conf_log_matching r, conf_leader_holds_committed r, conf_state_machine_safety r,
    fun _ _ st => conf_committed_never_rewritten r st⟩

/-! ### the statement is not vacuous: a run with an actual membership change

    Two nodes, initial configuration: node 0 (raft id 1) is the only voter. Node 0 campaigns and wins alone (`x2`), proposes
    "add voter id 2" (payload 9; accepted by the gate: `x3`), commits it alone — {0} is a quorum of (1) — (`x4`), applies its
    no-op and the conf change (`x6`).  Its configuration is now (1 2): {0} is no longer a quorum, {0,1} is.  A second conf change
    proposed before the first was applied would have been replaced by an empty entry (`gate_refuses`). -/

def c1 : RQJ.Config := ⟨{1}, ∅, ∅, ∅, false⟩

def x1 : CSys 2 := { cinit 2 with base := doTimeout (cinit 2).base 0, pend := updN (cinit 2).pend 0 0 }
def x2 : CSys 2 := cBecomeLeader x1 0 {0}
def x3 : CSys 2 := cPropose x2 0 9
def x4 : CSys 2 := cAdvanceCommit x3 0 2
def x5 : CSys 2 := { x4 with applied := updN x4.applied 0 (x4.applied 0 + 1) }
def x6 : CSys 2 := { x5 with applied := updN x5.applied 0 (x5.applied 0 + 1) }

local macro "xsimp" : tactic =>
  `(tactic| simp [x6, x5, x4, x3, x2, x1, cinit, init, cBecomeLeader, cPropose, cAdvanceCommit, gate, gateB, isConfData, ccOf, doTimeout,
      doBecomeLeader, doClientReq, doAdvanceCommit, upd, updN, termAt, cfg, cfgAt, applyEntry])

theorem x3_log : (x3.base.nodes 0).log = [⟨1, 0⟩, ⟨1, 9⟩] := by xsimp

theorem q0 : IsQuorumC (N := 2) c1 {0} := by
  simp [IsQuorumC, nidsOf, nid, RQJ.IsQuorum, RQJ.Maj, c1]; decide

theorem reach_x6 : CReach c1 x6 := by
  have r1 : CReach c1 x1 := .step .init (CStep.timeout _ 0 (by simp [cinit, init])
    (by simp [cfg, cfgAt, cinit, init, nid, c1]) (by intro k h1 h2; simp [cinit, init] at h2; omega))
  have r2 : CReach c1 x2 := .step r1 (CStep.becomeLeader _ 0 {0}
    (by simpa [cfg, cfgAt, x1, cinit, init, doTimeout, upd] using q0) (by xsimp) (by intro j hj; simp at hj; exact Or.inl hj))
  have r3 : CReach c1 x3 := .step r2 (CStep.propose _ 0 9 (by xsimp))
  have r4 : CReach c1 x4 := .step r3 (CStep.advanceCommit _ 0 2 {0} (by xsimp) (by xsimp) (by xsimp)
    (by simpa [cfg, cfgAt, x3, x2, x1, cinit, init, cBecomeLeader, cPropose, doTimeout, doBecomeLeader, doClientReq, upd, updN] using q0)
    (by intro j hj; simp at hj; subst hj; exact ⟨2, Nat.le_refl _, by xsimp⟩))
  have r5 : CReach c1 x5 := .step r4 (CStep.apply _ 0 (by xsimp))
  exact .step r5 (CStep.apply _ 0 (by xsimp))

/-- after the change is applied the leader's configuration has voters (1 2) -/
theorem x6_voters : (cfg c1 x6 0).voters = {1, 2} := by
  have h1 : x6.applied 0 = 2 := by xsimp
  have h2 : (x6.base.nodes 0).log = [⟨1, 0⟩, ⟨1, 9⟩] := by xsimp
  unfold cfg
  rw [h1, h2]
  simp only [cfgAt, List.take, List.foldl, applyEntry, ccOf]
  decide

example : ∃ s : CSys 2, CReach c1 s ∧ (s.base.nodes 0).role = .leader ∧ (cfg c1 s 0).voters = {1, 2} ∧
    ¬ IsQuorumC (cfg c1 s 0) ({0} : Finset (Fin 2)) ∧ IsQuorumC (cfg c1 s 0) ({0, 1} : Finset (Fin 2)) := by
  refine ⟨x6, reach_x6, by xsimp, x6_voters, ?_, ?_⟩
  · simp [IsQuorumC, nidsOf, nid, RQJ.IsQuorum, RQJ.Maj, x6_voters]; decide
  · simp [IsQuorumC, nidsOf, nid, RQJ.IsQuorum, RQJ.Maj, x6_voters]; decide

/-- the proposal gate: in `x3` (conf change at index 2 appended, nothing applied) a second conf change is replaced by an empty entry;
    in `x6` (applied) it is accepted -/
theorem gate_refuses : gate x3 0 13 = 0 ∧ gate x6 0 13 = 13 := by
  constructor <;> xsimp

/-- the conf-change bits of the entries in `(applied, commit]` of node `i` — what an `HP` line of the lock-step trace carries -/
def pendingFlags (s : CSys N) (i : Fin N) : List Bool :=
  (List.range ((s.base.nodes i).commit - s.applied i)).map fun d => confAt (s.base.nodes i).log (s.applied i + d + 1)

/-- `RSC.campaignGate` (the function the lock-step driver compares with `RawNode.Campaign()`) is exactly the guard of the model's `timeout` step -/
theorem campaignGate_iff (c0 : RQJ.Config) (s : CSys N) (i : Fin N) :
    campaignGate (decide ((s.base.nodes i).role = .leader)) (nid i) (cfg c0 s i) (pendingFlags s i) = true ↔
    ((s.base.nodes i).role ≠ .leader ∧ nid i ∈ (cfg c0 s i).voters ∧
      ∀ k, s.applied i < k → k ≤ (s.base.nodes i).commit → confAt (s.base.nodes i).log k = false) := by
  unfold campaignGate pendingFlags
  simp only [Bool.and_eq_true, Bool.not_eq_true', decide_eq_false_iff_not, decide_eq_true_eq, List.any_eq_false, List.mem_map,
    List.mem_range]
  constructor
  · rintro ⟨⟨h1, h2⟩, h3⟩
    refine ⟨h1, h2, fun k hk1 hk2 => ?_⟩
    cases hc : confAt (s.base.nodes i).log k with
    | false => rfl
    | true =>
      exact absurd rfl (h3 true ⟨k - s.applied i - 1, by omega, by rw [show s.applied i + (k - s.applied i - 1) + 1 = k by omega]; exact hc⟩)
  · rintro ⟨h1, h2, h3⟩
    refine ⟨⟨h1, h2⟩, ?_⟩
    rintro b ⟨d, hd, rfl⟩
    rw [h3 _ (by omega) (by omega)]; simp

#print axioms campaignGate_iff

#print axioms C15_conf_holds
#print axioms conf_election_safety
#print axioms conf_log_matching
#print axioms conf_leader_completeness
#print axioms conf_leader_holds_committed
#print axioms conf_state_machine_safety
#print axioms conf_committed_never_rewritten
#print axioms conf_one_pending
#print axioms cinv_reach
#print axioms electOK_of_cinv
#print axioms commitOK_of_cinv
end RSC
