import Mathlib.Tactic.Ring
import RedisGoModel.Wal.WalSeq
import RedisGoModel.Wal.Seq
/-! C16: record sequences through the rolling CRC-32C — prefix decoding, single-byte payload corruption, padding. -/
namespace WalCodec

/-! ### basic facts -/

theorem decodeFrame_eq_E (bs : Bytes) :
    decodeFrame bs = (match decodeFrameE bs with | .ok x => some x | .error _ => none) := by
  unfold decodeFrame decodeFrameE
  cases readLE64 bs with
  | none => rfl
  | some p =>
    obtain ⟨l, rest⟩ := p
    simp only
    by_cases h0 : l = 0
    · simp [h0]
    · simp only [h0, if_false]
      by_cases hs : rest.length < (decodeFrameSize l).1 + (decodeFrameSize l).2
      · simp [hs]
      · simp only [hs, if_false]
        cases unmarshal (List.take (decodeFrameSize l).1 rest) <;> rfl

theorem decodeFrameE_of_some {bs : Bytes} {x : Record × Bytes} (h : decodeFrame bs = some x) : decodeFrameE bs = .ok x := by
  rw [decodeFrame_eq_E] at h
  cases hE : decodeFrameE bs with
  | error e => rw [hE] at h; simp at h
  | ok y => rw [hE] at h; simp at h; rw [h]

theorem encVarint_length_le (n : Nat) (hn : n < 2 ^ 64) : (encVarint n).length ≤ 10 := by
  have : ∀ k n, n < 2 ^ (7 * k) → 1 ≤ k → (encVarint n).length ≤ k := by
    intro k
    induction k with
    | zero => intro n _ h; omega
    | succ k ihk =>
      intro n hn _
      rw [encVarint]
      split
      · simp
      · rename_i hge
        simp only [List.length_cons]
        have hk : 1 ≤ k := by
          rcases Nat.eq_zero_or_pos k with rfl | h
          · simp at hn; omega
          · exact h
        have : n / 128 < 2 ^ (7 * k) := by
          have e : 2 ^ (7 * (k + 1)) = 128 * 2 ^ (7 * k) := by
            rw [show 7 * (k + 1) = 7 * k + 7 from by ring, Nat.pow_add]; ring
          rw [e] at hn
          exact Nat.div_lt_of_lt_mul hn
        have := ihk (n / 128) this hk
        omega
  exact this 10 n (Nat.lt_of_lt_of_le hn (by decide)) (by omega)

theorem marshal_length_lt (ty c : Nat) (d : Option Bytes) (ht : ty < 2 ^ 64) (hc : c < 2 ^ 32)
    (hd : ∀ x, d = some x → x.length < 2 ^ 55) : (marshal ⟨ty, c, d⟩).length < 2 ^ 56 := by
  have a := encVarint_length_le ty ht
  have b := encVarint_length_le c (Nat.lt_of_lt_of_le hc (by decide))
  have : (2 : Nat) ^ 55 + 100 < 2 ^ 56 := by decide
  cases d with
  | none => simp only [marshal, List.length_append, List.length_cons, List.length_nil]; omega
  | some x =>
    have hx := hd x rfl
    have c' := encVarint_length_le x.length (Nat.lt_trans hx (by decide))
    simp only [marshal, List.length_append, List.length_cons, List.length_nil]
    omega

theorem crcUpdate_lt {c : Nat} (hc : c < 2 ^ 32) (b : Bytes) : crcUpdate c b < 2 ^ 32 := by
  unfold crcUpdate Crc3.update
  exact Nat.xor_lt_two_pow (Crc3.foldl_upd_lt (Nat.xor_lt_two_pow hc (by decide)) _) (by decide)

/-- a 32-bit-preserving CRC update function (what `crcUpdate` is, see `crcUpdate_lt`) -/
def Upd32 (upd : Nat → Bytes → Nat) : Prop := ∀ c d, c < 2 ^ 32 → upd c d < 2 ^ 32

theorem upd32_crcUpdate : Upd32 crcUpdate := fun _ d hc => crcUpdate_lt hc d

/-- the hypotheses on the items handed to the encoder -/
def ItemOk (it : Item) : Prop := it.type < 2 ^ 64 ∧ it.data.length < 2 ^ 55

theorem crcAfter_lt {upd : Nat → Bytes → Nat} (hupd : Upd32 upd) (items : List Item) {crc : Nat} (hc : crc < 2 ^ 32) :
    crcAfter upd crc items < 2 ^ 32 := by
  induction items generalizing crc with
  | nil => exact hc
  | cons it rest ih => exact ih (hupd _ _ hc)

theorem crcAfter_append (upd : Nat → Bytes → Nat) (a b : List Item) (crc : Nat) :
    crcAfter upd crc (a ++ b) = crcAfter upd (crcAfter upd crc a) b := by
  induction a generalizing crc with
  | nil => rfl
  | cons it rest ih => exact ih _

theorem encodeAll_append (upd : Nat → Bytes → Nat) (a b : List Item) (crc : Nat) :
    encodeAll upd crc (a ++ b) = encodeAll upd crc a ++ encodeAll upd (crcAfter upd crc a) b := by
  induction a generalizing crc with
  | nil => rfl
  | cons it rest ih => simp only [List.cons_append, encodeAll, crcAfter, ih, List.append_assoc]

/-- one well-formed data frame, as `decodeFrame` reads it back -/
theorem frame_item (ty c : Nat) (d : Bytes) (ht : ty < 2 ^ 64) (hc : c < 2 ^ 32) (hd : d.length < 2 ^ 55) (rest : Bytes) :
    decodeFrame (encodeFrame ⟨ty, c, some d⟩ ++ rest) = some (⟨ty, c, some d⟩, rest) :=
  frame_roundtrip ⟨ty, c, some d⟩ ht hc
    (fun x hx => by simp at hx; subst hx; exact Nat.lt_trans hd (by decide))
    (marshal_length_lt ty c (some d) ht hc (fun x hx => by simp at hx; subst hx; exact hd)) rest

/-! ### decoding a written prefix -/

theorem decodeAllP_prefix {upd : Nat → Bytes → Nat} (hupd : Upd32 upd) (pre : List Item) (crc : Nat) (hc : crc < 2 ^ 32)
    (hok : ∀ it ∈ pre, ItemOk it) (fuel : Nat) (rest : Bytes) :
    decodeAllP upd (pre.length + fuel) crc (encodeAll upd crc pre ++ rest) =
      (pre ++ (decodeAllP upd fuel (crcAfter upd crc pre) rest).1, (decodeAllP upd fuel (crcAfter upd crc pre) rest).2) := by
  induction pre generalizing crc with
  | nil => simp [encodeAll, crcAfter]
  | cons it r ih =>
    have h1 := hok it (by simp)
    simp only [encodeAll, List.length_cons, List.append_assoc, crcAfter]
    rw [show r.length + 1 + fuel = (r.length + fuel) + 1 by omega, decodeAllP,
      decodeFrameE_of_some (frame_item it.type (upd crc it.data) it.data h1.1 (hupd _ _ hc) h1.2 _)]
    simp only [if_true]
    rw [ih (upd crc it.data) (hupd _ _ hc) (fun x hx => hok x (by simp [hx]))]
    simp

theorem decodeAll_prefix {upd : Nat → Bytes → Nat} (hupd : Upd32 upd) (pre : List Item) (crc : Nat) (hc : crc < 2 ^ 32)
    (hok : ∀ it ∈ pre, ItemOk it) (fuel : Nat) (rest : Bytes) :
    decodeAll upd (pre.length + fuel) crc (encodeAll upd crc pre ++ rest) =
      (decodeAll upd fuel (crcAfter upd crc pre) rest).map (pre ++ ·) := by
  induction pre generalizing crc with
  | nil => simp [encodeAll, crcAfter]
  | cons it r ih =>
    have h1 := hok it (by simp)
    simp only [encodeAll, List.length_cons, List.append_assoc, crcAfter]
    rw [show r.length + 1 + fuel = (r.length + fuel) + 1 by omega, decodeAll,
      frame_item it.type (upd crc it.data) it.data h1.1 (hupd _ _ hc) h1.2 _]
    simp only [if_true]
    rw [ih (upd crc it.data) (hupd _ _ hc) (fun x hx => hok x (by simp [hx]))]
    cases decodeAll upd fuel (crcAfter upd (upd crc it.data) r) rest <;> simp

/-! ### item 1: one changed payload byte -/

/-- the on-disk image after byte `x` of the payload of item `it = ⟨ty, dpre ++ x :: dsuf⟩` has been replaced by `y`:
    the frames before and after, the length field, the type and the stored CRC are as written -/
def corruptImage (crc : Nat) (pre : List Item) (ty : Nat) (dpre : Bytes) (x y : UInt8) (dsuf : Bytes) (post : List Item)
    (tail : Bytes) : Bytes :=
  let c0 := crcAfter crcUpdate crc pre
  let c1 := crcUpdate c0 (dpre ++ x :: dsuf)
  encodeAll crcUpdate crc pre ++ (encodeFrame ⟨ty, c1, some (dpre ++ y :: dsuf)⟩ ++ (encodeAll crcUpdate c1 post ++ tail))

theorem crc_payload_ne (c : Nat) (hc : c < 2 ^ 32) (dpre dsuf : Bytes) (x y : UInt8) (hxy : x ≠ y) :
    crcUpdate c (dpre ++ y :: dsuf) ≠ crcUpdate c (dpre ++ x :: dsuf) := by
  unfold crcUpdate toNats
  simp only [List.map_append, List.map_cons]
  apply Crc3.crc_single_byte c hc _ _ _ _ (UInt8.toNat_lt y) (UInt8.toNat_lt x)
  intro h
  exact hxy (UInt8.toNat_inj.mp h).symm

/-- **one changed payload byte** (prefix form): decoding the damaged image returns exactly the records before the
    damaged one and ends with a CRC error — never modified data. -/
theorem single_byte_payload (crc : Nat) (hc : crc < 2 ^ 32) (pre : List Item) (ty : Nat) (dpre : Bytes) (x y : UInt8)
    (dsuf : Bytes) (post : List Item) (tail : Bytes) (hxy : x ≠ y)
    (hpre : ∀ it ∈ pre, ItemOk it) (hit : ItemOk ⟨ty, dpre ++ x :: dsuf⟩) (fuel : Nat) :
    decodeAllP crcUpdate (pre.length + (fuel + 1)) crc (corruptImage crc pre ty dpre x y dsuf post tail) = (pre, .crc) := by
  unfold corruptImage
  simp only
  rw [decodeAllP_prefix upd32_crcUpdate pre crc hc hpre]
  have hc0 := crcAfter_lt upd32_crcUpdate pre hc
  have hlen : (dpre ++ y :: dsuf).length < 2 ^ 55 := by
    have := hit.2; simp only [List.length_append, List.length_cons] at this ⊢; exact this
  rw [decodeAllP, decodeFrameE_of_some (frame_item ty _ _ hit.1 (crcUpdate_lt hc0 _) hlen _)]
  simp only
  rw [if_neg (crc_payload_ne _ hc0 dpre dsuf x y hxy)]
  simp

/-- the same for `decodeAll`: the damaged image is rejected -/
theorem single_byte_payload_decodeAll (crc : Nat) (hc : crc < 2 ^ 32) (pre : List Item) (ty : Nat) (dpre : Bytes) (x y : UInt8)
    (dsuf : Bytes) (post : List Item) (tail : Bytes) (hxy : x ≠ y)
    (hpre : ∀ it ∈ pre, ItemOk it) (hit : ItemOk ⟨ty, dpre ++ x :: dsuf⟩) (fuel : Nat) :
    decodeAll crcUpdate (pre.length + (fuel + 1)) crc (corruptImage crc pre ty dpre x y dsuf post tail) = none := by
  unfold corruptImage
  simp only
  rw [decodeAll_prefix upd32_crcUpdate pre crc hc hpre]
  have hc0 := crcAfter_lt upd32_crcUpdate pre hc
  have hlen : (dpre ++ y :: dsuf).length < 2 ^ 55 := by
    have := hit.2; simp only [List.length_append, List.length_cons] at this ⊢; exact this
  rw [decodeAll, frame_item ty _ _ hit.1 (crcUpdate_lt hc0 _) hlen _]
  simp only
  rw [if_neg (crc_payload_ne _ hc0 dpre dsuf x y hxy)]
  simp

/-! the damaged image really is the written image with one byte replaced -/

theorem frame_split (ty c n : Nat) : ∃ A B : Bytes, ∀ d : Bytes, d.length = n → encodeFrame ⟨ty, c, some d⟩ = A ++ (d ++ B) := by
  let L := (marshal ⟨ty, c, some (List.replicate n 0)⟩).length
  refine ⟨le64 (encodeFrameSize L).1 ++ ([0x08] ++ encVarint ty ++ ([0x10] ++ encVarint c ++ ([0x1a] ++ encVarint n))),
    List.replicate (encodeFrameSize L).2 0, ?_⟩
  intro d hd
  have hL : (marshal ⟨ty, c, some d⟩).length = L := by
    simp only [L, marshal, List.length_append, List.length_cons, List.length_nil, List.length_replicate, hd]
  unfold encodeFrame
  simp only [hL]
  simp only [marshal, hd, List.append_assoc]

theorem set_mid (A p s B : Bytes) (x y : UInt8) :
    (A ++ ((p ++ x :: s) ++ B)).set (A.length + p.length) y = A ++ ((p ++ y :: s) ++ B) ∧
    (A ++ ((p ++ x :: s) ++ B))[A.length + p.length]? = some x := by
  constructor
  · rw [List.set_append_right _ _ (by omega), List.append_assoc, List.set_append_right _ _ (by omega)]
    simp
  · rw [List.getElem?_append_right (by omega), List.append_assoc, List.getElem?_append_right (by omega)]
    simp

/-- `corruptImage` is the written image with the byte at one position (inside the payload of the chosen record, where
    `x` was written) replaced by `y` -/
theorem corruptImage_eq_set (crc : Nat) (pre : List Item) (ty : Nat) (dpre : Bytes) (x y : UInt8) (dsuf : Bytes)
    (post : List Item) (tail : Bytes) :
    ∃ k, (encodeAll crcUpdate crc (pre ++ ⟨ty, dpre ++ x :: dsuf⟩ :: post) ++ tail)[k]? = some x ∧
      corruptImage crc pre ty dpre x y dsuf post tail =
        (encodeAll crcUpdate crc (pre ++ ⟨ty, dpre ++ x :: dsuf⟩ :: post) ++ tail).set k y := by
  obtain ⟨A, B, hAB⟩ := frame_split ty (crcUpdate (crcAfter crcUpdate crc pre) (dpre ++ x :: dsuf)) (dpre ++ x :: dsuf).length
  have e1 := hAB (dpre ++ x :: dsuf) rfl
  have e2 := hAB (dpre ++ y :: dsuf) (by simp)
  refine ⟨(encodeAll crcUpdate crc pre ++ A).length + dpre.length, ?_, ?_⟩
  · rw [encodeAll_append]
    simp only [encodeAll, e1, List.append_assoc]
    have := (set_mid (encodeAll crcUpdate crc pre ++ A) dpre dsuf
      (B ++ (encodeAll crcUpdate (crcUpdate (crcAfter crcUpdate crc pre) (dpre ++ x :: dsuf)) post ++ tail)) x y).2
    simpa only [List.append_assoc] using this
  · unfold corruptImage
    rw [encodeAll_append]
    simp only [encodeAll, e1, e2, List.append_assoc]
    have := (set_mid (encodeAll crcUpdate crc pre ++ A) dpre dsuf
      (B ++ (encodeAll crcUpdate (crcUpdate (crcAfter crcUpdate crc pre) (dpre ++ x :: dsuf)) post ++ tail)) x y).1
    simpa only [List.append_assoc] using this.symm

/-! ### item 2: padding bytes are not looked at -/

theorem readLE64_append (h : Bytes) (hh : h.length = 8) (t : Bytes) :
    ∃ l, readLE64 h = some (l, []) ∧ readLE64 (h ++ t) = some (l, t) := by
  match h, hh with
  | [b0, b1, b2, b3, b4, b5, b6, b7], _ => exact ⟨_, rfl, rfl⟩

/-- on arbitrary input: with `h` the 8-byte length field announcing `a.length` record bytes and `p.length` padding
    bytes, `decodeFrame` returns the same record and the same remaining input whatever the padding bytes are
    (`rec.Unmarshal(data[:recBytes])` slices them off) -/
theorem decodeFrame_padding (h a p p' t : Bytes) (hh : h.length = 8) (l : Nat) (hl : readLE64 h = some (l, []))
    (ha : a.length = (decodeFrameSize l).1) (hp : p.length = (decodeFrameSize l).2) (hp' : p'.length = p.length) :
    decodeFrame (h ++ (a ++ (p' ++ t))) = decodeFrame (h ++ (a ++ (p ++ t))) := by
  obtain ⟨l1, e1, e2⟩ := readLE64_append h hh (a ++ (p' ++ t))
  obtain ⟨l2, e3, e4⟩ := readLE64_append h hh (a ++ (p ++ t))
  rw [hl] at e1 e3
  simp only [Option.some.injEq, Prod.mk.injEq, and_true] at e1 e3
  subst e1; subst e3
  unfold decodeFrame
  rw [e2, e4]
  simp only
  by_cases h0 : l = 0
  · simp [h0]
  · simp only [h0, if_false]
    rw [← ha, ← hp]
    have n1 : ¬ (a ++ (p' ++ t)).length < a.length + p.length := by simp only [List.length_append]; omega
    have n2 : ¬ (a ++ (p ++ t)).length < a.length + p.length := by simp only [List.length_append]; omega
    rw [if_neg n1, if_neg n2, List.take_left' rfl, List.take_left' rfl]
    have d1 : (a ++ (p' ++ t)).drop (a.length + p.length) = t := by
      rw [← List.append_assoc]; exact List.drop_left' (by simp [hp'])
    have d2 : (a ++ (p ++ t)).drop (a.length + p.length) = t := by
      rw [← List.append_assoc]; exact List.drop_left' (by simp)
    rw [d1, d2]

/-- a written frame with its padding replaced by arbitrary bytes of the same length decodes to the same record -/
theorem framePad_roundtrip (r : Record) (ht : r.type < 2 ^ 64) (hc : r.crc < 2 ^ 32)
    (hd : ∀ d, r.data = some d → d.length < 2 ^ 63) (hsz : (marshal r).length < 2 ^ 56) (pad rest : Bytes)
    (hpad : pad.length = (encodeFrameSize (marshal r).length).2) :
    decodeFrame (encodeFramePad r pad ++ rest) = some (r, rest) := by
  rw [← frame_roundtrip r ht hc hd hsz rest]
  unfold encodeFramePad encodeFrame
  simp only [List.append_assoc]
  have hlen : (le64 (encodeFrameSize (marshal r).length).1).length = 8 := by simp [le64]
  have hl := le64_roundtrip _ (frameSize_lt _ hsz) []
  rw [List.append_nil] at hl
  have hfs := frameSize_roundtrip _ hsz
  exact decodeFrame_padding _ (marshal r) _ pad rest hlen _ hl (by rw [hfs]) (by rw [hfs]; simp) (by simp [hpad])

/-- **padding** (item 2): for one frame, arbitrary padding bytes of the right length give the same `decodeFrame` result
    as the zeros the encoder writes -/
theorem single_byte_padding (r : Record) (ht : r.type < 2 ^ 64) (hc : r.crc < 2 ^ 32)
    (hd : ∀ d, r.data = some d → d.length < 2 ^ 63) (hsz : (marshal r).length < 2 ^ 56) (pad rest : Bytes)
    (hpad : pad.length = (encodeFrameSize (marshal r).length).2) :
    decodeFrame (encodeFramePad r pad ++ rest) = decodeFrame (encodeFrame r ++ rest) := by
  rw [framePad_roundtrip r ht hc hd hsz pad rest hpad, frame_roundtrip r ht hc hd hsz rest]

/-- the padding of each frame has the length the encoder gives it -/
def PadOk (upd : Nat → Bytes → Nat) : Nat → List (Item × Bytes) → Prop
| _, [] => True
| crc, (it, pad) :: rest =>
    pad.length = (encodeFrameSize (marshal ⟨it.type, upd crc it.data, some it.data⟩).length).2 ∧ PadOk upd (upd crc it.data) rest

/-- lifted to the record loop: a stream whose padding bytes are arbitrary decodes to the same items -/
theorem padding_decodeAll {upd : Nat → Bytes → Nat} (hupd : Upd32 upd) (items : List (Item × Bytes)) (crc : Nat)
    (hc : crc < 2 ^ 32) (hok : ∀ ip ∈ items, ItemOk ip.1) (hpad : PadOk upd crc items) (tail : Bytes) :
    decodeAll upd (items.length + 1) crc (encodeAllPad upd crc items ++ (List.replicate 8 0 ++ tail)) =
      some (items.map (·.1)) := by
  induction items generalizing crc with
  | nil =>
    simp only [encodeAllPad, List.length_nil, List.nil_append, Nat.zero_add]
    rw [decodeAll, decodeFrame_zeros]; rfl
  | cons ip rest ih =>
    obtain ⟨it, pad⟩ := ip
    have h1 : ItemOk it := hok (it, pad) (by simp)
    obtain ⟨hp, hrest⟩ := hpad
    simp only [encodeAllPad, List.length_cons, List.append_assoc]
    rw [decodeAll, framePad_roundtrip ⟨it.type, upd crc it.data, some it.data⟩ h1.1 (hupd _ _ hc)
      (fun x hx => by simp at hx; subst hx; exact Nat.lt_trans h1.2 (by decide))
      (marshal_length_lt _ _ _ h1.1 (hupd _ _ hc) (fun x hx => by simp at hx; subst hx; exact h1.2)) pad _ hp]
    simp only [if_true]
    rw [ih (upd crc it.data) (hupd _ _ hc) (fun x hx => hok x (by simp [hx])) hrest]
    simp

/-- with zero padding `encodeAllPad` is `encodeAll` -/
theorem encodeAllPad_zero (upd : Nat → Bytes → Nat) (items : List Item) (crc : Nat) :
    ∃ ps : List (Item × Bytes), ps.map (·.1) = items ∧ PadOk upd crc ps ∧ encodeAllPad upd crc ps = encodeAll upd crc items := by
  induction items generalizing crc with
  | nil => exact ⟨[], rfl, trivial, rfl⟩
  | cons it rest ih =>
    obtain ⟨ps, h1, h2, h3⟩ := ih (upd crc it.data)
    refine ⟨(it, List.replicate (encodeFrameSize (marshal ⟨it.type, upd crc it.data, some it.data⟩).length).2 0) :: ps,
      by simp [h1], ⟨by simp, h2⟩, ?_⟩
    simp only [encodeAllPad, encodeAll, h3, encodeFramePad, encodeFrame]

#print axioms single_byte_padding
#print axioms padding_decodeAll
#print axioms single_byte_payload
#print axioms single_byte_payload_decodeAll
end WalCodec
