import RedisGoModel.Conc.PubSubSlow
/-! # C19 with slow consumers: what a subscriber that stops reading does to the server (model `PSS`, `Conc/PubSubSlow.lean`)

The positive theorems are in the sister files:
* `Props/C19SlowInv.lean` — `healthy_not_affected`, `send_end_complete`, `removed_only_dead_or_unsubscribed` (safety: whatever the environment does
  to connection X, every other member of the channel gets every message published on it once, in publish order, and is never pruned while alive);
* `Props/C19SlowLive.lean` — `stall_only_delays_partial`, `reply_counts_deliveries` (under fairness towards the sender a Send that holds the channel
  lock terminates and its reply is the number of its deliveries); `Props/C19SlowLiveFull.lean` — `stall_only_delays` (every stall ends + strongly
  fair scheduler ⇒ every invoked operation completes, from its invocation);
* `Props/C19SlowConfirm.lean` — `confirm_after_join` and the negative companion `confirm_before_join_misses`.

This file: the NEGATIVE side, kernel-checked.  `ChanMap.Send` calls `c.Write(push)` on a `net.Conn` with no deadline while it holds the channel
object's lock.  If the peer never reads again and never closes, `Write` never returns:

* `stuck_sound` — the waiting conditions of the model (`stuck`): a thread whose condition holds has no enabled step, whatever `range` yields;
* `frozen_persists` — a state in which every thread is stuck stays exactly as it is (threads, locks, table, subscriber sets, completion records,
  deliveries) along EVERY continuation in which the environment does not end the stall of a connection some sender is writing to (it may stall,
  resume and kill every other connection);
* `stalled_subscriber_blocks_channel_and_table` — such a state is reachable with programs of the real code: connection 1 subscribes to channel `a`
  and stops reading; a PUBLISH on `a` sits in `Write` holding the channel lock; a second PUBLISH on `a` waits for the channel lock; a SUBSCRIBE of
  another connection to `a` has taken the table-wide write lock (`m.rw.Lock()` in `Subscribe`) and waits for the channel lock; behind it a
  PUBLISH on ANOTHER channel `b` and an UNSUBSCRIBE wait for the table lock;
* `never_block_publishers_needs_fairness_partial` — the two together: from that reachable state no operation ever completes, unless the
  environment resumes or kills connection 1.

So the sentence of C19 "subscribing, publishing and disconnecting concurrently never … block publishers indefinitely" is TRUE OF THE GO CODE ONLY
UNDER THE FAIRNESS READING "every subscriber that stops reading eventually reads again or closes" (`stall_only_delays`); without it the
code blocks the channel and, through `Subscribe`'s table-wide lock, every channel.  This is a finding about the code (not repaired here: a repair
needs a per-write deadline or a per-subscriber queue — the seeded `C19-publish-shared-deadline` shows how a careless deadline breaks
`healthy_not_affected`).  The name carries `_partial` because the unconditional sentence of the property is refuted, not proved. -/
set_option linter.unusedSimpArgs false
set_option linter.unusedVariables false
namespace PSS
open PubSub (Chan Conn Payload)
variable {n : Nat}

/-- the waiting condition of thread `u`: finished, or waiting for the table lock, for a channel object's lock, or inside `Write` on a stalled connection -/
def stuck (s : St n) (u : Fin n) : Bool :=
  match (s.thr u).pc with
  | .idle => (s.thr u).prog.isEmpty
  | .s0 => s.tw.isSome
  | .u0 => s.tw.isSome
  | .p0 => s.tw.isSome
  | .s2 o => (s.ow o).isSome
  | .u2 o => (s.ow o).isSome
  | .p3 o => (s.ow o).isSome
  | .pw _ _ c _ => decide (s.cs c = .stalled)
  | _ => false

/-- a stuck thread has no enabled step, whichever connection `range` would yield -/
theorem stuck_sound (s : St n) (u : Fin n) (h : stuck s u = true) (p : Conn) : next0 s u p = none := by
  unfold stuck at h
  unfold next0
  split at h
  · rename_i hpc; simp only [hpc]
    cases hp : (s.thr u).prog with
    | nil => rfl
    | cons a r => simp [hp] at h
  · rename_i hpc; simp only [hpc]
    cases ht : s.tw with
    | none => simp [ht] at h
    | some w => simp
  · rename_i hpc; simp only [hpc]
    cases ht : s.tw with
    | none => simp [ht] at h
    | some w => simp
  · rename_i hpc; simp only [hpc]
    cases ht : s.tw with
    | none => simp [ht] at h
    | some w => simp
  · rename_i o hpc; simp only [hpc]
    cases ht : s.ow o with
    | none => simp [ht] at h
    | some w => simp
  · rename_i o hpc; simp only [hpc]
    cases ht : s.ow o with
    | none => simp [ht] at h
    | some w => simp
  · rename_i o hpc; simp only [hpc]
    cases ht : s.ow o with
    | none => simp [ht] at h
    | some w => simp
  · rename_i o sent c rest hpc; simp only [hpc]
    have : s.cs c = .stalled := by simpa using h
    simp [this]
  · cases h

/-- the environment step does not end the stall of a connection some sender is writing to -/
def NoWake (s : St n) (e : Env) : Prop :=
  ∀ u o sent c rest, (s.thr u).pc = .pw o sent c rest → e ≠ .resume c ∧ e ≠ .die c

/-- continuations: any thread steps, and environment steps that do not wake a connection being written to -/
inductive RunNoWake : St n → St n → Prop
| refl (s : St n) : RunNoWake s s
| thr (s s1 s' : St n) (t : Fin n) (p : Conn) : next0 s t p = some s1 → RunNoWake s1 s' → RunNoWake s s'
| env (s s' : St n) (e : Env) : NoWake s e → RunNoWake (env s e) s' → RunNoWake s s'

theorem env_thr (s : St n) (e : Env) : (env s e).thr = s.thr ∧ (env s e).tw = s.tw ∧ (env s e).ow = s.ow ∧ (env s e).table = s.table ∧
    (env s e).subs = s.subs ∧ (env s e).done = s.done ∧ (env s e).dlv = s.dlv := by
  cases e <;> simp only [env] <;> (try split) <;> simp

theorem env_cs_stalled (s : St n) (e : Env) (c : Conn) (hs : s.cs c = .stalled) (h1 : e ≠ .resume c) (h2 : e ≠ .die c) : (env s e).cs c = .stalled := by
  cases e with
  | stall c' =>
    simp only [env]
    split
    · rename_i hr
      have : c ≠ c' := by intro hc; subst hc; rw [hs] at hr; cases hr
      simp [upd, this, hs]
    · exact hs
  | resume c' =>
    have : c ≠ c' := by intro hc; subst hc; exact h1 rfl
    simp only [env]
    split
    · simp [upd, this, hs]
    · exact hs
  | die c' =>
    have : c ≠ c' := by intro hc; subst hc; exact h2 rfl
    simp [env, upd, this, hs]

theorem env_stuck (s : St n) (e : Env) (hw : NoWake s e) (u : Fin n) (h : stuck s u = true) : stuck (env s e) u = true := by
  obtain ⟨h1, h2, h3, _⟩ := env_thr s e
  unfold stuck at h ⊢
  rw [h1, h2, h3]
  split
  all_goals (rename_i hpc; simp only [hpc] at h)
  all_goals (try exact h)
  rename_i o sent c rest
  have hs : s.cs c = .stalled := by simpa using h
  obtain ⟨a, b⟩ := hw u o sent c rest hpc
  simp [env_cs_stalled s e c hs a b]

/-- **NEGATIVE, general.**  A state in which every thread is stuck never changes (but for connection states) and stays stuck along every
    continuation whose environment steps do not wake a connection that a sender is writing to. -/
theorem frozen_persists (s s' : St n) (hrun : RunNoWake s s') (hf : ∀ u, stuck s u = true) :
    (s'.thr = s.thr ∧ s'.tw = s.tw ∧ s'.ow = s.ow ∧ s'.table = s.table ∧ s'.subs = s.subs ∧ s'.done = s.done ∧ s'.dlv = s.dlv) ∧ ∀ u, stuck s' u = true := by
  induction hrun with
  | refl s => exact ⟨⟨rfl, rfl, rfl, rfl, rfl, rfl, rfl⟩, hf⟩
  | thr s s1 s' t p hn _ ih => rw [stuck_sound s t (hf t) p] at hn; cases hn
  | env s s' e hw _ ih =>
    obtain ⟨h1, h2, h3, h4, h5, h6, h7⟩ := env_thr s e
    obtain ⟨⟨a1, a2, a3, a4, a5, a6, a7⟩, hs⟩ := ih (fun u => env_stuck s e hw u (hf u))
    exact ⟨⟨a1.trans h1, a2.trans h2, a3.trans h3, a4.trans h4, a5.trans h5, a6.trans h6, a7.trans h7⟩, hs⟩

/-! ### the concrete run -/

def cha : Chan := [97]
def chb : Chan := [98]

/-- thread 0: connection 1 subscribes to `a`, then somebody publishes on `a`; thread 1: a second PUBLISH on `a`; thread 2: connection 2 subscribes to `a`;
    thread 3: a PUBLISH on another channel `b`; thread 4: connection 1's self-unsubscribe service -/
def negProgs : Fin 5 → List Op := fun t =>
  if t = 0 then [.subscribe 1 cha, .send cha [1]] else if t = 1 then [.send cha [2]] else if t = 2 then [.subscribe 2 cha]
  else if t = 3 then [.send chb [3]] else [.unsubscribe 1 cha]

theorem negProgs_real : Real negProgs := by
  intro t op h
  unfold negProgs at h
  (repeat' split at h) <;> simp at h <;> (try rcases h with rfl | rfl) <;> (try subst h) <;> rfl

def negSched : List (Act 5) :=
  [.thr 0 0, .thr 0 0, .thr 0 0, .thr 0 0,          -- SUBSCRIBE a by connection 1: invoked, s0 (object 0 created), s2 (joined), sc (confirmed)
   .thr 0 0, .thr 0 0, .thr 0 0,                    -- PUBLISH a: invoked, p0 (lookup), p3 (channel lock taken, range over [1])
   .env (.stall 1),                                 -- connection 1 stops reading
   .thr 0 1,                                        -- the Send enters Write on connection 1
   .thr 1 0, .thr 1 0,                              -- second PUBLISH a: invoked, p0; now needs the channel lock
   .thr 2 0, .thr 2 0,                              -- SUBSCRIBE a by connection 2: invoked, s0: holds the TABLE lock; now needs the channel lock
   .thr 3 0,                                        -- PUBLISH b: invoked; needs the table read lock
   .thr 4 0]                                        -- UNSUBSCRIBE: invoked; needs the table lock

def negB (s : St 5) : Bool :=
  (List.finRange 5).all (fun u => stuck s u) &&
  decide ((s.thr 0).pc = .pw 0 [] 1 []) && decide (s.ow 0 = some 0) && decide (s.cs 1 = .stalled) &&
  decide ((s.thr 1).pc = .p3 0) && decide ((s.thr 2).pc = .s2 0) && decide (s.tw = some 2) &&
  decide ((s.thr 3).pc = .p0) && decide ((s.thr 4).pc = .u0) && decide (s.done.length = 1) && decide (s.dlv.length = 0) &&
  decide (s.confirmed 1 cha = true) && decide (s.subs 0 = [1])

theorem neg_eval : (runSched (init negProgs) negSched).map negB = some true := by decide

/-- **NEGATIVE (true of the Go code).**  With programs of the real code a state is reachable in which: connection 1 (subscribed to `a`, confirmed) does not read; the
    PUBLISH of thread 0 sits in `Write` on it and holds channel object 0's lock; a second PUBLISH on `a` waits for that lock; a SUBSCRIBE to `a` holds the table-wide
    lock and waits for the channel lock; a PUBLISH on ANOTHER channel and an UNSUBSCRIBE wait for the table lock; no thread has an enabled step. -/
theorem stalled_subscriber_blocks_channel_and_table : ∃ s : St 5, Reach negProgs s ∧
    (s.thr 0).pc = .pw 0 [] 1 [] ∧ s.ow 0 = some 0 ∧ s.cs 1 = .stalled ∧ s.subs 0 = [1] ∧ s.confirmed 1 cha = true ∧
    (s.thr 1).pc = .p3 0 ∧ (s.thr 2).pc = .s2 0 ∧ s.tw = some 2 ∧ (s.thr 3).pc = .p0 ∧ (s.thr 4).pc = .u0 ∧
    s.done.length = 1 ∧ s.dlv = [] ∧
    (∀ u, stuck s u = true) ∧ (∀ u p, next0 s u p = none) := by
  have h := neg_eval
  cases hr : runSched (init negProgs) negSched with
  | none => rw [hr] at h; simp at h
  | some s =>
    rw [hr] at h
    simp only [Option.map_some, Option.some.injEq, negB, Bool.and_eq_true, decide_eq_true_eq, List.all_eq_true] at h
    obtain ⟨⟨⟨⟨⟨⟨⟨⟨⟨⟨⟨⟨hall, h0⟩, how⟩, hcs⟩, h1⟩, h2⟩, htw⟩, h3⟩, h4⟩, hd⟩, hdl⟩, hcf⟩, hsub⟩ := h
    have hst : ∀ u, stuck s u = true := fun u => hall u (List.mem_finRange u)
    refine ⟨s, reach_runSched negProgs negSched _ _ Reach.init hr, h0, how, hcs, hsub, hcf, h1, h2, htw, h3, h4, hd, ?_, hst, fun u p => stuck_sound s u (hst u) p⟩
    exact List.eq_nil_of_length_eq_zero hdl

/-- **never_block_publishers_needs_fairness_partial** (C19, NEGATIVE; `_partial`: the property's unconditional "never block publishers indefinitely" is refuted for the
    model — and the Go code —, it holds under the fairness reading only, see `stall_only_delays`).  From a reachable state of real programs, along EVERY continuation in
    which the environment does not resume or kill connection 1 — whatever else it does, whatever the scheduler does — nothing ever completes: the PUBLISH on `a`, the second
    PUBLISH on `a`, the SUBSCRIBE to `a`, the PUBLISH on the other channel `b` and the UNSUBSCRIBE all stay where they are, the channel lock and the table lock stay held. -/
theorem never_block_publishers_needs_fairness_partial : ∃ s : St 5, Reach negProgs s ∧ Real negProgs ∧
    ∀ s', RunNoWake s s' →
      (s'.thr 0).pc = .pw 0 [] 1 [] ∧ (s'.thr 1).pc = .p3 0 ∧ (s'.thr 2).pc = .s2 0 ∧ (s'.thr 3).pc = .p0 ∧ (s'.thr 4).pc = .u0 ∧
      s'.ow 0 = some 0 ∧ s'.tw = some 2 ∧ s'.done.length = 1 ∧ s'.dlv = [] ∧ ∀ u p, next0 s' u p = none := by
  obtain ⟨s, hr, h0, how, hcs, hsub, hcf, h1, h2, htw, h3, h4, hd, hdl, hst, _⟩ := stalled_subscriber_blocks_channel_and_table
  refine ⟨s, hr, negProgs_real, ?_⟩
  intro s' hrun
  obtain ⟨⟨a1, a2, a3, a4, a5, a6, a7⟩, hs'⟩ := frozen_persists s s' hrun hst
  refine ⟨by rw [a1]; exact h0, by rw [a1]; exact h1, by rw [a1]; exact h2, by rw [a1]; exact h3, by rw [a1]; exact h4,
          by rw [a3]; exact how, by rw [a2]; exact htw, by rw [a6]; exact hd, by rw [a7]; exact hdl, fun u p => stuck_sound s' u (hs' u) p⟩

/-- the hypothesis `RunNoWake` is what it says: in the state above the only connection a sender writes to is connection 1, so `NoWake` allows every environment step but
    `resume 1` and `die 1` — e.g. killing every other connection, or stalling connection 2 -/
example : ∃ s : St 5, Reach negProgs s ∧ ∀ e : Env, e ≠ .resume 1 → e ≠ .die 1 → NoWake s e := by
  obtain ⟨s, hr, h0, how, hcs, hsub, hcf, h1, h2, htw, h3, h4, _⟩ := stalled_subscriber_blocks_channel_and_table
  refine ⟨s, hr, ?_⟩
  intro e he1 he2 u o sent c rest hpc
  have hc : c = 1 := by
    have h5 : ∀ v : Fin 5, v = 0 ∨ v = 1 ∨ v = 2 ∨ v = 3 ∨ v = 4 := by decide
    rcases h5 u with rfl | rfl | rfl | rfl | rfl
    · rw [h0] at hpc; cases hpc; rfl
    · rw [h1] at hpc; cases hpc
    · rw [h2] at hpc; cases hpc
    · rw [h3] at hpc; cases hpc
    · rw [h4] at hpc; cases hpc
  subst hc
  exact ⟨he1, he2⟩

#print axioms stuck_sound
#print axioms frozen_persists
#print axioms stalled_subscriber_blocks_channel_and_table
#print axioms never_block_publishers_needs_fairness_partial

end PSS
