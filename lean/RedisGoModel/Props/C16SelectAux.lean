import RedisGoModel.Props.C16CrashAux
/-! C16: file names and `enti` through the writer (helper for C16Select.lean): which calls start a new segment file, what
    name index it gets (`enti + 1`), and what the ghost looks like afterwards. -/
namespace WalFile
open WalCodec

theorem Writer.write_name (w : Writer) (p : Bytes) : (w.write p).name = w.name := rfl
theorem Writer.write_enti (w : Writer) (p : Bytes) : (w.write p).enti = w.enti := rfl
theorem Writer.encode_name (w : Writer) (t : Nat) (d : Option Bytes) : (w.encode t d).name = w.name := rfl
theorem Writer.encode_enti (w : Writer) (t : Nat) (d : Option Bytes) : (w.encode t d).enti = w.enti := rfl
theorem Writer.flush_name (w : Writer) : w.flush.name = w.name := rfl
theorem Writer.flush_enti (w : Writer) : w.flush.enti = w.enti := rfl

theorem Writer.saveState_name (w : Writer) (s : HardState) : (w.saveState s).name = w.name := by
  unfold Writer.saveState; split <;> rfl

theorem Writer.saveState_enti (w : Writer) (s : HardState) : (w.saveState s).enti = w.enti := by
  unfold Writer.saveState; split <;> rfl

theorem Writer.foldEnts_name (ents : List Entry) : ∀ w : Writer, (w.foldEnts ents).name = w.name := by
  induction ents with
  | nil => intro w; rfl
  | cons e rest ih => intro w; show (Writer.foldEnts _ rest).name = _; rw [ih]; rfl

theorem lastIdx_single (a : Entry) : lastIdx [a] = a.index := rfl

theorem lastIdx_cons_cons (a b : Entry) (r : List Entry) : lastIdx (a :: b :: r) = lastIdx (b :: r) := by
  simp [lastIdx, List.getLast?_cons_cons]

/-- after the entries of a `Save`, `enti` is the index of the last one -/
theorem Writer.foldEnts_enti (ents : List Entry) : ∀ w : Writer,
    (w.foldEnts ents).enti = if ents = [] then w.enti else lastIdx ents := by
  induction ents with
  | nil => intro w; rfl
  | cons e rest ih =>
    intro w
    show (Writer.foldEnts _ rest).enti = _
    rw [ih, if_neg (List.cons_ne_nil _ _)]
    cases rest with
    | nil => rfl
    | cons b r => rw [if_neg (List.cons_ne_nil _ _), lastIdx_cons_cons]

theorem Writer.cut_name (w : Writer) : w.cut.name = (w.name.1 + 1, w.enti + 1) := by
  rw [Writer.cut_eq, Writer.flush_name, Writer.saveState_name, Writer.encode_name, Writer.encode_name]
  rfl

theorem Writer.cut_enti (w : Writer) : w.cut.enti = w.enti := by
  rw [Writer.cut_eq, Writer.flush_enti, Writer.saveState_enti, Writer.encode_enti, Writer.encode_enti]
  rfl

theorem Writer.cut_closed (w : Writer) : w.cut.closed = w.closed ++ [(w.name, w.bytes)] := by
  rw [Writer.cut_eq, Writer.flush_closed, Writer.saveState_closed, Writer.encode_closed, Writer.encode_closed]
  rfl

/-- the name indexes of the segment files, oldest first -/
def Writer.idxs (w : Writer) : List Nat := w.closed.map (·.1.2) ++ [w.name.2]

theorem Writer.cut_idxs (w : Writer) : w.cut.idxs = w.idxs ++ [w.enti + 1] := by
  unfold Writer.idxs
  rw [Writer.cut_closed, Writer.cut_name]
  simp

/-- `enti` after a call -/
def entiAfter (cur : Nat) : Call → Nat
| .save _ ents => if ents = [] then cur else lastIdx ents
| .snap s => if s.conf.isNone && s.index > 0 then cur else (if cur < s.index then s.index else cur)
| .cut => cur

theorem Writer.call_enti (w : Writer) (c : Call) : (w.call c).enti = entiAfter w.enti c := by
  cases c with
  | save st ents =>
    show (w.save st ents).1.enti = _
    rw [Writer.save_eq]
    simp only [entiAfter]
    by_cases h0 : (isEmptyHS st && ents.isEmpty) = true
    · rw [if_pos h0]
      simp only [Bool.and_eq_true, List.isEmpty_iff] at h0
      rw [if_pos h0.2]
    · rw [if_neg h0]
      split
      · split
        · rw [Writer.flush_enti, Writer.saveState_enti, Writer.foldEnts_enti]
        · rw [Writer.saveState_enti, Writer.foldEnts_enti]
      · rw [Writer.cut_enti, Writer.saveState_enti, Writer.foldEnts_enti]
  | snap s =>
    show (w.saveSnapshot s).enti = _
    rw [Writer.saveSnapshot_eq]
    simp only [entiAfter]
    split
    · rfl
    · rw [Writer.flush_enti]
      split
      · rename_i h; rw [Writer.encode_enti] at h; rw [if_pos h]
      · rename_i h; rw [Writer.encode_enti] at h; rw [if_neg h, Writer.encode_enti]
  | cut => exact Writer.cut_enti w

/-- **one call, structurally**: either it stays in the current segment (the ghost grows by `callItems`, names unchanged),
    or it ends it — with `callItems` in it — and starts a new one whose name index is `enti + 1` and whose first items
    are `cutItems` -/
theorem call_struct {w : Writer} {g : GGhost} (hI : GInv w g) (c : Call) (hc : c.Fits) :
    (GInv (w.call c) (g.add (callItems c)) ∧ (w.call c).idxs = w.idxs) ∨
    (GInv (w.call c) { closed := g.closed ++ [g.cur ++ callItems c], cur := cutItems w.metadata (w.call c).state } ∧
      (w.call c).idxs = w.idxs ++ [(w.call c).enti + 1]) := by
  cases c with
  | save st ents =>
    obtain ⟨hs, he⟩ := hc
    have hents : ∀ e ∈ ents, (marshalEntry e).length < 2 ^ 55 := fun e h => (he e h).2
    have hst := marshalHS_len st hs
    show (GInv (w.save st ents).1 _ ∧ (w.save st ents).1.idxs = _) ∨ (GInv (w.save st ents).1 _ ∧ (w.save st ents).1.idxs = _)
    have hstate : (w.call (.save st ents)).state = stateAfter w.state st := Writer.save_state' w st ents
    have henti : (w.call (.save st ents)).enti = entiAfter w.enti (.save st ents) := Writer.call_enti w (.save st ents)
    rw [hstate, henti]
    rw [Writer.save_eq]
    by_cases h0 : (isEmptyHS st && ents.isEmpty) = true
    · rw [if_pos h0]
      left
      simp only [Bool.and_eq_true, List.isEmpty_iff] at h0
      refine ⟨?_, rfl⟩
      simp only [callItems]
      rw [h0.2, gStateItems, if_pos h0.1]
      simp only [gEntItems, List.map_nil, List.append_nil, GGhost.add_nil]
      exact hI
    · rw [if_neg h0]
      have h2 := (GInv.foldEnts ents w g hI hents).saveState st hst
      rw [GGhost.add_add] at h2
      have hcl : ((w.foldEnts ents).saveState st).closed = w.closed := by rw [Writer.saveState_closed, Writer.foldEnts_closed]
      have hnm : ((w.foldEnts ents).saveState st).name = w.name := by rw [Writer.saveState_name, Writer.foldEnts_name]
      split
      · left
        split
        · exact ⟨h2.flush, by unfold Writer.idxs; rw [Writer.flush_closed, Writer.flush_name, hcl, hnm]⟩
        · exact ⟨h2, by unfold Writer.idxs; rw [hcl, hnm]⟩
      · right
        have hcut := h2.cut
        rw [Writer.saveState_metadata, Writer.foldEnts_metadata, Writer.saveState_state, Writer.foldEnts_state] at hcut
        refine ⟨hcut, ?_⟩
        rw [Writer.cut_idxs]
        unfold Writer.idxs
        rw [hcl, hnm, Writer.saveState_enti, Writer.foldEnts_enti]
        rfl
  | snap s =>
    left
    obtain ⟨hs, hl⟩ := hc
    refine ⟨call_nocut hI (.snap s) ⟨hs, hl⟩ ?_, ?_⟩
    · show (w.saveSnapshot s).closed.length = _
      rw [Writer.saveSnapshot_eq]
      split
      · rfl
      · rw [Writer.flush_closed]; split <;> rfl
    · show (w.saveSnapshot s).idxs = _
      unfold Writer.idxs
      rw [Writer.saveSnapshot_eq]
      split
      · rfl
      · rw [Writer.flush_closed, Writer.flush_name]; split <;> rfl
  | cut =>
    right
    have hcut := hI.cut
    refine ⟨?_, ?_⟩
    · show GInv w.cut _
      simp only [callItems, List.append_nil]
      have : (w.call .cut).state = w.state := Writer.cut_state w
      rw [this]
      exact hcut
    · show w.cut.idxs = w.idxs ++ [w.cut.enti + 1]
      rw [Writer.cut_idxs, Writer.cut_enti]

#print axioms call_struct
end WalFile
