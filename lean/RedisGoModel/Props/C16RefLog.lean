import RedisGoModel.Wal.File
/-! C16: the *reference log* of a history of WAL calls, etcd's usage contract `SaveOk`, and the pure list theorem
    behind `ReadAll`'s `e.Index-w.start.Index-1` slicing / `append(ents[:up], e)` dispatch (`place`): folded over a
    `SaveOk` history it never runs out of range, and what it accumulates agrees with the reference log above the
    snapshot index — exactly equal to it when no stale suffix is left (`NoStale`), a condition that cannot be dropped
    (`stale_suffix_witness`). No bytes in this file. -/
namespace WalFile

/-- the calls of the WAL's write API, at the level the application uses it -/
inductive Call
| save (st : HardState) (ents : List Entry)
| snap (s : WSnap)
| cut

/-! ### the reference log: the obvious spec -/

/-- a `Save` truncates the log at its first index and appends -/
def refSave (log ents : List Entry) : List Entry :=
  match ents with
  | [] => log
  | e :: _ => log.filter (fun x => x.index < e.index) ++ ents

def refLogFrom (log : List Entry) : List Call → List Entry
| [] => log
| .save _ ents :: rest => refLogFrom (refSave log ents) rest
| _ :: rest => refLogFrom log rest

/-- the log a history of calls describes -/
def refLog (h : List Call) : List Entry := refLogFrom [] h

def refStateFrom (cur : HardState) : List Call → HardState
| [] => cur
| .save st _ :: rest => refStateFrom (if isEmptyHS st then cur else st) rest
| _ :: rest => refStateFrom cur rest

/-- the last non-empty hard state handed to `Save` (`Save` skips empty ones) -/
def refState (h : List Call) : HardState := refStateFrom emptyHS h

/-- the (index, term) of the snapshots `SaveSnapshot` recorded (`ValidateSnapshotForWrite` refuses a non-initial
    snapshot without ConfState) -/
def snapsOf : List Call → List (Nat × Nat)
| [] => []
| .snap s :: rest => (if s.conf.isNone && s.index > 0 then [] else [(s.index, s.term)]) ++ snapsOf rest
| _ :: rest => snapsOf rest

/-- … preceded by the initial (0, 0) that `Create` records -/
def savedSnaps (h : List Call) : List (Nat × Nat) := (0, 0) :: snapsOf h

/-! ### etcd's usage contract -/

/-- indexes `b+1, b+2, …` -/
def contig : Nat → List Entry → Bool
| _, [] => true
| b, e :: r => e.index == b + 1 && contig (b + 1) r

def lastIdx (l : List Entry) : Nat :=
  match l.getLast? with
  | some e => e.index
  | none => 0

/-- one `Save`: its entries are contiguous, start above the initial snapshot (index 0) and at or below the current last
    index + 1 (starting lower overwrites a suffix, as raft does after a conflict) -/
def saveOk (log ents : List Entry) : Bool :=
  match ents with
  | [] => true
  | e :: _ => contig (e.index - 1) ents && decide (1 ≤ e.index) && decide (e.index ≤ lastIdx log + 1)

def histOkFrom (log : List Entry) : List Call → Bool
| [] => true
| .save _ ents :: rest => saveOk log ents && histOkFrom (refSave log ents) rest
| _ :: rest => histOkFrom log rest

/-- **the usage contract** of a whole history (decidable) -/
def SaveOk (h : List Call) : Prop := histOkFrom [] h = true

instance (h : List Call) : Decidable (SaveOk h) := by unfold SaveOk; exact inferInstance

def noStaleFrom (s : Nat) (log : List Entry) : List Call → Bool
| [] => true
| .save _ ents :: rest =>
  (ents.isEmpty || decide (s < lastIdx ents) || decide (lastIdx log ≤ s)) && noStaleFrom s (refSave log ents) rest
| _ :: rest => noStaleFrom s log rest

/-- no `Save` that lies entirely at or below index `s` is issued while the log extends beyond `s` (such a `Save`
    truncates the log below `s`; `ReadAll` opened at `s` skips its records and keeps the old suffix) -/
def NoStale (s : Nat) (h : List Call) : Prop := noStaleFrom s [] h = true

instance (s : Nat) (h : List Call) : Decidable (NoStale s h) := by unfold NoStale; exact inferInstance

/-! ### the dispatch of `ReadAll`, on lists -/

/-- the entry arm of `ReadAll` opened at snapshot index `s`: `none` = `ErrSliceOutOfRange` -/
def place (s : Nat) (R : List Entry) (e : Entry) : Option (List Entry) :=
  if e.index > s then
    if e.index - s - 1 > R.length then none else some (R.take (e.index - s - 1) ++ [e])
  else some R

def placeAll (s : Nat) : List Entry → List Entry → Option (List Entry)
| R, [] => some R
| R, e :: rest =>
  match place s R e with
  | none => none
  | some R' => placeAll s R' rest

def placeCalls (s : Nat) : List Entry → List Call → Option (List Entry)
| R, [] => some R
| R, .save _ ents :: rest =>
  match placeAll s R ents with
  | none => none
  | some R' => placeCalls s R' rest
| R, _ :: rest => placeCalls s R rest

/-! ### contiguous lists -/

theorem contig_append (b : Nat) (A B : List Entry) : contig b (A ++ B) = (contig b A && contig (b + A.length) B) := by
  induction A generalizing b with
  | nil => simp [contig]
  | cons a r ih =>
    simp only [List.cons_append, contig, ih, List.length_cons, Bool.and_assoc]
    rw [show b + 1 + r.length = b + (r.length + 1) by omega]

theorem contig_take (b n : Nat) (L : List Entry) (h : contig b L = true) : contig b (L.take n) = true := by
  induction L generalizing b n with
  | nil => simp [contig]
  | cons a r ih =>
    cases n with
    | zero => simp [contig]
    | succ k =>
      simp only [contig, Bool.and_eq_true] at h
      simp only [List.take_succ_cons, contig, Bool.and_eq_true]
      exact ⟨h.1, ih _ _ h.2⟩

theorem contig_getElem (b : Nat) (L : List Entry) (h : contig b L = true) (i : Nat) (hi : i < L.length) :
    L[i].index = b + 1 + i := by
  induction L generalizing b i with
  | nil => simp at hi
  | cons a r ih =>
    simp only [contig, Bool.and_eq_true, beq_iff_eq] at h
    cases i with
    | zero => simpa using h.1
    | succ k =>
      simp only [List.getElem_cons_succ]
      rw [ih (b + 1) h.2 k (by simpa using hi)]
      omega

theorem lastIdx_contig (b : Nat) (L : List Entry) (h : contig b L = true) (hne : L ≠ []) : lastIdx L = b + L.length := by
  unfold lastIdx
  rw [List.getLast?_eq_getElem?]
  have hpos : 0 < L.length := List.length_pos_iff.mpr hne
  rw [List.getElem?_eq_getElem (by omega)]
  simp only
  rw [contig_getElem b L h _ (by omega)]
  omega

theorem lastIdx_contig0 (L : List Entry) (h : contig 0 L = true) : lastIdx L = L.length := by
  cases L with
  | nil => rfl
  | cons a r => rw [lastIdx_contig 0 _ h (by simp)]; omega

/-- in a contiguous list, "index below `k`" is a prefix -/
theorem filter_lt_contig (b k : Nat) (L : List Entry) (h : contig b L = true) :
    L.filter (fun x => x.index < k) = L.take (k - (b + 1)) := by
  induction L generalizing b with
  | nil => simp
  | cons a r ih =>
    simp only [contig, Bool.and_eq_true, beq_iff_eq] at h
    by_cases hk : a.index < k
    · rw [List.filter_cons_of_pos (by simpa using hk), ih (b + 1) h.2]
      have : k - (b + 1) = (k - (b + 1 + 1)) + 1 := by omega
      rw [this, List.take_succ_cons]
    · have h0 : k - (b + 1) = 0 := by omega
      rw [h0, List.take_zero]
      rw [List.filter_cons_of_neg (by simpa using hk), ih (b + 1) h.2]
      have : k - (b + 1 + 1) = 0 := by omega
      rw [this, List.take_zero]

/-- … and "index above `s`" is a suffix -/
theorem filter_gt_contig (b s : Nat) (L : List Entry) (h : contig b L = true) :
    L.filter (fun x => x.index > s) = L.drop (s - b) := by
  induction L generalizing b with
  | nil => simp
  | cons a r ih =>
    simp only [contig, Bool.and_eq_true, beq_iff_eq] at h
    by_cases hk : a.index > s
    · have h0 : s - b = 0 := by omega
      rw [h0, List.drop_zero, List.filter_cons_of_pos (by simpa using hk), ih (b + 1) h.2]
      have : s - (b + 1) = 0 := by omega
      rw [this, List.drop_zero]
    · rw [List.filter_cons_of_neg (by simpa using hk), ih (b + 1) h.2]
      have : s - b = (s - (b + 1)) + 1 := by omega
      rw [this, List.drop_succ_cons]

/-! ### one entry -/

/-- what the reference log does with one entry: truncate at its index, append -/
def put (L : List Entry) (e : Entry) : List Entry := L.take (e.index - 1) ++ [e]

/-- the invariant between the reference log `L` and what `ReadAll` opened at `s` has accumulated: they agree on the
    indexes above `s` that `L` has (beyond `L`'s end, `R` may hold a stale suffix) -/
def Agree (s : Nat) (L R : List Entry) : Prop := R.take (L.length - s) = L.drop s

theorem agree_length {s : Nat} {L R : List Entry} (h : Agree s L R) : L.length - s ≤ R.length := by
  have := congrArg List.length h
  simp only [List.length_take, List.length_drop] at this
  omega

theorem put_length (L : List Entry) (e : Entry) (h1 : 1 ≤ e.index) (h2 : e.index ≤ L.length + 1) :
    (put L e).length = e.index := by
  simp only [put, List.length_append, List.length_take, List.length_cons, List.length_nil]
  omega

theorem place_step (s : Nat) (L R : List Entry) (e : Entry) (hP : Agree s L R) (h1 : 1 ≤ e.index)
    (h2 : e.index ≤ L.length + 1) :
    ∃ R', place s R e = some R' ∧ Agree s (put L e) R' ∧ (e.index > s → R'.length = e.index - s) ∧
      (e.index ≤ s → R' = R) := by
  have hlen := agree_length hP
  have hpl := put_length L e h1 h2
  unfold place
  by_cases hgt : e.index > s
  · rw [if_pos hgt]
    have hup : ¬ (e.index - s - 1 > R.length) := by omega
    rw [if_neg hup]
    refine ⟨_, rfl, ?_, fun _ => ?_, fun h => by omega⟩
    · unfold Agree
      rw [hpl]
      have hl : (R.take (e.index - s - 1) ++ [e]).length = e.index - s := by
        simp only [List.length_append, List.length_take, List.length_cons, List.length_nil]; omega
      rw [List.take_of_length_le (by omega)]
      unfold put
      have hs : s ≤ (L.take (e.index - 1)).length := by simp only [List.length_take]; omega
      rw [List.drop_append_of_le_length hs, List.drop_take]
      congr 1
      unfold Agree at hP
      rw [← hP, List.take_take]
      congr 1
      omega
    · simp only [List.length_append, List.length_take, List.length_cons, List.length_nil]; omega
  · rw [if_neg hgt]
    refine ⟨R, rfl, ?_, fun h => absurd h hgt, fun _ => rfl⟩
    unfold Agree
    rw [hpl]
    have : e.index - s = 0 := by omega
    rw [this, List.take_zero, List.drop_of_length_le (by omega)]

/-! ### one `Save` -/

/-- entries that continue the log: indexes `|L|+1, |L|+2, …` -/
theorem tail_steps (s : Nat) (rest : List Entry) : ∀ (L R : List Entry), Agree s L R → contig L.length rest = true →
    ∃ R', placeAll s R rest = some R' ∧ Agree s (L ++ rest) R' ∧
      (rest ≠ [] → (L ++ rest).length > s → R'.length = (L ++ rest).length - s) ∧
      ((L ++ rest).length ≤ s → R' = R) := by
  induction rest with
  | nil =>
    intro L R hP _
    exact ⟨R, rfl, by simpa using hP, fun h => absurd rfl h, fun _ => rfl⟩
  | cons e r ih =>
    intro L R hP hc
    simp only [contig, Bool.and_eq_true, beq_iff_eq] at hc
    obtain ⟨R1, p1, p2, p3, p4⟩ := place_step s L R e hP (by omega) (by omega)
    have hput : put L e = L ++ [e] := by
      unfold put
      rw [hc.1, Nat.add_sub_cancel, List.take_length]
    rw [hput] at p2
    have hl1 : (L ++ [e]).length = L.length + 1 := by simp
    obtain ⟨R', q1, q2, q3, q4⟩ := ih (L ++ [e]) R1 p2 (by rw [hl1]; exact hc.2)
    have happ : L ++ [e] ++ r = L ++ e :: r := by simp
    rw [happ] at q2 q3 q4
    refine ⟨R', ?_, q2, ?_, ?_⟩
    · simp only [placeAll, p1]; exact q1
    · intro _ hgt
      cases r with
      | nil =>
        simp only [placeAll] at q1
        cases q1
        rw [p3 (by simp at hgt; omega)]
        simp; omega
      | cons e2 r2 => exact q3 (by simp) hgt
    · intro hle
      rw [q4 hle]
      apply p4
      simp at hle; omega

theorem refSave_eq (L : List Entry) (e : Entry) (rest : List Entry) (hL : contig 0 L = true) :
    refSave L (e :: rest) = L.take (e.index - 1) ++ e :: rest := by
  simp only [refSave]
  rw [filter_lt_contig 0 e.index L hL]

/-- **one `Save` under the contract**: the dispatch does not run out of range, the reference log stays contiguous from
    1, the two keep agreeing above `s`; if the `Save` reaches beyond `s` no stale suffix is left, otherwise the
    accumulated entries are untouched -/
theorem save_step (s : Nat) (L R ents : List Entry) (hL : contig 0 L = true) (hP : Agree s L R)
    (hok : saveOk L ents = true) :
    ∃ R', placeAll s R ents = some R' ∧ Agree s (refSave L ents) R' ∧ contig 0 (refSave L ents) = true ∧
      (ents ≠ [] → (refSave L ents).length = lastIdx ents) ∧
      (ents ≠ [] → (refSave L ents).length > s → R'.length = (refSave L ents).length - s) ∧
      ((refSave L ents).length ≤ s → R' = R) := by
  cases ents with
  | nil => exact ⟨R, rfl, hP, hL, fun h => absurd rfl h, fun h => absurd rfl h, fun _ => rfl⟩
  | cons e rest =>
    simp only [saveOk, Bool.and_eq_true, decide_eq_true_eq] at hok
    obtain ⟨⟨hc, h1⟩, h2⟩ := hok
    rw [lastIdx_contig0 L hL] at h2
    have hc' := hc
    simp only [contig, Bool.and_eq_true, beq_iff_eq] at hc'
    have hb : e.index - 1 + 1 = e.index := by omega
    rw [hb] at hc'
    obtain ⟨R1, p1, p2, p3, p4⟩ := place_step s L R e hP h1 h2
    have hpl := put_length L e h1 h2
    obtain ⟨R', q1, q2, q3, q4⟩ := tail_steps s rest (put L e) R1 p2 (by rw [hpl]; exact hc'.2)
    have hrs : refSave L (e :: rest) = put L e ++ rest := by
      rw [refSave_eq L e rest hL]; simp [put]
    rw [hrs]
    have hcontig : contig 0 (put L e ++ rest) = true := by
      rw [contig_append, hpl, Bool.and_eq_true]
      refine ⟨?_, by simpa using hc'.2⟩
      unfold put
      rw [contig_append, Bool.and_eq_true]
      refine ⟨contig_take 0 _ L hL, ?_⟩
      simp only [contig, Bool.and_eq_true, beq_iff_eq, and_true, List.length_take]
      omega
    refine ⟨R', ?_, q2, hcontig, fun _ => ?_, fun _ hgt => ?_, fun hle => ?_⟩
    · simp only [placeAll, p1]; exact q1
    · have hcc : contig (e.index - 1) (e :: rest) = true := hc
      rw [lastIdx_contig (e.index - 1) (e :: rest) hcc (by simp)]
      simp only [List.length_append, hpl, List.length_cons]; omega
    · cases rest with
      | nil =>
        simp only [placeAll] at q1
        cases q1
        simp only [List.append_nil, hpl] at hgt ⊢
        exact p3 hgt
      | cons e2 r2 => exact q3 (by simp) hgt
    · rw [q4 hle]
      apply p4
      simp only [List.length_append, hpl] at hle; omega

/-! ### a whole history -/

theorem placeCalls_ref (s : Nat) (h : List Call) : ∀ (L R : List Entry), contig 0 L = true → Agree s L R →
    histOkFrom L h = true →
    ∃ R', placeCalls s R h = some R' ∧ Agree s (refLogFrom L h) R' ∧ contig 0 (refLogFrom L h) = true ∧
      (noStaleFrom s L h = true → R.length = L.length - s → R'.length = (refLogFrom L h).length - s) := by
  induction h with
  | nil => intro L R hL hP _; exact ⟨R, rfl, hP, hL, fun _ h => h⟩
  | cons c rest ih =>
    intro L R hL hP hok
    cases c with
    | save st ents =>
      simp only [histOkFrom, Bool.and_eq_true] at hok
      obtain ⟨R1, p1, p2, p3, p4, p5, p6⟩ := save_step s L R ents hL hP hok.1
      obtain ⟨R', q1, q2, q3, q4⟩ := ih (refSave L ents) R1 p3 p2 hok.2
      refine ⟨R', ?_, q2, q3, ?_⟩
      · simp only [placeCalls, p1]; exact q1
      · intro hns hlen
        simp only [noStaleFrom, Bool.and_eq_true, Bool.or_eq_true, decide_eq_true_eq, List.isEmpty_iff] at hns
        apply q4 hns.2
        by_cases hne : ents = []
        · subst hne
          simp only [placeAll] at p1
          cases p1
          exact hlen
        · by_cases hgt : (refSave L ents).length > s
          · exact p5 hne hgt
          · rw [p6 (by omega), hlen]
            rcases hns.1 with (h1 | h1) | h1
            · exact absurd h1 hne
            · rw [p4 hne] at hgt; omega
            · rw [lastIdx_contig0 L hL] at h1; omega
    | snap sn => exact ih L R hL hP hok
    | cut => exact ih L R hL hP hok

/-- **the slicing dispatch against the reference log** (pure form of `C16.readAll_entries`). On a history that honours
    the contract, `ReadAll`'s entry arm opened at snapshot index `s` never reports `ErrSliceOutOfRange`; what it has
    accumulated at the end agrees with the reference log on every index above `s` the log has; and it *is* the
    reference log restricted to the indexes above `s` — in order, nothing else — when no stale suffix was left. -/
theorem placeCalls_refLog (s : Nat) (h : List Call) (hok : SaveOk h) :
    ∃ R, placeCalls s [] h = some R ∧
      R.take ((refLog h).length - s) = (refLog h).filter (fun e => e.index > s) ∧
      (NoStale s h → R = (refLog h).filter (fun e => e.index > s)) := by
  obtain ⟨R, p1, p2, p3, p4⟩ := placeCalls_ref s h [] [] rfl (by simp [Agree]) hok
  unfold refLog
  unfold Agree at p2
  have hf : (refLogFrom [] h).filter (fun e => e.index > s) = (refLogFrom [] h).drop s := by
    rw [filter_gt_contig 0 s _ p3]; rfl
  refine ⟨R, p1, by rw [hf]; exact p2, fun hns => ?_⟩
  have hl := p4 hns (by simp)
  rw [hf, ← p2, ← hl, List.take_length]

/-! ### non-vacuity, the overwrite case, and the witness for `NoStale` -/

def en (term index : Nat) : Entry := ⟨0, term, index, none⟩

/-- entries 1..4 at term 1, a snapshot at 2, then a new leader's entries 3', 4', 5' at term 2 (overwriting 3, 4) -/
def exOverwrite : List Call :=
  [.save ⟨1, 1, 0⟩ [en 1 1, en 1 2], .save ⟨1, 1, 2⟩ [en 1 3, en 1 4], .snap ⟨2, 1, some []⟩,
   .save ⟨2, 2, 2⟩ [en 2 3, en 2 4, en 2 5]]

example : SaveOk exOverwrite ∧ NoStale 2 exOverwrite ∧ NoStale 0 exOverwrite := by decide
example : refLog exOverwrite = [en 1 1, en 1 2, en 2 3, en 2 4, en 2 5] := by decide
example : placeCalls 2 [] exOverwrite = some [en 2 3, en 2 4, en 2 5] := by decide
example : placeCalls 0 [] exOverwrite = some (refLog exOverwrite) := by decide

/-- entries 1..6 at term 1; a new leader overwrites from 3 with 3', 4' (term 2) — the log is now 1, 2, 3', 4' —, index 4
    is committed and a snapshot is taken there -/
def exStale : List Call :=
  [.save ⟨1, 1, 0⟩ [en 1 1, en 1 2, en 1 3, en 1 4, en 1 5, en 1 6], .save ⟨2, 2, 2⟩ [en 2 3, en 2 4],
   .snap ⟨4, 2, some []⟩]

/-- **`NoStale` cannot be dropped**: this history honours the contract, its log is `1, 2, 3', 4'`, so nothing lies above
    the snapshot at 4 — but the dispatch opened at 4 skips the records of `3', 4'` (index ≤ 4) and keeps the overwritten
    entries 5, 6 of term 1, which were never part of the log together with the snapshot (4, term 2). -/
theorem stale_suffix_witness :
    SaveOk exStale ∧ ¬ NoStale 4 exStale ∧ refLog exStale = [en 1 1, en 1 2, en 2 3, en 2 4] ∧
    (refLog exStale).filter (fun e => e.index > 4) = [] ∧ placeCalls 4 [] exStale = some [en 1 5, en 1 6] := by
  decide

#print axioms placeCalls_refLog
#print axioms stale_suffix_witness
end WalFile
