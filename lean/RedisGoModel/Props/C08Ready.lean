import RedisGoModel.Props.C08ReadyMono
import RedisGoModel.Generated.ReadyArm
/-! # C08 — persist before externalise, on the loop model `Cluster/ReadyLoop.lean` (used by C07 / C15)

`Safe s`: whatever prefix of the unsynced WAL tail survives a crash now, `replayWAL` succeeds and what it reconstructs keeps every promise
made to the outside and not taken back by raft (`Promise`: term of every message sent; vote granted / own candidacy; every entry at or below
an acknowledged append index and every entry handed to the commit channel; the acknowledged index reached; the snapshot acknowledged /
handed to the state machine).  `PersistBeforeExternalise c`: `Safe` in every state reachable under etcd's contract (`Conforms`, `ReadyOk`)
with crashes anywhere.

PROVED
* **`persist_before_externalise : PersistBeforeExternalise {}`** (and `_cfg` for every configuration that runs `theArm`; `never_down`: the
  node can always start again).  Proof: the invariant `Inv` (Props/C08ReadyInv.lean: the full crash image has raft's hard state and covers
  raft's log; outside the unsynced windows every crash image has raft's term and vote and covers it; what is known of the Ready in
  progress) is kept by every statement (`inv_stmt`, Props/C08ReadyStmtA…F, `inv_walWrite_core` consumes the contract), by taking a
  conforming Ready (`inv_take`), by crash + restart (`inv_crash`), and holds initially (`inv_init`); `inv_run` (Props/C08ReadyRun.lean).
* **`restart_no_regress`**: `persisted_hard_state_never_regresses` (along every conforming run the hard state of the synced records —
  term, commit index, the vote of a term — never goes back, crashes and restarts included), `restart_reads_durable`,
  `restart_no_regress_run` (of two restarts the later never starts behind the earlier) — Props/C08ReadyMono.lean; and the state form
  `restart_no_regress` (what `Safe` gives about term, vote, log end, entries, snapshot of any restart).
* `snapshot_never_loses` (maybeTriggerSnapshot with a crash between any two of its steps), `quiet_stmt_safe`, `take_safe`,
  `crash_restart_safe`, `externalise_safe`; Props/C08ReadySave.lean `save_keeps_promises` / `walWrite_safe` (`wal.Save` torn after ANY record);
  Props/C08ReadyDisk.lean `promise_survives_growth`, `promise_survives_entry`.
* tie: `arm_is_source_arm` (the model's arm = the calls go/ast extracts from serveChannels on every run), `armOrder_eq`; the model's
  `replayRecs` is compared with the real recovery functions on every observed disk state by the driver engine `ready` (Driver/Ready.lean).
* negative (kernel-evaluated runs): `send_before_save_violates` / `persistBeforeExternalise_false_send_first` (Send moved before wal.Save),
  `missing_snapshot_sync_violates` / `missing_snapshot_sync_restart` / `persistBeforeExternalise_false_without_sync` (the arm before e044e73).
* non-vacuity: `snapshot_run_safe_now`, `long_run_safe_now` (conforming runs with a leader snapshot, an own snapshot interrupted by a crash, a
  torn wal.Save, an overwritten tail).

LIMIT of the statement (why `ReadyOk` is one clause narrower than etcd's contract): `snapshot_with_entries_strands` — a Ready with a snapshot
AND entries, `wal.Save` torn between the entry records and the hard state, leaves a WAL `replayWAL` cannot open.  Reproduced on the real code
(tools/repro_torn_snapshot_save_test.go.txt): `raftexample: failed to read WAL (wal: slice bounds out of range)` on every start. -/
namespace ReadyLoop
namespace C08Ready

/-! ## the arm the theorems are about is the arm of the source (fact F4, compared on every run with the order extracted by go/ast) -/

theorem armOrder_eq : armOrder =
    ["saveSnap", "wal.Save", "ApplySnapshot", "wal.Sync", "publishSnapshot", "raftStorage.Append", "transport.Send", "publishEntries",
     "maybeTriggerSnapshot", "Node.Advance"] := by decide

/-- **the tie**: `Generated.readyArm` is rewritten on every check run from the calls go/ast finds in the Ready arm of `serveChannels`
    (`harness/facts.go`); this proof is re-checked then, so the theorems below are about the arm of the source: a call that is moved,
    dropped (e.g. the `wal.Sync()` of e044e73) or added breaks it -/
theorem arm_is_source_arm : armOrder = Generated.readyArm := by decide

/-! ## `safeB` decides `Safe` -/

theorem image_ge (d : Disk) (k : Nat) (h : d.buffered.length ≤ k) : d.image k = d.image d.buffered.length := by
  simp [Disk.image, List.take_of_length_le h]

theorem replay_ge (d : Disk) (k : Nat) (h : d.buffered.length ≤ k) : replay d k = replay d d.buffered.length := by
  simp [replay, image_ge d k h]

theorem safeB_iff (s : State) : safeB s = true ↔ Safe s := by
  unfold safeB Safe
  rw [List.all_eq_true]
  constructor
  · intro h k
    have hk : ∀ j, j ≤ s.disk.buffered.length → ∃ v, replay s.disk j = some v ∧ ∀ p ∈ s.owed, p.holds v := by
      intro j hj
      have := h j (by simp; omega)
      split at this
      · rename_i v hv
        refine ⟨v, hv, ?_⟩
        intro p hp
        rw [List.all_eq_true] at this
        simpa using this p hp
      · simp at this
    by_cases hle : k ≤ s.disk.buffered.length
    · exact hk k hle
    · rw [replay_ge _ _ (by omega)]; exact hk _ (Nat.le_refl _)
  · intro h k _
    obtain ⟨v, hv, hp⟩ := h k
    rw [hv]
    rw [List.all_eq_true]
    intro p hpm
    simpa using hp p hpm


/-! ## statements that keep every promise whatever the Ready is (no contract needed) -/

/-- the statements that neither append a hard state or entries to the WAL nor externalise anything -/
def Quiet : Stmt → Prop
| .walWrite | .send | .publish | .publishSnap => False
| _ => True

/-- **every statement of the arm except `wal.Save`'s write and the three externalising ones keeps `Safe`, for every Ready and every state** —
    saving a snapshot file, writing and syncing its WAL record, every flush, the in-memory steps, log compaction -/
theorem quiet_stmt_safe (c : Cfg) (s : State) (st : Stmt) (hq : Quiet st) (h : Safe s) : Safe (exec c s st) := by
  cases st with
  | walWrite => exact absurd hq (by simp [Quiet])
  | send => exact absurd hq (by simp [Quiet])
  | publish => exact absurd hq (by simp [Quiet])
  | publishSnap => exact absurd hq (by simp [Quiet])
  | snapFile =>
    simp only [exec]; split
    · exact h
    · exact safe_addFile s.rd.snap rfl (fun _ hp => hp) h
  | snapWalWrite =>
    simp only [exec]; split
    · exact h
    · exact safe_writeSnapRec _ _ rfl (fun _ hp => hp) h
  | snapWalSync =>
    simp only [exec]; split
    · exact h
    · exact safe_flush rfl (fun _ hp => hp) h
  | walFlush =>
    simp only [exec]; split
    · exact safe_flush rfl (fun _ hp => hp) h
    · exact h
  | applySnap =>
    simp only [exec]; split
    · exact h
    · exact safe_of_eq rfl (fun _ hp => hp) h
  | walSync =>
    simp only [exec]; split
    · exact h
    · exact safe_flush rfl (fun _ hp => hp) h
  | append => exact safe_of_eq rfl (fun _ hp => hp) h
  | trigFile =>
    simp only [exec]; split
    · exact safe_of_eq rfl (fun _ hp => hp) h
    · exact safe_addFile _ rfl (fun _ hp => hp) h
  | trigWalWrite =>
    simp only [exec]; split
    · exact h
    · exact safe_writeSnapRec _ _ rfl (fun _ hp => hp) h
  | trigWalSync =>
    simp only [exec]; split
    · exact h
    · exact safe_flush rfl (fun _ hp => hp) h
  | trigCompact =>
    simp only [exec]; split
    · exact h
    · exact safe_of_eq rfl (fun _ hp => hp) h
  | advance => exact safe_of_eq rfl (fun _ hp => hp) h

/-- **snapshot_never_loses**: `maybeTriggerSnapshot` — snapshot file, WAL snapshot record, its sync, compaction of the in-memory log — with a
    crash between any two of these steps (and any part of the unsynced record surviving) keeps the restart working and every promise kept -/
theorem snapshot_never_loses (c : Cfg) (s : State) (h : Safe s) :
    Safe (exec c s .trigFile) ∧ Safe (exec c (exec c s .trigFile) .trigWalWrite) ∧
    Safe (exec c (exec c (exec c s .trigFile) .trigWalWrite) .trigWalSync) ∧
    Safe (exec c (exec c (exec c (exec c s .trigFile) .trigWalWrite) .trigWalSync) .trigCompact) := by
  have h1 := quiet_stmt_safe c s .trigFile trivial h
  have h2 := quiet_stmt_safe c _ .trigWalWrite trivial h1
  have h3 := quiet_stmt_safe c _ .trigWalSync trivial h2
  exact ⟨h1, h2, h3, quiet_stmt_safe c _ .trigCompact trivial h3⟩

/-- taking a Ready makes no promise (raft takes some back) -/
theorem take_safe (c : Cfg) (s : State) (rd : Ready) (h : Safe s) : Safe (take c s rd) :=
  safe_of_eq (s := s) (s' := take c s rd) rfl (fun p hp => (List.mem_filter.mp hp).1) h

/-- **a crash at any moment of a safe state, whatever part of the unsynced tail survives, followed by a restart: the node starts, and the
    restarted node's disk keeps every promise** (`Safe` is stable under crash and restart; the restarted node's view is the one `Safe` spoke of) -/
theorem crash_restart_safe (s : State) (k : Nat) (h : Safe s) (hd : s.down = false) :
    Safe (crashRestart s k) ∧ (crashRestart s k).down = false ∧ (crashRestart s k).owed = s.owed ∧
    ∃ v, replay s.disk k = some v ∧ (crashRestart s k).node = Node.ofView v := by
  obtain ⟨v, hv, hp⟩ := h k
  unfold crashRestart
  rw [hv]
  refine ⟨?_, hd, rfl, v, rfl, rfl⟩
  intro j
  exact ⟨v, by simp only [replay_image]; exact hv, hp⟩

/-- `restart_no_regress`, state form: what a restart reconstructs from a safe state has a term at least every term externalised, the vote
    externalised for its term, a log that reaches every acknowledged index and holds every acknowledged and every applied entry (or a
    snapshot covering it), a snapshot at least every snapshot acknowledged or applied — for every promise not taken back by raft -/
theorem restart_no_regress (s : State) (k : Nat) (h : Safe s) :
    ∃ v, replay s.disk k = some v ∧
      (∀ t, .term t ∈ s.owed → t ≤ v.hs.term) ∧
      (∀ t x, .vote t x ∈ s.owed → v.hs.term = t → v.hs.vote = x) ∧
      (∀ i, .reach i ∈ s.owed → i ≤ v.last) ∧
      (∀ e, .ent e ∈ s.owed → e.index ≤ v.snap.index ∨ e ∈ v.ents) ∧
      (∀ i, .snap i ∈ s.owed → i ≤ v.snap.index) := by
  obtain ⟨v, hv, hp⟩ := h k
  refine ⟨v, hv, fun t ht => hp _ ht, ?_, fun i hi => hp _ hi, fun e he => hp _ he, fun i hi => hp _ hi⟩
  intro t x hx ht
  have := hp _ hx
  simp only [Promise.holds] at this
  rcases this with h1 | h1
  · omega
  · exact h1.2

/-! ## negative theorems: the model sees the defects that were found -/

def stmts (n : Nat) : List Ev := List.replicate n Ev.stmt
def e (i t : Nat) : Entry := ⟨i, t, 100 + i⟩

/-- the arm with `transport.Send` moved in front of `wal.Save` -/
def sendFirstArm : List Stmt :=
  [.snapFile, .snapWalWrite, .snapWalSync, .send, .walWrite, .walFlush, .applySnap, .walSync, .publishSnap, .append, .publish,
   .trigFile, .trigWalWrite, .trigWalSync, .trigCompact, .advance]

/-- the arm as it was before e044e73: no `wal.Sync()` after a Ready that carries a snapshot -/
def noSyncArm : List Stmt := theArm.filter (· != .walSync)

theorem sendFirstArm_order : orderOf sendFirstArm =
    ["saveSnap", "transport.Send", "wal.Save", "ApplySnapshot", "wal.Sync", "publishSnapshot", "raftStorage.Append", "publishEntries",
     "maybeTriggerSnapshot", "Node.Advance"] := by decide

theorem noSyncArm_order : orderOf noSyncArm =
    ["saveSnap", "wal.Save", "ApplySnapshot", "publishSnapshot", "raftStorage.Append", "transport.Send", "publishEntries",
     "maybeTriggerSnapshot", "Node.Advance"] := by decide

/-- a vote request of candidate 3 in term 1 is granted: the Ready carries the new hard state and the granting answer -/
def rdVote : Ready := { hs := ⟨1, 3, 0⟩, msgs := [.voteResp 1 3 false] }

/-- (i) with Send before wal.Save the vote leaves the node while the disk still says term 0, no vote: after a crash the node can vote again
    in term 1 -/
theorem send_before_save_violates :
    ∃ evs, Conforms { arm := sendFirstArm } {} evs ∧ ¬ Safe (run { arm := sendFirstArm } {} evs) := by
  refine ⟨[.ready rdVote] ++ stmts 4, by decide, ?_⟩
  rw [← safeB_iff]
  decide

def rd1 : Ready := { hs := ⟨1, 1, 0⟩, ents := [e 1 1, e 2 1], msgs := [.appResp 1 1 2 false] }
def rd2 : Ready := { hs := ⟨1, 1, 2⟩, committed := [e 1 1, e 2 1] }
/-- the leader's snapshot at index 10 arrives: snapshot, hard state with commit 10 (same term and vote: MustSync is false), the acknowledgement -/
def rdSnap : Ready := { hs := ⟨1, 1, 10⟩, snap := { index := 10, term := 1, conf := [1, 2, 3], data := 10 }, msgs := [.appResp 1 1 10 false] }
def snapRun : List Ev := [.ready rd1] ++ stmts 16 ++ [.ready rd2] ++ stmts 16 ++ [.ready rdSnap] ++ stmts 10

/-- (ii) without the post-snapshot sync (the defect repaired by e044e73) the acknowledgement of the snapshot leaves the node while the hard
    state that makes the snapshot valid is only buffered: a restart comes back at index 2 having acknowledged 10 -/
theorem missing_snapshot_sync_violates :
    ∃ evs, Conforms { arm := noSyncArm } {} evs ∧ ¬ Safe (run { arm := noSyncArm } {} evs) := by
  refine ⟨snapRun, by decide, ?_⟩
  rw [← safeB_iff]
  decide

/-- what the restart of that run reconstructs: the log ends at 2 -/
theorem missing_snapshot_sync_restart :
    (replay (run { arm := noSyncArm } {} snapRun).disk 0).map View.last = some 2 ∧
    Promise.reach 10 ∈ (run { arm := noSyncArm } {} snapRun).owed := by decide

/-- the same run through the arm as it is now is safe after every event (non-vacuity of the contract on a run with a snapshot) -/
theorem snapshot_run_safe_now : Conforms {} {} snapRun ∧ ∀ n, safeB (run {} {} (snapRun.take n)) = true := by
  refine ⟨by decide, ?_⟩
  intro n
  by_cases h : n < snapRun.length
  · have : ∀ m, m < snapRun.length → safeB (run {} {} (snapRun.take m)) = true := by decide
    exact this n h
  · rw [List.take_of_length_le (by omega)]; decide


/-! ## the four remaining statements, each under the condition it needs -/

/-- **externalising keeps `Safe` exactly when the new promises are kept by every crash image at that moment** (`send`, `publishEntries`,
    `publishSnapshot` change nothing on disk) -/
theorem externalise_safe (c : Cfg) (s : State) (st : Stmt) (hst : st = .send ∨ st = .publish ∨ st = .publishSnap) (h : Safe s)
    (hnew : ∀ k v, replay s.disk k = some v → ∀ p ∈ (exec c s st).owed, p ∉ s.owed → p.holds v) : Safe (exec c s st) := by
  have hd : (exec c s st).disk = s.disk := by
    rcases hst with rfl | rfl | rfl <;> simp only [exec] <;> (try split) <;> rfl
  intro k
  obtain ⟨v, hv, hp⟩ := h k
  refine ⟨v, by rw [hd]; exact hv, ?_⟩
  intro p hpm
  by_cases hin : p ∈ s.owed
  · exact hp p hin
  · exact hnew k v hv p hpm hin

/-! ## the full statement -/

/-- **persist before externalise**, the full statement for an arm: in every state reachable from the empty node by events that respect etcd's
    contract (any Readys that are `ReadyOk`, statements, crashes keeping any prefix of the unsynced tail), a crash now, whatever survives
    of the tail, is followed by a successful restart that keeps every promise made and not taken back by raft -/
def PersistBeforeExternalise (c : Cfg) : Prop := ∀ evs, Conforms c {} evs → Safe (run c {} evs)

/-- **persist_before_externalise** — the arm of `serveChannels` as it is (fact F4, `arm_is_source_arm`): in EVERY state reachable from the
    empty node by events that respect etcd's contract — any sequence of `ReadyOk` Readys, the statements of the arm one at a time, a
    crash between any two of them that keeps any prefix of the unsynced WAL tail, followed by `replayWAL` — a crash now (again with any
    prefix of the tail surviving) is followed by a successful restart, and what it reconstructs keeps every promise made to the outside and
    not taken back by raft: the term of every message sent, every vote granted (and the node's own candidacy), every entry at or below an
    acknowledged index, the acknowledged index itself, every acknowledged or applied snapshot, every entry handed to the commit channel.
    Since `owed` only loses promises when raft hands out entries that overwrite them (`take`, `released`), this is "at the moment of
    externalisation and at every later moment". -/
theorem persist_before_externalise : PersistBeforeExternalise {} :=
  fun evs hconf => (inv_run rfl evs {} (inv_init _) hconf).safe

/-- the same for every configuration that runs the arm of the source (any snapshot thresholds, any node id) -/
theorem persist_before_externalise_cfg (c : Cfg) (hc : c.arm = theArm) : PersistBeforeExternalise c :=
  fun evs hconf => (inv_run hc evs {} (inv_init _) hconf).safe

/-- the node never ends up unable to start -/
theorem never_down (c : Cfg) (hc : c.arm = theArm) (evs : List Ev) (hconf : Conforms c {} evs) : (run c {} evs).down = false :=
  (inv_run hc evs {} (inv_init _) hconf).down

/-! ## restart_no_regress along a run -/

theorem K_init : K ({} : State) := by
  show chainOk {} [Rec.snap 0 0]
  simp [chainOk]

/-- **the persisted hard state never regresses**: along every conforming run — crashes (any prefix of the unsynced tail surviving) and
    restarts included — the hard state of the synced WAL records (`durable`: what every later restart reads at least) only moves forward:
    the term and the commit index do not decrease and a vote cast in a term is kept while that term lasts -/
theorem persisted_hard_state_never_regresses (c : Cfg) (hc : c.arm = theArm) (e1 e2 : List Ev) (hconf : Conforms c {} (e1 ++ e2)) :
    HsMono (durable (run c {} e1)) (durable (run c {} (e1 ++ e2))) := by
  obtain ⟨h1, h2⟩ := conforms_append c e1 e2 {} hconf
  obtain ⟨hi, hk, _⟩ := mono_run hc e1 {} (inv_init c) K_init h1
  rw [run_append]
  exact (mono_run hc e2 _ hi hk h2).2.2

/-- a restarted node starts from exactly the hard state that is durable at that moment -/
theorem restart_reads_durable (s : State) (k : Nat) (h : Safe s) : (crashRestart s k).node.hs = durable (crashRestart s k) := by
  obtain ⟨v, hv, _⟩ := h k
  have hvr : replayRecs (s.disk.image k).synced s.disk.files = some v := hv
  unfold crashRestart durable
  rw [hv]
  exact (replayRecs_some hvr).1

/-- **restart_no_regress**: of two restarts in one conforming run, the later one never starts with a smaller term, a smaller commit index,
    or — in the same term — another vote than the earlier one -/
theorem restart_no_regress_run (c : Cfg) (hc : c.arm = theArm) (e1 e2 : List Ev) (k1 k2 : Nat)
    (hconf : Conforms c {} ((e1 ++ [.crash k1]) ++ (e2 ++ [.crash k2]))) :
    HsMono (run c {} (e1 ++ [.crash k1])).node.hs (run c {} ((e1 ++ [.crash k1]) ++ (e2 ++ [.crash k2]))).node.hs := by
  have hm := persisted_hard_state_never_regresses c hc _ _ hconf
  have key : ∀ (e : List Ev) (k : Nat), Conforms c {} (e ++ [.crash k]) → (run c {} (e ++ [.crash k])).node.hs = durable (run c {} (e ++ [.crash k])) := by
    intro e k hcf
    obtain ⟨h1, _⟩ := conforms_append c e [.crash k] {} hcf
    have hi := inv_run hc e {} (inv_init c) h1
    rw [run_append]
    show (step c (run c {} e) (.crash k)).node.hs = durable (step c (run c {} e) (.crash k))
    simp only [step, hi.down, Bool.false_eq_true, ↓reduceIte]
    exact restart_reads_durable _ k hi.safe
  rw [key e1 k1 (conforms_append c _ _ {} hconf).1]
  have : (e1 ++ [Ev.crash k1]) ++ (e2 ++ [Ev.crash k2]) = ((e1 ++ [Ev.crash k1]) ++ e2) ++ [Ev.crash k2] := by simp
  rw [this] at hconf hm ⊢
  rw [key _ k2 hconf]
  exact hm

theorem persistBeforeExternalise_false_send_first : ¬ PersistBeforeExternalise { arm := sendFirstArm } := by
  intro h
  obtain ⟨evs, hc, hs⟩ := send_before_save_violates
  exact hs (h evs hc)

theorem persistBeforeExternalise_false_without_sync : ¬ PersistBeforeExternalise { arm := noSyncArm } := by
  intro h
  obtain ⟨evs, hc, hs⟩ := missing_snapshot_sync_violates
  exact hs (h evs hc)

def rd4 : Ready := { hs := ⟨1, 1, 2⟩, ents := [e 3 1, e 4 1, e 5 1], committed := [e 1 1, e 2 1], msgs := [.appResp 1 1 5 false] }
def rd5 : Ready := { hs := ⟨1, 1, 5⟩, committed := [e 3 1, e 4 1, e 5 1] }
def rd6 : Ready := { hs := ⟨2, 3, 5⟩, ents := [⟨6, 2, 7⟩, ⟨7, 2, 8⟩], msgs := [.voteResp 2 3 false, .appResp 2 3 7 false] }
/-- entries, a commit, the node's own snapshot (applied 5 > snapCount 3) interrupted by a crash between its WAL record and the sync (the
    record and the buffered commit index are lost, the file is an orphan), a vote and a new leader's entries in term 2 with `wal.Save` torn
    after the first entry record, then the same Ready again overwriting that entry -/
def longRun : List Ev :=
  [.ready rd1] ++ stmts 16 ++ [.ready rd4] ++ stmts 16 ++ [.ready rd5] ++ stmts 13 ++ [.crash 0] ++ [.ready rd6] ++ stmts 5 ++ [.crash 1]
    ++ [.ready rd6] ++ stmts 16

/-- non-vacuity: a conforming run through the arm as it is, with a local snapshot, two crashes (one tearing `wal.Save`) and an overwritten tail,
    is `Safe` after every event -/
theorem long_run_safe_now : Conforms {} {} longRun ∧ ∀ n, safeB (run {} {} (longRun.take n)) = true := by
  refine ⟨by decide +kernel, ?_⟩
  intro n
  by_cases h : n < longRun.length
  · have : ∀ m, m < longRun.length → safeB (run {} {} (longRun.take m)) = true := by decide +kernel
    exact this n h
  · rw [List.take_of_length_le (by omega)]; decide +kernel

/-- a Ready with a snapshot AND entries after it (within etcd's contract, outside `ReadyOk`) -/
def rdSnapEnts : Ready := { hs := ⟨1, 1, 10⟩, snap := { index := 10, term := 1, conf := [1, 2, 3], data := 10 }, ents := [e 11 1] }

/-- **finding on the model** (iii): for a Ready that carries a snapshot and entries, `wal.Save` writes the entries before the hard state whose
    commit index makes the snapshot valid; if the crash keeps the entry record and loses the hard state, `replayWAL` ignores the snapshot,
    opens the WAL at the old one and `ReadAll` fails on the gap (ErrSliceOutOfRange, log.Fatalf): the node cannot start.  Nothing had been
    externalised; the node is lost, not inconsistent. -/
theorem snapshot_with_entries_strands :
    let s := run {} {} ([.ready rd1] ++ stmts 16 ++ [.ready rdSnapEnts] ++ stmts 4)
    replay s.disk 1 = none ∧ (step {} s (.crash 1)).down = true := by decide

end C08Ready
end ReadyLoop
