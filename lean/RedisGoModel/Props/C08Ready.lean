import RedisGoModel.Props.C08ReadyDisk
import RedisGoModel.Generated.ReadyArm
/-! # C08 — persist before externalise, as a theorem about the loop model `Cluster/ReadyLoop.lean`

STATEMENTS (proofs below).
-/
namespace ReadyLoop
namespace C08Ready

/-! ## the arm the theorems are about is the arm of the source (fact F4, compared on every run with the order extracted by go/ast) -/

theorem armOrder_eq : armOrder =
    ["saveSnap", "wal.Save", "ApplySnapshot", "wal.Sync", "publishSnapshot", "raftStorage.Append", "transport.Send", "publishEntries",
     "maybeTriggerSnapshot", "Node.Advance"] := by decide

/-- **the tie**: `Generated.readyArm` is rewritten on every check run from the calls go/ast finds in the Ready arm of `serveChannels`
    (`harness/facts.go`); this proof is re-checked then, so the theorems below are about the arm of the source: a call that is moved,
    dropped (e.g. the `wal.Sync()` of e044e73) or added breaks it -/
theorem arm_is_source_arm : armOrder = Generated.readyArm := by decide

/-! ## `safeB` decides `Safe` -/

theorem image_ge (d : Disk) (k : Nat) (h : d.buffered.length ≤ k) : d.image k = d.image d.buffered.length := by
  simp [Disk.image, List.take_of_length_le h]

theorem replay_ge (d : Disk) (k : Nat) (h : d.buffered.length ≤ k) : replay d k = replay d d.buffered.length := by
  simp [replay, image_ge d k h]

theorem safeB_iff (s : State) : safeB s = true ↔ Safe s := by
  unfold safeB Safe
  rw [List.all_eq_true]
  constructor
  · intro h k
    have hk : ∀ j, j ≤ s.disk.buffered.length → ∃ v, replay s.disk j = some v ∧ ∀ p ∈ s.owed, p.holds v := by
      intro j hj
      have := h j (by simp; omega)
      split at this
      · rename_i v hv
        refine ⟨v, hv, ?_⟩
        intro p hp
        rw [List.all_eq_true] at this
        simpa using this p hp
      · simp at this
    by_cases hle : k ≤ s.disk.buffered.length
    · exact hk k hle
    · rw [replay_ge _ _ (by omega)]; exact hk _ (Nat.le_refl _)
  · intro h k _
    obtain ⟨v, hv, hp⟩ := h k
    rw [hv]
    rw [List.all_eq_true]
    intro p hpm
    simpa using hp p hpm


/-! ## statements that keep every promise whatever the Ready is (no contract needed) -/

/-- the statements that neither append a hard state or entries to the WAL nor externalise anything -/
def Quiet : Stmt → Prop
| .walWrite | .send | .publish | .publishSnap => False
| _ => True

/-- **every statement of the arm except `wal.Save`'s write and the three externalising ones keeps `Safe`, for every Ready and every state** —
    saving a snapshot file, writing and syncing its WAL record, every flush, the in-memory steps, log compaction -/
theorem quiet_stmt_safe (c : Cfg) (s : State) (st : Stmt) (hq : Quiet st) (h : Safe s) : Safe (exec c s st) := by
  cases st with
  | walWrite => exact absurd hq (by simp [Quiet])
  | send => exact absurd hq (by simp [Quiet])
  | publish => exact absurd hq (by simp [Quiet])
  | publishSnap => exact absurd hq (by simp [Quiet])
  | snapFile =>
    simp only [exec]; split
    · exact h
    · exact safe_addFile s.rd.snap rfl (fun _ hp => hp) h
  | snapWalWrite =>
    simp only [exec]; split
    · exact h
    · exact safe_writeSnapRec _ _ rfl (fun _ hp => hp) h
  | snapWalSync =>
    simp only [exec]; split
    · exact h
    · exact safe_flush rfl (fun _ hp => hp) h
  | walFlush =>
    simp only [exec]; split
    · exact safe_flush rfl (fun _ hp => hp) h
    · exact h
  | applySnap =>
    simp only [exec]; split
    · exact h
    · exact safe_of_eq rfl (fun _ hp => hp) h
  | walSync =>
    simp only [exec]; split
    · exact h
    · exact safe_flush rfl (fun _ hp => hp) h
  | append => exact safe_of_eq rfl (fun _ hp => hp) h
  | trigFile =>
    simp only [exec]; split
    · exact safe_of_eq rfl (fun _ hp => hp) h
    · exact safe_addFile _ rfl (fun _ hp => hp) h
  | trigWalWrite =>
    simp only [exec]; split
    · exact h
    · exact safe_writeSnapRec _ _ rfl (fun _ hp => hp) h
  | trigWalSync =>
    simp only [exec]; split
    · exact h
    · exact safe_flush rfl (fun _ hp => hp) h
  | trigCompact =>
    simp only [exec]; split
    · exact h
    · exact safe_of_eq rfl (fun _ hp => hp) h
  | advance => exact safe_of_eq rfl (fun _ hp => hp) h

/-- **snapshot_never_loses**: `maybeTriggerSnapshot` — snapshot file, WAL snapshot record, its sync, compaction of the in-memory log — with a
    crash between any two of these steps (and any part of the unsynced record surviving) keeps the restart working and every promise kept -/
theorem snapshot_never_loses (c : Cfg) (s : State) (h : Safe s) :
    Safe (exec c s .trigFile) ∧ Safe (exec c (exec c s .trigFile) .trigWalWrite) ∧
    Safe (exec c (exec c (exec c s .trigFile) .trigWalWrite) .trigWalSync) ∧
    Safe (exec c (exec c (exec c (exec c s .trigFile) .trigWalWrite) .trigWalSync) .trigCompact) := by
  have h1 := quiet_stmt_safe c s .trigFile trivial h
  have h2 := quiet_stmt_safe c _ .trigWalWrite trivial h1
  have h3 := quiet_stmt_safe c _ .trigWalSync trivial h2
  exact ⟨h1, h2, h3, quiet_stmt_safe c _ .trigCompact trivial h3⟩

/-- taking a Ready makes no promise (raft takes some back) -/
theorem take_safe (c : Cfg) (s : State) (rd : Ready) (h : Safe s) : Safe (take c s rd) :=
  safe_of_eq (s := s) (s' := take c s rd) rfl (fun p hp => (List.mem_filter.mp hp).1) h

/-- **a crash at any moment of a safe state, whatever part of the unsynced tail survives, followed by a restart: the node starts, and the
    restarted node's disk keeps every promise** (`Safe` is stable under crash and restart; the restarted node's view is the one `Safe` spoke of) -/
theorem crash_restart_safe (s : State) (k : Nat) (h : Safe s) (hd : s.down = false) :
    Safe (crashRestart s k) ∧ (crashRestart s k).down = false ∧ (crashRestart s k).owed = s.owed ∧
    ∃ v, replay s.disk k = some v ∧ (crashRestart s k).node = Node.ofView v := by
  obtain ⟨v, hv, hp⟩ := h k
  unfold crashRestart
  rw [hv]
  refine ⟨?_, hd, rfl, v, rfl, rfl⟩
  intro j
  exact ⟨v, by simp only [replay_image]; exact hv, hp⟩

/-- `restart_no_regress`, state form: what a restart reconstructs from a safe state has a term at least every term externalised, the vote
    externalised for its term, a log that reaches every acknowledged index and holds every acknowledged and every applied entry (or a
    snapshot covering it), a snapshot at least every snapshot acknowledged or applied — for every promise not taken back by raft -/
theorem restart_no_regress (s : State) (k : Nat) (h : Safe s) :
    ∃ v, replay s.disk k = some v ∧
      (∀ t, .term t ∈ s.owed → t ≤ v.hs.term) ∧
      (∀ t x, .vote t x ∈ s.owed → v.hs.term = t → v.hs.vote = x) ∧
      (∀ i, .reach i ∈ s.owed → i ≤ v.last) ∧
      (∀ e, .ent e ∈ s.owed → e.index ≤ v.snap.index ∨ e ∈ v.ents) ∧
      (∀ i, .snap i ∈ s.owed → i ≤ v.snap.index) := by
  obtain ⟨v, hv, hp⟩ := h k
  refine ⟨v, hv, fun t ht => hp _ ht, ?_, fun i hi => hp _ hi, fun e he => hp _ he, fun i hi => hp _ hi⟩
  intro t x hx ht
  have := hp _ hx
  simp only [Promise.holds] at this
  rcases this with h1 | h1
  · omega
  · exact h1.2

/-! ## negative theorems: the model sees the defects that were found -/

def stmts (n : Nat) : List Ev := List.replicate n Ev.stmt
def e (i t : Nat) : Entry := ⟨i, t, 100 + i⟩

/-- the arm with `transport.Send` moved in front of `wal.Save` -/
def sendFirstArm : List Stmt :=
  [.snapFile, .snapWalWrite, .snapWalSync, .send, .walWrite, .walFlush, .applySnap, .walSync, .publishSnap, .append, .publish,
   .trigFile, .trigWalWrite, .trigWalSync, .trigCompact, .advance]

/-- the arm as it was before e044e73: no `wal.Sync()` after a Ready that carries a snapshot -/
def noSyncArm : List Stmt := theArm.filter (· != .walSync)

theorem sendFirstArm_order : orderOf sendFirstArm =
    ["saveSnap", "transport.Send", "wal.Save", "ApplySnapshot", "wal.Sync", "publishSnapshot", "raftStorage.Append", "publishEntries",
     "maybeTriggerSnapshot", "Node.Advance"] := by decide

theorem noSyncArm_order : orderOf noSyncArm =
    ["saveSnap", "wal.Save", "ApplySnapshot", "publishSnapshot", "raftStorage.Append", "transport.Send", "publishEntries",
     "maybeTriggerSnapshot", "Node.Advance"] := by decide

/-- a vote request of candidate 3 in term 1 is granted: the Ready carries the new hard state and the granting answer -/
def rdVote : Ready := { hs := ⟨1, 3, 0⟩, msgs := [.voteResp 1 3 false] }

/-- (i) with Send before wal.Save the vote leaves the node while the disk still says term 0, no vote: after a crash the node can vote again
    in term 1 -/
theorem send_before_save_violates :
    ∃ evs, Conforms { arm := sendFirstArm } {} evs ∧ ¬ Safe (run { arm := sendFirstArm } {} evs) := by
  refine ⟨[.ready rdVote] ++ stmts 4, by decide, ?_⟩
  rw [← safeB_iff]
  decide

def rd1 : Ready := { hs := ⟨1, 1, 0⟩, ents := [e 1 1, e 2 1], msgs := [.appResp 1 1 2 false] }
def rd2 : Ready := { hs := ⟨1, 1, 2⟩, committed := [e 1 1, e 2 1] }
/-- the leader's snapshot at index 10 arrives: snapshot, hard state with commit 10 (same term and vote: MustSync is false), the acknowledgement -/
def rdSnap : Ready := { hs := ⟨1, 1, 10⟩, snap := { index := 10, term := 1, conf := [1, 2, 3], data := 10 }, msgs := [.appResp 1 1 10 false] }
def snapRun : List Ev := [.ready rd1] ++ stmts 16 ++ [.ready rd2] ++ stmts 16 ++ [.ready rdSnap] ++ stmts 10

/-- (ii) without the post-snapshot sync (the defect repaired by e044e73) the acknowledgement of the snapshot leaves the node while the hard
    state that makes the snapshot valid is only buffered: a restart comes back at index 2 having acknowledged 10 -/
theorem missing_snapshot_sync_violates :
    ∃ evs, Conforms { arm := noSyncArm } {} evs ∧ ¬ Safe (run { arm := noSyncArm } {} evs) := by
  refine ⟨snapRun, by decide, ?_⟩
  rw [← safeB_iff]
  decide

/-- what the restart of that run reconstructs: the log ends at 2 -/
theorem missing_snapshot_sync_restart :
    (replay (run { arm := noSyncArm } {} snapRun).disk 0).map View.last = some 2 ∧
    Promise.reach 10 ∈ (run { arm := noSyncArm } {} snapRun).owed := by decide

/-- the same run through the arm as it is now is safe after every event (non-vacuity of the contract on a run with a snapshot) -/
theorem snapshot_run_safe_now : Conforms {} {} snapRun ∧ ∀ n, safeB (run {} {} (snapRun.take n)) = true := by
  refine ⟨by decide, ?_⟩
  intro n
  by_cases h : n < snapRun.length
  · have : ∀ m, m < snapRun.length → safeB (run {} {} (snapRun.take m)) = true := by decide
    exact this n h
  · rw [List.take_of_length_le (by omega)]; decide

/-- a Ready with a snapshot AND entries after it (within etcd's contract, outside `ReadyOk`) -/
def rdSnapEnts : Ready := { hs := ⟨1, 1, 10⟩, snap := { index := 10, term := 1, conf := [1, 2, 3], data := 10 }, ents := [e 11 1] }

/-- **finding on the model** (iii): for a Ready that carries a snapshot and entries, `wal.Save` writes the entries before the hard state whose
    commit index makes the snapshot valid; if the crash keeps the entry record and loses the hard state, `replayWAL` ignores the snapshot,
    opens the WAL at the old one and `ReadAll` fails on the gap (ErrSliceOutOfRange, log.Fatalf): the node cannot start.  Nothing had been
    externalised; the node is lost, not inconsistent. -/
theorem snapshot_with_entries_strands :
    let s := run {} {} ([.ready rd1] ++ stmts 16 ++ [.ready rdSnapEnts] ++ stmts 4)
    replay s.disk 1 = none ∧ (step {} s (.crash 1)).down = true := by decide

end C08Ready
end ReadyLoop
