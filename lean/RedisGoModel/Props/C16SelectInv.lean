import RedisGoModel.Props.C16SelectAux
/-! C16: the invariant behind `C16.readAll_selected` (C16Select.lean): along a history, every segment file whose name
    index is at or below the snapshot index starts at a point where `ReadAll` (reading from the very first file) has no
    entry accumulated and has not seen the snapshot — so starting to read there loses nothing. -/
namespace WalFile
open WalCodec

/-- after a snapshot at index `s` has been saved, every non-empty `Save` reaches at least `s` (raft does not rewrite
    what a snapshot covers) -/
def snapKeptFrom (s : Nat) : Bool → List Call → Bool
| _, [] => true
| seen, .save _ ents :: rest => (!seen || ents.isEmpty || decide (s ≤ lastIdx ents)) && snapKeptFrom s seen rest
| seen, .snap sn :: rest => snapKeptFrom s (seen || (!(sn.conf.isNone && decide (sn.index > 0)) && sn.index == s)) rest
| seen, .cut :: rest => snapKeptFrom s seen rest

def SnapKept (s : Nat) (h : List Call) : Prop := snapKeptFrom s false h = true

instance (s : Nat) (h : List Call) : Decidable (SnapKept s h) := by unfold SnapKept; exact inferInstance

/-- every segment (but the first) whose name index is at or below the snapshot index starts with the head `cut` writes,
    at a point where the reader coming from the first file holds exactly that head's content and nothing else -/
def GoodCuts (start : Nat × Nat) (md : Option Bytes) (idxs : List Nat) (segs : List (List GItem)) : Prop :=
  ∀ j n, 1 ≤ j → idxs[j]? = some n → n ≤ start.1 →
    ∃ st B, HSOk st ∧ segs[j]? = some (cutItems md st ++ B) ∧
      applyItems start {} (segs.take j).flatten = .ok ⟨md, st, [], false⟩

theorem goodCuts_old (start : Nat × Nat) (md : Option Bytes) (idxs : List Nat) (closed : List (List GItem))
    (cur x : List GItem) (more : List (List GItem)) (hg : GoodCuts start md idxs (closed ++ [cur]))
    (hlen : idxs.length = closed.length + 1) (j n : Nat) (hj1 : 1 ≤ j) (hjn : idxs[j]? = some n) (hn : n ≤ start.1) :
    ∃ st B, HSOk st ∧ (closed ++ [cur ++ x] ++ more)[j]? = some (cutItems md st ++ B) ∧
      applyItems start {} ((closed ++ [cur ++ x] ++ more).take j).flatten = .ok ⟨md, st, [], false⟩ := by
  obtain ⟨st, B, h1, h2, h3⟩ := hg j n hj1 hjn hn
  have hjlt : j < idxs.length := by
    by_cases h : j < idxs.length
    · exact h
    · rw [List.getElem?_eq_none (by omega)] at hjn; cases hjn
  by_cases hjc : j < closed.length
  · refine ⟨st, B, h1, ?_, ?_⟩
    · rw [List.append_assoc, List.getElem?_append_left hjc]
      rw [List.getElem?_append_left hjc] at h2
      exact h2
    · rw [List.append_assoc, List.take_append_of_le_length (by omega)]
      rw [List.take_append_of_le_length (by omega)] at h3
      exact h3
  · have hje : j = closed.length := by omega
    subst hje
    rw [List.getElem?_append_right (Nat.le_refl _), Nat.sub_self] at h2
    simp only [List.getElem?_cons_zero, Option.some.injEq] at h2
    refine ⟨st, B ++ x, h1, ?_, ?_⟩
    · rw [List.append_assoc, List.getElem?_append_right (Nat.le_refl _), Nat.sub_self]
      simp only [List.cons_append, List.getElem?_cons_zero, Option.some.injEq]
      rw [h2, List.append_assoc]
    · rw [List.append_assoc, List.take_left']
      · rw [List.take_left' rfl] at h3; exact h3
      · rfl

/-- the invariant -/
structure SelInv (start : Nat × Nat) (md : Option Bytes) (w : Writer) (g : GGhost) (L : List Entry) (seen : Bool)
    (ra : RA) : Prop where
  inv    : GInv w g
  sem    : applyItems start {} g.all = .ok ra
  sync   : Sync w ra
  mdat   : w.metadata = md
  idxlen : w.idxs.length = g.closed.length + 1
  idx0   : w.idxs[0]? = some 0
  good   : GoodCuts start md w.idxs (g.closed ++ [g.cur])
  contig : contig 0 L = true
  agree  : Agree start.1 L ra.ents
  len    : ra.ents.length = L.length - start.1
  enti   : L.length ≤ w.enti
  kept   : ra.matched = true → start.1 ≤ w.enti
  seenOk : ra.matched = true → seen = true ∨ start.1 = 0
  seenK  : seen = true → start.1 ≤ w.enti

def logAfter (L : List Entry) : Call → List Entry
| .save _ ents => refSave L ents
| _ => L

def seenAfter (s : Nat) (seen : Bool) : Call → Bool
| .snap sn => seen || (!(sn.conf.isNone && decide (sn.index > 0)) && sn.index == s)
| _ => seen

/-- what the history-level hypotheses say about one call -/
def callOk (start : Nat × Nat) (L : List Entry) (seen : Bool) : Call → Prop
| .save _ ents => saveOk L ents = true ∧ (ents = [] ∨ start.1 < lastIdx ents ∨ lastIdx L ≤ start.1) ∧
    (seen = true → ents ≠ [] → start.1 ≤ lastIdx ents)
| .snap sn => (sn.conf.isNone && decide (sn.index > 0)) = false → sn.index = start.1 → sn.term = start.2
| .cut => True

theorem all_eq (g : GGhost) : g.all = g.closed.flatten ++ g.cur := by simp [GGhost.all, List.flatten_append]

/-- **one call preserves the invariant** -/
theorem SelInv.call {start : Nat × Nat} {md : Option Bytes} {w : Writer} {g : GGhost} {L : List Entry} {seen : Bool}
    {ra : RA} (h : SelInv start md w g L seen ra) (c : Call) (hc : c.Fits) (hok : callOk start L seen c) :
    ∃ g' ra', specCall start ra c = .ok ra' ∧
      SelInv start md (w.call c) g' (logAfter L c) (seenAfter start.1 seen c) ra' := by
  -- the semantic step
  obtain ⟨_, _, _, _, hso', hsem0⟩ := call_sem start h.inv c hc h.sync.stOk
  obtain ⟨_, hsync'⟩ := hsem0 ra h.sync
  have hitems := applyItems_callItems start ra c hc
  -- history-level facts about the new accumulators
  have hfacts : ∃ ra', specCall start ra c = .ok ra' ∧ WalFile.contig 0 (logAfter L c) = true ∧
      Agree start.1 (logAfter L c) ra'.ents ∧ ra'.ents.length = (logAfter L c).length - start.1 ∧
      (logAfter L c).length ≤ (w.call c).enti ∧ (ra'.matched = true → start.1 ≤ (w.call c).enti) ∧
      (ra'.matched = true → seenAfter start.1 seen c = true ∨ start.1 = 0) ∧
      (seenAfter start.1 seen c = true → start.1 ≤ (w.call c).enti) := by
    rw [Writer.call_enti]
    cases c with
    | save st ents =>
      obtain ⟨hsok, hns, hkept⟩ := hok
      obtain ⟨R', p1, p2, p3, p4, p5, p6⟩ := save_step start.1 L ra.ents ents h.contig h.agree hsok
      refine ⟨{ ra with ents := R', state := stateAfter ra.state st }, by simp only [specCall, p1], p3, p2, ?_, ?_, ?_, ?_, ?_⟩
      · show R'.length = (refSave L ents).length - start.1
        by_cases hne : ents = []
        · subst hne
          simp only [placeAll, Option.some.injEq] at p1
          subst p1
          exact h.len
        · by_cases hgt : (refSave L ents).length > start.1
          · exact p5 hne hgt
          · rw [p6 (by omega), h.len]
            rcases hns with h1 | h1 | h1
            · exact absurd h1 hne
            · rw [p4 hne] at hgt; omega
            · rw [lastIdx_contig0 L h.contig] at h1; omega
      · show (refSave L ents).length ≤ entiAfter w.enti (.save st ents)
        simp only [entiAfter]
        by_cases hne : ents = []
        · subst hne; simp only [refSave, if_true]; exact h.enti
        · rw [if_neg hne, p4 hne]
      · intro hm
        simp only [entiAfter]
        by_cases hne : ents = []
        · rw [if_pos hne]; exact h.kept hm
        · rw [if_neg hne]
          rcases h.seenOk hm with hs | hs
          · exact hkept hs hne
          · omega
      · intro hm; exact h.seenOk hm
      · intro hs
        simp only [entiAfter]
        by_cases hne : ents = []
        · rw [if_pos hne]; exact h.seenK hs
        · rw [if_neg hne]; exact hkept hs hne
    | snap sn =>
      simp only [logAfter, seenAfter, entiAfter, specCall]
      by_cases hv : (sn.conf.isNone && decide (sn.index > 0)) = true
      · rw [if_pos hv, if_pos hv]
        refine ⟨ra, rfl, h.contig, h.agree, h.len, h.enti, h.kept, ?_, ?_⟩
        · intro hm; rcases h.seenOk hm with hs | hs
          · left; simp [hs]
          · right; exact hs
        · intro hs
          simp only [hv, Bool.not_true, Bool.false_and, Bool.or_false] at hs
          exact h.seenK hs
      · have hv' : (sn.conf.isNone && decide (sn.index > 0)) = false := by simpa using hv
        rw [if_neg hv, if_neg hv]
        have hge : w.enti ≤ (if w.enti < sn.index then sn.index else w.enti) := by split <;> omega
        unfold snapArm
        by_cases hi : sn.index = start.1
        · rw [if_pos hi]
          have ht := hok hv' hi
          rw [if_neg (by simp [ht])]
          have hs' : start.1 ≤ (if w.enti < sn.index then sn.index else w.enti) := by split <;> omega
          have hsa : (seen || (!(sn.conf.isNone && decide (sn.index > 0)) && sn.index == start.1)) = true := by
            rw [hv', hi]; simp
          exact ⟨{ ra with matched := true }, rfl, h.contig, h.agree, h.len, Nat.le_trans h.enti hge, fun _ => hs',
            fun _ => Or.inl hsa, fun _ => hs'⟩
        · rw [if_neg hi]
          refine ⟨ra, rfl, h.contig, h.agree, h.len, Nat.le_trans h.enti hge, fun hm => Nat.le_trans (h.kept hm) hge, ?_, ?_⟩
          · intro hm; rcases h.seenOk hm with hs | hs
            · left; simp [hs]
            · right; exact hs
          · intro hs
            have : (sn.index == start.1) = false := by simpa using hi
            simp only [this, Bool.and_false, Bool.or_false] at hs
            exact Nat.le_trans (h.seenK hs) hge
    | cut =>
      exact ⟨ra, rfl, h.contig, h.agree, h.len, h.enti, h.kept, h.seenOk, h.seenK⟩
  obtain ⟨ra', hsp, f1, f2, f3, f4, f5, f6, f7⟩ := hfacts
  have hsy' := hsync' ra' hsp
  have hmd' : (w.call c).metadata = md := by rw [← hsy'.mdat, ← h.mdat, ← h.sync.mdat]; exact (by
    cases c with
    | save st ents =>
      simp only [specCall] at hsp
      split at hsp
      · cases hsp
      · cases hsp; rfl
    | snap sn =>
      simp only [specCall] at hsp
      split at hsp
      · cases hsp; rfl
      · unfold snapArm at hsp
        split at hsp
        · split at hsp
          · cases hsp
          · cases hsp; rfl
        · cases hsp; rfl
    | cut => simp only [specCall] at hsp; cases hsp; rfl)
  rcases call_struct h.inv c hc with ⟨hI', hidx⟩ | ⟨hI', hidx⟩
  · -- the call stays in the current segment
    refine ⟨g.add (callItems c), ra', hsp, ?_⟩
    refine { inv := hI', sem := ?_, sync := hsy', mdat := hmd', idxlen := by rw [hidx]; exact h.idxlen,
             idx0 := by rw [hidx]; exact h.idx0, good := ?_,
             contig := f1, agree := f2, len := f3, enti := f4, kept := f5, seenOk := f6, seenK := f7 }
    · rw [GGhost.add_all, applyItems_append, h.sem]
      simp only
      rw [hitems, hsp]
    · rw [hidx]
      intro j n hj1 hjn hn
      have := goodCuts_old start md w.idxs g.closed g.cur (callItems c) [] h.good h.idxlen j n hj1 hjn hn
      simpa [GGhost.add] using this
  · -- the call ends the segment and starts a new one
    refine ⟨{ closed := g.closed ++ [g.cur ++ callItems c], cur := cutItems w.metadata (w.call c).state }, ra', hsp, ?_⟩
    have hsemE : applyItems start {} (g.all ++ callItems c) = .ok ra' := by
      rw [applyItems_append, h.sem]
      simp only
      rw [hitems, hsp]
    have hra' : ra'.metadata = md := by rw [hsy'.mdat, hmd']
    refine { inv := hI', sem := ?_, sync := hsy', mdat := hmd', idxlen := ?_,
             idx0 := by rw [hidx, List.getElem?_append_left (by rw [h.idxlen]; omega)]; exact h.idx0, good := ?_,
             contig := f1, agree := f2, len := f3, enti := f4, kept := f5, seenOk := f6, seenK := f7 }
    · have hall' : ({ closed := g.closed ++ [g.cur ++ callItems c], cur := cutItems w.metadata (w.call c).state } : GGhost).all =
          (g.all ++ callItems c) ++ cutItems w.metadata (w.call c).state := by
        rw [all_eq g]; simp [GGhost.all, List.flatten_append]
      rw [hall', applyItems_append, hsemE]
      simp only
      have := applyItems_cut start ra' (by rw [hsy'.state]; exact hsy'.stOk)
      rw [hsy'.mdat, hsy'.state, hmd', ← h.mdat] at this
      exact this
    · rw [hidx]; simp [h.idxlen]
    · rw [hidx]
      intro j n hj1 hjn hn
      by_cases hjl : j < w.idxs.length
      · rw [List.getElem?_append_left hjl] at hjn
        have := goodCuts_old start md w.idxs g.closed g.cur (callItems c) [cutItems w.metadata (w.call c).state] h.good
          h.idxlen j n hj1 hjn hn
        simpa using this
      · have hje : j = w.idxs.length := by
          by_cases h2 : j = w.idxs.length
          · exact h2
          · rw [List.getElem?_eq_none (by simp; omega)] at hjn; cases hjn
        subst hje
        rw [List.getElem?_append_right (Nat.le_refl _), Nat.sub_self] at hjn
        simp only [List.getElem?_cons_zero, Option.some.injEq] at hjn
        subst hjn
        -- nothing accumulated, snapshot not seen
        have hents : ra'.ents = [] := by
          apply List.eq_nil_of_length_eq_zero
          rw [f3]; omega
        have hmat : ra'.matched = false := by
          cases hm : ra'.matched with
          | false => rfl
          | true => have := f5 hm; omega
        refine ⟨(w.call c).state, [], hsy'.stOk, ?_, ?_⟩
        · rw [h.idxlen, h.mdat]
          simp
        · rw [h.idxlen]
          have htake : ((g.closed ++ [g.cur ++ callItems c] ++ [cutItems w.metadata (w.call c).state]).take (g.closed.length + 1)) =
              g.closed ++ [g.cur ++ callItems c] := by
            rw [List.take_left']; simp
          show applyItems start {} (List.take (g.closed.length + 1)
            (({ closed := g.closed ++ [g.cur ++ callItems c], cur := cutItems w.metadata (w.call c).state } : GGhost).closed ++
              [({ closed := g.closed ++ [g.cur ++ callItems c], cur := cutItems w.metadata (w.call c).state } : GGhost).cur])).flatten = _
          simp only
          rw [htake]
          have hfl : (g.closed ++ [g.cur ++ callItems c]).flatten = g.all ++ callItems c := by
            rw [all_eq]; simp [List.flatten_append]
          rw [hfl, hsemE]
          congr 1
          obtain ⟨a, b, c', d⟩ := ra'
          simp only at hra' hents hmat
          rw [hra', hents, hmat, ← hsy'.state]

#print axioms SelInv.call
end WalFile
