import RedisGoModel.Props.EquivBase
/-! Representation independence: set commands.  A set is stored as a duplicate-free list; two presentations of the same set are
    permutations of each other.  Membership, cardinality, insertion, removal and the algebra respect permutations; SMEMBERS, SUNION,
    SINTER, SDIFF list the stored order and agree up to a permutation (`CmdPerm`; `canonReply` sorts them); SPOP and SRANDMEMBER
    validate the observed choice by membership tests, which are permutation-invariant. -/
namespace Exec.Equiv
open Resp (Reply Bytes)
open Exec
open SetOps (MSet)

/-! ### the operations on permuted presentations -/

theorem sadd_perm {s s' : MSet} (h : s.Perm s') (x : Bytes) :
    (SetOps.sadd s x).2 = (SetOps.sadd s' x).2 ∧ (SetOps.sadd s x).1.Perm (SetOps.sadd s' x).1 := by
  unfold SetOps.sadd
  by_cases hx : x ∈ s
  · have hx' : x ∈ s' := h.mem_iff.mp hx
    rw [if_pos hx, if_pos hx']; exact ⟨rfl, h⟩
  · have hx' : x ∉ s' := fun h' => hx (h.mem_iff.mpr h')
    rw [if_neg hx, if_neg hx']; exact ⟨rfl, h.cons x⟩

theorem srem_perm {s s' : MSet} (h : s.Perm s') (x : Bytes) :
    (SetOps.srem s x).2 = (SetOps.srem s' x).2 ∧ (SetOps.srem s x).1.Perm (SetOps.srem s' x).1 := by
  unfold SetOps.srem
  by_cases hx : x ∈ s
  · have hx' : x ∈ s' := h.mem_iff.mp hx
    rw [if_pos hx, if_pos hx']; exact ⟨rfl, h.erase x⟩
  · have hx' : x ∉ s' := fun h' => hx (h.mem_iff.mpr h')
    rw [if_neg hx, if_neg hx']; exact ⟨rfl, h⟩

def addStep (acc : MSet × Nat) (m : Bytes) : MSet × Nat := ((SetOps.sadd acc.1 m).1, acc.2 + (SetOps.sadd acc.1 m).2)
def remStep (acc : MSet × Nat) (m : Bytes) : MSet × Nat := ((SetOps.srem acc.1 m).1, acc.2 + (SetOps.srem acc.1 m).2)

theorem saddAll_eq (s : MSet) (ms : List Bytes) : saddAll s ms = ms.foldl addStep (s, 0) := rfl
theorem sremAll_eq (s : MSet) (ms : List Bytes) : sremAll s ms = ms.foldl remStep (s, 0) := rfl

theorem addFold_perm : ∀ (ms : List Bytes) (p p' : MSet × Nat), p.2 = p'.2 → p.1.Perm p'.1 →
    (ms.foldl addStep p).2 = (ms.foldl addStep p').2 ∧ (ms.foldl addStep p).1.Perm (ms.foldl addStep p').1
| [], _, _, h2, h1 => ⟨h2, h1⟩
| m :: ms, p, p', h2, h1 => by
  rw [List.foldl_cons, List.foldl_cons]
  have := sadd_perm h1 m
  exact addFold_perm ms _ _ (by unfold addStep; dsimp only; rw [h2, this.1]) this.2

theorem remFold_perm : ∀ (ms : List Bytes) (p p' : MSet × Nat), p.2 = p'.2 → p.1.Perm p'.1 →
    (ms.foldl remStep p).2 = (ms.foldl remStep p').2 ∧ (ms.foldl remStep p).1.Perm (ms.foldl remStep p').1
| [], _, _, h2, h1 => ⟨h2, h1⟩
| m :: ms, p, p', h2, h1 => by
  rw [List.foldl_cons, List.foldl_cons]
  have := srem_perm h1 m
  exact remFold_perm ms _ _ (by unfold remStep; dsimp only; rw [h2, this.1]) this.2

theorem saddAll_perm {s s' : MSet} (h : s.Perm s') (ms : List Bytes) :
    (saddAll s ms).2 = (saddAll s' ms).2 ∧ (saddAll s ms).1.Perm (saddAll s' ms).1 := by
  rw [saddAll_eq, saddAll_eq]; exact addFold_perm ms _ _ rfl h

theorem sremAll_perm {s s' : MSet} (h : s.Perm s') (ms : List Bytes) :
    (sremAll s ms).2 = (sremAll s' ms).2 ∧ (sremAll s ms).1.Perm (sremAll s' ms).1 := by
  rw [sremAll_eq, sremAll_eq]; exact remFold_perm ms _ _ rfl h

theorem isEmpty_perm {α : Type} {s s' : List α} (h : s.Perm s') : s.isEmpty = s'.isEmpty := by
  have := h.length_eq
  cases s <;> cases s' <;> simp_all

theorem DbEquiv.putSet {a b : Db} (h : DbEquiv a b) (k : Bytes) {s s' : MSet} (hp : s.Perm s') :
    DbEquiv (putSet a k s) (putSet b k s') := by
  unfold Exec.putSet
  rw [isEmpty_perm hp]
  split
  · exact h.del k
  · exact h.setVal k hp

theorem DbEquiv.storeSet {a b : Db} (h : DbEquiv a b) (k : Bytes) {s s' : MSet} (hp : s.Perm s') :
    DbEquiv (storeSet a k s) (storeSet b k s') := by
  unfold Exec.storeSet
  rw [isEmpty_perm hp]
  split
  · exact h.del k
  · exact h.setFresh k hp

theorem memDec_perm {s s' : MSet} (h : s.Perm s') : (fun m => decide (m ∈ s)) = (fun m => decide (m ∈ s')) := by
  funext m; exact decide_eq_decide.mpr h.mem_iff

theorem allMem_perm {s s' : MSet} (h : s.Perm s') (ms : List Bytes) : allMem ms s = allMem ms s' := by
  unfold allMem; rw [memDec_perm h]

theorem popAccept_perm {s s' : MSet} (h : s.Perm s') (c : Nat) (ms : List Bytes) : popAccept s c ms = popAccept s' c ms := by
  unfold popAccept; rw [allMem_perm h, h.length_eq]

theorem randAccept_perm {s s' : MSet} (h : s.Perm s') (c : Int) (ms : List Bytes) : randAccept s c ms = randAccept s' c ms := by
  unfold randAccept; rw [allMem_perm h, h.length_eq]

theorem popRemove_perm {s s' : MSet} (h : s.Perm s') (ms : List Bytes) : (popRemove s ms).Perm (popRemove s' ms) := by
  unfold popRemove; exact h.filter _

/-- the lazy check, then the set under `k`: missing on both sides, another type on both sides, or two presentations of one set -/
theorem Sim.ttl_set {a b : Db} (hs : Sim a b) (now : Int) (k : Bytes) :
    ∃ a' b' x, checkTTL a now k = (a', x) ∧ checkTTL b now k = (b', x) ∧ DbEquiv a' b' ∧
      ((getSet a' k = none ∧ getSet b' k = none) ∨ (getSet a' k = some none ∧ getSet b' k = some none) ∨
        ∃ s s', getSet a' k = some (some s) ∧ getSet b' k = some (some s') ∧ s.Perm s') := by
  obtain ⟨a', b', x, hca, hcb, hs'⟩ := hs.ttl now k
  refine ⟨a', b', x, hca, hcb, hs'.eqv, ?_⟩
  rcases getSet_cases hs' k with h | h | ⟨s, s', ha, hb, hr⟩
  · exact Or.inl h
  · exact Or.inr (Or.inl h)
  · exact Or.inr (Or.inr ⟨s, s', ha, hb, hr.1⟩)

/-! ### SADD, SREM, SISMEMBER, SCARD, SMEMBERS -/

theorem e_sadd : CmdOk cmdSAdd := by
  intro env a b args hs; unfold cmdSAdd; split
  · rename_i k m ms
    obtain ⟨a', b', x, hca, hcb, he', hc⟩ := Sim.ttl_set hs env.now k
    simp only [hca, hcb]
    rcases hc with ⟨ha, hb⟩ | ⟨ha, hb⟩ | ⟨s, s', ha, hb, hp⟩ <;> simp only [ha, hb]
    · exact ⟨rfl, he'.setVal_same k _⟩
    · eq_pair
    · have h := saddAll_perm (show (setOf (some (some s))).Perm (setOf (some (some s'))) from hp) (m :: ms)
      exact ⟨congrArg Reply.int (congrArg Nat.cast h.1), he'.setVal k h.2⟩
  · eq_pair

theorem e_srem : CmdOk cmdSRem := by
  intro env a b args hs; unfold cmdSRem; split
  · rename_i k m ms
    obtain ⟨a', b', x, hca, hcb, he', hc⟩ := Sim.ttl_set hs env.now k
    simp only [hca, hcb]
    rcases hc with ⟨ha, hb⟩ | ⟨ha, hb⟩ | ⟨s, s', ha, hb, hp⟩ <;> simp only [ha, hb]
    · eq_pair
    · eq_pair
    · have h := sremAll_perm hp (m :: ms)
      exact ⟨congrArg Reply.int (congrArg Nat.cast h.1), he'.putSet k h.2⟩
  · eq_pair

theorem e_sismember : CmdOk cmdSIsMember := by
  intro env a b args hs; unfold cmdSIsMember; split
  · rename_i k m
    obtain ⟨a', b', x, hca, hcb, he', hc⟩ := Sim.ttl_set hs env.now k
    simp only [hca, hcb]
    rcases hc with ⟨ha, hb⟩ | ⟨ha, hb⟩ | ⟨s, s', ha, hb, hp⟩ <;> simp only [ha, hb]
    · eq_pair
    · eq_pair
    · simp only [hp.mem_iff]; eq_pair
  · eq_pair

theorem e_scard : CmdOk cmdSCard := by
  intro env a b args hs; unfold cmdSCard; split
  · rename_i k
    obtain ⟨a', b', x, hca, hcb, he', hc⟩ := Sim.ttl_set hs env.now k
    simp only [hca, hcb]
    rcases hc with ⟨ha, hb⟩ | ⟨ha, hb⟩ | ⟨s, s', ha, hb, hp⟩ <;> simp only [ha, hb]
    · eq_pair
    · eq_pair
    · simp only [hp.length_eq]; eq_pair
  · eq_pair

/-- SMEMBERS lists the stored order: the two replies are permutations of each other -/
theorem e_smembers : CmdPerm cmdSMembers := by
  intro env a b args hs; unfold cmdSMembers; split
  · rename_i k
    obtain ⟨a', b', x, hca, hcb, he', hc⟩ := Sim.ttl_set hs env.now k
    simp only [hca, hcb]
    rcases hc with ⟨ha, hb⟩ | ⟨ha, hb⟩ | ⟨s, s', ha, hb, hp⟩ <;> simp only [ha, hb]
    · exact ⟨Or.inl rfl, he'⟩
    · exact ⟨Or.inl rfl, he'⟩
    · exact ⟨Or.inr ⟨s, s', rfl, rfl, hp⟩, he'⟩
  · exact ⟨Or.inl rfl, hs.eqv⟩

/-! ### SPOP, SRANDMEMBER: the observed choice is validated by membership -/

theorem e_spop : CmdOk cmdSPop := by
  intro env a b args hs; unfold cmdSPop; split
  · rename_i k
    obtain ⟨a', b', x, hca, hcb, he', hc⟩ := Sim.ttl_set hs env.now k
    simp only [hca, hcb]
    rcases hc with ⟨ha, hb⟩ | ⟨ha, hb⟩ | ⟨s, s', ha, hb, hp⟩ <;> simp only [ha, hb]
    · eq_pair
    · eq_pair
    · split
      · simp only [hp.mem_iff]
        split
        · exact ⟨rfl, he'.putSet k (hp.erase _)⟩
        · eq_pair
      · eq_pair
  · rename_i k c
    split
    · rename_i count _
      obtain ⟨a', b', x, hca, hcb, he', hc⟩ := Sim.ttl_set hs env.now k
      simp only [hca, hcb]
      rcases hc with ⟨ha, hb⟩ | ⟨ha, hb⟩ | ⟨s, s', ha, hb, hp⟩ <;> simp only [ha, hb]
      · eq_pair
      · eq_pair
      · split
        · eq_pair
        · split
          · split
            · simp only [popAccept_perm hp]
              split
              · exact ⟨rfl, he'.putSet k (popRemove_perm hp _)⟩
              · eq_pair
            · eq_pair
          · eq_pair
    · eq_pair
  · eq_pair

theorem e_srandmember : CmdOk cmdSRandMember := by
  intro env a b args hs; unfold cmdSRandMember; split
  · rename_i k
    obtain ⟨a', b', x, hca, hcb, he', hc⟩ := Sim.ttl_set hs env.now k
    simp only [hca, hcb]
    rcases hc with ⟨ha, hb⟩ | ⟨ha, hb⟩ | ⟨s, s', ha, hb, hp⟩ <;> simp only [ha, hb]
    · eq_pair
    · eq_pair
    · split
      · simp only [hp.mem_iff]
        split <;> eq_pair
      · eq_pair
  · rename_i k c
    split
    · eq_pair
    · split
      · eq_pair
      · obtain ⟨a', b', x, hca, hcb, he', hc⟩ := Sim.ttl_set hs env.now k
        simp only [hca, hcb]
        rcases hc with ⟨ha, hb⟩ | ⟨ha, hb⟩ | ⟨s, s', ha, hb, hp⟩ <;> simp only [ha, hb]
        · eq_pair
        · eq_pair
        · simp only [randAccept_perm hp]
          repeat' (first | eq_pair | split)
  · eq_pair

/-! ### multi-key commands -/

theorem Sim.checkAll (now : Int) : ∀ (ks : List Bytes) {a b : Db}, Sim a b → Sim (checkAll now a ks) (checkAll now b ks)
| [], _, _, hs => hs
| k :: ks, a, b, hs => by
  obtain ⟨a', b', x, hca, hcb, hs'⟩ := hs.ttl now k
  have ea : Exec.checkAll now a (k :: ks) = Exec.checkAll now a' ks := by simp [Exec.checkAll, hca]
  have eb : Exec.checkAll now b (k :: ks) = Exec.checkAll now b' ks := by simp [Exec.checkAll, hcb]
  rw [ea, eb]
  exact Sim.checkAll now ks hs'

/-- operand lists that are element-wise permutations of each other -/
inductive PermL : List MSet → List MSet → Prop
| nil : PermL [] []
| cons {s s' : MSet} {l l' : List MSet} : s.Perm s' → PermL l l' → PermL (s :: l) (s' :: l')

theorem collect_rel {a b : Db} (hs : Sim a b) : ∀ (ks : List Bytes),
    (collect a ks = none ∧ collect b ks = none) ∨
      ∃ l l', collect a ks = some l ∧ collect b ks = some l' ∧ PermL l l'
| [] => Or.inr ⟨[], [], rfl, rfl, PermL.nil⟩
| k :: ks => by
  unfold collect
  rcases getSet_cases hs k with ⟨ha, hb⟩ | ⟨ha, hb⟩ | ⟨s, s', ha, hb, hr⟩ <;>
    rcases collect_rel hs ks with ⟨hca, hcb⟩ | ⟨l, l', hca, hcb, hl⟩ <;> simp only [ha, hb, hca, hcb]
  · exact Or.inl ⟨trivial, trivial⟩
  · exact Or.inr ⟨_, _, rfl, rfl, PermL.cons (List.Perm.refl _) hl⟩
  · exact Or.inl ⟨trivial, trivial⟩
  · exact Or.inl ⟨trivial, trivial⟩
  · exact Or.inl ⟨trivial, trivial⟩
  · exact Or.inr ⟨_, _, rfl, rfl, PermL.cons hr.1 hl⟩

/-- the operation respects permuted presentations of its operands -/
def OpCongr (op : List MSet → MSet) : Prop := ∀ l l', PermL l l' → (op l).Perm (op l')

theorem allMem_forall₂ {rest rest' : List MSet} (h : PermL rest rest') (x : Bytes) :
    rest.all (fun s => decide (x ∈ s)) = rest'.all (fun s => decide (x ∈ s)) := by
  induction h with
  | nil => rfl
  | cons hp _ ih => simp only [List.all_cons, ih, decide_eq_decide.mpr hp.mem_iff]

theorem noneMem_forall₂ {rest rest' : List MSet} (h : PermL rest rest') (x : Bytes) :
    rest.all (fun s => decide (x ∉ s)) = rest'.all (fun s => decide (x ∉ s)) := by
  induction h with
  | nil => rfl
  | cons hp _ ih => simp only [List.all_cons, ih, decide_eq_decide.mpr (not_congr hp.mem_iff)]

theorem sinter_congr : OpCongr SetOps.sinter := by
  intro l l' h
  cases h with
  | nil => exact List.Perm.refl _
  | cons hp hr =>
    unfold SetOps.sinter
    dsimp only
    rw [show (fun x => List.all _ fun s => decide (x ∈ s)) = (fun x => List.all _ fun s => decide (x ∈ s)) from
      funext (allMem_forall₂ hr)]
    exact hp.filter _

theorem sdiff_congr : OpCongr SetOps.sdiff := by
  intro l l' h
  cases h with
  | nil => exact List.Perm.refl _
  | cons hp hr =>
    unfold SetOps.sdiff
    dsimp only
    rw [show (fun x => List.all _ fun s => decide (x ∉ s)) = (fun x => List.all _ fun s => decide (x ∉ s)) from
      funext (noneMem_forall₂ hr)]
    exact hp.filter _

theorem exists_mem_forall₂ {l l' : List MSet} (h : PermL l l') (x : Bytes) :
    (∃ s ∈ l, x ∈ s) ↔ ∃ s ∈ l', x ∈ s := by
  induction h with
  | nil => simp
  | cons hp _ ih => simp only [List.mem_cons, exists_eq_or_imp, ih, hp.mem_iff]

theorem sunion_congr : OpCongr SetOps.sunion := by
  intro l l' h
  obtain ⟨n1, m1⟩ := SetOps.sunion_spec l
  obtain ⟨n2, m2⟩ := SetOps.sunion_spec l'
  refine (List.perm_ext_iff_of_nodup n1 n2).mpr fun x => ?_
  rw [m1, m2, exists_mem_forall₂ h]

theorem e_algebra (op : List MSet → MSet) (hop : OpCongr op) : CmdPerm (algebra op) := by
  intro env a b args hs; unfold algebra; split
  · rename_i k ks
    have hs' := Sim.checkAll env.now (k :: ks) hs
    dsimp only
    rcases collect_rel hs' (k :: ks) with ⟨ha, hb⟩ | ⟨l, l', ha, hb, hl⟩ <;> simp only [ha, hb]
    · exact ⟨Or.inl rfl, hs'.eqv⟩
    · exact ⟨Or.inr ⟨_, _, rfl, rfl, hop l l' hl⟩, hs'.eqv⟩
  · exact ⟨Or.inl rfl, hs.eqv⟩

theorem e_algebraStore (op : List MSet → MSet) (hop : OpCongr op) : CmdOk (algebraStore op) := by
  intro env a b args hs; unfold algebraStore; split
  · rename_i d k ks
    have hs' := Sim.checkAll env.now (d :: k :: ks) hs
    dsimp only
    rcases collect_rel hs' (k :: ks) with ⟨ha, hb⟩ | ⟨l, l', ha, hb, hl⟩ <;> simp only [ha, hb]
    · exact ⟨rfl, hs'.eqv⟩
    · have hp := hop l l' hl
      exact ⟨by simp only [hp.length_eq], hs'.eqv.storeSet d hp⟩
  · eq_pair

theorem e_sunion : CmdPerm cmdSUnion := e_algebra _ sunion_congr
theorem e_sinter : CmdPerm cmdSInter := e_algebra _ sinter_congr
theorem e_sdiff : CmdPerm cmdSDiff := e_algebra _ sdiff_congr
theorem e_sunionstore : CmdOk cmdSUnionStore := e_algebraStore _ sunion_congr
theorem e_sinterstore : CmdOk cmdSInterStore := e_algebraStore _ sinter_congr
theorem e_sdiffstore : CmdOk cmdSDiffStore := e_algebraStore _ sdiff_congr

theorem e_smove : CmdOk cmdSMove := by
  intro env a b args hs; unfold cmdSMove; split
  · rename_i src dst m
    have hs' := Sim.checkAll env.now [dst, src] hs
    have he' := hs'.eqv
    dsimp only
    rcases getSet_cases hs' src with ⟨ha, hb⟩ | ⟨ha, hb⟩ | ⟨s, s', ha, hb, hr⟩ <;> simp only [ha, hb]
    · eq_pair
    · eq_pair
    · have hp := hr.1
      rcases getSet_cases hs' dst with ⟨hda, hdb⟩ | ⟨hda, hdb⟩ | ⟨d, d', hda, hdb, hdr⟩ <;> simp only [hda, hdb, hp.mem_iff]
      · split
        · eq_pair
        · split
          · exact ⟨rfl, (he'.putSet src (hp.erase m)).setVal_same dst _⟩
          · eq_pair
      · eq_pair
      · split
        · eq_pair
        · split
          · exact ⟨rfl, (he'.putSet src (hp.erase m)).setVal dst (sadd_perm (show (setOf (some (some d))).Perm (setOf (some (some d'))) from hdr.1) m).2⟩
          · eq_pair
  · eq_pair

end Exec.Equiv
