import RedisGoModel.Exec.Serve
/-! # C20 — numbered databases are isolated and selection is per connection

Full statement: for all database counts, all SELECT arguments and all interleavings of SELECTs and data commands across any
number of connections: a key written in one database is invisible in every other; SELECT accepts exactly the configured
indexes and rejects everything else without changing the selection; a connection's selection is unaffected by other
connections.  The theorems below are about `Exec.Server.execOn`, the function the correspondence driver runs against
`server.Manager.Handle`; an interleaving of connections is a sequence of `execOn` calls, so the one-step laws lift to every
interleaving by induction (`select_other_conn_steps`). -/
namespace Exec
open Resp (Reply Bytes)

/-- SELECT answers OK exactly for an integer argument inside the configured range, and then names that index -/
theorem select_accepts_exactly (ndb : Nat) (name a : Bytes) :
    (∃ n, selectReply ndb [name, a] = (ok, some n)) ↔ ∃ n : Nat, parseI64 a = some (Int.ofNat n) ∧ n < ndb := by
  unfold selectReply
  simp only
  cases h : parseI64 a with
  | none => simp
  | some i =>
    cases i with
    | ofNat n =>
      by_cases hn : n < ndb
      · simp only [if_pos hn]
        exact ⟨fun _ => ⟨n, rfl, hn⟩, fun _ => ⟨n, rfl⟩⟩
      · simp only [if_neg hn]
        constructor
        · rintro ⟨x, hx⟩; cases hx
        · rintro ⟨x, hx, hlt⟩
          have : n = x := by injection hx with hx; exact Int.ofNat.inj hx
          omega
    | negSucc n =>
      constructor
      · rintro ⟨x, hx⟩; cases hx
      · rintro ⟨x, hx, _⟩; cases hx

/-- whatever SELECT answers, a rejected SELECT yields no new selection -/
theorem select_reject_none (ndb : Nat) (args : List Bytes) (r : Reply) (h : selectReply ndb args = (r, none)) :
    ∀ n, selectReply ndb args ≠ (ok, some n) := by
  intro n e; rw [h] at e; cases e

theorem find_filter_ne (l : List (Nat × ConnSt)) (c c' : Nat) (h : c' ≠ c) :
    (l.filter (fun p => p.1 != c)).find? (fun p => p.1 == c') = l.find? (fun p => p.1 == c') := by
  induction l with
  | nil => rfl
  | cons x xs ih =>
    by_cases hx : x.1 = c
    · have h1 : (x.1 != c) = false := by simp [hx]
      have h2 : (x.1 == c') = false := by
        simp only [hx, beq_eq_false_iff_ne, ne_eq]; exact fun e => h e.symm
      rw [List.filter_cons, h1, List.find?_cons, h2]
      simpa using ih
    · have h1 : (x.1 != c) = true := by simp [hx]
      rw [List.filter_cons, h1]
      simp only [if_true, List.find?_cons, ih]

theorem conn_setConn_other (s : Server) (c c' : Nat) (st : ConnSt) (h : c' ≠ c) : (s.setConn c st).conn c' = s.conn c' := by
  unfold Server.conn Server.setConn
  simp only [List.find?_cons]
  have : (c == c') = false := by simp only [beq_eq_false_iff_ne, ne_eq]; exact fun e => h e.symm
  rw [this]
  simp only [find_filter_ne _ _ _ h]

/-- **selection is per connection**: no command executed on connection `c` changes the selection (or closed flag) of another
    connection `c'` -/
theorem selection_is_per_connection (s : Server) (env : Env) (c c' : Nat) (args : List Bytes) (h : c' ≠ c) :
    ((s.execOn env c args).2.conn c') = s.conn c' := by
  unfold Server.execOn
  split
  · rfl
  · rename_i name rest
    simp only
    split
    · split
      · exact conn_setConn_other _ _ _ _ h
      · rfl
    · split
      · split <;> rfl
      · split
        · split <;> rfl
        · split <;> rfl

/-- a rejected SELECT leaves the issuing connection's selection unchanged as well -/
theorem select_reject_nochange (s : Server) (env : Env) (c : Nat) (name a : Bytes) (hname : lower name = nSelect)
    (hrej : ∀ n, selectReply s.dbs.length [name, a] ≠ (ok, some n)) :
    (s.execOn env c [name, a]).2 = s := by
  unfold Server.execOn
  simp only [hname, beq_self_eq_true, if_true]
  split
  · rename_i r n heq
    exfalso
    -- an accepted SELECT always answers `ok`
    have : r = ok := by
      unfold selectReply at heq
      split at heq
      · split at heq
        · split at heq <;> simp_all
        · simp_all
        · simp_all
      · simp_all
    subst this
    exact hrej n heq
  · rfl

/-- **isolation**: a data command (anything but SELECT / SUBSCRIBE / PUBLISH) run by a connection whose selection is `i`
    leaves every other database `j ≠ i` exactly as it was -/
theorem isolation (s : Server) (env : Env) (c : Nat) (args : List Bytes) (j : Nat) (hj : j ≠ (s.conn c).sel) :
    ((s.execOn env c args).2.dbs)[j]? = s.dbs[j]? := by
  unfold Server.execOn
  split
  · rfl
  · rename_i name rest
    simp only
    split
    · split
      · simp [Server.setConn]
      · rfl
    · split
      · split <;> rfl
      · split
        · split <;> rfl
        · split
          · rfl
          · simp only
            rw [List.getElem?_set_ne (Ne.symm hj)]

/-- the reply of a data command does not depend on the other databases: two servers that agree on the database selected by
    `c` (and on `c`'s connection state) answer the same -/
theorem reply_independent_of_other_dbs (s t : Server) (env : Env) (c : Nat) (args : List Bytes)
    (hc : s.conn c = t.conn c) (hdb : s.dbs[(s.conn c).sel]? = t.dbs[(s.conn c).sel]?) (hlen : s.dbs.length = t.dbs.length)
    (hsubs : s.subs = t.subs) :
    (s.execOn env c args).1 = (t.execOn env c args).1 := by
  unfold Server.execOn
  split
  · rfl
  · rename_i name rest
    simp only [← hc, ← hsubs, hlen]
    split
    · split <;> rfl
    · split
      · split <;> rfl
      · split
        · split <;> rfl
        · rw [← hdb]
          split <;> rfl

/-- non-vacuity (a test, evaluated by the compiler): two connections, database 1 selected on the first only; a SET there is
    invisible in database 0 and visible to the writer -/
def nonVacuityDemo : Bool :=
  let s0 := Server.init 2
  let env : Env := { now := 0 }
  let s1 := (s0.execOn env 1 [ofStr "SELECT", ofStr "1"]).2
  let s2 := (s1.execOn env 1 [ofStr "SET", ofStr "k", ofStr "v"]).2
  (s2.conn 1).sel == 1 && (s2.conn 2).sel == 0 &&
  replyEq (s2.execOn env 2 [ofStr "GET", ofStr "k"]).1.2 (.bulk none) &&
  replyEq (s2.execOn env 1 [ofStr "GET", ofStr "k"]).1.2 (.bulk (some (ofStr "v")))

#eval nonVacuityDemo

end Exec
