import RedisGoModel.Props.C16Seq
import RedisGoModel.Wal.File
/-! C16: snapshot files (`snap.Read`, `loadMatching`): round trip, single-byte payload damage, fallback to the next
    older file, and soundness of what `loadMatching` returns. -/
namespace WalFile
open WalCodec

theorem fieldNum_18 : fieldNum 18 = some 2 := by decide

def snapDesc : List (Nat × Nat) := [(1, 0), (2, 2)]

theorem pstep_crc (f : Nat) (acc : List (Nat × PVal)) (v : Nat) (hv : v < 2 ^ 64) (rest : Bytes) :
    parseMsgAux snapDesc (f + 1) acc (0x08 :: (encVarint v ++ rest)) = parseMsgAux snapDesc f ((1, .vint v) :: acc) rest := by
  rw [parseMsgAux, if_neg (by simp), show (0x08 : UInt8) = UInt8.ofNat 8 from rfl, tag_byte 8 (by omega)]
  simp [varint_roundtrip v hv, fieldNum_8, snapDesc, lookupKind]

theorem pstep_data (f : Nat) (acc : List (Nat × PVal)) (d : Bytes) (hd : d.length < 2 ^ 63) (rest : Bytes) :
    parseMsgAux snapDesc (f + 1) acc (0x12 :: (encVarint d.length ++ (d ++ rest))) =
      parseMsgAux snapDesc f ((2, .vbytes d) :: acc) rest := by
  rw [parseMsgAux, if_neg (by simp), show (0x12 : UInt8) = UInt8.ofNat 18 from rfl, tag_byte 18 (by omega)]
  have hd' : ¬ (9223372036854775808 ≤ d.length) := by
    have : (2 : Nat) ^ 63 = 9223372036854775808 := by decide
    omega
  simp [varint_roundtrip d.length (Nat.lt_trans hd (by decide)), hd', fieldNum_18, snapDesc, lookupKind]

/-- a snapshot file with stored CRC `c` and payload `d` (`snapFile d` has `c = crcUpdate 0 d`) -/
def snapFileWith (c : Nat) (d : Bytes) : Bytes := [0x08] ++ encVarint c ++ ([0x12] ++ encVarint d.length ++ d)

theorem snapFile_eq (d : Bytes) : snapFile d = snapFileWith (crcUpdate 0 d) d := rfl

theorem parse_snapFileWith (c : Nat) (d : Bytes) (hc : c < 2 ^ 64) (hd : d.length < 2 ^ 63) :
    parseMsg snapDesc (snapFileWith c d) = .ok [(2, .vbytes d), (1, .vint c)] := by
  unfold parseMsg
  have hlen : 2 ≤ (snapFileWith c d).length := by
    simp only [snapFileWith, List.length_append, List.length_cons, List.length_nil]; omega
  obtain ⟨f, hf⟩ : ∃ f, (snapFileWith c d).length + 1 = f + 3 := ⟨(snapFileWith c d).length - 2, by omega⟩
  rw [hf]
  simp only [snapFileWith, List.cons_append, List.nil_append, List.append_assoc]
  rw [pstep_crc _ _ c hc]
  have := pstep_data (f + 1) [(1, .vint c)] d hd []
  rw [List.append_nil] at this
  rw [this]
  simp [parseMsgAux]

/-- what `snap.Read` does with a file of the written shape -/
theorem snapRead_fileWith (c : Nat) (d : Bytes) (hc : c < 2 ^ 32) (hd : d.length < 2 ^ 63) :
    snapRead (snapFileWith c d) =
      (if d = [] ∨ c = 0 then .error .empty
       else if crcUpdate 0 d ≠ c then .error .crc
       else match snapMeta d with
         | .error _ => .error .pb
         | .ok ti => .ok (d, ti)) := by
  unfold snapRead
  have hne : snapFileWith c d ≠ [] := by simp [snapFileWith]
  rw [if_neg hne]
  have := parse_snapFileWith c d (Nat.lt_of_lt_of_le hc (by decide)) hd
  unfold snapDesc at this
  rw [this]
  have hm : c % 4294967296 = c := Nat.mod_eq_of_lt (by simpa using hc)
  have gv : getV [(2, PVal.vbytes d), (1, PVal.vint c)] 1 = c := rfl
  have gb : getB [(2, PVal.vbytes d), (1, PVal.vint c)] 2 = some d := rfl
  simp only [gv, gb, Option.getD_some]
  rw [show c % 2 ^ 32 = c from hm]
  by_cases h1 : d = [] ∨ c = 0
  · rw [if_pos h1, if_pos h1]
  · rw [if_neg h1, if_neg h1]
    by_cases h2 : crcUpdate 0 d ≠ c
    · rw [if_pos h2, if_pos h2]
    · rw [if_neg h2, if_neg h2]
      cases snapMeta d <;> rfl

/-- **snapshot round trip** -/
theorem snap_roundtrip (payload : Bytes) (ti : Nat × Nat) (hne : payload ≠ []) (hlen : payload.length < 2 ^ 63)
    (hcrc : crcUpdate 0 payload ≠ 0) (hmeta : snapMeta payload = .ok ti) :
    snapRead (snapFile payload) = .ok (payload, ti) := by
  rw [snapFile_eq, snapRead_fileWith _ _ (crcUpdate_lt (by decide) _) hlen]
  simp [hne, hcrc, hmeta]

/-- **one changed payload byte in a snapshot file** is reported as a CRC mismatch -/
theorem snap_single_byte_payload (p s : Bytes) (x y : UInt8) (hxy : x ≠ y) (hlen : (p ++ x :: s).length < 2 ^ 63)
    (hcrc : crcUpdate 0 (p ++ x :: s) ≠ 0) :
    snapRead (snapFileWith (crcUpdate 0 (p ++ x :: s)) (p ++ y :: s)) = .error .crc := by
  have hlen' : (p ++ y :: s).length < 2 ^ 63 := by simpa using hlen
  rw [snapRead_fileWith _ _ (crcUpdate_lt (by decide) _) hlen']
  have h1 : ¬ (p ++ y :: s = [] ∨ crcUpdate 0 (p ++ x :: s) = 0) := by simp [hcrc]
  rw [if_neg h1, if_pos (crc_payload_ne 0 (by decide) p s x y hxy)]

/-- the damaged file of `snap_single_byte_payload` is the written file with one byte replaced -/
theorem snapFileWith_eq_set (p s : Bytes) (x y : UInt8) :
    ∃ k, (snapFile (p ++ x :: s))[k]? = some x ∧
      snapFileWith (crcUpdate 0 (p ++ x :: s)) (p ++ y :: s) = (snapFile (p ++ x :: s)).set k y := by
  have hl : (p ++ y :: s).length = (p ++ x :: s).length := by simp
  let A : Bytes := [0x08] ++ encVarint (crcUpdate 0 (p ++ x :: s)) ++ ([0x12] ++ encVarint (p ++ x :: s).length)
  have e1 : snapFile (p ++ x :: s) = A ++ ((p ++ x :: s) ++ []) := by
    simp only [snapFile, A, List.append_assoc, List.append_nil]
  have e2 : snapFileWith (crcUpdate 0 (p ++ x :: s)) (p ++ y :: s) = A ++ ((p ++ y :: s) ++ []) := by
    simp only [snapFileWith, hl, A, List.append_assoc, List.append_nil]
  refine ⟨A.length + p.length, ?_, ?_⟩
  · rw [e1]; exact (set_mid A p s [] x y).2
  · rw [e1, e2]; exact (set_mid A p s [] x y).1.symm

/-- **fallback**: a newest file that `snap.Read` rejects is skipped, and the next one, if readable and wanted, is loaded -/
theorem snap_fallback (wanted : Option (List (Nat × Nat))) (newest next : Bytes) (rest : List Bytes) (e : SErr)
    (p : Bytes) (ti : Nat × Nat) (h1 : snapRead newest = .error e) (h2 : snapRead next = .ok (p, ti))
    (hw : ∀ l, wanted = some l → l.contains ti = true) :
    loadMatching wanted (newest :: next :: rest) 0 = some (1, p) := by
  rw [loadMatching, h1]
  simp only
  rw [loadMatching, h2]
  cases wanted with
  | none => simp
  | some l =>
    have := hw l rfl
    simp only [this, if_true]

/-- **soundness of `loadMatching`**: what it returns is the payload of the file at the returned position, which
    `snap.Read` accepts (so its stored CRC matches the payload), with a wanted (term, index); every file before it was
    rejected or not wanted -/
theorem loadMatching_sound (wanted : Option (List (Nat × Nat))) (files : List Bytes) (i0 i : Nat) (data : Bytes)
    (h : loadMatching wanted files i0 = some (i, data)) :
    ∃ k f ti, i = i0 + k ∧ files[k]? = some f ∧ snapRead f = .ok (data, ti) ∧
      (∀ l, wanted = some l → l.contains ti = true) ∧
      ∀ j, j < k → ∀ g, files[j]? = some g → ∀ d' ti', snapRead g = .ok (d', ti') → ∃ l, wanted = some l ∧ l.contains ti' = false := by
  induction files generalizing i0 with
  | nil => simp [loadMatching] at h
  | cons f fs ih =>
    rw [loadMatching] at h
    have hskip : loadMatching wanted fs (i0 + 1) = some (i, data) →
        (∀ d' ti', snapRead f = .ok (d', ti') → ∃ l, wanted = some l ∧ l.contains ti' = false) →
        ∃ k f' ti, i = i0 + k ∧ (f :: fs)[k]? = some f' ∧ snapRead f' = .ok (data, ti) ∧
          (∀ l, wanted = some l → l.contains ti = true) ∧
          ∀ j, j < k → ∀ g, (f :: fs)[j]? = some g → ∀ d' ti', snapRead g = .ok (d', ti') →
            ∃ l, wanted = some l ∧ l.contains ti' = false := by
      intro h' hf
      obtain ⟨k, f', ti, e1, e2, e3, e4, e5⟩ := ih (i0 + 1) h'
      refine ⟨k + 1, f', ti, by omega, by simpa using e2, e3, e4, ?_⟩
      intro j hj g hg d' ti' hr
      cases j with
      | zero => simp at hg; subst hg; exact hf d' ti' hr
      | succ j => exact e5 j (by omega) g (by simpa using hg) d' ti' hr
    cases hr : snapRead f with
    | error e =>
      rw [hr] at h
      exact hskip h (fun d' ti' h' => by rw [hr] at h'; cases h')
    | ok v =>
      obtain ⟨d, ti⟩ := v
      rw [hr] at h
      simp only at h
      cases wanted with
      | none =>
        simp only [if_true, Option.some.injEq, Prod.mk.injEq] at h
        refine ⟨0, f, ti, by omega, rfl, by rw [hr, h.2], by simp, by simp⟩
      | some l =>
        simp only at h
        by_cases hc : l.contains ti = true
        · rw [if_pos hc] at h
          simp only [Option.some.injEq, Prod.mk.injEq] at h
          refine ⟨0, f, ti, by omega, rfl, by rw [hr, h.2], ?_, by simp⟩
          intro l' hl'; simp at hl'; subst hl'; exact hc
        · rw [if_neg hc] at h
          refine hskip h (fun d' ti' h' => ⟨l, rfl, ?_⟩)
          rw [hr] at h'
          simp only [Except.ok.injEq, Prod.mk.injEq] at h'
          rw [← h'.2]; simpa using hc

/-- in particular: a file whose payload had one byte changed is never what `loadMatching` returns from it -/
theorem loadMatching_never_damaged (wanted : Option (List (Nat × Nat))) (files : List Bytes) (i : Nat) (data : Bytes)
    (h : loadMatching wanted files 0 = some (i, data)) : ∃ f ti, files[i]? = some f ∧ snapRead f = .ok (data, ti) := by
  obtain ⟨k, f, ti, e1, e2, e3, _⟩ := loadMatching_sound wanted files 0 i data h
  exact ⟨f, ti, by rw [e1]; simpa using e2, e3⟩

#print axioms snap_roundtrip
#print axioms snap_single_byte_payload
#print axioms snap_fallback
#print axioms loadMatching_sound
end WalFile
