import RedisGoModel.Props.C19SlowLive
import RedisGoModel.Props.C19SlowInv
import RedisGoModel.Props.C19SlowConfirm
/-! # C19 (slow consumers): FULL liveness — every invoked operation completes when every stall ends and the scheduler is strongly fair

Model: `Conc/PubSubSlow.lean` (`PSS`).  Core Lean only.  Builds on `C19SlowLive` (`FairTo`, `SL.live_aux`, `reply_counts_deliveries`),
`C19SlowInv` (`LInv.obj / held`: the owner of a channel object's lock is exactly a thread in a delivery loop on it) and `C19SlowConfirm`
(`Inv.twC`: the owner of the table write lock sits at `s2 o` / `u2 o`; per-pc characterisation lemmas of `next0`).

* `StallsEnd` (H1)        every stall is eventually followed by a resume or a death.
* `SFair` (H2)            strong fairness of the scheduler towards a thread: enabled at infinitely many moments ⇒ takes steps at infinitely many moments.
* `fairTo_of_strong`      H1 + H2 give `FairTo`, the fairness hypothesis of `stall_only_delays_partial`.
* `progress`              under H1 + H2 (for all threads) every unfinished thread eventually takes an enabled step.
* `stall_only_delays`     under H1 + H2 every invoked operation (pc ≠ idle) completes, and an integer reply is the number of its deliveries.
* `LF.Ex.*`               the hypotheses are satisfiable: `SL.Ex.progs` / `SL.Ex.sched` (stall at 7, resume at 10, all finished from 13 on).

Dependency order of the waiting (no cycle): a thread in a delivery loop waits only for connections (H1); a thread at `p3 o / s2 o / u2 o` waits
for the owner of `o`'s lock, which is in a delivery loop; a thread at `s0 / u0 / p0` waits for the owner of the table lock, which is at
`s2 o / u2 o`.  All helpers live in `namespace PSS.LF`. -/
set_option linter.unusedSimpArgs false
set_option linter.unusedVariables false
namespace PSS
open PubSub (Chan Conn Payload)
variable {n : Nat}

/-- (H1) every stall is eventually followed by a resume or a death -/
def StallsEnd (s0 : St n) (sched : Nat → Act n) : Prop :=
  ∀ i c, (stateAt s0 sched i).cs c = .stalled → ∃ j, i ≤ j ∧ (stateAt s0 sched j).cs c ≠ .stalled

/-- thread `u` has an enabled step at moment `i` (for some choice of `range`) -/
def EnabledAt (s0 : St n) (sched : Nat → Act n) (u : Fin n) (i : Nat) : Prop := ∃ p, (next0 (stateAt s0 sched i) u p).isSome = true

/-- thread `u` takes an enabled step at moment `j` -/
def TakesAt (s0 : St n) (sched : Nat → Act n) (u : Fin n) (j : Nat) : Prop := ∃ p, sched j = .thr u p ∧ (next0 (stateAt s0 sched j) u p).isSome = true

/-- (H2) strong fairness of the scheduler towards `u`: enabled at infinitely many moments ⇒ takes steps at infinitely many moments -/
def SFair (s0 : St n) (sched : Nat → Act n) (u : Fin n) : Prop :=
  (∀ i, ∃ j, i ≤ j ∧ EnabledAt s0 sched u j) → ∀ i, ∃ j, i ≤ j ∧ TakesAt s0 sched u j

namespace LF

/-! ## Frame: a moment at which `t` takes no enabled step leaves `thr t` unchanged -/

theorem stateAt_succ (s0 : St n) (sched : Nat → Act n) (i : Nat) : stateAt s0 sched (i + 1) = act (stateAt s0 sched i) (sched i) := rfl

theorem take_step {s0 : St n} {sched : Nat → Act n} {t : Fin n} {j : Nat} (h : TakesAt s0 sched t j) :
    ∃ p s', next0 (stateAt s0 sched j) t p = some s' ∧ stateAt s0 sched (j + 1) = s' := by
  obtain ⟨p, hs, hen⟩ := h
  cases hn : next0 (stateAt s0 sched j) t p with
  | none => rw [hn] at hen; cases hen
  | some s' => exact ⟨p, s', hn, by rw [stateAt_succ, hs]; simp [act, hn]⟩

theorem no_take_frame {s0 : St n} {sched : Nat → Act n} {t : Fin n} {j : Nat} (h : ¬ TakesAt s0 sched t j) :
    (stateAt s0 sched (j + 1)).thr t = (stateAt s0 sched j).thr t := by
  rw [stateAt_succ]
  apply SL.act_other
  intro p hp
  cases hn : next0 (stateAt s0 sched j) t p with
  | none => rfl
  | some s' => exact (h ⟨p, hp, by rw [hn]; rfl⟩).elim

/-- scanning `d` moments from `i`: either `t` took an enabled step (and at the first such moment its thread state is still that of `i`), or it took none and is unchanged -/
theorem scan (s0 : St n) (sched : Nat → Act n) (t : Fin n) (i : Nat) : ∀ d,
    (∃ j, i ≤ j ∧ j < i + d ∧ TakesAt s0 sched t j ∧ (stateAt s0 sched j).thr t = (stateAt s0 sched i).thr t) ∨
    ((stateAt s0 sched (i + d)).thr t = (stateAt s0 sched i).thr t ∧ ∀ j, i ≤ j → j < i + d → ¬ TakesAt s0 sched t j) := by
  intro d
  induction d with
  | zero => exact Or.inr ⟨rfl, fun j h1 h2 => by omega⟩
  | succ d ih =>
    rcases ih with ⟨j, h1, h2, h3, h4⟩ | ⟨h1, h2⟩
    · exact Or.inl ⟨j, h1, by omega, h3, h4⟩
    · by_cases ht : TakesAt s0 sched t (i + d)
      · exact Or.inl ⟨i + d, by omega, by omega, ht, h1⟩
      · refine Or.inr ⟨?_, ?_⟩
        · have := no_take_frame ht
          rw [show i + (d + 1) = i + d + 1 by omega, this, h1]
        · intro j hj1 hj2
          by_cases e : j = i + d
          · subst e; exact ht
          · exact h2 j hj1 (by omega)

/-- the FIRST enabled step of `t` at or after `i`: the thread state is still that of moment `i` -/
theorem first_take {s0 : St n} {sched : Nat → Act n} {t : Fin n} {i j : Nat} (hj : i ≤ j) (h : TakesAt s0 sched t j) :
    ∃ j', i ≤ j' ∧ j' ≤ j ∧ TakesAt s0 sched t j' ∧ (stateAt s0 sched j').thr t = (stateAt s0 sched i).thr t := by
  obtain ⟨d, rfl⟩ : ∃ d, j = i + d := ⟨j - i, by omega⟩
  rcases scan s0 sched t i d with ⟨j', h1, h2, h3, h4⟩ | ⟨h1, _⟩
  · exact ⟨j', h1, by omega, h3, h4⟩
  · exact ⟨i + d, by omega, Nat.le_refl _, h, h1⟩

theorem const_of_never {s0 : St n} {sched : Nat → Act n} {t : Fin n} {i : Nat} (h : ∀ j, i ≤ j → ¬ TakesAt s0 sched t j) :
    ∀ m, i ≤ m → (stateAt s0 sched m).thr t = (stateAt s0 sched i).thr t := by
  intro m hm
  obtain ⟨d, rfl⟩ : ∃ d, m = i + d := ⟨m - i, by omega⟩
  rcases scan s0 sched t i d with ⟨j', h1, _, h3, _⟩ | ⟨h1, _⟩
  · exact (h j' h1 h3).elim
  · exact h1

/-- strong fairness, used by contradiction: if (assuming the thread never moves again) the thread is enabled again and again, it takes an enabled step -/
theorem takes_of_recurrent {s0 : St n} {sched : Nat → Act n} {t : Fin n} (hf : SFair s0 sched t) (i : Nat)
    (h : (∀ m, i ≤ m → (stateAt s0 sched m).thr t = (stateAt s0 sched i).thr t) → ∀ i', i ≤ i' → ∃ j, i' ≤ j ∧ EnabledAt s0 sched t j) :
    ∃ j, i ≤ j ∧ TakesAt s0 sched t j := by
  apply Classical.byContradiction
  intro hc
  have hnever : ∀ j, i ≤ j → ¬ TakesAt s0 sched t j := fun j hj ht => hc ⟨j, hj, ht⟩
  have hen := h (const_of_never hnever)
  have hinf : ∀ i', ∃ j, i' ≤ j ∧ EnabledAt s0 sched t j := by
    intro i'
    obtain ⟨j, hj, he⟩ := hen (i + i') (by omega)
    exact ⟨j, by omega, he⟩
  obtain ⟨j, hj, ht⟩ := hf hinf i
  exact hnever j hj ht

theorem first_fail (P : Nat → Prop) (a : Nat) : ∀ d, P a → ¬ P (a + d) → ∃ m, a ≤ m ∧ m < a + d ∧ P m ∧ ¬ P (m + 1) := by
  intro d
  induction d with
  | zero => intro h1 h2; exact (h2 h1).elim
  | succ d ih =>
    intro h1 h2
    by_cases h : P (a + d)
    · exact ⟨a + d, by omega, by omega, h, h2⟩
    · obtain ⟨m, hm1, hm2, hm3, hm4⟩ := ih h1 h
      exact ⟨m, hm1, by omega, hm3, hm4⟩

/-! ## Enabledness, per program counter -/

theorem en_idle {s : St n} {t : Fin n} (h : (s.thr t).pc = .idle) (hp : (s.thr t).prog ≠ []) (p : Conn) : (next0 s t p).isSome = true := by
  unfold next0
  simp only [h]
  cases hq : (s.thr t).prog with
  | nil => exact (hp hq).elim
  | cons op rest => rfl

theorem en_e0 {s : St n} {t : Fin n} (h : (s.thr t).pc = .e0) (p : Conn) : (next0 s t p).isSome = true := by
  unfold next0
  simp only [h]
  rfl

theorem en_sc {s : St n} {t : Fin n} (h : (s.thr t).pc = .sc) (p : Conn) : (next0 s t p).isSome = true := by
  unfold next0
  simp only [h]
  rfl

theorem en_tw {s : St n} {t : Fin n} (h : (s.thr t).pc = .s0 ∨ (s.thr t).pc = .u0 ∨ (s.thr t).pc = .p0) (htw : s.tw = none) (p : Conn) :
    (next0 s t p).isSome = true := by
  unfold next0
  rcases h with h | h | h <;> simp only [h, htw, if_true] <;> split <;> rfl

theorem en_ow {s : St n} {t : Fin n} {o : Obj} (h : (s.thr t).pc = .p3 o ∨ (s.thr t).pc = .s2 o ∨ (s.thr t).pc = .u2 o) (how : s.ow o = none)
    (p : Conn) : (next0 s t p).isSome = true := by
  unfold next0
  rcases h with h | h | h <;> simp only [h, how, if_true]
  · rfl
  · split <;> rfl
  · rfl

theorem en_p4 {s : St n} {t : Fin n} {o : Obj} {sent todo : List Conn} (h : (s.thr t).pc = .p4 o sent todo) : ∃ p, (next0 s t p).isSome = true := by
  cases todo with
  | nil => exact ⟨0, by unfold next0; simp only [h]; rfl⟩
  | cons c0 todo => exact ⟨c0, by unfold next0; simp [h]⟩

theorem en_pw {s : St n} {t : Fin n} {o : Obj} {sent rest : List Conn} {c : Conn} (h : (s.thr t).pc = .pw o sent c rest) (hc : s.cs c ≠ .stalled)
    (p : Conn) : (next0 s t p).isSome = true := by
  unfold next0
  simp only [h]
  cases hcs : s.cs c with
  | stalled => exact (hc hcs).elim
  | ready => rfl
  | dead => rfl

theorem looping_cases {pc : Pc} (h : looping pc = true) : (∃ o sent todo, pc = .p4 o sent todo) ∨ (∃ o sent c rest, pc = .pw o sent c rest) := by
  cases pc <;> simp [looping] at h ⊢

theorem inLoop_looping {o : Obj} {pc : Pc} (h : inLoop o pc = true) : looping pc = true := by
  cases pc <;> simp [inLoop] at h <;> rfl

end LF

/-- H1 + H2 give the fairness hypothesis of `stall_only_delays_partial` -/
theorem fairTo_of_strong (s0 : St n) (sched : Nat → Act n) (hs : StallsEnd s0 sched) (u : Fin n) (hf : SFair s0 sched u) : FairTo s0 sched u := by
  intro i hl
  refine LF.takes_of_recurrent hf i ?_
  intro hconst i' hi'
  rcases LF.looping_cases hl with ⟨o, sent, todo, hpc⟩ | ⟨o, sent, c, rest, hpc⟩
  · exact ⟨i', Nat.le_refl _, LF.en_p4 (by rw [hconst i' hi']; exact hpc)⟩
  · by_cases hc : (stateAt s0 sched i').cs c = .stalled
    · obtain ⟨j, hj, hne⟩ := hs i' c hc
      exact ⟨j, hj, 0, LF.en_pw (by rw [hconst j (by omega)]; exact hpc) hne 0⟩
    · exact ⟨i', Nat.le_refl _, 0, LF.en_pw (by rw [hconst i' hi']; exact hpc) hc 0⟩

namespace LF

/-- the hypotheses of the full theorem, bundled -/
structure Hyp (progs : Fin n → List Op) (s0 : St n) (sched : Nat → Act n) : Prop where
  real : Real progs
  reach : Reach progs s0
  se : StallsEnd s0 sched
  sf : ∀ u, SFair s0 sched u

/-! ## A channel object's lock is released again and again -/

/-- an enabled step of a thread in a delivery loop on `o` after which it is no longer in that loop of that operation: the final step, which unlocks `o` -/
theorem loop_step_ow {s s' : St n} {u : Fin n} {p : Conn} {o : Obj} (hn : next0 s u p = some s') (hin : inLoop o (s.thr u).pc = true)
    (hnot : ¬ (inLoop o (s'.thr u).pc = true ∧ (s'.thr u).k = (s.thr u).k)) : s'.ow o = none := by
  cases hpc : (s.thr u).pc with
  | p4 o' sent todo =>
    rw [hpc] at hin
    have e : o' = o := by simpa [inLoop] using hin
    subst e
    rcases next0_p4 hpc hn with ⟨_, rfl⟩ | ⟨_, rfl⟩
    · simp [fin, upd]
    · exact (hnot (by simp [setT, upd, inLoop])).elim
  | pw o' sent c rest =>
    rw [hpc] at hin
    have e : o' = o := by simpa [inLoop] using hin
    subst e
    rcases next0_pw hpc hn with ⟨_, rfl⟩ | ⟨_, rfl⟩
    · exact (hnot (by simp [setT, upd, inLoop])).elim
    · exact (hnot (by simp [setT, upd, inLoop])).elim
  | _ => rw [hpc] at hin; simp [inLoop] at hin

theorem ow_free {progs : Fin n → List Op} {s0 : St n} {sched : Nat → Act n} (H : Hyp progs s0 sched) (o : Obj) (i' : Nat) :
    ∃ m, i' ≤ m ∧ (stateAt s0 sched m).ow o = none := by
  cases how : (stateAt s0 sched i').ow o with
  | none => exact ⟨i', Nat.le_refl _, how⟩
  | some u =>
    have hin := (linv_reach progs _ (reach_stateAt progs s0 H.reach sched i')).held o u how
    obtain ⟨j, hj, x, hx⟩ := SL.live_aux s0 sched u (fairTo_of_strong s0 sched H.se u (H.sf u)) _ _ _ i'
      ⟨inLoop_looping hin, rfl, rfl, Nat.le_refl _⟩
    have hk := ((SL.cinv_reach progs _ (reach_stateAt progs s0 H.reach sched j)).c _ hx).1
    dsimp only at hk
    obtain ⟨d, rfl⟩ : ∃ d, j = i' + d := ⟨j - i', by omega⟩
    obtain ⟨m, hm1, hm2, hPm, hnP⟩ := first_fail
      (fun m => inLoop o ((stateAt s0 sched m).thr u).pc = true ∧ ((stateAt s0 sched m).thr u).k = ((stateAt s0 sched i').thr u).k) i' d
      ⟨hin, rfl⟩ (fun h => by have := h.2; omega)
    by_cases ht : TakesAt s0 sched u m
    · obtain ⟨p, s', hn, hs'⟩ := take_step ht
      refine ⟨m + 1, by omega, ?_⟩
      rw [hs']
      refine loop_step_ow hn hPm.1 (fun h => hnP ?_)
      rw [hs']
      exact ⟨h.1, by rw [h.2]; exact hPm.2⟩
    · exfalso
      apply hnP
      show inLoop o ((stateAt s0 sched (m + 1)).thr u).pc = true ∧ _
      rw [no_take_frame ht]
      exact hPm

/-- a thread waiting for a channel object's lock eventually takes its step -/
theorem takes_ow {progs : Fin n → List Op} {s0 : St n} {sched : Nat → Act n} (H : Hyp progs s0 sched) (t : Fin n) (i : Nat) (o : Obj)
    (hpc : ((stateAt s0 sched i).thr t).pc = .p3 o ∨ ((stateAt s0 sched i).thr t).pc = .s2 o ∨ ((stateAt s0 sched i).thr t).pc = .u2 o) :
    ∃ j, i ≤ j ∧ TakesAt s0 sched t j := by
  refine takes_of_recurrent (H.sf t) i ?_
  intro hconst i' hi'
  obtain ⟨m, hm, how⟩ := ow_free H o i'
  exact ⟨m, hm, 0, en_ow (by rw [hconst m (by omega)]; exact hpc) how 0⟩

/-! ## The table lock is released again and again -/

theorem holdsTW_cases {pc : Pc} (h : holdsTW pc ≠ none) : ∃ o, pc = .s2 o ∨ pc = .u2 o := by
  cases pc <;> simp [holdsTW] at h ⊢

theorem tw_free {progs : Fin n → List Op} {s0 : St n} {sched : Nat → Act n} (H : Hyp progs s0 sched) (i' : Nat) :
    ∃ m, i' ≤ m ∧ (stateAt s0 sched m).tw = none := by
  cases htw : (stateAt s0 sched i').tw with
  | none => exact ⟨i', Nat.le_refl _, htw⟩
  | some u =>
    have hI := inv_reach progs H.real _ (reach_stateAt progs s0 H.reach sched i')
    obtain ⟨o, hpc⟩ := holdsTW_cases (hI.twC u htw)
    obtain ⟨j, hj, ht⟩ := takes_ow H u i' o (Or.inr hpc)
    obtain ⟨j', h1, h2, ht', hthr⟩ := first_take hj ht
    obtain ⟨p, s', hn, hs'⟩ := take_step ht'
    refine ⟨j' + 1, by omega, ?_⟩
    rw [hs']
    have hI' := inv_reach progs H.real _ (reach_stateAt progs s0 H.reach sched j')
    rw [← hthr] at hpc
    rcases hpc with hpc | hpc
    · obtain ⟨_, rfl⟩ := next0_s2 hpc hn (hI'.real u).2.1
      simp [setT]
    · obtain ⟨_, rfl⟩ := next0_u2 hpc hn
      simp [fin]

/-- a thread waiting for the table lock eventually takes its step -/
theorem takes_tw {progs : Fin n → List Op} {s0 : St n} {sched : Nat → Act n} (H : Hyp progs s0 sched) (t : Fin n) (i : Nat)
    (hpc : ((stateAt s0 sched i).thr t).pc = .s0 ∨ ((stateAt s0 sched i).thr t).pc = .u0 ∨ ((stateAt s0 sched i).thr t).pc = .p0) :
    ∃ j, i ≤ j ∧ TakesAt s0 sched t j := by
  refine takes_of_recurrent (H.sf t) i ?_
  intro hconst i' hi'
  obtain ⟨m, hm, htw⟩ := tw_free H i'
  exact ⟨m, hm, 0, en_tw (by rw [hconst m (by omega)]; exact hpc) htw 0⟩

/-- a thread whose step is always enabled eventually takes it -/
theorem takes_always {s0 : St n} {sched : Nat → Act n} {t : Fin n} (hf : SFair s0 sched t) (i : Nat)
    (h : ∀ s : St n, s.thr t = (stateAt s0 sched i).thr t → (next0 s t 0).isSome = true) : ∃ j, i ≤ j ∧ TakesAt s0 sched t j := by
  refine takes_of_recurrent hf i ?_
  intro hconst i' hi'
  exact ⟨i', Nat.le_refl _, 0, h _ (hconst i' hi')⟩

theorem progress' {progs : Fin n → List Op} {s0 : St n} {sched : Nat → Act n} (H : Hyp progs s0 sched) (t : Fin n) (i : Nat)
    (hn : ((stateAt s0 sched i).thr t).pc ≠ .idle ∨ ((stateAt s0 sched i).thr t).prog ≠ []) :
    ∃ j, i ≤ j ∧ TakesAt s0 sched t j := by
  cases hpc : ((stateAt s0 sched i).thr t).pc with
  | idle =>
    have hp : ((stateAt s0 sched i).thr t).prog ≠ [] := by
      rcases hn with h | h
      · exact (h hpc).elim
      · exact h
    exact takes_always (H.sf t) i (fun s hs => en_idle (by rw [hs]; exact hpc) (by rw [hs]; exact hp) 0)
  | e0 => exact takes_always (H.sf t) i (fun s hs => en_e0 (by rw [hs]; exact hpc) 0)
  | sc => exact takes_always (H.sf t) i (fun s hs => en_sc (by rw [hs]; exact hpc) 0)
  | s0 => exact takes_tw H t i (Or.inl hpc)
  | u0 => exact takes_tw H t i (Or.inr (Or.inl hpc))
  | p0 => exact takes_tw H t i (Or.inr (Or.inr hpc))
  | p3 o => exact takes_ow H t i o (Or.inl hpc)
  | s2 o => exact takes_ow H t i o (Or.inr (Or.inl hpc))
  | u2 o => exact takes_ow H t i o (Or.inr (Or.inr hpc))
  | p4 o sent todo =>
    obtain ⟨j, hj, h⟩ := fairTo_of_strong s0 sched H.se t (H.sf t) i (by rw [hpc]; rfl)
    exact ⟨j, hj, h⟩
  | pw o sent c rest =>
    obtain ⟨j, hj, h⟩ := fairTo_of_strong s0 sched H.se t (H.sf t) i (by rw [hpc]; rfl)
    exact ⟨j, hj, h⟩

end LF

/-- progress: under H1 + H2 (for all threads) every thread that is not finished (pc ≠ idle, or program not empty) eventually takes an enabled step -/
theorem progress (progs : Fin n → List Op) (hreal : Real progs) (s0 : St n) (h0 : Reach progs s0) (sched : Nat → Act n)
    (hs : StallsEnd s0 sched) (hf : ∀ u, SFair s0 sched u) (t : Fin n) (i : Nat)
    (hn : ((stateAt s0 sched i).thr t).pc ≠ .idle ∨ ((stateAt s0 sched i).thr t).prog ≠ []) :
    ∃ j, i ≤ j ∧ TakesAt s0 sched t j :=
  LF.progress' ⟨hreal, h0, hs, hf⟩ t i hn

namespace LF

/-! ## Completion: chaining `progress` along the phases of an operation -/

/-- the completion record of `t`'s operation number `k0` (which is `cur0`) exists at some moment `≥ i` -/
def Compl (s0 : St n) (sched : Nat → Act n) (t : Fin n) (k0 : Nat) (cur0 : Op) (i : Nat) : Prop :=
  ∃ j, i ≤ j ∧ ∃ r, r ∈ (stateAt s0 sched j).done ∧ r.tid = t ∧ r.k = k0 ∧ r.op = cur0

theorem Compl.mono {s0 : St n} {sched : Nat → Act n} {t : Fin n} {k0 : Nat} {cur0 : Op} {i i' : Nat} (h : i ≤ i')
    (hc : Compl s0 sched t k0 cur0 i') : Compl s0 sched t k0 cur0 i := by
  obtain ⟨j, hj, r⟩ := hc
  exact ⟨j, by omega, r⟩

/-- the next own enabled step of an unfinished thread: it happens, and until then the thread has not moved -/
theorem own_next {progs : Fin n → List Op} {s0 : St n} {sched : Nat → Act n} (H : Hyp progs s0 sched) (t : Fin n) (i : Nat)
    (hn : ((stateAt s0 sched i).thr t).pc ≠ .idle) :
    ∃ j p s', i ≤ j ∧ (stateAt s0 sched j).thr t = (stateAt s0 sched i).thr t ∧ next0 (stateAt s0 sched j) t p = some s' ∧
      stateAt s0 sched (j + 1) = s' := by
  obtain ⟨j, hj, ht⟩ := progress' H t i (Or.inl hn)
  obtain ⟨j', h1, _, ht', hthr⟩ := first_take hj ht
  obtain ⟨p, s', hn', hs'⟩ := take_step ht'
  exact ⟨j', p, s', h1, hthr, hn', hs'⟩

variable {progs : Fin n → List Op} {s0 : St n} {sched : Nat → Act n} {t : Fin n} {k0 : Nat} {cur0 : Op} {i : Nat}

theorem compl_loop (H : Hyp progs s0 sched) (hl : looping ((stateAt s0 sched i).thr t).pc = true) (hk : ((stateAt s0 sched i).thr t).k = k0)
    (hc : ((stateAt s0 sched i).thr t).cur = cur0) : Compl s0 sched t k0 cur0 i := by
  obtain ⟨j, hj, x, hx⟩ := SL.live_aux s0 sched t (fairTo_of_strong s0 sched H.se t (H.sf t)) k0 cur0 _ i ⟨hl, hk, hc, Nat.le_refl _⟩
  exact ⟨j, hj, _, hx, rfl, rfl, rfl⟩

theorem compl_p3 (H : Hyp progs s0 sched) {o : Obj} (hpc : ((stateAt s0 sched i).thr t).pc = .p3 o) (hk : ((stateAt s0 sched i).thr t).k = k0)
    (hc : ((stateAt s0 sched i).thr t).cur = cur0) : Compl s0 sched t k0 cur0 i := by
  obtain ⟨j, p, s', hij, hthr, hn, hs'⟩ := own_next H t i (by rw [hpc]; simp)
  rw [← hthr] at hpc hk hc
  obtain ⟨_, rfl⟩ := next0_p3 hpc hn
  refine Compl.mono (i' := j + 1) (by omega) (compl_loop H ?_ ?_ ?_) <;> rw [hs'] <;> simp [setT, hk, hc]

theorem compl_p0 (H : Hyp progs s0 sched) (hpc : ((stateAt s0 sched i).thr t).pc = .p0) (hk : ((stateAt s0 sched i).thr t).k = k0)
    (hc : ((stateAt s0 sched i).thr t).cur = cur0) : Compl s0 sched t k0 cur0 i := by
  obtain ⟨j, p, s', hij, hthr, hn, hs'⟩ := own_next H t i (by rw [hpc]; simp)
  rw [← hthr] at hpc hk hc
  rcases (next0_p0 hpc hn).2 with ⟨o, _, rfl⟩ | ⟨_, rfl⟩
  · refine Compl.mono (i' := j + 1) (by omega) (compl_p3 H (o := o) ?_ ?_ ?_) <;> rw [hs'] <;> simp [setT, hk, hc]
  · exact ⟨j + 1, by omega, ⟨t, _, _, some 0⟩, by rw [hs']; simp [fin], rfl, hk, hc⟩

theorem compl_sc (H : Hyp progs s0 sched) (hpc : ((stateAt s0 sched i).thr t).pc = .sc) (hk : ((stateAt s0 sched i).thr t).k = k0)
    (hc : ((stateAt s0 sched i).thr t).cur = cur0) : Compl s0 sched t k0 cur0 i := by
  obtain ⟨j, p, s', hij, hthr, hn, hs'⟩ := own_next H t i (by rw [hpc]; simp)
  rw [← hthr] at hpc hk hc
  obtain rfl := next0_sc hpc hn
  exact ⟨j + 1, by omega, ⟨t, _, _, none⟩, by rw [hs']; simp [fin], rfl, hk, hc⟩

theorem compl_s2 (H : Hyp progs s0 sched) {o : Obj} (hpc : ((stateAt s0 sched i).thr t).pc = .s2 o) (hk : ((stateAt s0 sched i).thr t).k = k0)
    (hc : ((stateAt s0 sched i).thr t).cur = cur0) : Compl s0 sched t k0 cur0 i := by
  obtain ⟨j, p, s', hij, hthr, hn, hs'⟩ := own_next H t i (by rw [hpc]; simp)
  rw [← hthr] at hpc hk hc
  have hI := inv_reach progs H.real _ (reach_stateAt progs s0 H.reach sched j)
  obtain ⟨_, rfl⟩ := next0_s2 hpc hn (hI.real t).2.1
  refine Compl.mono (i' := j + 1) (by omega) (compl_sc H ?_ ?_ ?_) <;> rw [hs'] <;> simp [setT, hk, hc]

theorem compl_s0 (H : Hyp progs s0 sched) (hpc : ((stateAt s0 sched i).thr t).pc = .s0) (hk : ((stateAt s0 sched i).thr t).k = k0)
    (hc : ((stateAt s0 sched i).thr t).cur = cur0) : Compl s0 sched t k0 cur0 i := by
  obtain ⟨j, p, s', hij, hthr, hn, hs'⟩ := own_next H t i (by rw [hpc]; simp)
  rw [← hthr] at hpc hk hc
  rcases (next0_s0 hpc hn).2 with ⟨o, _, rfl⟩ | ⟨_, rfl⟩
  · refine Compl.mono (i' := j + 1) (by omega) (compl_s2 H (o := o) ?_ ?_ ?_) <;> rw [hs'] <;> simp [setT, hk, hc]
  · refine Compl.mono (i' := j + 1) (by omega) (compl_s2 H (o := (stateAt s0 sched j).next) ?_ ?_ ?_) <;> rw [hs'] <;> simp [setT, hk, hc]

theorem compl_u2 (H : Hyp progs s0 sched) {o : Obj} (hpc : ((stateAt s0 sched i).thr t).pc = .u2 o) (hk : ((stateAt s0 sched i).thr t).k = k0)
    (hc : ((stateAt s0 sched i).thr t).cur = cur0) : Compl s0 sched t k0 cur0 i := by
  obtain ⟨j, p, s', hij, hthr, hn, hs'⟩ := own_next H t i (by rw [hpc]; simp)
  rw [← hthr] at hpc hk hc
  obtain ⟨_, rfl⟩ := next0_u2 hpc hn
  exact ⟨j + 1, by omega, ⟨t, _, _, none⟩, by rw [hs']; simp [fin], rfl, hk, hc⟩

theorem compl_u0 (H : Hyp progs s0 sched) (hpc : ((stateAt s0 sched i).thr t).pc = .u0) (hk : ((stateAt s0 sched i).thr t).k = k0)
    (hc : ((stateAt s0 sched i).thr t).cur = cur0) : Compl s0 sched t k0 cur0 i := by
  obtain ⟨j, p, s', hij, hthr, hn, hs'⟩ := own_next H t i (by rw [hpc]; simp)
  rw [← hthr] at hpc hk hc
  rcases (next0_u0 hpc hn).2 with ⟨o, _, rfl⟩ | ⟨_, rfl⟩
  · refine Compl.mono (i' := j + 1) (by omega) (compl_u2 H (o := o) ?_ ?_ ?_) <;> rw [hs'] <;> simp [setT, hk, hc]
  · exact ⟨j + 1, by omega, ⟨t, _, _, none⟩, by rw [hs']; simp [fin], rfl, hk, hc⟩

theorem compl (H : Hyp progs s0 sched) (hn : ((stateAt s0 sched i).thr t).pc ≠ .idle) :
    Compl s0 sched t ((stateAt s0 sched i).thr t).k ((stateAt s0 sched i).thr t).cur i := by
  cases hpc : ((stateAt s0 sched i).thr t).pc with
  | idle => exact (hn hpc).elim
  | e0 => exact (((inv_reach progs H.real _ (reach_stateAt progs s0 H.reach sched i)).real t).1 hpc).elim
  | s0 => exact compl_s0 H hpc rfl rfl
  | s2 o => exact compl_s2 H hpc rfl rfl
  | sc => exact compl_sc H hpc rfl rfl
  | u0 => exact compl_u0 H hpc rfl rfl
  | u2 o => exact compl_u2 H hpc rfl rfl
  | p0 => exact compl_p0 H hpc rfl rfl
  | p3 o => exact compl_p3 H hpc rfl rfl
  | p4 o sent todo => exact compl_loop H (by rw [hpc]; rfl) rfl rfl
  | pw o sent c rest => exact compl_loop H (by rw [hpc]; rfl) rfl rfl

end LF

/-- **stall_only_delays** (C19, full).  For programs of the real code, on every infinite schedule on which every stall ends (H1) and which is strongly fair to every thread (H2): every operation that has been
    invoked (pc ≠ idle at moment i) completes — its completion record appears —, and an integer reply is the number of deliveries of that operation.  In particular every Send terminates: publishers are
    not blocked indefinitely, whatever else the environment does. -/
theorem stall_only_delays (progs : Fin n → List Op) (hreal : Real progs) (s0 : St n) (h0 : Reach progs s0) (sched : Nat → Act n)
    (hs : StallsEnd s0 sched) (hf : ∀ u, SFair s0 sched u) (t : Fin n) (i : Nat) (hn : ((stateAt s0 sched i).thr t).pc ≠ .idle) :
    ∃ j, i ≤ j ∧ ∃ r, r ∈ (stateAt s0 sched j).done ∧ r.tid = t ∧ r.k = ((stateAt s0 sched i).thr t).k ∧ r.op = ((stateAt s0 sched i).thr t).cur ∧
      ∀ x, r.reply = some x → x = delivered (stateAt s0 sched j) t r.k := by
  obtain ⟨j, hj, r, hr, h1, h2, h3⟩ := LF.compl (t := t) (i := i) ⟨hreal, h0, hs, hf⟩ hn
  refine ⟨j, hj, r, hr, h1, h2, h3, fun x hx => ?_⟩
  have := reply_counts_deliveries progs _ (reach_stateAt progs s0 h0 sched j) r hr x hx
  rw [h1] at this
  exact this

/-- the partial theorem restated under H1 + H2 (towards the sender only): a Send that holds the channel lock terminates -/
theorem stall_only_delays_partial' (progs : Fin n → List Op) (s0 : St n) (h0 : Reach progs s0) (sched : Nat → Act n) (hs : StallsEnd s0 sched)
    (t : Fin n) (hf : SFair s0 sched t) (i0 : Nat) (hl : looping ((stateAt s0 sched i0).thr t).pc = true) :
    ∃ j, i0 ≤ j ∧ ∃ r, r ∈ (stateAt s0 sched j).done ∧ r.tid = t ∧ r.k = ((stateAt s0 sched i0).thr t).k ∧ r.op = ((stateAt s0 sched i0).thr t).cur ∧
      r.reply = some (delivered (stateAt s0 sched j) t r.k) :=
  stall_only_delays_partial progs s0 h0 sched t (fairTo_of_strong s0 sched hs t hf) i0 hl

namespace LF

/-! ## The hypotheses are satisfiable: `SL.Ex.progs` / `SL.Ex.sched` (one thread: SUBSCRIBE, PUBLISH; the connection stalls at moment 7 while the
Send is in its loop, resumes at 10; from moment 13 on the thread is finished and the state no longer changes) -/
namespace Ex
open SL.Ex

theorem real : Real progs := by
  intro t op h
  simp only [progs, List.mem_cons, List.mem_nil_iff, or_false] at h
  rcases h with rfl | rfl <;> rfl

theorem at_ge (i : Nat) (h : 13 ≤ i) : stateAt (init progs) sched i = at' 13 := by
  obtain ⟨d, rfl⟩ : ∃ d, i = 13 + d := ⟨i - 13, by omega⟩
  exact tail d

theorem cs13 (c : Conn) : (at' 13).cs c ≠ .stalled := by
  show (upd (upd (fun _ => CS.ready) 1 CS.stalled) 1 CS.ready) c ≠ CS.stalled
  simp only [upd]
  split <;> simp

/-- H1 holds: the only stall (connection 1, moments 8 – 10) is followed by the resume at moment 10; at moment 13 and later nothing is stalled -/
theorem stallsEnd : StallsEnd (init progs) sched := by
  intro i c _
  refine ⟨13 + i, by omega, ?_⟩
  rw [at_ge (13 + i) (by omega)]
  exact cs13 c

theorem not_enabled13 (p : Conn) : next0 (at' 13) 0 p = none := by
  have h1 : ((at' 13).thr 0).pc = .idle := by decide
  have h2 : ((at' 13).thr 0).prog = [] := by decide
  unfold next0
  simp only [h1, h2]

/-- H2 holds — because its premise is false: from moment 13 on the thread is finished (idle, empty program), hence never enabled again, so strong
    fairness asks nothing (the conclusion "takes steps infinitely often" is indeed false here; it is not needed) -/
theorem sfair (u : Fin 1) : SFair (init progs) sched u := by
  intro hinf
  exfalso
  obtain ⟨j, hj, p, hp⟩ := hinf 13
  obtain rfl : u = 0 := Subsingleton.elim _ _
  rw [at_ge j hj, not_enabled13 p] at hp
  cases hp

/-- `stall_only_delays`: all hypotheses hold for this schedule; the PUBLISH invoked at moment 5 (pc = p0 at moment 5, before the stall) completes -/
example : ∃ j, 5 ≤ j ∧ ∃ r, r ∈ (at' j).done ∧ r.tid = 0 ∧ r.k = 1 ∧ r.op = .send [97] [1] ∧ ∀ x, r.reply = some x → x = delivered (at' j) 0 r.k :=
  stall_only_delays progs real (init progs) Reach.init sched stallsEnd sfair 0 5 (by decide)

/-- `progress`: at moment 9 the sender is blocked inside `Write` on the stalled connection; it takes an enabled step later -/
example : ∃ j, 9 ≤ j ∧ TakesAt (init progs) sched 0 j :=
  progress progs real (init progs) Reach.init sched stallsEnd sfair 0 9 (Or.inl (by decide))

/-- `fairTo_of_strong`: `FairTo` for this schedule follows from H1 + H2 (it was proved by hand as `SL.Ex.fair`) -/
example : FairTo (init progs) sched 0 := fairTo_of_strong (init progs) sched stallsEnd 0 (sfair 0)

end Ex
end LF

#print axioms fairTo_of_strong
#print axioms progress
#print axioms stall_only_delays
#print axioms stall_only_delays_partial'
#print axioms LF.Ex.stallsEnd
#print axioms LF.Ex.sfair

end PSS
