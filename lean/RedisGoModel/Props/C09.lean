import RedisGoModel.Exec.List
/-! C09 — theorems about the list model the driver runs (`Exec/List.lean`): index arithmetic, removal, trimming, push/pop laws,
    LMOVE conservation, LPOS against a reference definition, and the invariant that no stored list is empty. -/
namespace Exec
open Resp (Reply Bytes)

/-! ### keyspace lemmas -/

theorem Db.get_cons (p : Bytes × Entry) (db : Db) (k : Bytes) :
    Db.get (p :: db) k = if p.1 = k then some p.2 else Db.get db k := by
  unfold Db.get
  rw [List.find?_cons]
  by_cases h : p.1 = k
  · simp [h]
  · have : (p.1 == k) = false := by simpa using h
    simp [h, this]

theorem Db.del_cons (p : Bytes × Entry) (db : Db) (k : Bytes) :
    Db.del (p :: db) k = if p.1 = k then Db.del db k else p :: Db.del db k := by
  unfold Db.del
  rw [List.filter_cons]
  by_cases h : p.1 = k
  · simp [h]
  · have : (p.1 != k) = true := by simpa using h
    simp [h, this]

theorem Db.get_del (db : Db) (k k' : Bytes) : (db.del k).get k' = if k' = k then none else db.get k' := by
  induction db with
  | nil => simp [Db.del, Db.get]
  | cons p db ih =>
    rw [Db.del_cons, Db.get_cons]
    by_cases hp : p.1 = k
    · rw [if_pos hp, ih]
      by_cases hk : k' = k
      · simp [hk]
      · have : ¬ p.1 = k' := fun e => hk (e ▸ hp)
        simp [hk, this]
    · rw [if_neg hp, Db.get_cons, ih]
      by_cases hp' : p.1 = k'
      · have : ¬ k' = k := fun e => hp (hp'.trans e)
        simp [hp', this]
      · simp [hp']

theorem Db.get_del_self (db : Db) (k : Bytes) : (db.del k).get k = none := by simp [Db.get_del]

theorem Db.get_del_ne (db : Db) {k k' : Bytes} (h : k' ≠ k) : (db.del k).get k' = db.get k' := by simp [Db.get_del, h]

theorem Db.get_put (db : Db) (k k' : Bytes) (e : Entry) : (db.put k e).get k' = if k' = k then some e else db.get k' := by
  unfold Db.put
  rw [Db.get_cons, Db.get_del]
  by_cases h : k' = k
  · simp [h]
  · have : ¬ k = k' := fun e => h e.symm
    simp [h, this]

theorem Db.get_put_self (db : Db) (k : Bytes) (e : Entry) : (db.put k e).get k = some e := by simp [Db.get_put]

theorem Db.get_put_ne (db : Db) {k k' : Bytes} (e : Entry) (h : k' ≠ k) : (db.put k e).get k' = db.get k' := by simp [Db.get_put, h]

theorem checkTTL_cases (db : Db) (now : Int) (k : Bytes) : (checkTTL db now k).1 = db ∨ (checkTTL db now k).1 = db.del k := by
  unfold checkTTL
  split
  · split
    · split <;> simp
    · simp
  · simp

/-! ### (7) a stored list is never empty -/

def ListInv (db : Db) : Prop := ∀ k e, db.get k = some e → e.val ≠ .list []

theorem ListInv.nil : ListInv [] := by intro k e h; simp [Db.get] at h

theorem ListInv.del {db : Db} (h : ListInv db) (k : Bytes) : ListInv (db.del k) := by
  intro k' e he
  rw [Db.get_del] at he
  split at he
  · cases he
  · exact h k' e he

theorem ListInv.put {db : Db} (h : ListInv db) (k : Bytes) {e : Entry} (hv : e.val ≠ .list []) : ListInv (db.put k e) := by
  intro k' e' he
  rw [Db.get_put] at he
  split at he
  · cases he; exact hv
  · exact h k' e' he

theorem ListInv.setVal {db : Db} (h : ListInv db) (k : Bytes) {v : Value} (hv : v ≠ .list []) : ListInv (db.setVal k v) :=
  ListInv.put h k hv

theorem ListInv.checkTTL {db : Db} (h : ListInv db) (now : Int) (k : Bytes) : ListInv (checkTTL db now k).1 := by
  rcases checkTTL_cases db now k with e | e <;> rw [e]
  · exact h
  · exact h.del k

theorem ListInv.putList {db : Db} (h : ListInv db) (k : Bytes) (l : List Bytes) : ListInv (putList db k l) := by
  unfold Exec.putList
  split
  · exact h.del k
  · exact h.setVal k (by simp)

theorem ListInv.getList {db : Db} (h : ListInv db) {k : Bytes} {l : List Bytes} (hk : getList db k = some (some l)) : l ≠ [] := by
  unfold Exec.getList at hk
  split at hk
  · cases hk
  · rename_i e he
    split at hk
    · rename_i l' hl
      simp at hk; subst hk
      intro hnil; subst hnil
      exact h k e he hl
    · simp at hk

theorem pushed_ne_nil (left : Bool) (old : List Bytes) (v : Bytes) (vs : List Bytes) : pushed left old (v :: vs) ≠ [] := by
  unfold pushed; cases left <;> simp

theorem pushOne_ne_nil (left : Bool) (l : List Bytes) (x : Bytes) : pushOne left l x ≠ [] := by
  unfold pushOne; cases left <;> simp

theorem inv_pushGen (left xOnly : Bool) (env : Env) (db : Db) (args : List Bytes) (h : ListInv db) :
    ListInv (pushGen left xOnly env db args).2 := by
  unfold pushGen
  split
  · dsimp only
    split
    · exact h.checkTTL _ _
    · split
      · exact h.checkTTL _ _
      · exact (h.checkTTL _ _).setVal _ (by simp [pushed_ne_nil])
    · exact (h.checkTTL _ _).setVal _ (by simp [pushed_ne_nil])
  · exact h

/-- closes the invariant goal of a command whose effects are `checkTTL`, `putList` and `setVal` of a pushed list -/
macro "inv_auto" h:ident : tactic => `(tactic|
  repeat (first
    | exact $h
    | exact ListInv.checkTTL $h _ _
    | exact ListInv.putList (ListInv.checkTTL $h _ _) _ _
    | exact ListInv.setVal (ListInv.checkTTL $h _ _) _ (by simp [pushed_ne_nil, pushOne_ne_nil])
    | split
    | dsimp only))

theorem inv_popGen (left : Bool) (env : Env) (db : Db) (args : List Bytes) (h : ListInv db) :
    ListInv (popGen left env db args).2 := by
  unfold popGen
  inv_auto h

theorem inv_llen (env : Env) (db : Db) (args : List Bytes) (h : ListInv db) : ListInv (cmdLLen env db args).2 := by
  unfold cmdLLen
  inv_auto h

theorem inv_lindex (env : Env) (db : Db) (args : List Bytes) (h : ListInv db) : ListInv (cmdLIndex env db args).2 := by
  unfold cmdLIndex
  inv_auto h

theorem inv_lrange (env : Env) (db : Db) (args : List Bytes) (h : ListInv db) : ListInv (cmdLRange env db args).2 := by
  unfold cmdLRange
  inv_auto h

theorem inv_ltrim (env : Env) (db : Db) (args : List Bytes) (h : ListInv db) : ListInv (cmdLTrim env db args).2 := by
  unfold cmdLTrim
  inv_auto h

theorem inv_lrem (env : Env) (db : Db) (args : List Bytes) (h : ListInv db) : ListInv (cmdLRem env db args).2 := by
  unfold cmdLRem
  inv_auto h

theorem inv_lpos (env : Env) (db : Db) (args : List Bytes) (h : ListInv db) : ListInv (cmdLPos env db args).2 := by
  unfold cmdLPos
  inv_auto h

theorem set_ne_nil {l : List Bytes} (hl : l ≠ []) (j : Nat) (v : Bytes) : l.set j v ≠ [] := by
  intro e
  have := congrArg List.length e
  simp at this
  exact hl this

theorem inv_lset (env : Env) (db : Db) (args : List Bytes) (h : ListInv db) : ListInv (cmdLSet env db args).2 := by
  unfold cmdLSet
  split
  · split
    · exact h
    · dsimp only
      split
      · exact h.checkTTL _ _
      · exact h.checkTTL _ _
      · rename_i l hk
        split
        · exact h.checkTTL _ _
        · refine (h.checkTTL _ _).setVal _ ?_
          have hl := (h.checkTTL _ _).getList hk
          simp [set_ne_nil hl]
  · exact h

theorem inv_lmove (env : Env) (db : Db) (args : List Bytes) (h : ListInv db) : ListInv (cmdLMove env db args).2 := by
  unfold cmdLMove
  have h2 : ∀ a b, ListInv (checkTTL (checkTTL db env.now a).1 env.now b).1 := fun a b => (h.checkTTL _ a).checkTTL _ b
  split
  · split
    · dsimp only
      split
      · exact h2 _ _
      · exact h2 _ _
      · split
        · exact h2 _ _
        · split
          · exact h2 _ _
          · split
            · exact (h2 _ _).setVal _ (by simp [pushOne_ne_nil])
            · exact ((h2 _ _).putList _ _).setVal _ (by simp [pushOne_ne_nil])
    · exact h
  · exact h

theorem inv_bpopScan (left : Bool) (now : Int) (keys : List Bytes) : ∀ (db : Db), ListInv db → ListInv (bpopScan left now db keys).2 := by
  induction keys with
  | nil => intro db h; exact h
  | cons k ks ih =>
    intro db h
    unfold bpopScan
    dsimp only
    split
    · exact ih _ (h.checkTTL _ _)
    · exact h.checkTTL _ _
    · split
      · exact ih _ (h.checkTTL _ _)
      · exact (h.checkTTL _ _).putList _ _

theorem inv_bpopGen (left : Bool) (env : Env) (db : Db) (args : List Bytes) (h : ListInv db) :
    ListInv (bpopGen left env db args).2 := by
  unfold bpopGen
  split
  · split
    · split
      · exact h
      · split
        · exact h
        · split
          · exact h
          · have hs := fun ks => inv_bpopScan left env.now ks db h
            split
            · rename_i heq; have t := congrArg Prod.snd heq; simp only at t; rw [← t]; exact hs _
            · rename_i heq; have t := congrArg Prod.snd heq; simp only at t
              split <;> (rw [← t]; exact hs _)
    · exact h
  · exact h

/-- **(7) `list_never_empty`**: every command of the list table preserves "no stored list is empty" — a list that becomes empty
    ceases to exist, whatever the command, arguments, clock reading and keyspace -/
theorem list_never_empty : ∀ p ∈ listTable, ∀ (env : Env) (db : Db) (args : List Bytes), ListInv db → ListInv (p.2 env db args).2 := by
  intro p hp env db args h
  simp only [listTable, List.mem_cons, List.mem_nil_iff, or_false] at hp
  rcases hp with e | e | e | e | e | e | e | e | e | e | e | e | e | e | e | e <;> subst e
  · exact inv_llen env db args h
  · exact inv_lindex env db args h
  · exact inv_lpos env db args h
  · exact inv_popGen _ env db args h
  · exact inv_popGen _ env db args h
  · exact inv_pushGen _ _ env db args h
  · exact inv_pushGen _ _ env db args h
  · exact inv_pushGen _ _ env db args h
  · exact inv_pushGen _ _ env db args h
  · exact inv_lset env db args h
  · exact inv_lrem env db args h
  · exact inv_ltrim env db args h
  · exact inv_lrange env db args h
  · exact inv_lmove env db args h
  · exact inv_bpopGen _ env db args h
  · exact inv_bpopGen _ env db args h

/-! ### (1) LRANGE, (4) LTRIM: the reply / the remaining list is `specRange` of the elements, for all start/stop

    `seen env db k` is the keyspace the command works on: `db` after the expiry check of `k`. -/

abbrev seen (env : Env) (db : Db) (k : Bytes) : Db := (checkTTL db env.now k).1

theorem lrange_spec (env : Env) (db : Db) (c k s e : Bytes) (si ei : Int) (l : List Bytes)
    (hs : parseI64 s = some si) (he : parseI64 e = some ei) (hk : getList (seen env db k) k = some (some l)) :
    cmdLRange env db [c, k, s, e] = (bulks (ListOps.specRange l si ei), seen env db k) := by
  simp only [cmdLRange, hs, he]
  rw [show (checkTTL db env.now k).1 = seen env db k from rfl, hk]

theorem lrange_missing (env : Env) (db : Db) (c k s e : Bytes) (si ei : Int)
    (hs : parseI64 s = some si) (he : parseI64 e = some ei) (hk : getList (seen env db k) k = none) :
    cmdLRange env db [c, k, s, e] = (bulks [], seen env db k) := by
  simp only [cmdLRange, hs, he]
  rw [show (checkTTL db env.now k).1 = seen env db k from rfl, hk]

theorem ltrim_spec (env : Env) (db : Db) (c k s e : Bytes) (si ei : Int) (l : List Bytes)
    (hs : parseI64 s = some si) (he : parseI64 e = some ei) (hk : getList (seen env db k) k = some (some l)) :
    cmdLTrim env db [c, k, s, e] = (ok, putList (seen env db k) k (ListOps.specRange l si ei)) := by
  simp only [cmdLTrim, hs, he]
  rw [show (checkTTL db env.now k).1 = seen env db k from rfl, hk]

/-- what a later command sees under `k` after `putList`: the new elements, or nothing when they are none -/
theorem getList_putList (db : Db) (k : Bytes) (l : List Bytes) :
    getList (putList db k l) k = if l = [] then none else some (some l) := by
  unfold putList
  cases l with
  | nil => simp [getList, Db.get_del_self]
  | cons x xs => simp [getList, Db.setVal, Db.get_put_self]

theorem getList_putList_ne (db : Db) {k k' : Bytes} (l : List Bytes) (h : k' ≠ k) :
    getList (putList db k l) k' = getList db k' := by
  unfold putList
  cases l with
  | nil => simp [getList, Db.get_del_ne db h]
  | cons x xs => simp [getList, Db.setVal, Db.get_put_ne db _ h]

/-- LTRIM that keeps nothing deletes the key -/
theorem ltrim_empty_deletes (env : Env) (db : Db) (c k s e : Bytes) (si ei : Int) (l : List Bytes)
    (hs : parseI64 s = some si) (he : parseI64 e = some ei) (hk : getList (seen env db k) k = some (some l))
    (hempty : ListOps.specRange l si ei = []) :
    (cmdLTrim env db [c, k, s, e]).2.get k = none := by
  rw [ltrim_spec env db c k s e si ei l hs he hk, hempty]
  simp [putList, Db.get_del_self]

/-- the LRANGE reply is a contiguous stretch of the list: nothing repeated, dropped in the middle or reordered -/
theorem specRange_infix (xs : List Bytes) (start stop : Int) : ∃ p s, xs = p ++ ListOps.specRange xs start stop ++ s := by
  have key : ∀ (a t : Nat), ∃ p s, xs = p ++ (xs.drop a).take t ++ s := fun a t =>
    ⟨xs.take a, (xs.drop a).drop t, by rw [List.append_assoc, List.take_append_drop, List.take_append_drop]⟩
  unfold ListOps.specRange
  dsimp only
  repeat' split
  all_goals first | exact key _ _ | exact ⟨xs, [], by simp⟩

/-! ### (2) LINDEX / LSET: indexes from either end -/

theorem lindex_spec (env : Env) (db : Db) (c k i : Bytes) (ii : Int) (l : List Bytes)
    (hi : parseI64 i = some ii) (hk : getList (seen env db k) k = some (some l)) :
    cmdLIndex env db [c, k, i] = (.bulk (ListOps.specIndex l ii), seen env db k) := by
  simp only [cmdLIndex, hi]
  rw [show (checkTTL db env.now k).1 = seen env db k from rfl, hk]

/-- a non-negative index counts from the head -/
theorem specIndex_nonneg (xs : List Bytes) (i : Nat) : ListOps.specIndex xs (i : Int) = xs[i]? := by
  unfold ListOps.specIndex
  by_cases h : i < xs.length
  · have h1 : ¬ ((i : Int) < 0) := by omega
    have h2 : ¬ ((i : Int) < 0 ∨ (i : Int) ≥ (xs.length : Int)) := by omega
    simp [h1, h2]
  · have h1 : ¬ ((i : Int) < 0) := by omega
    have h2 : ((i : Int) < 0 ∨ (i : Int) ≥ (xs.length : Int)) := by omega
    have h3 : xs[i]? = none := by simp; omega
    simp [h1, h2, h3]

/-- index `-(j+1)` is the `j`-th element counting from the tail (`-1` = last); beyond the head: nil -/
theorem specIndex_neg (xs : List Bytes) (j : Nat) : ListOps.specIndex xs (-((j : Int) + 1)) = xs.reverse[j]? := by
  unfold ListOps.specIndex
  have h1 : (-((j : Int) + 1) < 0) := by omega
  by_cases h : j < xs.length
  · have h2 : ¬ ((xs.length : Int) + -((j : Int) + 1) < 0 ∨ (xs.length : Int) + -((j : Int) + 1) ≥ (xs.length : Int)) := by omega
    simp only [h1, if_true, h2, if_false]
    rw [List.getElem?_reverse h]
    congr 1
    omega
  · have h2 : ((xs.length : Int) + -((j : Int) + 1) < 0 ∨ (xs.length : Int) + -((j : Int) + 1) ≥ (xs.length : Int)) := by omega
    have h3 : xs.reverse[j]? = none := by simp; omega
    simp [h1, h2, h3]

/-- `normIndex` (LSET's addressing) and `specIndex` (LINDEX's) agree: same position, out of range together -/
theorem specIndex_eq_normIndex (xs : List Bytes) (i : Int) :
    ListOps.specIndex xs i = (normIndex xs.length i).bind (xs[·]?) := by
  unfold ListOps.specIndex normIndex
  by_cases hneg : i < 0 <;> simp only [hneg, if_true, if_false]
  · by_cases h : (xs.length : Int) + i < 0 ∨ (xs.length : Int) + i ≥ xs.length
    · rw [if_pos h, if_pos h]; rfl
    · rw [if_neg h, if_neg h]; rfl
  · by_cases h : False ∨ i ≥ xs.length
    · rw [if_pos h, if_pos h]; rfl
    · rw [if_neg h, if_neg h]; rfl

theorem normIndex_lt {n : Nat} {i : Int} {j : Nat} (h : normIndex n i = some j) : j < n := by
  unfold normIndex at h
  by_cases hneg : i < 0 <;> simp only [hneg, if_true, if_false] at h
  · by_cases hc : (n : Int) + i < 0 ∨ (n : Int) + i ≥ n
    · rw [if_pos hc] at h; cases h
    · rw [if_neg hc] at h; injection h with h; omega
  · by_cases hc : False ∨ i ≥ n
    · rw [if_pos hc] at h; cases h
    · rw [if_neg hc] at h; injection h with h; omega

theorem lset_in_range (env : Env) (db : Db) (c k i v : Bytes) (ii : Int) (l : List Bytes) (j : Nat)
    (hi : parseI64 i = some ii) (hk : getList (seen env db k) k = some (some l)) (hj : normIndex l.length ii = some j) :
    cmdLSet env db [c, k, i, v] = (ok, (seen env db k).setVal k (.list (l.set j v))) := by
  simp only [cmdLSet, hi]
  rw [show (checkTTL db env.now k).1 = seen env db k from rfl, hk]
  simp only [hj]

/-- out of range (either end): an error and no change -/
theorem lset_out_of_range (env : Env) (db : Db) (c k i v : Bytes) (ii : Int) (l : List Bytes)
    (hi : parseI64 i = some ii) (hk : getList (seen env db k) k = some (some l)) (hj : normIndex l.length ii = none) :
    cmdLSet env db [c, k, i, v] = (errIndex, seen env db k) := by
  simp only [cmdLSet, hi]
  rw [show (checkTTL db env.now k).1 = seen env db k from rfl, hk]
  simp only [hj]

/-- after a successful LSET, LINDEX with the same index reads the new value, every other position is unchanged, the length too -/
theorem lset_then_lindex (l : List Bytes) (ii : Int) (j : Nat) (v : Bytes) (hj : normIndex l.length ii = some j) :
    ListOps.specIndex (l.set j v) ii = some v ∧ (l.set j v).length = l.length ∧
    ∀ m, m ≠ j → (l.set j v)[m]? = l[m]? := by
  refine ⟨?_, by simp, ?_⟩
  · rw [specIndex_eq_normIndex]
    simp only [List.length_set, hj]
    have := normIndex_lt hj
    simp [this]
  · intro m hm
    rw [List.getElem?_set_ne (Ne.symm hm)]

/-! ### (3) LREM -/

theorem lrem_reply (env : Env) (db : Db) (c k n v : Bytes) (cnt : Int) (l : List Bytes)
    (hn : parseI64 n = some cnt) (hk : getList (seen env db k) k = some (some l)) :
    cmdLRem env db [c, k, n, v] =
      (.int ((l.length - (lrem l v cnt).length : Nat) : Int), putList (seen env db k) k (lrem l v cnt)) := by
  simp only [cmdLRem, hn]
  rw [show (checkTTL db env.now k).1 = seen env db k from rfl, hk]

theorem length_filter_ne (v : Bytes) (p : List Bytes) : (p.filter (· ≠ v)).length + p.count v = p.length := by
  induction p with
  | nil => simp
  | cons x xs ih =>
    by_cases h : x = v
    · subst h; simp at ih ⊢; omega
    · have : (x == v) = false := by simpa using h
      simp [h, this] at ih ⊢; omega

/-- the head walk: exactly the first `min n (count v xs)` occurrences of `v` disappear — they all lie in a prefix `p`, from which
    every `v` is removed while everything else, and the whole rest `s`, stays as it was -/
theorem remFirst_decomp (v : Bytes) : ∀ (n : Nat) (xs : List Bytes),
    ∃ p s, xs = p ++ s ∧ ListOps.remFirst v n xs = p.filter (· ≠ v) ++ s ∧ p.count v = min n (xs.count v) := by
  intro n xs
  induction xs generalizing n with
  | nil => exact ⟨[], [], by simp, by cases n <;> simp [ListOps.remFirst], by simp⟩
  | cons x xs ih =>
    cases n with
    | zero => exact ⟨[], x :: xs, by simp, by simp [ListOps.remFirst], by simp⟩
    | succ n =>
      by_cases hx : x = v
      · obtain ⟨p, s, h1, h2, h3⟩ := ih n
        refine ⟨x :: p, s, by simp [h1], ?_, ?_⟩
        · simp [ListOps.remFirst, hx, h2]
        · subst hx; simp [h3]
      · obtain ⟨p, s, h1, h2, h3⟩ := ih (n + 1)
        have hb : (x == v) = false := by simpa using hx
        refine ⟨x :: p, s, by simp [h1], ?_, ?_⟩
        · simp [ListOps.remFirst, hx, h2]
        · simp [List.count_cons, hb, h3]

/-- `count > 0`: the first `count` occurrences from the head -/
theorem lrem_pos (l : List Bytes) (v : Bytes) (c : Int) (hc : c > 0) :
    ∃ p s, l = p ++ s ∧ lrem l v c = p.filter (· ≠ v) ++ s ∧ p.count v = min c.toNat (l.count v) := by
  have h0 : ¬ c = 0 := by omega
  simp only [lrem, h0, hc, if_true, if_false]
  exact remFirst_decomp v c.toNat l

/-- `count < 0`: the first `-count` occurrences from the tail -/
theorem lrem_neg (l : List Bytes) (v : Bytes) (c : Int) (hc : c < 0) :
    ∃ p s, l = p ++ s ∧ lrem l v c = p ++ s.filter (· ≠ v) ∧ s.count v = min (-c).toNat (l.count v) := by
  have h0 : ¬ c = 0 := by omega
  have h1 : ¬ c > 0 := by omega
  simp only [lrem, h0, h1, if_false]
  obtain ⟨p, s, e1, e2, e3⟩ := remFirst_decomp v (-c).toNat l.reverse
  refine ⟨s.reverse, p.reverse, ?_, ?_, ?_⟩
  · have := congrArg List.reverse e1; simpa using this
  · rw [e2]; simp [List.filter_reverse]
  · simpa using e3

/-- `count = 0`: every occurrence -/
theorem lrem_zero (l : List Bytes) (v : Bytes) : lrem l v 0 = l.filter (· ≠ v) := by simp [lrem]

/-- the other elements keep their order and multiplicity, whatever the count -/
theorem lrem_others (l : List Bytes) (v : Bytes) (c : Int) : (lrem l v c).filter (· ≠ v) = l.filter (· ≠ v) := by
  rcases Int.lt_trichotomy c 0 with h | h | h
  · obtain ⟨p, s, e1, e2, _⟩ := lrem_neg l v c h
    rw [e2, e1]; simp [List.filter_append, List.filter_filter]
  · subst h; rw [lrem_zero]; simp [List.filter_filter]
  · obtain ⟨p, s, e1, e2, _⟩ := lrem_pos l v c h
    rw [e2, e1]; simp [List.filter_append, List.filter_filter]

/-- the reply: the number of elements removed is `min |count| (occurrences)`, all of them for `count = 0` -/
theorem lrem_removed (l : List Bytes) (v : Bytes) (c : Int) :
    l.length - (lrem l v c).length = if c = 0 then l.count v else min c.natAbs (l.count v) := by
  rcases Int.lt_trichotomy c 0 with h | h | h
  · obtain ⟨p, s, e1, e2, e3⟩ := lrem_neg l v c h
    have h0 : ¬ c = 0 := by omega
    have := length_filter_ne v s
    have hn : (-c).toNat = c.natAbs := by omega
    rw [if_neg h0, e2, ← hn, ← e3]
    rw [e1]; simp only [List.length_append]; omega
  · subst h
    have := length_filter_ne v l
    rw [lrem_zero]; simp at this ⊢; omega
  · obtain ⟨p, s, e1, e2, e3⟩ := lrem_pos l v c h
    have h0 : ¬ c = 0 := by omega
    have := length_filter_ne v p
    have hn : c.toNat = c.natAbs := by omega
    rw [if_neg h0, e2, ← hn, ← e3]
    rw [e1]; simp only [List.length_append]; omega

/-! ### (5) push / pop laws, LLEN -/

theorem lpush_spec (env : Env) (db : Db) (c k v : Bytes) (vs old : List Bytes)
    (hk : getList (seen env db k) k = some (some old)) :
    cmdLPush env db (c :: k :: v :: vs) =
      (.int (((v :: vs).reverse ++ old).length : Nat), (seen env db k).setVal k (.list ((v :: vs).reverse ++ old))) := by
  simp only [cmdLPush, pushGen]
  rw [show (checkTTL db env.now k).1 = seen env db k from rfl, hk]
  simp [pushed]

theorem rpush_spec (env : Env) (db : Db) (c k v : Bytes) (vs old : List Bytes)
    (hk : getList (seen env db k) k = some (some old)) :
    cmdRPush env db (c :: k :: v :: vs) =
      (.int ((old ++ v :: vs).length : Nat), (seen env db k).setVal k (.list (old ++ v :: vs))) := by
  simp only [cmdRPush, pushGen]
  rw [show (checkTTL db env.now k).1 = seen env db k from rfl, hk]
  simp [pushed]

/-- on a missing key LPUSH/RPUSH create the list (old = []), the X forms do nothing and answer 0 -/
theorem push_missing (left : Bool) (env : Env) (db : Db) (c k v : Bytes) (vs : List Bytes)
    (hk : getList (seen env db k) k = none) :
    pushGen left false env db (c :: k :: v :: vs) =
      (.int ((pushed left [] (v :: vs)).length : Nat), (seen env db k).setVal k (.list (pushed left [] (v :: vs)))) ∧
    pushGen left true env db (c :: k :: v :: vs) = (.int 0, seen env db k) := by
  simp only [pushGen]
  rw [show (checkTTL db env.now k).1 = seen env db k from rfl, hk]
  simp

theorem llen_spec (env : Env) (db : Db) (c k : Bytes) (l : List Bytes) (hk : getList (seen env db k) k = some (some l)) :
    cmdLLen env db [c, k] = (.int (l.length : Nat), seen env db k) := by
  simp only [cmdLLen]
  rw [show (checkTTL db env.now k).1 = seen env db k from rfl, hk]

/-- LPOP/RPOP with a count: the reply is the popped elements in pop order, the rest is stored (deleted when empty) -/
theorem pop_count_spec (left : Bool) (env : Env) (db : Db) (c k n : Bytes) (cnt : Nat) (l : List Bytes)
    (hn : parseI64 n = some (Int.ofNat cnt)) (hk : getList (seen env db k) k = some (some l)) :
    popGen left env db [c, k, n] = (bulks (popN left cnt l).1, putList (seen env db k) k (popN left cnt l).2) := by
  simp only [popGen, hn]
  rw [show (checkTTL db env.now k).1 = seen env db k from rfl, hk]

/-- without a count: the end element as a bulk -/
theorem pop_one_spec (left : Bool) (env : Env) (db : Db) (c k : Bytes) (l : List Bytes)
    (hk : getList (seen env db k) k = some (some l)) :
    popGen left env db [c, k] =
      ((match (popN left 1 l).1 with | x :: _ => bulk x | [] => nil), putList (seen env db k) k (popN left 1 l).2) := by
  simp only [popGen]
  rw [show (checkTTL db env.now k).1 = seen env db k from rfl, hk]
  rfl

/-- a missing key: nil, and the nil array when a count was given -/
theorem pop_missing (left : Bool) (env : Env) (db : Db) (c k n : Bytes) (cnt : Nat)
    (hn : parseI64 n = some (Int.ofNat cnt)) (hk : getList (seen env db k) k = none) :
    popGen left env db [c, k] = (nil, seen env db k) ∧ popGen left env db [c, k, n] = (nilArr, seen env db k) := by
  simp only [popGen, hn]
  rw [show (checkTTL db env.now k).1 = seen env db k from rfl, hk]
  simp

/-- exactly `min n (length)` elements are popped -/
theorem popN_length (left : Bool) (n : Nat) (l : List Bytes) :
    (popN left n l).1.length = min n l.length ∧ (popN left n l).2.length = l.length - n := by
  cases left <;> simp [popN, List.length_take]

/-- LPOP: the popped elements are the first `n` in list order, followed by the rest -/
theorem popN_left (n : Nat) (l : List Bytes) : (popN true n l).1 ++ (popN true n l).2 = l := by
  simp [popN]

/-- RPOP: the rest, followed by the popped elements in reverse pop order, is the old list (the last element is popped first) -/
theorem popN_right (n : Nat) (l : List Bytes) : (popN false n l).2 ++ (popN false n l).1.reverse = l := by
  simp only [popN, Bool.false_eq_true, if_false]
  rw [List.take_reverse, List.reverse_reverse, List.take_append_drop]

/-! ### (6) LMOVE conserves the elements -/

/-- the elements a key contributes: those of its list, none when the key is missing -/
def elems (db : Db) (k : Bytes) : List Bytes := match getList db k with | some (some l) => l | _ => []

abbrev seen2 (env : Env) (db : Db) (a b : Bytes) : Db := (checkTTL (checkTTL db env.now a).1 env.now b).1

theorem getList_setVal (db : Db) (k : Bytes) (l : List Bytes) : getList (db.setVal k (.list l)) k = some (some l) := by
  simp [getList, Db.setVal, Db.get_put_self]

theorem getList_setVal_ne (db : Db) {k k' : Bytes} (v : Value) (h : k' ≠ k) : getList (db.setVal k v) k' = getList db k' := by
  simp [getList, Db.setVal, Db.get_put_ne db _ h]

theorem popOne_spec (left : Bool) (l : List Bytes) (hl : l ≠ []) :
    ∃ x rest, popOne left l = some (x, rest) ∧ (if left then l = x :: rest else l = rest ++ [x]) := by
  cases left
  · have hr : l.reverse ≠ [] := by simpa using hl
    cases h : l.reverse with
    | nil => exact absurd h hr
    | cons x r =>
      refine ⟨x, r.reverse, by simp [popOne, h], ?_⟩
      have := congrArg List.reverse h
      simpa using this
  · cases l with
    | nil => exact absurd rfl hl
    | cons x r => exact ⟨x, r, by simp [popOne], by simp⟩

theorem move_perm (fromLeft toLeft : Bool) (ls ld rest : List Bytes) (x : Bytes)
    (h : if fromLeft then ls = x :: rest else ls = rest ++ [x]) :
    (rest ++ pushOne toLeft ld x).Perm (ls ++ ld) := by
  cases fromLeft <;> cases toLeft <;> simp only [pushOne, Bool.false_eq_true, if_false, if_true] at h ⊢ <;> subst h
  · -- right → right
    rw [List.append_assoc]
    exact List.Perm.append_left rest List.perm_append_comm
  · -- right → left
    simp
  · -- left → right
    rw [← List.append_assoc]
    exact List.perm_append_singleton x (rest ++ ld)
  · -- left → left
    exact List.perm_middle

/-- **LMOVE between two different keys**: one element leaves the chosen end of the source and enters the chosen end of the
    destination; the two lists together hold the same elements with the same multiplicities as before; no other key changes;
    an emptied source ceases to exist (`elems … = []` via `putList`) -/
theorem lmove_conserves (env : Env) (db : Db) (c src dst wf wt : Bytes) (fromLeft toLeft : Bool) (ls : List Bytes)
    (hf : parseDir wf = some fromLeft) (ht : parseDir wt = some toLeft) (hne : src ≠ dst)
    (hs : getList (seen2 env db src dst) src = some (some ls)) (hls : ls ≠ [])
    (hd : getList (seen2 env db src dst) dst ≠ some none) :
    ∃ x rest, popOne fromLeft ls = some (x, rest) ∧
      (cmdLMove env db [c, src, dst, wf, wt]).1 = bulk x ∧
      elems (cmdLMove env db [c, src, dst, wf, wt]).2 src = rest ∧
      elems (cmdLMove env db [c, src, dst, wf, wt]).2 dst = pushOne toLeft (elems (seen2 env db src dst) dst) x ∧
      (elems (cmdLMove env db [c, src, dst, wf, wt]).2 src ++ elems (cmdLMove env db [c, src, dst, wf, wt]).2 dst).Perm
        (ls ++ elems (seen2 env db src dst) dst) ∧
      (∀ k', k' ≠ src → k' ≠ dst → (cmdLMove env db [c, src, dst, wf, wt]).2.get k' = (seen2 env db src dst).get k') ∧
      ((cmdLMove env db [c, src, dst, wf, wt]).2.get src = none ↔ rest = []) := by
  obtain ⟨x, rest, hp, hshape⟩ := popOne_spec fromLeft ls hls
  have hne' : dst ≠ src := fun e => hne e.symm
  have hsd : (src == dst) = false := by simpa using hne
  -- the result of the command in closed form
  have hres : cmdLMove env db [c, src, dst, wf, wt] =
      (bulk x, (putList (seen2 env db src dst) src rest).setVal dst (.list (pushOne toLeft (elems (seen2 env db src dst) dst) x))) := by
    simp only [cmdLMove, hf, ht]
    rw [show (checkTTL (checkTTL db env.now src).1 env.now dst).1 = seen2 env db src dst from rfl, hs]
    unfold elems
    cases hdv : getList (seen2 env db src dst) dst with
    | none => simp [hp, hsd]
    | some o =>
      cases o with
      | none => exact absurd hdv hd
      | some ld => simp [hp, hsd]
  have e1 : elems (cmdLMove env db [c, src, dst, wf, wt]).2 src = rest := by
    rw [hres]; unfold elems
    rw [getList_setVal_ne _ _ hne, getList_putList]
    cases rest <;> simp
  have e2 : elems (cmdLMove env db [c, src, dst, wf, wt]).2 dst = pushOne toLeft (elems (seen2 env db src dst) dst) x := by
    rw [hres]; simp only [elems, getList_setVal]
  refine ⟨x, rest, hp, by rw [hres], e1, e2, ?_, ?_, ?_⟩
  · rw [e1, e2]; exact move_perm fromLeft toLeft ls _ rest x hshape
  · intro k' h1 h2
    rw [hres]
    simp only [Db.setVal]
    rw [Db.get_put_ne _ _ h2]
    unfold putList
    cases rest with
    | nil => exact Db.get_del_ne _ h1
    | cons y ys => simp only [Db.setVal]; exact Db.get_put_ne _ _ h1
  · rw [hres]
    simp only [Db.setVal]
    rw [Db.get_put_ne _ _ hne]
    unfold putList
    cases rest with
    | nil => simp [Db.get_del_self]
    | cons y ys => simp [Db.setVal, Db.get_put_self]

/-- **LMOVE with source = destination** is a rotation of the one list: the key (and its deadline: `setVal`) stays, the popped
    element is pushed back -/
theorem lmove_same_key (env : Env) (db : Db) (c k wf wt : Bytes) (fromLeft toLeft : Bool) (l : List Bytes)
    (hf : parseDir wf = some fromLeft) (ht : parseDir wt = some toLeft)
    (hk : getList (seen2 env db k k) k = some (some l)) (hl : l ≠ []) :
    ∃ x rest, popOne fromLeft l = some (x, rest) ∧
      cmdLMove env db [c, k, k, wf, wt] = (bulk x, (seen2 env db k k).setVal k (.list (pushOne toLeft rest x))) ∧
      (pushOne toLeft rest x).Perm l ∧
      (fromLeft = toLeft → pushOne toLeft rest x = l) ∧
      (fromLeft = true → toLeft = false → l = x :: rest ∧ pushOne toLeft rest x = rest ++ [x]) ∧
      (fromLeft = false → toLeft = true → l = rest ++ [x] ∧ pushOne toLeft rest x = x :: rest) := by
  obtain ⟨x, rest, hp, hshape⟩ := popOne_spec fromLeft l hl
  refine ⟨x, rest, hp, ?_, ?_, ?_, ?_, ?_⟩
  · simp only [cmdLMove, hf, ht]
    rw [show (checkTTL (checkTTL db env.now k).1 env.now k).1 = seen2 env db k k from rfl, hk]
    simp [hp]
  · have := move_perm fromLeft toLeft l [] rest x hshape
    cases toLeft
    · simpa [pushOne] using this
    · have h2 : (rest ++ [x]).Perm l := by simpa [pushOne] using this
      exact (List.perm_append_singleton x rest).symm.trans h2
  · intro e; subst e
    cases fromLeft <;> simp_all [pushOne]
  · intro e1 e2; subst e1; subst e2; simp_all [pushOne]
  · intro e1 e2; subst e1; subst e2; simp_all [pushOne]

/-! ### (8) LPOS against a reference definition -/

/-- positions (counted from `i`) of the elements equal to `v` -/
def matchIdxs (v : Bytes) : List Bytes → Nat → List Nat
| [], _ => []
| x :: xs, i => if x == v then i :: matchIdxs v xs (i + 1) else matchIdxs v xs (i + 1)

/-- reference: scan from the head (`rank > 0`) or the tail (`rank < 0`), look at no more than `maxlen` elements (0 = all), skip
    the first `|rank| - 1` matches, report at most `limit` of the following ones (0 = all) as head-based positions -/
def specLpos (l : List Bytes) (v : Bytes) (rank : Int) (maxlen limit : Nat) : List Nat :=
  let scanned := if rank < 0 then l.reverse else l
  let scanned := if maxlen == 0 then scanned else scanned.take maxlen
  let hits := (matchIdxs v scanned 0).drop (rank.natAbs - 1)
  let hits := if limit = 0 then hits else hits.take limit
  if rank < 0 then hits.map (fun i => l.length - 1 - i) else hits

theorem lposLoop_spec (v : Bytes) (rank limit : Nat) (hr : 1 ≤ rank) : ∀ (xs : List Bytes) (idx m : Nat) (acc : List Nat),
    (m ≤ rank - 1 → acc = []) → (rank - 1 ≤ m → acc.length = m - (rank - 1)) → (limit ≠ 0 → acc.length < limit) →
    lposLoop v rank limit xs idx m acc =
      acc.reverse ++ (if limit = 0 then (matchIdxs v xs idx).drop (rank - 1 - m)
                      else ((matchIdxs v xs idx).drop (rank - 1 - m)).take (limit - acc.length)) := by
  intro xs
  induction xs with
  | nil => intro idx m acc _ _ _; simp [lposLoop, matchIdxs]
  | cons x xs ih =>
    intro idx m acc h1 h2 h3
    unfold lposLoop
    by_cases hx : (x == v) = true
    · simp only [hx, if_true, matchIdxs]
      by_cases hm : m + 1 ≥ rank
      · have hd : rank - 1 - m = 0 := by omega
        have hlen : acc.length = m - (rank - 1) := h2 (by omega)
        simp only [hm, if_true, hd, List.drop_zero]
        by_cases hl : (limit != 0 && decide (m + 1 - rank + 1 ≥ limit)) = true
        · simp only [hl, if_true]
          simp only [Bool.and_eq_true, bne_iff_ne, ne_eq, decide_eq_true_eq] at hl
          have h3' := h3 hl.1
          have : limit - acc.length = 1 := by omega
          simp [hl.1, this]
        · simp only [hl, if_false]
          have hl' : limit = 0 ∨ m + 1 - rank + 1 < limit := by
            simp only [Bool.and_eq_true, bne_iff_ne, ne_eq, decide_eq_true_eq, not_and] at hl
            by_cases h0 : limit = 0
            · exact Or.inl h0
            · exact Or.inr (by have := hl h0; omega)
          rw [ih (idx + 1) (m + 1) (idx :: acc) (by intro; omega) (by intro; simp; omega)
            (by intro h0; rcases hl' with h | h; exact absurd h h0; simp; omega)]
          have hd' : rank - 1 - (m + 1) = 0 := by omega
          simp only [hd', List.drop_zero, List.reverse_cons, List.append_assoc, List.length_cons]
          by_cases h0 : limit = 0
          · simp [h0]
          · have : limit - acc.length = (limit - (acc.length + 1)) + 1 := by
              rcases hl' with h | h
              · exact absurd h h0
              · omega
            simp [h0, this, List.take_succ_cons]
      · have hacc : acc = [] := h1 (by omega)
        have hd : rank - 1 - m = (rank - 1 - (m + 1)) + 1 := by omega
        simp only [hm, if_false]
        rw [ih (idx + 1) (m + 1) acc (by intro; exact hacc) (by intro; subst hacc; simp; omega) h3, hd, List.drop_succ_cons]
    · simp only [hx, if_false, matchIdxs, Bool.false_eq_true]
      exact ih (idx + 1) m acc h1 h2 h3

/-- **LPOS**: the positions the model's one-pass loop reports are those of the reference definition, for every list, element,
    non-zero RANK, MAXLEN and number of matches wanted -/
theorem lpos_spec (l : List Bytes) (v : Bytes) (rank : Int) (maxlen limit : Nat) (hr : rank ≠ 0) :
    lposScan l v rank maxlen limit = specLpos l v rank maxlen limit := by
  have h1 : 1 ≤ rank.natAbs := by omega
  unfold lposScan specLpos
  simp only
  rw [lposLoop_spec v rank.natAbs limit h1 _ 0 0 [] (by intro; rfl) (by intro; simp only [List.length_nil]; omega) (by intro h; simp only [List.length_nil]; omega)]
  simp

/-- the option scan never yields rank 0 -/
theorem parsePosOpts_rank (opts : List Bytes) (o o' : PosOpts) (h0 : o.rank ≠ 0) (h : parsePosOpts opts o = some o') :
    o'.rank ≠ 0 := by
  fun_induction parsePosOpts opts o <;> simp_all

theorem lpos_reply (env : Env) (db : Db) (c k v : Bytes) (opts : List Bytes) (o : PosOpts) (l : List Bytes)
    (ho : parsePosOpts opts {} = some o) (hk : getList (seen env db k) k = some (some l)) :
    cmdLPos env db (c :: k :: v :: opts) =
      ((match o.count with
        | none => (match specLpos l v o.rank o.maxlen 1 with | i :: _ => .int i | [] => nil)
        | some n => arrOf ((specLpos l v o.rank o.maxlen n).map fun (i : Nat) => .int i)), seen env db k) := by
  have hr : o.rank ≠ 0 := parsePosOpts_rank opts {} o (by decide) ho
  simp only [cmdLPos, ho]
  rw [show (checkTTL db env.now k).1 = seen env db k from rfl, hk]
  cases hc : o.count <;> simp [lpos_spec _ _ _ _ _ hr] <;> rfl

/-! ### BLPOP / BRPOP in a sequential program -/

theorem bpopScan_hit (left : Bool) (now : Int) (db : Db) (k : Bytes) (ks l rest : List Bytes) (x : Bytes)
    (hk : getList (checkTTL db now k).1 k = some (some l)) (hp : popOne left l = some (x, rest)) :
    bpopScan left now db (k :: ks) = (some (arrOf [bulk k, bulk x]), putList (checkTTL db now k).1 k rest) := by
  simp [bpopScan, hk, hp]

theorem bpopScan_skip (left : Bool) (now : Int) (db : Db) (k : Bytes) (ks : List Bytes)
    (hk : getList (checkTTL db now k).1 k = none) :
    bpopScan left now db (k :: ks) = bpopScan left now (checkTTL db now k).1 ks := by
  simp [bpopScan, hk]

theorem bpopScan_wrongtype (left : Bool) (now : Int) (db : Db) (k : Bytes) (ks : List Bytes)
    (hk : getList (checkTTL db now k).1 k = some none) :
    bpopScan left now db (k :: ks) = (some wrongType, (checkTTL db now k).1) := by
  simp [bpopScan, hk]

/-- the command: a finite non-negative timeout given, the keys are scanned once in argument order; the first list found serves
    the pop (reply `[key, element]`, emptied list deleted by `putList`), a key of another type answers WRONGTYPE; when nothing
    can be popped the reply is the nil array (at the timeout) -/
theorem bpop_spec (left : Bool) (env : Env) (db : Db) (c k tmo : Bytes) (ks : List Bytes) (t : UInt64)
    (hfl : env.fl (ks.length + 2) = some t) (hfin : f64Finite t = true) (hneg : f64Negative t = false) (hz : f64Zero t = false) :
    bpopGen left env db (c :: k :: (ks ++ [tmo])) =
      ((bpopScan left env.now db (k :: ks)).1.getD nilArr, (bpopScan left env.now db (k :: ks)).2) := by
  have hrev : (k :: (ks ++ [tmo])).reverse = tmo :: (k :: ks).reverse := by simp
  obtain ⟨k1, ksRev, h1, h2⟩ : ∃ k1 ksRev, (k :: ks).reverse = k1 :: ksRev ∧ (k1 :: ksRev).reverse = k :: ks := by
    cases h : (k :: ks).reverse with
    | nil => simp at h
    | cons a b => exact ⟨a, b, rfl, by rw [← h]; simp⟩
  have hlen : (c :: k :: (ks ++ [tmo])).length - 1 = ks.length + 2 := by simp
  unfold bpopGen
  simp only [hrev, h1, hlen, hfl, hfin, hneg, hz, h2]
  cases hs : bpopScan left env.now db (k :: ks) with
  | mk r db' => cases r <;> simp

/-! ### the hypotheses are satisfiable (a concrete keyspace: key "k" holds the list a b a with a deadline in the future) -/

def exDb : Db := [([107], { val := .list [[97], [98], [97]], exp := some 100 })]
def exEnv : Env := { now := 5 }

example : getList (seen exEnv exDb [107]) [107] = some (some [[97], [98], [97]]) := by decide
example : getList (seen2 exEnv exDb [107] [100]) [107] = some (some [[97], [98], [97]]) ∧
          getList (seen2 exEnv exDb [107] [100]) [100] ≠ some none ∧ ([107] : Bytes) ≠ [100] := by decide
example : parseI64 [45, 50] = some (-2) ∧ parseI64 [49] = some 1 := by decide
example : ListInv exDb := by
  show ListInv (Db.put [] [107] { val := .list [[97], [98], [97]], exp := some 100 })
  exact ListInv.nil.put _ (by simp)
example : parseDir [76, 69, 70, 84] = some true ∧ parseDir [114, 105, 103, 104, 116] = some false := by decide +kernel
example : (parsePosOpts [[114, 97, 110, 107], [45, 49]] {}).map (·.rank) = some (-1) := by decide +kernel
/-- LRANGE k -2 1 on a b a → [b]; LREM k -1 a → a b; RPOP k 2 → a, b (pop order) -/
example : ListOps.specRange [[97], [98], [97]] (-2) 1 = [[98]] := by decide
example : lrem [[97], [98], [97]] [97] (-1) = [[97], [98]] := by decide
example : popN false 2 [[97], [98], [97]] = ([[97], [98]], [[97]]) := by decide
example : lposScan [[97], [98], [97]] [97] (-1) 0 0 = [2, 0] := by decide

end Exec
