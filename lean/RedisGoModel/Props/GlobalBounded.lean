import RedisGoModel.Props.Global
import RedisGoModel.Props.C08Snap
/-! # `Snap.Bounded` is an invariant of the whole command table (C08)

`Snap.Bounded db` (`Cluster/Snapshot.lean`, `Props/C08Snap.lean`): every score stored in a sorted set is the order key of a double
other than NaN (`ZT.keyNegInf ≤ s ≤ ZT.keyInf`), every stream ID is a pair of `uint64`, every deadline is an `int64`.  It is the
second hypothesis of `Snap.decode_encode` / `Snap.snapshot_roundtrip_observable`; so far it was only *evaluated* by the driver on every
state it encodes.  Proved here, in the style of `Props/GlobalInv.lean` (a chain calculus `Bounded b → Bounded (b.del k)` …, one lemma
per command, lifted through the table):

* `bounded_invariant : NowOk env.now → Inv db → Bounded db → Bounded (exec env db args).2` — all 77 commands, the empty and the
  unknown command.  `table_bounded` is the same per table entry.
* The ONLY argument-level fact needed is about the clock reading: `NowOk now := minI64 ≤ now ∧ now ≤ maxI64 - maxI64 / 1000`.  It is
  used by exactly one command form, `SET k v PX ms`, whose deadline `now + ms / 1000` the model (like `setString` in Go) does not range
  check; `now_hypothesis_needed` shows that it cannot be dropped (clock at `maxI64`, `PX 1000`).  Everything else is refused by the
  model itself: `SET EX` / `SETEX` / `EXPIRE` test `inI64 (now + s)`, `EXAT` takes a parsed `int64`, ZADD refuses NaN arguments and NaN
  sums (`skey_bounded`: the order key of ANY non-NaN bit pattern lies between the keys of −inf and +inf — so no hypothesis on
  `env.fl` is needed), stream IDs come out of `parseU64` or are successors below `maxU64` (`nextId_bounded`).
* `Inv` is needed by ZADD / ZREM only (`ZT.mem_setScore`, `ZT.mem_remove` speak about valid trees).
* `bounded_reachable`, `decode_encode_reachable`, `snapshot_roundtrip_observable_reachable`: for every keyspace reachable from `[]` by a
  program of commands whose clock readings satisfy `NowOk`, the snapshot round trip holds with NO hypothesis left on the keyspace. -/
namespace Exec.Global
open Resp (Reply Bytes)
open Exec
open Snap (Bounded boundedB entryBoundedB valBoundedB)

/-! ### the predicate, entry by entry -/

/-- a deadline that fits `int64` (or none) -/
def DOk (x : Option Int) : Prop := ∀ d, x = some d → minI64 ≤ d ∧ d ≤ maxI64

abbrev EB (e : Entry) : Prop := entryBoundedB e = true

theorem bounded_iff (db : Db) : Bounded db ↔ ∀ p ∈ db, EB p.2 := by
  unfold Bounded boundedB
  simp only [List.all_eq_true]

theorem eb_iff (e : Entry) : EB e ↔ valBoundedB e.val = true ∧ DOk e.exp := by
  unfold EB entryBoundedB DOk
  cases e.exp <;> simp

theorem dok_none : DOk none := fun _ h => nomatch h

theorem dok_of_inI64 {d : Int} (h : inI64 d = true) : DOk (some d) := by
  intro d' e
  cases e
  unfold inI64 at h
  simpa using h

theorem bounded_nil : Bounded [] := (bounded_iff []).mpr fun _ h => nomatch h

/-- the clock reading is an `int64` far enough from the top that adding a millisecond count divided by 1000 cannot leave `int64` -/
def NowOk (now : Int) : Prop := minI64 ≤ now ∧ now ≤ maxI64 - maxI64 / 1000

/-! ### the chain calculus -/

theorem _root_.Snap.Bounded.sub {b c : Db} (h : Bounded b) (hs : ∀ p ∈ c, p ∈ b) : Bounded c :=
  (bounded_iff c).mpr fun p hp => (bounded_iff b).mp h p (hs p hp)

theorem _root_.Snap.Bounded.del {b : Db} (h : Bounded b) (k : Bytes) : Bounded (b.del k) :=
  h.sub fun _ hp => (List.mem_filter.mp hp).1

theorem _root_.Snap.Bounded.live {b : Db} (h : Bounded b) (now : Int) : Bounded (live b now) :=
  h.sub fun _ hp => (List.mem_filter.mp hp).1

theorem _root_.Snap.Bounded.ttl {b : Db} (h : Bounded b) (now : Int) (k : Bytes) : Bounded (checkTTL b now k).1 := by
  rcases checkTTL_cases b now k with e | e <;> rw [e]
  · exact h
  · exact h.del k

theorem _root_.Snap.Bounded.put {b : Db} (h : Bounded b) (k : Bytes) {e : Entry} (he : EB e) : Bounded (b.put k e) := by
  refine (bounded_iff _).mpr fun p hp => ?_
  rcases List.mem_cons.mp hp with rfl | hp
  · exact he
  · exact (bounded_iff _).mp (h.del k) p hp

theorem _root_.Snap.Bounded.get {b : Db} (h : Bounded b) {k : Bytes} {e : Entry} (hg : b.get k = some e) : EB e :=
  (bounded_iff b).mp h (k, e) (mem_of_get hg)

/-- the deadline found under a key of a bounded keyspace -/
theorem _root_.Snap.Bounded.getExp {b : Db} (h : Bounded b) (k : Bytes) : DOk ((b.get k).bind (·.exp)) := by
  cases hg : b.get k with
  | none => exact dok_none
  | some e => exact ((eb_iff e).mp (h.get hg)).2

theorem _root_.Snap.Bounded.setVal {b : Db} (h : Bounded b) (k : Bytes) {v : Value} (hv : valBoundedB v = true) : Bounded (b.setVal k v) :=
  h.put k ((eb_iff _).mpr ⟨hv, h.getExp k⟩)

theorem _root_.Snap.Bounded.setFresh {b : Db} (h : Bounded b) (k : Bytes) {v : Value} (hv : valBoundedB v = true) : Bounded (b.setFresh k v) :=
  h.put k ((eb_iff _).mpr ⟨hv, dok_none⟩)

theorem _root_.Snap.Bounded.ofEqFst {β : Type} {b' : Db} {x : Db × β} {r : β} (heq : x = (b', r)) (h : Bounded x.1) : Bounded b' := by
  subst heq; exact h

theorem _root_.Snap.Bounded.ofEqSnd {β : Type} {b' : Db} {x : β × Db} {r : β} (heq : x = (r, b')) (h : Bounded x.2) : Bounded b' := by
  subst heq; exact h

theorem _root_.Snap.Bounded.putList {b : Db} (h : Bounded b) (k : Bytes) (l : List Bytes) : Bounded (putList b k l) := by
  unfold Exec.putList; split
  · exact h.del k
  · exact h.setVal k rfl

theorem _root_.Snap.Bounded.putHash {b : Db} (h : Bounded b) (k : Bytes) (x : HashT) : Bounded (putHash b k x) := by
  unfold Exec.putHash; split
  · exact h.del k
  · exact h.setVal k rfl

theorem _root_.Snap.Bounded.putSet {b : Db} (h : Bounded b) (k : Bytes) (s : SetOps.MSet) : Bounded (putSet b k s) := by
  unfold Exec.putSet; split
  · exact h.del k
  · exact h.setVal k rfl

theorem _root_.Snap.Bounded.storeSet {b : Db} (h : Bounded b) (k : Bytes) (s : SetOps.MSet) : Bounded (storeSet b k s) := by
  unfold Exec.storeSet; split
  · exact h.del k
  · exact h.setFresh k rfl

theorem bounded_checkAll (now : Int) : ∀ (keys : List Bytes) {b : Db}, Bounded b → Bounded (checkAll now b keys)
| [], _, h => h
| k :: ks, _, h => by
  unfold Exec.checkAll; rw [List.foldl_cons]
  exact bounded_checkAll now ks (h.ttl now k)

/-- closes `Bounded X` for `X` built from the write primitives (values of the unbounded kinds: string, list, set, hash) on top of a
    keyspace already known to be bounded -/
syntax "b_close" : tactic
macro_rules | `(tactic| b_close) => `(tactic| first
  | assumption
  | (refine Bounded.ofEqFst (by assumption) ?_; b_close)
  | (refine Bounded.ofEqSnd (by assumption) ?_; b_close)
  | (refine Bounded.ttl ?_ _ _; b_close)
  | (refine Bounded.del ?_ _; b_close)
  | (refine Bounded.setVal ?_ _ rfl; b_close)
  | (refine Bounded.setFresh ?_ _ rfl; b_close)
  | (refine Bounded.putList ?_ _ _; b_close)
  | (refine Bounded.putHash ?_ _ _; b_close)
  | (refine Bounded.putSet ?_ _ _; b_close)
  | (refine Bounded.storeSet ?_ _ _; b_close)
  | (refine bounded_checkAll _ _ ?_; b_close)
  | (refine Bounded.live ?_ _; b_close))

macro "b_cmd" : tactic => `(tactic| repeat' (first | b_close | dsimp only | split))

/-- the per-command statement; `Inv` is used by ZADD / ZREM, `NowOk` by SET only -/
abbrev CmdB (c : Cmd) : Prop := ∀ (env : Env) (db : Db) (args : List Bytes), NowOk env.now → Inv db → Bounded db → Bounded (c env db args).2

/-! ### string and key commands -/

theorem bounded_mgetLoop (now : Int) : ∀ (ks : List Bytes) {b : Db} (acc : List Reply), Bounded b → Bounded (mgetLoop now b ks acc).2
| [], _, _, h => h
| k :: ks, _, _, h => by
  unfold Exec.mgetLoop; dsimp only
  exact bounded_mgetLoop now ks _ (h.ttl now k)

theorem bounded_msetLoop : ∀ (l : List Bytes) {b : Db}, Bounded b → Bounded (msetLoop b l)
| [], _, h => h
| [_], _, h => h
| k :: v :: rest, _, h => by
  unfold Exec.msetLoop
  exact bounded_msetLoop rest (h.setFresh k rfl)

theorem bounded_delLoop (now : Int) : ∀ (ks : List Bytes) {b : Db} (n : Nat), Bounded b → Bounded (delLoop now b ks n).2
| [], _, _, h => h
| k :: ks, _, _, h => by
  unfold Exec.delLoop; dsimp only
  split
  · exact bounded_delLoop now ks _ ((h.ttl now k).del k)
  · exact bounded_delLoop now ks _ (h.ttl now k)

theorem bounded_existsLoop (now : Int) : ∀ (ks : List Bytes) {b : Db} (n : Nat), Bounded b → Bounded (existsLoop now b ks n).2
| [], _, _, h => h
| k :: ks, _, _, h => by
  unfold Exec.existsLoop; dsimp only
  exact bounded_existsLoop now ks _ (h.ttl now k)

theorem _root_.Snap.Bounded.incrBy {b : Db} (h : Bounded b) (env : Env) (k : Bytes) (d : Int) : Bounded (incrBy env b k d).2 := by
  unfold Exec.incrBy; b_cmd

macro "b_str" : tactic => `(tactic| repeat' (first
  | b_close
  | (refine bounded_mgetLoop _ _ _ ?_; b_close)
  | (refine bounded_msetLoop _ ?_; b_close)
  | (refine bounded_delLoop _ _ _ ?_; b_close)
  | (refine bounded_existsLoop _ _ _ ?_; b_close)
  | (refine Bounded.incrBy ?_ _ _ _; b_close)
  | dsimp only | split))

/-! #### SET: the option scan yields `int64` values; the deadline fits -/

/-- every expiry value of the options fits `int64` -/
def OptsOk (o : SetOpts) : Prop := DOk o.ex ∧ DOk o.px ∧ DOk o.exat

theorem parseSetOpts_ok : ∀ (l : List Bytes) (o o' : SetOpts), parseSetOpts l o = some o' → OptsOk o → OptsOk o'
| [], o, o', e, h => by
  unfold parseSetOpts at e; cases e; exact h
| w :: rest, o, o', e, h => by
  unfold parseSetOpts at e
  dsimp only at e
  split at e
  · exact parseSetOpts_ok rest _ _ e h
  · split at e
    · exact parseSetOpts_ok rest _ _ e h
    · split at e
      · exact parseSetOpts_ok rest _ _ e h
      · split at e
        · exact parseSetOpts_ok rest _ _ e h
        · split at e
          · split at e
            · cases e
            · split at e
              · cases e
              · rename_i v rest' _ n hn
                have hr : DOk (some n) := by
                  intro d e; cases e
                  have := parseI64_range _ _ hn
                  unfold StrOps.minI64 StrOps.maxI64 at this
                  unfold minI64 maxI64
                  exact this
                split at e
                · exact parseSetOpts_ok rest' _ _ e ⟨hr, h.2.1, h.2.2⟩
                · split at e
                  · exact parseSetOpts_ok rest' _ _ e ⟨h.1, hr, h.2.2⟩
                  · exact parseSetOpts_ok rest' _ _ e ⟨h.1, h.2.1, hr⟩
          · cases e

theorem setDeadline_ok {o : SetOpts} {now : Int} (hn : NowOk now) (ho : OptsOk o) {dl : Option Int}
    (h : setDeadline o now = some dl) : DOk dl := by
  unfold setDeadline at h
  split at h
  · split at h
    · cases h
    · rename_i s _ _ _ hc
      cases h
      simp only [Bool.or_eq_true, Bool.not_eq_true', not_or, Bool.not_eq_false] at hc
      exact dok_of_inI64 (by simpa using hc.2)
  · split at h
    · cases h
    · rename_i ms hpx _ hc
      cases h
      intro d e; cases e
      have hr := ho.2.1 ms hpx
      unfold NowOk at hn
      unfold minI64 maxI64 at *
      have hms : 0 < ms := by simpa using hc
      omega
  · split at h
    · cases h
    · rename_i t hex _ _ hc
      cases h
      exact fun d e => by cases e; exact ho.2.2 t hex
  · cases h; exact dok_none

theorem bounded_ite {c : Prop} [Decidable c] {x y : Reply × Db} (hx : Bounded x.2) (hy : Bounded y.2) :
    Bounded (if c then x else y).2 := by
  split <;> assumption

theorem b_set : CmdB cmdSet := by
  intro env db args hn _ hb
  unfold cmdSet
  split
  · rename_i k v opts
    split
    · exact hb
    · rename_i o ho
      split
      · exact hb
      · split
        · exact hb
        · rename_i dl hdl
          have hdok : DOk dl := setDeadline_ok hn (parseSetOpts_ok _ _ _ ho ⟨dok_none, dok_none, dok_none⟩) hdl
          split
          rename_i db' _ hc
          have hb' : Bounded db' := Bounded.ofEqFst hc (hb.ttl _ _)
          split
          · exact hb'
          · dsimp only
            split
            · exact hb'
            · refine hb'.put _ ((eb_iff _).mpr ⟨rfl, ?_⟩)
              show DOk (if o.keepttl = true then _ else _)
              split
              · exact hb'.getExp _
              · exact hdok
  · exact hb

theorem b_setex : CmdB cmdSetEx := by
  intro env db args _ _ hb
  unfold cmdSetEx
  repeat' split
  all_goals first
    | exact hb
    | (rename_i hc
       simp only [Bool.or_eq_true, Bool.not_eq_true', not_or, Bool.not_eq_false] at hc
       exact hb.put _ ((eb_iff _).mpr ⟨rfl, dok_of_inI64 (by simpa using hc.2)⟩))

theorem b_expire : CmdB cmdExpire := by
  intro env db args _ _ hb
  unfold cmdExpire
  split
  · rename_i k secs optl
    have hb' : Bounded (checkTTL db env.now k).1 := hb.ttl _ _
    split
    · exact hb
    · split
      · exact hb
      · dsimp only
        split
        · exact hb
        · split
          · exact hb
          · rename_i hin
            split
            · exact hb'
            · rename_i e he
              refine bounded_ite ?_ hb'
              exact hb'.put _ ((eb_iff _).mpr ⟨((eb_iff e).mp (hb'.get he)).1, dok_of_inI64 (by simpa using hin)⟩)
  · exact hb

theorem b_persist : CmdB cmdPersist := by
  intro env db args _ _ hb
  unfold cmdPersist
  split
  · rename_i k
    have hb' : Bounded (checkTTL db env.now k).1 := hb.ttl _ _
    dsimp only
    split
    · rename_i e he
      split
      · exact hb'.put _ ((eb_iff _).mpr ⟨((eb_iff e).mp (hb'.get he)).1, dok_none⟩)
      · exact hb'
    · exact hb'
  · exact hb

theorem b_rename : CmdB cmdRename := by
  intro env db args _ _ hb
  unfold cmdRename
  split
  · rename_i old new
    have hb' : Bounded (checkTTL db env.now old).1 := hb.ttl _ _
    dsimp only
    split
    · exact hb'
    · rename_i e he
      split
      · exact hb'
      · exact ((hb'.del _).del _).put _ (hb'.get he)
  · exact hb

theorem b_get : CmdB cmdGet := by intro env db args _ _ hb; unfold cmdGet; b_cmd
theorem b_getrange : CmdB cmdGetRange := by intro env db args _ _ hb; unfold cmdGetRange; b_cmd
theorem b_setrange : CmdB cmdSetRange := by intro env db args _ _ hb; unfold cmdSetRange; b_cmd
theorem b_mget : CmdB cmdMGet := by intro env db args _ _ hb; unfold cmdMGet; b_str
theorem b_mset : CmdB cmdMSet := by intro env db args _ _ hb; unfold cmdMSet; b_str
theorem b_setnx : CmdB cmdSetNx := by intro env db args _ _ hb; unfold cmdSetNx; b_cmd
theorem b_strlen : CmdB cmdStrLen := by intro env db args _ _ hb; unfold cmdStrLen; b_cmd
theorem b_incr : CmdB cmdIncr := by intro env db args _ _ hb; unfold cmdIncr; b_str
theorem b_incrby : CmdB cmdIncrBy := by intro env db args _ _ hb; unfold cmdIncrBy; b_str
theorem b_decr : CmdB cmdDecr := by intro env db args _ _ hb; unfold cmdDecr; b_str
theorem b_decrby : CmdB cmdDecrBy := by intro env db args _ _ hb; unfold cmdDecrBy; b_str
theorem b_incrbyfloat : CmdB cmdIncrByFloat := by intro env db args _ _ hb; unfold cmdIncrByFloat; b_cmd
theorem b_append : CmdB cmdAppend := by intro env db args _ _ hb; unfold cmdAppend; b_cmd
theorem b_ping : CmdB cmdPing := by intro env db args _ _ hb; unfold cmdPing; b_cmd
theorem b_del : CmdB cmdDel := by intro env db args _ _ hb; unfold cmdDel; b_str
theorem b_exists : CmdB cmdExists := by intro env db args _ _ hb; unfold cmdExists; b_str
theorem b_keys : CmdB cmdKeys := by intro env db args _ _ hb; unfold cmdKeys; b_cmd
theorem b_ttl : CmdB cmdTTL := by intro env db args _ _ hb; unfold cmdTTL; b_cmd
theorem b_type : CmdB cmdType := by intro env db args _ _ hb; unfold cmdType; b_cmd

theorem string_b : ∀ p ∈ stringKeyTable, CmdB p.2 :=
  List.forall_mem_cons.mpr ⟨b_set, List.forall_mem_cons.mpr ⟨b_get, List.forall_mem_cons.mpr ⟨b_getrange, List.forall_mem_cons.mpr ⟨b_setrange, List.forall_mem_cons.mpr ⟨b_mget, List.forall_mem_cons.mpr ⟨b_mset, List.forall_mem_cons.mpr ⟨b_setex, List.forall_mem_cons.mpr ⟨b_setnx, List.forall_mem_cons.mpr ⟨b_strlen, List.forall_mem_cons.mpr ⟨b_incr, List.forall_mem_cons.mpr ⟨b_incrby, List.forall_mem_cons.mpr ⟨b_decr, List.forall_mem_cons.mpr ⟨b_decrby, List.forall_mem_cons.mpr ⟨b_incrbyfloat, List.forall_mem_cons.mpr ⟨b_append, List.forall_mem_cons.mpr ⟨b_ping, List.forall_mem_cons.mpr ⟨b_del, List.forall_mem_cons.mpr ⟨b_exists, List.forall_mem_cons.mpr ⟨b_keys, List.forall_mem_cons.mpr ⟨b_expire, List.forall_mem_cons.mpr ⟨b_persist, List.forall_mem_cons.mpr ⟨b_ttl, List.forall_mem_cons.mpr ⟨b_type, List.forall_mem_cons.mpr ⟨b_rename, fun _ h => nomatch h⟩⟩⟩⟩⟩⟩⟩⟩⟩⟩⟩⟩⟩⟩⟩⟩⟩⟩⟩⟩⟩⟩⟩⟩

/-! ### misc: the keyspace is returned as it was -/

theorem b_publish : CmdB cmdPublishNoSubs := by intro env db args _ _ hb; unfold cmdPublishNoSubs; b_cmd
theorem b_member : CmdB cmdMemberStandalone := by intro env db args _ _ hb; unfold cmdMemberStandalone; b_cmd
theorem b_rconf : CmdB cmdRconfStandalone := by intro env db args _ _ hb; unfold cmdRconfStandalone; b_cmd

theorem misc_b : ∀ p ∈ miscTable, CmdB p.2 :=
  List.forall_mem_cons.mpr ⟨b_publish, List.forall_mem_cons.mpr ⟨b_member, List.forall_mem_cons.mpr ⟨b_rconf, fun _ h => nomatch h⟩⟩⟩

/-! ### sets -/

theorem b_sadd : CmdB cmdSAdd := by intro env db args _ _ hb; unfold cmdSAdd; b_cmd
theorem b_srem : CmdB cmdSRem := by intro env db args _ _ hb; unfold cmdSRem; b_cmd
theorem b_sismember : CmdB cmdSIsMember := by intro env db args _ _ hb; unfold cmdSIsMember; b_cmd
theorem b_scard : CmdB cmdSCard := by intro env db args _ _ hb; unfold cmdSCard; b_cmd
theorem b_smembers : CmdB cmdSMembers := by intro env db args _ _ hb; unfold cmdSMembers; b_cmd
theorem b_smove : CmdB cmdSMove := by intro env db args _ _ hb; unfold cmdSMove; b_cmd
theorem b_spop : CmdB cmdSPop := by intro env db args _ _ hb; unfold cmdSPop; b_cmd
theorem b_srandmember : CmdB cmdSRandMember := by intro env db args _ _ hb; unfold cmdSRandMember; b_cmd
theorem b_algebra (op : List SetOps.MSet → SetOps.MSet) : CmdB (algebra op) := by intro env db args _ _ hb; unfold algebra; b_cmd
theorem b_algebraStore (op : List SetOps.MSet → SetOps.MSet) : CmdB (algebraStore op) := by
  intro env db args _ _ hb; unfold algebraStore; b_cmd

theorem set_b : ∀ p ∈ setTable, CmdB p.2 :=
  List.forall_mem_cons.mpr ⟨b_sadd, List.forall_mem_cons.mpr ⟨b_srem, List.forall_mem_cons.mpr ⟨b_sismember, List.forall_mem_cons.mpr ⟨b_scard, List.forall_mem_cons.mpr ⟨b_smembers, List.forall_mem_cons.mpr ⟨b_smove, List.forall_mem_cons.mpr ⟨b_spop, List.forall_mem_cons.mpr ⟨b_srandmember, List.forall_mem_cons.mpr ⟨b_algebra _, List.forall_mem_cons.mpr ⟨b_algebra _, List.forall_mem_cons.mpr ⟨b_algebra _, List.forall_mem_cons.mpr ⟨b_algebraStore _, List.forall_mem_cons.mpr ⟨b_algebraStore _, List.forall_mem_cons.mpr ⟨b_algebraStore _, fun _ h => nomatch h⟩⟩⟩⟩⟩⟩⟩⟩⟩⟩⟩⟩⟩⟩

/-! ### hashes -/

theorem _root_.Snap.Bounded.hashRead {b : Db} (h : Bounded b) (env : Env) (k : Bytes) (body : HashT → Reply) :
    Bounded (hashRead env b k body).2 := by
  unfold Exec.hashRead; b_cmd

theorem _root_.Snap.Bounded.hashWrite {b : Db} (h : Bounded b) (env : Env) (k : Bytes) (body : HashT → Reply × HashT) :
    Bounded (hashWrite env b k body).2 := by
  unfold Exec.hashWrite; b_cmd

theorem _root_.Snap.Bounded.hrandWithCount {b : Db} (h : Bounded b) (env : Env) (k c : Bytes) (wv : Bool) :
    Bounded (hrandWithCount env b k c wv).2 := by
  unfold Exec.hrandWithCount
  repeat' (first | b_close | (refine Bounded.hashRead ?_ _ _ _; b_close) | dsimp only | split)

macro "b_hash" : tactic => `(tactic| repeat' (first
  | b_close
  | (refine Bounded.hashRead ?_ _ _ _; b_close)
  | (refine Bounded.hashWrite ?_ _ _ _; b_close)
  | (refine Bounded.hrandWithCount ?_ _ _ _ _; b_close)
  | dsimp only | split))

theorem b_hset : CmdB cmdHSet := by intro env db args _ _ hb; unfold cmdHSet; b_hash
theorem b_hsetnx : CmdB cmdHSetNx := by intro env db args _ _ hb; unfold cmdHSetNx; b_hash
theorem b_hget : CmdB cmdHGet := by intro env db args _ _ hb; unfold cmdHGet; b_hash
theorem b_hmget : CmdB cmdHMGet := by intro env db args _ _ hb; unfold cmdHMGet; b_hash
theorem b_hgetall : CmdB cmdHGetAll := by intro env db args _ _ hb; unfold cmdHGetAll; b_hash
theorem b_hkeys : CmdB cmdHKeys := by intro env db args _ _ hb; unfold cmdHKeys; b_hash
theorem b_hvals : CmdB cmdHVals := by intro env db args _ _ hb; unfold cmdHVals; b_hash
theorem b_hlen : CmdB cmdHLen := by intro env db args _ _ hb; unfold cmdHLen; b_hash
theorem b_hexists : CmdB cmdHExists := by intro env db args _ _ hb; unfold cmdHExists; b_hash
theorem b_hstrlen : CmdB cmdHStrLen := by intro env db args _ _ hb; unfold cmdHStrLen; b_hash
theorem b_hdel : CmdB cmdHDel := by intro env db args _ _ hb; unfold cmdHDel; b_hash
theorem b_hincrby : CmdB cmdHIncrBy := by intro env db args _ _ hb; unfold cmdHIncrBy; b_hash
theorem b_hincrbyfloat : CmdB cmdHIncrByFloat := by intro env db args _ _ hb; unfold cmdHIncrByFloat; b_hash
theorem b_hrandfield : CmdB cmdHRandField := by intro env db args _ _ hb; unfold cmdHRandField; b_hash

theorem hash_b : ∀ p ∈ hashTable, CmdB p.2 :=
  List.forall_mem_cons.mpr ⟨b_hset, List.forall_mem_cons.mpr ⟨b_hsetnx, List.forall_mem_cons.mpr ⟨b_hget, List.forall_mem_cons.mpr ⟨b_hmget, List.forall_mem_cons.mpr ⟨b_hgetall, List.forall_mem_cons.mpr ⟨b_hkeys, List.forall_mem_cons.mpr ⟨b_hvals, List.forall_mem_cons.mpr ⟨b_hlen, List.forall_mem_cons.mpr ⟨b_hexists, List.forall_mem_cons.mpr ⟨b_hstrlen, List.forall_mem_cons.mpr ⟨b_hdel, List.forall_mem_cons.mpr ⟨b_hincrby, List.forall_mem_cons.mpr ⟨b_hincrbyfloat, List.forall_mem_cons.mpr ⟨b_hrandfield, fun _ h => nomatch h⟩⟩⟩⟩⟩⟩⟩⟩⟩⟩⟩⟩⟩⟩

/-! ### lists -/

theorem bounded_bpopScan (left : Bool) (now : Int) : ∀ (keys : List Bytes) {b : Db}, Bounded b → Bounded (bpopScan left now b keys).2
| [], _, h => h
| k :: ks, _, h => by
  unfold Exec.bpopScan; dsimp only
  split
  · exact bounded_bpopScan left now ks (h.ttl now k)
  · exact h.ttl now k
  · split
    · exact bounded_bpopScan left now ks (h.ttl now k)
    · exact (h.ttl now k).putList k _

theorem b_pushGen (l x : Bool) : CmdB (pushGen l x) := by intro env db args _ _ hb; unfold pushGen; b_cmd
theorem b_popGen (l : Bool) : CmdB (popGen l) := by intro env db args _ _ hb; unfold popGen; b_cmd
theorem b_llen : CmdB cmdLLen := by intro env db args _ _ hb; unfold cmdLLen; b_cmd
theorem b_lindex : CmdB cmdLIndex := by intro env db args _ _ hb; unfold cmdLIndex; b_cmd
theorem b_lset : CmdB cmdLSet := by intro env db args _ _ hb; unfold cmdLSet; b_cmd
theorem b_lrange : CmdB cmdLRange := by intro env db args _ _ hb; unfold cmdLRange; b_cmd
theorem b_ltrim : CmdB cmdLTrim := by intro env db args _ _ hb; unfold cmdLTrim; b_cmd
theorem b_lrem : CmdB cmdLRem := by intro env db args _ _ hb; unfold cmdLRem; b_cmd
theorem b_lpos : CmdB cmdLPos := by intro env db args _ _ hb; unfold cmdLPos; b_cmd
theorem b_lmove : CmdB cmdLMove := by intro env db args _ _ hb; unfold cmdLMove; b_cmd
theorem b_bpopGen (l : Bool) : CmdB (bpopGen l) := by
  intro env db args _ _ hb; unfold bpopGen
  repeat' (first | b_close | (refine Bounded.ofEqSnd (by assumption) ?_; refine bounded_bpopScan _ _ _ ?_; b_close) | dsimp only | split)

theorem list_b : ∀ p ∈ listTable, CmdB p.2 :=
  List.forall_mem_cons.mpr ⟨b_llen, List.forall_mem_cons.mpr ⟨b_lindex, List.forall_mem_cons.mpr ⟨b_lpos, List.forall_mem_cons.mpr ⟨b_popGen _, List.forall_mem_cons.mpr ⟨b_popGen _, List.forall_mem_cons.mpr ⟨b_pushGen _ _, List.forall_mem_cons.mpr ⟨b_pushGen _ _, List.forall_mem_cons.mpr ⟨b_pushGen _ _, List.forall_mem_cons.mpr ⟨b_pushGen _ _, List.forall_mem_cons.mpr ⟨b_lset, List.forall_mem_cons.mpr ⟨b_lrem, List.forall_mem_cons.mpr ⟨b_ltrim, List.forall_mem_cons.mpr ⟨b_lrange, List.forall_mem_cons.mpr ⟨b_lmove, List.forall_mem_cons.mpr ⟨b_bpopGen _, List.forall_mem_cons.mpr ⟨b_bpopGen _, fun _ h => nomatch h⟩⟩⟩⟩⟩⟩⟩⟩⟩⟩⟩⟩⟩⟩⟩⟩

/-! ### sorted sets: every stored score is the order key of a double other than NaN -/

/-- a score key in the range of the doubles: between the keys of −inf and +inf -/
def SB (s : Int) : Prop := ZT.keyNegInf ≤ s ∧ s ≤ ZT.keyInf

def TB (t : ZT.T) : Prop := ∀ p ∈ ZT.members t, SB p.2

theorem vb_zset (t : ZT.T) : valBoundedB (.zset t) = true ↔ TB t := by
  unfold TB SB
  simp only [valBoundedB, List.all_eq_true, Bool.and_eq_true, decide_eq_true_eq]

theorem and_expmask (n : Nat) : n &&& 0x7ff0000000000000 = (n / 4503599627370496 % 2048) * 4503599627370496 := by
  have h1 : (n &&& 0x7ff0000000000000) / 2 ^ 52 = n / 2 ^ 52 &&& 0x7ff0000000000000 / 2 ^ 52 := Nat.and_div_two_pow
  have h2 : (n &&& 0x7ff0000000000000) % 2 ^ 52 = n % 2 ^ 52 &&& 0x7ff0000000000000 % 2 ^ 52 := Nat.and_mod_two_pow
  have h3 : n / 2 ^ 52 &&& (2 ^ 11 - 1) = (n / 2 ^ 52) % 2 ^ 11 := Nat.and_two_pow_sub_one_eq_mod _ _
  simp only [Nat.reducePow, Nat.reduceDiv, Nat.reduceMod, Nat.reduceSub, Nat.and_zero] at h1 h2 h3
  omega

theorem and_mantmask (n : Nat) : n &&& 0x000fffffffffffff = n % 4503599627370496 := by
  have h := Nat.and_two_pow_sub_one_eq_mod n 52
  simp only [Nat.reducePow, Nat.reduceSub] at h
  exact h

/-- **the order key of every bit pattern other than a NaN lies between the keys of −inf and +inf** -/
theorem skey_bounded (b : UInt64) (h : ZT.isNaNBits b = false) : SB (ZT.skey b) := by
  have hlt : b.toNat < 18446744073709551616 := b.toNat_lt
  have hn : ¬ ((b.toNat &&& 0x7ff0000000000000) = 0x7ff0000000000000 ∧ (b.toNat &&& 0x000fffffffffffff) ≠ 0) := by
    intro ⟨h1, h2⟩
    unfold ZT.isNaNBits at h
    have e1 : (b &&& 0x7ff0000000000000) = 0x7ff0000000000000 := by
      apply UInt64.toNat_inj.mp; rw [UInt64.toNat_and]; exact h1
    have e2 : (b &&& 0x000fffffffffffff) ≠ 0 := by
      intro e; apply h2
      have := congrArg UInt64.toNat e
      rw [UInt64.toNat_and] at this; exact this
    simp [e1, e2] at h
  rw [and_expmask, and_mantmask] at hn
  unfold SB ZT.skey ZT.keyNegInf ZT.keyInf
  by_cases hs : b < 0x8000000000000000
  · have hs' : b.toNat < 9223372036854775808 := UInt64.lt_iff_toNat_lt.mp hs
    rw [if_pos hs]
    omega
  · have hs' : ¬ b.toNat < 9223372036854775808 := fun x => hs (UInt64.lt_iff_toNat_lt.mpr x)
    rw [if_neg hs]
    omega

theorem fadd_bounded {a b s : Int} (h : ZT.fadd a b = some s) : SB s := by
  unfold ZT.fadd at h
  dsimp only at h
  split at h
  · cases h
  · rename_i hn
    cases h
    exact skey_bounded _ (by simpa using hn)

theorem scoreOfBits_bounded {x : Option UInt64} {s : Int} (h : scoreOfBits x = some s) : SB s := by
  unfold scoreOfBits at h
  split at h
  · split at h
    · cases h
    · rename_i hn
      cases h
      exact skey_bounded _ (by simpa using hn)
  · cases h

theorem parsePairs_bounded (fl : Nat → Option UInt64) : ∀ (l : List Bytes) (i : Nat) (ps : List (Int × Bytes)),
    parsePairs fl i l = some ps → ∀ p ∈ ps, SB p.1
| [], _, ps, h => by unfold parsePairs at h; cases h; exact fun _ hp => nomatch hp
| [_], _, ps, h => by unfold parsePairs at h; cases h; exact fun _ hp => nomatch hp
| _ :: m :: rest, i, ps, h => by
  unfold parsePairs at h
  split at h
  · rename_i s ps' hs hps
    cases h
    intro p hp
    rcases List.mem_cons.mp hp with rfl | hp
    · exact scoreOfBits_bounded hs
    · exact parsePairs_bounded fl rest _ _ hps p hp
  · cases h

theorem tb_nil : TB .nil := fun _ hp => nomatch hp

theorem zaddOne_bounded (o : ZAddOpts) {t : ZT.T} (hi : ZT.Inv t) (hb : TB t) (s : Int) (m : Bytes) (hs : SB s) :
    TB (zaddOne o t s m).2 := by
  have hset : ∀ s', SB s' → TB (ZT.setScore t m s') := by
    intro s' hs' p hp
    rcases (ZT.mem_setScore hi m s' p).mp hp with rfl | ⟨h, _⟩
    · exact hs'
    · exact hb p h
  unfold zaddOne
  split
  · split
    · exact hb
    · exact hset s hs
  · split
    · exact hb
    · split
      · exact hb
      · rename_i s' hs'
        have hsb : SB s' := by
          split at hs'
          · exact fadd_bounded hs'
          · cases hs'; exact hs
        split
        · exact hb
        · split
          · exact hb
          · exact hset s' hsb

theorem zaddLoop_bounded (o : ZAddOpts) (ps : List (Int × Bytes)) (hps : ∀ p ∈ ps, SB p.1) :
    ∀ (a : ZAcc), ZT.Inv a.t → TB a.t → TB (zaddLoop o a ps).t := by
  induction ps with
  | nil => intro a _ h; exact h
  | cons p ps ih =>
    intro a hi hb
    obtain ⟨s, m⟩ := p
    have hone := zaddOne_inv o hi s m
    have hbo := zaddOne_bounded o hi hb s m (hps (s, m) List.mem_cons_self)
    have ih' := ih fun q hq => hps q (List.mem_cons_of_mem _ hq)
    simp only [zaddLoop]
    split
    · rename_i s' t' heq
      rw [heq] at hone hbo; exact ih' _ hone hbo
    · rename_i s' t' heq
      rw [heq] at hone hbo; exact ih' _ hone hbo
    · rename_i out t' _ _ heq
      rw [heq] at hone hbo; exact ih' _ hone hbo

theorem getZ_bounded {db : Db} (hb : Bounded db) {k : Bytes} {t : ZT.T} (hg : getZ db k = some (some t)) : TB t := by
  unfold getZ at hg
  split at hg
  · cases hg
  · rename_i e he
    split at hg
    · rename_i t' hv
      simp only [Option.some.injEq] at hg; subst hg
      have := ((eb_iff e).mp (hb.get he)).1
      rw [hv] at this
      exact (vb_zset _).mp this
    · simp at hg

theorem t0_bounded {db : Db} (hb : Bounded db) (k : Bytes) : TB (((getZ db k).bind id).getD .nil) := by
  cases hg : getZ db k with
  | none => exact tb_nil
  | some o =>
    cases o with
    | none => exact tb_nil
    | some t => exact getZ_bounded hb hg

theorem b_zadd : CmdB cmdZAdd := by
  intro env db args _ hi hb
  have hz := dbInv_checkTTL hi.zsetInv
  unfold cmdZAdd
  dsimp only
  repeat' split
  all_goals first
    | exact hb
    | exact hb.ttl _ _
    | (apply Bounded.setVal (hb.ttl _ _)
       rw [vb_zset]
       exact zaddLoop_bounded _ _ (parsePairs_bounded _ _ _ _ (by assumption)) _ (t0_inv (hz _ _) _) (t0_bounded (hb.ttl _ _) _))

theorem b_zrem : CmdB cmdZRem := by
  intro env db args _ hi hb
  have hz := dbInv_checkTTL hi.zsetInv
  unfold cmdZRem
  dsimp only
  repeat' split
  all_goals first
    | exact hb
    | exact hb.ttl _ _
    | exact (hb.ttl _ _).del _
    | (rename_i hg hne
       apply Bounded.setVal (hb.ttl _ _)
       rw [vb_zset]
       intro p hp
       exact getZ_bounded (hb.ttl _ _) hg p ((zremLoop_mem _ _ _ (getZ_inv (hz _ _) hg).1 p).mp hp).1)

theorem b_zrange : CmdB cmdZRange := by intro env db args _ _ hb; unfold cmdZRange; b_cmd
theorem b_zrank : CmdB cmdZRank := by intro env db args _ _ hb; unfold cmdZRank; b_cmd

theorem zset_b : ∀ p ∈ zsetTable, CmdB p.2 :=
  List.forall_mem_cons.mpr ⟨b_zadd, List.forall_mem_cons.mpr ⟨b_zrem, List.forall_mem_cons.mpr ⟨b_zrange, List.forall_mem_cons.mpr ⟨b_zrank, fun _ h => nomatch h⟩⟩⟩⟩

/-! ### streams: every ID is a pair of `uint64` -/

def IdB (i : StreamId) : Prop := i.ms < 2 ^ 64 ∧ i.seq < 2 ^ 64

theorem vb_stream (es : List StreamEntry) (last : StreamId) :
    valBoundedB (.stream es last) = true ↔ IdB last ∧ ∀ e ∈ es, IdB e.id := by
  unfold IdB
  simp only [valBoundedB, List.all_eq_true, Bool.and_eq_true, decide_eq_true_eq, and_assoc]

/-- the ID request of an XADD names only `uint64` numbers -/
def ReqB : IdReq → Prop
| .auto => True
| .autoSeq ms => ms < 2 ^ 64
| .explicit id => IdB id

theorem parseU64_lt {b : Bytes} {n : Nat} (h : parseU64 b = some n) : n < 2 ^ 64 := by
  unfold parseU64 at h
  cases hp : Resp.parseNat b with
  | none => rw [hp] at h; cases h
  | some x =>
    rw [hp] at h
    simp only [Option.bind_some] at h
    split at h
    · rename_i hle
      cases h
      unfold maxU64 at hle
      omega
    · cases h

theorem parseStrictId_b {b : Bytes} {missing : Nat} {id : StreamId} (hm : missing < 2 ^ 64)
    (h : parseStrictId b missing = some id) : IdB id := by
  unfold parseStrictId at h
  split at h
  · obtain ⟨ms, hms, rfl⟩ := Option.map_eq_some_iff.mp h
    exact ⟨parseU64_lt hms, hm⟩
  · split at h
    · rename_i ms q hms hq
      cases h
      exact ⟨parseU64_lt hms, parseU64_lt hq⟩
    · cases h

theorem parseAddId_b {b : Bytes} {r : IdReq} (h : parseAddId b = some r) : ReqB r := by
  unfold parseAddId at h
  split at h
  · cases h; trivial
  · split at h
    · obtain ⟨ms, hms, rfl⟩ := Option.map_eq_some_iff.mp h
      exact ⟨parseU64_lt hms, by show 0 < 2 ^ 64; decide⟩
    · split at h
      · cases h
      · rename_i ms hms
        split at h
        · cases h; exact parseU64_lt hms
        · obtain ⟨q, hq, rfl⟩ := Option.map_eq_some_iff.mp h
          exact ⟨parseU64_lt hms, parseU64_lt hq⟩

theorem parseXadd_b (l : List Bytes) (o : XaddOpts) : ∀ {o' : XaddOpts} {req : IdReq} {f : List Bytes},
    parseXadd l o = some (o', req, f) → ReqB req := by
  fun_induction parseXadd l o <;> intro o' req f h <;> simp_all
  all_goals first
    | (obtain ⟨_, rfl, _⟩ := h; trivial)
    | (obtain ⟨r, hr, _, rfl, _⟩ := h; exact parseAddId_b hr)
    | skip

theorem nextId_b {env : Env} {last id : StreamId} {req : IdReq} (hr : ReqB req)
    (h : nextId env last req = some id) : IdB id := by
  cases req with
  | explicit x =>
    simp only [nextId] at h
    split at h
    · cases h; exact hr
    · cases h
  | autoSeq ms =>
    simp only [nextId] at h
    have hr' : ms < 2 ^ 64 := hr
    split at h
    · cases h
    · split at h
      · split at h
        · rename_i hlt
          cases h
          unfold maxU64 at hlt
          unfold IdB
          dsimp only
          omega
        · cases h
      · cases h
        exact ⟨hr', by show 0 < 2 ^ 64; decide⟩
  | auto =>
    simp only [nextId] at h
    split at h
    · split at h
      · rename_i x hx
        split at h
        · cases h
          exact parseStrictId_b (by decide) hx
        · cases h
      · cases h
    · cases h

theorem _root_.Snap.Bounded.xaddTo {b : Db} (h : Bounded b) (env : Env) (k : Bytes) (o : XaddOpts) (req : IdReq) (fields : List Bytes)
    (s : List StreamEntry) (last : StreamId) (hr : ReqB req) (hs : valBoundedB (.stream s last) = true) :
    Bounded (xaddTo env b k o req fields s last).2 := by
  unfold Exec.xaddTo
  split
  · exact h
  · split
    · split <;> exact h
    · rename_i id hid
      rw [vb_stream] at hs
      have hidb : IdB id := nextId_b hr hid
      refine h.setVal k ((vb_stream _ _).mpr ⟨hidb, fun e he => ?_⟩)
      obtain ⟨n, hn, _⟩ := applyTrim_suffix o (s ++ [⟨id, fields⟩])
      rw [hn] at he
      rcases List.mem_append.mp (List.mem_of_mem_drop he) with he | he
      · exact hs.2 e he
      · rw [List.mem_singleton.mp he]; exact hidb

theorem getStream_bounded {db : Db} (hb : Bounded db) {k : Bytes} {s : List StreamEntry} {last : StreamId}
    (hg : getStream db k = some (some (s, last))) : valBoundedB (.stream s last) = true := by
  unfold getStream at hg
  split at hg
  · cases hg
  · rename_i e he
    split at hg
    · rename_i s' last' hv
      simp only [Option.some.injEq, Prod.mk.injEq] at hg
      obtain ⟨rfl, rfl⟩ := hg
      have := ((eb_iff e).mp (hb.get he)).1
      rw [hv] at this
      exact this
    · simp at hg

theorem b_xadd : CmdB cmdXAdd := by
  intro env db args _ _ hb
  unfold cmdXAdd
  split
  · rename_i k rest
    split
    · exact hb
    · split
      · exact hb
      · rename_i o req fields hp
        have hr : ReqB req := parseXadd_b _ _ hp
        split
        · exact hb
        · split
          · exact hb
          · split
            · exact hb
            · dsimp only
              have hb' : Bounded (checkTTL db env.now k).1 := hb.ttl _ _
              split
              · exact hb'
              · split
                · exact hb'
                · exact hb'.xaddTo env k o req fields [] idZero hr (by decide)
              · rename_i s last hg
                exact hb'.xaddTo env k o req fields s last hr (getStream_bounded hb' hg)
  · exact hb

theorem b_xrange : CmdB cmdXRange := by intro env db args _ _ hb; unfold cmdXRange; b_cmd

theorem stream_b : ∀ p ∈ streamTable, CmdB p.2 :=
  List.forall_mem_cons.mpr ⟨b_xadd, List.forall_mem_cons.mpr ⟨b_xrange, fun _ h => nomatch h⟩⟩

/-! ### the table, dispatch, programs -/

/-- **every one of the 77 table entries preserves `Snap.Bounded`** -/
theorem table_bounded : ∀ p ∈ cmdTable, ∀ (env : Env) (db : Db) (args : List Bytes), NowOk env.now → Inv db → Bounded db →
    Bounded (p.2 env db args).2 := by
  intro p hp
  unfold cmdTable at hp
  simp only [List.mem_append, or_assoc] at hp
  rcases hp with h | h | h | h | h | h | h
  · exact string_b p h
  · exact misc_b p h
  · exact set_b p h
  · exact hash_b p h
  · exact list_b p h
  · exact zset_b p h
  · exact stream_b p h

/-- **`Snap.Bounded` is an invariant of `Exec.exec`** (lower-cased name, table lookup; the empty and the unknown command leave the
    keyspace alone): under the keyspace invariant and a clock reading that is an `int64` not within `maxI64 / 1000` of the top -/
theorem bounded_invariant (env : Env) (db : Db) (args : List Bytes) (hn : NowOk env.now) (hi : Inv db) (hb : Bounded db) :
    Bounded (exec env db args).2 := by
  unfold exec
  split
  · exact hb
  · split
    · rename_i c hc
      unfold lookupCmd at hc
      obtain ⟨p, hp, rfl⟩ := Option.map_eq_some_iff.mp hc
      exact table_bounded p (List.mem_of_find?_eq_some hp) env db _ hn hi hb
    · exact hb

/-- every clock reading of the program satisfies `NowOk` -/
def ProgNowOk (prog : C06T.Prog) : Prop := ∀ st ∈ prog, NowOk st.1.now

/-- `Inv` and `Bounded` together hold after every program from any keyspace satisfying them -/
theorem bounded_program : ∀ (prog : C06T.Prog) (db : Db), ProgNowOk prog → Inv db → Bounded db → Bounded (run prog db)
| [], _, _, _, hb => hb
| (env, args) :: rest, db, hn, hi, hb => by
  unfold run C06T.runProg
  exact bounded_program rest _ (fun st hst => hn st (List.mem_cons_of_mem _ hst)) (exec_inv env db args hi)
    (bounded_invariant env db args (hn _ List.mem_cons_self) hi hb)

/-- **every keyspace reachable from the empty one** by commands (any arguments, any observed replies, any float bits; clock readings
    `NowOk`) is within the value ranges of the Go types — in every intermediate state as well (`prog.take n`) -/
theorem bounded_reachable (prog : C06T.Prog) (hn : ProgNowOk prog) : Bounded (run prog []) :=
  bounded_program prog [] hn inv_nil bounded_nil

theorem progNowOk_take {prog : C06T.Prog} (hn : ProgNowOk prog) (n : Nat) : ProgNowOk (prog.take n) :=
  fun st hst => hn st (List.mem_of_mem_take hst)

theorem bounded_every_state (prog : C06T.Prog) (hn : ProgNowOk prog) (n : Nat) : Bounded (run (prog.take n) []) :=
  bounded_reachable _ (progNowOk_take hn n)

/-! ### C08: the snapshot round trip for reachable keyspaces, no hypothesis on the keyspace left -/

/-- loading the snapshot of a reachable keyspace never fails and yields its canonical presentation -/
theorem decode_encode_reachable (prog : C06T.Prog) (hn : ProgNowOk prog) :
    Snap.decode (Snap.encode (run prog [])) = some (Snap.canon (run prog [])) :=
  Snap.decode_encode _ (global_invariant prog [] inv_nil) (bounded_reachable prog hn)

/-- **`restore ∘ serialize = id`, observably, for every reachable keyspace**: loading its snapshot succeeds and every key holds what
    it held (up to `Snap.ValEquiv`) with the same deadline -/
theorem snapshot_roundtrip_observable_reachable (prog : C06T.Prog) (hn : ProgNowOk prog) :
    ∃ db', Snap.decode (Snap.encode (run prog [])) = some db' ∧ ∀ k, Snap.OptEquiv (db'.get k) ((run prog []).get k) :=
  Snap.snapshot_roundtrip_observable _ (global_invariant prog [] inv_nil) (bounded_reachable prog hn)

/-- … and a node restored from that snapshot answers every later program like the original (`Snap.restored_node_indistinguishable`
    needs `Inv` and `Bounded` of the state the snapshot was taken of: both are theorems for reachable states) -/
theorem bounded_and_inv_reachable (prog : C06T.Prog) (hn : ProgNowOk prog) : Inv (run prog []) ∧ Bounded (run prog []) :=
  ⟨global_invariant prog [] inv_nil, bounded_reachable prog hn⟩

/-! ### the hypotheses are satisfiable; the clock hypothesis cannot be dropped -/

/-- today's clock -/
example : NowOk 1790000000 := by unfold NowOk minI64 maxI64; omega

/-- a two-command program with realistic clock readings -/
def exProg : C06T.Prog :=
  [({ now := 1790000000 }, [ofStr "SET", [107], [118], ofStr "PX", ofStr "5000"]),
   ({ now := 1790000001, fl := fun i => if i = 2 then some 0x7ff0000000000000 else none }, [ofStr "ZADD", [122], ofStr "inf", [109]])]

example : ProgNowOk exProg := by
  intro st hst
  simp only [exProg, List.mem_cons, List.mem_nil_iff, or_false] at hst
  rcases hst with rfl | rfl <;> (unfold NowOk minI64 maxI64; dsimp only; omega)

/-- the run stores a deadline and an infinite score -/
example : (run exProg []).length = 2 := by decide +kernel

/-- the clock at the top of `int64` -/
def exEnvTop : Env := { now := maxI64 }
def exArgsPx : List Bytes := [ofStr "SET", [107], [118], ofStr "PX", ofStr "1000"]

/-- **`NowOk` is needed**: `SET k v PX 1000` with the clock at `maxI64` stores the deadline `maxI64 + 1` (the model, like `setString`
    in Go, range-checks `EX` but not `PX`), so the empty keyspace — `Inv`, `Bounded` — is taken to one that is not `Bounded` -/
theorem now_hypothesis_needed : Inv [] ∧ Bounded [] ∧ ¬ Bounded (exec exEnvTop [] exArgsPx).2 :=
  ⟨inv_nil, bounded_nil, by unfold Bounded; decide +kernel⟩

end Exec.Global

#print axioms Exec.Global.skey_bounded
#print axioms Exec.Global.table_bounded
#print axioms Exec.Global.bounded_invariant
#print axioms Exec.Global.bounded_program
#print axioms Exec.Global.bounded_reachable
#print axioms Exec.Global.bounded_every_state
#print axioms Exec.Global.decode_encode_reachable
#print axioms Exec.Global.snapshot_roundtrip_observable_reachable
#print axioms Exec.Global.now_hypothesis_needed
