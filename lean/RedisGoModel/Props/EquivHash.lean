import RedisGoModel.Props.EquivBase
/-! Representation independence: hash commands.  A hash is stored as an association list with unique fields; two presentations of
    the same hash are permutations of each other.  Lookup, insertion, removal and length respect permutations (lookup needs the
    fields to be unique); HKEYS, HVALS (`CmdPerm`) and HGETALL (`CmdPairs`) list the stored order and agree up to a permutation,
    which `canonReply` sorts away.

    HRANDFIELD: the *acceptance* of an observed reply is permutation-invariant (`hrandAccept_perm`), so an accepted observation is
    answered identically on both sides (`hrandReply_perm_of_accepted`).  When there is no observation, or the observation is
    refused, the executor answers `hrandDefault`, which selects from the CANONICAL presentation of the hash (`hrandCanon`: the fields
    in bytewise order) — the same list for two presentations of one hash (`hrandCanon_eq`, an instance of `sortBy_of_perm`: the
    fields are unique), hence the same answer (`hrandDefault_perm`, `hrandReply_perm`) and `e_hrandfield : CmdOk cmdHRandField`.
    (In the first version of the model `hrandDefault` took a prefix of the STORED list; that leaked the representation and
    HRANDFIELD had to be excluded from the table-wide theorem.  The leak was removed by canonicalising the default.) -/
namespace Exec.Equiv
open Resp (Reply Bytes)
open Exec
open HashSel (hget hset hdel Ok)

/-- two presentations of one field table -/
def HashP (h h' : HashT) : Prop := h.Perm h' ∧ Ok h ∧ Ok h'

theorem HashP.nil : HashP [] [] := ⟨List.Perm.refl _, List.nodup_nil, List.nodup_nil⟩

theorem ok_perm {h h' : HashT} (hp : h.Perm h') (ok : Ok h) : Ok h' := ((hp.map Prod.fst).nodup_iff).mp ok

theorem HashP.of_perm {h h' : HashT} (hp : h.Perm h') (ok : Ok h) : HashP h h' := ⟨hp, ok, ok_perm hp ok⟩

/-! ### lookup -/

theorem hget_cons (p : Bytes × Bytes) (h : HashT) (f : Bytes) : hget (p :: h) f = if p.1 = f then some p.2 else hget h f := by
  unfold hget
  rw [List.find?_cons]
  by_cases hpf : p.1 = f
  · simp [hpf]
  · have : (p.1 == f) = false := by simpa using hpf
    simp [this, hpf]

theorem hget_iff_mem : ∀ {h : HashT}, Ok h → ∀ (f v : Bytes), hget h f = some v ↔ (f, v) ∈ h
| [], _, f, v => by simp [hget]
| p :: h, ok, f, v => by
  have ok' : p.1 ∉ h.map Prod.fst ∧ Ok h := by unfold Ok at ok; rw [List.map_cons, List.nodup_cons] at ok; exact ok
  rw [hget_cons, List.mem_cons]
  by_cases hpf : p.1 = f
  · rw [if_pos hpf]
    constructor
    · intro hv; left; cases hv; exact Prod.ext hpf.symm rfl
    · rintro (hv | hv)
      · rw [← hv]
      · exact absurd (List.mem_map.mpr ⟨(f, v), hv, rfl⟩) (hpf ▸ ok'.1)
  · rw [if_neg hpf, hget_iff_mem ok'.2]
    constructor
    · exact Or.inr
    · rintro (hv | hv)
      · exact absurd (by rw [← hv]) hpf
      · exact hv

/-- lookup does not depend on the presentation -/
theorem hget_perm {h h' : HashT} (hr : HashP h h') (f : Bytes) : hget h f = hget h' f := by
  apply Option.ext
  intro v
  rw [hget_iff_mem hr.2.1, hget_iff_mem hr.2.2, hr.1.mem_iff]

theorem any_perm {α : Type} {l l' : List α} (hp : l.Perm l') (p : α → Bool) : l.any p = l'.any p := by
  rw [Bool.eq_iff_iff, List.any_eq_true, List.any_eq_true]
  exact ⟨fun ⟨x, hx, h⟩ => ⟨x, hp.mem_iff.mp hx, h⟩, fun ⟨x, hx, h⟩ => ⟨x, hp.mem_iff.mpr hx, h⟩⟩

theorem hset_perm {h h' : HashT} (hr : HashP h h') (f v : Bytes) :
    (hset h f v).2 = (hset h' f v).2 ∧ HashP (hset h f v).1 (hset h' f v).1 := by
  have hp : (hset h f v).2 = (hset h' f v).2 ∧ (hset h f v).1.Perm (hset h' f v).1 := by
    unfold hset
    rw [any_perm hr.1]
    split
    · exact ⟨rfl, hr.1.map _⟩
    · exact ⟨rfl, hr.1.cons _⟩
  exact ⟨hp.1, HashP.of_perm hp.2 (HashSel.hset_ok h f v hr.2.1)⟩

theorem hdel_ok (h : HashT) (f : Bytes) (ok : Ok h) : Ok (hdel h f).1 := by
  unfold hdel
  split
  · unfold Ok at *
    exact List.Nodup.sublist (List.Sublist.map _ List.filter_sublist) ok
  · exact ok

theorem hdel_perm {h h' : HashT} (hr : HashP h h') (f : Bytes) :
    (hdel h f).2 = (hdel h' f).2 ∧ HashP (hdel h f).1 (hdel h' f).1 := by
  have hp : (hdel h f).2 = (hdel h' f).2 ∧ (hdel h f).1.Perm (hdel h' f).1 := by
    unfold hdel
    rw [any_perm hr.1]
    split
    · exact ⟨rfl, hr.1.filter _⟩
    · exact ⟨rfl, hr.1⟩
  exact ⟨hp.1, HashP.of_perm hp.2 (hdel_ok h f hr.2.1)⟩

theorem hsetMany_perm : ∀ (l : List Bytes) {h h' : HashT} (n : Nat), HashP h h' →
    (hsetMany h l n).2 = (hsetMany h' l n).2 ∧ HashP (hsetMany h l n).1 (hsetMany h' l n).1
| [], _, _, _, hr => ⟨rfl, hr⟩
| [_], _, _, _, hr => ⟨rfl, hr⟩
| f :: v :: rest, h, h', n, hr => by
  have hs := hset_perm hr f v
  unfold hsetMany
  rw [hs.1]
  exact hsetMany_perm rest _ hs.2

theorem hdelMany_perm : ∀ (fs : List Bytes) {h h' : HashT} (n : Nat), HashP h h' →
    (hdelMany h fs n).2 = (hdelMany h' fs n).2 ∧ HashP (hdelMany h fs n).1 (hdelMany h' fs n).1
| [], _, _, _, hr => ⟨rfl, hr⟩
| f :: fs, h, h', n, hr => by
  have hs := hdel_perm hr f
  unfold hdelMany
  rw [hs.1]
  exact hdelMany_perm fs _ hs.2

theorem DbEquiv.putHash {a b : Db} (h : DbEquiv a b) (k : Bytes) {x x' : HashT} (hp : x.Perm x') :
    DbEquiv (putHash a k x) (putHash b k x') := by
  unfold Exec.putHash
  have : x.isEmpty = x'.isEmpty := by
    have := hp.length_eq
    cases x <;> cases x' <;> simp_all
  rw [this]
  split
  · exact h.del k
  · exact h.setVal k hp

/-! ### the shared read and write skeletons -/

/-- a reading executor: related replies for related field tables -/
theorem e_hashRead {R : Reply → Reply → Prop} (hrefl : ∀ r, R r r) (env : Env) {a b : Db} (k : Bytes) (body : HashT → Reply)
    (hbody : ∀ h h', HashP h h' → R (body h) (body h')) (hs : Sim a b) :
    R (hashRead env a k body).1 (hashRead env b k body).1 ∧ DbEquiv (hashRead env a k body).2 (hashRead env b k body).2 := by
  unfold hashRead
  obtain ⟨a', b', x, hca, hcb, hs'⟩ := hs.ttl env.now k
  simp only [hca, hcb]
  rcases getHash_cases hs' k with ⟨ha, hb⟩ | ⟨ha, hb⟩ | ⟨h, h', ha, hb, hr⟩ <;> simp only [ha, hb]
  · exact ⟨hrefl _, hs'.eqv⟩
  · exact ⟨hrefl _, hs'.eqv⟩
  · exact ⟨hbody h h' ⟨hr.1, hr.2.1, hr.2.2.1⟩, hs'.eqv⟩

theorem e_hashRead_eq (env : Env) {a b : Db} (k : Bytes) (body : HashT → Reply)
    (hbody : ∀ h h', HashP h h' → body h = body h') (hs : Sim a b) : Res (hashRead env a k body) (hashRead env b k body) :=
  e_hashRead (R := Eq) (fun _ => rfl) env k body hbody hs

/-- a writing executor: the same reply and related field tables to store -/
theorem e_hashWrite (env : Env) {a b : Db} (k : Bytes) (body : HashT → Reply × HashT)
    (hbody : ∀ h h', HashP h h' → (body h).1 = (body h').1 ∧ (body h).2.Perm (body h').2) (hs : Sim a b) :
    Res (hashWrite env a k body) (hashWrite env b k body) := by
  unfold hashWrite
  obtain ⟨a', b', x, hca, hcb, hs'⟩ := hs.ttl env.now k
  simp only [hca, hcb]
  rcases getHash_cases hs' k with ⟨ha, hb⟩ | ⟨ha, hb⟩ | ⟨h, h', ha, hb, hr⟩ <;> simp only [ha, hb]
  · exact ⟨rfl, hs'.eqv.putHash k (List.Perm.refl _)⟩
  · exact ⟨rfl, hs'.eqv⟩
  · have := hbody h h' ⟨hr.1, hr.2.1, hr.2.2.1⟩
    exact ⟨this.1, hs'.eqv.putHash k this.2⟩

/-! ### the commands -/

theorem e_hset : CmdOk cmdHSet := by
  intro env a b args hs; unfold cmdHSet; split
  · split
    · eq_pair
    · exact e_hashWrite env _ _ (fun h h' hr => ⟨by simp only [(hsetMany_perm _ 0 hr).1], (hsetMany_perm _ 0 hr).2.1⟩) hs
  · eq_pair

theorem hsetnx_perm {h h' : HashT} (hr : HashP h h') (f v : Bytes) :
    (hsetnx h f v).1 = (hsetnx h' f v).1 ∧ (hsetnx h f v).2.Perm (hsetnx h' f v).2 := by
  unfold hsetnx
  rw [hget_perm hr]
  split
  · exact ⟨rfl, hr.1⟩
  · exact ⟨rfl, (hset_perm hr f v).2.1⟩

theorem e_hsetnx : CmdOk cmdHSetNx := by
  intro env a b args hs; unfold cmdHSetNx; split
  · exact e_hashWrite env _ _ (fun h h' hr => hsetnx_perm hr _ _) hs
  · eq_pair

theorem e_hget : CmdOk cmdHGet := by
  intro env a b args hs; unfold cmdHGet; split
  · exact e_hashRead_eq env _ _ (fun h h' hr => by simp only [hget_perm hr]) hs
  · eq_pair

theorem e_hmget : CmdOk cmdHMGet := by
  intro env a b args hs; unfold cmdHMGet; split
  · exact e_hashRead_eq env _ _ (fun h h' hr => by simp only [hget_perm hr]) hs
  · eq_pair

theorem e_hlen : CmdOk cmdHLen := by
  intro env a b args hs; unfold cmdHLen; split
  · exact e_hashRead_eq env _ _ (fun h h' hr => by simp only [hr.1.length_eq]) hs
  · eq_pair

theorem e_hexists : CmdOk cmdHExists := by
  intro env a b args hs; unfold cmdHExists; split
  · exact e_hashRead_eq env _ _ (fun h h' hr => by simp only [hget_perm hr]) hs
  · eq_pair

theorem e_hstrlen : CmdOk cmdHStrLen := by
  intro env a b args hs; unfold cmdHStrLen; split
  · exact e_hashRead_eq env _ _ (fun h h' hr => by simp only [hstrlen, hget_perm hr]) hs
  · eq_pair

theorem ReplyPerm.refl (r : Reply) : ReplyPerm r r := Or.inl rfl
theorem ReplyPairs.refl (r : Reply) : ReplyPairs r r := Or.inl rfl

/-- HKEYS lists the stored order -/
theorem e_hkeys : CmdPerm cmdHKeys := by
  intro env a b args hs; unfold cmdHKeys; split
  · exact e_hashRead ReplyPerm.refl env _ _ (fun h h' hr => Or.inr ⟨_, _, rfl, rfl, hr.1.map _⟩) hs
  · exact ⟨Or.inl rfl, hs.eqv⟩

/-- HVALS lists the stored order -/
theorem e_hvals : CmdPerm cmdHVals := by
  intro env a b args hs; unfold cmdHVals; split
  · exact e_hashRead ReplyPerm.refl env _ _ (fun h h' hr => Or.inr ⟨_, _, rfl, rfl, hr.1.map _⟩) hs
  · exact ⟨Or.inl rfl, hs.eqv⟩

/-- HGETALL lists the stored order, field by field -/
theorem e_hgetall : CmdPairs cmdHGetAll := by
  intro env a b args hs; unfold cmdHGetAll; split
  · exact e_hashRead ReplyPairs.refl env _ _ (fun h h' hr => Or.inr ⟨_, _, rfl, rfl, hr.1⟩) hs
  · exact ⟨Or.inl rfl, hs.eqv⟩

theorem e_hdel : CmdOk cmdHDel := by
  intro env a b args hs; unfold cmdHDel; split
  · exact e_hashWrite env _ _ (fun h h' hr => ⟨by simp only [(hdelMany_perm _ 0 hr).1], (hdelMany_perm _ 0 hr).2.1⟩) hs
  · eq_pair

theorem hincrby_perm {h h' : HashT} (hr : HashP h h') (f : Bytes) (d : Int) :
    (hincrby h f d).1 = (hincrby h' f d).1 ∧ (hincrby h f d).2.Perm (hincrby h' f d).2 := by
  unfold hincrby hcur
  rw [hget_perm hr]
  repeat' (first | exact ⟨rfl, hr.1⟩ | exact ⟨rfl, (hset_perm hr _ _).2.1⟩ | split)

theorem e_hincrby : CmdOk cmdHIncrBy := by
  intro env a b args hs; unfold cmdHIncrBy; split
  · split
    · eq_pair
    · exact e_hashWrite env _ _ (fun h h' hr => hincrby_perm hr _ _) hs
  · eq_pair

theorem hincrbyfloat_perm {h h' : HashT} (hr : HashP h h') (obs : Option Reply) (bits : UInt64) (f : Bytes) :
    (hincrbyfloat obs bits h f).1 = (hincrbyfloat obs bits h' f).1 ∧
    (hincrbyfloat obs bits h f).2.Perm (hincrbyfloat obs bits h' f).2 := by
  unfold hincrbyfloat
  rw [hget_perm hr]
  dsimp only
  repeat' (first | exact ⟨rfl, hr.1⟩ | exact ⟨rfl, (hset_perm hr _ _).2.1⟩ | split)

theorem e_hincrbyfloat : CmdOk cmdHIncrByFloat := by
  intro env a b args hs; unfold cmdHIncrByFloat; split
  · split
    · eq_pair
    · split
      · eq_pair
      · exact e_hashWrite env _ _ (fun h h' hr => hincrbyfloat_perm hr _ _ _) hs
  · eq_pair

/-! ### HRANDFIELD: acceptance is representation-free -/

theorem hrandPlain_perm {h h' : HashT} (hr : HashP h h') : ∀ (l : List Reply), hrandPlain h l = hrandPlain h' l
| [] => rfl
| .bulk (some f) :: rest => by unfold hrandPlain; rw [hget_perm hr, hrandPlain_perm hr rest]
| .bulk none :: _ => rfl
| .simple _ :: _ => rfl
| .err _ :: _ => rfl
| .int _ :: _ => rfl
| .arr _ :: _ => rfl

theorem hrandPairs_perm {h h' : HashT} (hr : HashP h h') : ∀ (n : Nat) (l : List Reply), l.length ≤ n →
    hrandPairs h l = hrandPairs h' l := by
  intro n
  induction n with
  | zero => intro l hl; match l, hl with | [], _ => rfl
  | succ n ih =>
    intro l hl
    unfold hrandPairs
    split
    · rfl
    · rename_i f v rest
      rw [hget_perm hr, ih rest (by simp at hl; omega)]
    · rfl

/-- whether an observed HRANDFIELD reply is acceptable does not depend on the presentation of the hash -/
theorem hrandAccept_perm {h h' : HashT} (hr : HashP h h') (count : Option Int) (wv : Bool) (o : Reply) :
    hrandAccept h count wv o = hrandAccept h' count wv o := by
  unfold hrandAccept
  have hl := hr.1.length_eq
  have he : h.isEmpty = h'.isEmpty := by cases h <;> cases h' <;> simp_all
  cases count with
  | none => simp only [he, hget_perm hr]
  | some c =>
    dsimp only
    split
    · rename_i l
      rw [hrandPlain_perm hr, hrandPairs_perm hr l.length l (Nat.le_refl _), hl]
    · rfl

/-- an accepted observation is answered identically whatever the presentation -/
theorem hrandReply_perm_of_accepted {h h' : HashT} (hr : HashP h h') (count : Option Int) (wv : Bool) (o : Reply)
    (hacc : hrandAccept h count wv o = true) : hrandReply (some o) h count wv = hrandReply (some o) h' count wv := by
  unfold hrandReply
  simp only [← hrandAccept_perm hr, hacc, if_true]

/-! ### the fallback answer is itself acceptable (so a refused observation is never matched by it) -/

theorem allDistinct_of_nodup : ∀ (l : List Bytes), l.Nodup → allDistinct l = true
| [], _ => rfl
| x :: xs, h => by
  rw [List.nodup_cons] at h
  unfold allDistinct
  rw [allDistinct_of_nodup xs h.2]
  simp [h.1]

theorem hget_of_mem {h : HashT} (ok : Ok h) {p : Bytes × Bytes} (hp : p ∈ h) : hget h p.1 = some p.2 :=
  (hget_iff_mem ok p.1 p.2).mpr hp

theorem hrandPlain_sel {h : HashT} (ok : Ok h) : ∀ (sel : HashT), (∀ p ∈ sel, p ∈ h) →
    hrandPlain h ((sel.map Prod.fst).map bulk) = some (sel.map Prod.fst)
| [], _ => rfl
| p :: sel, hs => by
  have ih := hrandPlain_sel ok sel (fun q hq => hs q (List.mem_cons_of_mem _ hq))
  simp only [List.map_cons, bulk, hrandPlain, hget_of_mem ok (hs p List.mem_cons_self), Option.isSome_some, if_true]
  rw [ih]; rfl

theorem hrandPairs_sel {h : HashT} (ok : Ok h) : ∀ (sel : HashT), (∀ p ∈ sel, p ∈ h) →
    hrandPairs h ((flatPairs sel).map bulk) = some (sel.map Prod.fst)
| [], _ => rfl
| p :: sel, hs => by
  have ih := hrandPairs_sel ok sel (fun q hq => hs q (List.mem_cons_of_mem _ hq))
  unfold flatPairs at ih ⊢
  simp only [List.flatMap_cons, List.cons_append, List.nil_append, List.map_cons, bulk, hrandPairs,
    hget_of_mem ok (hs p List.mem_cons_self), beq_self_eq_true, if_true]
  rw [ih]; rfl

/-- the selection `hrandFirst` makes for a count -/
def hrandSel (h : HashT) (c : Int) : HashT :=
  if c ≥ 0 then h.take (hrandLen h.length c) else
    match h with | [] => [] | p :: _ => List.replicate (hrandLen h.length c) p

theorem hrandSel_sub (h : HashT) (c : Int) : ∀ p ∈ hrandSel h c, p ∈ h := by
  intro p hp
  unfold hrandSel at hp
  split at hp
  · exact List.mem_of_mem_take hp
  · split at hp
    · cases hp
    · rw [List.mem_replicate] at hp; rw [hp.2]; exact List.mem_cons_self

theorem hrandSel_length (h : HashT) (c : Int) : (hrandSel h c).length = hrandLen h.length c := by
  unfold hrandSel
  split
  · rename_i hc
    rw [List.length_take]
    unfold hrandLen
    rw [if_pos hc]
    omega
  · rename_i hc
    split
    · unfold hrandLen; rw [if_neg hc]; rfl
    · rw [List.length_replicate]

theorem hrandSel_distinct {h : HashT} (ok : Ok h) {c : Int} (hc : c ≥ 0) : allDistinct ((hrandSel h c).map Prod.fst) = true := by
  apply allDistinct_of_nodup
  unfold hrandSel
  rw [if_pos hc]
  exact List.Nodup.sublist (List.Sublist.map _ (List.take_sublist _ _)) ok

theorem hrandFirst_count (h : HashT) (c : Int) (wv : Bool) :
    hrandFirst h (some c) wv = .arr (some ((if wv then flatPairs (hrandSel h c) else (hrandSel h c).map Prod.fst).map bulk)) := rfl

/-- the leading fields of ANY presentation are an acceptable answer -/
theorem hrandFirst_accepted {h : HashT} (ok : Ok h) (count : Option Int) (wv : Bool) :
    hrandAccept h count wv (hrandFirst h count wv) = true := by
  cases count with
  | none =>
    cases h with
    | nil => rfl
    | cons p h =>
      show (hget (p :: h) p.1).isSome = true
      rw [hget_cons, if_pos rfl]; rfl
  | some c =>
    rw [hrandFirst_count]
    unfold hrandAccept
    dsimp only
    have hlen := hrandSel_length h c
    cases wv with
    | true =>
      simp only [if_true, hrandPairs_sel ok _ (hrandSel_sub h c), List.length_map, hlen, beq_self_eq_true, Bool.true_and]
      by_cases hc : c < 0
      · simp [hc]
      · simp [hc, hrandSel_distinct ok (Int.not_lt.mp hc)]
    | false =>
      simp only [Bool.false_eq_true, if_false, hrandPlain_sel ok _ (hrandSel_sub h c), List.length_map, hlen, beq_self_eq_true,
        Bool.true_and]
      by_cases hc : c < 0
      · simp [hc]
      · simp [hc, hrandSel_distinct ok (Int.not_lt.mp hc)]

theorem hrandFirst_not_err (h : HashT) (count : Option Int) (wv : Bool) (e : Bytes) : hrandFirst h count wv ≠ .err e := by
  cases count with
  | none => cases h <;> (intro he; cases he)
  | some c => rw [hrandFirst_count]; intro he; cases he

/-! ### the canonical presentation -/

/-- the canonical presentation is a presentation of the same hash -/
theorem hrandCanon_perm (h : HashT) : (hrandCanon h).Perm h := sortBy_perm _ h

theorem hrandCanon_hashP {h : HashT} (ok : Ok h) : HashP h (hrandCanon h) := HashP.of_perm (hrandCanon_perm h).symm ok

/-- with unique fields an entry is determined by its field -/
theorem fst_inj_of_ok {h : HashT} (ok : Ok h) : ∀ a ∈ h, ∀ b ∈ h, a.1 = b.1 → a = b := by
  intro a ha b hb hab
  have h1 := hget_of_mem ok ha
  have h2 := hget_of_mem ok hb
  rw [hab, h2] at h1
  exact Prod.ext hab (Option.some.inj h1).symm

/-- **two presentations of one hash have the same canonical presentation** -/
theorem hrandCanon_eq {h h' : HashT} (hr : HashP h h') : hrandCanon h = hrandCanon h' :=
  sortBy_of_perm Prod.fst (fst_inj_of_ok hr.2.1) hr.1

/-- **the fallback answer does not depend on the presentation** -/
theorem hrandDefault_perm {h h' : HashT} (hr : HashP h h') (count : Option Int) (wv : Bool) :
    hrandDefault h count wv = hrandDefault h' count wv := by
  unfold hrandDefault
  rw [hrandCanon_eq hr]

/-- **the fallback answer satisfies the specification** -/
theorem hrandDefault_accepted {h : HashT} (ok : Ok h) (count : Option Int) (wv : Bool) :
    hrandAccept h count wv (hrandDefault h count wv) = true := by
  have hr := hrandCanon_hashP ok
  rw [hrandAccept_perm hr]
  exact hrandFirst_accepted hr.2.2 count wv

theorem hrandDefault_not_err (h : HashT) (count : Option Int) (wv : Bool) (e : Bytes) : hrandDefault h count wv ≠ .err e :=
  hrandFirst_not_err _ count wv e

/-- **HRANDFIELD's reply does not depend on the presentation**, with or without an observation, accepted or refused -/
theorem hrandReply_perm {h h' : HashT} (hr : HashP h h') (obs : Option Reply) (count : Option Int) (wv : Bool) :
    hrandReply obs h count wv = hrandReply obs h' count wv := by
  unfold hrandReply
  cases obs with
  | none => exact hrandDefault_perm hr count wv
  | some o => simp only [hrandAccept_perm hr count wv o, hrandDefault_perm hr count wv]

theorem e_hrandWithCount (env : Env) {a b : Db} (k c : Bytes) (wv : Bool) (hs : Sim a b) :
    Res (hrandWithCount env a k c wv) (hrandWithCount env b k c wv) := by
  unfold hrandWithCount
  repeat' (first | eq_pair | exact e_hashRead_eq env _ _ (fun h h' hr => hrandReply_perm hr _ _ _) hs | split)

theorem e_hrandfield : CmdOk cmdHRandField := by
  intro env a b args hs; unfold cmdHRandField
  repeat' (first
    | eq_pair
    | exact e_hashRead_eq env _ _ (fun h h' hr => hrandReply_perm hr _ _ _) hs
    | exact e_hrandWithCount env _ _ _ hs
    | split)

end Exec.Equiv
