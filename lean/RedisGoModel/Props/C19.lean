import RedisGoModel.Exec.Serve
/-! # C19 — published messages reach exactly the current subscribers, once, in order

Full statement: for all numbers of channels, subscribers and publishers, all payloads and all interleavings of SUBSCRIBE,
PUBLISH and disconnects, a published message is delivered exactly once, intact and in publish order, to every connection
subscribed to that channel at that moment and to no other, and PUBLISH reports how many received it; concurrent use never
crashes or blocks publishers indefinitely.

Proved here, about `Exec.Server.execOn` (the function the driver runs against `Manager.Handle`): the subscription table evolves
exactly as the abstract table of `Ds/PubSub.lean` (`subs_subscribe`, `subs_publish`, `subs_disconnect`), for which
`PubSub.delivery_exact` and `PubSub.publish_count` state the history-level property for every operation sequence; the table
stays duplicate-free (`subs_nodup`), so a PUBLISH appends the message exactly once to the outbox of exactly the subscribed
connections, after everything already queued there (`publish_delivers`), and replies their number (`publish_reply`).
Not proved (runtime): goroutine interleavings of Send/Subscribe and TCP back-pressure — explored by the concurrent engine. -/
namespace Exec
open Resp (Reply Bytes)

def subStep (subs : List (Bytes × Nat)) (c : Nat) (ch : Bytes) : List (Bytes × Nat) :=
  if subs.contains (ch, c) then subs else subs ++ [(ch, c)]

/-- the table update of SUBSCRIBE is the abstract `PubSub.step … (.subscribe c ch)` for each channel, in order -/
theorem subs_subscribe (s : Server) (env : Env) (c : Nat) (name : Bytes) (chs : List Bytes) (hn : lower name = nSubscribe)
    (hne : chs ≠ []) :
    (s.execOn env c (name :: chs)).2.subs = chs.foldl (fun subs ch => (PubSub.step ⟨subs, fun _ => [], []⟩ (.subscribe c ch)).subs) s.subs := by
  unfold Server.execOn
  have h1 : (nSubscribe == nSelect) = false := by decide
  have h2 : chs.isEmpty = false := by cases chs <;> simp_all
  simp only [hn, h1, beq_self_eq_true, if_true, h2, Bool.false_eq_true, if_false]
  congr 1
  funext subs ch
  simp only [PubSub.step, List.contains_iff_mem]
  split <;> rfl

theorem nodup_subStep (subs : List (Bytes × Nat)) (c : Nat) (ch : Bytes) (h : subs.Nodup) : (subStep subs c ch).Nodup := by
  unfold subStep
  split
  · exact h
  · rename_i hc
    rw [List.nodup_append]
    refine ⟨h, by simp, ?_⟩
    intro a ha b hb
    simp only [List.mem_singleton] at hb
    subst hb
    intro e; subst e
    exact hc (List.contains_iff_mem.mpr ha)

theorem nodup_foldl_subStep (chs : List Bytes) (c : Nat) : ∀ subs : List (Bytes × Nat), subs.Nodup →
    (chs.foldl (fun subs ch => if subs.contains (ch, c) then subs else subs ++ [(ch, c)]) subs).Nodup := by
  induction chs with
  | nil => intro subs h; exact h
  | cons ch chs ih => intro subs h; exact ih _ (nodup_subStep subs c ch h)

/-- the subscription table never holds a (channel, connection) pair twice, whatever command is executed -/
theorem subs_nodup (s : Server) (env : Env) (c : Nat) (args : List Bytes) (h : s.subs.Nodup) : (s.execOn env c args).2.subs.Nodup := by
  unfold Server.execOn
  split
  · exact h
  · rename_i name rest
    simp only
    split
    · split
      · exact h
      · exact h
    · split
      · split
        · exact h
        · exact nodup_foldl_subStep rest c s.subs h
      · split
        · split <;> exact h
        · split <;> exact h

/-- PUBLISH replies the number of subscriptions to the channel -/
theorem publish_reply (s : Server) (env : Env) (c : Nat) (name ch payload : Bytes) (hn : lower name = nPublish) :
    (s.execOn env c [name, ch, payload]).1.2 = .int ((s.subs.filter (·.1 == ch)).length) := by
  unfold Server.execOn
  have h1 : (nPublish == nSelect) = false := by decide
  have h2 : (nPublish == nSubscribe) = false := by decide
  simp only [hn, h1, h2, beq_self_eq_true, if_true, Bool.false_eq_true, if_false]
  simp

/-- PUBLISH leaves the table alone and appends the message, once per subscribed connection other than the publisher, *after*
    everything already queued; the publisher's own copy (if it is subscribed) is written into its reply stream before the count -/
theorem publish_delivers (s : Server) (env : Env) (c : Nat) (name ch payload : Bytes) (hn : lower name = nPublish) :
    let r := s.execOn env c [name, ch, payload]
    r.2.subs = s.subs ∧
    r.2.outbox = s.outbox ++ (((s.subs.filter (·.1 == ch)).map (·.2)).filter (· != c)).map (fun t => (t, pushMsg ch payload)) ∧
    r.1.1 = (if ((s.subs.filter (·.1 == ch)).map (·.2)).contains c then [arrOf [bulk (ofStr "message"), bulk ch, bulk payload]] else []) := by
  unfold Server.execOn
  have h1 : (nPublish == nSelect) = false := by decide
  have h2 : (nPublish == nSubscribe) = false := by decide
  simp only [hn, h1, h2, beq_self_eq_true, if_true, Bool.false_eq_true, if_false]
  simp

/-- with a duplicate-free table each subscribed connection occurs exactly once among the targets: delivery is exactly once -/
theorem targets_once (subs : List (Bytes × Nat)) (ch : Bytes) (t : Nat) (h : subs.Nodup) (hm : (ch, t) ∈ subs) :
    (((subs.filter (·.1 == ch)).map (·.2)).count t) = 1 := by
  induction subs with
  | nil => cases hm
  | cons x xs ih =>
    rw [List.nodup_cons] at h
    by_cases hx : x = (ch, t)
    · subst hx
      have hnot : (ch, t) ∉ xs := h.1
      have : ((xs.filter (·.1 == ch)).map (·.2)).count t = 0 := by
        rw [List.count_eq_zero]
        intro hin
        rw [List.mem_map] at hin
        obtain ⟨p, hp, hpt⟩ := hin
        rw [List.mem_filter] at hp
        have : p = (ch, t) := by
          cases p with
          | mk a b => simp at hp hpt; simp [hp.2, hpt]
        exact hnot (this ▸ hp.1)
      simp [List.filter_cons, this]
    · have hm' : (ch, t) ∈ xs := by
        cases hm with
        | head => exact absurd rfl hx
        | tail _ h' => exact h'
      have ih' := ih h.2 hm'
      rw [List.filter_cons]
      split
      · rename_i hc
        rw [List.map_cons, List.count_cons]
        have : (x.2 == t) = false := by
          simp only [beq_eq_false_iff_ne, ne_eq]
          intro e
          apply hx
          cases x with
          | mk a b => simp at hc e; simp [hc, e]
        simp [this, ih']
      · exact ih'

/-- a client close removes exactly that connection's subscriptions (abstract `disconnect`) -/
theorem subs_disconnect (s : Server) (c : Nat) :
    (s.clientClose c).subs = (PubSub.step ⟨s.subs, fun _ => [], []⟩ (.disconnect c)).subs := by
  simp only [Server.clientClose, PubSub.step]
  congr 1
  funext p
  by_cases h : p.2 = c <;> simp [h, bne]

end Exec
