import RedisGoModel.Props.EquivBase
/-! Representation independence: sorted-set commands.  A sorted set is stored as the AVL tree of memdb/btree.go; two trees present
    the same sorted set when their member sequences (`ZT.members`, in (score, name) order) are equal — the shape of the tree, the
    stored heights and the rotation history are representation.  Every executor looks at the tree only through `ZT.lookup` (defined
    on `members`), `ZT.members` itself, and the emptiness test; `setScore`/`remove` produce trees whose member sequence is determined
    by the member sequence of the input (`C12`: `mem_setScore`, `mem_remove`, and a valid tree lists its members strictly sorted). -/
namespace Exec.Equiv
open Resp (Reply Bytes)
open Exec

/-- two valid trees with the same member sequence -/
def ZP (t t' : ZT.T) : Prop := ZT.members t = ZT.members t' ∧ ZT.Inv t ∧ ZT.Inv t'

theorem ZP.nil : ZP .nil .nil := ⟨rfl, ZT.inv_nil, ZT.inv_nil⟩

theorem members_nodup {t : ZT.T} (hi : ZT.Inv t) : (ZT.members t).Nodup :=
  (ZT.members_sorted hi).imp (fun {a b} hab => by intro e; subst e; exact ZT.mlt_irrefl _ hab)

/-- a valid tree's member sequence is determined by its member SET -/
theorem members_ext {t t' : ZT.T} (hi : ZT.Inv t) (hi' : ZT.Inv t') (h : ∀ p, p ∈ ZT.members t ↔ p ∈ ZT.members t') :
    ZT.members t = ZT.members t' :=
  List.Perm.eq_of_pairwise (le := ZT.mlt) (fun _ _ _ _ h1 h2 => (Snap.mlt_asymm h1 h2).elim)
    (ZT.members_sorted hi) (ZT.members_sorted hi') ((List.perm_ext_iff_of_nodup (members_nodup hi) (members_nodup hi')).mpr h)

theorem lookup_eq {t t' : ZT.T} (hr : ZP t t') (m : Bytes) : ZT.lookup t m = ZT.lookup t' m := by
  unfold ZT.lookup; rw [hr.1]

theorem setScore_rel {t t' : ZT.T} (hr : ZP t t') (m : Bytes) (s : Int) : ZP (ZT.setScore t m s) (ZT.setScore t' m s) := by
  have i1 := ZT.inv_setScore hr.2.1 m s
  have i2 := ZT.inv_setScore hr.2.2 m s
  refine ⟨members_ext i1 i2 fun p => ?_, i1, i2⟩
  rw [ZT.mem_setScore hr.2.1, ZT.mem_setScore hr.2.2, hr.1]

theorem remove_rel {t t' : ZT.T} (hr : ZP t t') (m : Bytes) : ZP (ZT.remove t m) (ZT.remove t' m) := by
  have i1 := ZT.inv_remove hr.2.1 m
  have i2 := ZT.inv_remove hr.2.2 m
  refine ⟨members_ext i1 i2 fun p => ?_, i1, i2⟩
  rw [ZT.mem_remove hr.2.1, ZT.mem_remove hr.2.2, hr.1]

theorem isNil_iff {t : ZT.T} (hi : ZT.Inv t) : t = .nil ↔ ZT.members t = [] :=
  ⟨fun e => by rw [e]; rfl, fun e => ZT.members_nil_iff t e hi⟩

/-- the emptiness test sees only the member sequence -/
theorem isNil_eq {t t' : ZT.T} (hr : ZP t t') : (t == ZT.T.nil) = (t' == ZT.T.nil) := by
  rw [Bool.eq_iff_iff, beq_iff_eq, beq_iff_eq, isNil_iff hr.2.1, isNil_iff hr.2.2, hr.1]

/-! ### ZADD -/

theorem zaddOne_rel (o : ZAddOpts) {t t' : ZT.T} (hr : ZP t t') (s : Int) (m : Bytes) :
    (zaddOne o t s m).1 = (zaddOne o t' s m).1 ∧ ZP (zaddOne o t s m).2 (zaddOne o t' s m).2 := by
  unfold zaddOne
  rw [lookup_eq hr]
  repeat' (first | exact ⟨rfl, hr⟩ | exact ⟨rfl, setScore_rel hr _ _⟩ | split)

/-- the accumulators of the pair loop agree: same counts, same last outcome, trees with the same members -/
def AccR (x y : ZAcc) : Prop := ZP x.t y.t ∧ x.added = y.added ∧ x.updated = y.updated ∧ x.last = y.last

theorem zaddLoop_rel (o : ZAddOpts) : ∀ (ps : List (Int × Bytes)) (x y : ZAcc), AccR x y → AccR (zaddLoop o x ps) (zaddLoop o y ps)
| [], _, _, h => h
| (s, m) :: rest, x, y, h => by
  have h1 := zaddOne_rel o h.1 s m
  unfold zaddLoop
  revert h1
  generalize zaddOne o x.t s m = px
  generalize zaddOne o y.t s m = py
  obtain ⟨ox, tx⟩ := px
  obtain ⟨oy, ty⟩ := py
  intro h1
  simp only at h1
  obtain ⟨e1, e2⟩ := h1
  subst e1
  cases ox <;> dsimp only <;> apply zaddLoop_rel o rest
  · exact ⟨e2, h.2.1, h.2.2.1, rfl⟩
  · exact ⟨e2, by rw [h.2.1], h.2.2.1, rfl⟩
  · exact ⟨e2, h.2.1, by rw [h.2.2.1], rfl⟩
  · exact ⟨e2, h.2.1, h.2.2.1, rfl⟩
  · exact ⟨e2, h.2.1, h.2.2.1, rfl⟩

/-- the part of ZADD after the lazy check -/
theorem zadd_tail (o : ZAddOpts) (pairs : List (Int × Bytes)) (k : Bytes) {a b : Db} (he : DbEquiv a b) {t t' : ZT.T}
    (hr : ZP t t') :
    Res
      (if o.incr then
        match (zaddLoop o { t := t } pairs).last with
        | .nan => (errNaN, a)
        | .nop => (nil, if (zaddLoop o { t := t } pairs).t == .nil then a else a.setVal k (.zset (zaddLoop o { t := t } pairs).t))
        | .added s => (bulk (scoreText s), if (zaddLoop o { t := t } pairs).t == .nil then a else a.setVal k (.zset (zaddLoop o { t := t } pairs).t))
        | .updated s => (bulk (scoreText s), if (zaddLoop o { t := t } pairs).t == .nil then a else a.setVal k (.zset (zaddLoop o { t := t } pairs).t))
        | .same s => (bulk (scoreText s), if (zaddLoop o { t := t } pairs).t == .nil then a else a.setVal k (.zset (zaddLoop o { t := t } pairs).t))
      else (.int (if o.ch then (zaddLoop o { t := t } pairs).added + (zaddLoop o { t := t } pairs).updated else (zaddLoop o { t := t } pairs).added),
        if (zaddLoop o { t := t } pairs).t == .nil then a else a.setVal k (.zset (zaddLoop o { t := t } pairs).t)))
      (if o.incr then
        match (zaddLoop o { t := t' } pairs).last with
        | .nan => (errNaN, b)
        | .nop => (nil, if (zaddLoop o { t := t' } pairs).t == .nil then b else b.setVal k (.zset (zaddLoop o { t := t' } pairs).t))
        | .added s => (bulk (scoreText s), if (zaddLoop o { t := t' } pairs).t == .nil then b else b.setVal k (.zset (zaddLoop o { t := t' } pairs).t))
        | .updated s => (bulk (scoreText s), if (zaddLoop o { t := t' } pairs).t == .nil then b else b.setVal k (.zset (zaddLoop o { t := t' } pairs).t))
        | .same s => (bulk (scoreText s), if (zaddLoop o { t := t' } pairs).t == .nil then b else b.setVal k (.zset (zaddLoop o { t := t' } pairs).t))
      else (.int (if o.ch then (zaddLoop o { t := t' } pairs).added + (zaddLoop o { t := t' } pairs).updated else (zaddLoop o { t := t' } pairs).added),
        if (zaddLoop o { t := t' } pairs).t == .nil then b else b.setVal k (.zset (zaddLoop o { t := t' } pairs).t))) := by
  have h := zaddLoop_rel o pairs { t := t } { t := t' } ⟨hr, rfl, rfl, rfl⟩
  revert h
  generalize zaddLoop o { t := t } pairs = x
  generalize zaddLoop o { t := t' } pairs = y
  intro h
  have hdb : DbEquiv (if x.t == .nil then a else a.setVal k (.zset x.t)) (if y.t == .nil then b else b.setVal k (.zset y.t)) := by
    rw [isNil_eq h.1]
    split
    · exact he
    · exact he.setVal k h.1.1
  rw [h.2.1, h.2.2.1, h.2.2.2]
  split
  · split
    · exact ⟨rfl, he⟩
    · exact ⟨rfl, hdb⟩
    · exact ⟨rfl, hdb⟩
    · exact ⟨rfl, hdb⟩
    · exact ⟨rfl, hdb⟩
  · exact ⟨rfl, hdb⟩

theorem e_zadd : CmdOk cmdZAdd := by
  intro env a b args hs; unfold cmdZAdd; split
  · rename_i k a1 a2 more
    split
    rename_i o nopt rest _
    dsimp only
    split
    · eq_pair
    · split
      · eq_pair
      · split
        · eq_pair
        · split
          · eq_pair
          · split
            · eq_pair
            · rename_i pairs _
              obtain ⟨a', b', x, hca, hcb, hs'⟩ := Sim.ttl hs env.now k
              have he' := hs'.eqv
              simp only [hca, hcb]
              rcases getZ_cases hs' k with ⟨ha, hb⟩ | ⟨ha, hb⟩ | ⟨t, t', ha, hb, hr⟩ <;> simp only [ha, hb]
              · exact zadd_tail o pairs k he' ZP.nil
              · eq_pair
              · exact zadd_tail o pairs k he' ⟨hr.1, hr.2.1, hr.2.2.1⟩
  · eq_pair

/-! ### ZREM -/

theorem zremLoop_rel : ∀ (ms : List Bytes) {t t' : ZT.T} (n : Nat), ZP t t' →
    (zremLoop t ms n).1 = (zremLoop t' ms n).1 ∧ ZP (zremLoop t ms n).2 (zremLoop t' ms n).2
| [], _, _, _, hr => ⟨rfl, hr⟩
| m :: ms, t, t', n, hr => by
  unfold zremLoop
  rw [lookup_eq hr]
  split
  · exact zremLoop_rel ms _ (remove_rel hr m)
  · exact zremLoop_rel ms _ hr

theorem e_zrem : CmdOk cmdZRem := by
  intro env a b args hs; unfold cmdZRem; split
  · rename_i k m ms
    obtain ⟨a', b', x, hca, hcb, hs'⟩ := Sim.ttl hs env.now k
    have he' := hs'.eqv
    simp only [hca, hcb]
    rcases getZ_cases hs' k with ⟨ha, hb⟩ | ⟨ha, hb⟩ | ⟨t, t', ha, hb, hr⟩ <;> simp only [ha, hb]
    · eq_pair
    · eq_pair
    · have h := zremLoop_rel (m :: ms) 0 (show ZP t t' from ⟨hr.1, hr.2.1, hr.2.2.1⟩)
      revert h
      generalize zremLoop t (m :: ms) 0 = p
      generalize zremLoop t' (m :: ms) 0 = p'
      obtain ⟨n, u⟩ := p
      obtain ⟨n', u'⟩ := p'
      intro h
      simp only at h
      obtain ⟨e1, e2⟩ := h
      subst e1
      dsimp only
      refine ⟨rfl, ?_⟩
      rw [isNil_eq e2]
      split
      · exact he'.del k
      · exact he'.setVal k e2.1
  · eq_pair

/-! ### ZRANGE, ZRANK: functions of the member sequence -/

theorem zrangeSel_eq {t t' : ZT.T} (h : ZT.members t = ZT.members t') (start stop : Int) (rev : Bool) :
    zrangeSel t start stop rev = zrangeSel t' start stop rev := by
  unfold zrangeSel; rw [h]

theorem zrankOf_eq {t t' : ZT.T} (h : ZT.members t = ZT.members t') (m : Bytes) : zrankOf t m = zrankOf t' m := by
  unfold zrankOf; rw [h]

theorem e_zrange : CmdOk cmdZRange := by
  intro env a b args hs; unfold cmdZRange; split
  · rename_i k start stop opts
    dsimp only
    split
    · eq_pair
    · split
      · eq_pair
      · split
        · split
          · eq_pair
          · obtain ⟨a', b', x, hca, hcb, hs'⟩ := Sim.ttl hs env.now k
            have he' := hs'.eqv
            simp only [hca, hcb]
            rcases getZ_cases hs' k with ⟨ha, hb⟩ | ⟨ha, hb⟩ | ⟨t, t', ha, hb, hr⟩ <;> simp only [ha, hb]
            · eq_pair
            · eq_pair
            · rw [zrangeSel_eq hr.1]; eq_pair
        · eq_pair
  · eq_pair

theorem e_zrank : CmdOk cmdZRank := by
  intro env a b args hs; unfold cmdZRank; split
  · rename_i k m
    obtain ⟨a', b', x, hca, hcb, hs'⟩ := Sim.ttl hs env.now k
    have he' := hs'.eqv
    simp only [hca, hcb]
    rcases getZ_cases hs' k with ⟨ha, hb⟩ | ⟨ha, hb⟩ | ⟨t, t', ha, hb, hr⟩ <;> simp only [ha, hb]
    · eq_pair
    · eq_pair
    · rw [zrankOf_eq hr.1]
      split <;> eq_pair
  · eq_pair

theorem zset_ok : ∀ p ∈ zsetTable, CmdOk p.2 :=
  List.forall_mem_cons.mpr ⟨e_zadd, List.forall_mem_cons.mpr ⟨e_zrem, List.forall_mem_cons.mpr ⟨e_zrange, List.forall_mem_cons.mpr ⟨e_zrank, fun _ h => nomatch h⟩⟩⟩⟩

end Exec.Equiv
