import RedisGoModel.Conc.PubSubSlow
/-! # C19, slow consumers: a stalled / dying subscriber never affects what the OTHER subscribers get (safety)

Model: `Conc/PubSubSlow.lean` (`PSS`): `ChanMap.Send / Subscribe / UnSubscribe` of `/repo/memdb/pubsub_struct.go`, one step per blocking point, any
number of goroutines, any schedule, connections `ready | stalled | dead` changed by the environment at any time; a `Write` to a stalled
connection is NO step (the sender keeps the channel object's lock).

Proved for every reachable state (`Reach progs s`, any `n`, any programs — `subscribeEarly` included):

* `linv_reach` (`LInv`): a thread is in a delivery loop on `o` iff it holds `o`'s lock (so at most one), subscriber sets and the list of
  connections still to visit are duplicate-free, `since ≤ |pub|`, objects not yet created have no subscribers;
* `ainv_reach` (`AInv`) / **`healthy_not_affected`**: every member `c` of every channel object `o` has got exactly the messages published on `o`
  since it joined, once each, in publish order (`got o c = due s o c = (pub o).drop (since o c)`), or a Send holds `o`'s lock, has not visited
  `c` yet, and exactly its message is still missing; `send_end_complete`: when the Send returns nothing is missing;
* `got_suffix`: `got o c` is a suffix of the observable `recv s c o` (the delivery records);
* `removed_only_dead_or_unsubscribed`: a step removes `c` from a subscriber set only if `c` is dead or the step is `c`'s own UnSubscribe;
* `got_grows`: a step leaves `got o c` of a member alone or appends one message (no `Reach` hypothesis needed);
* `env_frame`: environment steps touch nothing but `cs`;
* `SI.ex_eval` / `SI.ex_reach`: a concrete run (`decide`) reaching a state where the sender is blocked in `Write` on stalled connection 1 with the
  lock held, the healthy member 2 has the message and member 1 is the pending one.

All statements are exactly the requested ones.  Helpers live in `PSS.SI`: the thread steps are classified once (`SI.next0_tstep`: a step is
`quiet` — `SI.Q`, outside the loops, subscriber sets only shrink, ghost and object locks untouched — or one of `join`, `p3`, `p4nil`, `p4cons`,
`pwready`, `pwdead` with its explicit successor state); `SI.NInv` (object numbering: `table`/`s2` objects are `< next`) gives `LInv.fresh`. -/
set_option linter.unusedSimpArgs false
namespace PSS
open PubSub (Chan Conn Payload)
variable {n : Nat}

/-- what `c` must have got on object `o` since it joined last: the messages published on `o` since then, in publish order -/
def due (s : St n) (o : Obj) (c : Conn) : List Payload := (s.pub o).drop (s.since o c)

/-- environment steps touch nothing but connection states -/
theorem env_frame (s : St n) (e : Env) :
    (env s e).thr = s.thr ∧ (env s e).subs = s.subs ∧ (env s e).got = s.got ∧ (env s e).pub = s.pub ∧ (env s e).since = s.since ∧
    (env s e).dlv = s.dlv ∧ (env s e).ow = s.ow ∧ (env s e).tw = s.tw ∧ (env s e).table = s.table ∧ (env s e).done = s.done := by
  cases e <;> simp only [env] <;> (try split) <;> simp

namespace SI

theorem env_next (s : St n) (e : Env) : (env s e).next = s.next := by
  cases e <;> simp only [env] <;> (try split) <;> simp

/-! ## Thread steps, classified by effect -/

/-- a step of `t` outside the delivery loops that joins nobody: subscriber sets only shrink (a fresh object is created empty, or `t`'s own
    UnSubscribe erases its connection), the ghost and the object locks are untouched -/
structure Q (s : St n) (t : Fin n) (s' : St n) : Prop where
  thr : ∀ u, u ≠ t → s'.thr u = s.thr u
  pc : ∀ o, inLoop o (s.thr t).pc = false
  pc' : ∀ o, inLoop o (s'.thr t).pc = false
  subs : ∀ o, s'.subs o = s.subs o ∨ (s'.subs o = [] ∧ s.next ≤ o) ∨
           ((s.thr t).pc = .u2 o ∧ s'.subs o = (s.subs o).erase (s.thr t).cur.conn)
  got : s'.got = s.got
  pub : s'.pub = s.pub
  since : s'.since = s.since
  ow : s'.ow = s.ow
  dlv : s'.dlv = s.dlv
  cs : s'.cs = s.cs
  next : s.next ≤ s'.next
  tbl : ∀ ch o, s'.table ch = some o → s.table ch = some o ∨ o < s'.next
  s2 : ∀ o, (s'.thr t).pc = .s2 o → (∃ ch, s.table ch = some o) ∨ o < s'.next

/-- the steps of thread `t` -/
inductive TStep (s : St n) (t : Fin n) : St n → Prop
| quiet (s' : St n) (h : Q s t s') : TStep s t s'
| join (o : Obj) (th' : Thread) (done' : List (Rec n)) (left' : Conn → Chan → Bool)
    (hpc : (s.thr t).pc = .s2 o) (how : s.ow o = none) (hnin : (s.thr t).cur.conn ∉ s.subs o)
    (hth' : th'.pc = .idle ∨ th'.pc = .sc) :
    TStep s t { s with
      thr := upd s.thr t th', done := done', tw := none, left := left'
      subs := upd s.subs o (s.subs o ++ [(s.thr t).cur.conn])
      since := upd2 s.since o (s.thr t).cur.conn (s.pub o).length
      got := upd2 s.got o (s.thr t).cur.conn [] }
| p3 (o : Obj) (hpc : (s.thr t).pc = .p3 o) (how : s.ow o = none) :
    TStep s t { setT s t { s.thr t with pc := .p4 o [] (s.subs o) } with
      ow := upd s.ow o (some t), pub := upd s.pub o (s.pub o ++ [(s.thr t).cur.payload]) }
| p4nil (o : Obj) (sent : List Conn) (hpc : (s.thr t).pc = .p4 o sent []) :
    TStep s t (fin { s with ow := upd s.ow o none } t (s.thr t) (some sent.length))
| p4cons (o : Obj) (sent : List Conn) (c0 : Conn) (todo : List Conn) (pick : Conn)
    (hpc : (s.thr t).pc = .p4 o sent (c0 :: todo)) (hpick : pick ∈ c0 :: todo) :
    TStep s t (setT s t { s.thr t with pc := .pw o sent pick ((c0 :: todo).erase pick) })
| pwready (o : Obj) (sent : List Conn) (c' : Conn) (rest : List Conn)
    (hpc : (s.thr t).pc = .pw o sent c' rest) (hcs : s.cs c' = .ready) :
    TStep s t { setT s t { s.thr t with pc := .p4 o (sent ++ [c']) rest } with
      dlv := s.dlv ++ [⟨t, (s.thr t).k, c', o, (s.thr t).cur.payload⟩]
      got := upd2 s.got o c' (s.got o c' ++ [(s.thr t).cur.payload]) }
| pwdead (o : Obj) (sent : List Conn) (c' : Conn) (rest : List Conn)
    (hpc : (s.thr t).pc = .pw o sent c' rest) (hcs : s.cs c' = .dead) :
    TStep s t { setT s t { s.thr t with pc := .p4 o sent rest } with
      subs := upd s.subs o ((s.subs o).erase c')
      left := upd2 s.left c' (s.thr t).cur.chan true }

theorem inLoop_entry (o : Obj) (op : Op) : inLoop o (entry op) = false := by cases op <;> rfl

theorem entry_ne_s2 (op : Op) (o : Obj) : entry op ≠ .s2 o := by cases op <;> simp [entry]

theorem next0_tstep (s s' : St n) (t : Fin n) (pick : Conn) (h : next0 s t pick = some s') : TStep s t s' := by
  unfold next0 at h
  simp only [] at h
  split at h
  · -- idle
    rename_i hpc
    split at h
    · cases h
    · obtain rfl := Option.some.inj h
      refine .quiet _ ⟨?_, ?_, ?_, ?_, rfl, rfl, rfl, rfl, rfl, rfl, Nat.le_refl _, ?_, ?_⟩
      · intro u hu; simp [setT, upd_other _ _ _ _ hu]
      · intro o; rw [hpc]; rfl
      · intro o; simp [setT, inLoop_entry]
      · intro o; exact .inl rfl
      · intro ch o h; exact .inl h
      · intro o h; simp [setT] at h; exact absurd h (entry_ne_s2 _ _)
  · -- e0
    rename_i hpc
    obtain rfl := Option.some.inj h
    refine .quiet _ ⟨?_, ?_, ?_, ?_, rfl, rfl, rfl, rfl, rfl, rfl, Nat.le_refl _, ?_, ?_⟩
    · intro u hu; simp [setT, upd_other _ _ _ _ hu]
    · intro o; rw [hpc]; rfl
    · intro o; simp [setT, inLoop]
    · intro o; exact .inl rfl
    · intro ch o h; exact .inl h
    · intro o h; simp [setT] at h
  · -- s0
    rename_i hpc
    split at h
    · split at h
      · rename_i o htab
        obtain rfl := Option.some.inj h
        refine .quiet _ ⟨?_, ?_, ?_, ?_, rfl, rfl, rfl, rfl, rfl, rfl, Nat.le_refl _, ?_, ?_⟩
        · intro u hu; simp [setT, upd_other _ _ _ _ hu]
        · intro o; rw [hpc]; rfl
        · intro o; simp [setT, inLoop]
        · intro o; exact .inl rfl
        · intro ch o h; exact .inl h
        · intro o' h; simp [setT] at h; subst h; exact .inl ⟨_, htab⟩
      · rename_i htab
        obtain rfl := Option.some.inj h
        refine .quiet _ ⟨?_, ?_, ?_, ?_, rfl, rfl, rfl, rfl, rfl, rfl, Nat.le_succ _, ?_, ?_⟩
        · intro u hu; simp [setT, upd_other _ _ _ _ hu]
        · intro o; rw [hpc]; rfl
        · intro o; simp [setT, inLoop]
        · intro o
          by_cases ho : o = s.next
          · subst ho; exact .inr (.inl ⟨by simp [setT], Nat.le_refl _⟩)
          · exact .inl (by simp [setT, upd_other _ _ _ _ ho])
        · intro ch o h
          by_cases hch : ch = (s.thr t).cur.chan
          · subst hch; simp [setT] at h; subst h; exact .inr (Nat.lt_succ_self _)
          · simp [setT, upd_other _ _ _ _ hch] at h; exact .inl h
        · intro o' h; simp [setT] at h; subst h; exact .inr (Nat.lt_succ_self _)
    · cases h
  · -- s2
    rename_i o hpc
    split at h
    · rename_i how
      by_cases hin : (s.thr t).cur.conn ∈ s.subs o
      · simp only [if_pos hin] at h
        split at h
        · obtain rfl := Option.some.inj h
          refine .quiet _ ⟨?_, ?_, ?_, ?_, rfl, rfl, rfl, rfl, rfl, rfl, Nat.le_refl _, ?_, ?_⟩
          · intro u hu; simp [fin, upd_other _ _ _ _ hu]
          · intro o; rw [hpc]; rfl
          · intro o; simp [fin, inLoop]
          · intro o; exact .inl rfl
          · intro ch o h; exact .inl h
          · intro o h; simp [fin] at h
        · obtain rfl := Option.some.inj h
          refine .quiet _ ⟨?_, ?_, ?_, ?_, rfl, rfl, rfl, rfl, rfl, rfl, Nat.le_refl _, ?_, ?_⟩
          · intro u hu; simp [setT, upd_other _ _ _ _ hu]
          · intro o; rw [hpc]; rfl
          · intro o; simp [setT, inLoop]
          · intro o; exact .inl rfl
          · intro ch o h; exact .inl h
          · intro o h; simp [setT] at h
      · simp only [if_neg hin] at h
        split at h
        · obtain rfl := Option.some.inj h
          exact .join o _ _ _ hpc how hin (.inl rfl)
        · obtain rfl := Option.some.inj h
          exact .join o _ _ _ hpc how hin (.inr rfl)
    · cases h
  · -- sc
    rename_i hpc
    obtain rfl := Option.some.inj h
    refine .quiet _ ⟨?_, ?_, ?_, ?_, rfl, rfl, rfl, rfl, rfl, rfl, Nat.le_refl _, ?_, ?_⟩
    · intro u hu; simp [fin, upd_other _ _ _ _ hu]
    · intro o; rw [hpc]; rfl
    · intro o; simp [fin, inLoop]
    · intro o; exact .inl rfl
    · intro ch o h; exact .inl h
    · intro o h; simp [fin] at h
  · -- u0
    rename_i hpc
    split at h
    · split at h
      · obtain rfl := Option.some.inj h
        refine .quiet _ ⟨?_, ?_, ?_, ?_, rfl, rfl, rfl, rfl, rfl, rfl, Nat.le_refl _, ?_, ?_⟩
        · intro u hu; simp [fin, upd_other _ _ _ _ hu]
        · intro o; rw [hpc]; rfl
        · intro o; simp [fin, inLoop]
        · intro o; exact .inl rfl
        · intro ch o h; exact .inl h
        · intro o h; simp [fin] at h
      · obtain rfl := Option.some.inj h
        refine .quiet _ ⟨?_, ?_, ?_, ?_, rfl, rfl, rfl, rfl, rfl, rfl, Nat.le_refl _, ?_, ?_⟩
        · intro u hu; simp [setT, upd_other _ _ _ _ hu]
        · intro o; rw [hpc]; rfl
        · intro o; simp [setT, inLoop]
        · intro o; exact .inl rfl
        · intro ch o h; exact .inl h
        · intro o h; simp [setT] at h
    · cases h
  · -- u2
    rename_i o hpc
    split at h
    · obtain rfl := Option.some.inj h
      refine .quiet _ ⟨?_, ?_, ?_, ?_, rfl, rfl, rfl, rfl, rfl, rfl, Nat.le_refl _, ?_, ?_⟩
      · intro u hu; simp [fin, upd_other _ _ _ _ hu]
      · intro o; rw [hpc]; rfl
      · intro o; simp [fin, inLoop]
      · intro o'
        by_cases ho : o' = o
        · subst ho; exact .inr (.inr ⟨hpc, by simp [fin]⟩)
        · exact .inl (by simp [fin, upd_other _ _ _ _ ho])
      · intro ch o' h
        simp only [fin] at h
        split at h
        · by_cases hch : ch = (s.thr t).cur.chan
          · subst hch; simp at h
          · rw [upd_other _ _ _ _ hch] at h; exact .inl h
        · exact .inl h
      · intro o h; simp [fin] at h
    · cases h
  · -- p0
    rename_i hpc
    split at h
    · split at h
      · obtain rfl := Option.some.inj h
        refine .quiet _ ⟨?_, ?_, ?_, ?_, rfl, rfl, rfl, rfl, rfl, rfl, Nat.le_refl _, ?_, ?_⟩
        · intro u hu; simp [fin, upd_other _ _ _ _ hu]
        · intro o; rw [hpc]; rfl
        · intro o; simp [fin, inLoop]
        · intro o; exact .inl rfl
        · intro ch o h; exact .inl h
        · intro o h; simp [fin] at h
      · obtain rfl := Option.some.inj h
        refine .quiet _ ⟨?_, ?_, ?_, ?_, rfl, rfl, rfl, rfl, rfl, rfl, Nat.le_refl _, ?_, ?_⟩
        · intro u hu; simp [setT, upd_other _ _ _ _ hu]
        · intro o; rw [hpc]; rfl
        · intro o; simp [setT, inLoop]
        · intro o; exact .inl rfl
        · intro ch o h; exact .inl h
        · intro o h; simp [setT] at h
    · cases h
  · -- p3
    rename_i o hpc
    split at h
    · rename_i how
      obtain rfl := Option.some.inj h
      exact .p3 o hpc how
    · cases h
  · -- p4 nil
    rename_i o sent hpc
    obtain rfl := Option.some.inj h
    exact .p4nil o sent hpc
  · -- p4 cons
    rename_i o sent c0 todo hpc
    split at h
    · rename_i hp
      obtain rfl := Option.some.inj h
      exact .p4cons o sent c0 todo pick hpc hp
    · cases h
  · -- pw
    rename_i o sent c' rest hpc
    split at h
    · rename_i hcs
      obtain rfl := Option.some.inj h
      exact .pwready o sent c' rest hpc hcs
    · cases h
    · rename_i hcs
      obtain rfl := Option.some.inj h
      exact .pwdead o sent c' rest hpc hcs

theorem Q.mem {s s' : St n} {t : Fin n} (h : Q s t s') {o : Obj} {c : Conn} (hc : c ∈ s'.subs o) : c ∈ s.subs o := by
  rcases h.subs o with h1 | ⟨h1, _⟩ | ⟨_, h1⟩
  · rw [h1] at hc; exact hc
  · rw [h1] at hc; cases hc
  · rw [h1] at hc; exact List.mem_of_mem_erase hc

theorem Q.nodup {s s' : St n} {t : Fin n} (h : Q s t s') {o : Obj} (hn : (s.subs o).Nodup) : (s'.subs o).Nodup := by
  rcases h.subs o with h1 | ⟨h1, _⟩ | ⟨_, h1⟩
  · rw [h1]; exact hn
  · rw [h1]; exact List.nodup_nil
  · rw [h1]; exact hn.erase _

/-! ## Object numbering: objects not yet created have no subscribers -/

structure NInv (s : St n) : Prop where
  tbl : ∀ ch o, s.table ch = some o → o < s.next
  s2lt : ∀ t o, (s.thr t).pc = .s2 o → o < s.next
  fresh : ∀ o, s.next ≤ o → s.subs o = []

theorem ninv_init (progs : Fin n → List Op) : NInv (init progs) :=
  ⟨by intro ch o h; simp [init] at h, by intro t o h; simp [init] at h, by intro o _; rfl⟩

theorem ninv_tstep {s s' : St n} {t : Fin n} (hn : NInv s) (h : TStep s t s') : NInv s' := by
  cases h with
  | quiet s' h =>
    refine ⟨?_, ?_, ?_⟩
    · intro ch o ht
      rcases h.tbl ch o ht with h1 | h1
      · exact Nat.lt_of_lt_of_le (hn.tbl ch o h1) h.next
      · exact h1
    · intro u o hu
      by_cases hut : u = t
      · subst hut
        rcases h.s2 o hu with ⟨ch, h1⟩ | h1
        · exact Nat.lt_of_lt_of_le (hn.tbl ch o h1) h.next
        · exact h1
      · rw [h.thr u hut] at hu; exact Nat.lt_of_lt_of_le (hn.s2lt u o hu) h.next
    · intro o ho
      have h0 := hn.fresh o (Nat.le_trans h.next ho)
      rcases h.subs o with h1 | ⟨h1, _⟩ | ⟨_, h1⟩
      · rw [h1]; exact h0
      · exact h1
      · rw [h1, h0]; rfl
  | join o th' done' left' hpc how hnin hth' =>
    refine ⟨hn.tbl, ?_, ?_⟩
    · intro u o' hu
      by_cases hut : u = t
      · subst hut; simp at hu; rcases hth' with h1 | h1 <;> rw [h1] at hu <;> cases hu
      · simp [upd_other _ _ _ _ hut] at hu; exact hn.s2lt u o' hu
    · intro o' ho'
      have hlt := hn.s2lt t o hpc
      have hne : o' ≠ o := fun h => by subst h; exact Nat.lt_irrefl _ (Nat.lt_of_lt_of_le hlt ho')
      simp [upd_other _ _ _ _ hne]; exact hn.fresh o' ho'
  | p3 o hpc how =>
    refine ⟨hn.tbl, ?_, hn.fresh⟩
    intro u o' hu
    by_cases hut : u = t
    · subst hut; simp [setT] at hu
    · simp [setT, upd_other _ _ _ _ hut] at hu; exact hn.s2lt u o' hu
  | p4nil o sent hpc =>
    refine ⟨hn.tbl, ?_, hn.fresh⟩
    intro u o' hu
    by_cases hut : u = t
    · subst hut; simp [fin] at hu
    · simp [fin, upd_other _ _ _ _ hut] at hu; exact hn.s2lt u o' hu
  | p4cons o sent c0 todo pick hpc hpick =>
    refine ⟨hn.tbl, ?_, hn.fresh⟩
    intro u o' hu
    by_cases hut : u = t
    · subst hut; simp [setT] at hu
    · simp [setT, upd_other _ _ _ _ hut] at hu; exact hn.s2lt u o' hu
  | pwready o sent c' rest hpc hcs =>
    refine ⟨hn.tbl, ?_, hn.fresh⟩
    intro u o' hu
    by_cases hut : u = t
    · subst hut; simp [setT] at hu
    · simp [setT, upd_other _ _ _ _ hut] at hu; exact hn.s2lt u o' hu
  | pwdead o sent c' rest hpc hcs =>
    refine ⟨hn.tbl, ?_, ?_⟩
    · intro u o' hu
      by_cases hut : u = t
      · subst hut; simp [setT] at hu
      · simp [setT, upd_other _ _ _ _ hut] at hu; exact hn.s2lt u o' hu
    · intro o' ho'
      have h0 := hn.fresh o' ho'
      by_cases hne : o' = o
      · subst hne; simp [setT, h0]
      · simp [setT, upd_other _ _ _ _ hne]; exact h0

theorem ninv_reach (progs : Fin n → List Op) (s : St n) (h : Reach progs s) : NInv s := by
  induction h with
  | init => exact ninv_init progs
  | step s s' _ hs ih =>
    cases hs with
    | thr _ t pick h => exact ninv_tstep ih (next0_tstep _ _ _ _ h)
    | env e =>
      obtain ⟨h1, h2, _, _, _, _, _, _, h9, _⟩ := env_frame s e
      exact ⟨by rw [h9, env_next]; exact ih.tbl, by rw [h1, env_next]; exact ih.s2lt, by rw [h2, env_next]; exact ih.fresh⟩

end SI
open SI

/-! ## Lock / structure invariants -/

/-- lock / structure invariants -/
structure LInv (s : St n) : Prop where
  /-- a thread in a delivery loop on `o` holds `o`'s lock (mutual exclusion follows) -/
  obj : ∀ t o, inLoop o (s.thr t).pc = true → s.ow o = some t
  /-- and only such threads hold it across steps -/
  held : ∀ o t, s.ow o = some t → inLoop o (s.thr t).pc = true
  nodup : ∀ o, (s.subs o).Nodup
  pend : ∀ t o, inLoop o (s.thr t).pc = true → (pending (s.thr t).pc).Nodup
  since_le : ∀ o c, c ∈ s.subs o → s.since o c ≤ (s.pub o).length
  fresh : ∀ o, s.next ≤ o → s.subs o = []

namespace SI

theorem linv_init (progs : Fin n → List Op) : LInv (init progs) :=
  ⟨by intro t o h; simp [init, inLoop] at h, by intro o t h; simp [init] at h, by intro o; simp [init],
   by intro t o h; simp [init, inLoop] at h, by intro o c h; simp [init] at h, by intro o _; rfl⟩

theorem linv_tstep {s s' : St n} {t : Fin n} (hl : LInv s) (hn' : NInv s') (h : TStep s t s') : LInv s' := by
  cases h with
  | quiet s' h =>
    refine ⟨?_, ?_, ?_, ?_, ?_, hn'.fresh⟩
    · intro u o hu
      have hut : u ≠ t := fun e => by subst e; rw [h.pc' o] at hu; cases hu
      rw [h.thr u hut] at hu; rw [h.ow]; exact hl.obj u o hu
    · intro o u hu
      rw [h.ow] at hu
      have h1 := hl.held o u hu
      have hut : u ≠ t := fun e => by subst e; rw [h.pc o] at h1; cases h1
      rw [h.thr u hut]; exact h1
    · intro o; exact h.nodup (hl.nodup o)
    · intro u o hu
      have hut : u ≠ t := fun e => by subst e; rw [h.pc' o] at hu; cases hu
      rw [h.thr u hut] at hu ⊢; exact hl.pend u o hu
    · intro o c hc; rw [h.since, h.pub]; exact hl.since_le o c (h.mem hc)
  | join o th' done' left' hpc how hnin hth' =>
    have hth0 : ∀ o', inLoop o' th'.pc = false := by intro o'; rcases hth' with h1 | h1 <;> rw [h1] <;> rfl
    refine ⟨?_, ?_, ?_, ?_, ?_, hn'.fresh⟩
    · intro u o' hu
      by_cases hut : u = t
      · subst hut; simp [hth0] at hu
      · simp [upd_other _ _ _ _ hut] at hu ⊢; exact hl.obj u o' hu
    · intro o' u hu
      dsimp only at hu
      have h1 := hl.held o' u hu
      have hut : u ≠ t := fun e => by subst e; rw [hpc] at h1; cases h1
      simp [upd_other _ _ _ _ hut]; exact h1
    · intro o'
      by_cases ho : o' = o
      · subst ho; simp [List.nodup_append, hl.nodup o']; exact fun a ha e => hnin (e ▸ ha)
      · simp [upd_other _ _ _ _ ho]; exact hl.nodup o'
    · intro u o' hu
      by_cases hut : u = t
      · subst hut; simp [hth0] at hu
      · simp [upd_other _ _ _ _ hut] at hu ⊢; exact hl.pend u o' hu
    · intro o' c hc
      dsimp only at hc ⊢
      by_cases ho : o' = o
      · subst ho
        simp at hc
        by_cases hcc : c = (s.thr t).cur.conn
        · subst hcc; simp
        · rw [upd2_other _ _ _ _ _ _ (by simp [hcc])]; exact hl.since_le _ _ (hc.resolve_right hcc)
      · rw [upd_other _ _ _ _ ho] at hc; rw [upd2_other _ _ _ _ _ _ (by simp [ho])]; exact hl.since_le _ _ hc
  | p3 o hpc how =>
    refine ⟨?_, ?_, ?_, ?_, ?_, hn'.fresh⟩
    · intro u o' hu
      by_cases hut : u = t
      · subst hut; simp [setT, inLoop] at hu; subst hu; simp
      · simp [setT, upd_other _ _ _ _ hut] at hu ⊢
        have h1 := hl.obj u o' hu
        have ho : o' ≠ o := fun e => by subst e; rw [how] at h1; cases h1
        rw [upd_other _ _ _ _ ho]; exact h1
    · intro o' u hu
      by_cases ho : o' = o
      · subst ho; simp at hu; subst hu; simp [setT, inLoop]
      · simp [upd_other _ _ _ _ ho] at hu
        have h1 := hl.held o' u hu
        have hut : u ≠ t := fun e => by subst e; rw [hpc] at h1; cases h1
        simp [setT, upd_other _ _ _ _ hut]; exact h1
    · exact hl.nodup
    · intro u o' hu
      by_cases hut : u = t
      · subst hut; simp [setT, pending]; exact hl.nodup o
      · simp [setT, upd_other _ _ _ _ hut] at hu ⊢; exact hl.pend u o' hu
    · intro o' c hc
      have := hl.since_le o' c hc
      by_cases ho : o' = o
      · subst ho; simp [setT]; omega
      · simp [setT, upd_other _ _ _ _ ho]; exact this
  | p4nil o sent hpc =>
    have hin : inLoop o (s.thr t).pc = true := by rw [hpc]; simp [inLoop]
    have hot := hl.obj t o hin
    refine ⟨?_, ?_, hl.nodup, ?_, hl.since_le, hn'.fresh⟩
    · intro u o' hu
      by_cases hut : u = t
      · subst hut; simp [fin, inLoop] at hu
      · simp [fin, upd_other _ _ _ _ hut] at hu ⊢
        have h1 := hl.obj u o' hu
        have ho : o' ≠ o := fun e => by subst e; rw [hot] at h1; exact hut (Option.some.inj h1).symm
        rw [upd_other _ _ _ _ ho]; exact h1
    · intro o' u hu
      by_cases ho : o' = o
      · subst ho; simp [fin] at hu
      · simp [fin, upd_other _ _ _ _ ho] at hu
        have h1 := hl.held o' u hu
        have hut : u ≠ t := fun e => by subst e; rw [hpc] at h1; simp [inLoop] at h1; exact ho h1.symm
        simp [fin, upd_other _ _ _ _ hut]; exact h1
    · intro u o' hu
      by_cases hut : u = t
      · subst hut; simp [fin, inLoop] at hu
      · simp [fin, upd_other _ _ _ _ hut] at hu ⊢; exact hl.pend u o' hu
  | p4cons o sent c0 todo pick hpc hpick =>
    have hin : inLoop o (s.thr t).pc = true := by rw [hpc]; simp [inLoop]
    have hot := hl.obj t o hin
    refine ⟨?_, ?_, hl.nodup, ?_, hl.since_le, hn'.fresh⟩
    · intro u o' hu
      by_cases hut : u = t
      · subst hut; simp [setT, inLoop] at hu; subst hu; exact hot
      · simp [setT, upd_other _ _ _ _ hut] at hu ⊢; exact hl.obj u o' hu
    · intro o' u hu
      have h1 := hl.held o' u hu
      by_cases hut : u = t
      · subst hut; rw [hpc] at h1; simp [setT, inLoop] at h1 ⊢; exact h1
      · simp [setT, upd_other _ _ _ _ hut]; exact h1
    · intro u o' hu
      by_cases hut : u = t
      · subst hut
        have h1 := hl.pend u o hin
        rw [hpc] at h1
        simp only [setT, upd_same, pending] at h1 ⊢
        exact List.nodup_cons.2 ⟨h1.not_mem_erase, h1.erase _⟩
      · simp [setT, upd_other _ _ _ _ hut] at hu ⊢; exact hl.pend u o' hu
  | pwready o sent c' rest hpc hcs =>
    have hin : inLoop o (s.thr t).pc = true := by rw [hpc]; simp [inLoop]
    have hot := hl.obj t o hin
    refine ⟨?_, ?_, hl.nodup, ?_, hl.since_le, hn'.fresh⟩
    · intro u o' hu
      by_cases hut : u = t
      · subst hut; simp [setT, inLoop] at hu; subst hu; exact hot
      · simp [setT, upd_other _ _ _ _ hut] at hu ⊢; exact hl.obj u o' hu
    · intro o' u hu
      have h1 := hl.held o' u hu
      by_cases hut : u = t
      · subst hut; rw [hpc] at h1; simp [setT, inLoop] at h1 ⊢; exact h1
      · simp [setT, upd_other _ _ _ _ hut]; exact h1
    · intro u o' hu
      by_cases hut : u = t
      · subst hut
        have h1 := hl.pend u o hin
        rw [hpc] at h1
        simp only [setT, upd_same, pending] at h1 ⊢
        exact (List.nodup_cons.1 h1).2
      · simp [setT, upd_other _ _ _ _ hut] at hu ⊢; exact hl.pend u o' hu
  | pwdead o sent c' rest hpc hcs =>
    have hin : inLoop o (s.thr t).pc = true := by rw [hpc]; simp [inLoop]
    have hot := hl.obj t o hin
    refine ⟨?_, ?_, ?_, ?_, ?_, hn'.fresh⟩
    · intro u o' hu
      by_cases hut : u = t
      · subst hut; simp [setT, inLoop] at hu; subst hu; exact hot
      · simp [setT, upd_other _ _ _ _ hut] at hu ⊢; exact hl.obj u o' hu
    · intro o' u hu
      have h1 := hl.held o' u hu
      by_cases hut : u = t
      · subst hut; rw [hpc] at h1; simp [setT, inLoop] at h1 ⊢; exact h1
      · simp [setT, upd_other _ _ _ _ hut]; exact h1
    · intro o'
      by_cases ho : o' = o
      · subst ho; simp [setT]; exact (hl.nodup o').erase _
      · simp [setT, upd_other _ _ _ _ ho]; exact hl.nodup o'
    · intro u o' hu
      by_cases hut : u = t
      · subst hut
        have h1 := hl.pend u o hin
        rw [hpc] at h1
        simp only [setT, upd_same, pending] at h1 ⊢
        exact (List.nodup_cons.1 h1).2
      · simp [setT, upd_other _ _ _ _ hut] at hu ⊢; exact hl.pend u o' hu
    · intro o' c hc
      by_cases ho : o' = o
      · subst ho; simp [setT] at hc ⊢; exact hl.since_le _ _ (List.mem_of_mem_erase hc)
      · simp [setT, upd_other _ _ _ _ ho] at hc ⊢; exact hl.since_le _ _ hc

end SI

theorem linv_reach (progs : Fin n → List Op) (s : St n) (h : Reach progs s) : LInv s := by
  induction h with
  | init => exact linv_init progs
  | step s s' hr hs ih =>
    have hn' := ninv_reach progs s' (Reach.step s s' hr hs)
    cases hs with
    | thr _ t pick h => exact linv_tstep ih hn' (next0_tstep _ _ _ _ h)
    | env e =>
      obtain ⟨h1, h2, _, h4, h5, _, h7, _, _, _⟩ := env_frame s e
      exact ⟨by rw [h1, h7]; exact ih.obj, by rw [h1, h7]; exact ih.held, by rw [h2]; exact ih.nodup,
        by rw [h1]; exact ih.pend, by rw [h2, h4, h5]; exact ih.since_le, hn'.fresh⟩

/-! ## The delivery invariant -/

/-- the delivery invariant -/
structure AInv (s : St n) : Prop where
  /-- nobody holds `o`'s lock: every member has exactly what is due -/
  free : ∀ o c, s.ow o = none → c ∈ s.subs o → s.got o c = due s o c
  /-- a Send `t` is in its loop on `o`: the members it has still to visit miss exactly its message, the others nothing -/
  loop : ∀ t o, inLoop o (s.thr t).pc = true → ∀ c, c ∈ s.subs o →
           (c ∈ pending (s.thr t).pc → s.got o c ++ [(s.thr t).cur.payload] = due s o c) ∧
           (c ∉ pending (s.thr t).pc → s.got o c = due s o c)

namespace SI

theorem ainv_init (progs : Fin n → List Op) : AInv (init progs) :=
  ⟨by intro o c _ h; simp [init] at h, by intro t o h; simp [init, inLoop] at h⟩

theorem mem_pick_erase {l : List Conn} {pick c : Conn} (hp : pick ∈ l) : c ∈ pick :: l.erase pick ↔ c ∈ l := by
  by_cases h : c = pick
  · subst h; simp [hp]
  · simp [h, List.mem_erase_of_ne h]

theorem ainv_tstep {s s' : St n} {t : Fin n} (hl : LInv s) (ha : AInv s) (h : TStep s t s') : AInv s' := by
  cases h with
  | quiet s' h =>
    refine ⟨?_, ?_⟩
    · intro o c how hc
      rw [h.ow] at how
      have h1 := ha.free o c how (h.mem hc)
      simp only [due] at h1 ⊢; rw [h.got, h.pub, h.since]; exact h1
    · intro u o hu c hc
      have hut : u ≠ t := fun e => by subst e; rw [h.pc' o] at hu; cases hu
      rw [h.thr u hut] at hu ⊢
      have h1 := ha.loop u o hu c (h.mem hc)
      simp only [due] at h1 ⊢; rw [h.got, h.pub, h.since]; exact h1
  | join o th' done' left' hpc how hnin hth' =>
    have hth0 : ∀ o', inLoop o' th'.pc = false := by intro o'; rcases hth' with h1 | h1 <;> rw [h1] <;> rfl
    refine ⟨?_, ?_⟩
    · intro o' c how' hc
      simp only [due] at hc ⊢
      by_cases hoc : o' = o ∧ c = (s.thr t).cur.conn
      · obtain ⟨rfl, rfl⟩ := hoc; simp
      · rw [upd2_other _ _ _ _ _ _ hoc, upd2_other _ _ _ _ _ _ hoc]
        have hc' : c ∈ s.subs o' := by
          by_cases ho : o' = o
          · subst ho; simp at hc
            rcases hc with hc | hc
            · exact hc
            · exact absurd ⟨rfl, hc⟩ hoc
          · rw [upd_other _ _ _ _ ho] at hc; exact hc
        exact ha.free o' c how' hc'
    · intro u o' hu c hc
      by_cases hut : u = t
      · subst hut; simp [hth0] at hu
      · simp only [upd_other _ _ _ _ hut, due] at hu hc ⊢
        have h1 := hl.obj u o' hu
        have ho : o' ≠ o := fun e => by subst e; rw [how] at h1; cases h1
        rw [upd_other _ _ _ _ ho] at hc
        rw [upd2_other _ _ _ _ _ _ (fun e => ho e.1), upd2_other _ _ _ _ _ _ (fun e => ho e.1)]
        exact ha.loop u o' hu c hc
  | p3 o hpc how =>
    refine ⟨?_, ?_⟩
    · intro o' c how' hc
      have ho : o' ≠ o := fun e => by subst e; simp at how'
      simp only [upd_other _ _ _ _ ho] at how'
      simp only [due, upd_other _ _ _ _ ho]
      exact ha.free o' c how' hc
    · intro u o' hu c hc
      by_cases hut : u = t
      · subst hut
        simp [setT, inLoop] at hu; subst hu
        simp only [setT, upd_same, pending, due]
        refine ⟨fun _ => ?_, fun h => absurd hc h⟩
        have h1 := ha.free o c how hc
        simp only [due] at h1
        rw [List.drop_append_of_le_length (hl.since_le o c hc), h1]
      · simp only [setT, upd_other _ _ _ _ hut, due] at hu hc ⊢
        have h1 := hl.obj u o' hu
        have ho : o' ≠ o := fun e => by subst e; rw [how] at h1; cases h1
        rw [upd_other _ _ _ _ ho]
        exact ha.loop u o' hu c hc
  | p4nil o sent hpc =>
    have hin : inLoop o (s.thr t).pc = true := by rw [hpc]; simp [inLoop]
    refine ⟨?_, ?_⟩
    · intro o' c how' hc
      by_cases ho : o' = o
      · subst ho
        have h1 := (ha.loop t o' hin c hc).2 (by rw [hpc]; simp [pending])
        exact h1
      · simp only [fin, upd_other _ _ _ _ ho] at how'
        exact ha.free o' c how' hc
    · intro u o' hu c hc
      by_cases hut : u = t
      · subst hut; simp [fin, inLoop] at hu
      · simp only [fin, upd_other _ _ _ _ hut] at hu ⊢
        exact ha.loop u o' hu c hc
  | p4cons o sent c0 todo pick hpc hpick =>
    have hin : inLoop o (s.thr t).pc = true := by rw [hpc]; simp [inLoop]
    refine ⟨?_, ?_⟩
    · intro o' c how' hc; exact ha.free o' c how' hc
    · intro u o' hu c hc
      by_cases hut : u = t
      · subst hut
        simp [setT, inLoop] at hu; subst hu
        have h1 := ha.loop u o hin c hc
        rw [hpc] at h1
        simp only [setT, upd_same, pending] at h1 ⊢
        have hiff := mem_pick_erase (c := c) hpick
        exact ⟨fun hp => h1.1 (hiff.1 hp), fun hp => h1.2 (fun h => hp (hiff.2 h))⟩
      · simp only [setT, upd_other _ _ _ _ hut] at hu ⊢
        exact ha.loop u o' hu c hc
  | pwready o sent c' rest hpc hcs =>
    have hin : inLoop o (s.thr t).pc = true := by rw [hpc]; simp [inLoop]
    have hot := hl.obj t o hin
    refine ⟨?_, ?_⟩
    · intro o' c how' hc
      have ho : o' ≠ o := fun e => by subst e; have h2 : s.ow o' = none := how'; rw [hot] at h2; cases h2
      simp only [due]
      rw [upd2_other _ _ _ _ _ _ (fun e => ho e.1)]
      exact ha.free o' c how' hc
    · intro u o' hu c hc
      by_cases hut : u = t
      · subst hut
        simp [setT, inLoop] at hu; subst hu
        have h1 := ha.loop u o hin c hc
        have hnd := hl.pend u o hin
        rw [hpc] at h1 hnd
        simp only [setT, upd_same, pending, due] at h1 hnd ⊢
        have hnd := List.nodup_cons.1 hnd
        by_cases hcc : c = c'
        · subst hcc
          rw [upd2_same]
          exact ⟨fun h => absurd h hnd.1, fun _ => h1.1 List.mem_cons_self⟩
        · rw [upd2_other _ _ _ _ _ _ (fun e => hcc e.2)]
          exact ⟨fun h => h1.1 (List.mem_cons_of_mem _ h), fun h => h1.2 (by simp [hcc, h])⟩
      · simp only [setT, upd_other _ _ _ _ hut, due] at hu hc ⊢
        have h1 := hl.obj u o' hu
        have ho : o' ≠ o := fun e => by subst e; rw [hot] at h1; exact hut (Option.some.inj h1).symm
        rw [upd2_other _ _ _ _ _ _ (fun e => ho e.1)]
        exact ha.loop u o' hu c hc
  | pwdead o sent c' rest hpc hcs =>
    have hin : inLoop o (s.thr t).pc = true := by rw [hpc]; simp [inLoop]
    have hot := hl.obj t o hin
    refine ⟨?_, ?_⟩
    · intro o' c how' hc
      have ho : o' ≠ o := fun e => by subst e; have h2 : s.ow o' = none := how'; rw [hot] at h2; cases h2
      simp only [setT, upd_other _ _ _ _ ho] at hc
      exact ha.free o' c how' hc
    · intro u o' hu c hc
      by_cases hut : u = t
      · subst hut
        simp [setT, inLoop] at hu; subst hu
        simp only [setT, upd_same] at hc
        have hc2 := (hl.nodup o).mem_erase_iff.1 hc
        have h1 := ha.loop u o hin c hc2.2
        rw [hpc] at h1
        simp only [setT, upd_same, pending] at h1 ⊢
        exact ⟨fun h => h1.1 (List.mem_cons_of_mem _ h), fun h => h1.2 (by simp [hc2.1, h])⟩
      · simp only [setT, upd_other _ _ _ _ hut] at hu hc ⊢
        have h1 := hl.obj u o' hu
        have ho : o' ≠ o := fun e => by subst e; rw [hot] at h1; exact hut (Option.some.inj h1).symm
        rw [upd_other _ _ _ _ ho] at hc
        exact ha.loop u o' hu c hc

end SI

theorem ainv_reach (progs : Fin n → List Op) (s : St n) (h : Reach progs s) : AInv s := by
  induction h with
  | init => exact ainv_init progs
  | step s s' hr hs ih =>
    have hl := linv_reach progs s hr
    cases hs with
    | thr _ t pick h => exact ainv_tstep hl ih (next0_tstep _ _ _ _ h)
    | env e =>
      obtain ⟨h1, h2, h3, h4, h5, _, h7, _, _, _⟩ := env_frame s e
      refine ⟨?_, ?_⟩
      · intro o c how hc
        rw [h7] at how; rw [h2] at hc
        have := ih.free o c how hc
        simp only [due] at this ⊢; rw [h3, h4, h5]; exact this
      · intro t o hu c hc
        rw [h1] at hu ⊢; rw [h2] at hc
        have := ih.loop t o hu c hc
        simp only [due] at this ⊢; rw [h3, h4, h5]; exact this

/-! ## The theorems -/

/-- `got` is the tail of the observable: what `c` received through `o` (delivery records) ends with what it got since its last join -/
theorem got_suffix (progs : Fin n → List Op) (s : St n) (h : Reach progs s) (o : Obj) (c : Conn) : ∃ pre, recv s c o = pre ++ s.got o c := by
  induction h with
  | init => exact ⟨[], rfl⟩
  | step s s' hr hs ih =>
    obtain ⟨pre, hp⟩ := ih
    cases hs with
    | env e =>
      obtain ⟨_, _, h3, _, _, h6, _, _, _, _⟩ := env_frame s e
      exact ⟨pre, by simp only [recv] at hp ⊢; rw [h3, h6]; exact hp⟩
    | thr _ t pick h =>
      cases next0_tstep _ _ _ _ h with
      | quiet s' h => exact ⟨pre, by simp only [recv] at hp ⊢; rw [h.got, h.dlv]; exact hp⟩
      | join o1 th' done' left' hpc how hnin hth' =>
        by_cases hoc : o = o1 ∧ c = (s.thr t).cur.conn
        · obtain ⟨rfl, rfl⟩ := hoc
          exact ⟨recv s (s.thr t).cur.conn o, by simp [recv]⟩
        · refine ⟨pre, ?_⟩
          simp only [recv] at hp ⊢
          rw [upd2_other _ _ _ _ _ _ hoc]; exact hp
      | p3 o1 hpc how => exact ⟨pre, hp⟩
      | p4nil o1 sent hpc => exact ⟨pre, hp⟩
      | p4cons o1 sent c0 todo pick hpc hpick => exact ⟨pre, hp⟩
      | pwdead o1 sent c' rest hpc hcs => exact ⟨pre, hp⟩
      | pwready o1 sent c' rest hpc hcs =>
        refine ⟨pre, ?_⟩
        simp only [recv, setT, List.filter_append, List.map_append] at hp ⊢
        by_cases hoc : o = o1 ∧ c = c'
        · obtain ⟨rfl, rfl⟩ := hoc
          simp at hp ⊢
          rw [hp, List.append_assoc]
        · rw [upd2_other _ _ _ _ _ _ hoc, hp]
          have : ¬ (c' = c ∧ o1 = o) := fun e => hoc ⟨e.2.symm, e.1.symm⟩
          simp [this]

/-- **healthy_not_affected** (C19, slow consumers).  In every reachable state — any number of goroutines, any schedule, the environment stalling,
    resuming and killing any connections at any time — every member `c` of every channel object `o` has got exactly the messages published on `o`
    since it joined, once each, in publish order (`got = due`), or a Send `t` holds `o`'s lock, has not visited `c` yet, and exactly its message is
    still missing. -/
theorem healthy_not_affected (progs : Fin n → List Op) (s : St n) (h : Reach progs s) (o : Obj) (c : Conn) (hm : c ∈ s.subs o) :
    s.got o c = due s o c ∨
    ∃ t, s.ow o = some t ∧ inLoop o (s.thr t).pc = true ∧ c ∈ pending (s.thr t).pc ∧ s.got o c ++ [(s.thr t).cur.payload] = due s o c := by
  have hl := linv_reach progs s h
  have ha := ainv_reach progs s h
  cases how : s.ow o with
  | none => exact .inl (ha.free o c how hm)
  | some t =>
    have hin := hl.held o t how
    have h1 := ha.loop t o hin c hm
    by_cases hp : c ∈ pending (s.thr t).pc
    · exact .inr ⟨t, rfl, hin, hp, h1.1 hp⟩
    · exact .inl (h1.2 hp)

/-! ### The hypotheses are satisfiable in a non-trivial way

Two goroutines: thread 0 subscribes connections 1 and 2 to channel `a`, thread 1 publishes `[1]` on it.  After the Send has taken the channel
object's lock the environment stalls connection 1; Go's `range` yields connection 2 first (delivered), then connection 1: the sender sits inside
`Write` on the stalled connection 1 with the lock held (`next0 = none`: no step).  Connection 2, healthy, has its message (`got = due = [[1]]`);
connection 1 is the pending member that misses exactly this message (the second disjunct of `healthy_not_affected`). -/
namespace SI

def exProgs : Fin 2 → List Op
| 0 => [.subscribe 1 [97], .subscribe 2 [97]]
| 1 => [.send [97] [1]]

def exSched : List (Act 2) :=
  [.thr 0 0, .thr 0 0, .thr 0 0, .thr 0 0, .thr 0 0, .thr 0 0, .thr 0 0, .thr 0 0,
   .thr 1 0, .thr 1 0, .thr 1 0, .env (.stall 1), .thr 1 2, .thr 1 0, .thr 1 1]

theorem ex_eval :
    (runSched (init exProgs) exSched).map (fun s =>
      decide ((s.thr 1).pc = .pw 0 [2] 1 []) && decide (s.cs 1 = .stalled) && decide (s.cs 2 = .ready) &&
      decide (s.subs 0 = [1, 2]) && decide (s.ow 0 = some 1) &&
      decide (s.got 0 2 = [[1]]) && decide (due s 0 2 = [[1]]) &&
      decide (s.got 0 1 = []) && decide (due s 0 1 = [[1]]) && (next0 s 1 0).isNone) = some true := by decide

/-- a reachable state in which the sender is blocked inside `Write` on the stalled connection 1, holding the lock of object 0, while the healthy
    member 2 already has the message and member 1 is the pending one -/
theorem ex_reach : ∃ s : St 2, Reach exProgs s ∧ (s.thr 1).pc = .pw 0 [2] 1 [] ∧ s.cs 1 = .stalled ∧ s.cs 2 = .ready ∧
    2 ∈ s.subs 0 ∧ 1 ∈ s.subs 0 ∧ s.ow 0 = some 1 ∧ next0 s 1 0 = none ∧
    s.got 0 2 = due s 0 2 ∧ s.got 0 2 = [[1]] ∧
    1 ∈ pending (s.thr 1).pc ∧ s.got 0 1 ++ [(s.thr 1).cur.payload] = due s 0 1 := by
  have h := ex_eval
  cases hr : runSched (init exProgs) exSched with
  | none => rw [hr] at h; cases h
  | some s =>
    rw [hr] at h
    simp only [Option.map_some, Option.some.injEq, Bool.and_eq_true, decide_eq_true_eq, Option.isNone_iff_eq_none] at h
    obtain ⟨⟨⟨⟨⟨⟨⟨⟨⟨h1, h2⟩, h3⟩, h4⟩, h5⟩, h6⟩, h7⟩, h8⟩, h9⟩, h10⟩ := h
    have hreach : Reach exProgs s := reach_runSched exProgs exSched _ _ Reach.init hr
    have hm2 : 2 ∈ s.subs 0 := by rw [h4]; simp
    have hm1 : 1 ∈ s.subs 0 := by rw [h4]; simp
    refine ⟨s, hreach, h1, h2, h3, hm2, hm1, h5, h10, by rw [h6, h7], h6, by rw [h1]; simp [pending], ?_⟩
    -- the pending member: by the theorem itself
    rcases healthy_not_affected exProgs s hreach 0 1 hm1 with hg | ⟨t, ht, _, _, hg⟩
    · rw [h8, h9] at hg; cases hg
    · rw [h5] at ht; obtain rfl := Option.some.inj ht; exact hg

end SI

/-- when a Send returns (its step from `p4 o sent []`), every member of `o` has the message: nothing is left missing -/
theorem send_end_complete (progs : Fin n → List Op) (s : St n) (h : Reach progs s) (t : Fin n) (o : Obj) (sent : List Conn)
    (hpc : (s.thr t).pc = .p4 o sent []) (c : Conn) (hm : c ∈ s.subs o) : s.got o c = due s o c := by
  have ha := ainv_reach progs s h
  have hin : inLoop o (s.thr t).pc = true := by rw [hpc]; simp [inLoop]
  exact (ha.loop t o hin c hm).2 (by rw [hpc]; simp [pending])

/-- **never pruned while alive**: a step removes `c` from `o`'s subscriber set only if `c` is dead (the prune in Send) or the step is an
    UnSubscribe of `c` itself -/
theorem removed_only_dead_or_unsubscribed (progs : Fin n → List Op) (s s' : St n) (h : Reach progs s) (hs : Step s s') (o : Obj) (c : Conn)
    (hm : c ∈ s.subs o) (hn : c ∉ s'.subs o) :
    s.cs c = .dead ∨ ∃ t, (s.thr t).pc = .u2 o ∧ (s.thr t).cur.conn = c := by
  have hni := ninv_reach progs s h
  cases hs with
  | env e => rw [(env_frame s e).2.1] at hn; exact absurd hm hn
  | thr _ t pick h =>
    cases next0_tstep _ _ _ _ h with
    | quiet s' h =>
      rcases h.subs o with h1 | ⟨_, h1⟩ | ⟨h1, h2⟩
      · rw [h1] at hn; exact absurd hm hn
      · rw [hni.fresh o h1] at hm; cases hm
      · rw [h2] at hn
        by_cases hcc : c = (s.thr t).cur.conn
        · exact .inr ⟨t, h1, hcc.symm⟩
        · exact absurd ((List.mem_erase_of_ne hcc).2 hm) hn
    | join o1 th' done' left' hpc how hnin hth' =>
      exfalso; apply hn
      by_cases ho : o = o1
      · subst ho; simp [hm]
      · simp [upd_other _ _ _ _ ho, hm]
    | p3 o1 hpc how => exact absurd hm hn
    | p4nil o1 sent hpc => exact absurd hm hn
    | p4cons o1 sent c0 todo pick hpc hpick => exact absurd hm hn
    | pwready o1 sent c' rest hpc hcs => exact absurd hm hn
    | pwdead o1 sent c' rest hpc hcs =>
      by_cases ho : o = o1
      · subst ho
        simp only [setT, upd_same] at hn
        by_cases hcc : c = c'
        · subst hcc; exact .inl hcs
        · exact absurd ((List.mem_erase_of_ne hcc).2 hm) hn
      · simp only [setT, upd_other _ _ _ _ ho] at hn; exact absurd hm hn

/-- what a member gets is monotone: a step never takes a message back and appends at most the current Send's message -/
theorem got_grows (s s' : St n) (hs : Step s s') (o : Obj) (c : Conn) (hm : c ∈ s.subs o) (hm' : c ∈ s'.subs o) :
    s'.got o c = s.got o c ∨ ∃ m, s'.got o c = s.got o c ++ [m] := by
  cases hs with
  | env e => rw [(env_frame s e).2.2.1]; exact .inl rfl
  | thr _ t pick h =>
    cases next0_tstep _ _ _ _ h with
    | quiet s' h => rw [h.got]; exact .inl rfl
    | join o1 th' done' left' hpc how hnin hth' =>
      have hoc : ¬ (o = o1 ∧ c = (s.thr t).cur.conn) := fun e => by
        obtain ⟨rfl, rfl⟩ := e; exact hnin hm
      exact .inl (upd2_other _ _ _ _ _ _ hoc)
    | p3 o1 hpc how => exact .inl rfl
    | p4nil o1 sent hpc => exact .inl rfl
    | p4cons o1 sent c0 todo pick hpc hpick => exact .inl rfl
    | pwdead o1 sent c' rest hpc hcs => exact .inl rfl
    | pwready o1 sent c' rest hpc hcs =>
      by_cases hoc : o = o1 ∧ c = c'
      · obtain ⟨rfl, rfl⟩ := hoc
        exact .inr ⟨(s.thr t).cur.payload, upd2_same _ _ _ _⟩
      · exact .inl (upd2_other _ _ _ _ _ _ hoc)

#print axioms linv_reach
#print axioms ainv_reach
#print axioms got_suffix
#print axioms env_frame
#print axioms healthy_not_affected
#print axioms send_end_complete
#print axioms removed_only_dead_or_unsubscribed
#print axioms got_grows
#print axioms SI.ex_reach

end PSS
