import RedisGoModel.Generated.Sites
/-!
# C04 — fact F3 closed in Lean: index safety of the executors, regenerated from the Go source on every run

`Generated/Sites.lean` is rewritten by every `./check` run from /repo's source (harness `facts` engine, `harness/sites.go`: go/ast +
go/types, a forward analysis of the length guards that dominate every index / slice / division site of memdb, server, resp, util,
raftexample).  This file holds the proof obligations about that data; they are re-proved on every run, so a source change that removes
or weakens a guard makes the build fail, which the check reports as a broken proof obligation of C04.

* `const_sites_safe`: every `x[c]`, `x[len(x)-k]`, `x[a:b]`, `… % len(x)` with constant bounds on a local `x` needs no more elements than
  the guards on every path to it guarantee (a `cmd[3]` behind `len(cmd) < 3` breaks it).
* `rel_sites_safe`: the same for `x[v+d]` with an integer local `v` (`needed = d+1 ≤ c` where the guards give `len(x) ≥ v + c`).
* `executor_entry_safe`: the one assumption the analysis of a registered executor starts from (`len(cmd) ≥ executorEntryMin`: the command
  name is there) holds at every call of an executor in the source.
* `const_access_defined` / `rel_access_defined`: what the numbers mean — any list at least as long as the guaranteed minimum has every
  element the site reads.
* `nil_unguarded_inventory`: non-`,ok` type assertions and dereferences of values returned by nil-capable lookups (`LPop`, `Index`,
  `GetByName`, `ExecCommand`, …) are classed `guarded` when a `, ok` flag tested true or a `!= nil` test dominates them on every path; the
  unguarded ones are exactly the reviewed list `expectedNilUnguarded`.  A new `x := list.Index(i); x.Val` without a nil test breaks it.
* `dynamic_inventory`: the sites for which the extractor established NO bound are exactly the hand-reviewed list `expectedDynamic`
  (each with the reason it cannot go out of range, or that only the enumeration covers it).  A new unguarded site breaks it.

Partial / trusted: the extractor's dominator analysis is Go code, not verified (its rules are in the header of `harness/sites.go`); the
reviewed reasons in `expectedDynamic` / `expectedNilUnguarded` are prose, checked by a human and exercised by the suites named there; nil
dereferences other than those of nil-capable lookup results, writes to nil maps and explicit `panic` calls are not in the inventory; facts
about struct-field paths (`s.timeStamps`, `state.bulkLen`) ignore other goroutines and die at every call.  So C04's panic-freedom of the Go executors is: Lean-checked arithmetic over
extracted guards for the 221 + 74 guarded sites (at the time of writing), reviewed list + bounded-exhaustive enumeration for
the 115 others.
-/
namespace Sites

/-- (file, function, line, length the access needs, guaranteed minimum length) -/
abbrev Site := String × String × Nat × Nat × Nat

def needed (s : Site) : Nat := s.2.2.2.1
def minLen (s : Site) : Nat := s.2.2.2.2

/-- every constant-bound site is within what its dominating guards guarantee — re-proved against the regenerated list on every run -/
theorem const_sites_safe : ∀ s ∈ Generated.constSites, needed s ≤ minLen s := by decide +kernel

/-- every variable-offset site `x[v+d]` is within the guaranteed `len(x) ≥ v + c` -/
theorem rel_sites_safe : ∀ s ∈ Generated.relSites, needed s ≤ minLen s := by decide +kernel

/-- every call of a registered executor passes a command at least as long as the analysis of the executors assumes -/
theorem executor_entry_safe : ∀ c ∈ Generated.executorCalls, Generated.executorEntryMin ≤ c.2.2.2 := by decide +kernel

/-- the assumption is the expected one: the command name is present -/
theorem executor_entry_is_one : Generated.executorEntryMin = 1 := by decide

/-- the inventory is not vacuous -/
theorem sites_nonempty : 150 ≤ Generated.constSites.length ∧ 40 ≤ Generated.relSites.length ∧ 3 ≤ Generated.executorCalls.length := by
  decide +kernel

/-- meaning of the numbers: a slice at least as long as the guaranteed minimum has every element a constant-bound site reads -/
theorem const_access_defined {α : Type} : ∀ s ∈ Generated.constSites, ∀ (xs : List α), minLen s ≤ xs.length →
    ∀ i, i + 1 ≤ needed s → ∃ a, xs[i]? = some a := by
  intro s hs xs hlen i hi
  have h := const_sites_safe s hs
  have hlt : i < xs.length := by omega
  exact ⟨xs[i], List.getElem?_eq_getElem hlt⟩

/-- the same for `x[v+d]`: with `len(x) ≥ v + c` and `d + 1 ≤ c` the element `v + d` exists -/
theorem rel_access_defined {α : Type} : ∀ s ∈ Generated.relSites, ∀ (xs : List α) (v : Nat), v + minLen s ≤ xs.length →
    ∀ i, i + 1 ≤ needed s → ∃ a, xs[v + i]? = some a := by
  intro s hs xs v hlen i hi
  have h := rel_sites_safe s hs
  have hlt : v + i < xs.length := by omega
  exact ⟨xs[v + i], List.getElem?_eq_getElem hlt⟩

/-- the hypotheses are satisfiable on a real entry: the first constant site of the list, a three-word command -/
example : ∃ s ∈ Generated.constSites, minLen s ≤ ([1, 2, 3] : List Nat).length ∧ 0 + 1 ≤ needed s := by decide +kernel

/-- The sites with NO extracted bound, reviewed by hand: (file, function, kind + normalised source text), sorted, no line numbers.
    The comment above each entry says why it stays in range — or that only the suites cover it. -/
def expectedDynamic : List (String × String × String) := [
  -- pos = HashKey(key) % m.size with HashKey = int(uint32) >= 0 and m.size = len(m.table) in 1..MaxConSize (NewConcurrentMap), table never resized; a key-independent invariant, exercised by every command of every suite
  ("memdb/concurrentmap.go", "(*ConcurrentMap).Delete", "index m.table[pos]"),
  -- pos = HashKey(key) % m.size with HashKey = int(uint32) >= 0 and m.size = len(m.table) in 1..MaxConSize (NewConcurrentMap), table never resized; a key-independent invariant, exercised by every command of every suite
  ("memdb/concurrentmap.go", "(*ConcurrentMap).Get", "index m.table[pos]"),
  -- Len() is the element counter, never negative (incremented on insert, decremented on a successful delete); only the enumeration / C01 suites cover it
  ("memdb/concurrentmap.go", "(*ConcurrentMap).Keys", "make make([]string, 0, m.Len())"),
  -- pos = HashKey(key) % m.size with HashKey = int(uint32) >= 0 and m.size = len(m.table) in 1..MaxConSize (NewConcurrentMap), table never resized; a key-independent invariant, exercised by every command of every suite
  ("memdb/concurrentmap.go", "(*ConcurrentMap).SetIfExist", "index m.table[pos]"),
  -- pos = HashKey(key) % m.size with HashKey = int(uint32) >= 0 and m.size = len(m.table) in 1..MaxConSize (NewConcurrentMap), table never resized; a key-independent invariant, exercised by every command of every suite
  ("memdb/concurrentmap.go", "(*ConcurrentMap).SetIfNotExist", "index m.table[pos]"),
  -- m.size >= 1: NewConcurrentMap replaces size <= 0 by MaxConSize
  ("memdb/concurrentmap.go", "(*ConcurrentMap).getKeyPos", "div util.HashKey(key) % m.size"),
  -- pos = HashKey(key) % m.size with HashKey = int(uint32) >= 0 and m.size = len(m.table) in 1..MaxConSize (NewConcurrentMap), table never resized; a key-independent invariant, exercised by every command of every suite
  ("memdb/concurrentmap.go", "(*ConcurrentMap).getShard", "index m.table[m.getKeyPos(key)]"),
  -- i < size = len(m.table) (table made with that size two lines above; a field, so not tracked)
  ("memdb/concurrentmap.go", "NewConcurrentMap", "index m.table[i]"),
  -- m.ttlKeys only ever receives *TTLInfo (the single ttlKeys.Set is in SetTTL); covered by the C06 suites and the crash enumeration's volatile keys
  ("memdb/db.go", "(*MemDb).CheckTTL", "assert ttl.(*TTLInfo)"),
  -- m.ttlKeys only ever receives *TTLInfo (the single ttlKeys.Set is in SetTTL); covered by the C06 suites and the crash enumeration's volatile keys
  ("memdb/db.go", "(*MemDb).CheckTTL", "assert ttl.(*TTLInfo)"),
  -- m.ttlKeys only ever receives *TTLInfo (the single ttlKeys.Set is in SetTTL); covered by the C06 suites and the crash enumeration's volatile keys
  ("memdb/db.go", "(*MemDb).DelTTL", "assert ttlTmp.(*TTLInfo)"),
  -- m.ttlKeys only ever receives *TTLInfo (the single ttlKeys.Set is in SetTTL); covered by the C06 suites and the crash enumeration's volatile keys
  ("memdb/db.go", "(*MemDb).SetTTL", "assert ttlInfoTmp.(*TTLInfo)"),
  -- len(l.locks) = 2*ShardNum fixed at start-up: zero only for a ShardNum <= 0 CONFIGURATION (not client input; NewLocks(negative) already panics at start-up)
  ("memdb/dblock.go", "(*Locks).GetKeyPos", "div pos % len(l.locks)"),
  -- pos = HashKey(key) % len(l.locks) (GetKeyPos / sortedLockPoses), so 0 <= pos < len(l.locks); l.locks is never resized; exercised by every keyed command (hook H2 records pos)
  ("memdb/dblock.go", "(*Locks).Lock", "index l.locks[pos]"),
  -- pos = HashKey(key) % len(l.locks) (GetKeyPos / sortedLockPoses), so 0 <= pos < len(l.locks); l.locks is never resized; exercised by every keyed command (hook H2 records pos)
  ("memdb/dblock.go", "(*Locks).LockMulti", "index l.locks[pos]"),
  -- pos = HashKey(key) % len(l.locks) (GetKeyPos / sortedLockPoses), so 0 <= pos < len(l.locks); l.locks is never resized; exercised by every keyed command (hook H2 records pos)
  ("memdb/dblock.go", "(*Locks).RLock", "index l.locks[pos]"),
  -- pos = HashKey(key) % len(l.locks) (GetKeyPos / sortedLockPoses), so 0 <= pos < len(l.locks); l.locks is never resized; exercised by every keyed command (hook H2 records pos)
  ("memdb/dblock.go", "(*Locks).RLockMulti", "index l.locks[pos]"),
  -- pos = HashKey(key) % len(l.locks) (GetKeyPos / sortedLockPoses), so 0 <= pos < len(l.locks); l.locks is never resized; exercised by every keyed command (hook H2 records pos)
  ("memdb/dblock.go", "(*Locks).RUnLock", "index l.locks[pos]"),
  -- pos = HashKey(key) % len(l.locks) (GetKeyPos / sortedLockPoses), so 0 <= pos < len(l.locks); l.locks is never resized; exercised by every keyed command (hook H2 records pos)
  ("memdb/dblock.go", "(*Locks).RUnLockMulti", "index l.locks[pos]"),
  -- pos = HashKey(key) % len(l.locks) (GetKeyPos / sortedLockPoses), so 0 <= pos < len(l.locks); l.locks is never resized; exercised by every keyed command (hook H2 records pos)
  ("memdb/dblock.go", "(*Locks).UnLock", "index l.locks[pos]"),
  -- pos = HashKey(key) % len(l.locks) (GetKeyPos / sortedLockPoses), so 0 <= pos < len(l.locks); l.locks is never resized; exercised by every keyed command (hook H2 records pos)
  ("memdb/dblock.go", "(*Locks).UnLockMulti", "index l.locks[pos]"),
  -- poses = make([]int, len(set)) and i counts the iterations of `range set`: i < len(set)
  ("memdb/dblock.go", "(*Locks).sortedLockPoses", "index poses[i]"),
  -- i < size = len(locks) (made with that size on the previous line; size is a parameter, not a len expression)
  ("memdb/dblock.go", "NewLocks", "index locks[i]"),
  -- size = 2*ShardNum from the configuration, at start-up only — not client input
  ("memdb/dblock.go", "NewLocks", "make make([]*sync.RWMutex, size)"),
  -- m.ttlKeys only ever receives *TTLInfo (the single ttlKeys.Set is in SetTTL); covered by the C06 suites and the crash enumeration's volatile keys
  ("memdb/keys.go", "expireKey", "assert v.(*TTLInfo)"),
  -- m.ttlKeys only ever receives *TTLInfo (the single ttlKeys.Set is in SetTTL); covered by the C06 suites and the crash enumeration's volatile keys
  ("memdb/keys.go", "expireKey", "assert v.(*TTLInfo)"),
  -- m.ttlKeys only ever receives *TTLInfo (the single ttlKeys.Set is in SetTTL); covered by the C06 suites and the crash enumeration's volatile keys
  ("memdb/keys.go", "renameKey", "assert oldTTL.(*TTLInfo)"),
  -- m.ttlKeys only ever receives *TTLInfo (the single ttlKeys.Set is in SetTTL); covered by the C06 suites and the crash enumeration's volatile keys
  ("memdb/keys.go", "ttlKey", "assert ttl.(*TTLInfo)"),
  -- bXPopList is called only by blPopList / brPopList after `len(cmd) < 3` returned (const sites there); enumeration covers blpop/brpop at every arity
  ("memdb/list.go", "bXPopList", "index cmd[len(cmd)-1]"),
  -- same callers: len(cmd) >= 3, so 1 <= len(cmd)-1
  ("memdb/list.go", "bXPopList", "slice cmd[1 : len(cmd)-1]"),
  -- start <= end is checked just above (`start > end … return nil`), so end-start+1 >= 1; model Ds/ListIdx + C09 suites
  ("memdb/list_struct.go", "(*List).Range", "make make([][]byte, 0, end-start+1)"),
  -- ChanBufferSize comes from the configuration (default 10), not from client input
  ("memdb/pubsub_struct.go", "(*ChanMap).Create", "make make(chan *ChanMsg, config.Configures.ChanBufferSize)"),
  -- ChanMap.item only ever receives *Chan (single item.Set in Create); C19 suites
  ("memdb/pubsub_struct.go", "(*ChanMap).Send", "assert channelTmp.(*Chan)"),
  -- ChanMap.item only ever receives *Chan (single item.Set in Create); C19 suites
  ("memdb/pubsub_struct.go", "(*ChanMap).Subscribe", "assert channelTmp.(*Chan)"),
  -- ChanMap.item only ever receives *Chan (single item.Set in Create); C19 suites
  ("memdb/pubsub_struct.go", "(*ChanMap).UnSubscribe", "assert channelTmp.(*Chan)"),
  -- reached only when no key was missing, so sets has one entry per key (>= 1) and shortestSet = len(sets)-1 at the time it was set (0 initially); C11 suites + enumeration
  ("memdb/sets.go", "sInterSet", "index sets[shortestSet]"),
  -- same: 0 <= shortestSet < len(sets)
  ("memdb/sets.go", "sInterSet", "slice sets[:shortestSet]"),
  -- same: shortestSet+1 <= len(sets)
  ("memdb/sets.go", "sInterSet", "slice sets[shortestSet+1:]"),
  -- reached only when no key was missing, so sets has one entry per key (>= 1) and shortestSet = len(sets)-1 at the time it was set (0 initially); C11 suites + enumeration
  ("memdb/sets.go", "sInterStoreSet", "index sets[shortestSet]"),
  -- same: 0 <= shortestSet < len(sets)
  ("memdb/sets.go", "sInterStoreSet", "slice sets[:shortestSet]"),
  -- same: shortestSet+1 <= len(sets)
  ("memdb/sets.go", "sInterStoreSet", "slice sets[shortestSet+1:]"),
  -- Set.Len() is len of a Go map
  ("memdb/sets.go", "sUnionSet", "make make([]resp.RedisData, 0, resSet.Len())"),
  -- count < 0 here; -count overflows only for count = MinInt64, which sRandMemberSet / sPopSet refuse before calling (fix for SRANDMEMBER k -9223372036854775808); the enumeration alphabet contains -2^63
  ("memdb/sets_struct.go", "(*Set).Random", "make make([]string, 0, -count)"),
  -- count > 0 in this branch (and clamped to Len())
  ("memdb/sets_struct.go", "(*Set).Random", "make make([]string, 0, count)"),
  -- m.ttlKeys only ever receives *TTLInfo (the single ttlKeys.Set is in SetTTL); covered by the C06 suites and the crash enumeration's volatile keys
  ("memdb/snapshot.go", "(*MemDb).GetSnapshot", "assert ttl.(*TTLInfo)"),
  -- i from `range file.Keys` (a field: not tracked); nothing in the loop changes file.Keys
  ("memdb/snapshot.go", "(*MemDb).LoadSnapshot", "index file.Keys[i]"),
  -- i from `range file.Keys` (a field: not tracked); nothing in the loop changes file.Keys
  ("memdb/snapshot.go", "(*MemDb).LoadSnapshot", "index file.Keys[i]"),
  -- i from `range file.Keys` (a field: not tracked); nothing in the loop changes file.Keys
  ("memdb/snapshot.go", "(*MemDb).LoadSnapshot", "index file.Keys[i]"),
  -- i from `range file.Keys` (a field: not tracked); nothing in the loop changes file.Keys
  ("memdb/snapshot.go", "(*MemDb).LoadSnapshot", "index file.Keys[i]"),
  -- values = make([]any, len(file.Keys)), i from `range file.Keys`
  ("memdb/snapshot.go", "(*MemDb).LoadSnapshot", "index values[i]"),
  -- values = make([]any, len(file.Keys)), i from `range file.Keys`
  ("memdb/snapshot.go", "(*MemDb).LoadSnapshot", "index values[i]"),
  -- Fields: make([][]byte, len(vals)) in the literal above, i from `range vals`
  ("memdb/snapshot.go", "snapshotValue", "index e.Fields[i]"),
  -- t.Len is the list's element counter (>= 0: List invariant, C09 list_never_empty / Ds/ListIdx)
  ("memdb/snapshot.go", "snapshotValue", "make make([][]byte, 0, t.Len)"),
  -- generic reverse: 0 <= i < j <= len(s)-1 by the loop condition (type parameter S: not a tracked slice type)
  ("memdb/sorted_set.go", "reverse", "index s[i]"),
  -- generic reverse: 0 <= i < j <= len(s)-1 by the loop condition (type parameter S: not a tracked slice type)
  ("memdb/sorted_set.go", "reverse", "index s[i]"),
  -- same loop: i < j <= len(s)-1
  ("memdb/sorted_set.go", "reverse", "index s[j]"),
  -- same loop: i < j <= len(s)-1
  ("memdb/sorted_set.go", "reverse", "index s[j]"),
  -- i runs from idx in steps of 2 and elements = len(cmd)-idx was checked even and non-zero: i+1 < len(cmd); parity relative to a computed idx is beyond the extractor; C12 suites + enumeration
  ("memdb/sorted_set.go", "zadd", "index cmd[i+1]"),
  -- scores got one entry per pair in the identical loop above
  ("memdb/sorted_set.go", "zadd", "index scores[(i-idx)/2]"),
  -- elements = len(cmd)-idx with idx <= len(cmd) (idx only advances inside `i < len(cmd)`), checked non-zero
  ("memdb/sorted_set.go", "zadd", "make make([]float64, 0, elements/2)"),
  -- inside `if byscore {`: unreachable — the BYSCORE option returns the empty array at option parsing, byscore is never true past that loop
  ("memdb/sorted_set.go", "zrange", "index cmd[2][0]"),
  -- same dead BYSCORE block
  ("memdb/sorted_set.go", "zrange", "index cmd[3][0]"),
  -- SortedSet.Len() is a counter of inserted names, >= 0
  ("memdb/sorted_set.go", "zrange", "make make([]*SortedSetMember, 0, NumOfMembers)"),
  -- same dead BYSCORE block
  ("memdb/sorted_set.go", "zrange", "slice cmd[2][1:]"),
  -- same dead BYSCORE block
  ("memdb/sorted_set.go", "zrange", "slice cmd[3][1:]"),
  -- same dead BYSCORE block (and guarded by count <= len(members))
  ("memdb/sorted_set.go", "zrange", "slice members[:count]"),
  -- same dead BYSCORE block (and guarded by 0 <= offset < len(members))
  ("memdb/sorted_set.go", "zrange", "slice members[offset:]"),
  -- same dead BYSCORE block — NOT safe if it were reachable (scoreIdxStart = -1 when nothing matches); probed: ZRANGE z 5 6 BYSCORE answers *0
  ("memdb/sorted_set.go", "zrange", "slice members[scoreIdxStart : scoreIdxEnd+1]"),
  -- SortedSet.Len() >= 0
  ("memdb/sorted_set.go", "zrangeByIndex", "make make([]*SortedSetMember, 0, sortedSet.Len())"),
  -- start <= end < llen after the clamps above; model cmdZRange + C12 suites (numeric extremes in the alphabet)
  ("memdb/sorted_set.go", "zrangeByIndex", "make make([]resp.RedisData, 0, 2*(end-start+1))"),
  -- 0 <= start <= end <= llen-1 after the clamps above; C12 zrange theorems are about the model, the tie is the C12 suite
  ("memdb/sorted_set.go", "zrangeByIndex", "slice all[start : end+1]"),
  -- the tree is instantiated only with *SortedSetNode (SortedSet[*SortedSetNode])
  ("memdb/sorted_set_struct.go", "(*SortedSetNode).Comp", "assert val.(*SortedSetNode)"),
  -- idx <= len(cmd): every idx++ follows an `idx < len(cmd)` / `idx+1 < len(cmd)` test of the option loop; C18 suites + enumeration (XADD options in the alphabet)
  ("memdb/stream.go", "xadd", "slice cmd[idx:]"),
  -- count > 0 && len(ids) > count, and Stream.Range returns ids and entries of equal length
  ("memdb/stream.go", "xrange", "slice entries[:count]"),
  -- after `len(s.timeStamps) == 0` returned (a field: not tracked); callers hold the key's write lock
  ("memdb/stream_struct.go", "(*Stream).DropFirst", "index s.timeStamps[0]"),
  -- same guard
  ("memdb/stream_struct.go", "(*Stream).DropFirst", "slice s.timeStamps[1:]"),
  -- n < length = len(s.timeStamps) here; n >= 0: callers pass a non-negative trim count (xadd computes len - threshold > 0); C18 suites
  ("memdb/stream_struct.go", "(*Stream).DropFirstN", "slice s.timeStamps[:n]"),
  -- same
  ("memdb/stream_struct.go", "(*Stream).DropFirstN", "slice s.timeStamps[n:]"),
  -- 0 <= start <= end <= len(byteVal) after the clamps above; model cmdGetRange, C01 suites with numeric extremes
  ("memdb/string.go", "getRangeString", "slice byteVal[start:end]"),
  -- keys and vals are appended in lockstep in the loop above: len(vals) = len(keys)
  ("memdb/string.go", "mSetString", "index vals[i]"),
  -- newLen = offset+len(cmd[3]) with 0 <= offset and the sum <= maxStringLen checked above (fix fd7d047 for the overflow)
  ("memdb/string.go", "setRangeString", "make make([]byte, newLen)"),
  -- offset <= newLen = len(newVal)
  ("memdb/string.go", "setRangeString", "slice newVal[offset:]"),
  -- m.ttlKeys only ever receives *TTLInfo (the single ttlKeys.Set is in SetTTL); covered by the C06 suites and the crash enumeration's volatile keys
  ("memdb/string.go", "setString", "assert ttl.(*TTLInfo)"),
  -- r.RequestURI of a request net/http accepted is never empty; the HTTP KV API is not started by RedisGO's main
  ("raftexample/httpapi.go", "(*httpKVAPI).ServeHTTP", "slice key[1:]"),
  -- r.RequestURI of a request net/http accepted is never empty; the HTTP KV API is not started by RedisGO's main
  ("raftexample/httpapi.go", "(*httpKVAPI).ServeHTTP", "slice key[1:]"),
  -- net.Listen(tcp, …) returns *net.TCPListener
  ("raftexample/listener.go", "newStoppableListener", "assert ln.(*net.TCPListener)"),
  -- guarded by `rc.appliedIndex-firstIdx+1 < uint64(len(ents))` (uint64 arithmetic; firstIdx <= appliedIndex+1 or log.Fatalf)
  ("raftexample/raft.go", "(*RaftNode).entriesToApply", "slice ents[rc.appliedIndex-firstIdx+1:]"),
  -- guarded by 1 <= id <= len(rc.Peers) (fix of the seen-at-pin slice-out-of-range)
  ("raftexample/raft.go", "(*RaftNode).forgetPeer", "index rc.Peers[id-1]"),
  -- i from `range rc.Peers` (a field: not tracked)
  ("raftexample/raft.go", "(*RaftNode).startRaft", "index rc.Peers[i]"),
  -- i from `range rc.Peers` (a field: not tracked)
  ("raftexample/raft.go", "(*RaftNode).startRaft", "index rc.Peers[i]"),
  -- copied from io.ReadAll: len(b) <= len(append(b, 0))
  ("resp/parser.go", "ReadAll", "slice append(b, 0)[:len(b)]"),
  -- n <= cap(b)-len(b) by the io.Reader contract
  ("resp/parser.go", "ReadAll", "slice b[:len(b)+n]"),
  -- len <= cap
  ("resp/parser.go", "ReadAll", "slice b[len(b):cap(b)]"),
  -- msg comes from readLine's line branch, which returns only len(msg) >= 2; model Resp.parse + C02 exhaustive suite
  ("resp/parser.go", "parse", "index msg[0]"),
  -- header lines: msg[0] is '*' / '$' and msg ends in CR LF, so len(msg) >= 3; C02
  ("resp/parser.go", "parseArrayHeader", "slice msg[1 : len(msg)-2]"),
  -- header lines: msg[0] is '*' / '$' and msg ends in CR LF, so len(msg) >= 3; C02
  ("resp/parser.go", "parseBulkHeader", "slice msg[1 : len(msg)-2]"),
  -- msg comes from readLine's line branch, which returns only len(msg) >= 2; model Resp.parse + C02 exhaustive suite
  ("resp/parser.go", "parseSingleLine", "index msg[0]"),
  -- i from `range m.filters`; returns right after the change
  ("server/cmd_middleware.go", "(*middleware).Delete", "slice m.filters[:i]"),
  -- same: i+1 <= len
  ("server/cmd_middleware.go", "(*middleware).Delete", "slice m.filters[i+1:]"),
  -- len(m.DBs) = cfg.Databases >= 1 (config.go refuses Databases <= 0) — configuration, not client input
  ("server/db_manager.go", "(*Manager).Handle", "index m.DBs[0]"),
  -- cfg.Databases >= 1 from the configuration
  ("server/db_manager.go", "NewManager", "index DBs[0]"),
  -- cfg.Databases >= 1 from the configuration
  ("server/db_manager.go", "NewManager", "index DBs[0]"),
  -- i < cfg.Databases = len(DBs)
  ("server/db_manager.go", "NewManager", "index DBs[i]"),
  -- i < cfg.Databases = len(DBs)
  ("server/db_manager.go", "NewManager", "index DBs[i]"),
  -- cfg.Databases from the configuration (>= 1)
  ("server/db_manager.go", "NewManager", "make make([]*memdb.MemDb, cfg.Databases)"),
  -- the glob matcher: index arithmetic over patPos/srcPos with recursion on suffixes — proved on the model (Props/C17, Glob.lean) and tied by the exhaustive C17 suites, not by the extractor
  ("util/util.go", "PattenMatch", "index pattern[patPos+1]"),
  -- the glob matcher: index arithmetic over patPos/srcPos with recursion on suffixes — proved on the model (Props/C17, Glob.lean) and tied by the exhaustive C17 suites, not by the extractor
  ("util/util.go", "PattenMatch", "index pattern[patPos+1]"),
  -- the glob matcher: index arithmetic over patPos/srcPos with recursion on suffixes — proved on the model (Props/C17, Glob.lean) and tied by the exhaustive C17 suites, not by the extractor
  ("util/util.go", "PattenMatch", "index pattern[patPos]"),
  -- the glob matcher: index arithmetic over patPos/srcPos with recursion on suffixes — proved on the model (Props/C17, Glob.lean) and tied by the exhaustive C17 suites, not by the extractor
  ("util/util.go", "PattenMatch", "index pattern[patPos]"),
  -- the glob matcher: index arithmetic over patPos/srcPos with recursion on suffixes — proved on the model (Props/C17, Glob.lean) and tied by the exhaustive C17 suites, not by the extractor
  ("util/util.go", "PattenMatch", "index src[srcPos]"),
  -- the glob matcher: index arithmetic over patPos/srcPos with recursion on suffixes — proved on the model (Props/C17, Glob.lean) and tied by the exhaustive C17 suites, not by the extractor
  ("util/util.go", "PattenMatch", "index src[srcPos]"),
  -- the glob matcher: index arithmetic over patPos/srcPos with recursion on suffixes — proved on the model (Props/C17, Glob.lean) and tied by the exhaustive C17 suites, not by the extractor
  ("util/util.go", "PattenMatch", "index src[srcPos]"),
  -- the glob matcher: index arithmetic over patPos/srcPos with recursion on suffixes — proved on the model (Props/C17, Glob.lean) and tied by the exhaustive C17 suites, not by the extractor
  ("util/util.go", "PattenMatch", "index src[srcPos]"),
  -- the glob matcher: index arithmetic over patPos/srcPos with recursion on suffixes — proved on the model (Props/C17, Glob.lean) and tied by the exhaustive C17 suites, not by the extractor
  ("util/util.go", "PattenMatch", "index src[srcPos]"),
  -- the glob matcher: index arithmetic over patPos/srcPos with recursion on suffixes — proved on the model (Props/C17, Glob.lean) and tied by the exhaustive C17 suites, not by the extractor
  ("util/util.go", "PattenMatch", "slice pattern[patPos:]")]

/-- the unguarded sites in the source are exactly the reviewed ones — re-proved against the regenerated list on every run -/
theorem dynamic_inventory : Generated.dynamicSites = expectedDynamic := by decide +kernel

/-- Non-`,ok` type assertions and dereferences of possibly-nil lookup results that NO presence / nil test dominates, reviewed by hand:
    (file, function, kind + text `<-` the nil-capable callee). -/
def expectedNilUnguarded : List (String × String × String) := [
  -- reached only after `srcList.Len == 0` returned: Len >= 1, so LPop / RPop return a node (List invariant: Len counts the nodes between Head and Tail; C09 list_never_empty, Ds/ListIdx); LMOVE is in the C09 / C13 suites incl. single-element and src = dst
  ("memdb/list.go", "lMoveList", "deref popElem.Val <- RPop"),
  -- same value, second use
  ("memdb/list.go", "lMoveList", "deref popElem.Val <- RPop"),
  -- same value, third use
  ("memdb/list.go", "lMoveList", "deref popElem.Val <- RPop"),
  -- the tree is instantiated only with *SortedSetNode (SortedSet[*SortedSetNode]); val is a parameter, not a lookup result
  ("memdb/sorted_set_struct.go", "(*SortedSetNode).Comp", "assert val.(*SortedSetNode)"),
  -- net.Listen(tcp, …) returned without error: the listener is a *net.TCPListener; start-up, not client input
  ("raftexample/listener.go", "newStoppableListener", "assert ln.(*net.TCPListener)"),
  -- Manager.ExecCommand returns nil only for an empty command; this branch runs only when cmdStrings[0] is `rconf`, i.e. len(cmd) >= 1 (cmd and cmdStrings come from the same array); cluster mode
  ("server/db_manager.go", "(*Manager).HandleCluster", "deref res.ToBytes <- ExecCommand")]

/-- the assertions / dereferences without a dominating presence or nil test are exactly the reviewed ones; the guarded ones
    (`Generated.nilGuardedSites`: `v, ok := m.ttlKeys.Get(k)` … `v.(*TTLInfo)` behind `ok`, `node := GetByName(…)` … `node.Value` behind `node != nil`)
    need no review of reachability — the TYPE asserted on a present value is still the reviewed homogeneity of the container, see `expectedDynamic` -/
theorem nil_unguarded_inventory : Generated.nilUnguardedSites = expectedNilUnguarded := by decide +kernel

/-- the guard recognition is not vacuous -/
theorem nil_guarded_nonempty : 15 ≤ Generated.nilGuardedSites.length := by decide +kernel

end Sites
