import RedisGoModel.Props.C08SnapParse
import RedisGoModel.Props.GlobalFrame
/-! # C08 — sorting by key, rebuilding the containers: the facts about `sort.Strings`, `Set.Add`, `Hash.Set` and the sorted-set
    insertion that turn `Snap.decode_encode_raw` into the round-trip theorems of `Props/C08Snap.lean` -/
namespace Snap
open Exec (Db Entry Value StreamId StreamEntry bytesLt sortBy insertSorted sortBytes)
open Exec.C06T (bytesLt_asymm bytesLt_tricho bytesLe_trans)

/-! ### sorting by key (`sort.Strings` on distinct strings) -/

section sortK
variable {β : Type}

def kLe (a b : Bytes × β) : Prop := bytesLt b.1 a.1 = false

theorem insK_perm (x : Bytes × β) : ∀ (l : List (Bytes × β)), (insertSorted keyLt x l).Perm (x :: l)
| [] => by simp [insertSorted]
| y :: ys => by
  unfold insertSorted
  split
  · exact List.Perm.refl _
  · exact ((insK_perm x ys).cons y).trans (List.Perm.swap x y ys)

theorem sortK_perm : ∀ (l : List (Bytes × β)), (sortBy keyLt l).Perm l
| [] => by simp [sortBy]
| x :: xs => by
  have ih := sortK_perm xs
  unfold sortBy at ih ⊢
  rw [List.foldr_cons]
  exact (insK_perm x _).trans (ih.cons x)

theorem insK_sorted (x : Bytes × β) : ∀ (l : List (Bytes × β)), l.Pairwise kLe → (insertSorted keyLt x l).Pairwise kLe
| [], _ => by simp [insertSorted]
| y :: ys, h => by
  unfold insertSorted
  rw [List.pairwise_cons] at h
  split
  · rename_i hlt
    rw [List.pairwise_cons]
    refine ⟨?_, List.pairwise_cons.mpr h⟩
    intro z hz
    have hxy : kLe x y := bytesLt_asymm x.1 y.1 hlt
    rcases List.mem_cons.mp hz with rfl | hz
    · exact hxy
    · exact bytesLe_trans x.1 y.1 z.1 hxy (h.1 z hz)
  · rename_i hlt
    rw [List.pairwise_cons]
    refine ⟨?_, insK_sorted x ys h.2⟩
    intro z hz
    have := (insK_perm x ys).subset hz
    rcases List.mem_cons.mp this with rfl | hz
    · simpa [kLe, keyLt] using hlt
    · exact h.1 z hz

theorem sortK_sorted : ∀ (l : List (Bytes × β)), (sortBy keyLt l).Pairwise kLe
| [] => by simp [sortBy]
| x :: xs => by
  have ih := sortK_sorted xs
  unfold sortBy at ih ⊢
  rw [List.foldr_cons]
  exact insK_sorted x _ ih

theorem eq_of_key {l : List (Bytes × β)} (hn : (l.map (·.1)).Nodup) {a b : Bytes × β} (ha : a ∈ l) (hb : b ∈ l) (h : a.1 = b.1) : a = b := by
  induction l with
  | nil => cases ha
  | cons x xs ih =>
    rw [List.map_cons, List.nodup_cons] at hn
    rcases List.mem_cons.mp ha with rfl | ha' <;> rcases List.mem_cons.mp hb with rfl | hb'
    · rfl
    · exact absurd (List.mem_map.mpr ⟨b, hb', h.symm⟩) hn.1
    · exact absurd (List.mem_map.mpr ⟨a, ha', h⟩) hn.1
    · exact ih hn.2 ha' hb'

/-- sorting by key forgets the order of the input (keys distinct) -/
theorem sortK_of_perm {l₁ l₂ : List (Bytes × β)} (h : l₁.Perm l₂) (hn : (l₁.map (·.1)).Nodup) : sortBy keyLt l₁ = sortBy keyLt l₂ := by
  refine List.Perm.eq_of_pairwise (le := kLe) ?_ (sortK_sorted l₁) (sortK_sorted l₂)
    ((sortK_perm l₁).trans (h.trans (sortK_perm l₂).symm))
  intro x y hx hy hxy hyx
  have hx' : x ∈ l₁ := (sortK_perm l₁).subset hx
  have hy' : y ∈ l₁ := h.symm.subset ((sortK_perm l₂).subset hy)
  exact eq_of_key hn hx' hy' (bytesLt_tricho x.1 y.1 hyx hxy)

theorem sortK_nodup {l : List (Bytes × β)} (hn : (l.map (·.1)).Nodup) : ((sortBy keyLt l).map (·.1)).Nodup :=
  (((sortK_perm l).map (·.1)).nodup_iff).mpr hn

theorem sortK_idem {l : List (Bytes × β)} (hn : (l.map (·.1)).Nodup) : sortBy keyLt (sortBy keyLt l) = sortBy keyLt l :=
  sortK_of_perm (sortK_perm l) (sortK_nodup hn)

/-- sorting commutes with a map that keeps the keys -/
theorem insK_map {γ : Type} (f : Bytes × β → Bytes × γ) (hf : ∀ p, (f p).1 = p.1) (x : Bytes × β) :
    ∀ l, insertSorted keyLt (f x) (l.map f) = (insertSorted keyLt x l).map f
| [] => rfl
| y :: ys => by
  simp only [List.map_cons, insertSorted, keyLt, hf]
  by_cases h : bytesLt x.1 y.1 = true
  · simp [h]
  · have h' : bytesLt x.1 y.1 = false := by simpa using h
    simp [h', insK_map f hf x ys]

theorem sortK_map {γ : Type} (f : Bytes × β → Bytes × γ) (hf : ∀ p, (f p).1 = p.1) : ∀ l, sortBy keyLt (l.map f) = (sortBy keyLt l).map f
| [] => rfl
| x :: xs => by
  have ih := sortK_map f hf xs
  unfold sortBy at ih ⊢
  rw [List.map_cons, List.foldr_cons, List.foldr_cons, ih, insK_map f hf]

end sortK


/-! ### the containers are rebuilt as written -/

theorem foldl_sadd : ∀ (l acc : List Bytes), (acc ++ l).Nodup → l.foldl sadd acc = acc ++ l
| [], acc, _ => by simp
| x :: xs, acc, hn => by
  have hx : x ∉ acc := by
    intro h
    have := List.nodup_append.mp hn
    exact this.2.2 x h x (by simp) rfl
  have hc : acc.contains x = false := by simpa using hx
  have ih := foldl_sadd xs (acc ++ [x]) (by simpa [List.append_assoc] using hn)
  simp only [List.foldl_cons, sadd, hc]
  simpa [List.append_assoc] using ih

theorem foldl_hput : ∀ (l acc : List (Bytes × Bytes)), ((acc ++ l).map (·.1)).Nodup → l.foldl hput acc = acc ++ l
| [], acc, _ => by simp
| x :: xs, acc, hn => by
  have hx : acc.any (fun q => q.1 == x.1) = false := by
    rw [List.any_eq_false]
    intro q hq he
    rw [List.map_append, List.nodup_append] at hn
    exact hn.2.2 q.1 (List.mem_map.mpr ⟨q, hq, rfl⟩) x.1 (by simp) (by simpa using he)
  have ih := foldl_hput xs (acc ++ [x]) (by simpa [List.append_assoc] using hn)
  simp only [List.foldl_cons, hput, hx]
  simpa [List.append_assoc] using ih

theorem zfold_inv : ∀ (l : List (Bytes × Int)) (t : ZT.T), ZT.Inv t → (l.map (·.1)).Nodup → (∀ p ∈ l, ∀ s, (p.1, s) ∉ ZT.members t) →
    ZT.Inv (l.foldl (fun t p => ZT.insert t p.2 p.1) t) ∧
      ∀ q, q ∈ ZT.members (l.foldl (fun t p => ZT.insert t p.2 p.1) t) ↔ q ∈ ZT.members t ∨ q ∈ l
| [], t, hi, _, _ => ⟨hi, fun q => by simp⟩
| x :: xs, t, hi, hn, hnew => by
  rw [List.map_cons, List.nodup_cons] at hn
  have hi' := ZT.inv_insert hi x.2 x.1 (hnew x (by simp))
  have hnew' : ∀ p ∈ xs, ∀ s, (p.1, s) ∉ ZT.members (ZT.insert t x.2 x.1) := by
    intro p hp s hm
    rcases (ZT.mem_insert hi x.2 x.1 _).mp hm with e | hm
    · have : p.1 = x.1 := by simpa using congrArg Prod.fst e
      exact hn.1 (this ▸ List.mem_map.mpr ⟨p, hp, rfl⟩)
    · exact hnew p (by simp [hp]) s hm
  obtain ⟨h1, h2⟩ := zfold_inv xs _ hi' hn.2 hnew'
  refine ⟨h1, fun q => ?_⟩
  rw [List.foldl_cons, h2 q, ZT.mem_insert hi]
  simp only [List.mem_cons]
  constructor
  · rintro ((rfl | h) | h)
    · exact Or.inr (Or.inl rfl)
    · exact Or.inl h
    · exact Or.inr (Or.inr h)
  · rintro (h | rfl | h)
    · exact Or.inl (Or.inr h)
    · exact Or.inl (Or.inl rfl)
    · exact Or.inr h

theorem zbuild_inv {l : List (Bytes × Int)} (hn : (l.map (·.1)).Nodup) : ZT.Inv (zbuild l) :=
  (zfold_inv l .nil ZT.inv_nil hn (fun p _ s h => by simp [ZT.members, ZT.nodes, ZT.flat] at h)).1

theorem mem_zbuild {l : List (Bytes × Int)} (hn : (l.map (·.1)).Nodup) (q : Bytes × Int) : q ∈ ZT.members (zbuild l) ↔ q ∈ l := by
  have := (zfold_inv l .nil ZT.inv_nil hn (fun p _ s h => by simp [ZT.members, ZT.nodes, ZT.flat] at h)).2 q
  simpa [ZT.members, ZT.nodes, ZT.flat, zbuild] using this

theorem nodup_of_map {α β : Type} (f : α → β) {l : List α} (h : (l.map f).Nodup) : l.Nodup := by
  unfold List.Nodup at h ⊢
  exact List.Pairwise.of_map f (fun a b hab e => hab (by rw [e])) h

theorem members_zbuild_perm {l : List (Bytes × Int)} (hn : (l.map (·.1)).Nodup) : (ZT.members (zbuild l)).Perm l :=
  (List.perm_ext_iff_of_nodup (nodup_of_map _ (ZT.names_nodup (zbuild_inv hn))) (nodup_of_map _ hn)).mpr (mem_zbuild hn)

theorem mlt_asymm {a b : Bytes × Int} (h1 : ZT.mlt a b) (h2 : ZT.mlt b a) : False := by
  unfold ZT.mlt at h1 h2
  rcases h1 with h1 | ⟨e1, b1⟩ <;> rcases h2 with h2 | ⟨e2, b2⟩
  · omega
  · omega
  · omega
  · have := ZT.blt_asymm _ _ b1; rw [this] at b2; cases b2


end Snap
