import RedisGoModel.Props.C05FootBase
/-! C05 footprint theorems: hash commands (`hashTable`) -/
namespace Exec.Foot
open Resp (Reply Bytes)
open Exec

theorem t_hset : CmdFoot cmdHSet fpHSet := by
  intro env args; unfold fpHSet; split
  · split
    · unfold cmdHSet; ft_none
    · ft_keys_w cmdHSet hashWrite
  · unfold cmdHSet; ft_none
theorem t_hsetnx : CmdFoot cmdHSetNx (fpK4 true) := by
  intro env args; unfold fpK4; split
  · ft_keys_w cmdHSetNx hashWrite
  · unfold cmdHSetNx; ft_none
theorem t_hget : CmdFoot cmdHGet (fpK3 false) := by
  intro env args; unfold fpK3; split
  · ft_keys_r cmdHGet hashRead
  · unfold cmdHGet; ft_none
theorem t_hmget : CmdFoot cmdHMGet (fpKge3 false) := by
  intro env args; unfold fpKge3; split
  · ft_keys_r cmdHMGet hashRead
  · unfold cmdHMGet; ft_none
theorem t_hgetall : CmdFoot cmdHGetAll (fpK2 false) := by
  intro env args; unfold fpK2; split
  · ft_keys_r cmdHGetAll hashRead
  · unfold cmdHGetAll; ft_none
theorem t_hkeys : CmdFoot cmdHKeys (fpK2 false) := by
  intro env args; unfold fpK2; split
  · ft_keys_r cmdHKeys hashRead
  · unfold cmdHKeys; ft_none
theorem t_hvals : CmdFoot cmdHVals (fpK2 false) := by
  intro env args; unfold fpK2; split
  · ft_keys_r cmdHVals hashRead
  · unfold cmdHVals; ft_none
theorem t_hlen : CmdFoot cmdHLen (fpK2 false) := by
  intro env args; unfold fpK2; split
  · ft_keys_r cmdHLen hashRead
  · unfold cmdHLen; ft_none
theorem t_hexists : CmdFoot cmdHExists (fpK3 false) := by
  intro env args; unfold fpK3; split
  · ft_keys_r cmdHExists hashRead
  · unfold cmdHExists; ft_none
theorem t_hstrlen : CmdFoot cmdHStrLen (fpK3 false) := by
  intro env args; unfold fpK3; split
  · ft_keys_r cmdHStrLen hashRead
  · unfold cmdHStrLen; ft_none
theorem t_hdel : CmdFoot cmdHDel (fpKge3 true) := by
  intro env args; unfold fpKge3; split
  · ft_keys_w cmdHDel hashWrite
  · unfold cmdHDel; ft_none
theorem t_hincrby : CmdFoot cmdHIncrBy (fpK4 true) := by
  intro env args; unfold fpK4; split
  · ft_keys_w cmdHIncrBy hashWrite
  · unfold cmdHIncrBy; ft_none
theorem t_hincrbyfloat : CmdFoot cmdHIncrByFloat (fpK4 true) := by
  intro env args; unfold fpK4; split
  · ft_keys_w cmdHIncrByFloat hashWrite
  · unfold cmdHIncrByFloat; ft_none
theorem t_hrandfield : CmdFoot cmdHRandField (fpK2to4 false) := by
  intro env args; unfold fpK2to4; split
  · ft_keys_r cmdHRandField hrandWithCount hashRead
  · ft_keys_r cmdHRandField hrandWithCount hashRead
  · ft_keys_r cmdHRandField hrandWithCount hashRead
  · unfold cmdHRandField; ft_none

end Exec.Foot
